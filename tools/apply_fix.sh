#!/bin/sh
# tools/apply_fix.sh <diff> <commit message>   - apply one reviewed repair to /repo as its own "fix:" commit
set -e
D="$(readlink -f "$1")"; shift
git -C /repo apply --check "$D"
git -C /repo apply "$D"
git -C /repo commit -qam "$1"
git -C /repo log --oneline -1
