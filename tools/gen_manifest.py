#!/venv/bin/python
"""Regenerates MANIFEST.json from the table below (kept valid at all times)."""
import json
import os

VERIF = os.path.dirname(os.path.dirname(os.path.abspath(__file__)))
ALL = ["C%02d" % i for i in range(1, 21)]

# property -> technique / level text / level note / design section: tools/checks.json (edit with tools/register.py)
CHECKS = dict((k, (v["technique"], v["text"], v["note"], v["ref"]))
              for k, v in json.load(open(os.path.join(VERIF, "tools", "checks.json"))).items())

def main():
    checks = []
    for pid in ALL:
        if pid not in CHECKS:
            continue
        tech, text, note, ref = CHECKS[pid]
        checks.append({
            "property_id": pid,
            "quick_cmd": "./check %s --tier quick" % pid,
            "thorough_cmd": "./check %s --tier thorough" % pid,
            "evidence_file": "/verif/evidence/%s.json" % pid,
            "replay_cmd_template": "./check %s --replay {path}" % pid,
            "engine": "tlc-judge",
            "level_claimed": {"category": "model_checking", "text": text, "design_ref": ref},
            "level_note": note,
            "technique": tech,
        })
    man = {
        "version": 1,
        "setup_cmd": "./setup.sh",
        "hooks": {
            "guard": "DENDROPY_VERIF",
            "enable": "no source hooks are used: checks import the working tree via PYTHONPATH=$VERIF_REPO/src (default /repo) and drive the public API; DENDROPY_VERIF is reserved and unused",
            "baseline_off_cmd": "cd /repo && /venv/bin/python -m pytest -ra -q -p no:cacheprovider --timeout=900 --continue-on-collection-errors",
            "source_commits": [],
            "add_only": True,
        },
        "engines": [{"name": "tlc-judge", "path": "/verif/check",
                     "serves_properties": [c["property_id"] for c in checks],
                     "kind_free_text": "explicit TLA+ specifications (spec/*.tla) model-checked with TLC; spec behaviours replayed into the real library; real executions logged as ndjson traces and validated by TLC trace specifications (spec/Trace_*.tla) with total verdicts"}],
        "checks": checks,
        "notes": "See DESIGN.md. Exit codes of ./check: 0 held, 1 VIOLATION line(s), 2 machinery failure. Fix commits in /repo are listed in known_findings.json (status fixed).",
        "not_applicable": [{"property_id": p, "reason": "check not built yet in this session (planned, see DESIGN.md section 4); not claimed until it exists and passes on the unchanged tree"}
                           for p in ALL if p not in CHECKS],
    }
    with open(os.path.join(VERIF, "MANIFEST.json"), "w") as f:
        json.dump(man, f, indent=1)
        f.write("\n")

if __name__ == "__main__":
    main()
