#!/venv/bin/python
"""Run the repository's pinned suite (guard off, no hooks exist) and compare with /root/.vp/BASELINE.json."""
import json, os, subprocess, sys, tempfile
import xml.etree.ElementTree as ET
base = json.load(open("/root/.vp/BASELINE.json"))
want = set(base["stable_pass"])
out = tempfile.mkdtemp(prefix="baseline_")
xml = os.path.join(out, "junit.xml")
cmd = ["/venv/bin/python", "-m", "pytest", "-q", "-p", "no:cacheprovider", "--timeout=900",
       "--continue-on-collection-errors", "-n", os.environ.get("BASELINE_JOBS", "8"), "--junitxml=" + xml]
subprocess.call(cmd, cwd=sys.argv[1] if len(sys.argv) > 1 else "/repo", stdout=subprocess.DEVNULL, stderr=subprocess.DEVNULL)
passed = set()
for tc in ET.parse(xml).getroot().iter("testcase"):
    if not any(ch.tag in ("failure", "error", "skipped") for ch in tc):
        passed.add("%s::%s" % (tc.get("classname"), tc.get("name")))
def norm(s):
    return s
missing = sorted(want - passed)
# classname may include the class: tests.x.Class::name vs tests.x::name ; try loose match
if missing:
    loose = set()
    for p in passed:
        mod, _, name = p.partition("::")
        parts = mod.split(".")
        for k in range(len(parts), 0, -1):
            loose.add(".".join(parts[:k]) + "::" + name)
            loose.add(".".join(parts[:k]) + "::" + ".".join(parts[k:] + [name]) if k < len(parts) else p)
            loose.add(".".join(parts[:k]) + "::" + "::".join(parts[k:] + [name]))
    missing = [m for m in missing if m not in loose]
print("baseline: %d pinned, %d passed now, %d pinned tests not passing" % (len(want), len(passed), len(missing)))
for m in missing[:20]:
    print("  NOT PASSING:", m)
subprocess.call(["rm", "-rf", out])
sys.exit(1 if missing else 0)
