#!/bin/sh
# tools/try_patch.sh <patch.diff> <Cxx> [tier]  - run a check against a scratch worktree of /repo with the patch applied
set -e
P="$(readlink -f "$1")"; PROP="$2"; TIER="${3:-quick}"
W="/tmp/vmut_$$"
git -C /repo worktree add --detach -q "$W" HEAD
trap 'git -C /repo worktree remove --force "$W" >/dev/null 2>&1 || rm -rf "$W"' EXIT
git -C "$W" apply "$P"
cd "$(dirname "$0")/.."
set +e
VERIF_REPO="$W" ./check "$PROP" --tier "$TIER" | grep -v '^\[C' | head -${LINES_MAX:-12}
echo "exit=$?"
