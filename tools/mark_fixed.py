#!/venv/bin/python
"""tools/mark_fixed.py <Cxx> <sha> <finding-id> [<finding-id> ...]   (ids may be prefixes; '*' = all open ones)
Flip open entries of known_findings/<Cxx>.json to status 'fixed' recording the /repo commit."""
import json, sys
prop, sha, ids = sys.argv[1], sys.argv[2], sys.argv[3:]
p = "/verif/known_findings/%s.json" % prop
d = json.load(open(p))
n = 0
for f in d["findings"]:
    if f.get("status") == "open" and any(i == "*" or f.get("id", "").startswith(i) for i in ids):
        f["status"] = "fixed"
        f["commit"] = sha
        w = f.get("what", f.get("id", ""))
        if not w.startswith("fixed:"):
            f["what"] = "fixed: property=%s %s %s" % (prop, sha, w)
        n += 1
json.dump(d, open(p, "w"), indent=1)
print("%s: %d entr%s marked fixed (%s)" % (prop, n, "y" if n == 1 else "ies", sha))
