#!/bin/sh
# tools/seed_sweep.sh <seed> [props...] - quick tier of every check under another VERIF_SEED (false-alarm hunting)
S="$1"; shift
VERIF_SEED="$S" exec "$(dirname "$0")/run_all.sh" quick "$@"
