#!/venv/bin/python
"""merge partial result tables (written with SEEDED_RESULTS=...) into seeded/RESULTS.md"""
import sys, os
V = os.path.dirname(os.path.dirname(os.path.abspath(__file__)))
main = os.path.join(V, "seeded", "RESULTS.md")
rows = {}
hdr = []
for f in [main] + sys.argv[1:]:
    if not os.path.exists(f):
        continue
    for line in open(f):
        if line.startswith("| C"):
            rows[line.split("|")[1].strip()] = line
        elif f == main and not line.startswith("| C"):
            hdr.append(line)
with open(main, "w") as out:
    out.write("".join(hdr) if hdr else "# Seeded changes vs. the registered checks\n\n| id | property | demonstration | quick check | failing clauses | change |\n|---|---|---|---|---|---|\n")
    for k in sorted(rows):
        out.write(rows[k])
print(len(rows), "rows")
