#!/venv/bin/python
"""tools/register.py <Cxx> <technique> <level text> <trusted base / assumptions>   - register a check and regenerate MANIFEST.json"""
import json, os, subprocess, sys
V = os.path.dirname(os.path.dirname(os.path.abspath(__file__)))
p = os.path.join(V, "tools", "checks.json")
d = json.load(open(p))
pid, tech, text, note = sys.argv[1:5]
d[pid] = {"technique": tech, "text": text, "note": note, "ref": "DESIGN.md section 4 %s and section 10" % pid}
json.dump(d, open(p, "w"), indent=1, sort_keys=True)
subprocess.check_call(["/venv/bin/python", os.path.join(V, "tools", "gen_manifest.py")])
print("registered", pid, "->", len(d), "checks")
