#!/venv/bin/python
"""Run registered checks against every kept seeded change (seeded/<id>/patch.diff) in a scratch worktree.

usage: tools/run_seeded.py [--only ID ...] [--tier quick]     -> writes seeded/RESULTS.md
A seeded change is "caught" when the property's check exits 1 with a VIOLATION line.
"""
import json, os, subprocess, sys, time
VERIF = os.path.dirname(os.path.dirname(os.path.abspath(__file__)))
SEEDED = os.path.join(VERIF, "seeded")

def sh(cmd, **kw):
    return subprocess.run(cmd, stdout=subprocess.PIPE, stderr=subprocess.STDOUT, universal_newlines=True, **kw)

def main():
    only = None
    tier = "quick"
    args = sys.argv[1:]
    if "--tier" in args:
        tier = args[args.index("--tier") + 1]
    if "--only" in args:
        only = set(a for a in args[args.index("--only") + 1:] if not a.startswith("--"))
    rows = []
    for sid in sorted(os.listdir(SEEDED)):
        d = os.path.join(SEEDED, sid)
        if not os.path.isfile(os.path.join(d, "patch.diff")) or (only and sid not in only):
            continue
        meta = json.load(open(os.path.join(d, "meta.json")))
        prop = meta["property"]
        wt = "/tmp/vseed_%s_%d" % (sid, os.getpid())
        sh(["git", "-C", "/repo", "worktree", "add", "--detach", "-q", wt, "HEAD"])
        try:
            demo_clean = sh(["/venv/bin/python", os.path.join(d, "demo.py")], env=dict(os.environ, PYTHONPATH=wt + "/src"), cwd=wt).returncode
            ap = sh(["git", "-C", wt, "apply", os.path.join(d, "patch.diff")])
            if ap.returncode != 0:
                rows.append((sid, prop, "patch does not apply", "", "", meta.get("summary", "")))
                continue
            demo_mut = sh(["/venv/bin/python", os.path.join(d, "demo.py")], env=dict(os.environ, PYTHONPATH=wt + "/src"), cwd=wt).returncode
            t0 = time.time()
            r = sh([os.path.join(VERIF, "check"), prop, "--tier", tier], env=dict(os.environ, VERIF_REPO=wt), cwd=VERIF)
            viol = [l for l in r.stdout.splitlines() if l.startswith("VIOLATION")]
            clauses = sorted(set(l.strip().split(" (")[0] for l in r.stdout.splitlines() if l.strip().startswith("clause=")))
            rows.append((sid, prop, "demo clean=%d mutated=%d" % (demo_clean, demo_mut),
                         "CAUGHT" if (r.returncode == 1 and viol) else "MISSED (exit %d)" % r.returncode,
                         "; ".join(clauses[:4]) + (" [%.0fs]" % (time.time() - t0)), meta.get("summary", "")))
        finally:
            sh(["git", "-C", "/repo", "worktree", "remove", "--force", wt])
        print(rows[-1][:4]); sys.stdout.flush()
    res = os.environ.get("SEEDED_RESULTS", os.path.join(SEEDED, "RESULTS.md"))
    old = {}
    if only and os.path.exists(res):
        for line in open(res):
            if line.startswith("| ") and not line.startswith("| id") and not line.startswith("|--"):
                old[line.split("|")[1].strip()] = line
    with open(res, "w") as f:
        f.write("# Seeded changes (independent sub-agents, property text only) vs. the registered checks\n\n")
        f.write("| id | property | demonstration | %s check | failing clauses | change |\n|---|---|---|---|---|---|\n" % tier)
        new = {r[0]: "| " + " | ".join(str(x).replace("|", "/") for x in r) + " |\n" for r in rows}
        old.update(new)
        for k in sorted(old):
            f.write(old[k])

if __name__ == "__main__":
    main()
