#!/venv/bin/python
"""Regenerates DESIGN.md section 10.3-10.6 tables (fix commits, open findings, seeded results) from the repository
state; the prose of section 10 lives in tools/design_section10_prose.md."""
import glob, json, os, subprocess, re
V = os.path.dirname(os.path.dirname(os.path.abspath(__file__)))
design = open(os.path.join(V, "DESIGN.md")).read()
head = design.split("\n## 10. Build log")[0]
prose = open(os.path.join(V, "tools", "design_section10_prose.md")).read()

# fixes: map commit -> properties via known_findings
fixed = {}
openf = []
for p in sorted(glob.glob(os.path.join(V, "known_findings", "C*.json"))):
    for f in json.load(open(p))["findings"]:
        if f.get("status") == "fixed":
            fixed.setdefault(f.get("commit", "?")[:8], set()).add(f["property"])
        elif f.get("status") == "open":
            openf.append(f)
log = subprocess.check_output(["git", "-C", "/repo", "log", "--reverse", "--format=%h\t%s"], universal_newlines=True)
rows = []
for line in log.splitlines():
    sha, subj = line.split("\t", 1)
    if subj.startswith("fix:"):
        props = ", ".join(sorted(fixed.get(sha[:8], []))) or "(follow-up)"
        rows.append("| %s | %s | %s |" % (sha, props, subj[4:].strip()))
fix_tbl = "| commit | found by check(s) | defect repaired |\n|---|---|---|\n" + "\n".join(rows)

seen = set()
orow = []
for f in openf:
    if f["id"] in seen:
        continue
    seen.add(f["id"])
    orow.append("| %s | %s | %s | %s |" % (f["property"], f["id"], f.get("match", {}).get("class", ""), f.get("what", "").replace("|", "/")[:420]))
open_tbl = "| property | finding id | class computed by the trace spec | what fails / why not repaired |\n|---|---|---|---|\n" + "\n".join(orow)

seed_tbl = ""
rp = os.path.join(V, "seeded", "RESULTS.md")
if os.path.exists(rp):
    lines = [l for l in open(rp) if l.startswith("| C")]
    out = []
    for l in lines:
        c = [x.strip() for x in l.strip().strip("|").split("|")]
        out.append("| %s | %s | %s | %s |" % (c[0], c[3], c[4][:160], c[5][:230]))
    seed_tbl = "| seeded change | quick check | failing clauses (first) | what the change does |\n|---|---|---|---|\n" + "\n".join(out)

size_rows = []
for f in sorted(glob.glob(os.path.join(V, "evidence", "C*.json"))):
    e = json.load(open(f)); c = e["coverage"]
    size_rows.append("| %s | %s | %s | %s | %s | %s | %s | %s |" % (e["property_id"], e["tier"], c.get("states"), c.get("transitions"),
                     c.get("traces_validated_against_impl"), c.get("judged_events"), c.get("distinct_nontrivial"), int(e.get("wall_s", 0))))
size_tbl = ("| id | tier | model states | model transitions | real executions | events judged by TLC | distinct non-trivial | wall s |\n"
            "|---|---|---|---|---|---|---|---|\n" + "\n".join(size_rows))
text = prose.replace("{{SIZE_TABLE}}", size_tbl).replace("{{FIX_TABLE}}", fix_tbl).replace("{{OPEN_TABLE}}", open_tbl).replace("{{SEEDED_TABLE}}", seed_tbl)
text = text.replace("{{NFIX}}", str(len(rows)))
open(os.path.join(V, "DESIGN.md"), "w").write(head + "\n" + text)
print("DESIGN.md section 10 regenerated: %d fixes, %d open findings" % (len(rows), len(orow)))
