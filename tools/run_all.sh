#!/bin/sh
# tools/run_all.sh [quick|thorough] [Cxx ...] - run registered checks sequentially, one summary line each
cd "$(dirname "$0")/.."
mkdir -p .work
TIER="${1:-quick}"; shift 2>/dev/null
PROPS="$@"; [ -z "$PROPS" ] && PROPS="C01 C02 C03 C04 C05 C06 C07 C08 C09 C10 C11 C12 C13 C14 C15 C16 C17 C18 C19 C20"
for p in $PROPS; do
  s=$(date +%s)
  ./check $p --tier $TIER > .work/runall_$p.log 2>&1; rc=$?
  e=$(date +%s)
  echo "$p rc=$rc $((e-s))s $(grep -c '^KNOWN-FINDING' .work/runall_$p.log) known $(grep -c '^VIOLATION property' .work/runall_$p.log) viol | $(tail -1 .work/runall_$p.log | cut -c1-150)"
done
