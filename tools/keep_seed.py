#!/venv/bin/python
"""tools/keep_seed.py <src_change_dir> <seed_id>
Confirm a sub-agent's change independently in a scratch worktree (patch applies to HEAD; demo exits 0 without and
non-zero with the change; the pinned baseline suite still passes with the change) and keep it as seeded/<seed_id>/."""
import json, os, shutil, subprocess, sys
VERIF = os.path.dirname(os.path.dirname(os.path.abspath(__file__)))

def sh(cmd, **kw):
    return subprocess.run(cmd, stdout=subprocess.PIPE, stderr=subprocess.STDOUT, universal_newlines=True, **kw)

src, sid = sys.argv[1], sys.argv[2]
wt = "/tmp/vkeep_%s_%d" % (sid, os.getpid())
sh(["git", "-C", "/repo", "worktree", "add", "--detach", "-q", wt, "HEAD"])
ok = True
try:
    env = dict(os.environ, PYTHONPATH=wt + "/src")
    d0 = sh(["/venv/bin/python", os.path.join(src, "demo.py")], env=env, cwd=wt)
    ap = sh(["git", "-C", wt, "apply", os.path.join(src, "patch.diff")])
    d1 = sh(["/venv/bin/python", os.path.join(src, "demo.py")], env=env, cwd=wt)
    base = sh(["/venv/bin/python", os.path.join(VERIF, "tools", "baseline.py"), wt])
    print("apply rc=%d demo clean rc=%d mutated rc=%d; %s" % (ap.returncode, d0.returncode, d1.returncode, base.stdout.strip().splitlines()[0] if base.stdout.strip() else "?"))
    ok = ap.returncode == 0 and d0.returncode == 0 and d1.returncode != 0 and base.returncode == 0
    if ok:
        dst = os.path.join(VERIF, "seeded", sid)
        os.makedirs(dst, exist_ok=True)
        for f in ("patch.diff", "demo.py"):
            shutil.copy(os.path.join(src, f), os.path.join(dst, f))
        meta = json.load(open(os.path.join(src, "meta.json")))
        meta["confirmed"] = {"head": sh(["git", "-C", "/repo", "rev-parse", "--short", "HEAD"]).stdout.strip(),
                             "patch_applies": True, "demo_rc_unchanged": d0.returncode, "demo_rc_changed": d1.returncode,
                             "demo_output_changed": d1.stdout.strip()[-400:],
                             "baseline": base.stdout.strip().splitlines()[0],
                             "ran": "tools/keep_seed.py: scratch worktree of /repo HEAD, demo before/after git apply, tools/baseline.py on the patched worktree"}
        json.dump(meta, open(os.path.join(dst, "meta.json"), "w"), indent=1)
    else:
        print(d0.stdout[-300:], d1.stdout[-300:], base.stdout[-600:])
finally:
    sh(["git", "-C", "/repo", "worktree", "remove", "--force", wt])
sys.exit(0 if ok else 1)
