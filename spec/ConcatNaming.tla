---------------------------- MODULE ConcatNaming ----------------------------
(***************************************************************************)
(* C19 - termination of CharacterMatrix.concatenate: a PlusCal             *)
(* transcription of its subset-naming loop (charmatrixmodel.py):           *)
(*                                                                         *)
(*     for cidx, cm in enumerate(char_matrices):                           *)
(*         ...                                                             *)
(*         if cm.label is None: new_label = "locus%03d" % cidx             *)
(*         else:                new_label = cm.label                       *)
(*         cs_label = new_label                                            *)
(*         i = 2                                                           *)
(*         while cs_label in concatenated_chars.character_subsets:         *)
(*             label = "%s_%03d" % (new_label, i)     # as shipped         *)
(*             i += 1                                                      *)
(*         ...new_character_subset(label=cs_label, ...)                    *)
(*                                                                         *)
(* character_subsets is an OrderedCaselessDict: membership is by           *)
(* lower-cased key.  As shipped the loop assigns the new candidate to a    *)
(* dead variable `label`, so cs_label never changes (AsShipped = TRUE);    *)
(* the reference design assigns it to cs_label.                            *)
(* The counter i is unbounded in the code; here it wraps around at MaxI so *)
(* that the state space is finite.  That is sound: as shipped i is never   *)
(* read (the counterexample is a genuine lasso of Probe steps), and for    *)
(* the reference design CounterBelowCap shows the cap is never reached.    *)
(* Checked: Termination under weak fairness; at termination the recorded   *)
(* names are pairwise distinct (caseless) and equal CharMatrix!RefNames,   *)
(* the pure naming function used by OpConcatenate.                         *)
(***************************************************************************)
EXTENDS CharMatrix
CONSTANTS LabelAlphabet, MaxLists, MaxI, AsShipped

LabelLists == UNION {[1..n -> LabelAlphabet] : n \in 1..MaxLists}

(*--fair algorithm ConcatNaming
variables labels \in LabelLists,
          cidx = 0,
          names = <<>>,          \* keys of character_subsets in insertion order
          keys = {},             \* their lower-cased forms (the dict's real keys)
          base = "",
          cs = "",               \* cs_label
          cskey = "",            \* cs_label.lower(): what the caseless dict compares
          i = 2;
begin
Outer:
  while cidx < Len(labels) do
    base := BaseName(labels[cidx + 1], cidx);
    cs := base;
    cskey := LowerOf(base);
    i := 2;
  Probe:
    while cskey \in keys do
      if ~AsShipped then
        cs := SuffixName(base, i);
        cskey := SuffixName(LowerOf(base), i);
      end if;
      i := IF i < MaxI THEN i + 1 ELSE 2;
    end while;
  Record:
    names := Append(names, cs);
    keys := keys \cup {cskey};
    cidx := cidx + 1;
  end while;
end algorithm;*)
\* BEGIN TRANSLATION
VARIABLES pc, labels, cidx, names, keys, base, cs, cskey, i

vars == << pc, labels, cidx, names, keys, base, cs, cskey, i >>

Init == (* Global variables *)
        /\ labels \in LabelLists
        /\ cidx = 0
        /\ names = <<>>
        /\ keys = {}
        /\ base = ""
        /\ cs = ""
        /\ cskey = ""
        /\ i = 2
        /\ pc = "Outer"

Outer == /\ pc = "Outer"
         /\ IF cidx < Len(labels)
               THEN /\ base' = BaseName(labels[cidx + 1], cidx)
                    /\ cs' = base'
                    /\ cskey' = LowerOf(base')
                    /\ i' = 2
                    /\ pc' = "Probe"
               ELSE /\ pc' = "Done"
                    /\ UNCHANGED << base, cs, cskey, i >>
         /\ UNCHANGED << labels, cidx, names, keys >>

Probe == /\ pc = "Probe"
         /\ IF cskey \in keys
               THEN /\ IF ~AsShipped
                          THEN /\ cs' = SuffixName(base, i)
                               /\ cskey' = SuffixName(LowerOf(base), i)
                          ELSE /\ TRUE
                               /\ UNCHANGED << cs, cskey >>
                    /\ i' = (IF i < MaxI THEN i + 1 ELSE 2)
                    /\ pc' = "Probe"
               ELSE /\ pc' = "Record"
                    /\ UNCHANGED << cs, cskey, i >>
         /\ UNCHANGED << labels, cidx, names, keys, base >>

Record == /\ pc = "Record"
          /\ names' = Append(names, cs)
          /\ keys' = (keys \cup {cskey})
          /\ cidx' = cidx + 1
          /\ pc' = "Outer"
          /\ UNCHANGED << labels, base, cs, cskey, i >>

(* Allow infinite stuttering to prevent deadlock on termination. *)
Terminating == pc = "Done" /\ UNCHANGED vars

Next == Outer \/ Probe \/ Record
           \/ Terminating

Spec == /\ Init /\ [][Next]_vars
        /\ WF_vars(Next)

Termination == <>(pc = "Done")

\* END TRANSLATION 

\* at termination one name per source, pairwise distinct for the caseless dict,
\* and equal to the pure naming function OpConcatenate uses
NamesAgree == pc = "Done" => names = RefNames(labels)
NamesDistinct == Cardinality(keys) = Len(names) /\ (pc = "Done" => Len(names) = Len(labels))
\* the wrapping counter is an abstraction only where i is dead (as shipped)
CounterBelowCap == ~AsShipped => i < MaxI
\* the loop is entered exactly when CharMatrix!NameCollision says so (class of the known finding)
CollisionIffProbeLoops == (pc = "Probe" /\ cskey \in keys) => NameCollision(labels)
=============================================================================
