SPECIFICATION Spec
CONSTANTS
  N = 3
  MaxTrees = 2
  NW = 1
  NT = 2
  Observe = TRUE
  ObserveFrom = 1
  TrackDist = TRUE
  TrackOperand = FALSE
  AdoptLists = FALSE
  BookkeepFirst = FALSE
  CacheChecksCount = FALSE
INVARIANT CacheFresh
INVARIANT GraphAgrees
INVARIANT FreqExact
INVARIANT MergeExact
INVARIANT ObservedOK
INVARIANT SummariesSane
CHECK_DEADLOCK FALSE
