SPECIFICATION Spec
CONSTANTS
  Inputs <- MCInputs
  GenEdits <- NoGenEdits
  Shipped = {}
  TsrValues = {TRUE}
  GenSteps = 0
  Quick = TRUE
  PumpK = 3
  MaxSpan = 4
INVARIANTS OutcomeDocumented DimsConsistent TokDepthBounded TreeDepthIsNesting Emit
PROPERTY Termination
CHECK_DEADLOCK FALSE
