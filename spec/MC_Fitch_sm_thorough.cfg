SPECIFICATION SpecS
CONSTANTS
  K = 3
  MaxLeaves = 2
  MaxLeaves2 = 2
  LargerFirstFrom = 99
  Cells1 <- CellsS2
  Cells2 <- CellsS2
  Weights = {1}
  FullLeaves = 0
  RootMinLeaves = 0
  SMLeaves = 3
  SMLeaves2 = 3
  SMCells1 <- CellsSG
  SMCells2 <- CellsS2
  SMWeights = {2}
  MaxOps = 3
  PLeaves = 2
  PCells <- CellsS2
  TipsNarrowed = FALSE
  Shipped = FALSE
INVARIANT TreeOk
INVARIANT PureScore
PROPERTY MovesKeepTree
CHECK_DEADLOCK FALSE
