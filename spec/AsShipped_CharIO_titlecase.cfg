SPECIFICATION Spec
CONSTANTS
  StickyHyphen = FALSE
  ShippedSetsLink = FALSE
  ShippedCharIds = FALSE
  ShippedLinkBlocks = FALSE
  ShippedTitleCase = TRUE
  Dims <- DimsNone
  LabelSets = {"plain"}
  MaxNs = 2
  MaxComps = 2
  TitlePool <- TitlesCase
INVARIANT NamespaceOfEachComponent
CHECK_DEADLOCK FALSE
