SPECIFICATION Spec
CONSTANTS
  DepthTable <- DocumentedDepthTable
  MRoutes = {"deepcopy", "clone2", "clone1", "tns_copy", "ctor", "copy", "clone0", "ctor_newns", "extract", "extract_ref"}
  MOps = {"RelabelTaxon", "AnnotateNamespace", "SetLabel"}
  MClasses = {"Tree", "TreeList", "Matrix", "Namespace"}
  MConfigs = {"ns_locked", "ns_case", "unrooted", "rooting_none", "weighted", "unlabelled"}
  XrefShapes = FALSE
  MaxSteps = 2
  MaxCopies = 1
  Bug = "none"
INVARIANT EqualAfterCopy
INVARIANT SharingExactlyAsDocumented
INVARIANT BoundAnnotationsFollowCopy
PROPERTY MutationNotVisibleThroughOther
PROPERTY MutationTakesEffect
CHECK_DEADLOCK FALSE
