----------------------------- MODULE MC_CopySem -----------------------------
(* Bounded model for C12: every initial object graph (<= 3 nodes) x every   *)
(* copy route of its class x every history of <= MaxSteps further steps     *)
(* (mutations applied through the source or through the copy, copies of the *)
(* copy).  The reference copy rule of CopySem (OpCopy, governed by the      *)
(* documented depth table) must satisfy the four clauses of the property;   *)
(* with Bug # "none" TLC must find the corresponding violation.             *)
EXTENDS CopySem
CONSTANTS MRoutes, MOps, MClasses, MConfigs, XrefShapes, MaxSteps, MaxCopies, Bug
VARIABLES g, src, cpy, cls, conf, route, d, nsteps, ncopies, last
vars == <<g, src, cpy, cls, conf, route, d, nsteps, ncopies, last>>

Heap(k, s) == [kind |-> k, succ |-> s, dig |-> [i \in 1..Len(k) |-> 10 * i], lsucc |-> <<>>]
TreeAnnotated == Heap(<<"Tree", "Namespace", "Taxon", "Taxon", "Node", "Edge", "Node", "Edge", "Node", "Edge",
                        "AnnotationSet", "Annotation", "Annotation", "list">>,
                      << <<2, 5, 11, 14>>, <<3, 4>>, <<>>, <<>>, <<6, 7, 9>>, <<>>, <<8, 3>>, <<>>, <<10, 4>>, <<>>,
                         <<1, 12, 13>>, <<>>, <<1>>, <<>> >>)
TreeBare == Heap(<<"Tree", "Namespace", "Taxon", "Node", "Edge", "Node", "Edge">>,
                 << <<2, 4>>, <<3>>, <<>>, <<5, 6>>, <<>>, <<7, 3>>, <<>> >>)
TreeListHeap == Heap(<<"TreeList", "Namespace", "Taxon", "Tree", "Node", "Edge", "AnnotationSet", "Annotation", "Annotation", "list">>,
                     << <<2, 4, 7, 10>>, <<3>>, <<>>, <<2, 5>>, <<6, 3>>, <<>>, <<1, 8, 9>>, <<>>, <<1>>, <<>> >>)
MatrixHeap == Heap(<<"Matrix", "Namespace", "Taxon", "Taxon", "Sequence", "Sequence", "AnnotationSet", "Annotation", "Annotation", "list">>,
                   << <<2, 5, 6, 7, 10>>, <<3, 4>>, <<>>, <<>>, <<3>>, <<4>>, <<1, 8, 9>>, <<>>, <<1>>, <<>> >>)
NamespaceHeap == Heap(<<"Namespace", "Taxon", "Taxon", "AnnotationSet", "Annotation", "Annotation", "list", "list">>,
                      << <<4, 7, 2, 3>>, <<8>>, <<>>, <<1, 5, 6>>, <<>>, <<1>>, <<>>, <<>> >>)
\* cross-references between the members of one container: a node of the first tree refers to a node of the
\* second tree (an extracted tree listed before the tree it was extracted from), and the other way round
XrefFirst == Heap(<<"TreeList", "Namespace", "Taxon", "Tree", "Node", "Edge", "Tree", "Node", "Edge">>,
                  << <<2, 4, 7>>, <<3>>, <<>>, <<2, 5>>, <<6, 3, 8>>, <<>>, <<2, 8>>, <<9, 3>>, <<>> >>)
XrefLast == Heap(<<"TreeList", "Namespace", "Taxon", "Tree", "Node", "Edge", "Tree", "Node", "Edge">>,
                 << <<2, 4, 7>>, <<3>>, <<>>, <<2, 5>>, <<6, 3>>, <<>>, <<2, 8>>, <<9, 3, 5>>, <<>> >>)
Shapes == [Tree |-> {TreeAnnotated, TreeBare},
           TreeList |-> {TreeListHeap} \cup (IF XrefShapes THEN {XrefFirst, XrefLast} ELSE {}),
           Matrix |-> {MatrixHeap}, Namespace |-> {NamespaceHeap}]

\* every initial graph in every object configuration that applies to its class
Init == /\ cls \in MClasses /\ conf \in MConfigs /\ ConfApplies(cls, conf)
        /\ g \in {ApplyConf(h, 1, conf) : h \in Shapes[cls]}
        /\ src = 1 /\ cpy = 0 /\ route = "" /\ d = "" /\ nsteps = 0 /\ ncopies = 0 /\ last = [kind |-> "init", side |-> "", op |-> ""]

DoCopy(from, r) ==
    LET c == OpCopy(g, from, cls, r, IF Bug = "locked_ns_shared" /\ conf # "ns_locked" THEN "none" ELSE Bug) IN
    /\ DepthOf(cls, r) # "Undefined"
    /\ g' = c.g /\ src' = from /\ cpy' = c.cpy /\ route' = r /\ d' = DepthOf(cls, r)
    /\ ncopies' = ncopies + 1 /\ last' = [kind |-> "copy", side |-> "", op |-> r] /\ UNCHANGED <<cls, conf>>
Copy(r) == ncopies = 0 /\ DoCopy(src, r) /\ UNCHANGED nsteps
Recopy(r) == ncopies \in 1..(MaxCopies - 1) /\ nsteps < MaxSteps /\ d # "Alias" /\ DoCopy(cpy, r) /\ nsteps' = nsteps + 1
Mutate(side, op) ==
    LET root == IF side = "src" THEN src ELSE cpy IN
    /\ ncopies > 0 /\ nsteps < MaxSteps
    /\ OpTarget(g, root, op) # 0
    /\ g' = OpMutate(g, root, op)
    /\ nsteps' = nsteps + 1 /\ last' = [kind |-> "mutate", side |-> side, op |-> op]
    /\ UNCHANGED <<src, cpy, cls, conf, route, d, ncopies>>
Next == \/ \E r \in MRoutes : Copy(r)
        \/ \E r \in MRoutes : Recopy(r)
        \/ \E side \in {"src", "cpy"}, op \in MOps : Mutate(side, op)
Spec == Init /\ [][Next]_vars

Copied == ncopies > 0
EqualAfterCopy == last.kind = "copy" => ViewEqClause(d, ModelView(g, src), ModelView(g, cpy)) = "ok"
SharingExactlyAsDocumented ==
    Copied => IF last.kind = "copy" THEN SharingExactClause(g, d, src, cpy) = "ok" ELSE SharingUpperClause(g, d, src, cpy) = "ok"
BoundAnnotationsFollowCopy ==
    Copied => /\ last.kind = "copy" => BoundClause(d, ModelView(g, src), ModelView(g, cpy)) = "ok"
              /\ BoundOkGraph(g, src) /\ BoundOkGraph(g, cpy)
MutationNotVisibleThroughOther ==
    [][last'.kind = "mutate" =>
         LET other == IF last'.side = "src" THEN cpy ELSE src IN
         /\ VisibleClause(g, g', d, src, cpy, last'.side) = "ok"
         \* the view is a function of the reachable heap: it is only recomputed when something reachable changed
         /\ \/ Changed(g, g') \cap (Reach(g, {other}) \cup Reach(g', {other})) = {}
            \/ ViewIndepClause(d, TouchesShared(g, g', d, src, cpy), ModelView(g, other), ModelView(g', other)) = "ok"]_vars
\* the mutation is visible through the root it was applied to (the histories are not vacuous)
MutationTakesEffect == [][last'.kind = "mutate" => g' # g]_vars
=============================================================================
