--------------------------- MODULE MC_Bipartitions ---------------------------
(* C01 bounded model, one tree per state: every ordered tree with at most MaxN *)
(* nodes and at most MaxL leaves (polytomies, unifurcations, chains, stars),   *)
(* both rootings, every assignment of the taxa of every leaf set in LeafSets   *)
(* to the leaves, inside the namespaces Spaces(L) (the leaf set itself and,    *)
(* for leaf sets of at most ExtraMaxL taxa, the leaf set plus each disjoint    *)
(* set of extra members in Extras: below / between / above).                   *)
(* Stage 0 states only carry a shape (so that TLC's workers share the work);   *)
(* the domain is the set of stage 1 states.                                    *)
EXTENDS Bipartitions
CONSTANTS MaxN, MaxL, LeafSets, Extras, ExtraMaxL
VARIABLES stage, shape, g, M
vars == <<stage, shape, g, M>>

\* preorder parent arrays, built incrementally (TreeBase!ParentArrays filters n^n functions)
RECURSIVE PA(_)
PA(n) == IF n = 1 THEN {<<0>>} ELSE UNION {{Append(p, a) : a \in AncOfIn(p, n - 1)} : p \in PA(n - 1)}
Shapes == UNION {{p \in PA(n) : NumLeavesOfParents(p) <= MaxL} : n \in 1..MaxN}

PermSeqs(L) == {f \in [1..Card(L) -> L] : \A i, j \in 1..Card(L) : i # j => f[i] # f[j]}
Spaces(L) == {L} \cup (IF Card(L) > ExtraMaxL THEN {} ELSE {L \cup E : E \in {X \in Extras : X \cap L = {}}})
Dummy == MkTree(<<0>>, <<1>>, <<-1>>, 1)

Init == stage = 0 /\ shape \in Shapes /\ g = Dummy /\ M = {}
Pick(L, rt, taxa, sp) ==
    /\ stage = 0
    /\ NumLeavesOfParents(shape) = Card(L)
    /\ taxa \in PermSeqs(L)
    /\ sp \in Spaces(L)
    /\ g' = MkTree(shape, taxa, [i \in 1..Len(shape) |-> -1], rt)
    /\ M' = sp
    /\ stage' = 1
    /\ UNCHANGED shape
Next == stage = 0 /\ \E L \in {X \in LeafSets : Card(X) = NumLeavesOfParents(shape)} : \E rt \in {0, 1} : \E taxa \in PermSeqs(L) : \E sp \in Spaces(L) : Pick(L, rt, taxa, sp)
Spec == Init /\ [][Next]_vars

Dom == stage = 1
InputsOk == Dom => WellFormed(g) /\ AllLeavesDistinctTaxa(g) /\ TreeTx(g) \subseteq M
ParentArraysAgree == PA(4) = ParentArrays(4) /\ PA(5) = ParentArrays(5)
IffAsFunctions == Dom => TopologyDeterminesSplits(g) /\ SplitsDetermineTopology(g)
Restriction == Dom => RestrictionIsConservative(g)
Reconstruction == Dom => ReconstructionAnyOrder(g, M) /\ ReconstructionIgnoresOrderOfAll(g, M)
Predicates == Dom => PredicatesOnOneTree(g)
=============================================================================
