-------------------------- MODULE Trace_CharMatrix --------------------------
(***************************************************************************)
(* Trace validation for C19.  Every logged call of a real CharacterMatrix  *)
(* (any data type) is judged against the operators and clause predicates   *)
(* of CharMatrix, evaluated on the logged pre-state.  Verdicts are total.  *)
(*                                                                         *)
(* Event (one JSON object per line):                                       *)
(*   action   operation name (see Expected)                                *)
(*   pre,post [[slot, M], ...] every live matrix before / after the call   *)
(*            M = {label, ns, rows: [[taxon, [cell..]]..], subs: [[name,[i..]]..]}*)
(*   tx       [[taxa of namespace 1], [taxa of namespace 2], ...]          *)
(*   self     receiver slot (source slot for exports, 0 for concatenate)   *)
(*   others   argument matrix slots (the list of concatenate in order)     *)
(*   a        the remaining arguments (record, per action)                 *)
(*   outcome  "ok" | "exc" | "hang" (step budget exceeded)                 *)
(*   raised   exception class name or ""                                   *)
(*   res      slot under which the returned matrix appears in post, or 0   *)
(* Verdict clauses with the prefix "drift." are differences the property   *)
(* leaves free (subset names, pad value); the driver counts them, they     *)
(* never fail the check.                                                   *)
(***************************************************************************)
EXTENDS CharMatrix, Json, IOUtils

MapOf(q) == [s \in {q[i][1] : i \in 1..Len(q)} |-> (q[CHOOSE i \in 1..Len(q) : q[i][1] = s])[2]]
NormM(m) == [label |-> m.label, ns |-> m.ns, rows |-> MapOf(m.rows),
             subs |-> [k \in 1..Len(m.subs) |-> [name |-> m.subs[k][1], idx |-> CmSeqToSet(m.subs[k][2])]]]
NormMap(q) == LET f == MapOf(q) IN [s \in DOMAIN f |-> NormM(f[s])]

Raw == ndJsonDeserialize(IOEnv.TRACE_FILE)
VARIABLES l, st, bad
tvars == <<l, st, bad>>

V(c, k) == <<[clause |-> c, class |-> k]>>
None == <<>>

Mutators == {"Fill", "FillTaxa", "Pack", "AddSequences", "ReplaceSequences", "UpdateSequences", "ExtendSequences",
             "ExtendMatrix", "RemoveSequences", "DiscardSequences", "KeepSequences", "NewSequence", "SetItem", "DelItem"}
Exports == {"ExportIndices", "ExportSubset"}
Binary == {"AddSequences", "ReplaceSequences", "UpdateSequences", "ExtendSequences", "ExtendMatrix"}
Padders == {"Fill", "FillTaxa", "Pack"}

NsOf(e, n) == CmSeqToSet(e.tx[n])

\* the outcome the documentation / the property asks for, from the module's operators
Expected(e, P) ==
    LET a == e.action  x == e.a IN
    CASE a = "Concatenate"      -> OpConcatenate([k \in 1..Len(e.others) |-> P[e.others[k]]], NsOf(e, P[e.others[1]].ns))
      [] a = "ExportIndices"    -> OpExportIndices(P[e.self], CmSeqToSet(x.S))
      [] a = "ExportSubset"     -> OpExportSubset(P[e.self], x.k)
      [] a = "Fill"             -> OpFill(P[e.self], x.v, x.size, x.append)
      [] a = "FillTaxa"         -> OpFillTaxa(P[e.self], NsOf(e, P[e.self].ns))
      [] a = "Pack"             -> OpPack(P[e.self], NsOf(e, P[e.self].ns), x.v, x.size, x.append)
      [] a = "AddSequences"     -> OpAddSequences(P[e.self], P[e.others[1]])
      [] a = "ReplaceSequences" -> OpReplaceSequences(P[e.self], P[e.others[1]])
      [] a = "UpdateSequences"  -> OpUpdateSequences(P[e.self], P[e.others[1]])
      [] a = "ExtendSequences"  -> OpExtendSequences(P[e.self], P[e.others[1]], x.flag)
      [] a = "ExtendMatrix"     -> OpExtendMatrix(P[e.self], P[e.others[1]])
      [] a = "RemoveSequences"  -> OpRemoveSequences(P[e.self], x.taxa)
      [] a = "DiscardSequences" -> OpDiscardSequences(P[e.self], x.taxa)
      [] a = "KeepSequences"    -> OpKeepSequences(P[e.self], x.taxa)
      [] a = "NewSequence"      -> OpNewSequence(P[e.self], NsOf(e, P[e.self].ns), x.t, x.vals)
      [] a = "SetItem"          -> OpSetItem(P[e.self], NsOf(e, P[e.self].ns), x.t, x.vals)
      [] a = "DelItem"          -> OpDelItem(P[e.self], NsOf(e, P[e.self].ns), x.t)
      [] a = "SetLabel"         -> Ok([P[e.self] EXCEPT !.label = x.l], <<>>)

\* discriminators (call site / input shape) for matching known findings precisely
KeyKind(e) == IF e.action \in {"SetItem", "DelItem"} THEN "[key=" \o e.a.key \o "]" ELSE ""
Shape(e, P) ==
    CASE e.action = "Concatenate" ->
           (IF NameCollision([k \in 1..Len(e.others) |-> P[e.others[k]].label]) THEN "Concatenate:subset-name-collision"
            ELSE "Concatenate:distinct-subset-names")
      [] e.action = "ExtendSequences" -> (IF e.a.flag THEN "ExtendSequences[add-new]" ELSE "ExtendSequences[default]")
      [] e.action \in {"Fill", "Pack"} -> e.action \o (IF e.a.append THEN "[append]" ELSE "[prepend]")
      [] e.action \in {"RemoveSequences", "DiscardSequences", "KeepSequences"} ->
           e.action \o (IF Cardinality(CmSeqToSet(e.a.taxa)) # Len(e.a.taxa) THEN "[repeated-taxon]" ELSE "")
      [] OTHER -> e.action \o KeyKind(e)

GroupClause(e) ==
    CASE e.action = "Concatenate" -> "C19.ConcatRows"
      [] e.action \in Exports -> "C19.ExportSelectsColumns"
      [] e.action \in Padders -> "C19.FillEqualLength"
      [] OTHER -> "C19.RowsExactlyNamed"

\* matrices other than the receiver: arguments must be unchanged, bystanders too
Frame(e, P, Q) ==
    LET target == IF e.action \in Mutators \cup {"SetLabel"} THEN e.self ELSE 0
        args == (CmSeqToSet(e.others) \cup (IF e.action \in Exports THEN {e.self} ELSE {}))
        changed == {s \in DOMAIN P : s # target /\ (s \notin DOMAIN Q \/ Q[s] # P[s])} IN
    (IF changed \cap args # {} THEN V("C19.ArgumentsUnchanged", Shape(e, P)) ELSE None)
    \o (IF changed \ args # {} THEN V("C19.RowsExactlyNamed", "other-matrix-changed:" \o e.action) ELSE None)

JudgeConcat(e, P, Q, x) ==
    IF e.res \notin DOMAIN Q THEN V("C19.ConcatRows", "no-result:" \o Shape(e, P))
    ELSE LET c == Q[e.res]  want == x.res[1]  ms == [k \in 1..Len(e.others) |-> P[e.others[k]]] IN
         (IF c.rows # want.rows THEN V("C19.ConcatRows", Shape(e, P)) ELSE None)
         \o (IF ~ConcatSubsetsClause(ms, c) THEN V("C19.ConcatSubsets", Shape(e, P)) ELSE None)
         \o (IF Len(c.subs) = Len(want.subs) /\ \E k \in 1..Len(c.subs) : c.subs[k].name # want.subs[k].name
               THEN V("drift.SubsetNames", Shape(e, P)) ELSE None)

JudgeExport(e, P, Q, x) ==
    IF e.res \notin DOMAIN Q THEN V("C19.ExportSelectsColumns", "no-result:" \o e.action)
    ELSE (IF Q[e.res].rows # x.res[1].rows THEN V("C19.ExportSelectsColumns", e.action) ELSE None)
         \o (IF Q[e.res].ns # x.res[1].ns THEN V("drift.ExportNamespace", e.action) ELSE None)

JudgePad(e, P, Q, x) ==
    LET a == P[e.self]  b == Q[e.self] IN
    IF e.action = "FillTaxa" THEN
        (IF \E t \in Taxa(a) : t \notin Taxa(b) \/ b.rows[t] # a.rows[t] THEN V("C19.FillKeepsCells", "FillTaxa") ELSE None)
        \o (IF Taxa(b) # Taxa(x.self) THEN V("C19.FillEqualLength", "taxon-set:FillTaxa")
            ELSE IF \E t \in Taxa(b) \ Taxa(a) : b.rows[t] # <<>> THEN V("C19.FillEqualLength", "new-row-not-empty:FillTaxa")
            ELSE None)
    ELSE
        (IF ~FillKeepsClause(a, b, e.a.append) THEN V("C19.FillKeepsCells", Shape(e, P)) ELSE None)
        \o (IF Taxa(b) # Taxa(x.self) THEN V("C19.FillEqualLength", "taxon-set:" \o Shape(e, P))
            ELSE IF ~FillLengthClause(a, b, e.a.size) THEN V("C19.FillEqualLength", Shape(e, P))
            ELSE IF FillKeepsClause(a, b, e.a.append) /\ b.rows # x.self.rows THEN V("drift.PadValue", Shape(e, P))
            ELSE None)

JudgeRemoveMissing(e, P, Q) ==
    LET a == P[e.self]  b == Q[e.self]  named == CmSeqToSet(e.a.taxa) IN
    (IF e.raised # "KeyError" THEN V("C19.RowsExactlyNamed", "RemoveSequences:missing-taxon:" \o (IF e.raised = "" THEN "no-error" ELSE e.raised)) ELSE None)
    \o (IF ~(Taxa(a) \ named \subseteq Taxa(b) /\ Taxa(b) \subseteq Taxa(a) /\ \A t \in Taxa(b) : b.rows[t] = a.rows[t])
          THEN V("C19.RowsExactlyNamed", "RemoveSequences:missing-taxon:rows") ELSE None)

\* the receiver passed as its own other_matrix: "argument unchanged" cannot be asked for; only termination is judged
SelfArg(e) == e.action \in Binary /\ e.others[1] = e.self

JudgeOutcome(e, P, Q) ==
    LET x == Expected(e, P) IN
    IF SelfArg(e) THEN (IF e.outcome = "hang" THEN V("C19.Terminates", "receiver-is-argument:" \o e.action) ELSE None)
    ELSE IF e.outcome = "hang" THEN V("C19.Terminates", Shape(e, P))
    ELSE IF x.raised = "pre" THEN None
    ELSE IF x.raised = "foreign" THEN
        (IF e.raised = "" THEN V("C19.ForeignNamespaceRefused", Shape(e, P))
         ELSE IF e.action \in Mutators /\ Q[e.self] # P[e.self] THEN V("C19.ForeignNamespaceRefused", "receiver-changed:" \o Shape(e, P))
         ELSE None)
    ELSE IF x.raised = "KeyError" THEN JudgeRemoveMissing(e, P, Q)
    ELSE IF e.raised # "" THEN V(GroupClause(e), "raised-" \o e.raised \o ":" \o Shape(e, P))
    ELSE CASE e.action = "Concatenate" -> JudgeConcat(e, P, Q, x)
           [] e.action \in Exports -> JudgeExport(e, P, Q, x)
           [] e.action \in Padders -> JudgePad(e, P, Q, x)
           [] e.action = "SetLabel" -> None
           [] OTHER -> (IF Q[e.self].rows # x.self.rows THEN V("C19.RowsExactlyNamed", Shape(e, P)) ELSE None)

\* "Unreached": the driver could not take a model transition because an earlier real call diverged (counted only)
Judge(e) ==
    IF e.action = "Unreached" THEN None ELSE
    LET P == NormMap(e.pre)  Q == NormMap(e.post) IN
    (IF e.action \in Mutators /\ e.self \notin DOMAIN Q THEN V("C19.RowsExactlyNamed", "receiver-lost:" \o e.action)
     ELSE JudgeOutcome(e, P, Q))
    \o Frame(e, P, Q)

\* state machine continuity: the matrices logged before a call are those logged after the previous one
Chain(e) == IF e.step > 1 /\ e.action # "Unreached" /\ st # NormMap(e.pre) THEN V("C19.Chain", "state changed between logged calls") ELSE None

Init == l = 1 /\ bad = <<>> /\ st = <<>>
Next == /\ l <= Len(Raw)
        /\ LET e == Raw[l]
               v == Chain(e) \o Judge(e) IN
           /\ bad' = bad \o [k \in 1..Len(v) |-> [i |-> l, clause |-> v[k].clause, class |-> v[k].class]]
           /\ st' = NormMap(e.post)
        /\ l' = l + 1
Spec == Init /\ [][Next]_tvars
Done == l = Len(Raw) + 1 => JsonSerialize(IOEnv.OUT_FILE, [n |-> Len(Raw), bad |-> bad])
Accepted == TLCGet("stats").diameter - 1 = Len(Raw)
=============================================================================
