--------------------------- MODULE Trace_TreeSim ---------------------------
(* C18 trace validation.  One event = one simulator call executed TWICE from *)
(* equal generator states: run 1 on the argument objects with their history *)
(* (earlier calls, modifications in place), run 2 on freshly built arguments *)
(* equal to their CURRENT state (kind "script": the                         *)
(* generator returns the decisions of a TLC behaviour; kind "seed": a real  *)
(* random.Random(seed)).  TLC evaluates the clauses of the property on the  *)
(* projected results; lengths are fixed-point integers (e.scale units per   *)
(* 1.0), equidistance is judged within the library's own ultrametricity     *)
(* precision e.prec = <<num, den>> plus one unit of rounding per node.      *)
(* Verdicts whose clause starts with "DRIFT." compare the real result with  *)
(* the reference transducer RunSim(case, decisions consumed): they are      *)
(* counted by the harness and never fail a check.                           *)
EXTENDS TreeSim, Json, IOUtils
Tr == ndJsonDeserialize(IOEnv.TRACE_FILE)
VARIABLES l, bad
V(c, k) == <<[clause |-> c, class |-> k]>>

Tol(e, g) == (e.scale * e.prec[1]) \div e.prec[2] + g.n
\* call site / input shape; "+restart" when the run went through restart-after-total-extinction; "@<ops>" when the
\* argument objects had a history (e.hops: earlier call on the same objects, modifications in place)
Class(e) == e.api \o "/" \o e.shape \o (IF e.model \in {"bd", "fast"} /\ (e.nclear1 > 0 \/ e.nclear2 > 0) THEN "+restart" ELSE "")
                  \o (IF e.hops # "" THEN "@" \o e.hops ELSE "")
FailsOn(e, g, gsp) ==
    CASE e.model \in {"bd", "fast", "upb"} -> BDFails(g, e.N, Tol(e, g))
      [] e.model = "king" -> KingFails(g, e.ntaxa, Tol(e, g))
      [] e.model = "cc" -> CCFails(g, e.sp, gsp, Tol(e, g))
Verdicts(names, cls) == [i \in 1..Len(names) |-> [clause |-> names[i], class |-> cls]]

ScaledLen(g, k) == [g EXCEPT !.len = [x \in 1..g.n |-> g.len[x] * k]]
Drift(e) ==
    IF e.kind # "script" THEN <<>>
    ELSE LET s == RunSim(e.cs, e.decs) IN
         IF e.desync # 0 \/ Len(e.decs) # e.ndec \/ s.ph # "done" THEN V("DRIFT.ScriptNotFollowed", Class(e))
         ELSE IF e.raised1 = "" /\ SameTree(ScaledLen(s.out, e.scale), e.g1) THEN <<>>
         ELSE V("DRIFT.ModelTreeDiffers", Class(e))

Judge(e) ==
    LET cls == Class(e)
        f1 == IF e.raised1 = "" THEN FailsOn(e, e.g1, e.gsp1) ELSE <<>>
        f2 == IF e.raised2 = "" /\ e.g2 # e.g1 THEN SelectSeq(FailsOn(e, e.g2, e.gsp2), LAMBDA c : c \notin SeqToSet(f1)) ELSE <<>>
    IN (IF e.raised1 # "" \/ e.raised2 # "" \/ e.hraised # ""
        THEN V("C18.Raised", cls \o ":" \o e.hraised \o "|" \o e.raised1 \o "|" \o e.raised2) ELSE <<>>)
       \o Verdicts(f1 \o f2, cls)
       \o (IF e.raised1 = e.raised2 /\ e.g1 = e.g2 /\ e.lenx1 = e.lenx2 /\ e.txl1 = e.txl2 THEN <<>> ELSE V("C18.Reproducible", cls))
       \o (IF e.via = "rng" /\ (e.ngcalls1 # 0 \/ e.ngcalls2 # 0 \/ e.py1[1] # e.py1[2] \/ e.py2[1] # e.py2[2])
           THEN V("C18.NoGlobalDraws", cls) ELSE <<>>)
       \o Drift(e)

Init == l = 1 /\ bad = <<>>
Next == /\ l <= Len(Tr)
        /\ LET v == Judge(Tr[l]) IN
             bad' = bad \o [k \in 1..Len(v) |-> [i |-> l, clause |-> v[k].clause, class |-> v[k].class]]
        /\ l' = l + 1
Spec == Init /\ [][Next]_<<l, bad>>
Done == l = Len(Tr) + 1 => JsonSerialize(IOEnv.OUT_FILE, [n |-> Len(Tr), bad |-> bad])
Accepted == TLCGet("stats").diameter - 1 = Len(Tr)
=============================================================================
