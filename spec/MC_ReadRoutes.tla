---------------------------- MODULE MC_ReadRoutes ----------------------------
(* Bounded model for C13: every document with at most MaxBlocks TREES blocks *)
(* of at most MaxStmts statements each (empty blocks included), every        *)
(* statement drawn from the first PoolSize statement variants below (rooting *)
(* tokens none/&R/&U, weights incl. an explicit zero weight 0/2, comments before / inside / behind the         *)
(* statement, metadata comments, internal labels, underscores, case          *)
(* variants), each block with or without a TRANSLATE table, a CHARACTERS     *)
(* blocks of different data types (STANDARD and DNA, one followed by a SETS  *)
(* block) at each position of CharsAt (0 = none, 1 = standard, dna, dna     *)
(* before the TREES blocks, 2 = dna, standard, dna behind them).  TLC checks that the route definitions agree pairwise   *)
(* on every such document under every option set, and dumps the documents    *)
(* for the replay against the real routes.                                   *)
EXTENDS ReadRoutes
CONSTANTS MaxBlocks, MaxStmts, PoolSize, CharsAt
VARIABLES doc, pick

P(k) == [m |-> FALSE, k |-> k, v |-> ""]
M(k, v) == [m |-> TRUE, k |-> k, v |-> v]
NoLen(n) == [i \in 1..n |-> -1]
NoLab(n) == [i \in 1..n |-> ""]
\* trees: preorder parent array p, leaf labels lf (left to right), node labels il, lengths ln (x LScale, -1 none)
T1 == [p |-> <<0, 1, 2, 2, 1>>, lf |-> <<"a", "b", "c">>, il |-> NoLab(5), ln |-> NoLen(5)]                 \* ((a,b),c)
T2 == [p |-> <<0, 1, 1, 3, 3>>, lf |-> <<"a", "b", "c">>, il |-> NoLab(5), ln |-> <<-1, 4, 8, 12, 1>>]       \* (a:1,(b:3,c:0.25):2)
T3 == [p |-> <<0, 1, 1, 1>>, lf |-> <<"c", "a", "b">>, il |-> NoLab(4), ln |-> NoLen(4)]                      \* (c,a,b)
T4 == [p |-> <<0, 1, 2, 2, 1>>, lf |-> <<"t_a", "b", "c">>, il |-> <<"r", "x_1", "", "", "">>, ln |-> <<0, 4, 4, 8, 12>>]
T5 == [p |-> <<0, 1, 1, 3, 3>>, lf |-> <<"A", "c", "b">>, il |-> <<"", "", "", "y", "">>, ln |-> NoLen(5)]    \* case variant of a
T6 == [p |-> <<0, 1, 2, 2, 1, 5, 5>>, lf |-> <<"a", "b", "c", "d">>, il |-> NoLab(7), ln |-> <<-1, 4, 4, 4, 4, 8, 8>>]
Stmt(rt, w, cpre, cpost, cin, caft, tree) ==
    [name |-> "", sym |-> "label", rt |-> rt, w |-> w, cpre |-> cpre, cpost |-> cpost, cin |-> cin, caft |-> caft, tree |-> tree]
Pool == <<
    Stmt("", NoWeight, <<>>, <<>>, <<>>, <<>>, T1),
    Stmt("R", <<1, 2>>, <<>>, <<P("c1")>>, <<>>, <<P("z1")>>, T2),
    Stmt("U", <<0, 2>>, <<P("p1")>>, <<M("k", "v")>>, <<[at |-> 3, c |-> P("i1")], [at |-> 2, c |-> M("n", "2")]>>, <<M("z", "9")>>, T4),
    Stmt("", <<2, 1>>, <<M("q", "7"), P("p2")>>, <<>>, <<[at |-> 2, c |-> P("i3")]>>, <<>>, T3),
    Stmt("R", NoWeight, <<>>, <<P("c2"), M("j", "x")>>, <<>>, <<P("z2"), P("z3")>>, T5),
    Stmt("U", <<1, 4>>, <<P("p3"), P("p4")>>, <<P("c3")>>, <<[at |-> 1, c |-> P("i2")], [at |-> 5, c |-> M("e", "1")]>>, <<>>, T6),
    Stmt("", <<0, 1>>, <<>>, <<>>, <<>>, <<P("z4")>>, T2),
    Stmt("R", NoWeight, <<>>, <<>>, <<>>, <<>>, T3) >>

BlockShapes == UNION {[1..n -> 1..PoolSize] : n \in 0..MaxStmts}
BlockSpecs == [tr : BOOLEAN, vs : BlockShapes]

\* labels of the document in order of first use
RECURSIVE Uniq(_, _)
Uniq(q, seen) == IF q = <<>> THEN <<>>
                 ELSE IF Head(q) \in seen THEN Uniq(Tail(q), seen) ELSE <<Head(q)>> \o Uniq(Tail(q), seen \cup {Head(q)})
\* name and mark every statement by its position: t<block><index>; the length of node 2 = 4 * running number
MkDoc(specs, chars) ==
    LET nb == Len(specs)
        before(b) == SumSeq([k \in 1..(b - 1) |-> Len(specs[k].vs)])
        caseVariant == \E b \in 1..nb : \E i \in 1..Len(specs[b].vs) : \E j \in 1..Len(Pool[specs[b].vs[i]].tree.lf) : Pool[specs[b].vs[i]].tree.lf[j] = "A"
        \* in a block without TRANSLATE every other statement names its taxa by taxon number (position in the TAXA block)
        mkStmt(b, i) == LET s == Pool[specs[b].vs[i]] IN
                        [s EXCEPT !.name = "t" \o ToString(b) \o ToString(i),
                                  !.sym = IF ~specs[b].tr /\ ~caseVariant /\ (b + i) % 2 = 1 THEN "number" ELSE "label",
                                  !.tree.ln[2] = 4 * (before(b) + i)]
        mkBlock(b) == [kind |-> "trees", title |-> IF b = 1 THEN "" ELSE "trees" \o ToString(b),
                       translate |-> specs[b].tr,
                       lead |-> IF specs[b].tr THEN <<P("lead" \o ToString(b))>> ELSE <<>>,
                       stmts |-> [i \in 1..Len(specs[b].vs) |-> mkStmt(b, i)]]
        tb == [b \in 1..nb |-> mkBlock(b)]
        labels == Uniq(Flatten([b \in 1..nb |-> Flatten([i \in 1..Len(tb[b].stmts) |-> tb[b].stmts[i].tree.lf])]), {})
        taxa == IF labels = <<>> THEN <<"a", "b", "c">> ELSE labels
        \* one matrix row per taxon; "A" is the case variant of "a" (one taxon unless labels are case sensitive),
        \* a matrix with a row for each would not be a valid document
        mt == SelectSeq(taxa, LAMBDA x : x # "A")
        \* CHARACTERS blocks of different data types; rows differ between blocks, so a wrong selection shows
        cb(title, type, r1, r2) == [kind |-> "chars", title |-> title, type |-> type,
                                    rows |-> [j \in 1..Len(mt) |-> [lab |-> mt[j], seq |-> IF j % 2 = 1 THEN r1 ELSE r2]]]
        \* a SETS block behind a matrix (only the routes that read characters parse it)
        sb(allLast, link) == [kind |-> "sets", link |-> link,
                        charsets |-> IF allLast THEN <<[name |-> "first", spec |-> "1-2"], [name |-> "every", spec |-> "ALL"]>>
                                     ELSE <<[name |-> "every", spec |-> "ALL"], [name |-> "rest", spec |-> "2-."]>>]
        before1 == <<cb("cm0", "standard", "0101", "0-11"), cb("cm1", "dna", "ACGT", "A-GT"), sb(TRUE, "cm1"), cb("cm2", "dna", "TTGA", "T?GA")>>
        behind2 == <<cb("cm1", "dna", "ACGT", "A-GT"), sb(FALSE, "cm1"), cb("cm2", "standard", "0101", "0-11"), cb("cm3", "dna", "TTGA", "T?GA")>>
    IN [taxa |-> taxa,
        blocks |-> CASE chars = 0 -> tb [] chars = 1 -> before1 \o tb [] chars = 2 -> tb \o behind2]

\* two steps, so that TLC's workers share the work: the initial states only choose the block
\* specifications (doc = NoDoc); the one successor of each is the document itself
NoDoc == [taxa |-> <<>>, blocks |-> <<>>]
Init == /\ doc = NoDoc
        /\ \E nb \in 1..MaxBlocks : \E specs \in [1..nb -> BlockSpecs] : \E ch \in CharsAt : pick = [specs |-> specs, ch |-> ch]
Next == /\ doc = NoDoc
        /\ doc' = MkDoc(pick.specs, pick.ch)
        /\ UNCHANGED pick
Spec == Init /\ [][Next]_<<doc, pick>>

Rootings == {"none", "default-unrooted", "default-rooted", "force-unrooted", "force-rooted"}
Options == [rooting : Rootings, weights : BOOLEAN, meta : BOOLEAN]
Formats == IF doc = NoDoc THEN {} ELSE {"nexus", "nexml"} \cup (IF Len(TreesBlocks(doc)) = 1 THEN {"newick"} ELSE {})

\* The selection operators are parametric in the elements of the collections, and the shape of the
\* collections does not depend on the reader options: the offset algebra is checked under two option
\* sets (everything off / everything on); what depends on the options (rooting states for the tree
\* array, statement views of the two block front ends, names) is checked under every option set.
CanonOptions == {[rooting |-> "none", weights |-> FALSE, meta |-> FALSE], [rooting |-> "default-rooted", weights |-> TRUE, meta |-> TRUE]}
RoutesAgree ==
    \A fmt \in Formats :
       /\ \A o \in CanonOptions : SelectionsAgree(Collections(doc, fmt, o))
       /\ \A o \in Options :
            LET colls == Collections(doc, fmt, o) IN
            /\ ArrayAgrees(colls)
            /\ [k \in 1..Len(colls) |-> [i \in 1..Len(colls[k]) |-> colls[k][i].name]] = DocNames(doc, fmt)
FrontEnds == \A o \in Options : FrontEndsAgree(doc, o)
Names == \A fmt \in Formats : NamesAgree(Collections(doc, fmt, [rooting |-> "none", weights |-> TRUE, meta |-> TRUE]))
\* NeXML with one <otus> block per TREES block (labels shared between the blocks): two consecutive reads by any
\* two routes into one namespace name the same taxa
BlockLabelLists == LET B == TreesBlocks(doc) IN
    [k \in 1..Len(B) |-> Uniq(Flatten([i \in 1..Len(B[k].stmts) |-> B[k].stmts[i].tree.lf]), {})]
Taxa == /\ \A fmt \in Formats : SameTaxaWhenShared(doc, fmt)
        /\ (doc # NoDoc => SameTaxaWhenSharedBlocks(BlockLabelLists))
Matrices == MatricesAgree(doc)
=============================================================================
