SPECIFICATION SpecDef
CONSTANTS
  MaxN = 5
  MaxL = 3
  LenPats = {1}
  Shipped = TRUE
INVARIANT VariantsAgree
CHECK_DEADLOCK FALSE
