--------------------------- MODULE Trace_TreeOps ---------------------------
(***************************************************************************)
(* C03 / C07 trace validation.  Every logged call of a real mutator        *)
(* (pre-state, call, post-state as raw pointer graphs, exception name,     *)
(* iterator outputs, encoding, API cross-check values) is judged by the    *)
(* property clauses of TreeOps - also when the call raised - modulo the    *)
(* freedoms the properties leave (child order, which of several maximal    *)
(* pairs, names of created nodes).  IOEnv.PROP selects the property.       *)
(* Verdicts are total.  Clauses named Drift.* are reference-vs-code        *)
(* differences outside the properties (counted by the harness, never       *)
(* failing).                                                               *)
(***************************************************************************)
EXTENDS TreeOps, Json, IOUtils
Tr == ndJsonDeserialize(IOEnv.TRACE_FILE)
PROP == IOEnv.PROP
VARIABLES l, st, bad
tvars == <<l, st, bad>>
V(c, k) == <<[clause |-> c, class |-> k]>>
None == <<>>

CallOfEv(e) == [a |-> e.action, x |-> e.x, y |-> e.y, i |-> e.i, S |-> SeqToSet(e.S), ub |-> e.ub, su |-> e.su, cb |-> e.cb,
                l1 |-> e.l1, l2 |-> e.l2, f |-> e.f, raised |-> e.raised]
EncOf(G) == [has |-> G.has, bl |-> [x \in 1..G.n |-> SeqToSet(G.bl[x])], bs |-> [x \in 1..G.n |-> SeqToSet(G.bs[x])], list |-> G.enc]
Exact(G) == \A x \in 1..G.n : G.len[x] >= -1
\* path lengths are defined on trees whose (non-seed) edges all have lengths - or none has (everything 0)
MetricDomain(g) == (\A x \in Nodes(g) \ {g.seed} : g.len[x] >= 0) \/ (\A x \in Nodes(g) : g.len[x] = -1)
\* ... and on mixed patterns (None counted as 0, as Tree.length() documents) unless this very call drops a length
\* in the one place where the library does so (basal collapse onto an edge without length)
DropsLength(e) ==
    CASE e.action = "ReseedAt" -> ReseedLossy(e.pre, e.x, e.ub, e.su, e.cb)
      [] e.action = "ToOutgroupPosition" -> ReseedLossy(e.pre, e.pre.par[e.x], e.ub, e.su, TRUE)
      [] e.action = "RandomlyReorient" -> NotRooted(e.pre)
      [] OTHER -> FALSE
Opts(e) == (IF e.ub THEN "ub1" ELSE "ub0") \o (IF e.su THEN "su1" ELSE "su0") \o (IF e.cb THEN "cb1" ELSE "cb0")

\* would the clean-up after the re-seeding of to_outgroup_position dissolve the outgroup (or its parent)?
OutgroupDissolved(pre, og, ub, su) ==
    LET p == pre.par[og]
        r == ReseedCore(pre, p, ub, su, TRUE, {})
    IN og \notin Reachable(r) \/ p \notin Reachable(r) \/ r.par[og] # p
\* discriminator: call site / input shape
Cls(e) ==
    LET pre == e.pre IN
    CASE e.action = "RerootAtMidpoint" ->
            (IF ~(MidpointOk(pre) /\ Exact(pre) /\ MidpointExact(pre)) THEN "midpoint_inexact_or_outside_precondition"
             ELSE IF MidpointOnNode(pre) THEN "midpoint_on_existing_node" ELSE "midpoint_inside_edge")
      [] e.action = "ToOutgroupPosition" ->
            (IF OutgroupDissolved(pre, e.x, e.ub, e.su) THEN "outgroup_or_parent_dissolved_by_cleanup" ELSE "outgroup_survives_cleanup")
      [] e.action = "CollapseUnweightedEdges" ->
            (IF \E x \in Leaves(pre) : pre.len[x] < 0 /\ pre.par[x] # 0 THEN "leaf_without_length" ELSE "all_leaves_weighted")
      [] e.action \in {"ReseedAt", "RerootAtNode", "RerootAtEdge"} -> (IF IsLeaf(pre, e.x) THEN "at_leaf:" ELSE "at_internal:") \o Opts(e)
      [] OTHER -> Opts(e)

\* ------------------------------------------------------------ C03
JudgeC03(e) ==
    LET pre == e.pre  post == e.post  c == CallOfEv(e)  wf == WFClause(post)  k == Cls(e)
        allTaxa == 1..e.ntaxa IN
    (IF wf # "ok" THEN V("C03.WellFormed", wf \o ":" \o k \o (IF e.raised = "" THEN "" ELSE ":after_" \o e.raised)) ELSE None)
    \o (IF ~C03Outcome(c, pre) THEN V("C03.CompletesOrDocumentedError", k \o ":" \o e.raised) ELSE None)
    \o (IF wf # "ok" \/ ~InDomain(pre) THEN None
        ELSE (IF ~C03LeafMultiset(c, pre, post, allTaxa) THEN V("C03.LeafMultiset", k) ELSE None)
          \o (IF e.ub /\ e.raised = "" /\ EncFresh(pre, EncOf(pre)) /\ ~EncFresh(post, EncOf(post)) THEN V("C03.EncodingFresh", k) ELSE None)
          \o (IF ~ClTraversals(post, e.it) THEN V("C03.TraversalsVisitReachable", k) ELSE None))

\* ------------------------------------------------------------ C07
ApiPaths(pd) == {<<pd[j][1], pd[j][2], pd[j][3]>> : j \in 1..Len(pd)}
SpecPaths(g) == LET pt == PathTab(g) IN {<<p[1], p[2], pt[p]>> : p \in DOMAIN pt}
JudgeC07(e) ==
    LET pre == e.pre  post == e.post  c == CallOfEv(e)  k == Cls(e) IN
    IF e.action \notin Reorientations \/ WFClause(post) # "ok" \/ ~InDomain(pre) THEN None
    ELSE LET ref == C07Ref(c, pre)  metric == Exact(pre) /\ Exact(post) /\ (MetricDomain(ref) \/ ~DropsLength(e)) IN
      (IF ~ClSameLeafSet(ref, post) THEN V("C07.LeafSet", k) ELSE None)
      \o (IF ~ClSameSplits(ref, post) THEN V("C07.UnrootedSplits", k) ELSE None)
      \o (IF metric /\ ~ClSameTotalLength(ref, post) THEN V("C07.TotalLength", k) ELSE None)
      \o (IF metric /\ ~ClSamePaths(ref, post) THEN V("C07.PathLengths", k) ELSE None)
      \o (IF e.raised # "" THEN None
          ELSE (IF e.action = "RerootAtMidpoint" /\ metric /\ MidpointOk(pre) /\ ~ClMidpointEquidistant(post) THEN V("C07.MidpointEquidistant", k) ELSE None)
            \o (IF e.action = "RerootAtEdge" /\ metric /\ ~ClEdgeRootDistances(pre, post, e.x, e.l1, e.l2) THEN V("C07.EdgeRootDistances", k) ELSE None)
            \o (IF e.action = "ToOutgroupPosition" /\ ~ClOutgroupFirst(pre, post, e.x) THEN V("C07.OutgroupFirstChild", k) ELSE None)
            \o (IF ~ClRootingFlag(e.action, pre, post) THEN V("C07.RootingFlag", k) ELSE None))
      \* binding cross-check: the library's own length() / distance matrix against the projection (drift, not a clause)
      \o (IF e.hasapi /\ metric /\ PathsDefined(post) /\ e.apost.pdok /\
             (e.apost.len # TotalLength(post) \/ (TaxLeaves(post) = Leaves(post) /\ ApiPaths(e.apost.pd) # SpecPaths(post)))
            THEN V("Drift.ApiVsProjection", e.action) ELSE None)

\* ------------------------------------------------------------ reference vs code (drift)
RefApplicable(e) ==
    /\ e.action \in HasReference
    /\ InDomain(e.pre)
    /\ (e.action = "RerootAtMidpoint" => MidpointOk(e.pre) /\ Exact(e.pre) /\ MidpointExact(e.pre))
    /\ (e.action \in {"PruneTaxa", "RetainTaxa"} => HasKept(e.pre, e.pre.seed, CallRemovedTaxa(CallOfEv(e), 1..e.ntaxa)))
    /\ (e.action = "InsertChild" => e.y # 0 /\ e.i >= 0)
    /\ (e.action = "InsertNewChild" => e.i <= Len(e.pre.kids[e.x]))
JudgeDrift(e) ==
    IF ~RefApplicable(e) \/ WFClause(e.post) # "ok" THEN None
    ELSE LET r == RefCall(CallOfEv(e), e.pre, 1..e.ntaxa) IN
         IF r.raised # e.raised THEN V("Drift." \o e.action, "outcome:" \o e.raised)
         ELSE IF UTree(Compact(r.g)) # UTree(e.post)
           THEN V("Drift." \o e.action, IF MetricDomain(e.pre) THEN Cls(e) ELSE "some_edges_without_length:" \o Cls(e))
         ELSE None

\* ------------------------------------------------------------ chain continuity within a history
SameCore(a, b) == /\ a.n = b.n /\ a.seed = b.seed /\ a.kids = b.kids /\ a.par = b.par /\ a.tx = b.tx /\ a.len = b.len
                  /\ a.rooted = b.rooted /\ \A x \in 1..a.n : a.key[x] = 0 \/ a.key[x] = b.key[x]
Chain(e) == IF e.step > 1 /\ st.tid = e.tid /\ ~SameCore(st.g, e.pre) THEN V(PROP \o ".Chain", "state changed between logged calls") ELSE None

\* the harness ends a history after a call that hung or left a state it suspects to be damaged; TLC confirms
HarnessStop(e) == IF e.stopped /\ e.raised \notin {"Hang", "MemoryError", "RecursionError"} /\ WFClause(e.post) = "ok"
                  THEN V(PROP \o ".HarnessStoppedOnWellFormedState", e.action) ELSE None
\* totality: node arguments exist in the pre-state and satisfy the documented preconditions the harness promises
NeedsX == {"ReseedAt", "RerootAtNode", "RerootAtEdge", "ToOutgroupPosition", "CollapseEdge", "CollapseClade", "PruneSubtree",
           "NewChild", "InsertNewChild", "InsertChild", "RemoveChild", "ReAddChild", "Regraft", "RotateChildren",
           "RemoveNonChild", "AddChildSelf", "AddChildParent", "RemoveChildNone", "RemoveChildForeign"}
NeedsNonSeed == {"RerootAtEdge", "ToOutgroupPosition", "CollapseEdge", "InsertChild", "RemoveChild", "ReAddChild", "Regraft", "AddChildParent"}
NeedsInternal == {"ReseedAt", "RerootAtNode", "CollapseClade", "NewChild", "InsertNewChild", "RotateChildren"}
ArgsOk(e) == /\ (e.action \in NeedsX => e.x \in 1..e.pre.n)
             /\ (e.action \in NeedsNonSeed => e.pre.par[e.x] # 0 /\ e.y \in 1..e.pre.n)
             /\ (e.action \in NeedsInternal => ~IsLeaf(e.pre, e.x))
             /\ (e.action = "RemoveNonChild" => e.y \in 1..e.pre.n /\ e.y # e.x /\ e.pre.par[e.x] # e.y)
Judge(e) ==
    IF WFClause(e.pre) # "ok" THEN (IF e.step = 1 THEN V(PROP \o ".StartWellFormed", WFClause(e.pre)) ELSE None)
    ELSE IF ~ArgsOk(e) THEN V(PROP \o ".HarnessCallOutsidePrecondition", e.action)
    ELSE (IF PROP = "C03" THEN JudgeC03(e) ELSE JudgeC07(e)) \o JudgeDrift(e) \o HarnessStop(e)

Init == l = 1 /\ bad = <<>> /\ st = [tid |-> -1, g |-> <<>>]
Next == /\ l <= Len(Tr)
        /\ LET e == Tr[l]
               v == Chain(e) \o Judge(e) IN
           /\ bad' = bad \o [j \in 1..Len(v) |-> [i |-> l, clause |-> v[j].clause, class |-> v[j].class]]
           /\ st' = [tid |-> e.tid, g |-> e.post]
        /\ l' = l + 1
Spec == Init /\ [][Next]_tvars
Done == l = Len(Tr) + 1 => JsonSerialize(IOEnv.OUT_FILE, [n |-> Len(Tr), bad |-> bad])
Accepted == TLCGet("stats").diameter - 1 = Len(Tr)
=============================================================================
