SPECIFICATION Spec
CONSTANTS
  AsShipped = {"F03"}
  MaxN = 7
  MaxLeaves = 4
  StartUnif = FALSE
  MaxDepth = 1
  Fam = {"RerootAtMidpoint"}
  Rootings = {0, 1}
  LenPats = {"unit"}
  ShapeMode = "unordered"
  OptsFirst <- OptsAll
  OptsLater <- OptsOA
  EdgePairs <- EdgePairsSmall
  Thresholds = {0, 16}
  MaxK = 12
VIEW view
PROPERTY C07_Post
CHECK_DEADLOCK FALSE
