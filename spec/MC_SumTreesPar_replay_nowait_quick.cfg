SPECIFICATION Spec
CONSTANTS
  MaxFiles = 2
  MaxWorkers = 3
  FileSizes = {1}
  ShippedUpdate = FALSE
  Protocol = "nowait"
  AsyncFeeder = TRUE
  Rootings <- RootingsUnrooted
CHECK_DEADLOCK FALSE
