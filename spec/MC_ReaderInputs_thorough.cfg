SPECIFICATION Spec
CONSTANTS
  Quick = FALSE
  MaxSpanNexus = 8
  MaxLen = 5
  PumpKs = {10, 1100, 3000}
  PumpStride = 3
  NDouble = 25
INVARIANT Written
CHECK_DEADLOCK FALSE
