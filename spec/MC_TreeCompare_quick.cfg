SPECIFICATION Spec
CONSTANTS
  Families = {"top", "unary", "miss", "redraw"}
  K = 4
  KU = 3
  MaxNU = 6
  KM = 3
  MissVals <- MissValsQuick
  Full = FALSE
  MissFull = FALSE
  TripleRootings = {1}
  AsShipped = FALSE
INVARIANT WF
INVARIANT PairAxioms
INVARIANT DefinedSymmetric
INVARIANT MagnitudeOk
INVARIANT FirstCallExact
INVARIANT RedrawInv
INVARIANT TripleInv
CHECK_DEADLOCK FALSE
