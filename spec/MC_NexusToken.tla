---------------------------- MODULE MC_NexusToken ----------------------------
(* C02 token layer, bounded model: every label up to MaxLen over the 28     *)
(* character classes that meets the side conditions x every consistent      *)
(* writer/reader option pair.  UseShipped selects the protect set of the    *)
(* tree-statement writer as shipped (AsShipped_NexusToken.cfg).             *)
EXTENDS NexusToken
CONSTANTS MaxLen, UseShipped
VARIABLES label, uu, ps, pu
vars == <<label, uu, ps, pu>>
TreeProtect == IF UseShipped THEN TkShippedTreeProtect ELSE TkIntendedProtect
Init == /\ label \in {l \in TkSeqsUpTo(TkLabelAlphabet, MaxLen) : TkSideOk(l)}
        /\ uu \in BOOLEAN /\ ps \in BOOLEAN /\ pu \in BOOLEAN
        /\ TkConsistent(uu, ps, pu)
Next == UNCHANGED vars
Spec == Init /\ [][Next]_vars
\* the label written into a tree statement comes back as exactly one token
TreeLabelOneToken == TkLabelRT(label, uu, ps, pu, TreeProtect)
\* the same in TAXLABELS / TRANSLATE (default protect set of escape_nexus_token)
TaxLabelOneToken == TkLabelRT(label, uu, ps, pu, TkDefaultProtect)
\* the default protect set covers everything the tokenizer forces
ASSUME TkIntendedProtect \subseteq TkDefaultProtect
\* the consistent option pairs are exactly the ones under which every label survives:
\* each other combination loses a label already among the short labels over {a, space, underscore}
ASSUME \A u, s, p \in BOOLEAN :
          ~TkConsistent(u, s, p) => \E l \in {x \in TkSeqsUpTo({"a", "sp", "us"}, 3) : TkSideOk(x)} :
                                        ~TkLabelRT(l, u, s, p, TkIntendedProtect)
=============================================================================
