SPECIFICATION Spec
CONSTANTS
  Quick = TRUE
  Shipped = {}
INVARIANTS OutcomeDocumented DimsConsistent Emit
PROPERTY Termination
CHECK_DEADLOCK FALSE
