SPECIFICATION Spec
CONSTANTS
  Inputs <- ShippedInputs
  GenEdits <- NoGenEdits
  Shipped = {"taxa_eof", "link", "positions"}
  TsrValues = {TRUE}
  GenSteps = 0
  Quick = TRUE
  PumpK = 3
  MaxSpan = 4
PROPERTY Termination
CHECK_DEADLOCK FALSE
