------------------------ MODULE Trace_TaxonNamespace ------------------------
(* Trace validation for C10: every logged call of the real TaxonNamespace   *)
(* must be a step of the TaxonNamespace operators from the logged pre-state, *)
(* and every invariant is evaluated in every logged state.  Verdicts are    *)
(* total: a failing clause is recorded and judging continues.               *)
EXTENDS TaxonNamespace, Json, IOUtils
\* JSON arrays arrive as sequences: the logged bit-index lists become sets
Norm(s) == [s EXCEPT !.bm = [i \in 1..Len(s.bm) |-> SeqToSet(s.bm[i])]]
NormEv(e) == LET e1 == [e EXCEPT !.pre = Norm(@), !.post = Norm(@)]
             IN IF e.action = "Copy" THEN [e1 EXCEPT !.cpy = Norm(@)] ELSE e1
Raw == ndJsonDeserialize(IOEnv.TRACE_FILE)
Tr == [i \in 1..Len(Raw) |-> NormEv(Raw[i])]
VARIABLES l, st, bad
tvars == <<l, st, bad>>

V(c, k) == <<[clause |-> c, class |-> k]>>
None == <<>>
First(q) == IF q = <<>> THEN <<>> ELSE <<q[1]>>

\* expected outcome of a mutating call, from the module's operators
Expected(e) ==
    LET a == e.action  p == e.pre  x == e.args IN
    CASE a = "AddTaxon"     -> OpAddTaxon(p, x.t)
      [] a = "AddTaxa"      -> OpAddTaxa(p, x.ts)
      [] a = "NewTaxon"     -> OpNewTaxon(p, x.l)
      [] a = "NewTaxa"      -> OpNewTaxa(p, x.ls)
      [] a = "RequireTaxon" -> OpRequireTaxon(p, x.l, x.c)
      [] a = "RemoveTaxon"  -> OpRemoveTaxon(p, x.t)
      [] a = "RemoveLabel"  -> OpRemoveLabel(p, x.l, x.c, x.first, x.discard)
      [] a = "Clear"        -> OpClear(p)
      [] a = "Reverse"      -> OpReverse(p)
      [] a = "Relabel"      -> OpRelabel(p, x.t, x.l)
      [] a = "SetCase"      -> OpSetCase(p, x.b)
      [] a = "SetMutable"   -> OpSetMutable(p, x.b)
      [] a = "CreateTaxon"  -> Ok([p EXCEPT !.labels = Append(@, x.l)], <<>>)

\* the bitmask cache is observed through taxon_bitmask(), which fills it: compare modulo bm
NoBm(s) == [s EXCEPT !.bm = [i \in 1..Len(s.bm) |-> {}]]
Mutators == {"AddTaxon", "AddTaxa", "NewTaxon", "NewTaxa", "RequireTaxon", "RemoveTaxon", "RemoveLabel", "Clear",
             "Reverse", "Relabel", "SetCase", "SetMutable", "CreateTaxon"}

JudgeMutator(e) ==
    LET x == Expected(e) IN
    (IF e.raised # x.raised
       THEN V("C10.DocumentedOutcome", IF x.raised = "" THEN "raised:" \o e.raised ELSE "expected:" \o x.raised) ELSE None)
    \o (IF NoBm(e.post) # NoBm(x.st)
         THEN V(IF ~e.pre.mut /\ ~(SeqToSet(e.post.members) \subseteq SeqToSet(e.pre.members)) THEN "C10.ImmutableNeverGrows"
                ELSE IF e.action = "RequireTaxon" THEN "C10.RequireFirstMatchOrOneNew"
                ELSE "C10.OperationEffect", e.action) ELSE None)
    \o (IF e.raised = "" /\ x.raised = "" /\ e.res # x.res
         THEN V(IF e.action = "RequireTaxon" THEN "C10.RequireFirstMatchOrOneNew" ELSE "C10.OperationResult", e.action) ELSE None)

\* sort(): any reordering that keeps each taxon's index (order itself is not part of C10)
JudgeSort(e) ==
    IF e.raised # "" THEN V("C10.DocumentedOutcome", "raised:" \o e.raised)
    ELSE IF BagOf(e.post.members) # BagOf(e.pre.members) \/ [e.post EXCEPT !.members = <<>>, !.idx = <<>>, !.bm = <<>>] #
                                                             [e.pre EXCEPT !.members = <<>>, !.idx = <<>>, !.bm = <<>>]
      THEN V("C10.OperationEffect", "Sort") ELSE None

JudgeQMask(e) ==
    LET p == e.pre  S == SeqToSet(e.S)  m == Mask(p, S) IN
    (IF SeqToSet(e.mask) # m \/ Len(e.mask) # Cardinality(m) THEN V("C10.MaskOfTaxa", "taxa_bitmask") ELSE None)
    \o (IF e.back # MaskTaxaList(p, m) THEN V("C10.MaskRoundTrip", "bitmask_taxa_list") ELSE None)
    \o (IF SeqToSet(e.allmask) # AllTaxaMask(p) THEN V("C10.AllTaxaMask", "all_taxa_bitmask") ELSE None)
    \o (IF SeqToSet(e.bitstr_ones) # m \/ e.bitstr_len # (IF p.next = 0 THEN 1 ELSE p.next) THEN V("C10.RenderingNamesExactlyThoseTaxa", "bitstring") ELSE None)
    \o (IF S = {} THEN None
        ELSE LET want1 == BagOf([i \in 1..Len(e.S) |-> p.labels[e.S[i]]])
                 rest == SelectSeq(p.members, LAMBDA t : t \notin S)
                 want2 == BagOf([i \in 1..Len(rest) |-> p.labels[rest[i]]])
                 all == BagOf([i \in 1..Len(p.members) |-> p.labels[p.members[i]]])
             IN IF e.nwkform = "all" THEN
                    (IF m = AllTaxaMask(p) /\ BagOf(e.nwk1) = all THEN None
                     ELSE V("C10.RenderingNamesExactlyThoseTaxa", "newick-all"))
                ELSE IF BagOf(e.nwk1) = want1 /\ BagOf(e.nwk2) = want2 THEN None
                ELSE V("C10.RenderingNamesExactlyThoseTaxa", "newick"))

JudgeQLookup(e) ==
    LET p == e.pre  cs == EffCs(p, e.c)  m == MatchTaxa(p, e.l, cs) IN
    (IF e.findall # m THEN V("C10.LookupExact", "findall") ELSE None)
    \o (IF e.get_taxon # First(m) THEN V("C10.LookupExact", "get_taxon") ELSE None)
    \o (IF e.has # (m # <<>>) THEN V("C10.LookupExact", "has_taxon_label") ELSE None)
    \o (IF e.get_taxa_all # m THEN V("C10.LookupExact", "get_taxa") ELSE None)
    \o (IF e.get_taxa_first # First(m) THEN V("C10.LookupExact", "get_taxa-first") ELSE None)

\* copies: each copied taxon has the bit of its original; shallow routes share the taxa
JudgeCopy(e) ==
    LET p == e.pre  c == e.cpy IN
    IF Len(c.members) # Len(p.members) THEN V("C10.CopyKeepsBits", "membership")
    ELSE (IF c.idx # p.idx \/ c.next # p.next \/ (\E i \in 1..Len(c.bm) : c.bm[i] # {c.idx[i]})
            THEN V("C10.CopyKeepsBits", e.route) ELSE None)
      \o (IF c.labs # [i \in 1..Len(p.members) |-> p.labels[p.members[i]]] THEN V("C10.CopyKeepsBits", "labels") ELSE None)
      \o (IF e.route = "deepcopy"
            THEN (IF SeqToSet(c.members) \cap 1..Len(p.labels) # {} \/ ~Distinct(c.members) THEN V("C10.CopyKeepsBits", "deepcopy-shares-taxa") ELSE None)
            ELSE (IF c.members # p.members THEN V("C10.CopyKeepsBits", "shallow-copy-taxa") ELSE None))

Judge(e) ==
    LET wfpre == WFClause(e.pre)  wfpost == WFClause(e.post) IN
    IF wfpre # "ok" THEN V("C10.WellFormed", "pre:" \o wfpre)
    ELSE IF wfpost # "ok" THEN V("C10.WellFormed", wfpost)
    ELSE (IF StableClause(e.pre, e.post) # "ok" THEN V("C10.StableBits", StableClause(e.pre, e.post)) ELSE None)
      \o (CASE e.action \in Mutators -> JudgeMutator(e)
            [] e.action = "Sort" -> JudgeSort(e)
            \* queries and copies on a well-formed namespace with member arguments never raise
            [] e.action \in {"QMask", "QLookup", "Copy"} /\ e.raised # "" -> V("C10.QueryRaised", e.raised)
            [] e.action = "QMask" -> JudgeQMask(e)
            [] e.action = "QLookup" -> JudgeQLookup(e)
            [] e.action = "Copy" -> JudgeCopy(e))

\* taxon objects created by the environment between calls (Taxon(), deep copies) only extend the label table
ChainCore(s, n) == [s EXCEPT !.bm = <<>>, !.labels = SubSeq(@, 1, n)]
MinLen(a, b) == IF Len(a) < Len(b) THEN Len(a) ELSE Len(b)
Chain(e) == IF e.step > 1 /\ ChainCore(st, MinLen(st.labels, e.pre.labels)) # ChainCore(e.pre, MinLen(st.labels, e.pre.labels)) THEN V("C10.Chain", "state changed between logged calls") ELSE None

Init == l = 1 /\ bad = <<>> /\ st = [members |-> <<>>]
Next == /\ l <= Len(Tr)
        /\ LET e == Tr[l]
               v == Chain(e) \o Judge(e) IN
           /\ bad' = bad \o [k \in 1..Len(v) |-> [i |-> l, clause |-> v[k].clause, class |-> v[k].class]]
           /\ st' = e.post
        /\ l' = l + 1
Spec == Init /\ [][Next]_tvars
Done == l = Len(Tr) + 1 => JsonSerialize(IOEnv.OUT_FILE, [n |-> Len(Tr), bad |-> bad])
Accepted == TLCGet("stats").diameter - 1 = Len(Tr)
=============================================================================
