-------------------------- MODULE Trace_Containers --------------------------
(* Trace validation for C11.  Every logged call of a real TreeList / Tree /  *)
(* TreeArray / CharacterMatrix / DataSet is judged on the logged universes   *)
(* before and after it with the clauses of Containers.tla:                   *)
(*   C11.Closure, C11.RemovedKeepConsistentNs - violation descriptors that   *)
(*       the call *introduced* from a closed universe (Viol(pre) = {}), so   *)
(*       the call that breaks the closure is the one that is reported;       *)
(*   C11.LabelFunctional - the references the call carried into a namespace  *)
(*       (Moves) are unified by label / kept distinct / left alone;          *)
(*   C11.Chain - the universe did not change between two logged calls.       *)
(* C11.Drift (never failing, counted in the evidence): the call was made     *)
(* outside its precondition, or its outcome / effect differs from the        *)
(* reference design Apply although every property clause holds.              *)
(* Verdicts are total: judging continues after a failing clause.             *)
EXTENDS Containers, Json, IOUtils
Tr == ndJsonDeserialize(IOEnv.TRACE_FILE)
VARIABLES l, st, bad
tvars == <<l, st, bad>>

V(c, k) == <<[clause |-> c, class |-> k]>>
None == <<>>
Outcome(e) == IF e.raised = "" THEN "returned" ELSE "after-" \o e.raised
SetToSeq(S) == LET RECURSIVE F(_)
                   F(R) == IF R = {} THEN <<>> ELSE LET y == CHOOSE y \in R : TRUE IN <<y>> \o F(R \ {y})
               IN F(S)

JudgeState(e) ==
    LET new == Viol(e.post) \ Viol(e.pre)
        kinds == SelectSeq(ViolKinds, LAMBDA k : \E v \in new : v[1] = k)
    IN Concat([i \in 1..Len(kinds) |-> V(ClauseOfKind(kinds[i]), kinds[i] \o ":" \o Outcome(e))])
       \o (IF Sane(e.post) THEN None ELSE V("C11.Closure", "dangling-reference:" \o Outcome(e)))
       \o (IF ArrayAcceptedForeign(e.action, e.args, e.raised, e.post) THEN V("C11.Closure", "array-accepted-foreign-tree") ELSE None)

JudgeMoves(e) ==
    LET f == SetToSeq(LFAll(e.pre, e.action, e.args, e.raised, e.post))
    IN Concat([i \in 1..Len(f) |-> V("C11.LabelFunctional", f[i])])

JudgeDrift(e) ==
    LET r == Apply(e.pre, e.action, e.args) IN
    IF r.raised # e.raised THEN V("C11.Drift", "outcome:" \o (IF r.raised = "" THEN "returns" ELSE r.raised) \o ":observed-" \o Outcome(e))
    ELSE IF r.u # e.post THEN V("C11.Drift", "effect") ELSE None

\* "Init": the universe the harness built from the model's initial state (e.model) is that state, and is closed
JudgeInit(e) ==
    (IF e.pre # e.model THEN V("C11.Chain", "built universe differs from the model's initial state") ELSE None)
    \o (IF ~Sane(e.pre) \/ Viol(e.pre) # {} THEN V("C11.Closure", "initial-universe-not-closed") ELSE None)

Judge(e) ==
    IF e.action = "Init" THEN JudgeInit(e)
    ELSE IF ~Sane(e.pre) THEN V("C11.Drift", "ill-formed-pre-universe")
    \* the property is preserved from closed universes; the call that broke the closure was reported when it happened
    ELSE IF Viol(e.pre) # {} THEN V("C11.Drift", "pre-universe-not-closed")
    ELSE IF ~Guard(e.pre, e.action, e.args) THEN V("C11.Drift", "outside-precondition")
    ELSE JudgeState(e) \o JudgeMoves(e) \o JudgeDrift(e)

Chain(e) == IF e.step > 1 /\ st # e.pre THEN V("C11.Chain", "universe changed between logged calls") ELSE None

Init == l = 1 /\ bad = <<>> /\ st = [labels |-> <<>>]
Next == /\ l <= Len(Tr)
        /\ LET e == Tr[l]
               v == Chain(e) \o Judge(e) IN
           /\ bad' = bad \o [k \in 1..Len(v) |-> [i |-> l, clause |-> v[k].clause, class |-> v[k].class]]
           /\ st' = e.post
        /\ l' = l + 1
Spec == Init /\ [][Next]_tvars
Done == l = Len(Tr) + 1 => JsonSerialize(IOEnv.OUT_FILE, [n |-> Len(Tr), bad |-> bad])
Accepted == TLCGet("stats").diameter - 1 = Len(Tr)
=============================================================================
