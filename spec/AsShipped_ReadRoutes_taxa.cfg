SPECIFICATION Spec
CONSTANTS
  TreeGetKeepsSourceName = TRUE
  NexmlListRoutesReuseTaxa = FALSE
  MaxBlocks = 2
  MaxStmts = 1
  PoolSize = 2
  CharsAt = {0}
INVARIANTS Taxa
CHECK_DEADLOCK FALSE
