------------------------------- MODULE CharIO -------------------------------
(* C09 - character matrices survive a round trip through NEXUS, PHYLIP,     *)
(* FASTA and NeXML; multi-namespace data sets keep every component attached *)
(* to the namespace with its own labels.                                    *)
(*                                                                          *)
(* Abstract values                                                          *)
(*   label / title : Seq(char)            char = one-character string       *)
(*   matrix  m = [type, taxa : Seq(label), rows : Seq(Seq(cell))]           *)
(*   cell    : the SYMBOL of the state: a fundamental symbol, "-", "?", an  *)
(*             ambiguity code letter; for continuous data the canonical     *)
(*             rational literal "n/d" (equal numbers <=> equal literals);   *)
(*             "" stands for an undefined cell (None)                       *)
(*   per format a stream (what is in the file, syntactically):              *)
(*     phylip [ntax, nchar, lines : Seq(Seq(item))]   item = char, or one   *)
(*            atom "n/d" per continuous value                               *)
(*     fasta  [lines]                                                       *)
(*     nexus  [ntax, nchar, datatype, gap, missing, matchchar, symbols,     *)
(*             interleave, rows : Seq([label, cells])]  one entry per line  *)
(*     nexml  [type, seqs, states : Seq([id, sym]), chars : Seq(id),        *)
(*             rows : Seq([label, cells : Seq([char, state])])]             *)
(*   data-set level: blocks : Seq([kind, title, link, labels])              *)
(* Every writer/reader is a pure operator; MC_CharIO checks                 *)
(* Read_f(Write_f(m)) = m and the pair property on a bounded domain,        *)
(* Trace_CharIO evaluates the same operators on logged real executions.     *)
EXTENDS Integers, Sequences, FiniteSets, TLC

CONSTANTS StickyHyphen,       \* TRUE (regression, never shipped): '-' stays a token delimiter of the NEXUS tokenizer after a CHARSET statement
          ShippedSetsLink,    \* TRUE: a SETS block without LINK CHARACTERS is only resolvable while exactly one matrix has been read
          ShippedCharIds,     \* TRUE: NeXML writer draws a fresh <char> id per CELL when the matrix has no column definitions
          ShippedLinkBlocks,  \* TRUE: NEXUS writer's _link_blocks returns suppress_block_titles itself (inverted)
          ShippedTitleCase    \* TRUE: NEXUS writer makes titles unique case-sensitively (reader matches case-insensitively)

Min2(a, b) == IF a < b THEN a ELSE b
Max2(a, b) == IF a > b THEN a ELSE b
CSet(s) == {s[i] : i \in DOMAIN s}
IdxOf(s, x) == IF \E i \in DOMAIN s : s[i] = x THEN CHOOSE i \in DOMAIN s : s[i] = x ELSE 0
RECURSIVE CFlat(_)
CFlat(ss) == IF ss = <<>> THEN <<>> ELSE Head(ss) \o CFlat(Tail(ss))
RECURSIVE CJoin(_, _)
CJoin(ss, sep) == IF ss = <<>> THEN <<>> ELSE IF Len(ss) = 1 THEN ss[1] ELSE ss[1] \o sep \o CJoin(Tail(ss), sep)
MaxLen(ss) == IF ss = <<>> THEN 0 ELSE LET k == CHOOSE i \in DOMAIN ss : \A j \in DOMAIN ss : Len(ss[j]) <= Len(ss[i]) IN Len(ss[k])
RECURSIVE DigitsOf(_)
DigitsOf(k) == IF k < 10 THEN <<ToString(k)>> ELSE DigitsOf(k \div 10) \o <<ToString(k % 10)>>

WS == {" ", "\t"}
RECURSIVE CLTrim(_)
CLTrim(s) == IF s # <<>> /\ Head(s) \in WS THEN CLTrim(Tail(s)) ELSE s
RECURSIVE CRTrim(_)
CRTrim(s) == IF s # <<>> /\ s[Len(s)] \in WS THEN CRTrim(SubSeq(s, 1, Len(s) - 1)) ELSE s
CTrim(s) == CLTrim(CRTrim(s))
NoWS(s) == SelectSeq(s, LAMBDA c : c \notin WS)
PadTo(s, n) == s \o [i \in 1..(n - Len(s)) |-> " "]
Chunk(s, w, k) == SubSeq(s, (k - 1) * w + 1, Min2(k * w, Len(s)))          \* k-th page of width w
NPages(n, w) == IF n = 0 THEN 1 ELSE (n + w - 1) \div w

LowerSeq == <<"a","b","c","d","e","f","g","h","i","j","k","l","m","n","o","p","q","r","s","t","u","v","w","x","y","z">>
UpperSeq == <<"A","B","C","D","E","F","G","H","I","J","K","L","M","N","O","P","Q","R","S","T","U","V","W","X","Y","Z">>
UpMap == TLCEval([c \in CSet(LowerSeq) |-> UpperSeq[IdxOf(LowerSeq, c)]])
LowMap == TLCEval([c \in CSet(UpperSeq) |-> LowerSeq[IdxOf(UpperSeq, c)]])
ToUpper(c) == IF c \in DOMAIN UpMap THEN UpMap[c] ELSE c
ToLower(c) == IF c \in DOMAIN LowMap THEN LowMap[c] ELSE c
UpperOf(s) == [i \in DOMAIN s |-> ToUpper(s[i])]

(* ------------------------------------------------------------ data types *)
Types == {"dna", "rna", "nucleotide", "protein", "standard", "restriction", "infinite", "continuous"}
Formats == {"nexus", "phylip", "fasta", "nexml"}
\* which type a format can carry AS THE SAME TYPE (NEXUS writes restriction/infinite as STANDARD,
\* the NeXML writer rejects nucleotide/infinite, FASTA has no continuous data)
Supports(f, t) ==
    CASE f = "nexus"  -> t \in {"dna", "rna", "nucleotide", "protein", "standard", "continuous"}
      [] f = "phylip" -> TRUE
      [] f = "fasta"  -> t # "continuous"
      [] f = "nexml"  -> t \in {"dna", "rna", "protein", "standard", "restriction", "continuous"}

Digits10 == <<"0","1","2","3","4","5","6","7","8","9">>
FundSeq(t) ==
    CASE t = "dna" -> <<"A","C","G","T">>
      [] t = "rna" -> <<"A","C","G","U">>
      [] t = "nucleotide" -> <<"A","C","G","T","U">>
      [] t = "protein" -> <<"A","C","D","E","F","G","H","I","K","L","M","N","P","Q","R","S","T","V","W","Y","*">>
      [] t = "standard" -> Digits10
      [] t \in {"restriction", "infinite"} -> <<"1","0">>
      [] OTHER -> <<>>
AmbSeq(t) ==
    CASE t \in {"dna", "rna", "nucleotide"} -> <<"N","R","Y","M","W","S","K","V","H","D","B">>
      [] t = "protein" -> <<"B","Z","X">>
      [] OTHER -> <<>>
HasGapMissing(t) == t \in {"dna", "rna", "nucleotide", "protein", "standard"}
SymSeqOf(t) == FundSeq(t) \o (IF HasGapMissing(t) THEN <<"-", "?">> ELSE <<>>) \o AmbSeq(t)
SymSeqF == TLCEval([t \in Types |-> SymSeqOf(t)])       \* TLCEval: explicit values instead of lazily re-evaluated functions
SymSetF == TLCEval([t \in Types |-> CSet(SymSeqOf(t))])
Bad == "!"
\* symbol lookup of the state alphabets: case-insensitive, X is a synonym of N for nucleotides
Canon(t, c) ==
    IF t = "continuous" THEN c
    ELSE IF c \in SymSetF[t] THEN c
    ELSE LET u == ToUpper(c) IN
         IF u \in SymSetF[t] THEN u
         ELSE IF u = "X" /\ t \in {"dna", "rna", "nucleotide"} THEN "N" ELSE Bad

(* ------------------------------------------------------------ matrices, reader results *)
NCols(m) == MaxLen(m.rows)
Fail == [ok |-> FALSE, type |-> "", taxa |-> <<>>, rows |-> <<>>]
Ok(t, taxa, rows) == [ok |-> TRUE, type |-> t, taxa |-> taxa, rows |-> rows]
AsMatrix(r) == [type |-> r.type, taxa |-> r.taxa, rows |-> r.rows]
AllGood(rows) == \A i \in DOMAIN rows : \A j \in DOMAIN rows[i] : rows[i][j] # Bad
\* accumulate cells under a label (new taxon: appended in order of first appearance)
AddCells(acc, lab, cells) ==
    LET k == IdxOf(acc.taxa, lab) IN
    IF k = 0 THEN [acc EXCEPT !.taxa = Append(@, lab), !.rows = Append(@, cells)]
    ELSE [acc EXCEPT !.rows[k] = @ \o cells]

(* ============================================================ PHYLIP *)
\* writer options  [strict, page]      page = 0: sequential, one line per taxon (what PhylipWriter emits)
\*                                     page = w > 0: interleaved, w cells per page, labels on the first page only
\* reader options  [strict, interleaved, multispace]
PhyCellItems(t, cells) == IF t = "continuous" THEN CJoin([i \in DOMAIN cells |-> <<cells[i]>>], <<" ">>) ELSE cells
PhyLabField(lab, strict, maxlen) ==
    IF strict THEN PadTo(SubSeq(lab, 1, Min2(10, Len(lab))), 10) ELSE PadTo(lab, maxlen) \o <<" ", " ">>
PhyWrite(m, o) ==
    LET nt == Len(m.taxa)  n == NCols(m)
        maxlen == MaxLen(m.taxa)
        fld(i) == PhyLabField(m.taxa[i], o.strict, maxlen)
        lines == IF o.page = 0
                 THEN [i \in 1..nt |-> fld(i) \o PhyCellItems(m.type, m.rows[i])]
                 ELSE CFlat([k \in 1..NPages(n, o.page) |->
                        (IF k = 1 THEN <<>> ELSE << <<>> >>) \o
                        [i \in 1..nt |-> (IF k = 1 THEN fld(i) ELSE <<>>) \o PhyCellItems(m.type, Chunk(m.rows[i], o.page, k))]])
    IN [ntax |-> nt, nchar |-> n, lines |-> lines]

\* <<label, rest>> of a line that starts a sequence
PhySplit(line, o) ==
    IF o.strict THEN <<CTrim(SubSeq(line, 1, Min2(10, Len(line)))), SubSeq(line, 11, Len(line))>>
    ELSE LET isSep(i) == line[i] \in WS /\ (~o.multispace \/ (i < Len(line) /\ line[i + 1] \in WS))
         IN IF \E i \in DOMAIN line : isSep(i)
            THEN LET k == CHOOSE i \in DOMAIN line : isSep(i) /\ \A j \in 1..(i - 1) : ~isSep(j)
                 IN <<SubSeq(line, 1, k - 1), SubSeq(line, k, Len(line))>>
            ELSE <<line, <<>>>>
PhyCells(t, rest) == LET raw == NoWS(rest) IN [i \in DOMAIN raw |-> Canon(t, raw[i])]
PhyNonBlank(lines) == SelectSeq([i \in DOMAIN lines |-> CRTrim(lines[i])], LAMBDA ln : ln # <<>>)

RECURSIVE PhySeqRead(_, _, _, _, _, _)
PhySeqRead(t, nchar, o, lines, i, acc) ==          \* acc = [taxa, rows, cur, bad]
    IF i > Len(lines) THEN acc
    ELSE IF acc.cur = 0
         THEN LET sp == PhySplit(lines[i], o)
                  a2 == AddCells(acc, sp[1], PhyCells(t, sp[2]))
                  k == IdxOf(a2.taxa, sp[1])
              IN PhySeqRead(t, nchar, o, lines, i + 1,
                     [a2 EXCEPT !.cur = IF Len(a2.rows[k]) >= nchar THEN 0 ELSE k, !.bad = @ \/ sp[1] = <<>>])
         ELSE LET a2 == [acc EXCEPT !.rows[acc.cur] = @ \o PhyCells(t, lines[i])]
              IN PhySeqRead(t, nchar, o, lines, i + 1, [a2 EXCEPT !.cur = IF Len(a2.rows[acc.cur]) >= nchar THEN 0 ELSE acc.cur])
RECURSIVE PhyIntRead(_, _, _, _, _, _)
PhyIntRead(t, ntax, o, lines, i, acc) ==
    IF i > Len(lines) THEN acc
    ELSE IF i <= ntax
         THEN LET sp == PhySplit(lines[i], o)
              IN PhyIntRead(t, ntax, o, lines, i + 1, [AddCells(acc, sp[1], PhyCells(t, sp[2])) EXCEPT !.bad = @ \/ sp[1] = <<>>])
         ELSE LET k == ((i - 1) % ntax) + 1
              IN IF k > Len(acc.rows) THEN [acc EXCEPT !.bad = TRUE]
                 ELSE PhyIntRead(t, ntax, o, lines, i + 1, [acc EXCEPT !.rows[k] = @ \o PhyCells(t, lines[i])])
PhyRead(t, st, o) ==
    LET lines == PhyNonBlank(st.lines)
        a0 == [taxa |-> <<>>, rows |-> <<>>, cur |-> 0, bad |-> FALSE]
        a == IF o.interleaved THEN PhyIntRead(t, st.ntax, o, lines, 1, a0) ELSE PhySeqRead(t, st.nchar, o, lines, 1, a0)
    IN IF a.bad \/ Len(a.taxa) # st.ntax \/ ~AllGood(a.rows) THEN Fail ELSE Ok(t, a.taxa, a.rows)

(* ============================================================ FASTA *)
\* writer options [wrap]   wrap = 0: one line per sequence; w > 0: lines of w cells (FastaWriter wraps at 70)
FastaWrite(m, o) ==
    LET n(i) == Len(m.rows[i])
        seqlines(i) == IF o.wrap = 0 THEN <<m.rows[i]>> ELSE [k \in 1..NPages(n(i), o.wrap) |-> Chunk(m.rows[i], o.wrap, k)]
    IN [lines |-> CFlat([i \in DOMAIN m.taxa |-> << <<">">> \o m.taxa[i] >> \o seqlines(i) \o << <<>> >>])]
RECURSIVE FastaFold(_, _, _, _)
FastaFold(t, lines, i, acc) ==                       \* acc = [taxa, rows, cur, bad]
    IF i > Len(lines) THEN acc
    ELSE LET s == CTrim(lines[i]) IN
         IF s = <<>> THEN FastaFold(t, lines, i + 1, acc)
         ELSE IF s[1] = ">"
              THEN LET lab == CTrim(Tail(s)) IN
                   FastaFold(t, lines, i + 1,
                       [taxa |-> Append(acc.taxa, lab), rows |-> Append(acc.rows, <<>>), cur |-> Len(acc.taxa) + 1,
                        bad |-> acc.bad \/ IdxOf(acc.taxa, lab) # 0])
              ELSE IF acc.cur = 0 THEN [acc EXCEPT !.bad = TRUE]
                   ELSE FastaFold(t, lines, i + 1, [acc EXCEPT !.rows[acc.cur] = @ \o PhyCells(t, s)])
FastaRead(t, st) ==
    LET a == FastaFold(t, st.lines, 1, [taxa |-> <<>>, rows |-> <<>>, cur |-> 0, bad |-> FALSE])
    IN IF a.bad \/ ~AllGood(a.rows) THEN Fail ELSE Ok(t, a.taxa, a.rows)

(* ============================================================ NEXUS *)
\* writer options [page, match]   page = 0: one line per taxon (what NexusWriter emits); w > 0: INTERLEAVE, pages of w cells
\*                                match: cells of rows 2.. that equal the first row are written as MATCHCHAR
NexusDT(t) == CASE t = "dna" -> "DNA" [] t = "rna" -> "RNA" [] t = "nucleotide" -> "NUCLEOTIDE" [] t = "protein" -> "PROTEIN"
                [] t = "continuous" -> "CONTINUOUS" [] OTHER -> "STANDARD"
NexusTypeOf(dt) == CASE dt = "DNA" -> "dna" [] dt = "RNA" -> "rna" [] dt = "NUCLEOTIDE" -> "nucleotide" [] dt = "PROTEIN" -> "protein"
                     [] dt = "CONTINUOUS" -> "continuous" [] OTHER -> "standard"
NexusWrite(m, o) ==
    LET nt == Len(m.taxa)  n == NCols(m)
        cell(i, j) == IF o.match /\ m.type # "continuous" /\ i > 1 /\ j <= Len(m.rows[1]) /\ m.rows[i][j] = m.rows[1][j] THEN "." ELSE m.rows[i][j]
        row(i) == [j \in DOMAIN m.rows[i] |-> cell(i, j)]
        rows == IF o.page = 0 THEN [i \in 1..nt |-> [label |-> m.taxa[i], cells |-> row(i)]]
                ELSE CFlat([k \in 1..NPages(n, o.page) |-> [i \in 1..nt |-> [label |-> m.taxa[i], cells |-> Chunk(row(i), o.page, k)]]])
    IN [ntax |-> nt, nchar |-> n, datatype |-> NexusDT(m.type), gap |-> "-", missing |-> "?", matchchar |-> ".",
        symbols |-> IF NexusDT(m.type) = "STANDARD" THEN FundSeq(m.type) \o <<"-">> ELSE <<>>,
        interleave |-> o.page > 0, rows |-> rows]
\* a cell token under the DECLARED format: GAP / MISSING / MATCHCHAR symbols, SYMBOLS list for STANDARD
NexusSym(st, t, c) ==
    IF t = "continuous" THEN c
    ELSE IF c = st.gap THEN "-"
    ELSE IF c = st.missing THEN "?"
    ELSE IF c \in {"-", "?"} THEN Bad
    ELSE IF t = "standard" THEN (IF \E i \in DOMAIN st.symbols : ToUpper(st.symbols[i]) = ToUpper(c) THEN ToUpper(c) ELSE Bad)
    ELSE Canon(t, c)
RECURSIVE NexusFold(_, _, _, _)
NexusFold(st, t, i, acc) ==                          \* acc = [taxa, rows]
    IF i > Len(st.rows) THEN acc
    ELSE LET r == st.rows[i]
             k == IdxOf(acc.taxa, r.label)
             have == IF k = 0 THEN 0 ELSE Len(acc.rows[k])
             first(j) == IF acc.rows = <<>> \/ k = 1 THEN Bad                 \* MATCHCHAR copies from the first sequence defined
                         ELSE IF have + j <= Len(acc.rows[1]) THEN acc.rows[1][have + j] ELSE Bad
             cells == [j \in DOMAIN r.cells |-> IF t # "continuous" /\ r.cells[j] = st.matchchar THEN first(j) ELSE NexusSym(st, t, r.cells[j])]
         IN NexusFold(st, t, i + 1, AddCells(acc, r.label, cells))
NexusRead(st) ==
    LET t == NexusTypeOf(st.datatype)
        a == NexusFold(st, t, 1, [taxa |-> <<>>, rows |-> <<>>])
    IN IF ~AllGood(a.rows) \/ (st.ntax # 0 /\ st.ntax # Len(a.taxa)) \/ (\E i \in DOMAIN a.rows : Len(a.rows[i]) > st.nchar)
       THEN Fail ELSE Ok(t, a.taxa, a.rows)

(* ============================================================ NeXML *)
\* writer options [seqs]   seqs = FALSE: one <cell char= state=> per cell;  TRUE: <seq> markup
\* coldefs: the matrix carries explicit column definitions (CharacterType objects): parsed from NeXML, or exported from such
NexmlDT(t) == CASE t = "dna" -> "Dna" [] t = "rna" -> "Rna" [] t = "protein" -> "Protein" [] t = "restriction" -> "Restriction"
                [] t = "standard" -> "Standard" [] t = "continuous" -> "Continuous" [] OTHER -> "Unsupported"
NexmlTypeOf(dt) == CASE dt = "Dna" -> "dna" [] dt = "Rna" -> "rna" [] dt = "Protein" -> "protein" [] dt = "Restriction" -> "restriction"
                     [] dt = "Standard" -> "standard" [] dt = "Continuous" -> "continuous" [] OTHER -> ""
CharIdOf(k) == "c" \o ToString(k)
StateIdOf(t, sym) == "s" \o ToString(IdxOf(SymSeqF[t], sym))
NexmlWrite(m, o, coldefs) ==
    LET nt == Len(m.taxa)  n == NCols(m)
        perCell == ShippedCharIds /\ ~coldefs
        chars == IF perCell THEN [k \in 1..(nt * n) |-> CharIdOf(k)] ELSE [k \in 1..n |-> CharIdOf(k)]
        charOf(i, j) == IF perCell THEN CharIdOf((i - 1) * n + j) ELSE CharIdOf(j)
        states == IF m.type = "continuous" THEN <<>>
                  ELSE [k \in DOMAIN SymSeqF[m.type] |-> [id |-> "s" \o ToString(k), sym |-> SymSeqF[m.type][k]]]
        cellOf(i, j) == IF o.seqs THEN [char |-> "", state |-> m.rows[i][j]]
                        ELSE [char |-> charOf(i, j),
                              state |-> IF m.type = "continuous" THEN m.rows[i][j] ELSE StateIdOf(m.type, m.rows[i][j])]
    IN [type |-> NexmlDT(m.type), seqs |-> o.seqs, states |-> states, chars |-> chars,
        rows |-> [i \in 1..nt |-> [label |-> m.taxa[i], cells |-> [j \in DOMAIN m.rows[i] |-> cellOf(i, j)]]]]
SeqMax0(s) == IF s = <<>> THEN 0 ELSE s[CHOOSE a \in DOMAIN s : \A b \in DOMAIN s : s[b] <= s[a]]
\* cells placed in the column of their <char> id (the last one wins); a column without a cell is undefined ("")
NexmlPlace(pos, syms) ==
    TLCEval([p \in 1..SeqMax0(pos) |->
               LET S == {j \in DOMAIN pos : pos[j] = p} IN
               IF S = {} THEN "" ELSE syms[CHOOSE j \in S : \A b \in S : b <= j]])
NexmlRow(st, t, stateIds, cells) ==
    IF st.seqs THEN [j \in DOMAIN cells |-> Canon(t, cells[j].state)]
    ELSE LET pos == TLCEval([j \in DOMAIN cells |-> IdxOf(st.chars, cells[j].char)])
             syms == TLCEval([j \in DOMAIN cells |->
                        IF t = "continuous" THEN cells[j].state
                        ELSE LET k == IdxOf(stateIds, cells[j].state) IN IF k = 0 THEN Bad ELSE st.states[k].sym])
         IN IF \E j \in DOMAIN pos : pos[j] = 0 THEN <<Bad>> ELSE NexmlPlace(pos, syms)
NexmlRead(st) ==
    LET t == NexmlTypeOf(st.type)
        stateIds == TLCEval([q \in DOMAIN st.states |-> st.states[q].id])
        rows == TLCEval([i \in DOMAIN st.rows |-> TLCEval(NexmlRow(st, t, stateIds, st.rows[i].cells))])
    IN IF t = "" \/ ~AllGood(rows) THEN Fail ELSE Ok(t, [i \in DOMAIN st.rows |-> st.rows[i].label], rows)

(* ============================================================ generic round trip *)
\* w: writer/layout options, one record shape for all formats
\*   [strict, page, match, wrap, seqs]     reader options are derived from the layout
ROptOf(f, w, multispace) == [strict |-> w.strict, interleaved |-> w.page > 0, multispace |-> multispace]
WriteF(f, m, w, coldefs) ==
    CASE f = "phylip" -> PhyWrite(m, w)
      [] f = "fasta"  -> FastaWrite(m, w)
      [] f = "nexus"  -> NexusWrite(m, w)
      [] f = "nexml"  -> NexmlWrite(m, w, coldefs)
ReadF(f, t, st, ro) ==
    CASE f = "phylip" -> PhyRead(t, st, ro)
      [] f = "fasta"  -> FastaRead(t, st)
      [] f = "nexus"  -> LET r == NexusRead(st) IN IF r.ok /\ r.type # t THEN Fail ELSE r
      [] f = "nexml"  -> LET r == NexmlRead(st) IN IF r.ok /\ r.type # t THEN Fail ELSE r
\* what the format itself does to a label: strict PHYLIP keeps 10 columns
NormLabel(f, strict, lab) == IF f = "phylip" /\ strict THEN CTrim(SubSeq(lab, 1, Min2(10, Len(lab)))) ELSE lab
NormTaxa(f, strict, taxa) == [i \in DOMAIN taxa |-> NormLabel(f, strict, taxa[i])]

\* construction routes; they differ (for the writers) in whether explicit column definitions exist
Routes == {"from_dict", "concatenated", "exported", "exported_typed", "parsed_nexus", "parsed_phylip", "parsed_fasta", "parsed_nexml",
           "typed_self_concatenated", "typed_self_extended",      \* parsed from NeXML, then combined with itself: every column twice
           "observed_then_rows", "observed_then_columns"}         \* two-phase history: built, observed (written / iterated), then completed
                                                                  \* by a row operation (extend_matrix, add/update_sequences, new_sequence ...)
                                                                  \* or a column operation (extend, replace, fill, remove ...)
HasColDefs(route) == route \in {"parsed_nexml", "exported_typed"}
SelfCombined(route) == route \in {"typed_self_concatenated", "typed_self_extended"}
Doubled(m) == [m EXCEPT !.rows = [i \in DOMAIN m.rows |-> m.rows[i] \o m.rows[i]]]
RouteOk(route, t) ==
    CASE route = "parsed_nexus"  -> Supports("nexus", t)
      [] route = "parsed_phylip" -> Supports("phylip", t)
      [] route = "parsed_fasta"  -> Supports("fasta", t)
      [] route \in {"parsed_nexml", "exported_typed", "typed_self_concatenated", "typed_self_extended"} -> Supports("nexml", t)
      [] OTHER -> TRUE
ParsedRoute(f) == "parsed_" \o f

(* ============================================================ data sets: TITLE / LINK, otus references *)
\* ds = [nss : Seq([title, labels]), comps : Seq([kind, ns, title])]   kind \in {"CHARACTERS", "TREES"}, ns = index into nss
\* setting = suppress_block_titles \in {"None", "False", "True"}
LinkBlocks(setting, nns) ==
    IF setting = "None" THEN nns > 1
    ELSE IF ShippedLinkBlocks THEN setting = "True" ELSE setting = "False"
\* documented: None keeps titles when needed, False always writes them, True may make the file unreadable with several namespaces
TitlesKeptWhenNeeded(setting, nns) == setting # "True" \/ nns <= 1
TitleKey(t) == IF ShippedTitleCase THEN t ELSE UpperOf(t)
RECURSIVE UniqFrom(_, _, _)
UniqFrom(orig, k, used) == LET cand == orig \o <<".">> \o DigitsOf(k) IN IF TitleKey(cand) \in used THEN UniqFrom(orig, k + 1, used) ELSE cand
UniqTitle(orig, used) == IF TitleKey(orig) \in used THEN UniqFrom(orig, 1, used) ELSE orig
\* blocks in the order NexusWriter emits them: all TAXA, then CHARACTERS (each followed by its SETS block when the matrix
\* carries character subsets), then TREES.   comps[k] = [kind, ns, title, subsets, neg]
\*   subsets: the matrix carries character subsets;  neg: its cells contain tokens with '-' (negative values, exponents)
CompOrder(ds) == SelectSeq([k \in DOMAIN ds.comps |-> k], LAMBDA k : ds.comps[k].kind = "CHARACTERS")
                 \o SelectSeq([k \in DOMAIN ds.comps |-> k], LAMBDA k : ds.comps[k].kind = "TREES")
RECURSIVE NexusTitles(_, _, _, _)
NexusTitles(raw, i, used, out) ==                    \* raw: Seq(title or <<>>) in emission order; unlabelled blocks get a unique number
    IF i > Len(raw) THEN out
    ELSE LET base == IF raw[i] = <<>> THEN <<"#">> \o DigitsOf(i) ELSE raw[i]
             t == UniqTitle(base, used)
         IN NexusTitles(raw, i + 1, used \cup {TitleKey(t)}, Append(out, t))
Blk(kind, title, link, labels, neg) == [kind |-> kind, title |-> title, link |-> link, labels |-> labels, neg |-> neg]
NexusWriteDS(ds, setting) ==
    LET nns == Len(ds.nss)
        order == CompOrder(ds)
        link == LinkBlocks(setting, nns)
        raw == [i \in 1..nns |-> ds.nss[i].title] \o [j \in DOMAIN order |-> ds.comps[order[j]].title]
        titles == IF link THEN NexusTitles(raw, 1, {}, <<>>) ELSE [i \in DOMAIN raw |-> <<>>]
        data(j) == LET cp == ds.comps[order[j]] IN
                   <<Blk(cp.kind, titles[nns + j], IF link THEN titles[cp.ns] ELSE <<>>, <<>>, cp.neg)>>
                   \o (IF cp.kind = "CHARACTERS" /\ cp.subsets THEN <<Blk("SETS", <<>>, <<>>, <<>>, FALSE)>> ELSE <<>>)
    IN [i \in 1..nns |-> Blk("TAXA", titles[i], <<>>, ds.nss[i].labels, FALSE)]
       \o CFlat([j \in DOMAIN order |-> data(j)])
NexmlWriteDS(ds) ==
    LET nns == Len(ds.nss)  order == CompOrder(ds) IN
    [i \in 1..nns |-> Blk("TAXA", <<"d">> \o DigitsOf(i), <<>>, ds.nss[i].labels, FALSE)]
    \o [j \in DOMAIN order |-> Blk(ds.comps[order[j]].kind, <<"d">> \o DigitsOf(nns + j),
                                     <<"d">> \o DigitsOf(ds.comps[order[j]].ns), <<>>, ds.comps[order[j]].neg)]
\* reader side: which TAXA block does each data block bind to (0: the reader must give up)
TaxaIdx(blocks) == SelectSeq([i \in DOMAIN blocks |-> i], LAMBDA i : blocks[i].kind = "TAXA")
ResolveNexus(blocks, i) ==                           \* NexusReader._get_taxon_namespace: namespaces seen before block i
    LET seen == SelectSeq(TaxaIdx(blocks), LAMBDA k : k < i)
        b == blocks[i]
    IN IF b.link = <<>> THEN (IF Len(seen) = 1 THEN seen[1] ELSE 0)
       ELSE LET hit == SelectSeq(seen, LAMBDA k : blocks[k].title # <<>> /\ UpperOf(blocks[k].title) = UpperOf(b.link))
            IN IF Len(hit) = 1 THEN hit[1] ELSE 0
ResolveNexml(blocks, i) ==
    LET hit == SelectSeq(TaxaIdx(blocks), LAMBDA k : blocks[k].title = blocks[i].link) IN IF Len(hit) = 1 THEN hit[1] ELSE 0
DataIdx(blocks) == SelectSeq([i \in DOMAIN blocks |-> i], LAMBDA i : blocks[i].kind \notin {"TAXA", "SETS"})
CharsBefore(blocks, i) == Len(SelectSeq([k \in DOMAIN blocks |-> k], LAMBDA k : k < i /\ blocks[k].kind = "CHARACTERS"))
\* a SETS block (CHARSET statements) belongs to the matrix it follows; the shipped reader only resolves an unlinked one
\* while exactly one matrix has been read
SetsOk(blocks, i) == blocks[i].link # <<>> \/ ~ShippedSetsLink \/ CharsBefore(blocks, i) = 1
SetsFail(blocks) == \E i \in DOMAIN blocks : blocks[i].kind = "SETS" /\ ~SetsOk(blocks, i)
\* hidden tokenizer state across blocks: position lists switch '-' on as a delimiter and must switch it off again
HyphenOnAt(blocks, i) == StickyHyphen /\ \E k \in DOMAIN blocks : k < i /\ blocks[k].kind = "SETS"
\* for every data block in order: [kind, ok, labels of the namespace it is attached to]
ReadDS(f, blocks) ==
    LET d == DataIdx(blocks) IN
    [j \in DOMAIN d |-> LET k == IF f = "nexus" THEN ResolveNexus(blocks, d[j]) ELSE ResolveNexml(blocks, d[j])
                             ok == k # 0 /\ (f = "nexus" => ~SetsFail(blocks) /\ ~(blocks[d[j]].neg /\ HyphenOnAt(blocks, d[j])))
                         IN [kind |-> blocks[d[j]].kind, ok |-> ok, labels |-> IF ok THEN blocks[k].labels ELSE <<>>]]
ExpectDS(ds) ==
    LET order == CompOrder(ds) IN
    [j \in DOMAIN order |-> [kind |-> ds.comps[order[j]].kind, ok |-> TRUE, labels |-> ds.nss[ds.comps[order[j]].ns].labels]]
WriteDS(f, ds, setting) == IF f = "nexus" THEN NexusWriteDS(ds, setting) ELSE NexmlWriteDS(ds)
=============================================================================
