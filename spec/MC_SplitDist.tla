---------------------------- MODULE MC_SplitDist ----------------------------
(* Bounded model for C05: every multiset of at most MaxTrees trees over N    *)
(* taxa (all hierarchies of non-trivial clades, i.e. all leaf-labelled tree  *)
(* shapes incl. polytomies, read as rooted or as unrooted trees) x the first *)
(* NW weights x the first NT thresholds.  The distribution is built by       *)
(* CountTree / Update; Freq / Consensus / Collapse / Cred observe it through *)
(* the frequency cache, exactly as the library does (one observation action  *)
(* covers all thresholds / all counted trees as targets).                    *)
(*   Observe = FALSE: only the multisets (the domain replayed on real code). *)
(*   ObserveFrom: observations start once that many trees are counted.       *)
(*   TrackDist = FALSE (domain dumps only): the distribution is not computed.*)
(*   TrackOperand: the operand of the last Update is kept as a second object *)
(*   (opnd); it must stay what its own tree contributed whatever is counted   *)
(*   into the receiver afterwards (OperandIntact).  AdoptLists = TRUE models  *)
(*   an update() that adopts the operand's value lists for splits the        *)
(*   receiver lacks instead of copying them: TLC must find OperandIntact      *)
(*   violated (non-vacuity).                                                 *)
(*   Refuse: a counting call that ends in a documented error (tree not        *)
(*   ultrametric with node ages on, foreign namespace, other rooting) leaves  *)
(*   every variable as it was.  BookkeepFirst = TRUE models a                 *)
(*   count_splits_on_tree() that adds the weight to the normaliser before the *)
(*   check that refuses the tree: TLC must find FreqExact violated.           *)
(*   CacheChecksCount = FALSE: a cache that is not invalidated when trees    *)
(*   are added - TLC must find CacheFresh violated (non-vacuity).            *)
EXTENDS SplitDist
CONSTANTS N, MaxTrees, NW, NT, Observe, ObserveFrom, CacheChecksCount, TrackDist, TrackOperand, AdoptLists, BookkeepFirst
VARIABLES rooted, ms, d, cache, out, opnd
vars == <<rooted, ms, d, cache, out, opnd>>

Taxa == 1..N
AllW == << <<1, 2>>, <<2, 1>>, <<1, 1>> >>
AllThr == << <<13, 50, 0>>, <<1, 2, 0>>, <<1, 2, 1>>, <<3, 4, 0>>, <<1, 1, 0>>, <<1, 3, 0>>, <<2, 3, 0>> >>

\* ------------------------------------------------------------ the tree domain
NTC == {c \in SUBSET Taxa : Cardinality(c) > 1 /\ Cardinality(c) < N}
RECURSIVE HierLevel(_)
HierLevel(k) == IF k = 0 THEN {{}}
                ELSE UNION {{H \cup {c} : c \in {x \in NTC : x \notin H /\ \A a \in H : Compat(a, x)}} : H \in HierLevel(k - 1)}
Hiers == UNION {HierLevel(k) : k \in 0..(N - 2)}
\* a total order on hierarchies (multisets are enumerated once, as non-decreasing sequences)
CladeBit(c) == SumFn(c, [t \in c |-> 2 ^ (t - 1)])
HKey(H) == SumFn(H, [c \in H |-> 2 ^ CladeBit(c)])
\* edge lengths (scaled by LS): a fixed pattern per (tree, weight); every fourth pattern has no lengths at all
LenFor(H, k) == [c \in {Taxa} \cup H \cup {{t} : t \in Taxa} |->
                    IF c = Taxa \/ (k % 4) = 0 THEN -1 ELSE (((Cardinality(c) + Min(c) + k) % 3) + 1) * 2]
Item(H, wi) == [h |-> H, w |-> wi, wq |-> AllW[wi], key |-> HKey(H), len |-> LenFor(H, (HKey(H) % 7) + wi)]
LeqItem(a, b) == a.key < b.key \/ (a.key = b.key /\ a.w <= b.w)
TreeG(it) == GraphOfClades(it.h, Taxa, it.len, rooted)
NoLen(S) == [c \in {Taxa} \cup S \cup {{t} : t \in Taxa} |-> -1]
\* the contribution of an item, computed on the clades directly
SplitOfClade(c) == IF rooted = 1 THEN c ELSE Norm(c, Taxa)
AbsItem(it) ==
    LET C == DOMAIN it.len
        S == {SplitOfClade(c) : c \in C}
        lenOf(s) == LET V == {c \in C : SplitOfClade(c) = s /\ it.len[c] >= 0}
                    IN IF V = {} THEN -1 ELSE SumFn(V, [c \in V |-> it.len[c]])
    IN [r |-> rooted, S |-> S, len |-> [s \in S |-> lenOf(s)], age |-> [s \in S |-> 0]]

\* ------------------------------------------------------------ the cache, as _get_split_frequencies uses it
NoCache == [valid |-> FALSE, at |-> 0, f |-> [s \in {} |-> RZero]]
CacheValidNow == cache.valid /\ (~CacheChecksCount \/ cache.at = d.n)
View == IF CacheValidNow THEN cache.f ELSE ExactFreqs(d)
Filled == IF CacheValidNow THEN cache ELSE [valid |-> TRUE, at |-> d.n, f |-> ExactFreqs(d)]

NoOperand == [D |-> EmptyDist, shared |-> {}, it |-> <<>>]
Init == /\ rooted \in {0, 1} /\ ms = <<>> /\ d = EmptyDist /\ cache = NoCache /\ out = [kind |-> "none"] /\ opnd = NoOperand

CountTree(H, wi) ==
    /\ Len(ms) < MaxTrees
    /\ LET it == Item(H, wi) IN
       /\ (IF ms = <<>> THEN TRUE ELSE LeqItem(ms[Len(ms)], it))
       /\ ms' = Append(ms, it)
       /\ d' = IF TrackDist THEN CountAbs(d, AbsItem(it), AllW[wi], TRUE, FALSE) ELSE d
       \* value lists shared with the operand grow with it
       /\ opnd' = IF TrackOperand /\ opnd.shared # {}
                   THEN [opnd EXCEPT !.D.len = [s \in DOMAIN @ |-> IF s \in opnd.shared /\ s \in AbsItem(it).S
                                                                  THEN @[s] \o <<AbsItem(it).len[s]>> ELSE @[s]]]
                   ELSE opnd
    /\ out' = [kind |-> "none"]
    /\ UNCHANGED <<rooted, cache>>
\* update() from a distribution that counted one tree
Update(H, wi) ==
    /\ Len(ms) < MaxTrees
    /\ LET it == Item(H, wi) IN
       /\ (IF ms = <<>> THEN TRUE ELSE LeqItem(ms[Len(ms)], it))
       /\ ms' = Append(ms, it)
       /\ d' = IF TrackDist THEN UpdateOp(d, CountAbs(EmptyDist, AbsItem(it), AllW[wi], TRUE, FALSE)) ELSE d
       /\ opnd' = IF TrackOperand
                   THEN [D |-> CountAbs(EmptyDist, AbsItem(it), AllW[wi], TRUE, FALSE),
                         shared |-> IF AdoptLists THEN {s \in AbsItem(it).S : s \notin DOMAIN d.cnt} ELSE {}, it |-> <<it>>]
                   ELSE opnd
    /\ out' = [kind |-> "none"]
    /\ UNCHANGED <<rooted, cache>>
Refuse(wi) ==
    /\ d' = IF BookkeepFirst /\ TrackDist THEN [d EXCEPT !.sumW = RAdd(@, AllW[wi])] ELSE d
    /\ UNCHANGED <<rooted, ms, cache, out, opnd>>
Freq ==
    /\ Observe /\ d.n >= ObserveFrom /\ d.n > 0
    /\ out' = [kind |-> "freq", f |-> View]
    /\ cache' = Filled
    /\ UNCHANGED <<rooted, ms, d, opnd>>
Consensus ==
    /\ Observe /\ d.n >= ObserveFrom /\ d.n > 0 /\ out.kind = "none"
    /\ out' = [kind |-> "cons",
               g |-> [ti \in 1..NT |-> LET S == RefConsensusSplits(View, AllThr[ti], Taxa, rooted)
                                       IN GraphOfClades(S, Taxa, NoLen(S), rooted)]]
    /\ UNCHANGED <<rooted, ms, d, cache, opnd>>
Collapse ==
    /\ Observe /\ d.n >= ObserveFrom /\ d.n > 0 /\ out.kind = "none"
    /\ out' = [kind |-> "collapse",
               g0 |-> [k \in 1..Len(ms) |-> TreeG(ms[k])],
               g1 |-> [k \in 1..Len(ms) |-> [ti \in 1..NT |->
                          LET g0 == TreeG(ms[k]) IN CollapseRef(g0, LowNodes(g0, View, AllThr[ti], rooted))]]]
    /\ UNCHANGED <<rooted, ms, d, cache, opnd>>
Tops == [i \in 1..Len(ms) |-> AbsItem(ms[i]).S]
Cred ==
    /\ Observe /\ d.n >= ObserveFrom /\ d.n > 0 /\ out.kind = "none"
    /\ LET F == View
           tops == Tops
           sc == [i \in 1..Len(ms) |-> SumScore(F, tops[i], Taxa, rooted)]
           ranks == [i \in 1..Len(ms) |-> Cardinality({RNorm(sc[j]) : j \in {j \in 1..Len(ms) : RLt(sc[j], sc[i])}})]
           pick == Min(ArgMaxSet(ranks))
       IN out' = [kind |-> "cred", ranks |-> ranks, S |-> tops[pick]]
    /\ UNCHANGED <<rooted, ms, d, cache, opnd>>

Next == \/ \E H \in Hiers, wi \in 1..NW : CountTree(H, wi)
        \/ \E H \in Hiers, wi \in 1..NW : Update(H, wi)
        \/ \E wi \in 1..NW : Refuse(wi)
        \/ Freq
        \/ Consensus
        \/ Collapse
        \/ Cred
Spec == Init /\ [][Next]_vars

\* ------------------------------------------------------------ properties
\* the graph form of the newest item carries exactly the splits / lengths the model counted for it
GraphAgrees == ms # <<>> /\ out.kind = "none" =>
                  LET g == TreeG(ms[Len(ms)]) IN WFClause(g) = "ok" /\ AbsTree(g, -1, FALSE) = AbsItem(ms[Len(ms)])
\* the incrementally built state reports the definition: the weighted fraction of trees containing the split,
\* and nothing for splits that occur in no tree
FreqExact == out.kind = "none" =>
             LET trees == [i \in 1..Len(ms) |-> [S |-> AbsItem(ms[i]).S, w |-> AllW[ms[i].w]]] IN
             /\ d.n = Len(ms)
             /\ DOMAIN d.cnt = DefSplits(trees)
             /\ \A s \in DOMAIN d.cnt : d.n > 0 => REq(FreqOf(d, s), DefFreq(trees, s))
             /\ \A s \in SUBSET Taxa : s \notin DOMAIN d.cnt => FreqOf(d, s) = RZero
RECURSIVE Fold(_, _)
Fold(D, q) == IF q = <<>> THEN D ELSE Fold(CountAbs(D, AbsItem(Head(q)), AllW[Head(q).w], TRUE, FALSE), Tail(q))
\* update() is a homomorphism: merging the distributions of any split of the multiset gives the same state
MergeExact == out.kind = "none" =>
              \A k \in 0..Len(ms) :
                 DistDiff(UpdateOp(Fold(EmptyDist, SubSeq(ms, 1, k)), Fold(EmptyDist, SubSeq(ms, k + 1, Len(ms)))), d) = {}
CacheFresh == View = ExactFreqs(d)
\* Update(a, b); CountTree(a, ...): the summaries of b are those of b's own tree, as before
OperandIntact == opnd.it = <<>> \/
                 DistDiff(opnd.D, CountAbs(EmptyDist, AbsItem(opnd.it[1]), AllW[opnd.it[1].w], TRUE, FALSE)) = {}
ObservedOK ==
    LET F == ExactFreqs(d) IN
    CASE out.kind = "freq" -> out.f = F
      [] out.kind = "cons" ->
            \A ti \in 1..NT :
               LET g == out.g[ti]  thr == AllThr[ti] IN
               /\ WFClause(g) = "ok"
               /\ SpansClass(g, Taxa) = "ok"
               /\ g.rooted = rooted
               /\ IF AboveHalf(thr) THEN MajorityRuleClass(F, thr, Taxa, rooted, g) = "ok"
                  ELSE GreedyMaximalClass(F, thr, Taxa, rooted, g) = "ok"
      [] out.kind = "collapse" ->
            \A k \in 1..Len(ms), ti \in 1..NT :
               /\ WFClause(out.g1[k][ti]) = "ok"
               /\ CollapseClass(out.g0[k], out.g1[k][ti], F, AllThr[ti], rooted, TRUE) = "ok"
      [] out.kind = "cred" -> MaxCredOK(out.ranks, Tops, out.S)
      [] OTHER -> TRUE
SummariesSane ==
    out.kind = "none" =>
    \A s \in DOMAIN d.len :
       LET q == d.len[s] IN
       Numeric(q) =>
          /\ RLe(MinOf(q), MeanOf(q)) /\ RLe(MeanOf(q), MaxOf(q))
          /\ RLe(MinOf(q), MedianOf(q)) /\ RLe(MedianOf(q), MaxOf(q))
          /\ (Len(q) >= 2 => (VarOf(q)[1] >= 0 /\ (VarOf(q)[1] = 0 <=> MinOf(q) = MaxOf(q))))
          /\ Len(q) <= d.n
=============================================================================
