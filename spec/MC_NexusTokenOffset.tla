------------------------- MODULE MC_NexusTokenOffset -------------------------
(* C02 token layer: the input is a stream with explicit positions.  For every  *)
(* label over the delicate character classes (quotes that get doubled, comment *)
(* brackets, underscores, spaces, punctuation), every consistent option pair   *)
(* and every pad (whitespace, line breaks or a comment of every length 0..     *)
(* MaxPad in front of the statement) the tokens are those of the unpadded      *)
(* statement: token identity is independent of the offset at which a token     *)
(* starts.  Blk = 0 is the reference reader; Blk > 0 a block-buffered reader   *)
(* whose look-ahead stops at block ends (BlockLookahead_NexusToken.cfg: TLC    *)
(* must find the doubled quote that straddles a block boundary).               *)
EXTENDS NexusToken
CONSTANTS MaxLen, MaxPad, Blk
VARIABLES label, uu, ps, pu, kind, pad
vars == <<label, uu, ps, pu, kind, pad>>
Delicate == {"a", "sq", "us", "sp", "lb", "rb", "cm", "lp", "dq"}
Init == /\ label \in {l \in TkSeqsUpTo(Delicate, MaxLen) : TkSideOk(l)}
        /\ uu \in BOOLEAN /\ ps \in BOOLEAN /\ pu \in BOOLEAN
        /\ TkConsistent(uu, ps, pu)
        /\ kind \in {"ws", "nl", "com"}
        /\ pad \in 0..MaxPad
Next == UNCHANGED vars
Spec == Init /\ [][Next]_vars
OffsetIndependentTree == TkOffsetIndependent(label, uu, ps, pu, TkIntendedProtect, kind, pad, Blk)
OffsetIndependentTaxLabels == TkOffsetIndependent(label, uu, ps, pu, TkDefaultProtect, kind, pad, Blk)
=============================================================================
