SPECIFICATION Spec
CONSTANTS
  Sims = {"bd", "fast", "upb", "king", "cc"}
  MaxN = 3
  MaxDt = 2
  MaxDec = 9
  MaxG = 2
  MaxSp = 3
  RootDt = 1
  StopGT = FALSE
  AsShipped = FALSE
  HistMaxGenes = 4
  StaleArgs = FALSE
  Leak = FALSE
INVARIANT WellFormedFinal
INVARIANT ExactlyNExtantLeaves
INVARIANT DistinctTaxa
INVARIANT Bifurcating
INVARIANT ExtantTipsEquidistant
INVARIANT KingmanOk
INVARIANT CoalescenceRespectsDivergence
INVARIANT Determinism
INVARIANT NoGlobalRng
INVARIANT FoldAgrees
INVARIANT PrunedHasNoDead
CHECK_DEADLOCK FALSE
