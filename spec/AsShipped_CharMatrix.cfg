SPECIFICATION Spec
CONSTANTS
  LabelAlphabet = {"", "L", "l", "K", "L_002", "locus001"}
  MaxLists = 3
  MaxI = 6
  AsShipped = TRUE
INVARIANT CounterBelowCap
INVARIANT CollisionIffProbeLoops
PROPERTY Termination
