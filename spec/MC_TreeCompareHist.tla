------------------------- MODULE MC_TreeCompareHist -------------------------
(* C04, staleness part: two trees over one leaf set, their cached           *)
(* bipartition encodings, and every history of                               *)
(*   SwapTaxa(i, a, b), Regraft(i, x, y)  structural edits WITHOUT           *)
(*   Reroot(i, x)                          update_bipartitions               *)
(*   SetRooted(r)                         the rooting state of both trees    *)
(*   PruneTaxon(a)                        one leaf removed from both trees   *)
(*   Encode(i)                            tree.encode_bipartitions()         *)
(*   Dist(kind, flag)                     a distance call with               *)
(*                                         is_bipartitions_updated = flag    *)
(* up to MaxOps operations.  A distance is computed from the caches as they  *)
(* are after the call's own (conditional) re-encoding; DefaultFresh says     *)
(* that with default arguments this is the definition on the CURRENT         *)
(* structure.  ReencodeBoth = FALSE models the regression "only the first    *)
(* tree is re-encoded" (TLC must find DefaultFresh violated: non-vacuity).   *)
(* ns = "diff": the two trees are over different namespace objects; then     *)
(* every distance call is refused, whatever the flag and whatever is cached  *)
(* (NsCheckFirst = FALSE models "the check sits behind the fast path for     *)
(* is_bipartitions_updated=True with both encodings present").               *)
(*****************************************************************************)
EXTENDS TreeCompare
CONSTANTS MaxOps, ReencodeBoth, StartPairs, EditsUpTo, MaxEdits, DistKinds, NsCheckFirst
VARIABLES t1, t2, c1, c2, nops, nedits, ns
vars == <<t1, t2, c1, c2, nops, nedits, ns>>

\* start trees over 4 leaves, all lengths present (node index pattern), both rootings
P7a == <<0, 1, 2, 2, 1, 5, 5>>       \* ((1,2),(3,4))
P7b == <<0, 1, 2, 3, 3, 2, 1>>       \* (((1,2),3),4)
P6  == <<0, 1, 1, 1, 4, 4>>          \* (1,2,(3,4))
P5  == <<0, 1, 1, 1, 1>>             \* (1,2,3,4)
LensOf(p) == [x \in 1..Len(p) |-> IF x = 1 THEN -1 ELSE 4 * (1 + (x % 3))]
Mk(p, taxa, r) == MkTree(p, taxa, LensOf(p), r)
Starts == <<
    <<Mk(P7a, <<1, 2, 3, 4>>, 1), Mk(P7b, <<1, 3, 2, 4>>, 1)>>,
    <<Mk(P7a, <<1, 2, 3, 4>>, 0), Mk(P6, <<1, 3, 2, 4>>, 0)>>,
    <<Mk(P6, <<2, 3, 1, 4>>, 1), Mk(P5, <<1, 2, 3, 4>>, 1)>>,
    <<Mk(P7b, <<4, 3, 2, 1>>, 0), Mk(P7a, <<1, 4, 2, 3>>, 0)>> >>

Init == /\ \E k \in StartPairs : t1 = Starts[k][1] /\ t2 = Starts[k][2]
        /\ c1 = NoCache /\ c2 = NoCache /\ nops = 0 /\ nedits = 0 /\ ns \in {"same", "diff"}

T(i) == IF i = 1 THEN t1 ELSE t2
Step == nops < MaxOps /\ nops' = nops + 1 /\ UNCHANGED ns
EditOk == nops < EditsUpTo       \* the last operations of a history are distance calls
IsEdit == EditOk /\ ns = "same" /\ nedits < MaxEdits /\ nedits' = nedits + 1
NoEdit == UNCHANGED nedits
SetTree(i, g) == IF i = 1 THEN t1' = g /\ UNCHANGED t2 ELSE t2' = g /\ UNCHANGED t1

LeafOfTaxon(g, a) == CHOOSE x \in Leaves(g) : g.tx[x] = a
SwapTaxaOp(g, a, b) == LET x == LeafOfTaxon(g, a)  y == LeafOfTaxon(g, b)
                       IN [g EXCEPT !.tx[x] = b, !.tx[y] = a]
\* prune the subtree at x and attach it as the last child of y
RegraftOk(g, x, y) == /\ x \in Nodes(g) /\ y \in Nodes(g) /\ x # g.seed /\ ~IsLeaf(g, y)
                      /\ y \notin Desc(g, x) /\ y # g.par[x] /\ Len(g.kids[g.par[x]]) >= 2
RegraftOp(g, x, y) == LET p == g.par[x] IN
                      [g EXCEPT !.kids[p] = SelectSeq(@, LAMBDA z : z # x),
                                !.kids[y] = Append(@, x),
                                !.par[x] = y]

SwapTaxa(i, a, b) == Step /\ IsEdit /\ a < b /\ a \in TreeTx(T(i)) /\ b \in TreeTx(T(i))
                     /\ SetTree(i, SwapTaxaOp(T(i), a, b)) /\ UNCHANGED <<c1, c2>>
Regraft(i, x, y) == Step /\ IsEdit /\ RegraftOk(T(i), x, y)
                    /\ SetTree(i, RegraftOp(T(i), x, y)) /\ UNCHANGED <<c1, c2>>
\* the rooting state of both trees (is_rooted = ...)
SetRooted(r) == Step /\ IsEdit /\ t1.rooted # r /\ t1' = SetRootedOp(t1, r) /\ t2' = SetRootedOp(t2, r) /\ UNCHANGED <<c1, c2>>
\* reroot_at_node on a rooted tree: the seed moves to the internal node x
Reroot(i, x) == Step /\ IsEdit /\ t1.rooted = 1 /\ t2.rooted = 1 /\ x \in Internals(T(i)) \ {T(i).seed}
                /\ SetTree(i, Reseed(T(i), x)) /\ UNCHANGED <<c1, c2>>
\* the leaf carrying taxon a is pruned from both trees (they keep one leaf set)
PruneOk(g, a) == a \in TreeTx(g) /\ Cardinality(TreeTx(g)) >= 4 /\ Len(g.kids[g.par[LeafOfTaxon(g, a)]]) >= 2
PruneTaxon(a) == Step /\ IsEdit /\ PruneOk(t1, a) /\ PruneOk(t2, a)
                 /\ t1' = RemoveLeaf(t1, LeafOfTaxon(t1, a)) /\ t2' = RemoveLeaf(t2, LeafOfTaxon(t2, a)) /\ UNCHANGED <<c1, c2>>
Encode(i) == Step /\ EditOk /\ NoEdit /\ UNCHANGED <<t1, t2>>
             /\ IF i = 1 THEN c1' = CacheOf(t1) /\ UNCHANGED c2 ELSE c2' = CacheOf(t2) /\ UNCHANGED c1
\* trees over different namespace objects are refused before anything else happens
Refused(flag) == ns = "diff" /\ (NsCheckFirst \/ ~(flag /\ c1.has /\ c2.has))
\* the call (conditionally) re-encodes, then computes from the caches
DistEffect(flag) == IF Refused(flag) THEN UNCHANGED <<c1, c2>>
                    ELSE /\ c1' = AfterCall(t1, c1, flag, TRUE)
                         /\ c2' = AfterCall(t2, c2, flag, ReencodeBoth)
Dist(kind, flag) == Step /\ NoEdit /\ kind \in DistKinds /\ UNCHANGED <<t1, t2>> /\ DistEffect(flag)
Result(kind) == FromCaches(kind, t1, c1', t2, c2')      \* meaningful in a Dist step that is not refused

Next == \/ \E i \in {1, 2}, a \in 1..4, b \in 1..4 : SwapTaxa(i, a, b)
        \/ \E i \in {1, 2}, x \in 1..7, y \in 1..7 : Regraft(i, x, y)
        \/ \E i \in {1, 2}, x \in 1..7 : Reroot(i, x)
        \/ \E r \in {0, 1} : SetRooted(r)
        \/ \E a \in 1..4 : PruneTaxon(a)
        \/ \E i \in {1, 2} : Encode(i)
        \/ \E kind \in Kinds, flag \in BOOLEAN : Dist(kind, flag)
Spec == Init /\ [][Next]_vars

WF == WellFormed(t1) /\ WellFormed(t2) /\ TreeTx(t1) = TreeTx(t2) /\ HasAllLengths(t1) /\ HasAllLengths(t2)
Fresh(g, c) == c.has /\ c.s = S(g)
\* (s, s') is a distance call with the given flag; the state change does not depend on the kind
IsDist(flag) == /\ nops' = nops + 1 /\ t1' = t1 /\ t2' = t2 /\ DistEffect(flag)
SameNs(flag) == ns = "same" /\ IsDist(flag)
\* default arguments: the value is the definition on the current structure, whatever was cached before
DefaultFresh == [][SameNs(FALSE) => \A kind \in Kinds : Result(kind) = OnCurrent(kind, t1, t2)]_vars
\* after a default call both caches are current
DefaultRefreshes == [][SameNs(FALSE) => Fresh(t1, c1') /\ Fresh(t2, c2')]_vars
\* is_bipartitions_updated=True: the definition on the cached encodings (computed on demand if there is none)
FlagUsesCaches == [][SameNs(TRUE) => \A kind \in SetKinds :
                        Result(kind) = FromCaches(kind, t1, IF c1.has THEN c1 ELSE CacheOf(t1),
                                                        t2, IF c2.has THEN c2 ELSE CacheOf(t2))]_vars
\* ... which is the current structure whenever the cached split sets are current (for the weighted kinds the
\* model reads the lengths through the splits, an idealisation: on real traces they are judged only when no
\* edit came after the last encoding)
FlagOnFreshIsCurrent == [][(SameNs(TRUE) /\ (~c1.has \/ Fresh(t1, c1)) /\ (~c2.has \/ Fresh(t2, c2)))
                              => \A kind \in Kinds : Result(kind) = OnCurrent(kind, t1, t2)]_vars
\* edits never touch a cache
EditsKeepCaches == [][(t1' # t1 \/ t2' # t2) => (c1' = c1 /\ c2' = c2)]_vars
\* different namespace objects: refused for every kind, both flag values, whatever is encoded
DiffNsRefused == [][\A flag \in BOOLEAN : (ns = "diff" /\ IsDist(flag)) => Refused(flag)]_vars
=============================================================================
