SPECIFICATION Spec
CONSTANT NormOnBit0 = FALSE
CONSTANT MaxN = 9
CONSTANT MaxL = 5
CONSTANT LeafSets = {{2,3,4,5,6}}
CONSTANT Extras = {}
CONSTANT ExtraMaxL = 0
INVARIANT InputsOk
INVARIANT IffAsFunctions
INVARIANT Restriction
INVARIANT Reconstruction
INVARIANT Predicates
CHECK_DEADLOCK FALSE
