------------------------- MODULE MC_NewickRoundTrip -------------------------
(* C02 tree layer, bounded model.  One state = one instance (schema, namespace, *)
(* tree list, option pair); the instances range over four sub-domains:          *)
(*   structure  every ordered tree shape up to MaxNodes nodes / MaxLeaves leaves*)
(*              x internal-label pattern x edge-length pattern x rooting state  *)
(*   symbols    taxon labels that look like taxon numbers / TRANSLATE tokens or *)
(*              differ by case from nothing, in every namespace order and leaf  *)
(*              order, with and without TRANSLATE, internal taxa                *)
(*   labels     every label up to 2 characters over a punctuation alphabet as   *)
(*              taxon label, internal label or root label x every consistent    *)
(*              option pair x schema                                            *)
(*   keywords   labels that are whole NEXUS keywords (END, end, ENDBLOCK, TREE, ..)*)
(*   history    namespaces with a history: accession numbers with holes / reversed*)
(*   singles    single-node trees whose only label is one punctuation character,*)
(*              lists of 1..MaxSingles, every rooting state, with/without weights*)
(*   lists      tree lists of length 0..MaxList x rooting states x tree weights *)
(*              x suppress_rooting with the matching reader rooting             *)
(* Design selects the reference design or one as-shipped rule (AsShipped cfgs).  *)
EXTENDS NewickRoundTrip
CONSTANTS MaxNodes, MaxLeaves, MaxList, SymLeaves, MaxSingles, Design, Domains, AccReuse
VARIABLE inst

D == CASE Design = "reference" -> NwReference
       [] Design = "protect" -> [NwReference EXCEPT !.protect = "shipped"]
       [] Design = "quoted" -> [NwReference EXCEPT !.quoteAware = FALSE, !.leadAware = FALSE]
       [] Design = "leadsemi" -> [NwReference EXCEPT !.leadAware = FALSE]
       [] Design = "attr" -> [NwReference EXCEPT !.attr = "json"]
       [] Design = "len" -> [NwReference EXCEPT !.missingLen = "all"]
       [] Design = "empty" -> [NwReference EXCEPT !.emptyOk = FALSE]
       [] Design = "nodouble" -> [NwReference EXCEPT !.dbl = FALSE]
       [] Design = "kwstop" -> [NwReference EXCEPT !.kwStop = TRUE]

O0 == [uu |-> FALSE, ps |-> FALSE, pu |-> FALSE, translate |-> FALSE, suprooting |-> FALSE, rrooting |-> "",
       weights |-> FALSE, inttaxa |-> FALSE, acc |-> <<1, 2, 3, 4, 5, 6, 7, 8, 9>>]
Schemas == {"newick", "nexus", "nexml"}
Plain(i) == <<"a", NwDigits[i]>>
IsInt(p, x) == \E i \in 1..Len(p) : p[i] = x
MkG(p, leafTx, labs, lens, r) == [MkTree(p, leafTx, lens, r) EXCEPT !.lab = labs]
IntLabs(p, pat) == [x \in 1..Len(p) |-> IF IsInt(p, x) /\ (pat = "all" \/ (pat = "root" /\ x = 1)) THEN <<"a", "a", NwDigits[x]>> ELSE <<>>]
LenPat(p, pat) == [x \in 1..Len(p) |->
                     CASE pat = "none" -> ""
                       [] pat = "all" -> <<"n0", "n1", "n2">>[(x % 3) + 1]
                       [] pat = "leaves" -> IF IsInt(p, x) THEN "" ELSE "n1"
                       [] pat = "mixed" -> IF x % 2 = 1 THEN "n2" ELSE ""]
Shapes == UNION {{p \in ParentArrays(n) : NumLeavesOfParents(p) <= MaxLeaves} : n \in 1..MaxNodes}

InitStructure ==
    \E s \in Schemas, p \in Shapes, lp \in {"none", "all", "root"}, ln \in {"none", "all", "leaves", "mixed"}, r \in {-1, 0, 1} :
       LET k == NumLeavesOfParents(p) IN
       inst = [dom |-> "structure", schema |-> s, ns |-> [i \in 1..k |-> Plain(i)],
               trees |-> <<[g |-> MkG(p, [i \in 1..k |-> i], IntLabs(p, lp), LenPat(p, ln), r), w |-> ""]>>, o |-> O0]

SymPool == {<<"1">>, <<"2">>, <<"3">>, <<"a">>, <<"A", "1">>, <<"a", "2">>}
InjSeqs(S, k) == {q \in [1..k -> S] : \A i, j \in 1..k : i # j => q[i] # q[j]}
Star(k) == [i \in 1..(k + 1) |-> IF i = 1 THEN 0 ELSE 1]
InitSymbols ==
    \E k \in 2..SymLeaves, it \in BOOLEAN, s \in {"newick", "nexus"}, tr \in BOOLEAN :
      \E ns \in InjSeqs(SymPool, IF it THEN k + 1 ELSE k), pi \in InjSeqs(1..k, k) :
       /\ (tr => s = "nexus")
       /\ (it => k = 2)
       /\ inst = [dom |-> "symbols", schema |-> s, ns |-> ns,
                  trees |-> <<[g |-> [MkG(Star(k), pi, [x \in 1..(k + 1) |-> <<>>], [x \in 1..(k + 1) |-> ""], 0)
                                        EXCEPT !.tx[1] = IF it THEN k + 1 ELSE 0], w |-> ""]>>,
                  o |-> [O0 EXCEPT !.translate = tr, !.inttaxa = it]]

LabAlpha == {"a", "sp", "us", "sq", "lp", "cm", "sc", "eq", "lb", "na", "lt"}
LabShape == <<0, 1, 2, 2, 1>>
InitLabels ==
    \E t \in {l \in TkSeqsUpTo(LabAlpha, 2) : TkSideOk(l)}, pos \in {"leaf", "inner", "root"},
       c \in {"newick", "nexus", "nexus+t", "nexml"}, uu \in BOOLEAN, ps \in BOOLEAN, pu \in BOOLEAN :
       /\ TkConsistent(uu, ps, pu)
       /\ (c = "nexml" => ~uu /\ ~ps /\ ~pu)
       /\ inst = [dom |-> "labels", schema |-> IF c = "nexus+t" THEN "nexus" ELSE c,
                  ns |-> IF pos = "leaf" THEN <<t, Plain(1), Plain(2)>> ELSE <<Plain(1), Plain(2), Plain(3)>>,
                  trees |-> <<[g |-> MkG(LabShape, <<1, 2, 3>>,
                                         [x \in 1..5 |-> IF (pos = "inner" /\ x = 2) \/ (pos = "root" /\ x = 1) THEN t ELSE <<>>],
                                         [x \in 1..5 |-> IF x = 3 THEN "n1" ELSE ""], 1), w |-> ""]>>,
                  o |-> [O0 EXCEPT !.uu = uu, !.ps = ps, !.pu = pu, !.translate = (c = "nexus+t")]]

Cherry(r, w) == [g |-> MkG(<<0, 1, 1>>, <<1, 2>>, <<<<"a", "a">>, <<>>, <<>>>>, <<"", "n1", "">>, r), w |-> w]
TreeKinds == {-1, 0, 1} \X {"", "w2"}
InitLists ==
    \E m \in 0..MaxList, s \in Schemas, sr \in BOOLEAN, wt \in BOOLEAN :
      \E ks \in [1..m -> TreeKinds] :
       LET rs == {ks[i][1] : i \in 1..m} IN
       /\ (s = "nexml" => ~sr /\ ~wt)
       /\ (sr => Cardinality(rs) <= 1)
       /\ inst = [dom |-> "lists", schema |-> s, ns |-> <<Plain(1), Plain(2)>>,
                  trees |-> [i \in 1..m |-> Cherry(ks[i][1], ks[i][2])],
                  o |-> [O0 EXCEPT !.suprooting = sr, !.weights = wt,
                                   !.rrooting = IF ~sr THEN "" ELSE IF rs = {1} THEN "force-rooted" ELSE IF rs = {0} THEN "force-unrooted" ELSE ""]]

\* single-node trees whose only label is one punctuation character, in lists of 1..MaxSingles trees, every
\* rooting state per tree, with and without the weight token (rooting / weight comments precede the label)
SinglePunct == {"lp", "rp", "cm", "sc", "co", "eq", "bs", "dq", "lc", "rc", "lb", "rb", "sq", "a"}
Single(t, r, w) == [g |-> MkG(<<0>>, <<1>>, <<<<>>>>, <<"">>, r), w |-> w]
InitSingles ==
    \E c \in SinglePunct, m \in 1..MaxSingles, cfg \in {"newick", "nexus", "nexus+t", "nexml"}, wt \in BOOLEAN :
      \E rs \in [1..m -> {-1, 0, 1}] :
       /\ (wt => cfg # "nexml" /\ m <= 2)
       /\ inst = [dom |-> "singles", schema |-> IF cfg = "nexus+t" THEN "nexus" ELSE cfg, ns |-> <<<<c>>>>,
                  trees |-> [i \in 1..m |-> Single(<<c>>, rs[i], IF wt THEN "w2" ELSE "")],
                  o |-> [O0 EXCEPT !.weights = wt, !.translate = (cfg = "nexus+t")]]

\* keyword-like labels: the label is a whole NEXUS keyword, as taxon label at the first / middle / last position of
\* the namespace or as the root label; a later taxon is unused; the tree lists its leaves against the namespace order
Keywords == {<<"K_END">>, <<"K_end">>, <<"K_ENDBLOCK">>, <<"K_BEGIN">>, <<"K_TREE">>, <<"K_TREES">>, <<"K_TAXLABELS">>, <<"K_TRANSLATE">>}
InitKeywords ==
    \E kw \in Keywords, pos \in 0..3, cfg \in {"newick", "nexus", "nexus+t", "nexml"} :
       inst = [dom |-> "keywords", schema |-> IF cfg = "nexus+t" THEN "nexus" ELSE cfg,
               ns |-> [i \in 1..4 |-> IF i = pos THEN kw ELSE Plain(i)],
               trees |-> <<[g |-> MkG(Star(3), <<3, 2, 1>>, [x \in 1..4 |-> IF x = 1 /\ pos = 0 THEN kw ELSE <<>>],
                                      [x \in 1..4 |-> IF x = 2 THEN "n1" ELSE ""], 1), w |-> ""]>>,
               o |-> [O0 EXCEPT !.translate = (cfg = "nexus+t")]]
\* namespace histories: accession numbers with holes (taxa removed, others added later), descending (namespace
\* reversed), an unused taxon; every leaf order.  AccReuse = TRUE admits a namespace that hands an accession number
\* out twice (must break the TRANSLATE round trip: ReusedAccession cfg)
AccSeqs == IF AccReuse THEN [1..3 -> 1..3]
           ELSE {q \in [1..3 -> 1..5] : (\A i \in 1..2 : q[i] < q[i + 1]) \/ (\A i \in 1..2 : q[i] > q[i + 1])}
InitHistory ==
    \E acc \in AccSeqs, k \in 2..3, cfg \in {"newick", "nexus", "nexus+t", "nexml"} :
      \E pi \in InjSeqs(1..3, k) :
       inst = [dom |-> "history", schema |-> IF cfg = "nexus+t" THEN "nexus" ELSE cfg,
               ns |-> <<Plain(1), Plain(2), Plain(3)>>,
               trees |-> <<[g |-> MkG(Star(k), pi, [x \in 1..(k + 1) |-> <<>>], [x \in 1..(k + 1) |-> ""], 0), w |-> ""]>>,
               o |-> [O0 EXCEPT !.translate = (cfg = "nexus+t"), !.acc = acc]]

Init == \/ "keywords" \in Domains /\ InitKeywords
        \/ "history" \in Domains /\ InitHistory
        \/ "singles" \in Domains /\ InitSingles
        \/ "lists" \in Domains /\ InitLists
        \/ "labels" \in Domains /\ InitLabels
        \/ "symbols" \in Domains /\ InitSymbols
        \/ "structure" \in Domains /\ InitStructure
Next == UNCHANGED inst
Spec == Init /\ [][Next]_inst

AllLabels == SeqToSet(inst.ns) \cup UNION {{t.g.lab[x] : x \in {y \in 1..t.g.n : t.g.lab[y] # <<>>}} : t \in SeqToSet(inst.trees)}
\* the instances stay inside the property's side conditions and use consistent option pairs
DomainWithinProperty == /\ NwLabelsOk(SeqToSet(inst.ns)) /\ (\A l \in AllLabels : TkSideOk(l))
                        /\ NwOptsOk(inst)
                        /\ \A i, j \in 1..Len(inst.ns) : i # j => inst.o.acc[i] # inst.o.acc[j]      \* accession numbers are unique
                        /\ \A t \in SeqToSet(inst.trees) : NwTreeOk(t, inst.o, inst.schema)
\* C02 on the model: read(write(x)) = x
RoundTripHolds == NwRoundTripOK(inst, D)
=============================================================================
