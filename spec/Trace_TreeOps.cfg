SPECIFICATION Spec
CONSTANT AsShipped = {}
INVARIANT Done
POSTCONDITION Accepted
CHECK_DEADLOCK FALSE
