SPECIFICATION Spec
CONSTANT MaxNodes = 5
CONSTANT MaxLeaves = 3
CONSTANT MaxList = 2
CONSTANT MaxSingles = 3
CONSTANT AccReuse = FALSE
CONSTANT SymLeaves = 2
CONSTANT Design = "protect"
CONSTANT Domains = {"labels"}
INVARIANT RoundTripHolds
CHECK_DEADLOCK FALSE
