------------------------------ MODULE CopySem ------------------------------
(***************************************************************************)
(* C12 - copies are equal to their source and independent of it at the     *)
(* documented depth.                                                       *)
(*                                                                         *)
(* STATE.  An object graph ("heap"), dense by object id 1..N:              *)
(*   g.kind[i]  kind of heap object i: "Tree" "Node" "Edge" "Bipartition"  *)
(*              "Taxon" "Namespace" "AnnotationSet" "Annotation" (bound    *)
(*              or plain) "Sequence" "Matrix" "TreeList" "list" "dict"     *)
(*              "set" "tuple" "Other";  "" = not (or no longer) reachable  *)
(*   g.succ[i]  the heap objects i refers to (fields, items, keys)         *)
(*   g.dig[i]   digest of i's own direct state: its atom-valued fields by  *)
(*              value and its references by id                             *)
(*   g.lsucc    references through specially named attributes, logged with *)
(*              their label: [f |-> from, l |-> label, t |-> to]           *)
(* Immutable atoms (None, bool, numbers, strings, tuples of atoms, classes,*)
(* functions, the state-alphabet singletons whose __deepcopy__ returns     *)
(* self) are values inside dig, never heap objects.  Class-level and       *)
(* module-level objects are not part of an instance and are never walked.  *)
(* The same representation is used by the bounded model (MC_CopySem, where *)
(* succ is ordered and dig is the abstract value of the object) and by the *)
(* projection of real dendropy objects (harness/vlib/x_c12.py, judged by   *)
(* Trace_CopySem).                                                         *)
(*                                                                         *)
(* THE DOCUMENTED DEPTH TABLE (DocumentedDepthTable below; the constant    *)
(* DepthTable is bound to it in every cfg).  Sources:                      *)
(*  - DataObject.clone(depth): "0: shallow-copy: All member objects are    *)
(*    references, except for annotation_set of top-level object and member *)
(*    Annotation objects: these are full, independent instances";          *)
(*    "1: taxon-namespace-scoped copy: All member objects are full         *)
(*    independent instances, *except* for TaxonNamespace and Taxon         *)
(*    instances: these are references"; "2: Exhaustive deep-copy: all      *)
(*    objects are cloned".  clone(0) = copy.copy(self), clone(1) =         *)
(*    self.taxon_namespace_scoped_copy(), clone(2) = copy.deepcopy(self).  *)
(*  - DataObject.taxon_namespace_scoped_copy: "Cloning level: 1. ... All   *)
(*    member objects are full independent instances, except for            *)
(*    TaxonNamespace and Taxon objects: these are preserved as references".*)
(*  - Tree.__init__: "tree structure deep-copied from another tree ...     *)
(*    t8.taxon_namespace is t7.taxon_namespace # BUT taxa are not cloned   *)
(*    ... Nodes in the two trees are distinct objects ... Edges ... also   *)
(*    distinct"; "explicitly pass in a new TaxonNamespace instance ... the *)
(*    taxa *are* different ... the given TaxonNamespace is used instead    *)
(*    ... taxon labels are the same" (route ctor_newns, depth NewNS).      *)
(*  - Tree.__copy__ returns taxon_namespace_scoped_copy() and the property *)
(*    statement lists copy.copy among the namespace-scoped routes of a     *)
(*    tree; Tree.clone(0) is copy.copy(tree), hence also TNS.              *)
(*  - TreeList.__init__: "the trees in the container passed as an          *)
(*    initialization argument will be **deep**-copied (except for          *)
(*    associated TaxonNamespace and Taxon objects, which will be           *)
(*    shallow-copied)"; "Slices give shallow-copy: trees are references";  *)
(*    copy.copy(TreeList) / copy.copy(CharacterMatrix) are the clone(0)    *)
(*    shallow copies: a new container whose members (trees, sequences,     *)
(*    namespace) are the source's objects, with its own annotation set.    *)
(*  - TaxonNamespace.__init__: "If a TaxonNamespace object is passed as    *)
(*    the initializer argument, a *shallow* copy of the object is          *)
(*    constructed ... tns1 and tns2 are independent collections, and       *)
(*    addition/deletion of Taxon instances to one will not effect the      *)
(*    other, the label of a Taxon instance that is an element in one will  *)
(*    of course effect the same instance if it is in the other ... all     *)
(*    metadata associated with tns2 (i.e., the AnnotationSet ...) will be  *)
(*    a full, independent deep-copy ... a true deep-copy ... can be        *)
(*    achieved using copy.deepcopy()" (depth NsShallow; copy.copy(ns) is   *)
(*    TaxonNamespace(ns)).  TaxonNamespace.taxon_namespace_scoped_copy     *)
(*    preserves the namespace as a reference, i.e. returns it (Alias).     *)
(*  - Tree.extract_tree: "Returns a copy of this tree that only includes   *)
(*    the basic structure (nodes, edges), and minimal attributes (edge     *)
(*    lengths, node labels, and taxon associations). Annotations, comments,*)
(*    and other attributes are not copied"; the attribute named by         *)
(*    extraction_source_reference_attr_name "references [the]              *)
(*    corresponding original node" (a documented back reference: see       *)
(*    DocumentedBackRefs) (depth Thin).                                    *)
(*  - DataSet: documented as not copyable - excluded.                      *)
(***************************************************************************)
EXTENDS Naturals, Integers, Sequences, FiniteSets, TLC

CONSTANT DepthTable        \* [class -> [route -> depth]]; bound to DocumentedDepthTable in the cfgs

CSeqToSet(q) == {q[i] : i \in 1..Len(q)}
CMin(S) == CHOOSE k \in S : \A j \in S : k <= j

Classes == {"Tree", "TreeList", "Matrix", "Namespace"}
Routes == {"deepcopy", "clone2", "clone1", "tns_copy", "ctor", "copy", "clone0", "ctor_newns", "extract", "extract_ref"}
Depths == {"Deep", "TNS", "Shallow", "NsShallow", "NewNS", "Thin", "Alias", "Undefined"}

DocumentedDepthTable ==
    [c \in Classes |-> [r \in Routes |->
        CASE r \in {"deepcopy", "clone2"} -> "Deep"
          [] c = "Namespace" /\ r \in {"ctor", "copy", "clone0"} -> "NsShallow"
          [] c = "Namespace" /\ r \in {"clone1", "tns_copy"} -> "Alias"
          [] c # "Namespace" /\ r \in {"clone1", "tns_copy", "ctor"} -> "TNS"
          [] c = "Tree" /\ r \in {"copy", "clone0"} -> "TNS"
          [] c \in {"TreeList", "Matrix"} /\ r \in {"copy", "clone0"} -> "Shallow"
          [] c # "Namespace" /\ r = "ctor_newns" -> "NewNS"
          [] c = "Tree" /\ r \in {"extract", "extract_ref"} -> "Thin"
          [] OTHER -> "Undefined"]]

DepthOf(cls, route) == IF cls \in Classes /\ route \in Routes THEN DepthTable[cls][route] ELSE "Undefined"

\* attributes documented as references back to the source (not part of the copy's own state)
DocumentedBackRefs == {"extraction_source"}
\* what a shallow container copy shares with its source: its members
MemberKinds == {"Tree", "Sequence", "Namespace"}

\* ------------------------------------------------------------------ the heap
N(g) == Len(g.kind)
Alive(g) == {i \in 1..N(g) : g.kind[i] # ""}
Succ(g, x) == (CSeqToSet(g.succ[x]) \cup {e.t : e \in {f \in CSeqToSet(g.lsucc) : f.f = x /\ f.l \notin DocumentedBackRefs}})
              \cap 1..N(g)
RECURSIVE ReachFrom(_, _, _)
ReachFrom(g, frontier, seen) ==
    IF frontier = {} THEN seen
    ELSE LET nxt == (UNION {Succ(g, x) : x \in frontier}) \ seen
         IN ReachFrom(g, nxt, seen \cup nxt)
Reach(g, R) == LET R0 == R \cap 1..N(g) IN ReachFrom(g, R0, R0)
OfKind(g, S, K) == {x \in S : g.kind[x] \in K}
KindOf(g, x) == IF x \in 1..N(g) THEN g.kind[x] ELSE "?"

\* The documented back references are only "not part of the copy" for the route that documents them (Thin:
\* extract_tree).  For every other depth an attribute holding such a reference is ordinary instance state.
AsJudged(g, d) ==
    IF d = "Thin" THEN g
    ELSE [g EXCEPT !.succ = [i \in 1..Len(g.succ) |-> g.succ[i] \o
                               LET q == SelectSeq(g.lsucc, LAMBDA f : f.f = i) IN [k \in 1..Len(q) |-> q[k].t]],
                   !.lsucc = <<>>]

\* the namespace object(s) of a root: the root itself or its direct successor(s) of kind Namespace
NsSet(g, r) == IF KindOf(g, r) = "Namespace" THEN {r} ELSE OfKind(g, Succ(g, r), {"Namespace"})

\* what a copy of `src` made at depth d may - and must - share with it
AllowedShared(g, d, src) ==
    CASE d \in {"Deep", "NewNS"} -> {}
      [] d \in {"TNS", "Thin"} -> Reach(g, NsSet(g, src))
      [] d = "NsShallow" -> Reach(g, OfKind(g, Reach(g, {src}), {"Taxon"}))
      [] d = "Shallow" -> Reach(g, OfKind(g, Reach(g, {src}) \ {src}, MemberKinds))
      [] d = "Alias" -> Reach(g, {src})
      [] OTHER -> {}

Shared(g, src, cpy) == Reach(g, {src}) \cap Reach(g, {cpy})

\* SharingExactlyAsDocumented, both inclusions (at the moment of the copy)
SharingExactClause(g, d, src, cpy) ==
    LET sh == Shared(g, src, cpy)  al == AllowedShared(g, d, src) IN
    IF sh = al THEN "ok"
    ELSE IF sh \ al # {} THEN "shares:" \o KindOf(g, CMin(sh \ al))
    ELSE "does-not-share:" \o KindOf(g, CMin(al \ sh))

\* after later mutations of either side: nothing outside what either side is allowed to share
SharingUpperClause(g, d, src, cpy) ==
    LET sh == Shared(g, src, cpy)  al == AllowedShared(g, d, src) \cup AllowedShared(g, d, cpy) IN
    IF sh \subseteq al THEN (IF d \in {"TNS", "Thin"} /\ NsSet(g, src) # NsSet(g, cpy) THEN "does-not-share:Namespace" ELSE "ok")
    ELSE "shares:" \o KindOf(g, CMin(sh \ al))

\* objects whose own state differs between two heaps
Changed(pre, post) == {i \in Alive(pre) \cap Alive(post) : pre.dig[i] # post.dig[i]}
AllowedEither(pre, post, d, src, cpy) ==
    AllowedShared(pre, d, src) \cup AllowedShared(post, d, src) \cup AllowedShared(pre, d, cpy) \cup AllowedShared(post, d, cpy)
\* a mutation applied through one root changes no object reachable from the other root, except allowed-shared ones
VisibleClause(pre, post, d, src, cpy, side) ==
    LET other == IF side = "src" THEN cpy ELSE src
        bad == (Changed(pre, post) \cap (Reach(pre, {other}) \cup Reach(post, {other}))) \ AllowedEither(pre, post, d, src, cpy)
    IN IF bad = {} THEN "ok" ELSE "changed:" \o KindOf(post, CMin(bad))
TouchesShared(pre, post, d, src, cpy) == Changed(pre, post) \cap AllowedEither(pre, post, d, src, cpy) # {}

\* ------------------------------------------------------------------ value views
(* A view is a record                                                      *)
(*   core  structure, labels, lengths, rooting / sequences / member list   *)
(*   tx    taxon codes (accession index in the object's own namespace)     *)
(*   txl   taxon labels                                                    *)
(*   enc   [n, b]: derived / auxiliary structures - the encoded            *)
(*         bipartitions of trees, the character subsets of matrices        *)
(*   ann   per annotable in structural order [c |-> comments, a |->        *)
(*         annotations by value]                                           *)
(*   bnd   per annotable: t - is the annotation set's target its owner;    *)
(*         per bound annotation: b - is it bound to the owner (1) or to    *)
(*         another object (2), v - its value read through the annotation,  *)
(*         o - the attribute read from the owner itself                    *)
(*   full  [k, c]: canonical identity-free serialisation of everything     *)
(*         else reachable (extra attributes, containers, caches)           *)
(*   ns    the namespace by value (labels in order, codes, annotations,    *)
(*         canonical serialisation ns.full)                                *)
(* Under NewNS (copy into another namespace) taxa correspond by label: tx  *)
(* and ns are not compared.  Under Thin only core / tx / txl are copied    *)
(* and the copy must carry no comments or annotations.  Under Shallow the  *)
(* documentation promises the members (by reference), the label and an     *)
(* independent annotation set; comments and auxiliary structures of the    *)
(* container are left open (counted as drift by the trace spec).           *)
FirstDiff(a, b) ==
    IF a.c = b.c THEN ""
    ELSE IF Len(a.c) # Len(b.c) THEN "size"
    ELSE LET i == CMin({j \in 1..Len(a.c) : a.c[j] # b.c[j]}) IN a.k[i]

AnnEmpty(ann) == \A i \in 1..Len(ann) : ann[i].c = <<>> /\ ann[i].a = <<>>

\* EqualAfterCopy: "ok" or the first aspect in which the copy differs from its source
ViewEqClause(d, vs, vc) ==
    CASE d \in {"Deep", "TNS", "NsShallow", "Alias"} ->
            IF vs.core # vc.core THEN "core"
            ELSE IF vs.tx # vc.tx THEN "taxa"
            ELSE IF vs.txl # vc.txl THEN "taxon-labels"
            ELSE IF vs.enc # vc.enc THEN "bipartitions"
            ELSE IF vs.ann # vc.ann THEN "annotations"
            ELSE IF vs.ns # vc.ns THEN "namespace"
            ELSE IF FirstDiff(vs.full, vc.full) # "" THEN "full:" \o FirstDiff(vs.full, vc.full)
            ELSE "ok"
      [] d = "NewNS" ->
            IF vs.core # vc.core THEN "core"
            ELSE IF vs.txl # vc.txl THEN "taxon-labels"
            ELSE IF vs.enc.n # vc.enc.n THEN "bipartitions"
            ELSE IF vs.ann # vc.ann THEN "annotations"
            ELSE IF FirstDiff(vs.full, vc.full) # "" THEN "full:" \o FirstDiff(vs.full, vc.full)
            ELSE "ok"
      [] d = "Thin" ->
            IF vs.core # vc.core THEN "core"
            ELSE IF vs.tx # vc.tx THEN "taxa"
            ELSE IF vs.txl # vc.txl THEN "taxon-labels"
            ELSE IF ~AnnEmpty(vc.ann) THEN "thin-copy-has-annotations"
            ELSE "ok"
      [] d = "Shallow" ->
            IF vs.core # vc.core THEN "core"
            ELSE IF vs.tx # vc.tx THEN "taxa"
            ELSE IF vs.ann[1].a # vc.ann[1].a THEN "annotations"
            ELSE "ok"
      [] OTHER -> "undefined-depth"

\* BoundAnnotationsFollowCopy: bindings of the copy mirror the source's, and every bound annotation reads its owner's attribute
BoundReadsOwner(v) == \A i \in 1..Len(v.bnd) : \A k \in 1..Len(v.bnd[i].b) :
                          v.bnd[i].b[k] = 1 => v.bnd[i].v[k] = v.bnd[i].o[k]
BndShape(v) == [i \in 1..Len(v.bnd) |-> <<v.bnd[i].t, v.bnd[i].b>>]
BoundClause(d, vs, vc) ==
    IF d = "Thin" THEN "ok"
    ELSE IF d = "Shallow" /\ BndShape(vs)[1] # BndShape(vc)[1] THEN "binding"
    ELSE IF d # "Shallow" /\ BndShape(vs) # BndShape(vc) THEN "binding"
    ELSE IF ~BoundReadsOwner(vc) THEN "value"
    ELSE "ok"

\* graph-level form used by the bounded model in every state: a bound annotation in an annotation set owned by x
\* is bound to x itself, or at least reads the same value
BoundOkGraph(g, root) ==
    \A x \in Reach(g, {root}) : \A S \in OfKind(g, CSeqToSet(g.succ[x]), {"AnnotationSet"}) :
        \A a \in OfKind(g, CSeqToSet(g.succ[S]), {"Annotation"}) :
            g.succ[a] # <<>> => (g.succ[a][1] = x \/ g.dig[g.succ[a][1]] = g.dig[x])

\* the parts of the other side's view that no mutation of this side may change (unless the members are shared)
OwnPart(v) == [core |-> v.core, tx |-> v.tx, enc |-> v.enc, ann |-> v.ann, bnd |-> v.bnd, full |-> v.full.c]
SharedPart(v) == [txl |-> v.txl, ns |-> [v.ns EXCEPT !.full = v.ns.full.c]]
ViewIndepClause(d, touches, vpre, vpost) ==
    IF d \notin {"Shallow", "Alias"} /\ OwnPart(vpre) # OwnPart(vpost) THEN
         (IF vpre.core # vpost.core THEN "view:core" ELSE IF vpre.tx # vpost.tx THEN "view:taxa"
          ELSE IF vpre.enc # vpost.enc THEN "view:bipartitions" ELSE IF vpre.ann # vpost.ann THEN "view:annotations"
          ELSE IF vpre.bnd # vpost.bnd THEN "view:binding" ELSE "view:full")
    ELSE IF ~touches /\ (OwnPart(vpre) # OwnPart(vpost) \/ SharedPart(vpre) # SharedPart(vpost)) THEN "view:unshared"
    ELSE "ok"

\* ------------------------------------------------------------------ reference copy rule (bounded model)
(* In the model succ[i] is an *ordered* sequence, dig[i] the abstract value  *)
(* of object i, an Annotation is bound iff it has a successor (its owner),   *)
(* and an AnnotationSet's first successor is its target.                     *)
StructKindsThin == {"Tree", "Node", "Edge"}
KeepSet(g, d, src, route, bug) ==
    LET base == AllowedShared(g, d, src) IN
    CASE bug = "no_preseed_taxa" /\ d = "TNS" /\ route = "ctor" -> NsSet(g, src)
      [] bug = "share_comments" -> base \cup OfKind(g, Reach(g, {src}), {"list"})
      \* a namespace configured as immutable (is_mutable = False) is treated as a value and shared by deep copies
      [] bug = "locked_ns_shared" /\ d = "Deep" -> Reach(g, NsSet(g, src))
      \* an object of one member that is referenced from another member (a cross-reference inside the copied
      \* container, e.g. the node an extracted tree's node was extracted from) is kept instead of copied
      [] bug = "xref_target_kept" /\ d \notin {"Shallow", "Alias"} ->
            base \cup {y \in OfKind(g, Reach(g, {src}), {"Node"}) : \E x \in OfKind(g, Reach(g, {src}), {"Node"}) : y \in CSeqToSet(g.succ[x])}
      [] bug = "thin_shares_edge" /\ d = "Thin" -> base \cup OfKind(g, Reach(g, {src}), {"Edge"})
      [] bug = "shallow_deep_members" /\ d = "Shallow" -> Reach(g, NsSet(g, src))
      [] bug = "clone1_shares_trees" /\ d = "TNS" /\ route = "clone1" -> base \cup Reach(g, OfKind(g, Reach(g, {src}) \ {src}, {"Tree"}))
      [] OTHER -> base
CopySet(g, d, src, keep) ==
    IF d = "Alias" THEN {}
    ELSE IF d = "Thin" THEN OfKind(g, Reach(g, {src}) \ keep, StructKindsThin)
    ELSE Reach(g, {src}) \ keep
Rank(S, x) == Cardinality({y \in S : y < x})
\* OpCopy: [g |-> heap with the copy added, cpy |-> id of the copy, map |-> source id -> copy id]
OpCopy(g, src, cls, route, bug) ==
    LET d == DepthOf(cls, route)
        keep == KeepSet(g, d, src, route, bug)
        cs == CopySet(g, d, src, keep)
        n == N(g)
        m == [x \in cs |-> n + 1 + Rank(cs, x)]
        img(o, y) == IF y \in cs THEN <<m[y]>> ELSE IF y \in keep \/ d = "Alias" THEN <<y>> ELSE <<>>
        RECURSIVE MapSeq(_, _)
        MapSeq(o, q) == IF q = <<>> THEN <<>> ELSE img(o, Head(q)) \o MapSeq(o, Tail(q))
        stale(o, q) == \* bug annset_keeps_target: the set's target / the bound annotation's owner is not re-targeted
            IF bug = "annset_keeps_target" /\ g.kind[o] \in {"AnnotationSet", "Annotation"} /\ q # <<>>
              THEN <<Head(q)>> \o MapSeq(o, Tail(q)) ELSE MapSeq(o, q)
        inv == [k \in (n + 1)..(n + Cardinality(cs)) |-> CHOOSE x \in cs : m[x] = k]
    IN [g |-> [kind |-> g.kind \o [k \in 1..Cardinality(cs) |-> g.kind[inv[n + k]]],
               succ |-> g.succ \o [k \in 1..Cardinality(cs) |-> stale(inv[n + k], g.succ[inv[n + k]])],
               dig |-> g.dig \o [k \in 1..Cardinality(cs) |-> g.dig[inv[n + k]]],
               lsucc |-> g.lsucc],
        cpy |-> IF d = "Alias" THEN src ELSE m[src],
        map |-> m]

\* ------------------------------------------------------------------ reference mutations (bounded model)
Ops == {"SetLabel", "SetLength", "SetNodeLabel", "RelabelTaxon", "AddTaxon", "AddAnnotation", "ChangeAnnotation",
        "ChangeBoundAttr", "Encode", "Structural", "SetCell", "AddComment", "AnnotateNamespace"}

(* Object configurations: flags and settings that are part of the instance   *)
(* state of the copied object and must not change the depth of any route:    *)
(* TaxonNamespace.is_mutable = False, is_case_sensitive = True, the rooting  *)
(* state of trees (None / False / True), tree weights, labels that are None. *)
(* In the model a configuration only changes the value (dig) of the          *)
(* configured objects; the depth table has no configuration argument.        *)
Configs == {"default", "ns_locked", "ns_case", "unrooted", "rooting_none", "weighted", "unlabelled"}
ConfApplies(cls, conf) == conf \in {"unrooted", "rooting_none", "weighted"} => cls \in {"Tree", "TreeList"}
ApplyConf(g, root, conf) ==
    LET nss == NsSet(g, root)
        trees == OfKind(g, Reach(g, {root}), {"Tree"})
        bump(S, k) == [g EXCEPT !.dig = [i \in 1..Len(g.dig) |-> IF i \in S THEN g.dig[i] + k ELSE g.dig[i]]]
    IN CASE conf = "ns_locked" -> bump(nss, 1)
         [] conf = "ns_case" -> bump(nss, 2)
         [] conf = "unrooted" -> bump(trees, 3)
         [] conf = "rooting_none" -> bump(trees, 4)
         [] conf = "weighted" -> bump(trees, 5)
         [] conf = "unlabelled" -> bump({root} \cup trees, 6)
         [] OTHER -> g
SetDig(g, x) == [g EXCEPT !.dig[x] = @ + 1]
AddObj(g, parent, k) == [kind |-> Append(g.kind, k), succ |-> Append([g.succ EXCEPT ![parent] = Append(@, N(g) + 1)], <<>>),
                         dig |-> Append([g.dig EXCEPT ![parent] = @ + 1], 0), lsucc |-> g.lsucc]
FirstOf(g, root, K) == LET S == OfKind(g, Reach(g, {root}), K) IN IF S = {} THEN 0 ELSE CMin(S)
AnnSetOf(g, root) == LET S == OfKind(g, CSeqToSet(g.succ[root]), {"AnnotationSet"}) IN IF S = {} THEN 0 ELSE CMin(S)
BoundAnns(g, root) == {a \in OfKind(g, Reach(g, {root}), {"Annotation"}) : g.succ[a] # <<>>}
PlainAnns(g, root) == {a \in OfKind(g, Reach(g, {root}), {"Annotation"}) : g.succ[a] = <<>>}
\* the object a mutation is applied to (0: the operation does not apply to this root)
OpTarget(g, root, op) ==
    CASE op = "SetLabel" -> root
      [] op = "SetLength" -> FirstOf(g, root, {"Edge"})
      [] op = "SetNodeLabel" -> FirstOf(g, root, {"Node"})
      [] op = "RelabelTaxon" -> FirstOf(g, root, {"Taxon"})
      [] op = "AddTaxon" -> FirstOf(g, root, {"Namespace"})
      [] op = "AnnotateNamespace" -> FirstOf(g, root, {"Namespace"})
      [] op = "AddAnnotation" -> AnnSetOf(g, root)
      [] op = "ChangeAnnotation" -> (IF PlainAnns(g, root) = {} THEN 0 ELSE CMin(PlainAnns(g, root)))
      [] op = "ChangeBoundAttr" -> (IF BoundAnns(g, root) = {} THEN 0 ELSE g.succ[CMin(BoundAnns(g, root))][1])
      [] op = "Encode" -> FirstOf(g, root, {"Edge"})
      [] op = "Structural" -> (IF g.kind[root] = "Tree" THEN FirstOf(g, root, {"Node"}) ELSE root)
      [] op = "SetCell" -> FirstOf(g, root, {"Sequence"})
      [] op = "AddComment" -> (LET S == OfKind(g, CSeqToSet(g.succ[root]), {"list"}) IN IF S = {} THEN 0 ELSE CMin(S))
OpMutate(g, root, op) ==
    LET x == OpTarget(g, root, op) IN
    CASE op = "AddTaxon" -> AddObj(g, x, "Taxon")
      [] op \in {"AddAnnotation", "AnnotateNamespace"} -> AddObj(g, x, "Annotation")
      [] op = "Encode" -> AddObj(g, x, "Bipartition")
      [] op = "Structural" -> (IF g.kind[root] = "Tree" THEN AddObj(g, x, "Node")
                               ELSE IF g.kind[root] = "TreeList" THEN AddObj(g, x, "Tree")
                               ELSE IF g.kind[root] = "Matrix" THEN AddObj(g, x, "Sequence")
                               ELSE [g EXCEPT !.succ[x] = SubSeq(@, 1, Len(@) - 1), !.dig[x] = @ + 1])
      [] OTHER -> SetDig(g, x)

\* ------------------------------------------------------------------ value view of a model heap
RECURSIVE Dfs(_, _, _, _)
Dfs(g, K, stack, ord) ==
    IF stack = <<>> THEN ord
    ELSE LET x == Head(stack) IN
         IF x \in CSeqToSet(ord) \/ g.kind[x] \notin K THEN Dfs(g, K, Tail(stack), ord)
         ELSE Dfs(g, K, g.succ[x] \o Tail(stack), Append(ord, x))
Order(g, root, K) == Dfs(g, K, <<root>>, <<>>)
PosIn(ord, x) == IF \E i \in 1..Len(ord) : ord[i] = x THEN CMin({i \in 1..Len(ord) : ord[i] = x}) ELSE 0
CanonOf(g, root, K, withdig) ==
    LET ord == Order(g, root, K)
        refs(x) == SelectSeq(g.succ[x], LAMBDA y : g.kind[y] \in K)
    IN [i \in 1..Len(ord) |-> <<g.kind[ord[i]], IF withdig THEN g.dig[ord[i]] ELSE 0,
                                [j \in 1..Len(refs(ord[i])) |-> PosIn(ord, refs(ord[i])[j])]>>]
AllKinds == {"Tree", "Node", "Edge", "Bipartition", "Taxon", "Namespace", "AnnotationSet", "Annotation", "Sequence",
             "Matrix", "TreeList", "list", "dict", "set", "tuple", "Other"}
StructKinds == {"Tree", "Node", "Edge", "Sequence", "Matrix", "TreeList"}
AnnKinds == {"AnnotationSet", "Annotation", "list"}
NsKinds == {"Taxon", "Namespace"}
ModelView(g, root) ==
    LET ns == NsSet(g, root)
        nsq == IF ns = {} THEN <<>> ELSE g.succ[CMin(ns)]
        ord == Order(g, root, StructKinds)
        txof(x) == LET T == OfKind(g, CSeqToSet(g.succ[x]), {"Taxon"}) IN IF T = {} THEN 0 ELSE CMin(T)
        own == IF g.kind[root] = "Namespace" THEN <<root>> ELSE ord
        annof(x) == LET S == OfKind(g, CSeqToSet(g.succ[x]), {"AnnotationSet"})
                        L == OfKind(g, CSeqToSet(g.succ[x]), {"list"})
                        aq == IF S = {} THEN <<>> ELSE SelectSeq(g.succ[CMin(S)], LAMBDA y : g.kind[y] = "Annotation")
                    IN [c |-> IF L = {} THEN <<>> ELSE <<g.dig[CMin(L)]>>,
                        a |-> [j \in 1..Len(aq) |-> [bound |-> g.succ[aq[j]] # <<>>, name |-> g.dig[aq[j]],
                                                      val |-> IF g.succ[aq[j]] # <<>> THEN g.dig[g.succ[aq[j]][1]] ELSE g.dig[aq[j]]]]]
        bndof(x) == LET S == OfKind(g, CSeqToSet(g.succ[x]), {"AnnotationSet"})
                        aq == IF S = {} THEN <<>> ELSE SelectSeq(g.succ[CMin(S)], LAMBDA y : g.kind[y] = "Annotation" /\ g.succ[y] # <<>>)
                    IN [t |-> IF S = {} THEN 0 ELSE IF g.succ[CMin(S)] # <<>> /\ g.succ[CMin(S)][1] = x THEN 1 ELSE 2,
                        b |-> [j \in 1..Len(aq) |-> IF g.succ[aq[j]][1] = x THEN 1 ELSE 2],
                        v |-> [j \in 1..Len(aq) |-> g.dig[g.succ[aq[j]][1]]],
                        o |-> [j \in 1..Len(aq) |-> g.dig[x]]]
        fullk == AllKinds \ NsKinds        \* a namespace root has everything in its ns view
        fo == Order(g, root, fullk)
        fc == CanonOf(g, root, fullk, TRUE)
    IN [core |-> CanonOf(g, root, StructKinds, TRUE),
        tx |-> [i \in 1..Len(ord) |-> PosIn(nsq, txof(ord[i]))],
        txl |-> [i \in 1..Len(ord) |-> IF txof(ord[i]) = 0 THEN -1 ELSE g.dig[txof(ord[i])]],
        enc |-> [n |-> Cardinality(OfKind(g, Reach(g, {root}), {"Bipartition"})), b |-> CanonOf(g, root, StructKinds \cup {"Bipartition"}, TRUE)],
        ann |-> [i \in 1..Len(own) |-> annof(own[i])],
        bnd |-> [i \in 1..Len(own) |-> bndof(own[i])],
        full |-> [k |-> [i \in 1..Len(fo) |-> g.kind[fo[i]]], c |-> fc],
        ns |-> [full |-> [c |-> IF ns = {} THEN <<>> ELSE CanonOf(g, CMin(ns), AllKinds, TRUE)]]]
=============================================================================
