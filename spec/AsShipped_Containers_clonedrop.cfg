SPECIFICATION Spec
CONSTANTS
  MaxOps = 1
  Groups = {"list", "listns", "tree", "arr", "mat", "ds", "memo", "seed"}
  Big = FALSE
  Focus = ""
  Wide = FALSE
  ShipDsAdd = FALSE
  ShipMatPartial = FALSE
  ShipCloneDrop = TRUE
INVARIANT SaneInv
INVARIANT ClosureInv
INVARIANT RemovedKeepConsistentNs
PROPERTY LabelFunctional
PROPERTY ArrayRefusesForeign
CHECK_DEADLOCK FALSE
