------------------------------ MODULE DistMatrix ------------------------------
(***************************************************************************)
(* C14 - path distances, common ancestors, NJ / UPGMA.                     *)
(*                                                                         *)
(* Definitions on the graph form of TreeBase.  Edge weights are passed as  *)
(* an explicit sequence w (index = node id, w[x] = weight of the edge      *)
(* above x, any integer - negative values are NOT folded to zero) so that  *)
(* the same operators serve for input trees (w = W0(g): logged lengths in  *)
(* units of 1/LScale, None counted as 0) and for trees returned by NJ and  *)
(* UPGMA (w = exact rationals brought to a common denominator by the trace *)
(* specification).                                                         *)
(*                                                                         *)
(* NJ and UPGMA are specified by post-condition (their textbook            *)
(* correctness criterion), never by their algorithm.                       *)
(*                                                                         *)
(* TLC neither memoises operator applications nor evaluates function       *)
(* constructors eagerly, so everything that is used for many pairs is      *)
(* tabulated once per tree: `...Tab` operators wrap the constructor in     *)
(* TLCEval, which forces the table.                                        *)
(***************************************************************************)
EXTENDS TreeBase

\* ---------------------------------------------------------------- tree shapes (model side)
\* ordered trees with n nodes as preorder parent arrays, built node by node
\* (TreeBase.ParentArrays filters n^n functions, too slow beyond 7 nodes)
RECURSIVE PArr(_)
PArr(n) == IF n = 1 THEN {<<0>>}
           ELSE UNION {{Append(p, a) : a \in AncOfIn(p, n - 1)} : p \in PArr(n - 1)}
NumUnif(p) == Cardinality({x \in 1..Len(p) : Cardinality({i \in 1..Len(p) : p[i] = x}) = 1})

\* ---------------------------------------------------------------- paths
W0(g) == TLCEval([x \in 1..g.n |-> L0(g, x)])
RevSeq(q) == [i \in 1..Len(q) |-> q[Len(q) + 1 - i]]
\* a, parent(a), ..., m   for m an ancestor-or-self of a
RECURSIVE UpTo(_, _, _)
UpTo(g, a, m) == IF a = m THEN <<a>> ELSE <<a>> \o UpTo(g, g.par[a], m)
\* the unique path between a and b: up from a to the node where it turns, then down to b
PathSeq(g, a, b) == LET m == MRCA2(g, a, b) IN UpTo(g, a, m) \o Tail(RevSeq(UpTo(g, b, m)))
\* weight of the edge between two adjacent nodes = weight stored at the lower one
EdgeW(g, w, x, y) == IF g.par[x] = y THEN w[x] ELSE w[y]
PathW(g, w, a, b) == LET q == PathSeq(g, a, b) IN SumSeq([i \in 1..(Len(q) - 1) |-> EdgeW(g, w, q[i], q[i + 1])])
PathSteps(g, a, b) == Len(PathSeq(g, a, b)) - 1
\* "the node where that path turns" = the node of least depth on the path
TurnNode(g, a, b) == LET q == PathSeq(g, a, b)
                         dep == TLCEval([i \in 1..Len(q) |-> DepthOf(g, q[i])])
                     IN q[CHOOSE i \in 1..Len(q) : \A j \in 1..Len(q) : dep[i] <= dep[j]]

\* leaves carry pairwise distinct taxa, internal nodes none (what the distance matrix is defined for)
TaxaOnLeavesOnly(g) ==
    /\ \A x \in Leaves(g) : g.tx[x] # 0
    /\ \A x \in Internals(g) : g.tx[x] = 0
    /\ \A x, y \in Leaves(g) : x # y => g.tx[x] # g.tx[y]

\* leaf-to-leaf tables keyed by taxon code
LeafOfTab(g) == TLCEval([t \in TreeTx(g) |-> TaxLeaf(g, t)])
TaxPairs(g) == TreeTx(g) \X TreeTx(g)
DistTab(g, w) == LET lf == LeafOfTab(g) IN TLCEval([pr \in TaxPairs(g) |-> PathW(g, w, lf[pr[1]], lf[pr[2]])])
StepTab(g) == LET lf == LeafOfTab(g) IN TLCEval([pr \in TaxPairs(g) |-> PathSteps(g, lf[pr[1]], lf[pr[2]])])
MrcaTab(g) == LET lf == LeafOfTab(g) IN TLCEval([pr \in TaxPairs(g) |-> TurnNode(g, lf[pr[1]], lf[pr[2]])])
\* node-to-node tables
NodePairs(g) == Nodes(g) \X Nodes(g)
NodeDistTab(g, w) == TLCEval([pr \in NodePairs(g) |-> PathW(g, w, pr[1], pr[2])])
NodeStepTab(g) == TLCEval([pr \in NodePairs(g) |-> PathSteps(g, pr[1], pr[2])])
NodeMrcaTab(g) == TLCEval([pr \in NodePairs(g) |-> TurnNode(g, pr[1], pr[2])])

\* ---------------------------------------------------------------- summaries (as exact sums; the mean is sum / count)
UPairs(S) == {pr \in S \X S : pr[1] < pr[2]}
\* D: a table on pairs of taxa (distance or step count)
SumOverPairs(D, S) == SumFn(UPairs(S), D)
NearestOf(D, S, i) == Min({D[<<i, j>>] : j \in S \ {i}})
SumNearest(D, S) == SumFn(S, TLCEval([i \in S |-> NearestOf(D, S, i)]))
NumPairs(S) == (Cardinality(S) * (Cardinality(S) - 1)) \div 2
\* observed mean num/den equals sum/count (sum in units of 1/scale)
RatEqualsMean(num, den, sum, count, scale) == den > 0 /\ count > 0 /\ num * count * scale = den * sum

\* ---------------------------------------------------------------- MRCA of a taxon set
LeafTxTab(g) == TLCEval([x \in Nodes(g) |-> LeafTx(g, x)])
DepthTab(g) == TLCEval([x \in Nodes(g) |-> DepthOf(g, x)])
\* via leaf sets: the deepest node whose leaves include all of S  (= TreeBase.MRCAOfSet, tabulated)
MRCAOfSetT(g, ltx, dep, S) == LET c == {x \in Nodes(g) : S \subseteq ltx[x]}
                              IN CHOOSE x \in c : \A y \in c : dep[y] <= dep[x]
\* 0 stands for "no such node" (None)
MRCAExpectedT(g, ltx, dep, S) == IF S # {} /\ S \subseteq ltx[g.seed] THEN MRCAOfSetT(g, ltx, dep, S) ELSE 0
\* via paths: fold of the pairwise turning node
RECURSIVE FoldMRCA(_, _, _)
FoldMRCA(g, m, S) == IF S = {} THEN m
                     ELSE LET t == CHOOSE t \in S : TRUE IN FoldMRCA(g, TurnNode(g, m, TaxLeaf(g, t)), S \ {t})
MRCAByPaths(g, S) == LET t == CHOOSE t \in S : TRUE IN FoldMRCA(g, TaxLeaf(g, t), S \ {t})

\* ---------------------------------------------------------------- unrooted weighted splits (NJ)
\* SplitWTab(g, w): split (normalised: the side without the least taxon) |-> total weight of the edges inducing it
\* (a bifurcating root and unifurcations give several edges for one split; the empty split of a root stem is left out)
SplitWTab(g, w) ==
    LET tt == TreeTx(g)
        below == Nodes(g) \ {g.seed}
        us == TLCEval([x \in below |-> Norm(LeafTx(g, x), tt)])
        dom == {us[x] : x \in below} \ {{}}
    IN TLCEval([S \in dom |-> SumFn({x \in below : us[x] = S}, w)])
IsTrivialSplit(tt, S) == Cardinality(S) <= 1 \/ Cardinality(tt \ S) <= 1
InternalOf(tt, ws) == {S \in DOMAIN ws : ~IsTrivialSplit(tt, S)}
WAt(ws, S) == IF S \in DOMAIN ws THEN ws[S] ELSE 0
\* precondition of the NJ clause: a tree metric with positive internal edge lengths
\* (w = W0(g) for the patristic distances, w = 1 per edge for the edge-count distances)
NJAdmissibleW(g, w) ==
    /\ TaxaOnLeavesOnly(g)
    /\ Cardinality(Leaves(g)) >= 2
    /\ LET ws == SplitWTab(g, w) IN \A S \in InternalOf(TreeTx(g), ws) : ws[S] > 0
NJAdmissible(g) == NJAdmissibleW(g, W0(g))

\* the unrooted topology as a canonical value defined without splits: the tree seen from the leaf
\* with the least taxon, nodes of degree 2 (unifurcations, a bifurcating or unifurcating root) transparent.
\* UParts(g, x, from) = canonical subtrees hanging off x when arriving from its neighbour `from`.
\* (TreeBase.CanonUnrooted leaves a phantom empty part below a unifurcating root, hence this one.)
RECURSIVE UParts(_, _, _)
UParts(g, x, from) ==
    LET down == {Canon(g, c) : c \in KidSet(g, x) \ {from}}
        upp == IF g.par[x] = 0 THEN {} ELSE UParts(g, g.par[x], x)
        up == IF Cardinality(upp) <= 1 THEN upp ELSE {[t |-> 0, k |-> upp]}
    IN down \cup up
UCanon(g) ==
    LET r == CHOOSE x \in Leaves(g) : g.tx[x] = Min(TreeTx(g)) IN
    IF g.par[r] = 0 THEN Canon(g, r)
    ELSE LET parts == UParts(g, g.par[r], r) IN
         IF Cardinality(parts) = 1 THEN CHOOSE q \in parts : TRUE ELSE [t |-> 0, k |-> parts]

\* post-conditions of NJ for the distances of tree t under weights wt; k converts the units of wt into the units of wu
NJLeavesOk(t, u) == WellFormed(u) /\ TaxaOnLeavesOnly(u) /\ TreeTx(u) = TreeTx(t)
\* internal edges of weight 0 in the result are contracted (a polytomy of t can only come back that way)
NJTopologyOk(t, wt, u, wu) ==
    LET tt == TreeTx(t)
        wst == SplitWTab(t, wt)
        wsu == SplitWTab(u, wu)
    IN /\ {S \in InternalOf(tt, wsu) : wsu[S] # 0} = InternalOf(tt, wst)
       /\ ((\A S \in InternalOf(tt, wsu) : wsu[S] # 0) => UCanon(u) = UCanon(t))
NJPathLengthsOk(t, wt, u, wu, k) ==
    LET dt == DistTab(t, wt)  du == DistTab(u, wu) IN \A pr \in TaxPairs(t) : du[pr] = k * dt[pr]
NJEdgeLengthsOk(t, wt, u, wu, k) ==
    LET wst == SplitWTab(t, wt)  wsu == SplitWTab(u, wu) IN
    \A S \in DOMAIN wst \cup DOMAIN wsu : WAt(wsu, S) = k * WAt(wst, S)

\* ---------------------------------------------------------------- rooted clades with heights (UPGMA)
\* distance from x down to its left-most leaf
RECURSIVE TipDist(_, _, _)
TipDist(g, w, x) == IF IsLeaf(g, x) THEN 0 ELSE w[g.kids[x][1]] + TipDist(g, w, g.kids[x][1])
RECURSIVE SubLeaves(_, _)
SubLeaves(g, x) == IF IsLeaf(g, x) THEN {x} ELSE UNION {SubLeaves(g, c) : c \in KidSet(g, x)}
\* every leaf below x is at the same distance from x
ClockLikeBelow(g, w, x) == LET h == TipDist(g, w, x) IN \A l \in SubLeaves(g, x) : PathW(g, w, x, l) = h
\* the same at every node below x (equivalent for non-negative weights; with arbitrary integer
\* weights of a result tree this is what makes "the height of a node" well defined everywhere)
RECURSIVE DownDistOk(_, _, _)
DownDistOk(g, w, x) ==
    \/ IsLeaf(g, x)
    \/ /\ \A c \in KidSet(g, x) : DownDistOk(g, w, c)
       /\ \A c \in KidSet(g, x) : w[c] + TipDist(g, w, c) = TipDist(g, w, x)
Ultrametric(g, w) == DownDistOk(g, w, g.seed)
UPGMAAdmissibleW(g, w) == TaxaOnLeavesOnly(g) /\ Cardinality(Leaves(g)) >= 2 /\ Ultrametric(g, w)
UPGMAAdmissible(g) == UPGMAAdmissibleW(g, W0(g))
\* the rooted tree as a set of <<clade, height of its branching node>>; clades hanging on a
\* stem of weight 0 are contracted into their parent (ties), unifurcations are transparent
RootedSig(g, w, k) ==
    LET ltx == LeafTxTab(g)
        dep == DepthTab(g)
        tt == ltx[g.seed]
        cl == {c \in {ltx[x] : x \in Nodes(g)} : Cardinality(c) >= 2}
        nodesOf(c) == {x \in Nodes(g) : ltx[x] = c}
        low(c) == CHOOSE x \in nodesOf(c) : \A y \in nodesOf(c) : dep[y] <= dep[x]
        stem(c) == SumFn(nodesOf(c) \ {g.seed}, w)
    IN {<<c, k * TipDist(g, w, low(c))>> : c \in {c \in cl : c = tt \/ stem(c) # 0}}
UPGMATreeOk(t, wt, u, wu, k) == Ultrametric(u, wu) /\ RootedSig(u, wu, 1) = RootedSig(t, wt, k)
\* UPGMA = pair group method with *arithmetic mean*: a node joining clusters A and B stands at
\* half the mean of the leaf-to-leaf distances between A and B (for any input matrix, any tie order)
UPGMAMeanOk(t, wt, u, wu, k) ==
    LET dt == DistTab(t, wt)  ltx == LeafTxTab(u) IN
    /\ Ultrametric(u, wu)
    /\ \A x \in Internals(u) :
         /\ Len(u.kids[x]) = 2
         /\ LET A == ltx[u.kids[x][1]]  B == ltx[u.kids[x][2]] IN
            2 * TipDist(u, wu, x) * Cardinality(A) * Cardinality(B) = k * SumFn(A \X B, dt)

\* ---------------------------------------------------------------- sanity of the definitions (checked by TLC on the model)
IsSimplePath(g, q, a, b) ==
    /\ q[1] = a /\ q[Len(q)] = b
    /\ Cardinality(SeqToSet(q)) = Len(q)
    /\ \A i \in 1..(Len(q) - 1) : g.par[q[i]] = q[i + 1] \/ g.par[q[i + 1]] = q[i]
TwoLargestEqual(a, b, c) == a <= Max({b, c}) /\ b <= Max({a, c}) /\ c <= Max({a, b})
\* what depends on the shape only
ShapeSound(g) ==
    LET PQ == TLCEval([pr \in NodePairs(g) |-> PathSeq(g, pr[1], pr[2])])
        PS == NodeStepTab(g)
        TN == NodeMrcaTab(g)
        ltx == LeafTxTab(g)
        dep == DepthTab(g)
    IN
    /\ \A a, b \in Nodes(g) :
         LET q == PQ[<<a, b>>] IN
         /\ IsSimplePath(g, q, a, b)
         /\ PS[<<a, b>>] = PathEdges(g, a, b)                      \* explicit path = depth formula of TreeBase
         /\ TN[<<a, b>>] = MRCA2(g, a, b)                          \* where the path turns = first common ancestor
         /\ TN[<<a, b>>] = TN[<<b, a>>] /\ PS[<<a, b>>] = PS[<<b, a>>]        \* symmetry
         /\ (a = b => PS[<<a, b>>] = 0 /\ TN[<<a, b>>] = a)         \* diagonal
         /\ (a # b => PS[<<a, b>>] >= 1)
         /\ \A i \in 1..Len(q) : PS[<<a, b>>] = PS[<<a, q[i]>>] + PS[<<q[i], b>>]         \* additivity along the path
    /\ (TaxaOnLeavesOnly(g) =>
          \A S \in (SUBSET TreeTx(g)) \ {{}} :
             LET m == MRCAOfSetT(g, ltx, dep, S) IN
             /\ m = MRCAOfSet(g, S)
             /\ m = MRCAByPaths(g, S)                                   \* via leaf sets = via paths
             /\ S \subseteq ltx[m]
             /\ \A c \in KidSet(g, m) : ~(S \subseteq ltx[c])            \* deepest
             /\ (Cardinality(S) = 2 => \E a, b \in S : a # b /\ m = MrcaTab(g)[<<a, b>>]))
\* what depends on the lengths
LenSound(g) ==
    LET w == W0(g)
        PQ == TLCEval([pr \in NodePairs(g) |-> PathSeq(g, pr[1], pr[2])])
        PW == NodeDistTab(g, w)
    IN
    /\ \A a, b \in Nodes(g) :
         /\ PW[<<a, b>>] = PathLen(g, a, b)                        \* sum over the path = root-distance formula of TreeBase
         /\ PW[<<a, b>>] = PW[<<b, a>>]                             \* symmetry
         /\ PW[<<a, b>>] >= 0
         /\ (a = b => PW[<<a, b>>] = 0)                              \* zero diagonal
         /\ \A i \in 1..Len(PQ[<<a, b>>]) : PW[<<a, b>>] = PW[<<a, PQ[<<a, b>>][i]>>] + PW[<<PQ[<<a, b>>][i], b>>]   \* additivity along the path
         /\ \A c \in Nodes(g) : PW[<<a, b>>] <= PW[<<a, c>>] + PW[<<c, b>>]              \* triangle inequality
    /\ \A a, b, c, e \in Leaves(g) : (a < b /\ b < c /\ c < e) =>      \* four-point condition (symmetric in the four leaves;
         TwoLargestEqual(PW[<<a, b>>] + PW[<<c, e>>], PW[<<a, c>>] + PW[<<b, e>>], PW[<<a, e>>] + PW[<<b, c>>])   \* with repeated leaves it is the triangle inequality)
SummariesSound(g) ==
    TaxaOnLeavesOnly(g) =>
      LET D == DistTab(g, W0(g)) IN
      \A S \in SUBSET TreeTx(g) : Cardinality(S) >= 2 =>
         /\ 2 * SumOverPairs(D, S) = SumFn(S \X S, D)
         /\ SumNearest(D, S) * NumPairs(S) <= SumOverPairs(D, S) * Cardinality(S)       \* mean of minima <= mean of all
         /\ \A i \in S : \E j \in S \ {i} : NearestOf(D, S, i) = D[<<i, j>>]
\* a tree metric with positive internal lengths determines its quartets (so NJ's inverse is well defined)
QuartetsIdentifiable(g) ==
    NJAdmissible(g) =>
      LET D == DistTab(g, W0(g))
          IS == InternalOf(TreeTx(g), SplitWTab(g, W0(g)))
          Sep(x, y, z, v) == \E S \in IS : ({x, y} \subseteq S /\ {z, v} \cap S = {}) \/ ({z, v} \subseteq S /\ {x, y} \cap S = {})
          Shorter(x, y, z, v) == D[<<x, y>>] + D[<<z, v>>] < D[<<x, z>>] + D[<<y, v>>]
      IN \A a, b, c, e \in TreeTx(g) : (a < b /\ b < c /\ c < e) =>
            /\ (Shorter(a, b, c, e) <=> Sep(a, b, c, e))
            /\ (Shorter(a, c, b, e) <=> Sep(a, c, b, e))
            /\ (Shorter(a, e, b, c) <=> Sep(a, e, b, c))
\* in an ultrametric tree the branching node of two leaves stands at half their distance (three-point condition follows)
UltrametricSound(g) ==
    UPGMAAdmissible(g) =>
      LET w == W0(g)  D == DistTab(g, w)  M == MrcaTab(g) IN
      /\ ClockLikeBelow(g, w, g.seed)
      /\ \A pr \in TaxPairs(g) : 2 * TipDist(g, w, M[pr]) = D[pr]
      /\ \A a, b, c \in TreeTx(g) : TwoLargestEqual(D[<<a, b>>], D[<<a, c>>], D[<<b, c>>])
\* the generating tree satisfies the post-conditions of NJ / UPGMA itself
PostconditionsReflexive(g) ==
    /\ (NJAdmissible(g) => /\ NJLeavesOk(g, g) /\ NJTopologyOk(g, W0(g), g, W0(g))
                           /\ NJPathLengthsOk(g, W0(g), g, W0(g), 1) /\ NJEdgeLengthsOk(g, W0(g), g, W0(g), 1))
    /\ (UPGMAAdmissible(g) => /\ UPGMATreeOk(g, W0(g), g, W0(g), 1)
                              /\ ((\A x \in Internals(g) : Len(g.kids[x]) = 2) => UPGMAMeanOk(g, W0(g), g, W0(g), 1)))
DefsSound(g) == /\ LenSound(g) /\ SummariesSound(g)
                /\ QuartetsIdentifiable(g) /\ UltrametricSound(g) /\ PostconditionsReflexive(g)
=============================================================================
