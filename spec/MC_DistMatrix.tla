---------------------------- MODULE MC_DistMatrix ----------------------------
(* Bounded domain for C14: ordered trees (preorder parent arrays, polytomies *)
(* and unifurcations included) with at most MaxLeaves leaves and edge-length *)
(* vectors over {None, 0, 1, 2, 3} (in units of 1/4: -1, 0, 4, 8, 12):       *)
(*   family A  every tree with <= FullN nodes, and every tree with           *)
(*             FullN < nodes <= MidN and <= MidUnif unifurcations,           *)
(*             x every length vector                                         *)
(*   family B  every tree with MidN < nodes <= RedN and <= RedUnif           *)
(*             unifurcations x every length vector over {None, 1, 2}         *)
(*   family C  every tree with FullN < nodes <= RandN and <= RandUnif        *)
(*             unifurcations x RandK pseudo-random vectors over              *)
(*             {None,0,1,2,3} computed by TLC (a small linear congruential    *)
(*             generator seeded by shape, k and the environment variable     *)
(*             C14_SEED: reproducible, independent of worker scheduling)     *)
(* The length of the root edge (on no path) copies that of the last node.    *)
(* TLC checks the soundness of the definitions on every tree and decides the *)
(* preconditions of the NJ / UPGMA clauses (njok, ultra); the dump is the    *)
(* input domain replayed on the real library.                                *)
(* Initial states are the bare shapes (lens = <<>>; beyond FullN nodes only   *)
(* those that some family uses); each gets its length vectors in one step,   *)
(* so that TLC's workers share the work.                                     *)
EXTENDS DistMatrix, IOUtils
CONSTANTS MaxLeaves, FullN, MidN, MidUnif, RedN, RedUnif, RandN, RandUnif, RandK
VARIABLES p, lens, njok, ultra
vars == <<p, lens, njok, ultra>>
LensFull == {-1, 0, 4, 8, 12}
LensRed == {-1, 4, 8}
Shapes(n, maxunif) == {s \in PArr(n) : NumLeavesOfParents(s) <= MaxLeaves /\ NumUnif(s) <= maxunif}
WithRoot(n, lv) == [i \in 1..n |-> IF i = 1 THEN (IF n = 1 THEN -1 ELSE lv[n]) ELSE lv[i]]
G(pp, ll) == MkTree(pp, [i \in 1..Len(pp) |-> i], ll, 1)
\* deterministic pseudo-random length vectors (all arithmetic stays below 2^23)
Seed == IF "C14_SEED" \in DOMAIN IOEnv THEN atoi(IOEnv.C14_SEED) % 65537 ELSE 0
Lcg(x) == (x * 75 + 74) % 65537
RECURSIVE LcgSeq(_, _)
LcgSeq(x, n) == IF n = 0 THEN <<>> ELSE <<x>> \o LcgSeq(Lcg(x), n - 1)
ShapeNo(pp) == SumSeq([i \in 1..Len(pp) |-> pp[i] * (i * i + 1)])
LensFullSeq == <<-1, 0, 4, 8, 12>>
RandVec(pp, k) == LET n == Len(pp)
                      s == LcgSeq(Lcg(Lcg(((Seed % 251) * 257 + ShapeNo(pp) * 31 + k * 1009) % 65537)), n)
                  IN [i \in 2..n |-> LensFullSeq[((s[i] \div 7) % 5) + 1]]
Pick(ll) == /\ lens' = ll
            /\ njok' = NJAdmissible(G(p, ll))
            /\ ultra' = UPGMAAdmissible(G(p, ll))
            /\ p' = p
Init == /\ \E n \in 1..Max({FullN, MidN, RedN, RandN}) : p \in Shapes(n, IF n <= FullN THEN n ELSE Max({MidUnif, RedUnif, RandUnif}))
        /\ lens = <<>> /\ njok = FALSE /\ ultra = FALSE
Next == /\ lens = <<>>
        /\ LET n == Len(p) IN
           \/ /\ (n <= FullN \/ (n <= MidN /\ NumUnif(p) <= MidUnif))
              /\ \E lv \in [2..n -> LensFull] : Pick(WithRoot(n, lv))
           \/ /\ n > MidN /\ n <= RedN /\ NumUnif(p) <= RedUnif
              /\ \E lv \in [2..n -> LensRed] : Pick(WithRoot(n, lv))
           \/ /\ n > FullN /\ n <= RandN /\ NumUnif(p) <= RandUnif
              /\ \E k \in 1..RandK : Pick(WithRoot(n, RandVec(p, k)))
Spec == Init /\ [][Next]_vars
\* shape-only part on the bare shapes (all lengths None), length-dependent part on every tree
GNone == G(p, [i \in 1..Len(p) |-> -1])
Sound == IF lens = <<>> THEN WellFormed(GNone) /\ ShapeSound(GNone)
         ELSE LET g == G(p, lens) IN DefsSound(g)
=============================================================================
