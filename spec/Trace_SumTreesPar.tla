------------------------- MODULE Trace_SumTreesPar -------------------------
(* C06 trace validation, concurrent part.  One event = one real execution of *)
(* TreeProcessor.parallel_analyze_trees (under the baton scheduler that      *)
(* follows a TLC schedule of SumTreesPar, mode "shim"; or with real worker   *)
(* processes, mode "real") together with serial_analyze_trees on the same    *)
(* temporary files.  TLC computes the tree descriptors from the projected    *)
(* source trees, replays the logged queue operations on the queue semantics  *)
(* of SumTreesPar (FIFO pipe, feeder buffer) and judges the clauses of the   *)
(* property with the operators of TreeArrayMerge.  Verdicts are total.       *)
EXTENDS TreeArrayJudge, Json, IOUtils
Tr == ndJsonDeserialize(IOEnv.TRACE_FILE)
VARIABLES l, bad

\* ---------------------------------------------------------------- the logged queue operations
\* entries [p (0 main, 100 feeder, w), op, q ("work" | "results" | ""), v, n, r]:
\*   work queue values v: file number 1..F, 0 sentinel (None), -1 Empty
\*   results queue: v worker number (-2: an exception object), n number of trees, r rooting of the array
RECURSIVE Replay(_, _, _)
Replay(ops, i, s) ==
    IF i > Len(ops) THEN s ELSE
    LET o == ops[i] IN
    Replay(ops, i + 1,
      CASE o.op = "put" /\ o.q = "work" ->
             IF s.async THEN [s EXCEPT !.buffer = Append(@, o.v)] ELSE [s EXCEPT !.pipe = Append(@, o.v)]
        [] o.op = "flush" ->
             IF s.buffer = <<>> THEN [s EXCEPT !.ok = FALSE]
             ELSE [s EXCEPT !.pipe = Append(@, Head(s.buffer)), !.buffer = Tail(@)]
        [] o.op \in {"get", "get_nowait"} /\ o.q = "work" ->
             IF s.pipe = <<>>
               THEN [s EXCEPT !.ok = @ /\ (o.v = -1 /\ o.op = "get_nowait"),
                              !.early = @ \/ (s.buffer # <<>>),                 \* polled while a put was still with the feeder
                              !.idle = @ \cup {o.p}]
               ELSE [s EXCEPT !.ok = @ /\ (o.v = Head(s.pipe)), !.pipe = Tail(@),
                              !.taken = IF o.v > 0 THEN @ \cup {o.v} ELSE @]
        [] o.op = "put" /\ o.q = "results" -> [s EXCEPT !.results = Append(@, o), !.sent = @ \cup {o.p}]
        [] o.op = "get" /\ o.q = "results" ->
             IF s.results = <<>> THEN [s EXCEPT !.ok = FALSE]
             ELSE [s EXCEPT !.ok = @ /\ (o.v = Head(s.results).v), !.results = Tail(@),
                            !.got = Append(@, Head(s.results))]
        [] OTHER -> s)
Replayed(e) == Replay(e.log, 1, [async |-> e.async, buffer |-> <<>>, pipe |-> <<>>, results |-> <<>>, ok |-> TRUE, early |-> FALSE,
                                 idle |-> {}, taken |-> {}, sent |-> {}, got |-> <<>>])

\* ---------------------------------------------------------------- clauses
\* which tree does entry i of the array describe (any one of identical trees)
Aligned4(P) == P.n[2] = P.n[1] /\ P.n[3] = P.n[1] /\ P.n[4] = P.n[1]
Ragged(P, i) == Len(P.lens[i]) # Len(P.splits[i]) \/ Cardinality(SplitsOf(P.splits[i])) # Len(P.splits[i])
Logged4(P) == [i \in 1..P.n[1] |-> IF Ragged(P, i) THEN <<>>
                                   ELSE <<SplitsOf(P.splits[i]), LenMapOf(P.splits[i], P.lens[i]), SeqToSet(P.leafsets[i]), P.weights[i]>>]
Expected4(D, set) == [t \in 1..Len(D) |-> <<D[t].splits, IF set.iel THEN [s \in D[t].splits |-> -1] ELSE D[t].len, D[t].leafset, TW(D[t], set)>>]
\* the array, whatever the arrival order, holds exactly the trees ids (a bag) - ids in entry order, 0 where no tree fits
RECURSIVE Assign(_, _, _, _)
Assign(L, X, i, left) ==       \* left: ids not yet used
    IF i > Len(L) THEN <<>>
    ELSE LET c == {t \in left : L[i] # <<>> /\ L[i] = X[t]} IN
         IF c = {} THEN <<0>> ELSE LET t == Min(c) IN <<t>> \o Assign(L, X, i + 1, left \ {t})
EntryIds(P, D, set) == IF ~Aligned4(P) THEN <<0>> ELSE Assign(TLCEval(Logged4(P)), TLCEval(Expected4(D, set)), 1, 1..Len(D))

JudgeArray(who, P, q, D, set, r, withQueries, ref) ==
    LET N == Len(D)
        T == TLCEval(EntryIds(P, D, set))
        all == [i \in 1..N |-> i]
    IN (IF ~Aligned4(P) \/ P.n[1] # N \/ 0 \in SeqToSet(T)
          THEN V("C06.PerTreeListsAligned", who \o ":per-tree-lists-do-not-describe-the-trees-of-the-files") ELSE None)
       \o (LET v == JudgeDist(P, all, D, set) IN [h \in 1..Len(v) |-> [clause |-> "C06.SameSummary", class |-> who \o ":" \o v[h].class]])
       \o (IF N > 0 /\ P.rooting # r THEN V("C06.RootingKept", who \o ":rooting-of-the-result") ELSE None)
       \o (IF ~withQueries \/ N = 0 \/ P.n[1] # N \/ ~Aligned4(P) \/ 0 \in SeqToSet(T) THEN None
           ELSE LET v == JudgeQueries(T, D, set, r, P, q, ref) IN [h \in 1..Len(v) |-> [clause |-> v[h].clause, class |-> who \o ":" \o v[h].class]])

NoRef == [raised |-> "none", g |-> <<>>, lowraised |-> "none", lowg |-> <<>>]
JudgeRun(e) ==
    LET D == TLCEval([i \in 1..Len(e.trees) |-> Descr(e.trees[i], e.w[i], e.tip)])
        s == TLCEval(Replayed(e))
        files == {f \in 1..e.F : TRUE}
        unread == e.mode = "shim" /\ s.taken # files
        lastgot == IF s.got = <<>> THEN [n |-> -1, r |-> -2] ELSE s.got[Len(s.got)]
        someNonEmptyBefore == \E h \in 1..(Len(s.got) - 1) : s.got[h].n > 0
        missing == e.par.dist.n < Len(D)
    IN
    \* inputs and shim conform to the model (machinery)
    (IF \E i \in 1..Len(e.trees) : WFClause(e.trees[i]) # "ok" \/ ~DistinctSplits(e.trees[i]) \/ e.trees[i].rooted # e.r
       THEN V("C06.Machinery", "source tree ill-formed, with duplicate splits, or of another rooting") ELSE None)
    \o (IF e.mode = "shim" /\ ~s.ok THEN V("C06.Machinery", "logged queue operations are not a behaviour of the queues of SumTreesPar") ELSE None)
    \o (IF e.poison THEN
          \* one file holds a tree of the other rooting: the serial run fails, so must the parallel one (once that file is read)
          (IF e.ser_raised = "" THEN V("C06.Machinery", "the poisoned file did not make the serial run fail") ELSE None)
          \o (IF e.outcome # "finished" THEN V("C06.Termination", e.outcome) ELSE None)
          \o (IF e.outcome = "finished" /\ e.raised = "" /\ ~unread /\ e.crashes = <<>>
                THEN V("C06.SameSummary", "the-exception-of-a-worker-is-lost:serial-run-raised-" \o e.ser_raised) ELSE None)
        ELSE
    \* the serial run is the route "one tree at a time"
       (IF e.ser_raised # "" THEN V("C06.SerialRun", "raised:" \o e.ser_raised)
        ELSE JudgeArray("serial", e.ser, e.serq, D, e.set, e.r, e.mode = "real", NoRef))
    \* the parallel run
    \o (IF e.outcome # "finished" THEN V("C06.Termination", (IF e.mode = "real" THEN "real-processes:" ELSE "") \o e.outcome) ELSE None)
    \o (IF e.crashes # <<>> THEN V("C06.WorkerNeverFails", "worker-crashed") ELSE None)
    \o (IF e.raised # ""
          THEN V("C06.CollationNeverFails",
                 (IF e.mode = "real" THEN "real-processes:" ELSE "") \o
                 (IF e.mode = "shim" /\ lastgot.n = 0 /\ lastgot.r = -1 /\ someNonEmptyBefore
                    THEN "empty-result-with-undefined-rooting-after-a-non-empty-one" ELSE "collation") \o ":" \o e.raised)
        ELSE IF e.outcome # "finished" THEN None
        ELSE (IF e.mode = "shim" /\ (s.sent # 1..e.W \/ Len(s.got) # e.W \/ {s.got[h].v : h \in 1..Len(s.got)} # 1..e.W)
                THEN V("C06.EveryResultOnce", "results-collected") ELSE None)
          \o (IF unread
                THEN V("C06.EveryFileRead", IF s.early THEN "work-queue-polled-before-the-feeder-flushed" ELSE "file-never-taken")
              ELSE None)
          \o (IF unread \/ (e.mode = "real" /\ missing)
                THEN V("C06.SameSummary", IF e.mode = "real" THEN "real-processes:trees-missing-without-error"
                                          ELSE IF s.early THEN "trees-of-unread-files-missing" ELSE "file-never-taken")
              ELSE JudgeArray("parallel", e.par, e.parq, D, e.set, e.r, TRUE,
                              IF e.ser_raised = "" THEN [raised |-> e.serq.cons.raised, g |-> e.serq.cons.g,
                                                          lowraised |-> e.serq.conslow.raised, lowg |-> e.serq.conslow.g] ELSE NoRef))))

Judge(e) == CASE e.action = "ParRun" -> JudgeRun(e)

Init == l = 1 /\ bad = <<>>
Next == /\ l <= Len(Tr)
        /\ LET v == Judge(Tr[l]) IN
             bad' = bad \o [h \in 1..Len(v) |-> [i |-> l, clause |-> v[h].clause, class |-> v[h].class]]
        /\ l' = l + 1
Spec == Init /\ [][Next]_<<l, bad>>
Done == l = Len(Tr) + 1 => JsonSerialize(IOEnv.OUT_FILE, [n |-> Len(Tr), bad |-> bad])
Accepted == TLCGet("stats").diameter - 1 = Len(Tr)
=============================================================================
