SPECIFICATION Spec
CONSTANTS
  MaxFiles = 2
  MaxWorkers = 3
  FileSizes = {0, 1}
  ShippedUpdate = FALSE
  Protocol = "nowait"
  AsyncFeeder = FALSE
  Rootings <- RootingsAll
INVARIANT NoMergeFailure
INVARIANT SameSummary
INVARIANT EveryFileRead
INVARIANT EveryResultOnce
INVARIANT RootingKept
PROPERTY Termination
CHECK_DEADLOCK FALSE
