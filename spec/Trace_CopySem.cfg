SPECIFICATION Spec
CONSTANT DepthTable <- DocumentedDepthTable
INVARIANT Done
POSTCONDITION Accepted
CHECK_DEADLOCK FALSE
