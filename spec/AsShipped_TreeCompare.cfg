SPECIFICATION Spec
CONSTANTS
  Families = {"miss"}
  K = 3
  KU = 3
  MaxNU = 6
  KM = 3
  MissVals <- MissValsQuick
  Full = FALSE
  MissFull = FALSE
  TripleRootings = {1}
  AsShipped = TRUE
INVARIANT WF
INVARIANT PairAxioms
INVARIANT DefinedSymmetric
INVARIANT MagnitudeOk
INVARIANT FirstCallExact
INVARIANT RedrawInv
INVARIANT TripleInv
CHECK_DEADLOCK FALSE
