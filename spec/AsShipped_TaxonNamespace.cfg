SPECIFICATION Spec
CONSTANTS
  Labels = {"a", "A", "b"}
  MaxTaxa = 3
  MaxOps = 5
  AsShipped = TRUE
INVARIANT WellFormed
INVARIANT RoundTrip
INVARIANT RenderExact
INVARIANT LookupExact
INVARIANT CopyKeepsBits
PROPERTY Stable
PROPERTY RequireExact
PROPERTY ImmutableNeverGrows
CHECK_DEADLOCK FALSE
