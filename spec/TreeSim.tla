------------------------------ MODULE TreeSim ------------------------------
(***************************************************************************)
(* C18 - simulated trees meet their specification for every seed and are   *)
(* reproducible.                                                           *)
(*                                                                         *)
(* A simulator is a deterministic transducer from a DECISION SEQUENCE to a *)
(* tree; the random generator is the environment.  A decision is a record  *)
(*     [k, x, y, p]                                                        *)
(*   k = "W"  waiting time x (integer units)          rng.expovariate      *)
(*   k = "B"  birth on the x-th current lineage       weighted_choice /    *)
(*   k = "D"  death of the x-th current lineage        randint+random /    *)
(*                                                     choice              *)
(*   k = "C"  coalesce the x-th and y-th lineage      rng.sample(nodes, 2) *)
(*   k = "T"  taxa to leaves, p a permutation         rng.shuffle          *)
(* Everything else (Stop by the tip-count rule, PruneExtinct, Restart      *)
(* after total extinction, leaving a species-tree edge, Finish) is an      *)
(* AUTOMATIC step: no decision is consumed.                                *)
(*                                                                         *)
(* sims: "bd"   birth_death_tree       (lineage list: remove, append both) *)
(*       "fast" fast_birth_death_tree  (lineage list: replace, append one) *)
(*       "upb"  uniform_pure_birth_tree (lineage list = leaves in preorder)*)
(*       "king" pure_kingman_tree / coalesce_nodes without period          *)
(*       "cc"   contained_coalescent_tree / constrained_kingman_tree:      *)
(*              coalesce_nodes per species-tree edge in postorder          *)
(* The state is one record shape for all sims (unused fields neutral).     *)
(* Edge lengths are integers (scaled); the lengths of real seeded runs are *)
(* fixed-point integers with a tolerance handed to the clause operators.   *)
(***************************************************************************)
EXTENDS TreeBase

NoG == [n |-> 0]
DropAt(q, i) == SubSeq(q, 1, i - 1) \o SubSeq(q, i + 1, Len(q))
DropVal(q, v) == SelectSeq(q, LAMBDA z : z # v)
IsPermutation(p, n) == Len(p) = n /\ SeqToSet(p) = 1..n
Ident(n) == [i \in 1..n |-> i]
GraphOf(n, seed, kids, par, len, tx) ==
    [n |-> n, seed |-> seed, kids |-> kids, par |-> par, eh |-> Ident(n), eid |-> Ident(n),
     tx |-> tx, len |-> len, lab |-> [x \in 1..n |-> ""], rooted |-> 1]

\* ================================================================ property clauses (graph form)
\* distance from the root with the raw logged lengths (the root's own edge does not count)
RECURSIVE RD(_, _)
RD(g, x) == IF g.par[x] = 0 THEN 0 ELSE g.len[x] + RD(g, g.par[x])
LeafDists(g) == {RD(g, x) : x \in Leaves(g)}
Equidistant(g, tol) == Max(LeafDists(g)) - Min(LeafDists(g)) <= tol
AllBifurcating(g) == \A x \in Nodes(g) : Len(g.kids[x]) \in {0, 2}
LeafTaxaDistinct(g) == /\ \A x \in Leaves(g) : g.tx[x] # 0
                       /\ \A x, y \in Leaves(g) : x # y => g.tx[x] # g.tx[y]
OneLeafPerTaxon(g, ntaxa) == /\ \A x \in Leaves(g) : g.tx[x] \in 1..ntaxa
                             /\ \A t \in 1..ntaxa : Cardinality({x \in Leaves(g) : g.tx[x] = t}) = 1
If(c, name) == IF c THEN <<>> ELSE <<name>>

\* birth-death / pure birth grown to N extant tips (extinct tips pruned)
BDFails(g, N, tol) ==
    IF WFClause(g) # "ok" THEN <<"C18.WellFormed">>
    ELSE If(Cardinality(Leaves(g)) = N, "C18.ExactlyNExtantLeaves")
      \o If(LeafTaxaDistinct(g), "C18.DistinctTaxa")
      \o If(AllBifurcating(g), "C18.Bifurcating")
      \o If(Equidistant(g, tol), "C18.ExtantTipsEquidistant")
\* Kingman coalescent over ntaxa taxa
KingFails(g, ntaxa, tol) ==
    IF WFClause(g) # "ok" THEN <<"C18.WellFormed">>
    ELSE If(OneLeafPerTaxon(g, ntaxa), "C18.KingmanOneLeafPerTaxon")
      \o If(AllBifurcating(g), "C18.KingmanBifurcating")
      \o If(Equidistant(g, tol), "C18.KingmanUltrametric")
\* gene tree g inside species tree sp; gsp[gene tree node] = species taxon code of a gene leaf (0 elsewhere)
JoinAge(g, x, y) == LET m == MRCA2(g, x, y) IN Min({RD(g, x) - RD(g, m), RD(g, y) - RD(g, m)})
SpLeaf(sp, t) == CHOOSE x \in Leaves(sp) : sp.tx[x] = t
DivAge(sp, s, t) == LET a == SpLeaf(sp, s)  b == SpLeaf(sp, t)  m == MRCA2(sp, a, b)
                    IN Max({RD(sp, a) - RD(sp, m), RD(sp, b) - RD(sp, m)})
GenesMapped(g, sp, gsp) == Len(gsp) = g.n /\ \A x \in Leaves(g) : \E y \in Leaves(sp) : sp.tx[y] = gsp[x] /\ gsp[x] # 0
RespectsDivergence(g, sp, gsp, tol) ==
    \A x, y \in Leaves(g) : (x < y /\ gsp[x] # gsp[y]) => JoinAge(g, x, y) + tol >= DivAge(sp, gsp[x], gsp[y])
CCFails(g, sp, gsp, tol) ==
    IF WFClause(g) # "ok" \/ WFClause(sp) # "ok" THEN <<"C18.WellFormed">>
    ELSE IF ~GenesMapped(g, sp, gsp) THEN <<"C18.GeneLeavesMapped">>
    ELSE If(RespectsDivergence(g, sp, gsp, tol), "C18.CoalescenceRespectsDivergence")

\* ================================================================ the transducers
Dc(k, x, y, p) == [k |-> k, x |-> x, y |-> y, p |-> p]
\* case: [sim, N, start ("single" | "cherry"), sp (species graph or NoG), gm (gene -> species code), ...]:
\* the CURRENT state of the arguments; what an earlier call saw is no input of the transducer
Blank(c) == [sim |-> c.sim, N |-> c.N, start |-> c.start, ph |-> "grow", n |-> 0, par |-> <<>>, len |-> <<>>,
             kids |-> <<>>, tx |-> <<>>, act |-> <<>>, dead |-> {}, restarts |-> 0, seed |-> 0,
             sp |-> c.sp, gmap |-> <<>>, pools |-> <<>>, po |-> <<>>, ei |-> 0, rem |-> 0, gd |-> 0, out |-> NoG]

BDStart(c) ==
    IF c.start = "cherry"      \* a supplied tree (A:1,B:1) whose two tips are extant
    THEN [Blank(c) EXCEPT !.n = 3, !.par = <<0, 1, 1>>, !.len = <<0, 1, 1>>, !.kids = << <<2, 3>>, <<>>, <<>> >>,
                          !.tx = <<0, 0, 0>>, !.act = <<2, 3>>, !.seed = 1]
    ELSE [Blank(c) EXCEPT !.n = 1, !.par = <<0>>, !.len = <<0>>, !.kids = << <<>> >>, !.tx = <<0>>, !.act = <<1>>, !.seed = 1]
KingStart(c) ==
    [Blank(c) EXCEPT !.n = c.N, !.par = [i \in 1..c.N |-> 0], !.len = [i \in 1..c.N |-> 0],
                     !.kids = [i \in 1..c.N |-> <<>>], !.tx = Ident(c.N), !.act = Ident(c.N)]
\* contained coalescent: c.gm[gene] = species taxon code, the CURRENT assignment held by the mapping argument
\* (gene taxon code = gene node id); GMapOf(G): genes numbered consecutively in species-code order
GMapOf(G) == Flatten([t \in 1..Len(G) |-> [j \in 1..G[t] |-> t]])
GenesOf(gm, t) == SelectSeq(Ident(Len(gm)), LAMBDA i : gm[i] = t)
CCStart(c) ==
    LET sp == c.sp  ng == Len(c.gm)  po == Post(sp, sp.seed) IN
    [Blank(c) EXCEPT !.n = ng, !.par = [i \in 1..ng |-> 0], !.len = [i \in 1..ng |-> 0], !.kids = [i \in 1..ng |-> <<>>],
                     !.tx = Ident(ng), !.gmap = c.gm, !.po = po, !.ei = 1,
                     !.rem = sp.len[po[1]],
                     !.pools = [x \in 1..sp.n |-> IF IsLeaf(sp, x) THEN GenesOf(c.gm, sp.tx[x]) ELSE <<>>]]
InitOf(c) == CASE c.sim \in {"bd", "fast", "upb"} -> BDStart(c)
               [] c.sim = "king" -> KingStart(c)
               [] c.sim = "cc" -> CCStart(c)

\* current lineage list
CurNode(s) == s.po[s.ei]
Cur(s) == IF s.sim = "cc" THEN s.pools[CurNode(s)] ELSE s.act
AtRootEdge(s) == s.sp.par[CurNode(s)] = 0
AddLen(s, q, dt) == [x \in 1..s.n |-> IF x \in SeqToSet(q) THEN s.len[x] + dt ELSE s.len[x]]

\* ---------------------------------------------------------------- pruning (birth-death)
\* nodes with an extant descendant; unifurcations suppressed with their lengths added to the child
KeepSet(s) == {x \in 1..s.n : \E e \in SeqToSet(s.act) : x \in SeqToSet(<<e>> \o AncSeq(s, e))}
RECURSIVE PruneSeq(_, _, _, _, _)
PruneSeq(s, K, x, up, acc) ==
    LET kk == SelectSeq(s.kids[x], LAMBDA c : c \in K) IN
    IF Len(kk) = 1 THEN PruneSeq(s, K, kk[1], up, acc + s.len[x])
    ELSE <<[o |-> x, p |-> up, l |-> acc + s.len[x]]>> \o Flatten([i \in 1..Len(kk) |-> PruneSeq(s, K, kk[i], x, 0)])
PrunedGraph(s) ==
    LET q == PruneSeq(s, KeepSet(s), s.seed, 0, 0)
        m == Len(q)
        idOf(o) == CHOOSE i \in 1..m : q[i].o = o
        RECURSIVE Asc(_)
        Asc(S) == IF S = {} THEN <<>> ELSE <<Min(S)>> \o Asc(S \ {Min(S)})
    IN GraphOf(m, 1, [i \in 1..m |-> Asc({j \in 1..m : q[j].p = q[i].o})],
               [i \in 1..m |-> IF q[i].p = 0 THEN 0 ELSE idOf(q[i].p)], [i \in 1..m |-> q[i].l], [i \in 1..m |-> 0])
WholeGraph(s, seed) == GraphOf(s.n, seed, s.kids, s.par, s.len, s.tx)
\* leaves in preorder; the i-th shuffled leaf gets taxon code i: tx[leaf p[i]] = i
WithTaxa(g, p) == LET ls == LeafSeq(g, g.seed) IN
    [g EXCEPT !.tx = [x \in 1..g.n |-> IF \E i \in 1..Len(ls) : ls[p[i]] = x THEN CHOOSE i \in 1..Len(ls) : ls[p[i]] = x ELSE 0]]

\* ---------------------------------------------------------------- automatic steps
\* StopGT: the (wrong) stop rule "more than N"; AsShipped: restart keeps the edge lengths grown so far
AutoKind(s, StopGT) ==
    CASE s.sim \in {"bd", "fast"} /\ s.ph = "grow" /\ (IF StopGT THEN Len(s.act) > s.N ELSE Len(s.act) >= s.N) -> "Stop"
      [] s.sim \in {"bd", "fast"} /\ s.ph = "stopped" -> "PruneExtinct"
      [] s.sim \in {"bd", "fast"} /\ s.ph = "extinct" -> "RestartAfterExtinction"
      [] s.sim = "king" /\ s.ph = "grow" /\ Len(s.act) = 1 -> "Finish"
      [] s.sim = "cc" /\ s.ph = "grow" /\ AtRootEdge(s) /\ Len(Cur(s)) = 1 -> "Finish"
      [] s.sim = "cc" /\ s.ph = "grow" /\ ~AtRootEdge(s) /\ Len(Cur(s)) <= 1 -> "LeaveEdge"
      [] s.sim = "cc" /\ s.ph = "leave" -> "LeaveEdge"
      [] OTHER -> "none"
\* leaving a species edge: uncoalesced lineages are stretched to the end of the edge and handed to the parent
CCLeave(s) ==
    LET x == CurNode(s)  q == s.pools[x]  up == s.sp.par[x]  nx == s.po[s.ei + 1] IN
    [s EXCEPT !.len = AddLen(s, q, s.rem), !.pools = [@ EXCEPT ![up] = @ \o q, ![x] = <<>>],
              !.ei = s.ei + 1, !.rem = s.sp.len[nx], !.ph = "grow"]
AutoStep(s, StopGT, AsShipped) ==
    LET k == AutoKind(s, StopGT) IN
    CASE k = "Stop" -> [s EXCEPT !.ph = "stopped"]
      [] k = "PruneExtinct" -> [s EXCEPT !.ph = "pruned", !.out = PrunedGraph(s)]
      [] k = "RestartAfterExtinction" ->
           LET i == BDStart(s) IN
           [i EXCEPT !.restarts = s.restarts + 1, !.gd = s.gd,
                     !.len = IF AsShipped /\ s.sim = "bd" THEN [x \in 1..i.n |-> s.len[x]] ELSE i.len]
      [] k = "Finish" -> [s EXCEPT !.ph = "done", !.seed = Cur(s)[1], !.out = WholeGraph(s, Cur(s)[1])]
      [] k = "LeaveEdge" -> CCLeave(s)
      [] OTHER -> s
RECURSIVE Auto(_, _, _)
Auto(s, StopGT, AsShipped) == IF AutoKind(s, StopGT) = "none" THEN s ELSE Auto(AutoStep(s, StopGT, AsShipped), StopGT, AsShipped)

\* ---------------------------------------------------------------- decisions
Accepts(s, d) ==
    CASE d.k = "W" -> s.ph = "grow" /\ d.x >= 0
      [] d.k = "B" -> s.ph = "choose" /\ s.sim \in {"bd", "fast", "upb"} /\ d.x \in 1..Len(s.act)
      [] d.k = "D" -> s.ph = "choose" /\ s.sim \in {"bd", "fast"} /\ d.x \in 1..Len(s.act)
      [] d.k = "C" -> s.ph = "choose" /\ s.sim \in {"king", "cc"} /\ d.x \in 1..Len(Cur(s)) /\ d.y \in 1..Len(Cur(s)) /\ d.x # d.y
      [] d.k = "T" -> s.ph = "pruned" /\ IsPermutation(d.p, Cardinality(Leaves(s.out)))
      [] OTHER -> FALSE

DoWait(s, dt) ==
    CASE s.sim \in {"bd", "fast"} -> [s EXCEPT !.len = AddLen(s, s.act, dt), !.ph = "choose"]
      [] s.sim = "upb" ->
           IF Len(s.act) < s.N THEN [s EXCEPT !.len = AddLen(s, s.act, dt), !.ph = "choose"]
           ELSE LET t == [s EXCEPT !.len = AddLen(s, s.act, dt),      \* the final wait; taxa in leaf order
                                   !.tx = [x \in 1..s.n |-> IF \E i \in 1..Len(s.act) : s.act[i] = x
                                                            THEN CHOOSE i \in 1..Len(s.act) : s.act[i] = x ELSE 0]]
                IN [t EXCEPT !.ph = "done", !.out = WholeGraph(t, t.seed)]
      [] s.sim = "king" -> [s EXCEPT !.len = AddLen(s, s.act, dt), !.ph = "choose"]
      [] s.sim = "cc" ->
           IF AtRootEdge(s) THEN [s EXCEPT !.len = AddLen(s, Cur(s), dt), !.ph = "choose"]
           ELSE IF dt <= s.rem THEN [s EXCEPT !.len = AddLen(s, Cur(s), dt), !.rem = s.rem - dt, !.ph = "choose"]
           ELSE [s EXCEPT !.ph = "leave"]        \* the next coalescence would fall beyond the edge
DoBirth(s, l) ==
    LET nd == s.act[l]  c1 == s.n + 1  c2 == s.n + 2 IN
    [s EXCEPT !.n = s.n + 2, !.par = s.par \o <<nd, nd>>, !.len = s.len \o <<0, 0>>, !.tx = s.tx \o <<0, 0>>,
              !.kids = [Append(Append(s.kids, <<>>), <<>>) EXCEPT ![nd] = <<c1, c2>>],
              !.act = CASE s.sim = "bd" -> DropAt(s.act, l) \o <<c1, c2>>
                        [] s.sim = "fast" -> Append([s.act EXCEPT ![l] = c1], c2)
                        [] OTHER -> SubSeq(s.act, 1, l - 1) \o <<c1, c2>> \o SubSeq(s.act, l + 1, Len(s.act)),
              !.ph = "grow"]
DoDeath(s, l) ==
    LET rest == DropAt(s.act, l) IN
    IF rest = <<>> THEN [s EXCEPT !.act = rest, !.ph = "extinct"]
    ELSE [s EXCEPT !.act = rest, !.dead = @ \cup {s.act[l]}, !.ph = "grow"]
DoCoalesce(s, i, j) ==
    LET q == Cur(s)  u == q[i]  v == q[j]  m == s.n + 1
        q2 == Append(DropVal(DropVal(q, u), v), m) IN
    [s EXCEPT !.n = m, !.par = Append([s.par EXCEPT ![u] = m, ![v] = m], 0), !.len = Append(s.len, 0),
              !.tx = Append(s.tx, 0), !.kids = Append(s.kids, <<u, v>>),
              !.act = IF s.sim = "cc" THEN s.act ELSE q2,
              !.pools = IF s.sim = "cc" THEN [s.pools EXCEPT ![CurNode(s)] = q2] ELSE s.pools,
              !.ph = "grow"]
DoTaxa(s, p) == [s EXCEPT !.ph = "done", !.out = WithTaxa(s.out, p)]
Apply(s, d) ==
    CASE d.k = "W" -> DoWait(s, d.x)
      [] d.k = "B" -> DoBirth(s, d.x)
      [] d.k = "D" -> DoDeath(s, d.x)
      [] d.k = "C" -> DoCoalesce(s, d.x, d.y)
      [] d.k = "T" -> DoTaxa(s, d.p)

\* the output as a function of (case, decision sequence); ph = "desync" when a decision does not fit
RECURSIVE FoldFrom(_, _, _)
FoldFrom(s, decs, i) ==
    LET s1 == Auto(s, FALSE, FALSE) IN
    IF i > Len(decs) THEN s1
    ELSE IF ~Accepts(s1, decs[i]) THEN [s1 EXCEPT !.ph = "desync"]
    ELSE FoldFrom(Apply(s1, decs[i]), decs, i + 1)
RunSim(c, decs) == FoldFrom(InitOf(c), decs, 1)

\* canonical value of a tree with lengths, child order forgotten (the root's own edge and taxa left on
\* internal nodes - a supplied tip that speciated keeps its old taxon - are not compared)
RECURSIVE CanonL(_, _)
CanonL(g, x) == [t |-> IF IsLeaf(g, x) THEN g.tx[x] ELSE 0, l |-> IF g.par[x] = 0 THEN 0 ELSE g.len[x],
                 k |-> {CanonL(g, c) : c \in KidSet(g, x)}]
SameTree(g, h) == g.n = h.n /\ CanonL(g, g.seed) = CanonL(h, h.seed)

\* final clauses of a finished model state; gm = the gene -> species assignment the mapping argument holds NOW
\* and sp the species tree argument as it is NOW
FinalFails(s, gm, sp) ==
    CASE s.sim \in {"bd", "fast", "upb"} -> BDFails(s.out, s.N, 0)
      [] s.sim = "king" -> KingFails(s.out, s.N, 0)
      [] s.sim = "cc" -> CCFails(s.out, sp, [x \in 1..s.out.n |-> IF x <= Len(gm) THEN gm[x] ELSE 0], 0)
                         \o KingFails(s.out, Len(gm), 0)
=============================================================================
