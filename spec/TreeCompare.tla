----------------------------- MODULE TreeCompare -----------------------------
(* C04 - tree-to-tree distances equal their split-set definitions and are   *)
(* true metrics.                                                             *)
(*                                                                           *)
(* Everything is defined on the graph form of TreeBase (the CURRENT raw      *)
(* structure of a tree), never on cached bipartition data:                   *)
(*   S(g)          split set (rooted: clades; unrooted: normalised splits)   *)
(*   SplitLen(g,s) length carried by split s = sum of the lengths of all     *)
(*                 edges that induce s (a chain of unifurcations, or the two *)
(*                 edges below an unrooted bifurcating seed, are ONE edge of *)
(*                 the tree); an absent split, a missing length and the root *)
(*                 edge's undefined length count 0                           *)
(*   RF, FalsePos, FalseNeg, MissingSplits, WRF (L1), Euclid2 (L2 squared)   *)
(* Lengths are integers (real length * LScale), so WRF is in units of        *)
(* 1/LScale and Euclid2 in units of 1/LScale^2; all arithmetic is exact.     *)
(* Defined(a,b) - whether the weighted distances are defined - is symmetric  *)
(* by construction; DefinedShipped is the rule of the shipped code (F04).    *)
(*****************************************************************************)
EXTENDS TreeBase

LScale == 4
Abs(x) == IF x < 0 THEN -x ELSE x

\* ------------------------------------------------------------ encodings
\* {<<node, split of the node's edge>>}: a set constructor, which TLC evaluates once (eagerly)
NodeSplits(g) == LET all == TreeTx(g)
                     lo == IF all = {} THEN 0 ELSE Min(all)
                     sp(m) == IF IsRooted(g) \/ lo \notin m THEN m ELSE all \ m
                 IN {<<x, sp(LeafTx(g, x))>> : x \in Nodes(g)}
S(g) == {p[2] : p \in NodeSplits(g)}
EdgesOn(g, s) == {p[1] : p \in {q \in NodeSplits(g) : q[2] = s}}
SumOfLens(g, E) == SumFn(E, [x \in E |-> L0(g, x)])
SplitLen(g, s) == SumOfLens(g, EdgesOn(g, s))
\* the encoding of a tree: split |-> length, built as an explicit function value
RECURSIVE EncFold(_, _, _)
EncFold(g, ns, acc) == IF ns = {} THEN acc
                       ELSE LET p == CHOOSE p \in ns : TRUE IN
                            EncFold(g, ns \ {p}, IF p[2] \in DOMAIN acc THEN [acc EXCEPT ![p[2]] = @ + L0(g, p[1])]
                                                 ELSE acc @@ (p[2] :> L0(g, p[1])))
Enc(g) == EncFold(g, NodeSplits(g), <<>>)
LenIn(e, s) == IF s \in DOMAIN e THEN e[s] ELSE 0

\* ------------------------------------------------------------ definitions on split sets
RFs(A, B) == Cardinality(A \ B) + Cardinality(B \ A)
FPs(ref, cmp) == Cardinality(cmp \ ref)          \* in the comparison tree, not in the reference
FNs(ref, cmp) == Cardinality(ref \ cmp)          \* in the reference, not in the comparison tree
MissS(ref, cmp) == ref \ cmp
\* ... and on encodings
WRFe(e1, e2) == LET U == DOMAIN e1 \cup DOMAIN e2 IN SumFn(U, [s \in U |-> Abs(LenIn(e1, s) - LenIn(e2, s))])
Euclid2e(e1, e2) == LET U == DOMAIN e1 \cup DOMAIN e2
                    IN SumFn(U, [s \in U |-> (LenIn(e1, s) - LenIn(e2, s)) * (LenIn(e1, s) - LenIn(e2, s))])

\* ------------------------------------------------------------ definitions on trees (current structure)
RF(a, b) == RFs(S(a), S(b))
FalsePos(ref, cmp) == FPs(S(ref), S(cmp))
FalseNeg(ref, cmp) == FNs(S(ref), S(cmp))
MissingSplits(ref, cmp) == MissS(S(ref), S(cmp))
WRF(a, b) == WRFe(Enc(a), Enc(b))
Euclid2(a, b) == Euclid2e(Enc(a), Enc(b))

\* ------------------------------------------------------------ magnitude of the lengths
\* (a) scale: all lengths multiplied by k: the distances scale by k (k * k for the squared Euclidean distance)
Scaled(g, k) == [g EXCEPT !.len = [x \in 1..g.n |-> IF g.len[x] < 0 THEN -1 ELSE k * g.len[x]]]
\* (b) large lengths with small differences: length[x] = g.hi[x] * Base + g.len[x] units, Base symbolic and larger
\* than every sum of the small parts that occurs.  Values are pairs <<multiple of Base, small part>>.
HiGraph(g) == [g EXCEPT !.len = [x \in 1..g.n |-> IF g.len[x] < 0 THEN -1 ELSE g.hi[x]]]
AbsPair(dh, dl) == IF dh > 0 \/ (dh = 0 /\ dl >= 0) THEN <<dh, dl>> ELSE <<-dh, -dl>>
WRFBig(h1, l1, h2, l2) ==          \* h: split |-> multiples of Base, l: split |-> small part (same domains)
    LET U == DOMAIN l1 \cup DOMAIN l2
        f == [s \in U |-> AbsPair(LenIn(h1, s) - LenIn(h2, s), LenIn(l1, s) - LenIn(l2, s))]
    IN <<SumFn(U, [s \in U |-> f[s][1]]), SumFn(U, [s \in U |-> f[s][2]])>>
SameHi(h1, h2) == \A s \in DOMAIN h1 \cup DOMAIN h2 : LenIn(h1, s) = LenIn(h2, s)
\* the same tree with a concrete base
Concrete(g, base) == [g EXCEPT !.len = [x \in 1..g.n |-> IF g.len[x] < 0 THEN -1 ELSE g.hi[x] * base + g.len[x]]]

\* ------------------------------------------------------------ definedness of the weighted distances
MissingLen(g) == {x \in Nodes(g) \ {g.seed} : g.len[x] < 0}
HasAllLengths(g) == MissingLen(g) = {}
Defined(a, b) == HasAllLengths(a) /\ HasAllLengths(b)
\* shipped rule: a missing length is counted 0 in the first tree and on splits only the second tree has;
\* the call is refused iff a split of BOTH trees lies on a non-root edge of the SECOND tree without length
DefinedShipped(a, b) == ~\E x \in MissingLen(b) : SplitOf(b, x) \in S(a)

\* a tree whose edges are in 1-1 correspondence with its splits (nothing to merge)
Plain(g) == /\ \A x \in Internals(g) : Len(g.kids[x]) >= 2
            /\ (IsRooted(g) \/ Len(g.kids[g.seed]) # 2)
\* the only place where "the length of a split" is not determined by the statement: an unrooted tree
\* with a bifurcating seed whose two seed edges (one edge of the unrooted tree) are not both present
BasalLengthAmbiguous(g) == /\ ~IsRooted(g) /\ Len(g.kids[g.seed]) = 2
                           /\ \E c \in KidSet(g, g.seed) : g.len[c] < 0
                           /\ \E c \in KidSet(g, g.seed) : g.len[c] >= 0

\* an unrooted tree whose basal bifurcation is hidden by unifurcations: the seed is a unifurcation (chain)
\* above a bifurcation, or the seed is a bifurcation neither of whose children branches directly (leaf or
\* unifurcation) although one of them is internal.  Once the unifurcations are suppressed the bifurcation is
\* basal: its two edges are ONE edge of the unrooted tree.
RECURSIVE FirstBranch(_, _)
FirstBranch(g, x) == IF Len(g.kids[x]) = 1 THEN FirstBranch(g, g.kids[x][1]) ELSE x
LateBasal(g) == /\ ~IsRooted(g)
                /\ LET b == FirstBranch(g, g.seed) IN
                   /\ Len(g.kids[b]) = 2
                   /\ \/ b # g.seed
                      \/ /\ \A c \in KidSet(g, b) : Len(g.kids[c]) < 2
                         /\ \E c \in KidSet(g, b) : ~IsLeaf(g, c)

\* what the FIRST encoding of such a tree yields as shipped (second open finding of C04): the basal bifurcation
\* is looked for before the unifurcations are suppressed, so both seed edges keep the same split and the
\* edge map retains only the later one: the length of the first child's chain is lost
RECURSIVE ChainLen(_, _)
ChainLen(g, x) == L0(g, x) + (IF Len(g.kids[x]) = 1 THEN ChainLen(g, g.kids[x][1]) ELSE 0)
EncShipped(g) == IF ~LateBasal(g) THEN Enc(g)
                 ELSE LET k1 == g.kids[FirstBranch(g, g.seed)][1]
                          s == (CHOOSE p \in NodeSplits(g) : p[1] = k1)[2]
                      IN [Enc(g) EXCEPT ![s] = @ - ChainLen(g, k1)]

\* ------------------------------------------------------------ re-drawings of one tree
SwapAt(q, i) == [k \in 1..Len(q) |-> IF k = i THEN q[i + 1] ELSE IF k = i + 1 THEN q[i] ELSE q[k]]
SwapKids(g, x, i) == [g EXCEPT !.kids[x] = SwapAt(@, i)]
\* the same unrooted tree hung from the internal node r: pointers on the path r .. seed are reversed,
\* each edge keeps its length
Reseed(g, r) ==
    LET path == AncOrSelf(g, r)
        on == SeqToSet(path)
        idx(x) == CHOOSE i \in 1..Len(path) : path[i] = x
        below(x) == path[idx(x) - 1]
        Without(q, y) == SelectSeq(q, LAMBDA z : z # y)
    IN [g EXCEPT
          !.seed = r,
          !.par = [x \in 1..g.n |-> IF x = r THEN 0 ELSE IF x \in on THEN below(x) ELSE g.par[x]],
          !.kids = [x \in 1..g.n |-> IF x \notin on THEN g.kids[x]
                                     ELSE (IF x = r THEN g.kids[x] ELSE Without(g.kids[x], below(x)))
                                          \o (IF g.par[x] = 0 THEN <<>> ELSE <<g.par[x]>>)],
          !.len = [x \in 1..g.n |-> IF x = r THEN g.len[g.seed] ELSE IF x \in on THEN g.len[below(x)] ELSE g.len[x]]]
RedrawsOf(g) ==
    {SwapKids(g, xi[1], xi[2]) : xi \in {p \in Internals(g) \X (1..g.n) : p[2] < Len(g.kids[p[1]])}}
    \cup (IF IsRooted(g) THEN {} ELSE {Reseed(g, r) : r \in Internals(g) \ {g.seed}})

\* ------------------------------------------------------------ edits that change the rooting state or the leaf set
SetRootedOp(g, r) == [g EXCEPT !.rooted = r]
\* the leaf x removed, node ids above x shifted down (its parent may become a unifurcation)
RemoveLeaf(g, x) ==
    LET old(i) == IF i >= x THEN i + 1 ELSE i
        new(y) == IF y > x THEN y - 1 ELSE y
        n1 == g.n - 1
    IN [n |-> n1, seed |-> new(g.seed),
        kids |-> [i \in 1..n1 |-> LET q == SelectSeq(g.kids[old(i)], LAMBDA z : z # x) IN [k \in 1..Len(q) |-> new(q[k])]],
        par |-> [i \in 1..n1 |-> IF g.par[old(i)] = 0 THEN 0 ELSE new(g.par[old(i)])],
        eh |-> [i \in 1..n1 |-> i], eid |-> [i \in 1..n1 |-> i],
        tx |-> [i \in 1..n1 |-> g.tx[old(i)]], len |-> [i \in 1..n1 |-> g.len[old(i)]],
        lab |-> [i \in 1..n1 |-> g.lab[old(i)]], rooted |-> g.rooted]

\* ------------------------------------------------------------ metric axioms (stated on the definitions)
\* triangle inequality for the Euclidean distance from the exact squares A = d12^2, B = d23^2, C = d13^2:
\* sqrt(C) <= sqrt(A) + sqrt(B)  <=>  C - A - B <= 0  \/  (C - A - B)^2 <= 4AB
SqrtTriangle(A, B, C) == (C - A - B <= 0) \/ ((C - A - B) * (C - A - B) <= 4 * A * B)

NonZero(e) == [s \in {u \in DOMAIN e : e[u] # 0} |-> e[s]]
\* all distances of an ordered pair of encodings, computed once
Dists(e1, e2) == LET s1 == DOMAIN e1  s2 == DOMAIN e2 IN
                 [rf |-> RFs(s1, s2), fp |-> FPs(s1, s2), fn |-> FNs(s1, s2), miss |-> MissS(s1, s2),
                  wrf |-> WRFe(e1, e2), euc |-> Euclid2e(e1, e2)]
PairOk(a, b) == LET ea == Enc(a)  eb == Enc(b)  d == Dists(ea, eb)  r == Dists(eb, ea)  z == Dists(ea, ea) IN
                \* the tree-level operators are the encoding-level ones
                /\ S(a) = DOMAIN ea /\ RF(a, b) = d.rf /\ WRF(a, b) = d.wrf /\ Euclid2(a, b) = d.euc
                /\ FalsePos(a, b) = d.fp /\ FalseNeg(a, b) = d.fn /\ MissingSplits(a, b) = d.miss
                \* symmetry
                /\ d.rf = r.rf /\ d.wrf = r.wrf /\ d.euc = r.euc /\ d.fp = r.fn /\ d.fn = r.fp
                /\ d.rf = d.fp + d.fn /\ Cardinality(d.miss) = d.fn
                \* identity
                /\ z.rf = 0 /\ z.wrf = 0 /\ z.euc = 0 /\ z.miss = {}
                /\ d.rf >= 0 /\ d.wrf >= 0 /\ d.euc >= 0
                \* Topology (TreeBase) is defined without reference to splits
                /\ (d.rf = 0) = (Topology(a) = Topology(b))
                \* with zero-length edges the weighted distances cannot see a split: identity up to those
                /\ (d.wrf = 0) = (NonZero(ea) = NonZero(eb))
                /\ (d.euc = 0) = (d.wrf = 0)
                /\ (ea = eb => d.rf = 0)
TripleOk(a, b, c) == LET ea == Enc(a)  eb == Enc(b)  ec == Enc(c)
                         ab == Dists(ea, eb)  bc == Dists(eb, ec)  ac == Dists(ea, ec) IN
                     /\ ac.rf <= ab.rf + bc.rf /\ ab.rf <= ac.rf + bc.rf /\ bc.rf <= ab.rf + ac.rf
                     /\ ac.wrf <= ab.wrf + bc.wrf /\ ab.wrf <= ac.wrf + bc.wrf /\ bc.wrf <= ab.wrf + ac.wrf
                     /\ SqrtTriangle(ab.euc, bc.euc, ac.euc) /\ SqrtTriangle(ac.euc, bc.euc, ab.euc) /\ SqrtTriangle(ab.euc, ac.euc, bc.euc)
RedrawOk(g, h) == LET eg == Enc(g)  eh == Enc(h)  d == Dists(eg, eh) IN
                  /\ eg = eh
                  /\ Topology(g) = Topology(h)
                  /\ d.rf = 0 /\ d.fp = 0 /\ d.fn = 0 /\ d.miss = {} /\ d.wrf = 0 /\ d.euc = 0
                  /\ HasAllLengths(g) = HasAllLengths(h)

\* ------------------------------------------------------------ cached encodings (staleness machine)
\* a cache is [has |-> BOOLEAN, s |-> set of splits]; NoCache before the first encoding
NoCache == [has |-> FALSE, s |-> {}]
CacheOf(g) == [has |-> TRUE, s |-> S(g)]
\* what a distance call does to a cache: re-encode unless the caller vouches for it (and it exists)
AfterCall(g, c, flag, reencode) == IF (~flag /\ reencode) \/ ~c.has THEN CacheOf(g) ELSE c
\* lengths are read live from the edges found through the cached splits
LiveEnc(g, c) == LET ns == NodeSplits(g) IN [s \in c.s |-> SumOfLens(g, {p[1] : p \in {q \in ns : q[2] = s}})]
SetKinds == {"rf", "fpn", "missing"}
WeightedKinds == {"wrf", "euc"}
Kinds == SetKinds \cup WeightedKinds
\* value of a distance of the given kind computed from two caches (and live lengths)
FromCaches(kind, g1, c1, g2, c2) ==
    CASE kind = "rf" -> <<RFs(c1.s, c2.s)>>
      [] kind = "fpn" -> <<FPs(c1.s, c2.s), FNs(c1.s, c2.s)>>
      [] kind = "missing" -> <<MissS(c1.s, c2.s)>>
      [] kind = "wrf" -> <<WRFe(LiveEnc(g1, c1), LiveEnc(g2, c2))>>
      [] kind = "euc" -> <<Euclid2e(LiveEnc(g1, c1), LiveEnc(g2, c2))>>
\* the definition on the current structure
OnCurrent(kind, g1, g2) == FromCaches(kind, g1, CacheOf(g1), g2, CacheOf(g2))
=============================================================================
