SPECIFICATION Spec
CONSTANTS
  Inputs <- SimInputs
  GenEdits <- MCGenEdits
  Shipped = {}
  TsrValues = {TRUE, FALSE}
  GenSteps = 2
  Quick = FALSE
  PumpK = 3
  MaxSpan = 8
INVARIANTS OutcomeDocumented DimsConsistent TokDepthBounded TreeDepthIsNesting
PROPERTY Termination
CHECK_DEADLOCK FALSE
