--------------------------- MODULE NexusReaderCtl ---------------------------
(***************************************************************************)
(* C20 - PlusCal transcription of the control skeleton of the NEXUS reader *)
(* (dendropy/dataio/nexusreader.py) over token sequences.                  *)
(*                                                                         *)
(* The token source returns the explicit token EOF forever after the last  *)
(* token (Tokenizer.next_token() returns None).  One label per loop head   *)
(* of the code:                                                            *)
(*   Main        _parse_nexus_stream           TaxaLoop   _parse_taxa_block *)
(*   SemiLoop    skip_to_semicolon             TaxLab     _parse_taxlabels_statement *)
(*   DimLoop     _parse_dimensions_statement   LinkLoop   _parse_link_statement *)
(*   CharLoop    _parse_characters_data_block  FmtLoop    _parse_format_statement *)
(*   SymLoop     (SYMBOLS list)                MatLoop    _process_*_matrix_data *)
(*   Row         _read_character_states        Multi      ( multistate token list ) *)
(*   TreesLoop   _parse_trees_block            TreeRun    newick _parse_tree_statement (NewickGrammar) *)
(*   TreeSemis   (trailing ';')                TransLoop  _parse_translate_statement *)
(*   SetsLoop    SETS block in _parse_nexus_stream        PosLoop   _parse_positions *)
(*   SkipLoop    _consume_to_end_of_block                                   *)
(* Each iteration is one step that looks ahead with TokN and consumes with *)
(* Eat(k) exactly the tokens the code consumes in that iteration.          *)
(*                                                                         *)
(* This is the INTENDED skeleton: every loop either consumes a token or    *)
(* leaves, the end of the stream inside a statement is the parse error     *)
(* UnexpectedEndOfStream (require_next_token), and a MATRIX statement ends *)
(* with a comparison of the rows and columns read with NCHAR and with the  *)
(* NTAX declared in the same block (if any).                               *)
(* `Shipped` switches individual sites back to what the shipped code does: *)
(*   "taxa_eof"      TAXA block loop: `while not END` with token = None     *)
(*   "link"          LINK statement: unknown word / None is never consumed  *)
(*   "positions"     CHARSET positions: unknown word is never consumed      *)
(*   "taxlabels_eof" TAXLABELS: None.lower()   -> AttributeError            *)
(*   "tree_eof"      TREE name = <EOF>: tree is None -> AttributeError      *)
(*   "empty"         empty source: None.upper()     -> AttributeError       *)
(*   "ntax_none"     TAXLABELS without DIMENSIONS: len() >= None -> TypeError *)
(*   "blockterm"     ';' inside a sequential row: BlockTerminatedException escapes *)
(*   "dims"          no final comparison of the matrix with NTAX / NCHAR    *)
(*   "tokrec"        Tokenizer.__next__ recurses once per comment-only token *)
(* Where the shipped code tolerates a missing END at the end of the stream *)
(* (CHARACTERS, TREES, SETS, unknown blocks) the skeleton does too: which  *)
(* malformed documents are rejected is not part of the property.           *)
(***************************************************************************)
EXTENDS NewickGrammar
CONSTANTS Inputs,      \* set of token sequences
          Shipped,     \* subset of the site switches above ({} = intended design)
          TsrValues,   \* values of the reader option terminating_semicolon_required to explore
          GenSteps,    \* simulation: number of random edits applied before reading
          GenEdits(_)  \* simulation: the edits of a token sequence

DType(t) == CASE t \in {"DNA", "NUCLEOTIDES"} -> "dna" [] t = "RNA" -> "rna" [] t = "PROTEIN" -> "protein"
              [] t = "CONTINUOUS" -> "continuous" [] OTHER -> "standard"
EndToks == {"END", "ENDBLOCK"}
NoRows == [l \in {} |-> 0]

(* --fair algorithm NexusReaderCtl
variables
  input \in Inputs,
  gen = GenSteps,
  pos = 1,             \* raw index of the first unread token
  tok = "",            \* current token
  cap = FALSE,         \* line breaks are captured (inside an interleaved row)
  tdepth = 0,          \* recursion depth of Tokenizer.__next__ for the last token
  outcome = "none",    \* none | Ok | ParseError | InternalError | OtherError
  ret = "",            \* return label of TITLE / LINK / DIMENSIONS
  sret = "",           \* return label of skip_to_semicolon
  ntax = 0, nchar = 0, \* declared dimensions (0 = none)
  bntax = 0,           \* NTAX declared by the DIMENSIONS statement of the current CHARACTERS / DATA block (0 = none)
  dtype = "standard", inter = FALSE,
  tsr \in TsrValues,   \* reader option terminating_semicolon_required (tree statements)
  title = "",          \* TITLE of the TAXA block being read
  link = "",           \* LINK TAXA = <title> of the block being read
  nss = NoRows,        \* title -> labels of the taxon namespace defined by that TAXA block
  taxa = {},           \* labels of the current taxon namespace
  rows = NoRows,       \* current matrix: label -> number of states read
  currow = "",
  mats = <<>>,         \* finished matrices
  ntrees = 0,
  nw = NwIdle;         \* tree statement machine (NewickGrammar)

define
  T(k) == TokN(input, pos, cap, k)
end define;

macro Eat(k) begin
  tok := TokN(input, pos, cap, k);
  tdepth := IF "tokrec" \in Shipped THEN CommentRun(input, pos) ELSE (IF CommentRun(input, pos) > 0 THEN 1 ELSE 0);
  pos := AfterN(input, pos, cap, k);
end macro;
macro Fail() begin outcome := "ParseError"; goto Finish; end macro;
macro Crash(site) begin
  if site \in Shipped then outcome := "InternalError" else outcome := "ParseError" end if;
  goto Finish;
end macro;

begin
Gen:      while gen > 0 do
            input := RandomElement(GenEdits(input));       \* simulation only (GenSteps = 0 when model checking)
            gen := gen - 1;
          end while;
Start:    Eat(1);
Hdr:      if tok = EOF then Crash("empty")
          elsif tok # "#NEXUS" then Fail()
          end if;
Main:     while tok # EOF do
            with t = T(1), b = T(2) do
              if t = "BEGIN" then
                Eat(2);
                if b = "TAXA" then goto TaxaBlock
                elsif b \in {"CHARACTERS", "DATA"} then goto CharBlock
                elsif b = "TREES" then goto TreesBlock
                elsif b \in {"SETS", "ASSUMPTIONS", "CODONS"} then goto SetsBlock
                elsif b = "BEGIN" then Fail()
                else goto SkipLoop
                end if
              else Eat(1)
              end if
            end with
          end while;
MainEnd:  goto Finish;

\* ---------------------------------------------------------------- skip_to_semicolon
Semi:     Eat(1);
SemiLoop: while tok # ";" /\ tok # EOF do Eat(1) end while;
SemiRet:  if sret = "TaxaLoop" then goto TaxaLoop
          elsif sret = "CharLoop" then goto CharLoop
          elsif sret = "TreesLoop" then goto TreesLoop
          elsif sret = "SetsLoop" then goto SetsLoop
          elsif sret = "SkipNext" then goto SkipNext
          else goto Main
          end if;
\* ---------------------------------------------------------------- return of TITLE / LINK / DIMENSIONS
Ret:      if ret = "TaxaLoop" then goto TaxaLoop
          elsif ret = "CharLoop" then goto CharLoop
          elsif ret = "TreesLoop" then goto TreesLoop
          else goto SetsLoop
          end if;
\* ---------------------------------------------------------------- unknown block: _consume_to_end_of_block
SkipLoop: while tok \notin EndToks /\ tok # EOF do
            sret := "SkipNext"; goto Semi;
SkipNext:   Eat(1);
          end while;
SkipEnd:  goto Main;

\* ---------------------------------------------------------------- TAXA block
TaxaBlock: taxa := {}; title := ""; sret := "TaxaLoop"; goto Semi;
TaxaLoop: while TRUE do
            with t = T(1) do
              if t = EOF then
                if "taxa_eof" \in Shipped then skip    \* token = None, `while not END`: never leaves
                else Fail() end if
              else
                Eat(1);
                if t \in EndToks then
                  nss := IF title = "" THEN nss ELSE (title :> taxa) @@ nss;
                  sret := "Main"; goto Semi
                elsif t = "TITLE" then ret := "TaxaLoop"; goto Title
                elsif t = "DIMENSIONS" then ret := "TaxaLoop"; goto Dims
                elsif t = "TAXLABELS" then goto TaxLabels
                end if
              end if
            end with
          end while;
TaxLabels: Eat(1);
TaxLab:   while tok # ";" do
            if tok = EOF then Crash("taxlabels_eof")
            elsif tok \notin taxa /\ ntax = 0 /\ "ntax_none" \in Shipped then outcome := "InternalError"; goto Finish
            elsif tok \notin taxa /\ ntax # 0 /\ Cardinality(taxa) >= ntax then Fail()     \* TooManyTaxaError
            else taxa := taxa \cup {tok}; Eat(1)
            end if
          end while;
TaxLabEnd: goto TaxaLoop;

\* ---------------------------------------------------------------- TITLE, LINK, DIMENSIONS
Title:    if T(1) # EOF /\ T(2) = ";" then
            if ret = "TaxaLoop" then title := T(1) end if;
            Eat(2); goto Ret
          else Fail() end if;
Link:     Eat(1);
LinkLoop: while tok # ";" do
            if tok = EOF then
              if "link" \in Shipped then skip else Fail() end if
            elsif tok \in {"TAXA", "CHARACTERS"} then
              if T(1) = "=" /\ T(2) # EOF then
                if tok = "TAXA" then link := T(2) end if;
                Eat(3)
              else Fail() end if
            else
              if "link" \in Shipped then skip else Eat(1) end if
            end if
          end while;
LinkEnd:  goto Ret;
Dims:     Eat(1);
DimLoop:  while tok # ";" do
            if tok = EOF \/ tok = "BEGIN" then Fail()
            elsif tok \in {"NTAX", "NCHAR"} then
              if T(1) = "=" /\ IsNum(T(2)) /\ T(3) # EOF then
                if tok = "NTAX" then
                  ntax := NumVal(T(2));
                  if ret = "CharLoop" then bntax := NumVal(T(2)) end if
                else nchar := NumVal(T(2)) end if;
                Eat(3)
              else Fail() end if
            elsif T(1) = EOF then Fail()
            else Eat(1)
            end if
          end while;
DimEnd:   goto Ret;

\* ---------------------------------------------------------------- CHARACTERS / DATA block
CharBlock: dtype := "standard"; bntax := 0; link := ""; sret := "CharLoop"; goto Semi;
CharLoop: while tok \notin EndToks do
            with t = T(1) do
              Eat(1);
              if t = EOF then goto Main
              elsif t = "TITLE" then ret := "CharLoop"; goto Title
              elsif t = "LINK" then ret := "CharLoop"; goto Link
              elsif t = "DIMENSIONS" then ret := "CharLoop"; goto Dims
              elsif t = "FORMAT" then goto Format
              elsif t = "MATRIX" then goto Matrix
              elsif t = "BEGIN" then Fail()
              end if
            end with
          end while;
CharEnd:  sret := "Main"; goto Semi;
Format:   Eat(1);
FmtLoop:  while tok # ";" do
            if tok = EOF \/ tok = "BEGIN" then Fail()
            elsif tok = "DATATYPE" then
              if T(1) = "=" /\ T(2) # EOF /\ T(3) # EOF then dtype := DType(T(2)); Eat(3) else Fail() end if
            elsif tok = "INTERLEAVE" then
              if T(1) = "=" then
                if T(2) # EOF /\ T(3) # EOF then inter := (T(2) \notin {"NO", "N"}); Eat(3) else Fail() end if
              elsif T(1) = EOF then Fail()
              else inter := TRUE; Eat(1)
              end if
            elsif tok = "SYMBOLS" then
              if T(1) = "=" /\ T(2) = "\"" /\ T(3) # EOF then Eat(3); goto SymLoop else Fail() end if
            elsif tok \in {"GAP", "MISSING", "MATCHCHAR"} then
              if T(1) = "=" /\ T(2) # EOF /\ T(3) # EOF then Eat(3) else Fail() end if
            elsif T(1) = EOF then Fail()
            else Eat(1)
            end if
          end while;
FmtEnd:   goto CharLoop;
SymLoop:  while tok # "\"" do
            if tok = EOF then Fail() else Eat(1) end if
          end while;
SymEnd:   if T(1) = EOF then Fail() else Eat(1); goto FmtLoop end if;

Matrix:   if ntax = 0 \/ nchar = 0 then Fail()
          else
            rows := NoRows;
            taxa := IF link \in DOMAIN nss THEN nss[link] ELSE taxa;      \* the linked taxon namespace
            Eat(1)
          end if;
MatLoop:  while tok # ";" /\ tok # EOF do
            if tok \notin taxa /\ Cardinality(taxa) >= ntax then Fail()              \* TooManyTaxaError
            else
              taxa := taxa \cup {tok};
              currow := tok;
              rows := IF tok \in DOMAIN rows THEN rows ELSE (tok :> 0) @@ rows;
              cap := inter;
              goto Row
            end if
          end while;
MatEnd:   cap := FALSE;
          if "dims" \notin Shipped /\ ((bntax # 0 /\ Cardinality(DOMAIN rows) # bntax) \/ \E r \in DOMAIN rows : rows[r] # nchar)
          then Fail()                                                                \* intended: final dimension check
          else mats := Append(mats, [ntax |-> bntax, nchar |-> nchar, rows |-> rows]); goto CharLoop
          end if;
Row:      while rows[currow] < nchar do
            with t = T(1) do
              if t = EOF then Fail()
              elsif t \in {"{", "("} then Eat(2); goto Multi
              elsif t = EOL then Eat(1); goto RowEnd                                 \* only captured when interleaved
              elsif t = ";" then
                Eat(1);
                if inter then goto MatEnd
                elsif "blockterm" \in Shipped then outcome := "OtherError"; goto Finish
                else Fail() end if
              elsif dtype = "continuous" then
                if IsLenTok(t) then rows[currow] := rows[currow] + 1; Eat(1) else Fail() end if
              elsif SeqLen(t) = 0 \/ rows[currow] + SeqLen(t) > nchar then Fail()    \* invalid symbol / TooManyCharacters
              else rows[currow] := rows[currow] + SeqLen(t); Eat(1)
              end if
            end with
          end while;
RowEnd:   cap := FALSE;
RowNext:  Eat(1); goto MatLoop;
Multi:    while tok \notin {")", "}"} do
            if tok = EOF then Fail() else Eat(1) end if
          end while;
MultiEnd: rows[currow] := rows[currow] + 1; goto Row;

\* ---------------------------------------------------------------- TREES block
TreesBlock: sret := "TreesLoop"; goto Semi;
TreesLoop: while tok \notin EndToks do
            with t = T(1) do
              Eat(1);
              if t = EOF then goto Main
              elsif t = "LINK" then ret := "TreesLoop"; goto Link
              elsif t = "TITLE" then ret := "TreesLoop"; goto Title
              elsif t = "TRANSLATE" then goto TransLoop
              elsif t = "TREE" then goto TreeStmt
              elsif t = "BEGIN" then Fail()
              end if
            end with
          end while;
TreesEnd: sret := "Main"; goto Semi;
TreeStmt: with e = T(2), o = T(3) do                \* TREE name = <newick statement>
            if e # "=" then Fail()
            elsif o = EOF then Crash("tree_eof")
            else Eat(3); nw := NwBegin(o)
            end if
          end with;
TreeRun:  while nw.st = "run" do
            with n = NwStep(nw, tok, tsr) do
              nw := n;
              if n.adv = 1 then Eat(1) end if
            end with
          end while;
TreeDone: if nw.st = "err" then Fail() else ntrees := ntrees + 1; nw := NwIdle end if;
TreeSemis: while tok = ";" do Eat(1) end while;
TreeNext: if tok = "TREE" then goto TreeStmt else goto TreesLoop end if;
TransLoop: while TRUE do
            with a = T(1), b = T(2), c = T(3) do
              if a = ";" \/ a = EOF \/ b = EOF then Fail()
              elsif c = ";" \/ c = EOF then Eat(3); goto TreesLoop
              elsif c # "," then Fail()
              else Eat(3)
              end if
            end with
          end while;

\* ---------------------------------------------------------------- SETS block
SetsBlock: sret := "SetsLoop"; goto Semi;
SetsLoop: while tok \notin EndToks do
            with t = T(1) do
              Eat(1);
              if t = EOF then goto Main
              elsif t = "TITLE" then ret := "SetsLoop"; goto Title
              elsif t = "LINK" then ret := "SetsLoop"; goto Link
              elsif t = "CHARSET" then goto Charset
              elsif t = "BEGIN" then Fail()
              end if
            end with
          end while;
SetsEnd:  sret := "Main"; goto Semi;
Charset:  if mats = <<>> \/ T(1) = EOF \/ T(2) # "=" \/ T(3) = EOF then Fail() else Eat(3) end if;
PosLoop:  while tok \notin {";", ",", EOF} do
            if tok = "ALL" then goto SetsLoop
            elsif IsNum(tok) then
              if T(1) = EOF \/ T(1) \in {",", ";"} \/ IsNum(T(1)) then Eat(1)
              elsif T(1) = "-" /\ (IsNum(T(2)) \/ T(2) = ".") then Eat(3)
              else Fail() end if
            elsif "positions" \in Shipped then skip        \* neither ALL nor a number: nothing is consumed
            else Fail()
            end if
          end while;
PosEnd:   goto SetsLoop;

Finish:   if outcome = "none" then outcome := "Ok" end if;
end algorithm; *)
\* BEGIN TRANSLATION
VARIABLES pc, input, gen, pos, tok, cap, tdepth, outcome, ret, sret, ntax, 
          nchar, bntax, dtype, inter, tsr, title, link, nss, taxa, rows, 
          currow, mats, ntrees, nw

(* define statement *)
T(k) == TokN(input, pos, cap, k)


vars == << pc, input, gen, pos, tok, cap, tdepth, outcome, ret, sret, ntax, 
           nchar, bntax, dtype, inter, tsr, title, link, nss, taxa, rows, 
           currow, mats, ntrees, nw >>

Init == (* Global variables *)
        /\ input \in Inputs
        /\ gen = GenSteps
        /\ pos = 1
        /\ tok = ""
        /\ cap = FALSE
        /\ tdepth = 0
        /\ outcome = "none"
        /\ ret = ""
        /\ sret = ""
        /\ ntax = 0
        /\ nchar = 0
        /\ bntax = 0
        /\ dtype = "standard"
        /\ inter = FALSE
        /\ tsr \in TsrValues
        /\ title = ""
        /\ link = ""
        /\ nss = NoRows
        /\ taxa = {}
        /\ rows = NoRows
        /\ currow = ""
        /\ mats = <<>>
        /\ ntrees = 0
        /\ nw = NwIdle
        /\ pc = "Gen"

Gen == /\ pc = "Gen"
       /\ IF gen > 0
             THEN /\ input' = RandomElement(GenEdits(input))
                  /\ gen' = gen - 1
                  /\ pc' = "Gen"
             ELSE /\ pc' = "Start"
                  /\ UNCHANGED << input, gen >>
       /\ UNCHANGED << pos, tok, cap, tdepth, outcome, ret, sret, ntax, nchar, 
                       bntax, dtype, inter, tsr, title, link, nss, taxa, rows, 
                       currow, mats, ntrees, nw >>

Start == /\ pc = "Start"
         /\ tok' = TokN(input, pos, cap, 1)
         /\ tdepth' = (IF "tokrec" \in Shipped THEN CommentRun(input, pos) ELSE (IF CommentRun(input, pos) > 0 THEN 1 ELSE 0))
         /\ pos' = AfterN(input, pos, cap, 1)
         /\ pc' = "Hdr"
         /\ UNCHANGED << input, gen, cap, outcome, ret, sret, ntax, nchar, 
                         bntax, dtype, inter, tsr, title, link, nss, taxa, 
                         rows, currow, mats, ntrees, nw >>

Hdr == /\ pc = "Hdr"
       /\ IF tok = EOF
             THEN /\ IF "empty" \in Shipped
                        THEN /\ outcome' = "InternalError"
                        ELSE /\ outcome' = "ParseError"
                  /\ pc' = "Finish"
             ELSE /\ IF tok # "#NEXUS"
                        THEN /\ outcome' = "ParseError"
                             /\ pc' = "Finish"
                        ELSE /\ pc' = "Main"
                             /\ UNCHANGED outcome
       /\ UNCHANGED << input, gen, pos, tok, cap, tdepth, ret, sret, ntax, 
                       nchar, bntax, dtype, inter, tsr, title, link, nss, taxa, 
                       rows, currow, mats, ntrees, nw >>

Main == /\ pc = "Main"
        /\ IF tok # EOF
              THEN /\ LET t == T(1) IN
                        LET b == T(2) IN
                          IF t = "BEGIN"
                             THEN /\ tok' = TokN(input, pos, cap, 2)
                                  /\ tdepth' = (IF "tokrec" \in Shipped THEN CommentRun(input, pos) ELSE (IF CommentRun(input, pos) > 0 THEN 1 ELSE 0))
                                  /\ pos' = AfterN(input, pos, cap, 2)
                                  /\ IF b = "TAXA"
                                        THEN /\ pc' = "TaxaBlock"
                                             /\ UNCHANGED outcome
                                        ELSE /\ IF b \in {"CHARACTERS", "DATA"}
                                                   THEN /\ pc' = "CharBlock"
                                                        /\ UNCHANGED outcome
                                                   ELSE /\ IF b = "TREES"
                                                              THEN /\ pc' = "TreesBlock"
                                                                   /\ UNCHANGED outcome
                                                              ELSE /\ IF b \in {"SETS", "ASSUMPTIONS", "CODONS"}
                                                                         THEN /\ pc' = "SetsBlock"
                                                                              /\ UNCHANGED outcome
                                                                         ELSE /\ IF b = "BEGIN"
                                                                                    THEN /\ outcome' = "ParseError"
                                                                                         /\ pc' = "Finish"
                                                                                    ELSE /\ pc' = "SkipLoop"
                                                                                         /\ UNCHANGED outcome
                             ELSE /\ tok' = TokN(input, pos, cap, 1)
                                  /\ tdepth' = (IF "tokrec" \in Shipped THEN CommentRun(input, pos) ELSE (IF CommentRun(input, pos) > 0 THEN 1 ELSE 0))
                                  /\ pos' = AfterN(input, pos, cap, 1)
                                  /\ pc' = "Main"
                                  /\ UNCHANGED outcome
              ELSE /\ pc' = "MainEnd"
                   /\ UNCHANGED << pos, tok, tdepth, outcome >>
        /\ UNCHANGED << input, gen, cap, ret, sret, ntax, nchar, bntax, dtype, 
                        inter, tsr, title, link, nss, taxa, rows, currow, mats, 
                        ntrees, nw >>

MainEnd == /\ pc = "MainEnd"
           /\ pc' = "Finish"
           /\ UNCHANGED << input, gen, pos, tok, cap, tdepth, outcome, ret, 
                           sret, ntax, nchar, bntax, dtype, inter, tsr, title, 
                           link, nss, taxa, rows, currow, mats, ntrees, nw >>

Semi == /\ pc = "Semi"
        /\ tok' = TokN(input, pos, cap, 1)
        /\ tdepth' = (IF "tokrec" \in Shipped THEN CommentRun(input, pos) ELSE (IF CommentRun(input, pos) > 0 THEN 1 ELSE 0))
        /\ pos' = AfterN(input, pos, cap, 1)
        /\ pc' = "SemiLoop"
        /\ UNCHANGED << input, gen, cap, outcome, ret, sret, ntax, nchar, 
                        bntax, dtype, inter, tsr, title, link, nss, taxa, rows, 
                        currow, mats, ntrees, nw >>

SemiLoop == /\ pc = "SemiLoop"
            /\ IF tok # ";" /\ tok # EOF
                  THEN /\ tok' = TokN(input, pos, cap, 1)
                       /\ tdepth' = (IF "tokrec" \in Shipped THEN CommentRun(input, pos) ELSE (IF CommentRun(input, pos) > 0 THEN 1 ELSE 0))
                       /\ pos' = AfterN(input, pos, cap, 1)
                       /\ pc' = "SemiLoop"
                  ELSE /\ pc' = "SemiRet"
                       /\ UNCHANGED << pos, tok, tdepth >>
            /\ UNCHANGED << input, gen, cap, outcome, ret, sret, ntax, nchar, 
                            bntax, dtype, inter, tsr, title, link, nss, taxa, 
                            rows, currow, mats, ntrees, nw >>

SemiRet == /\ pc = "SemiRet"
           /\ IF sret = "TaxaLoop"
                 THEN /\ pc' = "TaxaLoop"
                 ELSE /\ IF sret = "CharLoop"
                            THEN /\ pc' = "CharLoop"
                            ELSE /\ IF sret = "TreesLoop"
                                       THEN /\ pc' = "TreesLoop"
                                       ELSE /\ IF sret = "SetsLoop"
                                                  THEN /\ pc' = "SetsLoop"
                                                  ELSE /\ IF sret = "SkipNext"
                                                             THEN /\ pc' = "SkipNext"
                                                             ELSE /\ pc' = "Main"
           /\ UNCHANGED << input, gen, pos, tok, cap, tdepth, outcome, ret, 
                           sret, ntax, nchar, bntax, dtype, inter, tsr, title, 
                           link, nss, taxa, rows, currow, mats, ntrees, nw >>

Ret == /\ pc = "Ret"
       /\ IF ret = "TaxaLoop"
             THEN /\ pc' = "TaxaLoop"
             ELSE /\ IF ret = "CharLoop"
                        THEN /\ pc' = "CharLoop"
                        ELSE /\ IF ret = "TreesLoop"
                                   THEN /\ pc' = "TreesLoop"
                                   ELSE /\ pc' = "SetsLoop"
       /\ UNCHANGED << input, gen, pos, tok, cap, tdepth, outcome, ret, sret, 
                       ntax, nchar, bntax, dtype, inter, tsr, title, link, nss, 
                       taxa, rows, currow, mats, ntrees, nw >>

SkipLoop == /\ pc = "SkipLoop"
            /\ IF tok \notin EndToks /\ tok # EOF
                  THEN /\ sret' = "SkipNext"
                       /\ pc' = "Semi"
                  ELSE /\ pc' = "SkipEnd"
                       /\ sret' = sret
            /\ UNCHANGED << input, gen, pos, tok, cap, tdepth, outcome, ret, 
                            ntax, nchar, bntax, dtype, inter, tsr, title, link, 
                            nss, taxa, rows, currow, mats, ntrees, nw >>

SkipNext == /\ pc = "SkipNext"
            /\ tok' = TokN(input, pos, cap, 1)
            /\ tdepth' = (IF "tokrec" \in Shipped THEN CommentRun(input, pos) ELSE (IF CommentRun(input, pos) > 0 THEN 1 ELSE 0))
            /\ pos' = AfterN(input, pos, cap, 1)
            /\ pc' = "SkipLoop"
            /\ UNCHANGED << input, gen, cap, outcome, ret, sret, ntax, nchar, 
                            bntax, dtype, inter, tsr, title, link, nss, taxa, 
                            rows, currow, mats, ntrees, nw >>

SkipEnd == /\ pc = "SkipEnd"
           /\ pc' = "Main"
           /\ UNCHANGED << input, gen, pos, tok, cap, tdepth, outcome, ret, 
                           sret, ntax, nchar, bntax, dtype, inter, tsr, title, 
                           link, nss, taxa, rows, currow, mats, ntrees, nw >>

TaxaBlock == /\ pc = "TaxaBlock"
             /\ taxa' = {}
             /\ title' = ""
             /\ sret' = "TaxaLoop"
             /\ pc' = "Semi"
             /\ UNCHANGED << input, gen, pos, tok, cap, tdepth, outcome, ret, 
                             ntax, nchar, bntax, dtype, inter, tsr, link, nss, 
                             rows, currow, mats, ntrees, nw >>

TaxaLoop == /\ pc = "TaxaLoop"
            /\ LET t == T(1) IN
                 IF t = EOF
                    THEN /\ IF "taxa_eof" \in Shipped
                               THEN /\ TRUE
                                    /\ pc' = "TaxaLoop"
                                    /\ UNCHANGED outcome
                               ELSE /\ outcome' = "ParseError"
                                    /\ pc' = "Finish"
                         /\ UNCHANGED << pos, tok, tdepth, ret, sret, nss >>
                    ELSE /\ tok' = TokN(input, pos, cap, 1)
                         /\ tdepth' = (IF "tokrec" \in Shipped THEN CommentRun(input, pos) ELSE (IF CommentRun(input, pos) > 0 THEN 1 ELSE 0))
                         /\ pos' = AfterN(input, pos, cap, 1)
                         /\ IF t \in EndToks
                               THEN /\ nss' = (IF title = "" THEN nss ELSE (title :> taxa) @@ nss)
                                    /\ sret' = "Main"
                                    /\ pc' = "Semi"
                                    /\ ret' = ret
                               ELSE /\ IF t = "TITLE"
                                          THEN /\ ret' = "TaxaLoop"
                                               /\ pc' = "Title"
                                          ELSE /\ IF t = "DIMENSIONS"
                                                     THEN /\ ret' = "TaxaLoop"
                                                          /\ pc' = "Dims"
                                                     ELSE /\ IF t = "TAXLABELS"
                                                                THEN /\ pc' = "TaxLabels"
                                                                ELSE /\ pc' = "TaxaLoop"
                                                          /\ ret' = ret
                                    /\ UNCHANGED << sret, nss >>
                         /\ UNCHANGED outcome
            /\ UNCHANGED << input, gen, cap, ntax, nchar, bntax, dtype, inter, 
                            tsr, title, link, taxa, rows, currow, mats, ntrees, 
                            nw >>

TaxLabels == /\ pc = "TaxLabels"
             /\ tok' = TokN(input, pos, cap, 1)
             /\ tdepth' = (IF "tokrec" \in Shipped THEN CommentRun(input, pos) ELSE (IF CommentRun(input, pos) > 0 THEN 1 ELSE 0))
             /\ pos' = AfterN(input, pos, cap, 1)
             /\ pc' = "TaxLab"
             /\ UNCHANGED << input, gen, cap, outcome, ret, sret, ntax, nchar, 
                             bntax, dtype, inter, tsr, title, link, nss, taxa, 
                             rows, currow, mats, ntrees, nw >>

TaxLab == /\ pc = "TaxLab"
          /\ IF tok # ";"
                THEN /\ IF tok = EOF
                           THEN /\ IF "taxlabels_eof" \in Shipped
                                      THEN /\ outcome' = "InternalError"
                                      ELSE /\ outcome' = "ParseError"
                                /\ pc' = "Finish"
                                /\ UNCHANGED << pos, tok, tdepth, taxa >>
                           ELSE /\ IF tok \notin taxa /\ ntax = 0 /\ "ntax_none" \in Shipped
                                      THEN /\ outcome' = "InternalError"
                                           /\ pc' = "Finish"
                                           /\ UNCHANGED << pos, tok, tdepth, 
                                                           taxa >>
                                      ELSE /\ IF tok \notin taxa /\ ntax # 0 /\ Cardinality(taxa) >= ntax
                                                 THEN /\ outcome' = "ParseError"
                                                      /\ pc' = "Finish"
                                                      /\ UNCHANGED << pos, tok, 
                                                                      tdepth, 
                                                                      taxa >>
                                                 ELSE /\ taxa' = (taxa \cup {tok})
                                                      /\ tok' = TokN(input, pos, cap, 1)
                                                      /\ tdepth' = (IF "tokrec" \in Shipped THEN CommentRun(input, pos) ELSE (IF CommentRun(input, pos) > 0 THEN 1 ELSE 0))
                                                      /\ pos' = AfterN(input, pos, cap, 1)
                                                      /\ pc' = "TaxLab"
                                                      /\ UNCHANGED outcome
                ELSE /\ pc' = "TaxLabEnd"
                     /\ UNCHANGED << pos, tok, tdepth, outcome, taxa >>
          /\ UNCHANGED << input, gen, cap, ret, sret, ntax, nchar, bntax, 
                          dtype, inter, tsr, title, link, nss, rows, currow, 
                          mats, ntrees, nw >>

TaxLabEnd == /\ pc = "TaxLabEnd"
             /\ pc' = "TaxaLoop"
             /\ UNCHANGED << input, gen, pos, tok, cap, tdepth, outcome, ret, 
                             sret, ntax, nchar, bntax, dtype, inter, tsr, 
                             title, link, nss, taxa, rows, currow, mats, 
                             ntrees, nw >>

Title == /\ pc = "Title"
         /\ IF T(1) # EOF /\ T(2) = ";"
               THEN /\ IF ret = "TaxaLoop"
                          THEN /\ title' = T(1)
                          ELSE /\ TRUE
                               /\ title' = title
                    /\ tok' = TokN(input, pos, cap, 2)
                    /\ tdepth' = (IF "tokrec" \in Shipped THEN CommentRun(input, pos) ELSE (IF CommentRun(input, pos) > 0 THEN 1 ELSE 0))
                    /\ pos' = AfterN(input, pos, cap, 2)
                    /\ pc' = "Ret"
                    /\ UNCHANGED outcome
               ELSE /\ outcome' = "ParseError"
                    /\ pc' = "Finish"
                    /\ UNCHANGED << pos, tok, tdepth, title >>
         /\ UNCHANGED << input, gen, cap, ret, sret, ntax, nchar, bntax, dtype, 
                         inter, tsr, link, nss, taxa, rows, currow, mats, 
                         ntrees, nw >>

Link == /\ pc = "Link"
        /\ tok' = TokN(input, pos, cap, 1)
        /\ tdepth' = (IF "tokrec" \in Shipped THEN CommentRun(input, pos) ELSE (IF CommentRun(input, pos) > 0 THEN 1 ELSE 0))
        /\ pos' = AfterN(input, pos, cap, 1)
        /\ pc' = "LinkLoop"
        /\ UNCHANGED << input, gen, cap, outcome, ret, sret, ntax, nchar, 
                        bntax, dtype, inter, tsr, title, link, nss, taxa, rows, 
                        currow, mats, ntrees, nw >>

LinkLoop == /\ pc = "LinkLoop"
            /\ IF tok # ";"
                  THEN /\ IF tok = EOF
                             THEN /\ IF "link" \in Shipped
                                        THEN /\ TRUE
                                             /\ pc' = "LinkLoop"
                                             /\ UNCHANGED outcome
                                        ELSE /\ outcome' = "ParseError"
                                             /\ pc' = "Finish"
                                  /\ UNCHANGED << pos, tok, tdepth, link >>
                             ELSE /\ IF tok \in {"TAXA", "CHARACTERS"}
                                        THEN /\ IF T(1) = "=" /\ T(2) # EOF
                                                   THEN /\ IF tok = "TAXA"
                                                              THEN /\ link' = T(2)
                                                              ELSE /\ TRUE
                                                                   /\ link' = link
                                                        /\ tok' = TokN(input, pos, cap, 3)
                                                        /\ tdepth' = (IF "tokrec" \in Shipped THEN CommentRun(input, pos) ELSE (IF CommentRun(input, pos) > 0 THEN 1 ELSE 0))
                                                        /\ pos' = AfterN(input, pos, cap, 3)
                                                        /\ pc' = "LinkLoop"
                                                        /\ UNCHANGED outcome
                                                   ELSE /\ outcome' = "ParseError"
                                                        /\ pc' = "Finish"
                                                        /\ UNCHANGED << pos, 
                                                                        tok, 
                                                                        tdepth, 
                                                                        link >>
                                        ELSE /\ IF "link" \in Shipped
                                                   THEN /\ TRUE
                                                        /\ UNCHANGED << pos, 
                                                                        tok, 
                                                                        tdepth >>
                                                   ELSE /\ tok' = TokN(input, pos, cap, 1)
                                                        /\ tdepth' = (IF "tokrec" \in Shipped THEN CommentRun(input, pos) ELSE (IF CommentRun(input, pos) > 0 THEN 1 ELSE 0))
                                                        /\ pos' = AfterN(input, pos, cap, 1)
                                             /\ pc' = "LinkLoop"
                                             /\ UNCHANGED << outcome, link >>
                  ELSE /\ pc' = "LinkEnd"
                       /\ UNCHANGED << pos, tok, tdepth, outcome, link >>
            /\ UNCHANGED << input, gen, cap, ret, sret, ntax, nchar, bntax, 
                            dtype, inter, tsr, title, nss, taxa, rows, currow, 
                            mats, ntrees, nw >>

LinkEnd == /\ pc = "LinkEnd"
           /\ pc' = "Ret"
           /\ UNCHANGED << input, gen, pos, tok, cap, tdepth, outcome, ret, 
                           sret, ntax, nchar, bntax, dtype, inter, tsr, title, 
                           link, nss, taxa, rows, currow, mats, ntrees, nw >>

Dims == /\ pc = "Dims"
        /\ tok' = TokN(input, pos, cap, 1)
        /\ tdepth' = (IF "tokrec" \in Shipped THEN CommentRun(input, pos) ELSE (IF CommentRun(input, pos) > 0 THEN 1 ELSE 0))
        /\ pos' = AfterN(input, pos, cap, 1)
        /\ pc' = "DimLoop"
        /\ UNCHANGED << input, gen, cap, outcome, ret, sret, ntax, nchar, 
                        bntax, dtype, inter, tsr, title, link, nss, taxa, rows, 
                        currow, mats, ntrees, nw >>

DimLoop == /\ pc = "DimLoop"
           /\ IF tok # ";"
                 THEN /\ IF tok = EOF \/ tok = "BEGIN"
                            THEN /\ outcome' = "ParseError"
                                 /\ pc' = "Finish"
                                 /\ UNCHANGED << pos, tok, tdepth, ntax, nchar, 
                                                 bntax >>
                            ELSE /\ IF tok \in {"NTAX", "NCHAR"}
                                       THEN /\ IF T(1) = "=" /\ IsNum(T(2)) /\ T(3) # EOF
                                                  THEN /\ IF tok = "NTAX"
                                                             THEN /\ ntax' = NumVal(T(2))
                                                                  /\ IF ret = "CharLoop"
                                                                        THEN /\ bntax' = NumVal(T(2))
                                                                        ELSE /\ TRUE
                                                                             /\ bntax' = bntax
                                                                  /\ nchar' = nchar
                                                             ELSE /\ nchar' = NumVal(T(2))
                                                                  /\ UNCHANGED << ntax, 
                                                                                  bntax >>
                                                       /\ tok' = TokN(input, pos, cap, 3)
                                                       /\ tdepth' = (IF "tokrec" \in Shipped THEN CommentRun(input, pos) ELSE (IF CommentRun(input, pos) > 0 THEN 1 ELSE 0))
                                                       /\ pos' = AfterN(input, pos, cap, 3)
                                                       /\ pc' = "DimLoop"
                                                       /\ UNCHANGED outcome
                                                  ELSE /\ outcome' = "ParseError"
                                                       /\ pc' = "Finish"
                                                       /\ UNCHANGED << pos, 
                                                                       tok, 
                                                                       tdepth, 
                                                                       ntax, 
                                                                       nchar, 
                                                                       bntax >>
                                       ELSE /\ IF T(1) = EOF
                                                  THEN /\ outcome' = "ParseError"
                                                       /\ pc' = "Finish"
                                                       /\ UNCHANGED << pos, 
                                                                       tok, 
                                                                       tdepth >>
                                                  ELSE /\ tok' = TokN(input, pos, cap, 1)
                                                       /\ tdepth' = (IF "tokrec" \in Shipped THEN CommentRun(input, pos) ELSE (IF CommentRun(input, pos) > 0 THEN 1 ELSE 0))
                                                       /\ pos' = AfterN(input, pos, cap, 1)
                                                       /\ pc' = "DimLoop"
                                                       /\ UNCHANGED outcome
                                            /\ UNCHANGED << ntax, nchar, bntax >>
                 ELSE /\ pc' = "DimEnd"
                      /\ UNCHANGED << pos, tok, tdepth, outcome, ntax, nchar, 
                                      bntax >>
           /\ UNCHANGED << input, gen, cap, ret, sret, dtype, inter, tsr, 
                           title, link, nss, taxa, rows, currow, mats, ntrees, 
                           nw >>

DimEnd == /\ pc = "DimEnd"
          /\ pc' = "Ret"
          /\ UNCHANGED << input, gen, pos, tok, cap, tdepth, outcome, ret, 
                          sret, ntax, nchar, bntax, dtype, inter, tsr, title, 
                          link, nss, taxa, rows, currow, mats, ntrees, nw >>

CharBlock == /\ pc = "CharBlock"
             /\ dtype' = "standard"
             /\ bntax' = 0
             /\ link' = ""
             /\ sret' = "CharLoop"
             /\ pc' = "Semi"
             /\ UNCHANGED << input, gen, pos, tok, cap, tdepth, outcome, ret, 
                             ntax, nchar, inter, tsr, title, nss, taxa, rows, 
                             currow, mats, ntrees, nw >>

CharLoop == /\ pc = "CharLoop"
            /\ IF tok \notin EndToks
                  THEN /\ LET t == T(1) IN
                            /\ tok' = TokN(input, pos, cap, 1)
                            /\ tdepth' = (IF "tokrec" \in Shipped THEN CommentRun(input, pos) ELSE (IF CommentRun(input, pos) > 0 THEN 1 ELSE 0))
                            /\ pos' = AfterN(input, pos, cap, 1)
                            /\ IF t = EOF
                                  THEN /\ pc' = "Main"
                                       /\ UNCHANGED << outcome, ret >>
                                  ELSE /\ IF t = "TITLE"
                                             THEN /\ ret' = "CharLoop"
                                                  /\ pc' = "Title"
                                                  /\ UNCHANGED outcome
                                             ELSE /\ IF t = "LINK"
                                                        THEN /\ ret' = "CharLoop"
                                                             /\ pc' = "Link"
                                                             /\ UNCHANGED outcome
                                                        ELSE /\ IF t = "DIMENSIONS"
                                                                   THEN /\ ret' = "CharLoop"
                                                                        /\ pc' = "Dims"
                                                                        /\ UNCHANGED outcome
                                                                   ELSE /\ IF t = "FORMAT"
                                                                              THEN /\ pc' = "Format"
                                                                                   /\ UNCHANGED outcome
                                                                              ELSE /\ IF t = "MATRIX"
                                                                                         THEN /\ pc' = "Matrix"
                                                                                              /\ UNCHANGED outcome
                                                                                         ELSE /\ IF t = "BEGIN"
                                                                                                    THEN /\ outcome' = "ParseError"
                                                                                                         /\ pc' = "Finish"
                                                                                                    ELSE /\ pc' = "CharLoop"
                                                                                                         /\ UNCHANGED outcome
                                                                        /\ ret' = ret
                  ELSE /\ pc' = "CharEnd"
                       /\ UNCHANGED << pos, tok, tdepth, outcome, ret >>
            /\ UNCHANGED << input, gen, cap, sret, ntax, nchar, bntax, dtype, 
                            inter, tsr, title, link, nss, taxa, rows, currow, 
                            mats, ntrees, nw >>

CharEnd == /\ pc = "CharEnd"
           /\ sret' = "Main"
           /\ pc' = "Semi"
           /\ UNCHANGED << input, gen, pos, tok, cap, tdepth, outcome, ret, 
                           ntax, nchar, bntax, dtype, inter, tsr, title, link, 
                           nss, taxa, rows, currow, mats, ntrees, nw >>

Format == /\ pc = "Format"
          /\ tok' = TokN(input, pos, cap, 1)
          /\ tdepth' = (IF "tokrec" \in Shipped THEN CommentRun(input, pos) ELSE (IF CommentRun(input, pos) > 0 THEN 1 ELSE 0))
          /\ pos' = AfterN(input, pos, cap, 1)
          /\ pc' = "FmtLoop"
          /\ UNCHANGED << input, gen, cap, outcome, ret, sret, ntax, nchar, 
                          bntax, dtype, inter, tsr, title, link, nss, taxa, 
                          rows, currow, mats, ntrees, nw >>

FmtLoop == /\ pc = "FmtLoop"
           /\ IF tok # ";"
                 THEN /\ IF tok = EOF \/ tok = "BEGIN"
                            THEN /\ outcome' = "ParseError"
                                 /\ pc' = "Finish"
                                 /\ UNCHANGED << pos, tok, tdepth, dtype, 
                                                 inter >>
                            ELSE /\ IF tok = "DATATYPE"
                                       THEN /\ IF T(1) = "=" /\ T(2) # EOF /\ T(3) # EOF
                                                  THEN /\ dtype' = DType(T(2))
                                                       /\ tok' = TokN(input, pos, cap, 3)
                                                       /\ tdepth' = (IF "tokrec" \in Shipped THEN CommentRun(input, pos) ELSE (IF CommentRun(input, pos) > 0 THEN 1 ELSE 0))
                                                       /\ pos' = AfterN(input, pos, cap, 3)
                                                       /\ pc' = "FmtLoop"
                                                       /\ UNCHANGED outcome
                                                  ELSE /\ outcome' = "ParseError"
                                                       /\ pc' = "Finish"
                                                       /\ UNCHANGED << pos, 
                                                                       tok, 
                                                                       tdepth, 
                                                                       dtype >>
                                            /\ inter' = inter
                                       ELSE /\ IF tok = "INTERLEAVE"
                                                  THEN /\ IF T(1) = "="
                                                             THEN /\ IF T(2) # EOF /\ T(3) # EOF
                                                                        THEN /\ inter' = (T(2) \notin {"NO", "N"})
                                                                             /\ tok' = TokN(input, pos, cap, 3)
                                                                             /\ tdepth' = (IF "tokrec" \in Shipped THEN CommentRun(input, pos) ELSE (IF CommentRun(input, pos) > 0 THEN 1 ELSE 0))
                                                                             /\ pos' = AfterN(input, pos, cap, 3)
                                                                             /\ pc' = "FmtLoop"
                                                                             /\ UNCHANGED outcome
                                                                        ELSE /\ outcome' = "ParseError"
                                                                             /\ pc' = "Finish"
                                                                             /\ UNCHANGED << pos, 
                                                                                             tok, 
                                                                                             tdepth, 
                                                                                             inter >>
                                                             ELSE /\ IF T(1) = EOF
                                                                        THEN /\ outcome' = "ParseError"
                                                                             /\ pc' = "Finish"
                                                                             /\ UNCHANGED << pos, 
                                                                                             tok, 
                                                                                             tdepth, 
                                                                                             inter >>
                                                                        ELSE /\ inter' = TRUE
                                                                             /\ tok' = TokN(input, pos, cap, 1)
                                                                             /\ tdepth' = (IF "tokrec" \in Shipped THEN CommentRun(input, pos) ELSE (IF CommentRun(input, pos) > 0 THEN 1 ELSE 0))
                                                                             /\ pos' = AfterN(input, pos, cap, 1)
                                                                             /\ pc' = "FmtLoop"
                                                                             /\ UNCHANGED outcome
                                                  ELSE /\ IF tok = "SYMBOLS"
                                                             THEN /\ IF T(1) = "=" /\ T(2) = "\"" /\ T(3) # EOF
                                                                        THEN /\ tok' = TokN(input, pos, cap, 3)
                                                                             /\ tdepth' = (IF "tokrec" \in Shipped THEN CommentRun(input, pos) ELSE (IF CommentRun(input, pos) > 0 THEN 1 ELSE 0))
                                                                             /\ pos' = AfterN(input, pos, cap, 3)
                                                                             /\ pc' = "SymLoop"
                                                                             /\ UNCHANGED outcome
                                                                        ELSE /\ outcome' = "ParseError"
                                                                             /\ pc' = "Finish"
                                                                             /\ UNCHANGED << pos, 
                                                                                             tok, 
                                                                                             tdepth >>
                                                             ELSE /\ IF tok \in {"GAP", "MISSING", "MATCHCHAR"}
                                                                        THEN /\ IF T(1) = "=" /\ T(2) # EOF /\ T(3) # EOF
                                                                                   THEN /\ tok' = TokN(input, pos, cap, 3)
                                                                                        /\ tdepth' = (IF "tokrec" \in Shipped THEN CommentRun(input, pos) ELSE (IF CommentRun(input, pos) > 0 THEN 1 ELSE 0))
                                                                                        /\ pos' = AfterN(input, pos, cap, 3)
                                                                                        /\ pc' = "FmtLoop"
                                                                                        /\ UNCHANGED outcome
                                                                                   ELSE /\ outcome' = "ParseError"
                                                                                        /\ pc' = "Finish"
                                                                                        /\ UNCHANGED << pos, 
                                                                                                        tok, 
                                                                                                        tdepth >>
                                                                        ELSE /\ IF T(1) = EOF
                                                                                   THEN /\ outcome' = "ParseError"
                                                                                        /\ pc' = "Finish"
                                                                                        /\ UNCHANGED << pos, 
                                                                                                        tok, 
                                                                                                        tdepth >>
                                                                                   ELSE /\ tok' = TokN(input, pos, cap, 1)
                                                                                        /\ tdepth' = (IF "tokrec" \in Shipped THEN CommentRun(input, pos) ELSE (IF CommentRun(input, pos) > 0 THEN 1 ELSE 0))
                                                                                        /\ pos' = AfterN(input, pos, cap, 1)
                                                                                        /\ pc' = "FmtLoop"
                                                                                        /\ UNCHANGED outcome
                                                       /\ inter' = inter
                                            /\ dtype' = dtype
                 ELSE /\ pc' = "FmtEnd"
                      /\ UNCHANGED << pos, tok, tdepth, outcome, dtype, inter >>
           /\ UNCHANGED << input, gen, cap, ret, sret, ntax, nchar, bntax, tsr, 
                           title, link, nss, taxa, rows, currow, mats, ntrees, 
                           nw >>

FmtEnd == /\ pc = "FmtEnd"
          /\ pc' = "CharLoop"
          /\ UNCHANGED << input, gen, pos, tok, cap, tdepth, outcome, ret, 
                          sret, ntax, nchar, bntax, dtype, inter, tsr, title, 
                          link, nss, taxa, rows, currow, mats, ntrees, nw >>

SymLoop == /\ pc = "SymLoop"
           /\ IF tok # "\""
                 THEN /\ IF tok = EOF
                            THEN /\ outcome' = "ParseError"
                                 /\ pc' = "Finish"
                                 /\ UNCHANGED << pos, tok, tdepth >>
                            ELSE /\ tok' = TokN(input, pos, cap, 1)
                                 /\ tdepth' = (IF "tokrec" \in Shipped THEN CommentRun(input, pos) ELSE (IF CommentRun(input, pos) > 0 THEN 1 ELSE 0))
                                 /\ pos' = AfterN(input, pos, cap, 1)
                                 /\ pc' = "SymLoop"
                                 /\ UNCHANGED outcome
                 ELSE /\ pc' = "SymEnd"
                      /\ UNCHANGED << pos, tok, tdepth, outcome >>
           /\ UNCHANGED << input, gen, cap, ret, sret, ntax, nchar, bntax, 
                           dtype, inter, tsr, title, link, nss, taxa, rows, 
                           currow, mats, ntrees, nw >>

SymEnd == /\ pc = "SymEnd"
          /\ IF T(1) = EOF
                THEN /\ outcome' = "ParseError"
                     /\ pc' = "Finish"
                     /\ UNCHANGED << pos, tok, tdepth >>
                ELSE /\ tok' = TokN(input, pos, cap, 1)
                     /\ tdepth' = (IF "tokrec" \in Shipped THEN CommentRun(input, pos) ELSE (IF CommentRun(input, pos) > 0 THEN 1 ELSE 0))
                     /\ pos' = AfterN(input, pos, cap, 1)
                     /\ pc' = "FmtLoop"
                     /\ UNCHANGED outcome
          /\ UNCHANGED << input, gen, cap, ret, sret, ntax, nchar, bntax, 
                          dtype, inter, tsr, title, link, nss, taxa, rows, 
                          currow, mats, ntrees, nw >>

Matrix == /\ pc = "Matrix"
          /\ IF ntax = 0 \/ nchar = 0
                THEN /\ outcome' = "ParseError"
                     /\ pc' = "Finish"
                     /\ UNCHANGED << pos, tok, tdepth, taxa, rows >>
                ELSE /\ rows' = NoRows
                     /\ taxa' = (IF link \in DOMAIN nss THEN nss[link] ELSE taxa)
                     /\ tok' = TokN(input, pos, cap, 1)
                     /\ tdepth' = (IF "tokrec" \in Shipped THEN CommentRun(input, pos) ELSE (IF CommentRun(input, pos) > 0 THEN 1 ELSE 0))
                     /\ pos' = AfterN(input, pos, cap, 1)
                     /\ pc' = "MatLoop"
                     /\ UNCHANGED outcome
          /\ UNCHANGED << input, gen, cap, ret, sret, ntax, nchar, bntax, 
                          dtype, inter, tsr, title, link, nss, currow, mats, 
                          ntrees, nw >>

MatLoop == /\ pc = "MatLoop"
           /\ IF tok # ";" /\ tok # EOF
                 THEN /\ IF tok \notin taxa /\ Cardinality(taxa) >= ntax
                            THEN /\ outcome' = "ParseError"
                                 /\ pc' = "Finish"
                                 /\ UNCHANGED << cap, taxa, rows, currow >>
                            ELSE /\ taxa' = (taxa \cup {tok})
                                 /\ currow' = tok
                                 /\ rows' = (IF tok \in DOMAIN rows THEN rows ELSE (tok :> 0) @@ rows)
                                 /\ cap' = inter
                                 /\ pc' = "Row"
                                 /\ UNCHANGED outcome
                 ELSE /\ pc' = "MatEnd"
                      /\ UNCHANGED << cap, outcome, taxa, rows, currow >>
           /\ UNCHANGED << input, gen, pos, tok, tdepth, ret, sret, ntax, 
                           nchar, bntax, dtype, inter, tsr, title, link, nss, 
                           mats, ntrees, nw >>

MatEnd == /\ pc = "MatEnd"
          /\ cap' = FALSE
          /\ IF "dims" \notin Shipped /\ ((bntax # 0 /\ Cardinality(DOMAIN rows) # bntax) \/ \E r \in DOMAIN rows : rows[r] # nchar)
                THEN /\ outcome' = "ParseError"
                     /\ pc' = "Finish"
                     /\ mats' = mats
                ELSE /\ mats' = Append(mats, [ntax |-> bntax, nchar |-> nchar, rows |-> rows])
                     /\ pc' = "CharLoop"
                     /\ UNCHANGED outcome
          /\ UNCHANGED << input, gen, pos, tok, tdepth, ret, sret, ntax, nchar, 
                          bntax, dtype, inter, tsr, title, link, nss, taxa, 
                          rows, currow, ntrees, nw >>

Row == /\ pc = "Row"
       /\ IF rows[currow] < nchar
             THEN /\ LET t == T(1) IN
                       IF t = EOF
                          THEN /\ outcome' = "ParseError"
                               /\ pc' = "Finish"
                               /\ UNCHANGED << pos, tok, tdepth, rows >>
                          ELSE /\ IF t \in {"{", "("}
                                     THEN /\ tok' = TokN(input, pos, cap, 2)
                                          /\ tdepth' = (IF "tokrec" \in Shipped THEN CommentRun(input, pos) ELSE (IF CommentRun(input, pos) > 0 THEN 1 ELSE 0))
                                          /\ pos' = AfterN(input, pos, cap, 2)
                                          /\ pc' = "Multi"
                                          /\ UNCHANGED << outcome, rows >>
                                     ELSE /\ IF t = EOL
                                                THEN /\ tok' = TokN(input, pos, cap, 1)
                                                     /\ tdepth' = (IF "tokrec" \in Shipped THEN CommentRun(input, pos) ELSE (IF CommentRun(input, pos) > 0 THEN 1 ELSE 0))
                                                     /\ pos' = AfterN(input, pos, cap, 1)
                                                     /\ pc' = "RowEnd"
                                                     /\ UNCHANGED << outcome, 
                                                                     rows >>
                                                ELSE /\ IF t = ";"
                                                           THEN /\ tok' = TokN(input, pos, cap, 1)
                                                                /\ tdepth' = (IF "tokrec" \in Shipped THEN CommentRun(input, pos) ELSE (IF CommentRun(input, pos) > 0 THEN 1 ELSE 0))
                                                                /\ pos' = AfterN(input, pos, cap, 1)
                                                                /\ IF inter
                                                                      THEN /\ pc' = "MatEnd"
                                                                           /\ UNCHANGED outcome
                                                                      ELSE /\ IF "blockterm" \in Shipped
                                                                                 THEN /\ outcome' = "OtherError"
                                                                                      /\ pc' = "Finish"
                                                                                 ELSE /\ outcome' = "ParseError"
                                                                                      /\ pc' = "Finish"
                                                                /\ rows' = rows
                                                           ELSE /\ IF dtype = "continuous"
                                                                      THEN /\ IF IsLenTok(t)
                                                                                 THEN /\ rows' = [rows EXCEPT ![currow] = rows[currow] + 1]
                                                                                      /\ tok' = TokN(input, pos, cap, 1)
                                                                                      /\ tdepth' = (IF "tokrec" \in Shipped THEN CommentRun(input, pos) ELSE (IF CommentRun(input, pos) > 0 THEN 1 ELSE 0))
                                                                                      /\ pos' = AfterN(input, pos, cap, 1)
                                                                                      /\ pc' = "Row"
                                                                                      /\ UNCHANGED outcome
                                                                                 ELSE /\ outcome' = "ParseError"
                                                                                      /\ pc' = "Finish"
                                                                                      /\ UNCHANGED << pos, 
                                                                                                      tok, 
                                                                                                      tdepth, 
                                                                                                      rows >>
                                                                      ELSE /\ IF SeqLen(t) = 0 \/ rows[currow] + SeqLen(t) > nchar
                                                                                 THEN /\ outcome' = "ParseError"
                                                                                      /\ pc' = "Finish"
                                                                                      /\ UNCHANGED << pos, 
                                                                                                      tok, 
                                                                                                      tdepth, 
                                                                                                      rows >>
                                                                                 ELSE /\ rows' = [rows EXCEPT ![currow] = rows[currow] + SeqLen(t)]
                                                                                      /\ tok' = TokN(input, pos, cap, 1)
                                                                                      /\ tdepth' = (IF "tokrec" \in Shipped THEN CommentRun(input, pos) ELSE (IF CommentRun(input, pos) > 0 THEN 1 ELSE 0))
                                                                                      /\ pos' = AfterN(input, pos, cap, 1)
                                                                                      /\ pc' = "Row"
                                                                                      /\ UNCHANGED outcome
             ELSE /\ pc' = "RowEnd"
                  /\ UNCHANGED << pos, tok, tdepth, outcome, rows >>
       /\ UNCHANGED << input, gen, cap, ret, sret, ntax, nchar, bntax, dtype, 
                       inter, tsr, title, link, nss, taxa, currow, mats, 
                       ntrees, nw >>

RowEnd == /\ pc = "RowEnd"
          /\ cap' = FALSE
          /\ pc' = "RowNext"
          /\ UNCHANGED << input, gen, pos, tok, tdepth, outcome, ret, sret, 
                          ntax, nchar, bntax, dtype, inter, tsr, title, link, 
                          nss, taxa, rows, currow, mats, ntrees, nw >>

RowNext == /\ pc = "RowNext"
           /\ tok' = TokN(input, pos, cap, 1)
           /\ tdepth' = (IF "tokrec" \in Shipped THEN CommentRun(input, pos) ELSE (IF CommentRun(input, pos) > 0 THEN 1 ELSE 0))
           /\ pos' = AfterN(input, pos, cap, 1)
           /\ pc' = "MatLoop"
           /\ UNCHANGED << input, gen, cap, outcome, ret, sret, ntax, nchar, 
                           bntax, dtype, inter, tsr, title, link, nss, taxa, 
                           rows, currow, mats, ntrees, nw >>

Multi == /\ pc = "Multi"
         /\ IF tok \notin {")", "}"}
               THEN /\ IF tok = EOF
                          THEN /\ outcome' = "ParseError"
                               /\ pc' = "Finish"
                               /\ UNCHANGED << pos, tok, tdepth >>
                          ELSE /\ tok' = TokN(input, pos, cap, 1)
                               /\ tdepth' = (IF "tokrec" \in Shipped THEN CommentRun(input, pos) ELSE (IF CommentRun(input, pos) > 0 THEN 1 ELSE 0))
                               /\ pos' = AfterN(input, pos, cap, 1)
                               /\ pc' = "Multi"
                               /\ UNCHANGED outcome
               ELSE /\ pc' = "MultiEnd"
                    /\ UNCHANGED << pos, tok, tdepth, outcome >>
         /\ UNCHANGED << input, gen, cap, ret, sret, ntax, nchar, bntax, dtype, 
                         inter, tsr, title, link, nss, taxa, rows, currow, 
                         mats, ntrees, nw >>

MultiEnd == /\ pc = "MultiEnd"
            /\ rows' = [rows EXCEPT ![currow] = rows[currow] + 1]
            /\ pc' = "Row"
            /\ UNCHANGED << input, gen, pos, tok, cap, tdepth, outcome, ret, 
                            sret, ntax, nchar, bntax, dtype, inter, tsr, title, 
                            link, nss, taxa, currow, mats, ntrees, nw >>

TreesBlock == /\ pc = "TreesBlock"
              /\ sret' = "TreesLoop"
              /\ pc' = "Semi"
              /\ UNCHANGED << input, gen, pos, tok, cap, tdepth, outcome, ret, 
                              ntax, nchar, bntax, dtype, inter, tsr, title, 
                              link, nss, taxa, rows, currow, mats, ntrees, nw >>

TreesLoop == /\ pc = "TreesLoop"
             /\ IF tok \notin EndToks
                   THEN /\ LET t == T(1) IN
                             /\ tok' = TokN(input, pos, cap, 1)
                             /\ tdepth' = (IF "tokrec" \in Shipped THEN CommentRun(input, pos) ELSE (IF CommentRun(input, pos) > 0 THEN 1 ELSE 0))
                             /\ pos' = AfterN(input, pos, cap, 1)
                             /\ IF t = EOF
                                   THEN /\ pc' = "Main"
                                        /\ UNCHANGED << outcome, ret >>
                                   ELSE /\ IF t = "LINK"
                                              THEN /\ ret' = "TreesLoop"
                                                   /\ pc' = "Link"
                                                   /\ UNCHANGED outcome
                                              ELSE /\ IF t = "TITLE"
                                                         THEN /\ ret' = "TreesLoop"
                                                              /\ pc' = "Title"
                                                              /\ UNCHANGED outcome
                                                         ELSE /\ IF t = "TRANSLATE"
                                                                    THEN /\ pc' = "TransLoop"
                                                                         /\ UNCHANGED outcome
                                                                    ELSE /\ IF t = "TREE"
                                                                               THEN /\ pc' = "TreeStmt"
                                                                                    /\ UNCHANGED outcome
                                                                               ELSE /\ IF t = "BEGIN"
                                                                                          THEN /\ outcome' = "ParseError"
                                                                                               /\ pc' = "Finish"
                                                                                          ELSE /\ pc' = "TreesLoop"
                                                                                               /\ UNCHANGED outcome
                                                              /\ ret' = ret
                   ELSE /\ pc' = "TreesEnd"
                        /\ UNCHANGED << pos, tok, tdepth, outcome, ret >>
             /\ UNCHANGED << input, gen, cap, sret, ntax, nchar, bntax, dtype, 
                             inter, tsr, title, link, nss, taxa, rows, currow, 
                             mats, ntrees, nw >>

TreesEnd == /\ pc = "TreesEnd"
            /\ sret' = "Main"
            /\ pc' = "Semi"
            /\ UNCHANGED << input, gen, pos, tok, cap, tdepth, outcome, ret, 
                            ntax, nchar, bntax, dtype, inter, tsr, title, link, 
                            nss, taxa, rows, currow, mats, ntrees, nw >>

TreeStmt == /\ pc = "TreeStmt"
            /\ LET e == T(2) IN
                 LET o == T(3) IN
                   IF e # "="
                      THEN /\ outcome' = "ParseError"
                           /\ pc' = "Finish"
                           /\ UNCHANGED << pos, tok, tdepth, nw >>
                      ELSE /\ IF o = EOF
                                 THEN /\ IF "tree_eof" \in Shipped
                                            THEN /\ outcome' = "InternalError"
                                            ELSE /\ outcome' = "ParseError"
                                      /\ pc' = "Finish"
                                      /\ UNCHANGED << pos, tok, tdepth, nw >>
                                 ELSE /\ tok' = TokN(input, pos, cap, 3)
                                      /\ tdepth' = (IF "tokrec" \in Shipped THEN CommentRun(input, pos) ELSE (IF CommentRun(input, pos) > 0 THEN 1 ELSE 0))
                                      /\ pos' = AfterN(input, pos, cap, 3)
                                      /\ nw' = NwBegin(o)
                                      /\ pc' = "TreeRun"
                                      /\ UNCHANGED outcome
            /\ UNCHANGED << input, gen, cap, ret, sret, ntax, nchar, bntax, 
                            dtype, inter, tsr, title, link, nss, taxa, rows, 
                            currow, mats, ntrees >>

TreeRun == /\ pc = "TreeRun"
           /\ IF nw.st = "run"
                 THEN /\ LET n == NwStep(nw, tok, tsr) IN
                           /\ nw' = n
                           /\ IF n.adv = 1
                                 THEN /\ tok' = TokN(input, pos, cap, 1)
                                      /\ tdepth' = (IF "tokrec" \in Shipped THEN CommentRun(input, pos) ELSE (IF CommentRun(input, pos) > 0 THEN 1 ELSE 0))
                                      /\ pos' = AfterN(input, pos, cap, 1)
                                 ELSE /\ TRUE
                                      /\ UNCHANGED << pos, tok, tdepth >>
                      /\ pc' = "TreeRun"
                 ELSE /\ pc' = "TreeDone"
                      /\ UNCHANGED << pos, tok, tdepth, nw >>
           /\ UNCHANGED << input, gen, cap, outcome, ret, sret, ntax, nchar, 
                           bntax, dtype, inter, tsr, title, link, nss, taxa, 
                           rows, currow, mats, ntrees >>

TreeDone == /\ pc = "TreeDone"
            /\ IF nw.st = "err"
                  THEN /\ outcome' = "ParseError"
                       /\ pc' = "Finish"
                       /\ UNCHANGED << ntrees, nw >>
                  ELSE /\ ntrees' = ntrees + 1
                       /\ nw' = NwIdle
                       /\ pc' = "TreeSemis"
                       /\ UNCHANGED outcome
            /\ UNCHANGED << input, gen, pos, tok, cap, tdepth, ret, sret, ntax, 
                            nchar, bntax, dtype, inter, tsr, title, link, nss, 
                            taxa, rows, currow, mats >>

TreeSemis == /\ pc = "TreeSemis"
             /\ IF tok = ";"
                   THEN /\ tok' = TokN(input, pos, cap, 1)
                        /\ tdepth' = (IF "tokrec" \in Shipped THEN CommentRun(input, pos) ELSE (IF CommentRun(input, pos) > 0 THEN 1 ELSE 0))
                        /\ pos' = AfterN(input, pos, cap, 1)
                        /\ pc' = "TreeSemis"
                   ELSE /\ pc' = "TreeNext"
                        /\ UNCHANGED << pos, tok, tdepth >>
             /\ UNCHANGED << input, gen, cap, outcome, ret, sret, ntax, nchar, 
                             bntax, dtype, inter, tsr, title, link, nss, taxa, 
                             rows, currow, mats, ntrees, nw >>

TreeNext == /\ pc = "TreeNext"
            /\ IF tok = "TREE"
                  THEN /\ pc' = "TreeStmt"
                  ELSE /\ pc' = "TreesLoop"
            /\ UNCHANGED << input, gen, pos, tok, cap, tdepth, outcome, ret, 
                            sret, ntax, nchar, bntax, dtype, inter, tsr, title, 
                            link, nss, taxa, rows, currow, mats, ntrees, nw >>

TransLoop == /\ pc = "TransLoop"
             /\ LET a == T(1) IN
                  LET b == T(2) IN
                    LET c == T(3) IN
                      IF a = ";" \/ a = EOF \/ b = EOF
                         THEN /\ outcome' = "ParseError"
                              /\ pc' = "Finish"
                              /\ UNCHANGED << pos, tok, tdepth >>
                         ELSE /\ IF c = ";" \/ c = EOF
                                    THEN /\ tok' = TokN(input, pos, cap, 3)
                                         /\ tdepth' = (IF "tokrec" \in Shipped THEN CommentRun(input, pos) ELSE (IF CommentRun(input, pos) > 0 THEN 1 ELSE 0))
                                         /\ pos' = AfterN(input, pos, cap, 3)
                                         /\ pc' = "TreesLoop"
                                         /\ UNCHANGED outcome
                                    ELSE /\ IF c # ","
                                               THEN /\ outcome' = "ParseError"
                                                    /\ pc' = "Finish"
                                                    /\ UNCHANGED << pos, tok, 
                                                                    tdepth >>
                                               ELSE /\ tok' = TokN(input, pos, cap, 3)
                                                    /\ tdepth' = (IF "tokrec" \in Shipped THEN CommentRun(input, pos) ELSE (IF CommentRun(input, pos) > 0 THEN 1 ELSE 0))
                                                    /\ pos' = AfterN(input, pos, cap, 3)
                                                    /\ pc' = "TransLoop"
                                                    /\ UNCHANGED outcome
             /\ UNCHANGED << input, gen, cap, ret, sret, ntax, nchar, bntax, 
                             dtype, inter, tsr, title, link, nss, taxa, rows, 
                             currow, mats, ntrees, nw >>

SetsBlock == /\ pc = "SetsBlock"
             /\ sret' = "SetsLoop"
             /\ pc' = "Semi"
             /\ UNCHANGED << input, gen, pos, tok, cap, tdepth, outcome, ret, 
                             ntax, nchar, bntax, dtype, inter, tsr, title, 
                             link, nss, taxa, rows, currow, mats, ntrees, nw >>

SetsLoop == /\ pc = "SetsLoop"
            /\ IF tok \notin EndToks
                  THEN /\ LET t == T(1) IN
                            /\ tok' = TokN(input, pos, cap, 1)
                            /\ tdepth' = (IF "tokrec" \in Shipped THEN CommentRun(input, pos) ELSE (IF CommentRun(input, pos) > 0 THEN 1 ELSE 0))
                            /\ pos' = AfterN(input, pos, cap, 1)
                            /\ IF t = EOF
                                  THEN /\ pc' = "Main"
                                       /\ UNCHANGED << outcome, ret >>
                                  ELSE /\ IF t = "TITLE"
                                             THEN /\ ret' = "SetsLoop"
                                                  /\ pc' = "Title"
                                                  /\ UNCHANGED outcome
                                             ELSE /\ IF t = "LINK"
                                                        THEN /\ ret' = "SetsLoop"
                                                             /\ pc' = "Link"
                                                             /\ UNCHANGED outcome
                                                        ELSE /\ IF t = "CHARSET"
                                                                   THEN /\ pc' = "Charset"
                                                                        /\ UNCHANGED outcome
                                                                   ELSE /\ IF t = "BEGIN"
                                                                              THEN /\ outcome' = "ParseError"
                                                                                   /\ pc' = "Finish"
                                                                              ELSE /\ pc' = "SetsLoop"
                                                                                   /\ UNCHANGED outcome
                                                             /\ ret' = ret
                  ELSE /\ pc' = "SetsEnd"
                       /\ UNCHANGED << pos, tok, tdepth, outcome, ret >>
            /\ UNCHANGED << input, gen, cap, sret, ntax, nchar, bntax, dtype, 
                            inter, tsr, title, link, nss, taxa, rows, currow, 
                            mats, ntrees, nw >>

SetsEnd == /\ pc = "SetsEnd"
           /\ sret' = "Main"
           /\ pc' = "Semi"
           /\ UNCHANGED << input, gen, pos, tok, cap, tdepth, outcome, ret, 
                           ntax, nchar, bntax, dtype, inter, tsr, title, link, 
                           nss, taxa, rows, currow, mats, ntrees, nw >>

Charset == /\ pc = "Charset"
           /\ IF mats = <<>> \/ T(1) = EOF \/ T(2) # "=" \/ T(3) = EOF
                 THEN /\ outcome' = "ParseError"
                      /\ pc' = "Finish"
                      /\ UNCHANGED << pos, tok, tdepth >>
                 ELSE /\ tok' = TokN(input, pos, cap, 3)
                      /\ tdepth' = (IF "tokrec" \in Shipped THEN CommentRun(input, pos) ELSE (IF CommentRun(input, pos) > 0 THEN 1 ELSE 0))
                      /\ pos' = AfterN(input, pos, cap, 3)
                      /\ pc' = "PosLoop"
                      /\ UNCHANGED outcome
           /\ UNCHANGED << input, gen, cap, ret, sret, ntax, nchar, bntax, 
                           dtype, inter, tsr, title, link, nss, taxa, rows, 
                           currow, mats, ntrees, nw >>

PosLoop == /\ pc = "PosLoop"
           /\ IF tok \notin {";", ",", EOF}
                 THEN /\ IF tok = "ALL"
                            THEN /\ pc' = "SetsLoop"
                                 /\ UNCHANGED << pos, tok, tdepth, outcome >>
                            ELSE /\ IF IsNum(tok)
                                       THEN /\ IF T(1) = EOF \/ T(1) \in {",", ";"} \/ IsNum(T(1))
                                                  THEN /\ tok' = TokN(input, pos, cap, 1)
                                                       /\ tdepth' = (IF "tokrec" \in Shipped THEN CommentRun(input, pos) ELSE (IF CommentRun(input, pos) > 0 THEN 1 ELSE 0))
                                                       /\ pos' = AfterN(input, pos, cap, 1)
                                                       /\ pc' = "PosLoop"
                                                       /\ UNCHANGED outcome
                                                  ELSE /\ IF T(1) = "-" /\ (IsNum(T(2)) \/ T(2) = ".")
                                                             THEN /\ tok' = TokN(input, pos, cap, 3)
                                                                  /\ tdepth' = (IF "tokrec" \in Shipped THEN CommentRun(input, pos) ELSE (IF CommentRun(input, pos) > 0 THEN 1 ELSE 0))
                                                                  /\ pos' = AfterN(input, pos, cap, 3)
                                                                  /\ pc' = "PosLoop"
                                                                  /\ UNCHANGED outcome
                                                             ELSE /\ outcome' = "ParseError"
                                                                  /\ pc' = "Finish"
                                                                  /\ UNCHANGED << pos, 
                                                                                  tok, 
                                                                                  tdepth >>
                                       ELSE /\ IF "positions" \in Shipped
                                                  THEN /\ TRUE
                                                       /\ pc' = "PosLoop"
                                                       /\ UNCHANGED outcome
                                                  ELSE /\ outcome' = "ParseError"
                                                       /\ pc' = "Finish"
                                            /\ UNCHANGED << pos, tok, tdepth >>
                 ELSE /\ pc' = "PosEnd"
                      /\ UNCHANGED << pos, tok, tdepth, outcome >>
           /\ UNCHANGED << input, gen, cap, ret, sret, ntax, nchar, bntax, 
                           dtype, inter, tsr, title, link, nss, taxa, rows, 
                           currow, mats, ntrees, nw >>

PosEnd == /\ pc = "PosEnd"
          /\ pc' = "SetsLoop"
          /\ UNCHANGED << input, gen, pos, tok, cap, tdepth, outcome, ret, 
                          sret, ntax, nchar, bntax, dtype, inter, tsr, title, 
                          link, nss, taxa, rows, currow, mats, ntrees, nw >>

Finish == /\ pc = "Finish"
          /\ IF outcome = "none"
                THEN /\ outcome' = "Ok"
                ELSE /\ TRUE
                     /\ UNCHANGED outcome
          /\ pc' = "Done"
          /\ UNCHANGED << input, gen, pos, tok, cap, tdepth, ret, sret, ntax, 
                          nchar, bntax, dtype, inter, tsr, title, link, nss, 
                          taxa, rows, currow, mats, ntrees, nw >>

(* Allow infinite stuttering to prevent deadlock on termination. *)
Terminating == pc = "Done" /\ UNCHANGED vars

Next == Gen \/ Start \/ Hdr \/ Main \/ MainEnd \/ Semi \/ SemiLoop
           \/ SemiRet \/ Ret \/ SkipLoop \/ SkipNext \/ SkipEnd \/ TaxaBlock
           \/ TaxaLoop \/ TaxLabels \/ TaxLab \/ TaxLabEnd \/ Title \/ Link
           \/ LinkLoop \/ LinkEnd \/ Dims \/ DimLoop \/ DimEnd \/ CharBlock
           \/ CharLoop \/ CharEnd \/ Format \/ FmtLoop \/ FmtEnd \/ SymLoop
           \/ SymEnd \/ Matrix \/ MatLoop \/ MatEnd \/ Row \/ RowEnd \/ RowNext
           \/ Multi \/ MultiEnd \/ TreesBlock \/ TreesLoop \/ TreesEnd
           \/ TreeStmt \/ TreeRun \/ TreeDone \/ TreeSemis \/ TreeNext
           \/ TransLoop \/ SetsBlock \/ SetsLoop \/ SetsEnd \/ Charset \/ PosLoop
           \/ PosEnd \/ Finish
           \/ Terminating

Spec == /\ Init /\ [][Next]_vars
        /\ WF_vars(Next)

Termination == <>(pc = "Done")

\* END TRANSLATION 

\* ------------------------------------------------------------------ properties (C20)
\* Termination (defined by the translation): <>(pc = "Done") under weak fairness.
OutcomeDocumented == outcome \in {"none", "Ok", "ParseError"}
DimsConsistent == outcome = "Ok" =>
    \A i \in 1..Len(mats) : /\ mats[i].ntax = 0 \/ Cardinality(DOMAIN mats[i].rows) = mats[i].ntax
                            /\ \A r \in DOMAIN mats[i].rows : mats[i].rows[r] = mats[i].nchar
TokDepthBounded == tdepth <= 1
TreeDepthIsNesting == NwDepth(nw) <= OpenCount(input) + 1
\* the model's answer for an input, printed at the terminal state (outcome agreement is drift, not a clause)
Emit == (pc = "Done" /\ TLCGet("config").mode = "bfs") => PrintT("C20OUT " \o outcome \o " " \o ToString(ntrees) \o " " \o ToString(Len(mats)) \o " " \o ToString(input))

=============================================================================
