SPECIFICATION Spec
CONSTANTS
  DepthTable <- DocumentedDepthTable
  MRoutes = {"deepcopy", "clone2", "clone1", "tns_copy", "ctor", "copy", "clone0", "ctor_newns", "extract", "extract_ref"}
  MOps = {"SetLabel", "SetLength", "SetNodeLabel", "RelabelTaxon", "AddTaxon", "AddAnnotation", "ChangeAnnotation", "ChangeBoundAttr", "Encode", "Structural", "SetCell", "AddComment"}
  MClasses = {"TreeList"}
  MConfigs = {"default"}
  XrefShapes = TRUE
  MaxSteps = 1
  MaxCopies = 2
  Bug = "xref_target_kept"
INVARIANT SharingExactlyAsDocumented
CHECK_DEADLOCK FALSE
