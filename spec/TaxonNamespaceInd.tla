------------------------- MODULE TaxonNamespaceInd -------------------------
(***************************************************************************)
(* C10 - the accession discipline of a TaxonNamespace as an INDUCTIVE      *)
(* invariant, discharged by Apalache for histories of ANY length (TLC      *)
(* checks MC_TaxonNamespace only to a bounded depth).                      *)
(*                                                                         *)
(* This is the order-free abstraction of spec/TaxonNamespace.tla: the      *)
(* membership list becomes a set (sort()/reverse() are stuttering steps    *)
(* here), labels are dropped (relabelling never touches the bit map) and   *)
(* the three parallel lists become one function idx.  The actions are the  *)
(* same critical sections as OpAddTaxon/OpNewTaxon (Accession),            *)
(* OpRemoveTaxon/OpRemoveLabel (RemovePositions), OpClear, OpSetMutable    *)
(* and the copy constructor (a second namespace that starts as a copy and  *)
(* then evolves independently on the SAME taxon objects - which is what    *)
(* TaxonNamespace(other) / copy.copy(ns) give).                            *)
(*                                                                         *)
(* Checked (tools: apalache-mc 0.58):                                      *)
(*   Init => IndInv                 --init=Init    --inv=IndInv --length=0 *)
(*   IndInv /\ Next => IndInv'      --init=IndInit --inv=IndInv --length=1 *)
(*   IndInv /\ Next => StableStep   --init=IndInit --inv=StableStep  -"-   *)
(*   IndInv => RoundTrip            --init=IndInit --inv=RoundTrip --length=0 *)
(* and the as-shipped-style negative controls (must be REFUTED):           *)
(*   NextReleasing (remove_taxon hands the freed slot out again - seeded   *)
(*   change C10-s1) breaks StableStep; NextClearResets (clear() restarts   *)
(*   numbering but keeps the bitmask cache - seeded change C10-t2) breaks  *)
(*   IndInv: a non-member keeps a cache entry that a later Add revives.    *)
(***************************************************************************)
EXTENDS Integers, FiniteSets

\* the universe of taxon objects; 6 objects are enough for every clause below
\* (each clause quantifies over at most two taxa and one fresh one)
T == 1..6

VARIABLES
    \* @type: Set(Int);
    mem,        \* members of namespace 1
    \* @type: Int -> Int;
    idx,        \* accession index of a member (arbitrary off mem)
    \* @type: Int;
    nxt,        \* accession counter
    \* @type: Int -> Int;
    cachedbm,   \* lazily filled bitmask cache: -1 = not cached, else the cached bit index
    \* @type: Bool;
    mut,
    \* the copy (namespace 2)
    \* @type: Bool;
    hasCopy,
    \* @type: Set(Int);
    mem2,
    \* @type: Int -> Int;
    idx2,
    \* @type: Int;
    nxt2,
    \* @type: Set(Int);
    atCopy      \* ghost: members at the moment of copying that have remained members of BOTH ever since

vars == <<mem, idx, nxt, cachedbm, mut, hasCopy, mem2, idx2, nxt2, atCopy>>

Init ==
    /\ mem = {} /\ idx = [t \in T |-> 0] /\ nxt = 0 /\ cachedbm = [t \in T |-> -1] /\ mut = TRUE
    /\ hasCopy = FALSE /\ mem2 = {} /\ idx2 = [t \in T |-> 0] /\ nxt2 = 0 /\ atCopy = {}

\* ----------------------------------------------------------------- actions
Unch2 == UNCHANGED <<hasCopy, mem2, idx2, nxt2>>

\* add_taxon / new_taxon / require_taxon (miss): Accession
Add(t) ==
    /\ mut /\ t \notin mem
    /\ mem' = mem \union {t}
    /\ idx' = [idx EXCEPT ![t] = nxt]
    /\ nxt' = nxt + 1
    /\ UNCHANGED <<cachedbm, mut, atCopy>> /\ Unch2      \* add_taxon does not touch _taxon_bitmask_map

\* taxon_bitmask(t): fills the cache
Ask(t) ==
    /\ t \in mem
    /\ cachedbm' = [cachedbm EXCEPT ![t] = idx[t]]
    /\ UNCHANGED <<mem, idx, nxt, mut, atCopy>> /\ Unch2

\* remove_taxon / remove_taxon_label / discard_taxon_label: RemovePositions
Remove(S) ==
    /\ S # {} /\ S \subseteq mem
    /\ mem' = mem \ S
    /\ cachedbm' = [t \in T |-> IF t \in S THEN -1 ELSE cachedbm[t]]
    /\ atCopy' = atCopy \ S
    /\ UNCHANGED <<idx, nxt, mut>> /\ Unch2

Clear ==
    /\ mem' = {}
    /\ cachedbm' = [t \in T |-> -1]
    /\ atCopy' = {}
    /\ UNCHANGED <<idx, nxt, mut>> /\ Unch2

\* sort(), reverse(), relabelling, is_case_sensitive: no effect on the bit map
Reorder == UNCHANGED vars

SetMutable(b) == mut' = b /\ UNCHANGED <<mem, idx, nxt, cachedbm, hasCopy, mem2, idx2, nxt2, atCopy>>

\* TaxonNamespace(ns) / copy.copy(ns) / ns.clone(0): same taxon objects, same bits, same counter
Copy ==
    /\ ~hasCopy
    /\ hasCopy' = TRUE /\ mem2' = mem /\ idx2' = idx /\ nxt2' = nxt /\ atCopy' = mem
    /\ UNCHANGED <<mem, idx, nxt, cachedbm, mut>>

\* the copy evolves on its own
Add2(t) ==
    /\ hasCopy /\ t \notin mem2
    /\ mem2' = mem2 \union {t} /\ idx2' = [idx2 EXCEPT ![t] = nxt2] /\ nxt2' = nxt2 + 1
    /\ UNCHANGED <<mem, idx, nxt, cachedbm, mut, hasCopy, atCopy>>
Remove2(S) ==
    /\ hasCopy /\ S # {} /\ S \subseteq mem2
    /\ mem2' = mem2 \ S /\ atCopy' = atCopy \ S
    /\ UNCHANGED <<mem, idx, nxt, cachedbm, mut, hasCopy, idx2, nxt2>>

Next ==
    \/ \E t \in T : Add(t) \/ Ask(t) \/ Add2(t)
    \/ \E S \in SUBSET T : Remove(S) \/ Remove2(S)
    \/ Clear \/ Reorder \/ Copy
    \/ \E b \in BOOLEAN : SetMutable(b)

\* ----------------------------------------------------------------- negative controls
\* seeded change C10-s1: removing the most recent accession "releases" its slot
RemoveReleasing(S) ==
    /\ S # {} /\ S \subseteq mem
    /\ mem' = mem \ S
    /\ cachedbm' = [t \in T |-> IF t \in S THEN -1 ELSE cachedbm[t]]
    /\ atCopy' = atCopy \ S
    /\ nxt' = IF \E t \in S : idx[t] = nxt - 1 THEN nxt - 1 ELSE nxt
    /\ UNCHANGED <<idx, mut>> /\ Unch2
NextReleasing == Next \/ \E S \in SUBSET T : RemoveReleasing(S)

\* seeded change C10-t2: clear() restarts numbering but keeps the bitmask cache
ClearResets ==
    /\ mem' = {} /\ nxt' = 0 /\ atCopy' = {}
    /\ UNCHANGED <<idx, cachedbm, mut>> /\ Unch2
NextClearResets == Next \/ ClearResets

\* ----------------------------------------------------------------- invariants
\* @type: (Set(Int), Int -> Int, Int) => Bool;
WF(m, ix, n) ==
    /\ m \subseteq T
    /\ n >= 0
    /\ \A t \in m : ix[t] >= 0 /\ ix[t] < n                       \* BitNotBelowCounter
    /\ \A t \in m : \A u \in m : t # u => ix[t] # ix[u]             \* BitShared

IndInv ==
    /\ WF(mem, idx, nxt)
    /\ WF(mem2, idx2, nxt2)
    /\ \A t \in T \ mem : cachedbm[t] = -1                         \* remove/clear drop the cache entry
    /\ \A t \in mem : cachedbm[t] = -1 \/ cachedbm[t] = idx[t]      \* BitmaskNotSingleBitOfIndex
    /\ atCopy \subseteq mem \intersect mem2
    /\ \A t \in atCopy : idx2[t] = idx[t]                           \* copies keep the bit of the original
    /\ (~hasCopy => mem2 = {} /\ atCopy = {})

\* arbitrary state satisfying the invariant (Apalache: --init=IndInit)
IndInit ==
    /\ mem \in SUBSET T /\ mem2 \in SUBSET T /\ atCopy \in SUBSET T
    /\ idx \in [T -> Int] /\ idx2 \in [T -> Int] /\ cachedbm \in [T -> Int]
    /\ nxt \in Int /\ nxt2 \in Int
    /\ mut \in BOOLEAN /\ hasCopy \in BOOLEAN
    /\ IndInv

\* C10 "its own single-bit mask which never changes while it remains a member ... never shared":
\* an ACTION invariant (two-state), checked for one step from any IndInv state
StableStep ==
    /\ \A t \in mem \intersect mem' : idx'[t] = idx[t]              \* BitChanged
    /\ nxt' >= nxt                                                  \* CounterDecreased
    /\ \A t \in mem' \ mem : idx'[t] >= nxt                         \* BitReused
    \* the copy is born by Copy; from then on the same discipline holds for it
    /\ hasCopy => /\ \A t \in mem2 \intersect mem2' : idx2'[t] = idx2[t]
                  /\ nxt2' >= nxt2
                  /\ \A t \in mem2' \ mem2 : idx2'[t] >= nxt2

\* "turning a set of member taxa into a bitmask and back returns the same taxa":
\* follows from injectivity alone - a state invariant implied by IndInv
MaskOf(S) == {idx[t] : t \in S}
TaxaOf(m) == {t \in mem : idx[t] \in m}
RoundTrip == \A S \in SUBSET mem : TaxaOf(MaskOf(S)) = S
=============================================================================
