--------------------------- MODULE MC_NewickGrammar ---------------------------
(***************************************************************************)
(* C20 - bounded model of the Newick reader (NewickReader.tree_iter: tree  *)
(* statements until the end of the stream) over                            *)
(*   base documents x every truncation x every single edit,                *)
(*   every token string up to MaxLen over the statement alphabet,          *)
(*   pumped documents (one token repeated PumpK times at every position).  *)
(* `depth` is the recursion depth of _parse_tree_node_description.         *)
(* RecLimit models the interpreter's recursion limit (as shipped: a        *)
(* RecursionError, an internal error); the intended design has none.       *)
(***************************************************************************)
EXTENDS NewickGrammar
CONSTANTS Quick, MaxLen, PumpK, RecLimit, GenSteps
VARIABLES inp, pos, tok, nw, ntrees, outcome, depth, gen, tsr
vars == <<inp, pos, tok, nw, ntrees, outcome, depth, gen, tsr>>

Alpha == StringAlphabet
A == IF Quick THEN ClassRepsQ("newick") ELSE ClassReps("newick")
Edited(d) == EditedDoc(d, "newick", Quick, 4)
Pumped(d) == {Pump(d, i, t, PumpK) : i \in 0..Len(d), t \in PumpToks("newick")}
Inputs == (UNION {Edited(d) \cup Pumped(d) : d \in DocsOf("newick")}) \cup Strings(MaxLen)

Advance == /\ tok' = TokN(inp, pos, FALSE, 1)
           /\ pos' = AfterN(inp, pos, FALSE, 1)
Stay == UNCHANGED <<tok, pos>>

Init == /\ inp \in (IF GenSteps = 0 THEN Inputs ELSE DocsOf("newick") \cup {<<>>})
        /\ tsr \in BOOLEAN        \* reader option terminating_semicolon_required
        /\ pos = 1 /\ tok = "" /\ nw = NwIdle /\ ntrees = 0 /\ outcome = "none" /\ depth = 0 /\ gen = GenSteps

\* simulation only: the first GenSteps steps apply random edits (double edits, random strings)
Generate == /\ gen > 0 /\ gen' = gen - 1
            /\ inp' = RandomElement(SingleEdits(inp, A, {}, 4) \cup {Append(inp, t) : t \in Alpha})
            /\ UNCHANGED <<pos, tok, nw, ntrees, outcome, depth, tsr>>

Between ==  \* _parse_tree_statement, before the statement: skip ';', stop at the end of the stream
    /\ gen = 0 /\ outcome = "none" /\ nw.st = "idle"
    /\ IF tok = EOF THEN outcome' = "Ok" /\ Stay /\ UNCHANGED <<nw, depth>>
       ELSE IF tok \in {";", ""} THEN Advance /\ UNCHANGED <<nw, outcome, depth>>
       ELSE nw' = NwBegin(tok) /\ depth' = 1 /\ Stay /\ UNCHANGED outcome
    /\ UNCHANGED <<inp, ntrees, gen, tsr>>
Inside ==
    /\ gen = 0 /\ outcome = "none" /\ nw.st = "run"
    /\ LET n == NwStep(nw, tok, tsr) IN
         /\ nw' = n /\ depth' = NwDepth(n)
         /\ IF n.adv = 1 THEN Advance ELSE Stay
         /\ outcome' = IF NwDepth(n) > RecLimit THEN "InternalError" ELSE outcome
    /\ UNCHANGED <<inp, ntrees, gen, tsr>>
Finish ==
    /\ gen = 0 /\ outcome = "none" /\ nw.st \in {"ok", "err"}
    /\ IF nw.st = "ok" THEN ntrees' = ntrees + 1 /\ nw' = NwIdle /\ depth' = 0 /\ UNCHANGED outcome
       ELSE outcome' = "ParseError" /\ UNCHANGED <<ntrees, nw, depth>>
    /\ UNCHANGED <<inp, pos, tok, gen, tsr>>
Next == Generate \/ Between \/ Inside \/ Finish
Spec == Init /\ [][Next]_vars /\ WF_vars(Next)

Termination == <>(outcome # "none")
OutcomeDocumented == outcome \in {"none", "Ok", "ParseError"}
DepthIsNesting == depth <= OpenCount(inp) + 1 /\ nw.maxd <= OpenCount(inp) + 1
NestNonNegative == nw.nest >= 0          \* hence the shipped test `nesting != 0` is the same as `nesting > 0`
NoTreeLost == outcome = "Ok" => nw.st = "idle"
=============================================================================
