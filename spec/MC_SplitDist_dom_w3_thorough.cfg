SPECIFICATION Spec
CONSTANTS
  N = 4
  MaxTrees = 2
  NW = 3
  NT = 5
  Observe = FALSE
  ObserveFrom = 1
  TrackDist = FALSE
  TrackOperand = FALSE
  AdoptLists = FALSE
  BookkeepFirst = FALSE
  CacheChecksCount = TRUE
INVARIANT GraphAgrees
CHECK_DEADLOCK FALSE
