SPECIFICATION Spec
CONSTANTS
  MaxOps = 4
  EditsUpTo = 3
  StartPairs = {1, 2, 3, 4}
  MaxEdits = 2
  DistKinds = {"rf", "fpn", "missing", "wrf", "euc"}
  NsCheckFirst = TRUE
  ReencodeBoth = TRUE
INVARIANT WF
PROPERTY DefaultFresh
PROPERTY DefaultRefreshes
PROPERTY FlagUsesCaches
PROPERTY FlagOnFreshIsCurrent
PROPERTY EditsKeepCaches
PROPERTY DiffNsRefused
CHECK_DEADLOCK FALSE
