------------------------------ MODULE SplitDist ------------------------------
(***************************************************************************)
(* C05 - split frequencies, consensus trees and support annotations.       *)
(*                                                                         *)
(* Abstract state of a SplitDistribution (record D):                       *)
(*   n      number of trees counted            (total_trees_counted)       *)
(*   sumW   sum of the weights used, <<num,den>> (sum_of_tree_weights)     *)
(*   roots  rooting states counted, subset of {0,1}                        *)
(*   cnt    split |-> weighted count <<num,den>>  (split_counts)           *)
(*   len    split |-> sequence (bag) of edge lengths * LS, -1 = None       *)
(*   age    split |-> sequence (bag) of node ages * LS                     *)
(* A split is a set of taxon codes: the clade for rooted trees, the side   *)
(* without the lowest taxon for unrooted trees (TreeBase!Norm).            *)
(* Numbers are exact rationals <<num, den>>, den > 0 (TLC has 32-bit       *)
(* integers: equality is decided on lowest terms, never by cross products  *)
(* of observed values).  <<_, 0>> marks "no value observed".               *)
(* The operators are pure; MC_SplitDist turns them into a state machine    *)
(* (CountTree / Update / Freq / Consensus / Collapse / Cred) and           *)
(* Trace_SplitDist evaluates the same operators on logged executions.      *)
(***************************************************************************)
EXTENDS TreeBase

LS == 4     \* length scale of the projection (harness/vlib/proj.LSCALE)

\* ------------------------------------------------------------ rationals
RECURSIVE Gcd(_, _)
Gcd(a, b) == IF b = 0 THEN a ELSE Gcd(b, a % b)
AbsI(x) == IF x < 0 THEN 0 - x ELSE x
RNorm(r) == LET k == Gcd(AbsI(r[1]), AbsI(r[2])) IN
            IF k = 0 THEN <<r[1], r[2]>> ELSE <<r[1] \div k, r[2] \div k>>
RHas(r) == r[2] > 0
RAdd(a, b) == RNorm(<<a[1] * b[2] + b[1] * a[2], a[2] * b[2]>>)
RMul(a, b) == RNorm(<<a[1] * b[1], a[2] * b[2]>>)
RDiv(a, b) == RNorm(<<a[1] * b[2], a[2] * b[1]>>)          \* b > 0
RLe(a, b) == a[1] * b[2] <= b[1] * a[2]
RLt(a, b) == a[1] * b[2] < b[1] * a[2]
REq(a, b) == RHas(a) /\ RHas(b) /\ RNorm(a) = RNorm(b)
RZero == <<0, 1>>
ROne == <<1, 1>>

\* thresholds <<num, den, strict>>: strict = 1 stands for "the least float above num/den"
\* (constants.GREATER_THAN_HALF): a frequency reaches it iff it is > num/den
ThrQ(thr) == <<thr[1], thr[2]>>
Reaches(f, thr) == IF thr[3] = 1 THEN RLt(ThrQ(thr), f) ELSE RLe(ThrQ(thr), f)
AboveHalf(thr) == 2 * thr[1] > thr[2] \/ (2 * thr[1] = thr[2] /\ thr[3] = 1)

\* ------------------------------------------------------------ splits of a tree
RootingOf(g) == IF g.rooted = 1 THEN 1 ELSE 0
NodeSplit(g, x, r) == IF r = 1 THEN LeafTx(g, x) ELSE Norm(LeafTx(g, x), TreeTx(g))
SplitsAs(g, r) == {NodeSplit(g, x, r) : x \in Nodes(g)}
NonTriv(s, all, r) == IF r = 1 THEN Cardinality(s) > 1 /\ s # all
                      ELSE Cardinality(s) > 1 /\ Cardinality(all \ s) > 1
NonTrivOf(S, all, r) == {s \in S : NonTriv(s, all, r)}
Compat(a, b) == a \cap b = {} \/ a \subseteq b \/ b \subseteq a
PairwiseCompat(S) == \A a, b \in S : Compat(a, b)

\* the length a tree contributes for a split: the edges inducing it taken together (a
\* unifurcation chain, or the two basal edges of an unrooted tree); dl when none has a length
SplitLenIn(g, s, r, dl) ==
    LET V == {x \in Nodes(g) : NodeSplit(g, x, r) = s /\ g.len[x] >= 0}
    IN IF V = {} THEN dl ELSE SumFn(V, [x \in V |-> g.len[x]])
NodeAge(g, x) == LET below == Desc(g, x) IN
                 Max({RootDist(g, y) - RootDist(g, x) : y \in {z \in Leaves(g) : z \in below}})
\* age of a clade = age of its most recent common ancestor (the lowest node with that leaf set)
SplitAgeIn(g, s) == Min({NodeAge(g, x) : x \in {y \in Nodes(g) : LeafTx(g, y) = s}})

\* ------------------------------------------------------------ the distribution
EmptyDist == [n |-> 0, sumW |-> RZero, roots |-> {}, cnt |-> [s \in {} |-> RZero],
              len |-> [s \in {} |-> <<>>], age |-> [s \in {} |-> <<>>]]
GetOr(f, s, dflt) == IF s \in DOMAIN f THEN f[s] ELSE dflt
\* weight actually used: tree.weight unless None (den 0) or weights are switched off
EffW(w, uw) == IF uw /\ w[2] > 0 THEN RNorm(w) ELSE ROne

\* what a tree contributes: its rooting, its splits, and per split the length / node age it carries
\* (dl: value recorded for an edge without length, -1 None / 0; ages only when ag)
AbsTree(g, dl, ag) ==
    LET r == RootingOf(g)
        S == SplitsAs(g, r)
    IN [r |-> r, S |-> S, len |-> [s \in S |-> SplitLenIn(g, s, r, dl)],
        age |-> [s \in S |-> IF ag THEN SplitAgeIn(g, s) ELSE 0]]
\* count_splits_on_tree: w effective weight, el / ag: lengths / ages are stored
CountAbs(D, t, w, el, ag) ==
    LET dom == DOMAIN D.cnt \cup t.S
    IN [n |-> D.n + 1, sumW |-> RAdd(D.sumW, w), roots |-> D.roots \cup {t.r},
        cnt |-> [s \in dom |-> IF s \in t.S THEN RAdd(GetOr(D.cnt, s, RZero), w) ELSE D.cnt[s]],
        len |-> [s \in dom |-> GetOr(D.len, s, <<>>) \o (IF el /\ s \in t.S THEN <<t.len[s]>> ELSE <<>>)],
        age |-> [s \in dom |-> GetOr(D.age, s, <<>>) \o (IF ag /\ s \in t.S THEN <<t.age[s]>> ELSE <<>>)]]
CountOp(D, g, w, dl, el, ag) == CountAbs(D, AbsTree(g, dl, ag), w, el, ag)

\* update(other)
UpdateOp(D, O) ==
    LET dom == DOMAIN D.cnt \cup DOMAIN O.cnt
    IN [n |-> D.n + O.n, sumW |-> RAdd(D.sumW, O.sumW), roots |-> D.roots \cup O.roots,
        cnt |-> [s \in dom |-> RAdd(GetOr(D.cnt, s, RZero), GetOr(O.cnt, s, RZero))],
        len |-> [s \in dom |-> GetOr(D.len, s, <<>>) \o GetOr(O.len, s, <<>>)],
        age |-> [s \in dom |-> GetOr(D.age, s, <<>>) \o GetOr(O.age, s, <<>>)]]

\* the definition the property states: the weighted fraction of the counted trees that contain the split.
\* trees: sequence of [S |-> splits of the tree, w |-> effective weight]
RECURSIVE TotW(_)
TotW(trees) == IF trees = <<>> THEN RZero ELSE RAdd(Head(trees).w, TotW(Tail(trees)))
RECURSIVE WithW(_, _)
WithW(trees, s) == IF trees = <<>> THEN RZero
                   ELSE RAdd(IF s \in Head(trees).S THEN Head(trees).w ELSE RZero, WithW(Tail(trees), s))
DefFreq(trees, s) == IF TotW(trees)[1] = 0 THEN RZero ELSE RDiv(WithW(trees, s), TotW(trees))
DefSplits(trees) == UNION {trees[i].S : i \in 1..Len(trees)}

NormW(D) == IF D.sumW[1] = 0 THEN <<D.n, 1>> ELSE D.sumW
FreqOf(D, s) == IF s \notin DOMAIN D.cnt THEN RZero
                ELSE IF D.n = 0 THEN ROne ELSE RDiv(D.cnt[s], NormW(D))
ExactFreqs(D) == [s \in DOMAIN D.cnt |-> FreqOf(D, s)]
FreqIn(F, s) == IF s \in DOMAIN F THEN F[s] ELSE RZero

BagEq(a, b) == Len(a) = Len(b) /\ BagOfSeq(a) = BagOfSeq(b)
\* components in which two distribution states differ
DistDiff(A, B) ==
    (IF A.n # B.n THEN {"n"} ELSE {})
    \cup (IF RNorm(A.sumW) # RNorm(B.sumW) THEN {"sumW"} ELSE {})
    \cup (IF A.roots # B.roots THEN {"roots"} ELSE {})
    \cup (IF DOMAIN A.cnt # DOMAIN B.cnt THEN {"splits"}
          ELSE (IF \E s \in DOMAIN A.cnt : RNorm(A.cnt[s]) # RNorm(B.cnt[s]) THEN {"cnt"} ELSE {})
               \cup (IF \E s \in DOMAIN A.cnt : ~BagEq(GetOr(A.len, s, <<>>), GetOr(B.len, s, <<>>)) THEN {"len"} ELSE {})
               \cup (IF \E s \in DOMAIN A.cnt : ~BagEq(GetOr(A.age, s, <<>>), GetOr(B.age, s, <<>>)) THEN {"age"} ELSE {}))

\* ------------------------------------------------------------ consensus clauses
\* F: split |-> frequency table, all: taxa of the namespace, r: rooting of the inputs, g: result
Cands(F, thr, all, r) == {s \in DOMAIN F : NonTriv(s, all, r) /\ Reaches(F[s], thr)}
ResultSplits(g, all, r) == NonTrivOf(SplitsAs(g, r), all, r)

MajorityRuleClass(F, thr, all, r, g) ==
    LET R == ResultSplits(g, all, r)  C == Cands(F, thr, all, r) IN
    IF R = C THEN "ok"
    ELSE IF \E s \in R \ C : TRUE THEN "split-below-threshold-included" ELSE "split-reaching-threshold-missing"

GreedyMaximalClass(F, thr, all, r, g) ==
    LET R == ResultSplits(g, all, r)  C == Cands(F, thr, all, r) IN
    IF ~(R \subseteq C) THEN "split-below-threshold-included"
    ELSE IF ~PairwiseCompat(R) THEN "incompatible-splits"
    ELSE IF \E c \in C \ R : \A s \in R : Compat(c, s) THEN "not-maximal"
    ELSE IF \E c \in C \ R : ~\E s \in R : ~Compat(c, s) /\ RLe(F[c], F[s]) THEN "not-in-decreasing-frequency-order"
    ELSE "ok"

SpansClass(g, ns) ==
    LET lv == LeafSeq(g, g.seed) IN
    IF \E x \in Internals(g) : g.tx[x] # 0 THEN "taxon-on-internal-node"
    ELSE IF \E i \in 1..Len(lv) : g.tx[lv[i]] \notin ns THEN "leaf-without-namespace-taxon"
    ELSE IF \E t \in ns : Cardinality({i \in 1..Len(lv) : g.tx[lv[i]] = t}) # 1 THEN "taxon-not-exactly-once"
    ELSE "ok"

\* ------------------------------------------------------------ summaries (bags of scaled integers)
Kth(q, k) == CHOOSE v \in SeqToSet(q) :
                 /\ Cardinality({i \in 1..Len(q) : q[i] < v}) < k
                 /\ k <= Cardinality({i \in 1..Len(q) : q[i] <= v})
Numeric(q) == q # <<>> /\ \A i \in 1..Len(q) : q[i] >= 0
MeanOf(q) == RNorm(<<SumSeq(q), Len(q) * LS>>)
MedianOf(q) == LET n == Len(q) IN
               IF n % 2 = 1 THEN RNorm(<<Kth(q, (n + 1) \div 2), LS>>)
               ELSE RNorm(<<Kth(q, n \div 2) + Kth(q, n \div 2 + 1), 2 * LS>>)
MinOf(q) == RNorm(<<Min(SeqToSet(q)), LS>>)
MaxOf(q) == RNorm(<<Max(SeqToSet(q)), LS>>)
SumSq(q) == SumSeq([i \in 1..Len(q) |-> q[i] * q[i]])
\* sample variance (n >= 2): (n*ss - s^2) / (n (n-1) LS^2)
VarOf(q) == LET n == Len(q) IN RNorm(<<n * SumSq(q) - SumSeq(q) * SumSeq(q), n * (n - 1) * LS * LS>>)

\* ------------------------------------------------------------ collapse clause
\* g0 target before, g1 after; F frequency table; the internal edges to go are those below thr
LowNodes(g0, F, thr, r) == {x \in Internals(g0) \ {g0.seed} : ~Reaches(FreqIn(F, NodeSplit(g0, x, r)), thr)}
\* Encoding an unrooted tree whose seed has two children merges the two basal edges first (the seed moves):
\* root-to-tip distances are then not defined by the property and dist = FALSE is passed.
BasalBifurcation(g, r) == r = 0 /\ Len(g.kids[g.seed]) = 2
CollapseClass(g0, g1, F, thr, r, dist) ==
    LET low == LowNodes(g0, F, thr, r)
        all == TreeTx(g0)
        S1 == SplitsAs(g1, r)
    IN IF LeafTaxaBag(g1) # LeafTaxaBag(g0) THEN "leaves-changed"
       ELSE IF \E x \in Internals(g1) \ {g1.seed} : ~Reaches(FreqIn(F, NodeSplit(g1, x, r)), thr) THEN "weak-edge-kept"
       ELSE IF \E x \in Nodes(g0) \ low : NodeSplit(g0, x, r) \notin S1 THEN "supported-edge-removed"
       ELSE IF \E s \in S1 : s \notin SplitsAs(g0, r) THEN "edge-added"
       ELSE IF dist /\ \E t \in all : RootDist(g1, TaxLeaf(g1, t)) # RootDist(g0, TaxLeaf(g0, t)) THEN "root-to-tip-distance-changed"
       ELSE "ok"

\* ------------------------------------------------------------ credibility
\* ranks: dense ranks of the scores the collection reports (one per counted tree);
\* tops: the split sets of the counted trees; the clause binds only when the maximiser is unique
ArgMaxSet(ranks) == {i \in 1..Len(ranks) : \A j \in 1..Len(ranks) : ranks[j] <= ranks[i]}
MaxCredOK(ranks, tops, S) ==
    LET M == ArgMaxSet(ranks) IN Cardinality(M) = 1 => S = tops[CHOOSE i \in M : TRUE]
\* exact scores over the informative splits of a counted tree (root edge counts with frequency 1)
RECURSIVE SumFreqs(_, _)
SumFreqs(F, T) == IF T = {} THEN RZero ELSE LET s == CHOOSE s \in T : TRUE IN RAdd(FreqIn(F, s), SumFreqs(F, T \ {s}))
SumScore(F, S, all, r) == SumFreqs(F, NonTrivOf(S, all, r))

\* ------------------------------------------------------------ reference operations (model side only)
\* greedy consensus: candidates in decreasing frequency, ties in an arbitrary fixed order
RECURSIVE GreedyAcc(_, _, _)
GreedyAcc(F, rem, acc) ==
    IF rem = {} THEN acc
    ELSE LET c == CHOOSE x \in rem : \A y \in rem : RLe(F[y], F[x])
         IN GreedyAcc(F, rem \ {c}, IF \A a \in acc : Compat(a, c) THEN acc \cup {c} ELSE acc)
RefConsensusSplits(F, thr, all, r) == GreedyAcc(F, Cands(F, thr, all, r), {})

\* graph form of a hierarchy H of non-trivial clades over `all` (root first, larger clades first);
\* lenOf: clade |-> scaled length (-1 None)
CladeKey(c, all) == (Cardinality(all) + 1 - Cardinality(c)) * (Max(all) + 1) + Min(c)
RECURSIVE SortClades(_, _)
SortClades(S, all) == IF S = {} THEN <<>>
                      ELSE LET m == CHOOSE x \in S : \A y \in S : CladeKey(x, all) <= CladeKey(y, all)
                           IN <<m>> \o SortClades(S \ {m}, all)
RECURSIVE AscSeq(_)
AscSeq(S) == IF S = {} THEN <<>> ELSE <<Min(S)>> \o AscSeq(S \ {Min(S)})
GraphOfClades(H, all, lenOf, rooted) ==
    LET cs == SortClades({all} \cup H \cup {{t} : t \in all}, all)
        n == Len(cs)
        parOf(i) == IF i = 1 THEN 0
                    ELSE CHOOSE p \in 1..n : /\ cs[i] \subseteq cs[p] /\ cs[i] # cs[p]
                                             /\ \A q \in 1..n : (cs[i] \subseteq cs[q] /\ cs[i] # cs[q]) => cs[p] \subseteq cs[q]
        par == [i \in 1..n |-> parOf(i)]
    IN [n |-> n, seed |-> 1, kids |-> [i \in 1..n |-> AscSeq({j \in 1..n : par[j] = i})], par |-> par,
        eh |-> [i \in 1..n |-> i], eid |-> [i \in 1..n |-> i],
        tx |-> [i \in 1..n |-> IF Cardinality(cs[i]) = 1 THEN CHOOSE t \in cs[i] : TRUE ELSE 0],
        len |-> [i \in 1..n |-> lenOf[cs[i]]], lab |-> [i \in 1..n |-> ""], rooted |-> rooted]

\* collapse of a set of internal non-seed nodes: children move up, lengths are added onto them
RECURSIVE KeptAnc(_, _, _)
KeptAnc(g, low, x) == IF g.par[x] \notin low THEN g.par[x] ELSE KeptAnc(g, low, g.par[x])
RECURSIVE LenUp(_, _, _)
LenUp(g, low, x) == IF g.par[x] \notin low THEN 0 ELSE L0(g, g.par[x]) + LenUp(g, low, g.par[x])
CollapseRef(g, low) ==
    LET K == AscSeq(Nodes(g) \ low)
        n == Len(K)
        newId(x) == IF x = 0 THEN 0 ELSE CHOOSE i \in 1..n : K[i] = x
        par == [i \in 1..n |-> IF g.par[K[i]] = 0 THEN 0 ELSE newId(KeptAnc(g, low, K[i]))]
    IN [n |-> n, seed |-> newId(g.seed), kids |-> [i \in 1..n |-> AscSeq({j \in 1..n : par[j] = i})], par |-> par,
        eh |-> [i \in 1..n |-> i], eid |-> [i \in 1..n |-> i], tx |-> [i \in 1..n |-> g.tx[K[i]]],
        len |-> [i \in 1..n |-> IF g.par[K[i]] = 0 THEN g.len[K[i]]
                               ELSE IF g.len[K[i]] < 0 /\ LenUp(g, low, K[i]) = 0 THEN g.len[K[i]]
                               ELSE L0(g, K[i]) + LenUp(g, low, K[i])],
        lab |-> [i \in 1..n |-> ""], rooted |-> g.rooted]
=============================================================================
