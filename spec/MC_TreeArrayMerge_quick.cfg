SPECIFICATION Spec
CONSTANTS
  NArr = 3
  Sample <- SampleQuick
  Shipped = FALSE
  MergeOps = {"update", "extend", "add"}
  Configs <- ConfigsUniform
  Positions = TRUE
INVARIANT PerTreeListsAligned
INVARIANT SummaryOfBagOnly
INVARIANT NoMergeFailure
INVARIANT PerTreeQueriesEnabled
INVARIANT RootingKept
INVARIANT NothingLost
INVARIANT SettingsKept
PROPERTY OperandsUnchanged
CHECK_DEADLOCK FALSE
