SPECIFICATION Spec
CONSTANTS
  NArr = 3
  Sample <- SampleQuick
  Shipped = FALSE
  MergeOps = {"update", "extend", "iadd", "add"}
  Configs <- ConfigsUniform
  Positions = TRUE
INVARIANT PerTreeListsAligned
INVARIANT SummaryOfBagOnly
INVARIANT NoMergeFailure
INVARIANT PerTreeQueriesEnabled
INVARIANT RootingKept
INVARIANT NothingLost
PROPERTY OperandsUnchanged
CHECK_DEADLOCK FALSE
