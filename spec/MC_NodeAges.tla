---------------------------- MODULE MC_NodeAges ----------------------------
(***************************************************************************)
(* Bounded model for C17.  A state is an ordered tree (preorder parent     *)
(* array) with integer node heights (tips at 0), the edge lengths derived  *)
(* from them (HU length units per height unit: ultrametric by construction)*)
(* and up to MaxPert tips whose length was perturbed by prec-1, prec or    *)
(* prec+1 length units (either sign) for a precision prec \in Precs.       *)
(* (only trees with <= PertUnif single-child nodes and root height <=      *)
(* PertMaxH are perturbed).                                                *)
(* Trees are grown by splitting a tip into m >= 2 children and by          *)
(* inserting at most MaxUnif single-child nodes, so every ordered tree     *)
(* with <= MaxLeaves tips (polytomies, zero-length edges, ties between     *)
(* node heights included) with heights <= MaxH is reached exactly once.    *)
(* The harness replays every dumped state on real dendropy objects.        *)
(***************************************************************************)
EXTENDS NodeAges
CONSTANTS MaxLeaves, MaxH, HU, Precs, MaxUnif, MaxPert, PertUnif, PertMaxH
VARIABLE s      \* [par, ht, len, np, tip, delta, prec]

N(st) == Len(st.par)
IsTip(st, x) == \A i \in 1..N(st) : st.par[i] # x
NTips(st) == Cardinality({x \in 1..N(st) : IsTip(st, x)})
NUnif(st) == Cardinality({x \in 1..N(st) : Cardinality({i \in 1..N(st) : st.par[i] = x}) = 1})
LensOf(par, ht) == [i \in 1..Len(par) |-> IF par[i] = 0 THEN -1 ELSE HU * (ht[par[i]] - ht[i])]
G(st) == MkTree(st.par, [i \in 1..N(st) |-> i], st.len, 1)
Mk(par, ht) == [par |-> par, ht |-> ht, len |-> LensOf(par, ht), np |-> 0, tip |-> 0, delta |-> 0, prec |-> 0]

Init == s = Mk(<<0>>, <<0>>)

\* tip x becomes an internal node of height h with m new tips as children
Split(x, m, h) ==
    /\ s.np = 0 /\ x \in 1..N(s) /\ IsTip(s, x)
    /\ NTips(s) - 1 + m <= MaxLeaves
    /\ s.par[x] # 0 => h <= s.ht[s.par[x]]
    /\ LET n == N(s)
           par == [j \in 1..(n + m) |-> IF j <= x THEN s.par[j]
                                        ELSE IF j <= x + m THEN x
                                        ELSE IF s.par[j - m] > x THEN s.par[j - m] + m ELSE s.par[j - m]]
           ht == [j \in 1..(n + m) |-> IF j < x THEN s.ht[j] ELSE IF j = x THEN h
                                       ELSE IF j <= x + m THEN 0 ELSE s.ht[j - m]]
       IN s' = Mk(par, ht)

\* a single-child node of height h is inserted above x
Unif(x, h) ==
    /\ s.np = 0 /\ x \in 1..N(s) /\ NUnif(s) < MaxUnif
    /\ h >= s.ht[x] /\ (s.par[x] # 0 => h <= s.ht[s.par[x]])
    /\ LET n == N(s)
           par == [j \in 1..(n + 1) |-> IF j < x THEN s.par[j] ELSE IF j = x THEN s.par[x]
                                        ELSE IF j = x + 1 THEN x
                                        ELSE IF s.par[j - 1] >= x THEN s.par[j - 1] + 1 ELSE s.par[j - 1]]
           ht == [j \in 1..(n + 1) |-> IF j < x THEN s.ht[j] ELSE IF j = x THEN h ELSE s.ht[j - 1]]
       IN s' = Mk(par, ht)

Deltas(p) == {d \in {p - 1, p, p + 1, 1 - p, 0 - p, 0 - p - 1} : d # 0}
Perturb(x, p, d) ==
    /\ s.np < MaxPert /\ x \in 2..N(s) /\ IsTip(s, x) /\ NTips(s) >= 2 /\ NUnif(s) <= PertUnif /\ s.ht[1] <= PertMaxH
    /\ (s.np > 0 => p = s.prec /\ x > s.tip)
    /\ d \in Deltas(p) /\ s.len[x] + d >= 0
    /\ s' = [s EXCEPT !.len[x] = @ + d, !.np = @ + 1, !.tip = x, !.delta = d, !.prec = p]

MaxNodes == 2 * MaxLeaves - 1 + MaxUnif
MaxPrec1 == Max(Precs) + 1
Next == \/ \E x \in 1..MaxNodes : \E m \in 2..MaxLeaves : \E h \in 1..MaxH : Split(x, m, h)
        \/ \E x \in 1..MaxNodes : \E h \in 1..MaxH : Unif(x, h)
        \/ \E x \in 2..MaxNodes : \E p \in Precs : \E d \in (0 - MaxPrec1)..MaxPrec1 : Perturb(x, p, d)
Spec == Init /\ [][Next]_s

\* ------------------------------------------------------------------ properties of the reference definitions
PrecOf(p) == <<p, LScale>>          \* p length units as a rational in real units

\* the two definitions of the tip-distance sets agree; forced ages are their extremes; the tree is a tree
DefsSound ==
    LET g == G(s) IN
    /\ WellFormed(g)
    /\ \A x \in Nodes(g) : /\ TipDist(g, x) = TipDistUp(g, x)
                           /\ ForcedMaxAge(g, x) = Max(TipDist(g, x))
                           /\ ForcedMinAge(g, x) = Min(TipDist(g, x))
                           /\ AgeOk(g, x, ShippedAge(g, x))
    /\ (Ultrametric(g, PrecOf(s.prec)) <=> PathsAgree(g, PrecOf(s.prec)))
    /\ ResolvedAge(g, g.seed) = ForcedMaxAge(g, g.seed)

\* trees built from heights: exactly ultrametric, age = height, depth + age = root height,
\* ages o EdgeLengthsFromAges = identity (both ways round)
UltrametricByConstruction ==
    s.np = 0 =>
    LET g == G(s)
        hts == [x \in 1..g.n |-> HU * s.ht[x]] IN
    /\ Ultrametric(g, RZero) /\ ShippedAccepts(g, RZero)
    /\ \A p \in Precs : Ultrametric(g, PrecOf(p))
    /\ \A x \in Nodes(g) : /\ TipDist(g, x) = {hts[x]}
                           /\ Depth(g, x) + hts[x] = hts[g.seed]
                           /\ ResolvedAge(g, x) = hts[x]
    /\ EdgeLengthsFromAges(g, hts, NoClamp) = g.len
    /\ EdgeLengthsFromAges(g, hts, [hasmin |-> TRUE, min |-> 0, err |-> TRUE]) = g.len
    /\ ~EdgeLengthsError(g, hts, [hasmin |-> FALSE, min |-> 0, err |-> TRUE])

\* one perturbed tip: accepted exactly when |delta| <= prec, on both sides of the threshold,
\* and the shipped first-child rule agrees with the definition
ThresholdExact ==
    s.np = 1 =>
    LET g == G(s) IN
    /\ (Ultrametric(g, PrecOf(s.prec)) <=> NaAbs(s.delta) <= s.prec)
    /\ (NaAbs(s.delta) = s.prec + 1 => ~Ultrametric(g, PrecOf(s.prec)))
    /\ ~Ultrametric(g, RZero)
    /\ Spread(g, g.seed) = NaAbs(s.delta)

\* the rule as shipped never rejects a tree within the precision ...
ShippedComplete == LET g == G(s) IN Ultrametric(g, PrecOf(s.prec)) => ShippedAccepts(g, PrecOf(s.prec))
\* ... and (reference design) never accepts one outside it.  Holds with one perturbed tip; with two the
\* first-child comparison lets deviations accumulate (AsShipped_NodeAges.cfg: TLC must find it).
ShippedSound == LET g == G(s) IN ShippedAccepts(g, PrecOf(s.prec)) => Ultrametric(g, PrecOf(s.prec))

\* forcing: the ages are realisable - setting the edge lengths from forced-max ages gives an exactly
\* ultrametric tree with those ages, never shorter edges; forced-min ages never lengthen an edge
ForcedAgesRealisable ==
    LET g == G(s)
        mx == [x \in 1..g.n |-> ForcedMaxAge(g, x)]
        mn == [x \in 1..g.n |-> ForcedMinAge(g, x)]
        gx == WithLens(g, EdgeLengthsFromAges(g, mx, NoClamp))
    IN /\ Ultrametric(gx, RZero)
       /\ \A x \in Nodes(g) : ForcedMaxAge(gx, x) = mx[x] /\ mn[x] <= mx[x]
       /\ \A x \in NonRoot(g) : gx.len[x] >= g.len[x] /\ RawLenFromAges(g, mn, NoClamp, x) <= g.len[x]
       /\ (Ultrametric(g, RZero) => mn = mx)

\* lineages: the edge-crossing count equals the lineage-through-time count from the branching events
\* (trees with positive edges), is 0 at the root and beyond the deepest tip, and the number of tips at the
\* tip depth of an ultrametric tree
LineagesSound ==
    LET g == G(s)
        top == 2 * Max(LeafDepths(g)) IN
    /\ Lineages(g, top + 1) = 0
    /\ ((\A x \in NonRoot(g) : g.len[x] > 0) =>
            /\ \A d2 \in 0..(top + 1) : Lineages(g, d2) = LineagesByBranching(g, d2)
            /\ Lineages(g, 0) = 0
            /\ (g.n > 1 => Lineages(g, 1) = Len(g.kids[g.seed]))
            /\ (s.np = 0 /\ g.n > 1 => Lineages(g, top) = NLeaves(g)))
    /\ \A d2 \in 0..(top + 1) : Lineages(g, d2) <= g.n - 1

\* statistics: independent forms agree, bounds of the published statistics, invariance under any
\* permutation of children (adjacent transpositions generate them all)
StatsSound ==
    s.np = 0 =>
    LET g == G(s)
        n == NLeaves(g) IN
    /\ Sackin(g) = SackinByClades(g)
    /\ Length(g) = SubtendedLen(g)                             \* the root edge is None in the model
    /\ (IsBinary(g) /\ n >= 3 => Colless(g) >= 0 /\ RLeq(CollessMax(g), RInt(1)))
    /\ (SubtendedLen(g) > 0 => RLeq(RZero, Treeness(g)) /\ RLeq(Treeness(g), RInt(1)))
    /\ (GammaDefined(g) => GammaParts(g).T = SubtendedLen(g))  \* sum_k k g_k = total branch length
    /\ RLeq(B1(g), RInt(Cardinality(Internals(g))))
ChildOrderFree ==
    s.np = 0 =>
    LET g == G(s) IN
    \A x \in Internals(g) : \A i \in 1..(Len(g.kids[x]) - 1) :
        LET h == SwapKids(g, x, i) IN
        /\ Stats(h) = Stats(g)
        /\ Unordered(h, h.seed) = Unordered(g, g.seed)
        /\ \A y \in Nodes(g) : TipDist(h, y) = TipDist(g, y) /\ Depth(h, y) = Depth(g, y)
        /\ \A d2 \in 0..(2 * Max(LeafDepths(g)) + 1) : Lineages(h, d2) = Lineages(g, d2)
=============================================================================
