SPECIFICATION Spec
CONSTANTS
  MaxOps = 2
  Groups = {"list", "listns", "tree", "arr", "mat", "ds", "memo", "seed"}
  Big = FALSE
  Focus = ""
  Wide = FALSE
  ShipDsAdd = TRUE
  ShipMatPartial = FALSE
  ShipCloneDrop = FALSE
INVARIANT SaneInv
INVARIANT ClosureInv
INVARIANT RemovedKeepConsistentNs
PROPERTY LabelFunctional
PROPERTY ArrayRefusesForeign
CHECK_DEADLOCK FALSE
