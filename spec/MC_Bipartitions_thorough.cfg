SPECIFICATION Spec
CONSTANT NormOnBit0 = FALSE
CONSTANT MaxN = 8
CONSTANT MaxL = 5
CONSTANT LeafSets = {{1}, {2}, {1,2}, {2,3}, {1,3}, {1,2,3}, {2,3,5}, {1,3,4}, {1,2,3,4}, {2,3,4,5}, {1,2,4,5}, {1,2,3,4,5}, {2,3,4,5,6}}
CONSTANT Extras = {{1,7}, {4,7}, {6,7}}
CONSTANT ExtraMaxL = 5
INVARIANT InputsOk
INVARIANT IffAsFunctions
INVARIANT Restriction
INVARIANT Reconstruction
INVARIANT Predicates
CHECK_DEADLOCK FALSE
