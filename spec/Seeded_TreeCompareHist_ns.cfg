SPECIFICATION Spec
CONSTANTS
  MaxOps = 3
  EditsUpTo = 2
  StartPairs = {1, 2}
  MaxEdits = 1
  DistKinds = {"fpn", "missing", "wrf"}
  NsCheckFirst = FALSE
  ReencodeBoth = TRUE
INVARIANT WF
PROPERTY DefaultFresh
PROPERTY DefaultRefreshes
PROPERTY FlagUsesCaches
PROPERTY FlagOnFreshIsCurrent
PROPERTY EditsKeepCaches
PROPERTY DiffNsRefused
CHECK_DEADLOCK FALSE
