SPECIFICATION Spec
CONSTANTS
  MaxFiles = 3
  MaxWorkers = 3
  FileSizes = {1}
  ShippedUpdate = FALSE
  Protocol = "sentinel"
  AsyncFeeder = TRUE
  Rootings <- RootingsUnrooted
CHECK_DEADLOCK FALSE
