SPECIFICATION Spec
CONSTANTS
  N = 4
  MaxTrees = 3
  NW = 2
  NT = 5
  Observe = TRUE
  ObserveFrom = 3
  TrackDist = TRUE
  TrackOperand = FALSE
  AdoptLists = FALSE
  BookkeepFirst = FALSE
  CacheChecksCount = TRUE
INVARIANT CacheFresh
INVARIANT GraphAgrees
INVARIANT FreqExact
INVARIANT MergeExact
INVARIANT ObservedOK
INVARIANT SummariesSane
CHECK_DEADLOCK FALSE
