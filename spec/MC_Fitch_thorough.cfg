SPECIFICATION SpecT
CONSTANTS
  K = 3
  MaxLeaves = 5
  MaxLeaves2 = 4
  LargerFirstFrom = 5
  Cells1 <- AllCells
  Cells2 <- CellsSG
  Weights = {0, 1, 2}
  FullLeaves = 4
  RootMinLeaves = 4
  SMLeaves = 2
  SMLeaves2 = 2
  SMCells1 <- CellsS2
  SMCells2 <- CellsS2
  SMWeights = {2}
  MaxOps = 0
  PLeaves = 2
  PCells <- CellsS2
  TipsNarrowed = FALSE
  Shipped = FALSE
INVARIANT DomainOk
INVARIANT ThmMovesSound
INVARIANT ThmTable
CHECK_DEADLOCK FALSE
