---------------------------- MODULE MC_CharMatrix ----------------------------
(***************************************************************************)
(* Bounded model for C19: every history of at most MaxOps public matrix    *)
(* operations over the slots                                               *)
(*    1..3  matrices M1..M3 over namespace 1 (taxa 1..3)                   *)
(*    4     R, the matrix returned by the last concatenate / export        *)
(*    5     F, a matrix over the foreign namespace 2 (taxa 4..6)           *)
(* from the initial configurations in Configs.  Cell <<matrix i, taxon t,  *)
(* column c>> is the integer 100*i + 10*t + c: all cells are distinct.     *)
(* The clauses of the property are invariants quantified over every        *)
(* operation and argument applicable in the current state (that is, over   *)
(* every outgoing transition), written with the clause predicates of       *)
(* CharMatrix, not with the operators they are checked against.            *)
(***************************************************************************)
EXTENDS CharMatrix
CONSTANTS MaxOps,        \* history depth
          Configs,       \* initial configurations (subset of 1..3)
          ConcatLists,   \* argument lists of concatenate (sequences of slots)
          IndexSets,     \* index sets of export_character_indices
          Sizes,         \* size arguments of fill / pack (-1 = None)
          Labels,        \* labels the environment may assign
          Targets,       \* receivers of mutating operations
          TaxonSeqs      \* taxa arguments of remove / discard / keep: sequences, repeats allowed
VARIABLES mats, nops
vars == <<mats, nops>>

\* argument domains named by the configuration files (cfg syntax has no tuples)
ConcatListsFull ==
    {<<1>>, <<2>>, <<3>>, <<4>>, <<5>>, <<1, 1>>, <<1, 2>>, <<2, 1>>, <<1, 3>>, <<3, 1>>, <<3, 3>>, <<2, 3>>,
     <<1, 4>>, <<4, 1>>, <<4, 4>>, <<3, 4>>, <<1, 5>>, <<5, 1>>, <<5, 5>>, <<4, 5>>,
     <<1, 1, 1>>, <<1, 2, 3>>, <<3, 2, 1>>, <<1, 2, 1>>, <<2, 1, 1>>, <<3, 3, 3>>, <<1, 3, 2>>, <<1, 4, 2>>, <<4, 4, 4>>,
     <<1, 2, 5>>, <<5, 1, 2>>}
ConcatListsAll == UNION {[1..n -> 1..5] : n \in 1..3}
ConcatListsSmall == {<<1>>, <<4>>, <<1, 1>>, <<1, 2>>, <<3, 1>>, <<1, 4>>, <<1, 5>>, <<5, 5>>, <<1, 2, 3>>, <<3, 2, 1>>, <<1, 2, 1>>}
IndexSetsFull == (SUBSET {0, 1, 2}) \cup {{1, 3, 4}, {0, 5, 9}}
IndexSetsSmall == {{}, {1}, {0, 2}, {0, 1, 2}, {1, 3, 4}}
SizesFull == {-1, 2, 4}
SizesSmall == {-1, 2}
\* every list of at most two taxa (repeats included), and lists of three with and without repeats
TaxonSeqsFull == {<<>>} \cup UNION {[1..n -> {1, 2, 3}] : n \in 1..2}
                 \cup {<<1, 2, 3>>, <<3, 1, 2>>, <<1, 1, 2>>, <<1, 2, 1>>, <<2, 3, 3>>, <<3, 1, 3>>, <<2, 2, 2>>}
TaxonSeqsSmall == {<<>>, <<2>>, <<1, 3>>, <<3, 1>>, <<1, 2, 3>>, <<1, 1, 2>>, <<2, 3, 2>>, <<3, 3>>}

NsTaxa(n) == IF n = 1 THEN {1, 2, 3} ELSE {4, 5, 6}
PadValue == 0
NewVals == {<<>>, <<91, 92>>}
Slots == 1..5
RSlot == 4

Cell(i, t, c) == 100 * i + 10 * t + c
RowOf(i, t, w) == [c \in 1..w |-> Cell(i, t, c)]
\* widths: function taxon -> number of columns (domain = taxa that have a row)
Mat(i, label, ns, widths, subs) ==
    [label |-> label, ns |-> ns, rows |-> [t \in DOMAIN widths |-> RowOf(i, t, widths[t])], subs |-> subs]
Sub(name, idx) == [name |-> name, idx |-> idx]

InitMats(c) ==
    CASE c = 1 ->    \* full rectangular matrices, colliding labels: the domain of concatenate
           (1 :> Mat(1, "L", 1, [t \in {1, 2, 3} |-> 2], <<Sub("s", {1})>>)
         @@ 2 :> Mat(2, "l", 1, [t \in {1, 2, 3} |-> 1], <<>>)
         @@ 3 :> Mat(3, "", 1, [t \in {1, 2, 3} |-> 3], <<Sub("odd", {0, 2}), Sub("wide", {1, 2, 7})>>)
         @@ 5 :> Mat(5, "L", 2, [t \in {4, 5, 6} |-> 1], <<>>))
      [] c = 2 ->    \* partially overlapping taxon sets, ragged rows
           (1 :> Mat(1, "L", 1, (1 :> 2 @@ 2 :> 3), <<Sub("s", {0, 2})>>)
         @@ 2 :> Mat(2, "L", 1, (2 :> 1 @@ 3 :> 2), <<>>)
         @@ 3 :> Mat(3, "K", 1, (1 :> 0 @@ 3 :> 2), <<>>)
         @@ 5 :> Mat(5, "f", 2, (4 :> 1 @@ 5 :> 1), <<>>))
      [] c = 3 ->    \* an empty matrix, a one-taxon matrix, a full ragged one
           (1 :> Mat(1, "", 1, <<>>, <<>>)
         @@ 2 :> Mat(2, "locus001", 1, (2 :> 2), <<>>)
         @@ 3 :> Mat(3, "K", 1, (1 :> 1 @@ 2 :> 3 @@ 3 :> 2), <<Sub("s", {2})>>)
         @@ 5 :> Mat(5, "K", 2, [t \in {4, 5, 6} |-> 2], <<>>))

Init == /\ mats \in {InitMats(c) : c \in Configs}
        /\ nops = 0

Has(i) == i \in DOMAIN mats
Step == nops < MaxOps /\ nops' = nops + 1
SetSelf(i, r) == mats' = [mats EXCEPT ![i] = r.self]
SetRes(r) == mats' = IF r.res = <<>> THEN mats ELSE (RSlot :> r.res[1]) @@ mats
NsT(i) == NsTaxa(mats[i].ns)

ListOk(L) == \A k \in 1..Len(L) : Has(L[k])
MatsOf(L) == [k \in 1..Len(L) |-> mats[L[k]]]
ConcatOf(L) == OpConcatenate(MatsOf(L), NsTaxa(mats[L[1]].ns))

\* ---------------------------------------------------------------- actions
Concatenate(L) == Step /\ ListOk(L) /\ ConcatOf(L).raised # "pre" /\ SetRes(ConcatOf(L))
ExportIndices(i, S) == Step /\ Has(i) /\ SetRes(OpExportIndices(mats[i], S))
ExportSubset(i, k) == Step /\ Has(i) /\ k <= Len(mats[i].subs) /\ SetRes(OpExportSubset(mats[i], k))
Fill(i, z, ap) == Step /\ Has(i) /\ SetSelf(i, OpFill(mats[i], PadValue, z, ap))
FillTaxa(i) == Step /\ Has(i) /\ SetSelf(i, OpFillTaxa(mats[i], NsT(i)))
Pack(i, z, ap) == Step /\ Has(i) /\ SetSelf(i, OpPack(mats[i], NsT(i), PadValue, z, ap))
Pair(i, j) == Has(i) /\ Has(j) /\ i # j
AddSequences(i, j) == Step /\ Pair(i, j) /\ SetSelf(i, OpAddSequences(mats[i], mats[j]))
ReplaceSequences(i, j) == Step /\ Pair(i, j) /\ SetSelf(i, OpReplaceSequences(mats[i], mats[j]))
UpdateSequences(i, j) == Step /\ Pair(i, j) /\ SetSelf(i, OpUpdateSequences(mats[i], mats[j]))
ExtendSequences(i, j, fl) == Step /\ Pair(i, j) /\ SetSelf(i, OpExtendSequences(mats[i], mats[j], fl))
ExtendMatrix(i, j) == Step /\ Pair(i, j) /\ SetSelf(i, OpExtendMatrix(mats[i], mats[j]))
RemoveSequences(i, T) == Step /\ Has(i) /\ SetSelf(i, OpRemoveSequences(mats[i], T))
DiscardSequences(i, T) == Step /\ Has(i) /\ SetSelf(i, OpDiscardSequences(mats[i], T))
KeepSequences(i, T) == Step /\ Has(i) /\ SetSelf(i, OpKeepSequences(mats[i], T))
NewSequence(i, t, v) == Step /\ Has(i) /\ OpNewSequence(mats[i], NsT(i), t, v).raised = "" /\ SetSelf(i, OpNewSequence(mats[i], NsT(i), t, v))
SetItem(i, t, v) == Step /\ Has(i) /\ OpSetItem(mats[i], NsT(i), t, v).raised = "" /\ SetSelf(i, OpSetItem(mats[i], NsT(i), t, v))
DelItem(i, t) == Step /\ Has(i) /\ OpDelItem(mats[i], NsT(i), t).raised = "" /\ SetSelf(i, OpDelItem(mats[i], NsT(i), t))
\* the environment relabels a matrix (matrix.label = l)
SetLabel(i, l) == Step /\ Has(i) /\ mats[i].label # l /\ mats' = [mats EXCEPT ![i].label = l]

Next == \/ \E L \in ConcatLists : Concatenate(L)
        \/ \E i \in Slots, S \in IndexSets : ExportIndices(i, S)
        \/ \E i \in Slots, k \in 1..3 : ExportSubset(i, k)
        \/ \E i \in Targets, z \in Sizes, ap \in BOOLEAN : Fill(i, z, ap)
        \/ \E i \in Targets : FillTaxa(i)
        \/ \E i \in Targets, z \in Sizes, ap \in BOOLEAN : Pack(i, z, ap)
        \/ \E i \in Targets, j \in Slots : AddSequences(i, j)
        \/ \E i \in Targets, j \in Slots : ReplaceSequences(i, j)
        \/ \E i \in Targets, j \in Slots : UpdateSequences(i, j)
        \/ \E i \in Targets, j \in Slots, fl \in BOOLEAN : ExtendSequences(i, j, fl)
        \/ \E i \in Targets, j \in Slots : ExtendMatrix(i, j)
        \/ \E i \in Targets, T \in TaxonSeqs : RemoveSequences(i, T)
        \/ \E i \in Targets, T \in TaxonSeqs : DiscardSequences(i, T)
        \/ \E i \in Targets, T \in TaxonSeqs : KeepSequences(i, T)
        \/ \E i \in Targets, t \in 1..3, v \in NewVals : NewSequence(i, t, v)
        \/ \E i \in Targets, t \in 1..3, v \in NewVals : SetItem(i, t, v)
        \/ \E i \in Targets, t \in 1..3 : DelItem(i, t)
        \/ \E i \in 1..3, l \in Labels : SetLabel(i, l)
Spec == Init /\ [][Next]_vars

\* ---------------------------------------------------------------- the property
\* (checked in every state whose outgoing transitions are explored)
Inner == nops < MaxOps
TSlots == {i \in Targets : Has(i)}
OSlots(i) == {j \in Slots : Has(j) /\ j # i}

TypeOK == \A i \in DOMAIN mats :
            /\ mats[i].ns \in {1, 2}
            /\ Taxa(mats[i]) \subseteq NsTaxa(mats[i].ns)
            /\ \A k \in 1..Len(mats[i].subs) : mats[i].subs[k].idx \subseteq Nat

\* "for every taxon, the concatenation of its sequences in argument order"
ConcatRowsExact ==
    Inner => \A L \in ConcatLists : (ListOk(L) /\ ConcatOf(L).raised = "") =>
                 ConcatRowsClause(MatsOf(L), NsTaxa(mats[L[1]].ns), ConcatOf(L).res[1])
\* "one recorded character subset per source matrix covering exactly that matrix's columns":
\* as ranges, and observably: exporting the k-th recorded subset gives back the k-th source
ConcatSubsetsExact ==
    Inner => \A L \in ConcatLists : (ListOk(L) /\ ConcatOf(L).raised = "") =>
                 LET ms == MatsOf(L)  c == ConcatOf(L).res[1] IN
                 /\ ConcatSubsetsClause(ms, c)
                 /\ \A k \in 1..Len(ms) : OpExportSubset(c, k).res[1].rows = ms[k].rows
                 /\ \A j, k \in 1..Len(ms) : j # k => c.subs[j].idx \cap c.subs[k].idx = {} /\ c.subs[j].name # c.subs[k].name
                 /\ UNION {c.subs[k].idx : k \in 1..Len(ms)} = 0..(Width(c) - 1)
\* "exactly the selected columns in ascending order for every taxon"
ExportExact ==
    Inner => \A i \in DOMAIN mats :
               /\ \A S \in IndexSets : ExportClause(mats[i], S, OpExportIndices(mats[i], S).res[1])
               /\ \A k \in 1..Len(mats[i].subs) : ExportClause(mats[i], mats[i].subs[k].idx, OpExportSubset(mats[i], k).res[1])
\* "filling and packing make all sequences equally long without altering existing cells"
FillExact ==
    Inner => \A i \in TSlots, z \in Sizes, ap \in BOOLEAN :
               LET a == mats[i]
                   f == OpFill(a, PadValue, z, ap).self
                   p == OpPack(a, NsT(i), PadValue, z, ap).self
                   ft == OpFillTaxa(a, NsT(i)).self IN
               /\ Taxa(f) = Taxa(a) /\ FillKeepsClause(a, f, ap) /\ FillLengthClause(a, f, z)
               /\ (FillTarget(a, z) >= MaxLen(a) => IsRect(f) /\ IsRect(p))
               /\ Taxa(p) = Taxa(a) \cup NsT(i) /\ FillKeepsClause(a, p, ap) /\ FillLengthClause(a, p, z)
               /\ Taxa(ft) = Taxa(a) \cup NsT(i) /\ FillKeepsClause(a, ft, TRUE)
               /\ \A t \in Taxa(ft) \ Taxa(a) : ft.rows[t] = <<>>
\* "adding, replacing, updating, extending, removing, discarding and keeping sequences change
\* exactly the rows their documentation names"
RowsExact ==
    Inner => \A i \in TSlots :
      LET a == mats[i]  A == Taxa(mats[i]) IN
      /\ \A j \in OSlots(i) : mats[j].ns = a.ns =>
           LET b == mats[j]  B == Taxa(mats[j]) IN
           /\ RowsFrom(OpAddSequences(a, b).self, A, B \ A, {}, a, b)
           /\ RowsFrom(OpReplaceSequences(a, b).self, A \ B, A \cap B, {}, a, b)
           /\ RowsFrom(OpUpdateSequences(a, b).self, A \ B, B, {}, a, b)
           /\ RowsFrom(OpExtendSequences(a, b, FALSE).self, A \ B, {}, A \cap B, a, b)
           /\ RowsFrom(OpExtendSequences(a, b, TRUE).self, A \ B, B \ A, A \cap B, a, b)
           /\ RowsFrom(OpExtendMatrix(a, b).self, A \ B, B \ A, A \cap B, a, b)
      /\ \A ts \in TaxonSeqs :
           LET T == CmSeqToSet(ts)  repeats == Cardinality(CmSeqToSet(ts)) # Len(ts) IN
           \* discard / keep tolerate absent and repeated taxa: exactly the named rows go / stay, never an error
           /\ OpDiscardSequences(a, ts).raised = "" /\ RowsFrom(OpDiscardSequences(a, ts).self, A \ T, {}, {}, a, a)
           /\ OpKeepSequences(a, ts).raised = "" /\ RowsFrom(OpKeepSequences(a, ts).self, A \cap T, {}, {}, a, a)
           \* remove: the documented KeyError when some named taxon has no row at its turn
           /\ ((T \subseteq A /\ ~repeats) => OpRemoveSequences(a, ts).raised = "" /\ RowsFrom(OpRemoveSequences(a, ts).self, A \ T, {}, {}, a, a))
           /\ ((~(T \subseteq A) \/ repeats) =>
                  LET r == OpRemoveSequences(a, ts) IN
                  r.raised = "KeyError" /\ A \ T \subseteq Taxa(r.self) /\ Taxa(r.self) \subseteq A /\ \A t \in Taxa(r.self) : r.self.rows[t] = a.rows[t])
      /\ \A t \in 1..3, v \in NewVals :
           LET b == [a EXCEPT !.rows = (t :> v)] IN
           /\ (t \in NsT(i) \ A => RowsFrom(OpNewSequence(a, NsT(i), t, v).self, A, {t}, {}, a, b))
           /\ (t \in NsT(i) => RowsFrom(OpSetItem(a, NsT(i), t, v).self, A \ {t}, {t}, {}, a, b))
           /\ (t \in A => RowsFrom(OpDelItem(a, NsT(i), t).self, A \ {t}, {}, {}, a, a))
\* "refuses matrices over a different namespace": an error, and the receiver is as before
ForeignNamespaceRefused ==
    Inner =>
      /\ \A i \in TSlots : \A j \in OSlots(i) : mats[j].ns # mats[i].ns =>
           \A r \in {OpAddSequences(mats[i], mats[j]), OpReplaceSequences(mats[i], mats[j]), OpUpdateSequences(mats[i], mats[j]),
                     OpExtendSequences(mats[i], mats[j], FALSE), OpExtendSequences(mats[i], mats[j], TRUE), OpExtendMatrix(mats[i], mats[j])} :
             r.raised = "foreign" /\ r.self = mats[i]
      /\ \A L \in ConcatLists : ListOk(L) =>
           ((\E k \in 1..Len(L) : mats[L[k]].ns # mats[L[1]].ns) <=> ConcatOf(L).raised = "foreign")
           /\ (ConcatOf(L).raised = "foreign" => ConcatOf(L).res = <<>>)
\* "leaves its argument matrices unchanged": a step changes at most the receiver (or stores the result in R)
ArgumentsUnchanged ==
    [][Cardinality({i \in DOMAIN mats : mats'[i] # mats[i]}) <= 1
       /\ (RSlot \notin DOMAIN mats /\ RSlot \in DOMAIN mats' => \A i \in DOMAIN mats : mats'[i] = mats[i])
       /\ mats'[5] = mats[5]]_vars
\* results are new matrices: R's cells all come from the sources, nothing is shared by construction
=============================================================================
