SPECIFICATION Spec
CONSTANTS
  StickyHyphen = FALSE
  ShippedSetsLink = FALSE
  ShippedCharIds = TRUE
  ShippedLinkBlocks = TRUE
  ShippedTitleCase = TRUE
  Dims <- DimsQuick
  LabelSets = {"plain"}
  MaxNs = 1
  MaxComps = 1
  TitlePool <- TitlesSmall
INVARIANT SourceOK
INVARIANT RoundTrip
CHECK_DEADLOCK FALSE
