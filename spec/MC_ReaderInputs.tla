--------------------------- MODULE MC_ReaderInputs ---------------------------
(***************************************************************************)
(* C20 - input generator.  TLC enumerates (Init) the inputs that the       *)
(* harness renders to text and feeds to the real readers:                  *)
(*   every base document, every truncation point, every single token edit  *)
(*   (the same sets the reader models are checked on), every token string  *)
(*   up to MaxLen over the tree-statement alphabet, pump descriptors (one  *)
(*   token repeated k times after position `at`; the repetition itself is  *)
(*   expanded by the harness), and NDouble x NDouble random double edits   *)
(*   per document (TLC's RandomSubset, reproducible with -seed).           *)
(* The set is written as ndjson (one case per line) to $OUT_FILE and read   *)
(* by harness/props/C20.py; the state variable only records its size.      *)
(***************************************************************************)
EXTENDS ReaderInputs, Randomization, Json, IOUtils, SequencesExt
CONSTANTS Quick, MaxSpanNexus, MaxLen, PumpKs, PumpStride, NDouble
VARIABLE c

Span(fam) == IF fam = "nexus" THEN MaxSpanNexus ELSE 4
A(fam) == IF Quick THEN ClassRepsQ(fam) ELSE ClassReps(fam)
K(fam) == IF Quick THEN KeywordsQ(fam) ELSE Keywords(fam)
AD(D) == RepsFor(D.toks, D.fam, Quick)
KD(D) == KwFor(D.toks, D.fam, Quick)
Case(D, kind, toks, at, ptok, k) ==
    [doc |-> D.name, fam |-> D.fam, dtype |-> D.dtype, strict |-> D.strict, inter |-> D.inter,
     kind |-> kind, toks |-> toks, at |-> at, ptok |-> ptok, k |-> k]
Plain(D, kind, S) == {Case(D, kind, e, 0, "", 0) : e \in S}
EditCases(D) ==
    LET d == D.toks  f == D.fam IN
    Plain(D, "base", {d}) \cup Plain(D, "trunc", Truncations(d)) \cup Plain(D, "del", Deletions(d))
    \cup Plain(D, "ins", Insertions(d, AD(D))) \cup Plain(D, "rep", Replacements(d, AD(D)))
    \cup Plain(D, "span", SpanDropsB(d, Span(f))) \cup Plain(D, "kw", Insertions(d, KD(D)))
PumpCases(D) ==
    \* the smallest count at every position, the larger ones at every PumpStride-th position
    LET Smallest == CHOOSE k \in PumpKs : \A j \in PumpKs : k <= j IN
    {Case(D, "pump", D.toks, i, t, k) : i \in 0..Len(D.toks), t \in PumpToks(D.fam), k \in {Smallest}}
    \cup {Case(D, "pump", D.toks, i, t, k) :
            i \in {j \in 0..Len(D.toks) : j % PumpStride = 0},
            t \in (IF Quick THEN BigPumpToks(D.fam) ELSE PumpToks(D.fam)), k \in PumpKs \ {Smallest}}
DoubleCases(D) ==
    IF NDouble = 0 THEN {}
    ELSE LET E(d) == SingleEdits(d, A(D.fam), K(D.fam), Span(D.fam))
         IN UNION {Plain(D, "double", RandomSubset(NDouble, E(e))) : e \in RandomSubset(NDouble, E(D.toks))}
StringDoc == [name |-> "strings", fam |-> "newick", toks |-> <<>>, dtype |-> "dna", strict |-> FALSE, inter |-> FALSE]
AllCases == (UNION {EditCases(AllDocs[i]) \cup PumpCases(AllDocs[i]) \cup DoubleCases(AllDocs[i]) : i \in 1..Len(AllDocs)})
            \cup Plain(StringDoc, "string", Strings(MaxLen))
\* the reader option rows (ReaderInputs) go to a second file; the driver rotates them over the inputs
Init == c = [n |-> Cardinality(AllCases), written |-> ndJsonSerialize(IOEnv.OUT_FILE, SetToSeq(AllCases))
                  /\ JsonSerialize(IOEnv.OUT_FILE \o ".opts", [tree |-> TreeOptionRows, line |-> LineOptionRows])]
Next == UNCHANGED c
Written == c.written
Spec == Init /\ [][Next]_c
=============================================================================
