----------------------------- MODULE MC_CharIO -----------------------------
(* C09 bounded model.  One state per case; TLC checks on every case         *)
(*   SourceOK   a source document in any layout (interleaved, MATCHCHAR,    *)
(*              wrapped, <seq> markup ...) reads as the matrix it renders   *)
(*   RoundTrip  Read_f(Write_f(b)) = b   for the matrix b built by the route*)
(*   Pair       Read_g(Write_g(Read_f(Write_f(b)))) = b  for every g        *)
(*   NamespaceOfEachComponent  (data sets, NEXUS TITLE/LINK and NeXML otus) *)
(* and dumps the cases, which harness/props/C09.py replays on the real      *)
(* matrix classes / DataSet.                                                *)
EXTENDS CharIO
CONSTANTS Dims,        \* set of <<ntaxa, nchars, nclasses>>: all matrices of that shape over the first nclasses symbol classes
          LabelSets,   \* subset of {"plain", "long", "space", "punct", "xml"}
          MaxNs, MaxComps, TitlePool   \* data sets: namespaces, components, namespace titles (<<>> = no label)
VARIABLE c

\* values for the .cfg files (tuples cannot be written there)
DimsQuick == {<<1, 1, 3>>, <<1, 2, 3>>, <<2, 1, 3>>, <<2, 2, 2>>, <<1, 3, 2>>}
DimsWideQuick == {<<1, 1, 6>>, <<1, 2, 4>>, <<2, 1, 4>>, <<2, 2, 3>>}
DimsThorough == {<<1, 1, 6>>, <<1, 2, 4>>, <<2, 1, 4>>, <<1, 3, 3>>, <<3, 1, 3>>, <<2, 2, 3>>, <<2, 3, 2>>, <<3, 2, 2>>}
DimsWideThorough == {<<1, 1, 6>>, <<1, 2, 5>>, <<2, 1, 5>>, <<1, 3, 4>>, <<3, 1, 4>>, <<2, 2, 4>>, <<2, 3, 2>>, <<3, 2, 2>>, <<3, 3, 2>>}
DimsNone == {}
TitlesSmall == {<<>>, <<"x">>}
TitlesCase == {<<>>, <<"x">>, <<"X">>}
TitlesWide == {<<>>, <<"x">>, <<"X">>, <<"y">>, <<"x", ".", "1">>}

D(i) == ToString(i)
\* symbol classes per type: fundamental, gap, ambiguity code, missing, ... (the first k are used)
ClassSeq(t) ==
    CASE t = "dna"         -> <<"A", "-", "R", "?", "C", "N">>
      [] t = "rna"         -> <<"U", "?", "N", "-", "G", "Y">>
      [] t = "nucleotide"  -> <<"U", "-", "W", "?", "T", "B">>
      [] t = "protein"     -> <<"*", "?", "X", "-", "B", "L">>
      [] t = "standard"    -> <<"0", "-", "9", "?", "1", "5">>
      [] t = "restriction" -> <<"1", "0">>
      [] t = "infinite"    -> <<"0", "1">>
      [] t = "continuous"  -> <<"1/2", "-5/4", "0/1", "1/100000", "3/1", "-1/8">>
Classes(t, k) == {ClassSeq(t)[i] : i \in 1..Min2(k, Len(ClassSeq(t)))}

Label(ls, i) ==
    CASE ls = "plain" -> <<"t", D(i)>>
      [] ls = "long"  -> <<"s", D(i), "_", "l", "o", "n", "g", "l", "a", "b", "e", "l">>     \* 12 columns, distinct within 10
      [] ls = "space" -> <<"a", D(i), " ", "b">>
      [] ls = "punct" -> <<"p", D(i), "'", ";", "[", "=", "_", "q">>
      [] ls = "xml"   -> <<"x", D(i), "<", "&", "\"", ">">>

Lay(strict, page, match, wrap, seqs, ms) ==
    [strict |-> strict, page |-> page, match |-> match, wrap |-> wrap, seqs |-> seqs, multispace |-> ms]
D0 == Lay(FALSE, 0, FALSE, 0, FALSE, FALSE)
\* what the shipped writers can emit (+ the reader option multispace_delimiter for relaxed PHYLIP)
WriterLayouts(f) ==
    CASE f = "nexus"  -> {D0}
      [] f = "phylip" -> {Lay(FALSE, 0, FALSE, 0, FALSE, FALSE), Lay(FALSE, 0, FALSE, 0, FALSE, TRUE), Lay(TRUE, 0, FALSE, 0, FALSE, FALSE)}
      [] f = "fasta"  -> {D0}
      [] f = "nexml"  -> {D0, Lay(FALSE, 0, FALSE, 0, TRUE, FALSE)}
\* layouts of source documents (what a matrix can be parsed from)
SourceLayouts(f) ==
    CASE f = "nexus"  -> {Lay(FALSE, p, mt, 0, FALSE, FALSE) : p \in {0, 1}, mt \in BOOLEAN}
      [] f = "phylip" -> {Lay(s, p, FALSE, 0, FALSE, ms) : s \in BOOLEAN, p \in {0, 1}, ms \in BOOLEAN} \ {Lay(TRUE, p, FALSE, 0, FALSE, TRUE) : p \in {0, 1}}
      [] f = "fasta"  -> {Lay(FALSE, 0, FALSE, w, FALSE, FALSE) : w \in {0, 1}}
      [] f = "nexml"  -> {D0, Lay(FALSE, 0, FALSE, 0, TRUE, FALSE)}
RO(w) == [strict |-> w.strict, interleaved |-> w.page > 0, multispace |-> w.multispace]
\* labels admissible for the format variant
LabelOk(ls, f, w) ==
    CASE ls \in {"plain", "long"} -> TRUE
      [] ls = "space" -> f \in {"nexus", "nexml", "fasta"} \/ (f = "phylip" /\ (w.strict \/ w.multispace))
      [] ls \in {"punct", "xml"} -> f \in {"nexus", "nexml"}
SrcFmt(route) == CASE route = "parsed_nexus" -> "nexus" [] route = "parsed_phylip" -> "phylip"
                   [] route = "parsed_fasta" -> "fasta" [] route \in {"parsed_nexml", "typed_self_concatenated", "typed_self_extended"} -> "nexml"
                   [] OTHER -> ""
RouteVariants(t) ==
    {[route |-> r, src |-> D0] : r \in {"from_dict", "concatenated", "exported", "observed_then_rows", "observed_then_columns"}
                                     \cup (IF Supports("nexml", t) THEN {"exported_typed", "typed_self_concatenated", "typed_self_extended"} ELSE {})}
    \cup UNION {{[route |-> ParsedRoute(f), src |-> l] : l \in SourceLayouts(f)} : f \in {g \in Formats : Supports(g, t)}}

\* the verdicts of a matrix case are computed once, when the case is generated (field res), so that every
\* writer/reader is evaluated once per case
Same(r, f, strict, b) == r.ok /\ r.type = b.type /\ r.taxa = NormTaxa(f, strict, b.taxa) /\ r.rows = b.rows
PairLayout(g, ls) == IF g = "phylip" /\ ls = "space" THEN Lay(FALSE, 0, FALSE, 0, FALSE, TRUE) ELSE D0
Verdicts(m, ls, route, src, f, w) ==
    LET parsed == SrcFmt(route) # ""
        sr == ReadF(SrcFmt(route), m.type, WriteF(SrcFmt(route), m, src, TRUE), RO(src))
        b == IF SelfCombined(route) THEN Doubled(AsMatrix(sr))           \* the matrix built by the route
             ELSE IF parsed THEN AsMatrix(sr) ELSE m
        r1 == ReadF(f, m.type, WriteF(f, b, w, HasColDefs(route)), RO(w))
        b1 == AsMatrix(r1)
    IN [source |-> ~parsed \/ Same(sr, SrcFmt(route), src.strict, m),
        rt |-> (~parsed \/ sr.ok) /\ Same(r1, f, w.strict, b),
        pair |-> \A g \in {h \in Formats : Supports(h, m.type)} :
                    LabelOk(ls, g, PairLayout(g, ls)) =>
                       LET wg == PairLayout(g, ls)
                           r2 == ReadF(g, m.type, WriteF(g, b1, wg, f = "nexml"), RO(wg))
                       IN r1.ok /\ Same(r2, g, wg.strict, b1)]

\* Seeds are the initial states; every case is a successor of its seed (so that TLC's workers share the cases).
SeedsMatrix == {[kind |-> "seed", d |-> d, t |-> t, ls |-> ls] : d \in Dims, t \in Types, ls \in LabelSets}
SeedsDataSet == {[kind |-> "seedds", nns |-> n, f |-> f] : n \in 1..MaxNs, f \in {"nexus", "nexml"}}
NextMatrix ==
    /\ c.kind = "seed"
    /\ LET d == c.d  t == c.t  ls == c.ls IN
       \E rows \in [1..d[1] -> [1..d[2] -> Classes(t, d[3])]] :
       \E rv \in RouteVariants(t) : \E f \in {g \in Formats : Supports(g, t)} : \E w \in WriterLayouts(f) :
        /\ ls # "plain" => d[2] = 1 /\ \A i \in 1..d[1] : rows[i][1] = ClassSeq(t)[1]
        /\ LabelOk(ls, f, w)
        /\ SrcFmt(rv.route) # "" => LabelOk(ls, SrcFmt(rv.route), rv.src)
        \* a matrix parsed from a non-default layout differs from the default-layout one only by its history:
        \* it is written once, to its own format
        /\ (SrcFmt(rv.route) # "" /\ rv.src # D0) =>
               f = SrcFmt(rv.route) /\ w = Lay(rv.src.strict, 0, FALSE, 0, rv.src.seqs, rv.src.multispace)
        /\ LET m == [type |-> t, taxa |-> [i \in 1..d[1] |-> Label(ls, i)], rows |-> rows] IN
           c' = [kind |-> "matrix", ls |-> ls, route |-> rv.route, src |-> rv.src, f |-> f, w |-> w, m |-> m,
                 res |-> Verdicts(m, ls, rv.route, rv.src, f, w)]

NsLabels(i) == [j \in 1..2 |-> <<"n", D(i), "_", D(j)>>]
NextDataSet ==
    /\ c.kind = "seedds"
    /\ LET nns == c.nns  f == c.f IN
       \E titles \in [1..nns -> TitlePool] : \E nc \in 1..MaxComps :
       \E comps \in [1..nc -> [kind : {"CHARACTERS", "TREES"}, ns : 1..nns, title : {<<>>, <<"x">>}, subsets : BOOLEAN, neg : BOOLEAN]] :
       \E setting \in (IF f = "nexus" THEN {"None", "False", "True"} ELSE {"None"}) :
        /\ \A k \in 2..nc : comps[k].title = <<>>
        /\ \A k \in 1..nc : comps[k].kind = "TREES" => ~comps[k].subsets /\ ~comps[k].neg
        /\ \A k \in 1..nc : comps[k].subsets => comps[k].title = <<>> /\ ~comps[k].neg /\ nns <= 2   \* a concatenated (discrete) alignment
        /\ \A k \in 1..nc : comps[k].neg => \E j \in 1..(k - 1) : comps[j].subsets            \* negative values only matter after a SETS block
        /\ c' = [kind |-> "dataset", f |-> f, setting |-> setting,
              ds |-> [nss |-> [i \in 1..nns |-> [title |-> titles[i], labels |-> NsLabels(i)]], comps |-> comps]]

Init == c \in SeedsMatrix \cup SeedsDataSet
Next == NextMatrix \/ NextDataSet
Spec == Init /\ [][Next]_c

SourceOK  == c.kind = "matrix" => c.res.source     \* a source document in any layout reads as the matrix it renders
RoundTrip == c.kind = "matrix" => c.res.rt         \* Read_f(Write_f(b)) = b
Pair      == c.kind = "matrix" => c.res.pair       \* Read_g(Write_g(Read_f(Write_f(b)))) = b for every g
NamespaceOfEachComponent ==
    c.kind = "dataset" /\ (c.f = "nexml" \/ TitlesKeptWhenNeeded(c.setting, Len(c.ds.nss)))
       => ReadDS(c.f, WriteDS(c.f, c.ds, c.setting)) = ExpectDS(c.ds)
=============================================================================
