------------------------ MODULE Trace_TreeArrayMerge ------------------------
(* C06 trace validation, sequential part.  Every logged call on a real      *)
(* TreeArray (add_tree / append / insert / update / extend / += / +, then   *)
(* the queries) is judged by TLC against the operators of TreeArrayMerge:   *)
(* the tree descriptors are computed here from the projected raw trees, the *)
(* expected summary is SummaryOfBag of the ghost sequence of tree ids.      *)
(* Verdicts are total.                                                      *)
EXTENDS TreeArrayJudge, Json, IOUtils
Tr == ndJsonDeserialize(IOEnv.TRACE_FILE)
VARIABLES l, st, bad
tvars == <<l, st, bad>>
\* ---------------------------------------------------------------- events
\* A trace is a tree of real states: every call event names the recorded state it started from (`from`, a
\* position in st.G) and appends the state it produced (`to`).  The harness reaches a model state once and
\* executes each of its outgoing transitions on a copy (pickle round trip) of the real objects.
\* Ghost per recorded state: T[k] the ids array k holds, dig[k] a digest of its last logged projection.
Digest(P) == <<P.n, P.rooting, P.dist.n, P.dist.sumW, Len(P.dist.counts)>>
Chain(g, k, P) == IF Digest(P) # g.dig[k] THEN V("C06.Machinery", "state of the array changed between logged calls") ELSE None
Link(e) == IF e.from \notin 1..Len(st.G) \/ e.to # Len(st.G) + 1 THEN V("C06.Machinery", "state ids out of sequence") ELSE None

\* arrays the call did not touch - operands of earlier merges included - must still be what they were: same digest,
\* and a summary that is still the summary of their own bag of trees
Others(e, g) ==
    Flatten([h \in 1..Len(e.others) |->
        LET o == e.others[h][1]  P == e.others[h][2]
            v == JudgeDist(P, g.T[o], st.D, st.set) IN
        (IF Digest(P) # g.dig[o] THEN V("C06.SummaryDependsOnBagOnly", "array-not-involved-in-the-call:changed") ELSE None)
        \o [i \in 1..Len(v) |-> [clause |-> v[i].clause, class |-> "array-not-involved-in-the-call:" \o v[i].class]]])
ResyncOthers(e, dig) == [o \in 1..Len(dig) |->
    IF \E h \in 1..Len(e.others) : e.others[h][1] = o
      THEN Digest(e.others[CHOOSE h \in 1..Len(e.others) : e.others[h][1] = o][2]) ELSE dig[o]]

JudgeAdd(e) ==
    LET g == st.G[e.from]  k == e.k  T == g.T[k]  i == IF e.i < 0 THEN Len(T) ELSE e.i
        xr == AddRaises(e.pre.rooting, st.D[e.t])                                             \* validate_rooting
    IN Chain(g, k, e.pre) \o Others(e, g)
       \o (IF e.raised # xr
             THEN V("C06.AddNeverFailsOnUniformSample", e.api \o ":" \o (IF e.raised = "" THEN "expected:" \o xr ELSE e.raised))
           ELSE IF e.raised # "" THEN None
           ELSE JudgePost(e.pre, e.post, <<1, 1, 1, 1>>, InsertAt(T, i, e.t), st.D, st.set, st.r)
                \o (IF e.res # i THEN V("C06.PerTreeListsAligned", "returned-index") ELSE None))
\* read_from_files / read: srcs[h] = ids of the trees source h holds, in order; the first e.offset of each are burn-in
JudgeRead(e) ==
    LET g == st.G[e.from]  k == e.k
        add == Flatten([h \in 1..Len(e.srcs) |-> Kept(e.srcs[h], e.offset)])
    IN Chain(g, k, e.pre) \o Others(e, g)
       \o (IF e.raised # "" THEN V("C06.ReadNeverFailsOnUniformSample", e.route \o ":" \o e.raised)
           ELSE JudgePost(e.pre, e.post, <<Len(add), Len(add), Len(add), Len(add)>>, g.T[k] \o add, st.D, st.set, st.r))
MergeActions == {"Update", "Extend", "IAdd", "Add"}
JudgeMerge(e) ==
    LET g == st.G[e.from]  k == e.k  j == e.j  T == g.T[k] \o g.T[j] IN
    Chain(g, k, e.pre) \o Chain(g, j, e.prej) \o Others(e, g)
    \o (IF ~PCompat(e.pre, e.prej) THEN None           \* outside the property (never generated: uniform samples)
        ELSE IF e.raised # "" THEN V("C06.MergeNeverFails", Shape(e.pre) \o "<-" \o Shape(e.prej) \o ":" \o e.raised)
        ELSE JudgePost(e.pre, e.post, e.prej.n, T, st.D, st.set, st.r))
    \o (IF e.postj # e.prej THEN V("C06.MergeLeavesOperandUnchanged", e.action) ELSE None)
    \o (IF e.action = "Add" /\ e.olda # e.pre THEN V("C06.MergeLeavesOperandUnchanged", "Add:left-operand") ELSE None)

JudgeQuery(e) == LET g == st.G[e.from] IN
    Chain(g, e.k, e.st) \o JudgeQueries(g.T[e.k], st.D, st.set, st.r, e.st, e, st.ref)

JudgeSetup(e) ==
    (IF \E i \in 1..Len(e.trees) : WFClause(e.trees[i]) # "ok" \/ ~DistinctSplits(e.trees[i]) \/ e.trees[i].rooted # e.r
       THEN V("C06.Machinery", "sample tree ill-formed, with duplicate splits, or of another rooting") ELSE None)
    \o (IF \E k \in 1..Len(e.arrs) : ~PEmpty(e.arrs[k]) \/ e.arrs[k].n # <<0, 0, 0, 0>> \/ e.arrs[k].dist.n # 0
          THEN V("C06.Machinery", "new array not empty") ELSE None)

Judge(e) == CASE e.action = "Setup" -> JudgeSetup(e)
              [] e.action = "AddTree" -> Link(e) \o (IF Link(e) = None THEN JudgeAdd(e) ELSE None)
              [] e.action = "Read" -> Link(e) \o (IF Link(e) = None THEN JudgeRead(e) ELSE None)
              [] e.action \in MergeActions -> Link(e) \o (IF Link(e) = None THEN JudgeMerge(e) ELSE None)
              [] e.action = "Query" -> IF e.from \in 1..Len(st.G) THEN JudgeQuery(e) ELSE V("C06.Machinery", "state ids out of sequence")

NextSt(e) ==
    CASE e.action = "Setup" ->
           [D |-> [i \in 1..Len(e.trees) |-> Descr(e.trees[i], e.w[i], NoTipAges)], set |-> e.set, r |-> e.r, ref |-> e.ref,
            G |-> <<[T |-> [k \in 1..Len(e.arrs) |-> <<>>], dig |-> [k \in 1..Len(e.arrs) |-> Digest(e.arrs[k])]]>>]
      [] e.action = "AddTree" /\ Link(e) = None ->
           LET g == st.G[e.from] IN
           [st EXCEPT !.G = Append(@, [g EXCEPT !.T[e.k] = IF e.raised = "" THEN InsertAt(@, IF e.i < 0 THEN Len(@) ELSE e.i, e.t) ELSE @,
                                                !.dig = [ResyncOthers(e, @) EXCEPT ![e.k] = Digest(e.post)]])]
      [] e.action = "Read" /\ Link(e) = None ->
           LET g == st.G[e.from] IN
           [st EXCEPT !.G = Append(@, [g EXCEPT !.T[e.k] = IF e.raised = "" THEN @ \o Flatten([h \in 1..Len(e.srcs) |-> Kept(e.srcs[h], e.offset)]) ELSE @,
                                                !.dig = [ResyncOthers(e, @) EXCEPT ![e.k] = Digest(e.post)]])]
      [] e.action \in MergeActions /\ Link(e) = None ->
           LET g == st.G[e.from] IN
           [st EXCEPT !.G = Append(@, [g EXCEPT !.T[e.k] = IF e.raised = "" THEN @ \o g.T[e.j] ELSE @,
                                                !.dig = [ResyncOthers(e, @) EXCEPT ![e.k] = Digest(e.post), ![e.j] = Digest(e.postj)]])]
      [] OTHER -> st

Init == l = 1 /\ bad = <<>> /\ st = [D |-> <<>>]
Next == /\ l <= Len(Tr)
        /\ LET e == Tr[l]
               v == Judge(e) IN
           /\ bad' = bad \o [h \in 1..Len(v) |-> [i |-> l, clause |-> v[h].clause, class |-> v[h].class]]
           /\ st' = NextSt(e)
        /\ l' = l + 1
Spec == Init /\ [][Next]_tvars
Done == l = Len(Tr) + 1 => JsonSerialize(IOEnv.OUT_FILE, [n |-> Len(Tr), bad |-> bad])
Accepted == TLCGet("stats").diameter - 1 = Len(Tr)
=============================================================================
