SPECIFICATION Spec
CONSTANTS
  MaxFiles = 2
  MaxWorkers = 3
  FileSizes = {0, 1}
  ShippedUpdate = FALSE
  Protocol = "sentinel"
  AsyncFeeder = TRUE
  Rootings <- RootingsAll
INVARIANT NoMergeFailure
INVARIANT SameSummary
INVARIANT EveryFileRead
INVARIANT EveryResultOnce
INVARIANT RootingKept
PROPERTY Termination
CHECK_DEADLOCK FALSE
