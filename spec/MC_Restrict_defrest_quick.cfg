SPECIFICATION SpecDef
CONSTANTS
  MaxN = 7
  MaxL = 4
  LenPats = {1}
  Shipped = FALSE
INVARIANT Sound
INVARIANT VariantsAgree
CHECK_DEADLOCK FALSE
