------------------------ MODULE MC_BipartitionsPairs ------------------------
(* C01 bounded model, two trees per state: the property's "if and only if"    *)
(* stated literally on pairs of trees with the same leaf taxa and rooting     *)
(* (every pair of ordered trees with at most MaxN nodes; the first tree       *)
(* carries the taxa of the leaf set in ascending order for leaf sets larger   *)
(* than FullPermsUpTo, every assignment otherwise; the second tree every      *)
(* assignment), and the predicate definitions against their bitwise           *)
(* formulations on every pair of their bipartitions.  (MC_Bipartitions proves *)
(* the iff for all pairs at once through the two functions.)                  *)
EXTENDS Bipartitions
CONSTANTS MaxN, MaxL, LeafSets, FullPermsUpTo
VARIABLES stage, sh1, sh2, g1, g2
vars == <<stage, sh1, sh2, g1, g2>>

RECURSIVE PA(_)
PA(n) == IF n = 1 THEN {<<0>>} ELSE UNION {{Append(p, a) : a \in AncOfIn(p, n - 1)} : p \in PA(n - 1)}
Shapes == UNION {{p \in PA(n) : NumLeavesOfParents(p) <= MaxL} : n \in 1..MaxN}
PermSeqs(L) == {f \in [1..Card(L) -> L] : \A i, j \in 1..Card(L) : i # j => f[i] # f[j]}
FirstSeqs(L) == IF Card(L) <= FullPermsUpTo THEN PermSeqs(L) ELSE {AscSeq(L)}
Dummy == MkTree(<<0>>, <<1>>, <<-1>>, 1)

Init == /\ stage = 0 /\ sh1 \in Shapes /\ sh2 \in Shapes
        /\ NumLeavesOfParents(sh1) = NumLeavesOfParents(sh2)
        /\ g1 = Dummy /\ g2 = Dummy
Next == /\ stage = 0
        /\ \E L \in {X \in LeafSets : Card(X) = NumLeavesOfParents(sh1)} : \E rt \in {0, 1} :
           \E t1 \in FirstSeqs(L) : \E t2 \in PermSeqs(L) :
             /\ g1' = MkTree(sh1, t1, [i \in 1..Len(sh1) |-> -1], rt)
             /\ g2' = MkTree(sh2, t2, [i \in 1..Len(sh2) |-> -1], rt)
        /\ stage' = 1
        /\ UNCHANGED <<sh1, sh2>>
Spec == Init /\ [][Next]_vars

Dom == stage = 1
Iff == Dom => PairIff(g1, g2)
Predicates == Dom => PairPredicates(g1, g2)
=============================================================================
