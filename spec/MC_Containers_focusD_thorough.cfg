SPECIFICATION Spec
CONSTANTS
  MaxOps = 3
  Groups = {"list", "listns", "tree", "arr", "mat", "ds", "memo", "seed"}
  Big = FALSE
  Focus = "D"
  Wide = TRUE
  ShipDsAdd = FALSE
  ShipMatPartial = FALSE
  ShipCloneDrop = FALSE
INVARIANT SaneInv
INVARIANT ClosureInv
INVARIANT RemovedKeepConsistentNs
PROPERTY LabelFunctional
PROPERTY ArrayRefusesForeign
CHECK_DEADLOCK FALSE
