---------------------------- MODULE Trace_CharIO ----------------------------
(* C09 trace validation.  Every logged real execution is judged with the    *)
(* operators of CharIO:                                                     *)
(*   Parse      a source document (abstract stream, rendered to text by the *)
(*              harness) read by the real reader: out = Read_f(stream)      *)
(*   RoundTrip  a real matrix (min) written by the real writer (text        *)
(*              projected to its stream) and read back (out):               *)
(*              written:  Read_f(stream) = min   (what the file says under  *)
(*                        the format's own rules, by the reference reader)  *)
(*              reread :  out = min              (the library's reader)     *)
(*   DataSet    components of a data set before / after, and the block      *)
(*              stream (TITLE/LINK or otus ids) of the written text         *)
(* Clauses = the property: SameTaxaSameOrder, SameStatesBySymbol,           *)
(* NamespaceOfEachComponent, Reread.  Verdicts are total.                   *)
EXTENDS CharIO, Json, IOUtils
Tr == ndJsonDeserialize(IOEnv.TRACE_FILE)
VARIABLES l, bad, drift
V(c, k) == <<[clause |-> c, class |-> k]>>
None == <<>>

XmlSpecial == {"\"", "<", "&", "\\", ">"}
HasXmlSpecial(taxa) == \E i \in DOMAIN taxa : \E j \in DOMAIN taxa[i] : taxa[i][j] \in XmlSpecial

Variant(e) == e.fmt \o (IF e.ro.strict THEN "-strict" ELSE "") \o (IF e.ro.interleaved THEN "-interleaved" ELSE "")
                    \o (IF e.ro.multispace THEN "-multispace" ELSE "")
\* input-shape discriminator (used to match known findings precisely)
JoinPlus(ss) == IF ss = <<>> THEN "plain" ELSE IF Len(ss) = 1 THEN ss[1] ELSE IF Len(ss) = 2 THEN ss[1] \o "+" \o ss[2]
                ELSE ss[1] \o "+" \o ss[2] \o "+" \o ss[3]
Shape(e, min) ==
    JoinPlus(
      (IF e.fmt = "nexml" /\ HasXmlSpecial(min.taxa) THEN <<"label_xml_special">> ELSE <<>>)
      \o (IF e.fmt = "nexml" /\ e.stream_ok /\ Len(min.taxa) > 1 /\ ~e.stream.seqs /\ Len(e.stream.chars) > NCols(min)
          THEN <<"char_id_per_cell">> ELSE <<>>)
      \o (IF e.fmt = "nexml" /\ e.wraised # "" /\ min.type = "standard" /\ e.route \in {"exported", "exported_typed"}
          THEN <<"standard_clone_or_export">>
          ELSE IF e.fmt = "nexml" /\ e.wraised # "" /\ min.type = "standard"
                  /\ e.route \in {"concatenated", "typed_self_concatenated", "typed_aba"}
          THEN <<"standard_concatenation">> ELSE <<>>))
Cls(e, min, stage) == Variant(e) \o ":" \o Shape(e, min) \o ":" \o stage

Cmp(r, t, taxa, rows, cls) ==
    (IF r.taxa # taxa THEN V("C09.SameTaxaSameOrder", cls) ELSE None)
    \o (IF r.rows # rows \/ r.type # t THEN V("C09.SameStatesBySymbol", cls) ELSE None)

JudgeRT(e, min) ==
    LET want == NormTaxa(e.fmt, e.ro.strict, min.taxa) IN
    IF e.wraised # "" THEN V("C09.Reread", Cls(e, min, "write_raised:" \o e.wraised))
    ELSE (IF ~e.stream_ok THEN V("C09.Reread", Cls(e, min, "written:malformed"))
          ELSE LET r == ReadF(e.fmt, min.type, e.stream, e.ro) IN
               IF ~r.ok THEN V("C09.Reread", Cls(e, min, "written:unreadable"))
               ELSE Cmp(r, min.type, want, min.rows, Cls(e, min, "written")))
         \o (IF e.rraised # "" THEN V("C09.Reread", Cls(e, min, "reread:" \o e.rraised))
             ELSE Cmp(e.out, min.type, want, min.rows, Cls(e, min, "reread")))
JudgeRoundTrip(e) == JudgeRT(e, e.min)
\* dendropy-format: source document -> converted text; the content is what the reference reader finds in the source
JudgeConvert(e) ==
    LET r0 == ReadF(e.sfmt, e.type, e.sstream, e.sro) IN
    IF ~r0.ok THEN V("C09.Machinery", "convert:" \o e.sfmt \o ":" \o e.slayout \o ":source_not_readable_by_reference")
    ELSE JudgeRT(e, AsMatrix(r0))

JudgeParse(e) ==
    LET r == ReadF(e.fmt, e.type, e.stream, e.ro)
        cls == "parse:" \o Variant(e) \o ":" \o e.layout IN
    IF ~r.ok THEN V("C09.Machinery", cls \o ":source_not_readable_by_reference")
    ELSE IF e.model_layout /\ WriteF(e.fmt, [type |-> e.type, taxa |-> e.src_taxa, rows |-> r.rows], e.lay, TRUE) # e.stream
         THEN V("C09.Machinery", cls \o ":source_is_not_WriteF")
    ELSE IF e.raised # "" THEN V("C09.Reread", cls \o ":" \o e.raised)
    ELSE Cmp(e.out, e.type, r.taxa, r.rows, cls)

\* ------------------------------------------------------------ data sets
CaseDup(ts) == \E i, j \in DOMAIN ts : i # j /\ ts[i] # <<>> /\ ts[i] # ts[j] /\ UpperOf(ts[i]) = UpperOf(ts[j])
JudgeDataSet(e) ==
    LET required == e.fmt = "nexml" \/ TitlesKeptWhenNeeded(e.setting, e.nns)
        taxaTitles == IF e.blocks_ok THEN [k \in DOMAIN TaxaIdx(e.blocks) |-> e.blocks[TaxaIdx(e.blocks)[k]].title] ELSE <<>>
        cls(stage) == e.fmt \o ":titles=" \o e.setting \o ":" \o (IF e.nns > 1 THEN "multi_ns" ELSE "one_ns")
                      \o (IF e.fmt = "nexus" /\ CaseDup(taxaTitles) THEN ":titles_equal_up_to_case" ELSE "")
                      \o (IF e.fmt = "nexus" /\ e.blocks_ok /\ \E i \in DOMAIN e.blocks : e.blocks[i].kind = "SETS" /\ e.blocks[i].link = <<>>
                                                                                           /\ CharsBefore(e.blocks, i) > 1
                          THEN ":unlinked_sets_block_after_second_matrix" ELSE "")
                      \o (IF e.fmt = "nexml" /\ \E k \in DOMAIN e.comps_in : e.comps_in[k].kind = "CHARACTERS" /\ ~e.comps_in[k].typed
                                                                            /\ Len(e.comps_in[k].taxa) > 1
                          THEN ":char_id_per_cell" ELSE "") \o ":" \o stage
        n == Len(e.comps_in)
    IN
    IF ~required THEN None
    ELSE IF e.wraised # "" THEN V("C09.Reread", cls("write_raised:" \o e.wraised))
    ELSE
      (IF ~e.blocks_ok THEN V("C09.Reread", cls("written:malformed"))
       ELSE LET r == ReadDS(e.fmt, e.blocks) IN
            IF Len(r) # n THEN V("C09.NamespaceOfEachComponent", cls("written:block_count"))
            ELSE IF \E k \in 1..n : ~r[k].ok \/ r[k].kind # e.comps_in[k].kind \/ r[k].labels # e.comps_in[k].nslabels
                 THEN V("C09.NamespaceOfEachComponent", cls("written")) ELSE None)
      \o
      (IF e.rraised # "" THEN V("C09.Reread", cls("reread:" \o e.rraised))
       ELSE IF Len(e.comps_out) # n THEN V("C09.NamespaceOfEachComponent", cls("reread:component_count"))
       ELSE (IF \E k \in 1..n : \/ e.comps_out[k].kind # e.comps_in[k].kind
                                \/ e.comps_out[k].nslabels # e.comps_in[k].nslabels
                                \/ \E j \in DOMAIN e.comps_out[k].taxa_idx :      \* every taxon is a member of that namespace
                                       LET q == e.comps_out[k].taxa_idx[j] IN q < 1 \/ q > Len(e.comps_out[k].nslabels)
                  THEN V("C09.NamespaceOfEachComponent", cls("reread")) ELSE None)
            \o (IF \E k \in 1..n : e.comps_out[k].taxa # e.comps_in[k].taxa
                                   \/ Len(e.comps_out[k].leaves) # Len(e.comps_in[k].leaves)
                                   \/ \E j \in DOMAIN e.comps_in[k].leaves :
                                         j <= Len(e.comps_out[k].leaves) /\ CSet(e.comps_out[k].leaves[j]) # CSet(e.comps_in[k].leaves[j])
                  THEN V("C09.SameTaxaSameOrder", cls("reread")) ELSE None)
            \o (IF \E k \in 1..n : e.comps_out[k].rows # e.comps_in[k].rows
                  THEN V("C09.SameStatesBySymbol", cls("reread")) ELSE None))

Judge(e) ==
    CASE e.action = "RoundTrip" -> JudgeRoundTrip(e)
      [] e.action = "Parse"     -> JudgeParse(e)
      [] e.action = "Convert"   -> JudgeConvert(e)
      [] e.action = "DataSet"   -> JudgeDataSet(e)

\* reference-vs-code differences the property leaves free (layout of the written text): counted, never failing
Lay0(e) == [strict |-> e.ro.strict, page |-> 0, match |-> FALSE, wrap |-> e.wrap, seqs |-> e.seqs, multispace |-> e.ro.multispace]
DriftOf(e) ==
    IF e.action # "RoundTrip" \/ e.wraised # "" \/ ~e.stream_ok THEN None
    ELSE LET w == WriteF(e.fmt, e.min, Lay0(e), HasColDefs(e.route)) IN
         CASE e.fmt = "phylip" -> IF w = e.stream THEN None ELSE <<"layout:phylip">>
           [] e.fmt = "fasta" -> IF SelectSeq(w.lines, LAMBDA ln : ln # <<>>) = SelectSeq(e.stream.lines, LAMBDA ln : ln # <<>>)
                                 THEN None ELSE <<"layout:fasta">>
           [] e.fmt = "nexus" -> IF [w EXCEPT !.symbols = <<>>, !.ntax = 0] = [e.stream EXCEPT !.symbols = <<>>, !.ntax = 0]
                                 THEN None ELSE <<"layout:nexus">>
           [] e.fmt = "nexml" -> IF Len(w.chars) = Len(e.stream.chars) /\ w.type = e.stream.type THEN None ELSE <<"layout:nexml">>

Init == l = 1 /\ bad = <<>> /\ drift = <<>>
Next == /\ l <= Len(Tr)
        /\ LET v == Judge(Tr[l]) IN
             bad' = bad \o [k \in 1..Len(v) |-> [i |-> l, clause |-> v[k].clause, class |-> v[k].class]]
        /\ drift' = drift \o DriftOf(Tr[l])
        /\ l' = l + 1
Spec == Init /\ [][Next]_<<l, bad, drift>>
Done == l = Len(Tr) + 1 => JsonSerialize(IOEnv.OUT_FILE, [n |-> Len(Tr), bad |-> bad, drift |-> drift])
Accepted == TLCGet("stats").diameter - 1 = Len(Tr)
=============================================================================
