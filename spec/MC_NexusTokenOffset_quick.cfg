SPECIFICATION Spec
CONSTANT MaxLen = 2
CONSTANT MaxPad = 9
CONSTANT Blk = 0
INVARIANT OffsetIndependentTree
INVARIANT OffsetIndependentTaxLabels
CHECK_DEADLOCK FALSE
