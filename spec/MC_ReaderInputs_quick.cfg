SPECIFICATION Spec
CONSTANTS
  Quick = TRUE
  MaxSpanNexus = 4
  MaxLen = 3
  PumpKs = {10, 1100, 3000}
  PumpStride = 15
  NDouble = 0
INVARIANT Written
CHECK_DEADLOCK FALSE
