SPECIFICATION Spec
CONSTANTS
  Quick = TRUE
  MaxLen = 4
  PumpK = 4
  RecLimit = 3
  GenSteps = 0
INVARIANTS OutcomeDocumented DepthIsNesting NestNonNegative NoTreeLost

CHECK_DEADLOCK FALSE
