SPECIFICATION Spec
CONSTANTS
  N = 4
  MaxTrees = 2
  NW = 1
  NT = 1
  Observe = FALSE
  ObserveFrom = 1
  TrackDist = TRUE
  TrackOperand = TRUE
  AdoptLists = FALSE
  BookkeepFirst = FALSE
  CacheChecksCount = TRUE
INVARIANT OperandIntact
INVARIANT FreqExact
CHECK_DEADLOCK FALSE
