-------------------------- MODULE MC_TreeArrayMerge --------------------------
(* Bounded model for C06 (sequential part): a sample of trees is distributed *)
(* over NArr sub-arrays (any partition, some left empty), each tree appended  *)
(* or inserted at any index, and the arrays are merged pairwise in any       *)
(* arrival order with update / extend / += / +, merges and additions freely  *)
(* interleaved.  Both rooting states, trees without rooting information,     *)
(* explicitly and implicitly configured arrays.                              *)
EXTENDS TreeArrayMerge
CONSTANTS NArr,        \* number of sub-arrays
          Sample,      \* sequence of catalogue ids, added in this order
          Shipped,     \* TRUE: the shipped compatibility rules and the shipped extend()
          MergeOps,    \* subset of {"update", "extend", "iadd", "add"}
          Configs,     \* set of [r, expl] (see ConfigsUniform / ConfigsAll below)
          Positions    \* TRUE: insert at every index; FALSE: append only
VARIABLES arr, alive, nxt, cfg, failed, burnt,
          q            \* arrays whose summaries (consensus, supports, length summaries, scores) have been asked for:
                       \* from then on they are asked for again after every call on that array (query / add / query)
vars == <<arr, alive, nxt, cfg, failed, burnt, q>>

\* catalogue: two topologies on four taxa, three length patterns / weights.
\* unrooted (and rooting-less) trees have a trifurcating seed, rooted ones a bifurcating seed.
ParU == <<0, 1, 1, 1, 4, 4>>          \* (a, b, (c, d))
ParR == <<0, 1, 2, 2, 1, 5, 5>>       \* ((a, b), (c, d))
TaxaOf(id) == IF id = 2 THEN <<1, 3, 2, 4>> ELSE <<1, 2, 3, 4>>
\* the leaf edge of taxon 1 has three distinct lengths (1, 3, 2 in sample order): its median is the middle VALUE,
\* which is not the value that arrives second
LensU(id) == CASE id = 1 -> <<-1, 4, 4, 4, 4, 4>> [] id = 2 -> <<-1, 12, 8, 8, 4, 4>> [] OTHER -> <<-1, 8, 4, 12, 4, 4>>
LensR(id) == CASE id = 1 -> <<-1, 4, 4, 4, 4, 4, 4>> [] id = 2 -> <<-1, 8, 12, 4, 8, 4, 4>> [] OTHER -> <<-1, 12, 8, 4, 12, 4, 4>>
\* weights 1 (none given), 2, 1 (given): in the sample <<1, 2, 3>> the two topologies tie at exactly half of the weight,
\* so that a consensus has to break a tie between incompatible splits
WeightOf(id) == IF id = 2 THEN 4 ELSE IF id = 3 THEN 2 ELSE -1
\* rooted and ultrametric (node ages are recorded for these): depths 2, 3, 4; the leaf of taxon 1 has lengths 1, 2, 3
LensA(id) == CASE id = 1 -> <<-1, 4, 4, 4, 4, 4, 4>> [] id = 2 -> <<-1, 4, 8, 8, 8, 4, 4>> [] OTHER -> <<-1, 4, 12, 12, 12, 4, 4>>
\* kind: -1 / 0 / 1 the rooting of an ordinary sample, 2 the rooted ultrametric one
Graph(id, kind) == IF kind = 2 THEN MkTree(ParR, TaxaOf(id), LensA(id), 1)
                   ELSE IF kind = 1 THEN MkTree(ParR, TaxaOf(id), LensR(id), 1) ELSE MkTree(ParU, TaxaOf(id), LensU(id), kind)
Cat(kind) == [id \in 1..3 |-> Descr(Graph(id, kind), WeightOf(id), NoTipAges)]
SetOf(c) == [iel |-> FALSE, ina |-> ~c.ages, utw |-> TRUE]

SampleQuick == <<1, 2, 3>>
SampleThorough == <<1, 2, 3, 1>>
N == Len(Sample)
Arrs == 1..NArr
\* constant-level definitions: TLC evaluates each catalogue once
CatU == Cat(0)
CatR == Cat(1)
CatN == Cat(-1)
CatA == Cat(2)
D == IF cfg.ages THEN CatA ELSE CASE cfg.r = 0 -> CatU [] cfg.r = 1 -> CatR [] OTHER -> CatN
\* configurations: rooting of the sample (0 unrooted, 1 rooted, -1 no rooting information) and which arrays are
\* created with an explicit is_rooted_trees
Uniform(b) == [k \in Arrs |-> b]
Cfg(r, e, ages) == [r |-> r, expl |-> e, ages |-> ages]
\* quick: one of the five uniform configurations is the one that records node ages (rotated in, not multiplied)
ConfigsUniform == {Cfg(0, Uniform(FALSE), FALSE), Cfg(0, Uniform(TRUE), FALSE), Cfg(1, Uniform(FALSE), FALSE),
                   Cfg(1, Uniform(TRUE), TRUE), Cfg(-1, Uniform(FALSE), FALSE)}
ConfigsAll == {Cfg(r, e, FALSE) : r \in {0, 1}, e \in [Arrs -> BOOLEAN]} \cup {Cfg(-1, Uniform(FALSE), FALSE)}
                 \cup {Cfg(1, Uniform(b), TRUE) : b \in BOOLEAN}
\* the uniform configurations plus "one array explicit, the others implicit" and the reverse
ConfigsSome == ConfigsUniform \cup {Cfg(r, [k \in Arrs |-> (k = 1) = b], FALSE) : r \in {0, 1}, b \in BOOLEAN}
                   \cup {Cfg(1, Uniform(FALSE), TRUE), Cfg(1, Uniform(TRUE), FALSE)}
ConfigsImplicitUnrooted == {Cfg(0, Uniform(FALSE), FALSE)}
Init == /\ cfg \in Configs
        /\ arr = [k \in Arrs |-> NewArray(IF cfg.expl[k] THEN cfg.r ELSE -1, SetOf(cfg))]
        /\ alive = Arrs /\ nxt = 1 /\ failed = FALSE /\ q = {} /\ burnt = <<>>

\* Arrays in identical states are interchangeable (renaming them gives an isomorphic behaviour): only the
\* lowest-numbered one of each class is used as target, and as source the lowest one different from the target.
SameAs(k) == {j \in alive : arr[j] = arr[k] /\ (j \in q) = (k \in q)}
CanonT(k) == k = Min(SameAs(k))
CanonS(k, j) == j = Min(SameAs(j) \ {k})
AddTree(k, i) ==
    /\ k \in alive /\ CanonT(k) /\ nxt <= N /\ i <= Len(arr[k].trees) /\ (Positions \/ i = Len(arr[k].trees))
    /\ LET r == OpAddTree(arr[k], Sample[nxt], i, D) IN
         /\ arr' = [arr EXCEPT ![k] = r.st]
         /\ failed' = (failed \/ r.raised # "")
    /\ nxt' = nxt + 1 /\ UNCHANGED <<alive, cfg, q, burnt>>
Merge(op, k, j) ==
    /\ k \in alive /\ j \in alive /\ k # j /\ CanonT(k) /\ CanonS(k, j)
    /\ LET r == OpMerge(op, arr[k], arr[j], Shipped) IN
         /\ arr' = [arr EXCEPT ![k] = r.st]
         /\ failed' = (failed \/ r.raised # "")
    /\ alive' = alive \ {j} /\ UNCHANGED <<nxt, cfg, burnt>>
    /\ q' = IF op = "add" THEN q \ {k, j} ELSE q \ {j}         \* a + b is a new object: nothing cached yet
\* the first time the summaries of a non-empty array are asked for; the state of the array does not change
Query(k) == /\ k \in alive /\ CanonT(k) /\ ~IsEmpty(arr[k]) /\ q = {}          \* one queried array at a time bounds the model
            /\ q' = q \cup {k} /\ UNCHANGED <<arr, alive, nxt, cfg, failed, burnt>>
\* read_from_files / read: all trees not yet added arrive as sources of two trees each (the last one may hold one),
\* the first `o` trees of every source being burn-in
RestAsSources == LET rest == SubSeq(Sample, nxt, N)  m == (Len(rest) + 1) \div 2
                 IN [h \in 1..m |-> SubSeq(rest, 2 * h - 1, IF 2 * h <= Len(rest) THEN 2 * h ELSE Len(rest))]
ReadFiles(k, o) ==
    /\ k \in alive /\ CanonT(k) /\ nxt <= N
    /\ LET r == OpReadFiles(arr[k], RestAsSources, o, D) IN
         /\ arr' = [arr EXCEPT ![k] = r.st]
         /\ failed' = (failed \/ r.raised # "")
    /\ burnt' = burnt \o Flatten([h \in 1..Len(RestAsSources) |-> SubSeq(RestAsSources[h], 1, IF o < Len(RestAsSources[h]) THEN o ELSE Len(RestAsSources[h]))])
    /\ nxt' = N + 1 /\ UNCHANGED <<alive, cfg, q>>
Next == \/ \E k \in Arrs, i \in 0..N : AddTree(k, i)
        \/ \E op \in MergeOps, k \in Arrs, j \in Arrs : Merge(op, k, j)
        \/ \E k \in Arrs : Query(k)
        \/ \E k \in Arrs, o \in {0, 1} : ReadFiles(k, o)
Spec == Init /\ [][Next]_vars
\* one-state specification whose dump hands the catalogue to the harness, which builds exactly these trees
CatSpec == /\ cfg = [r |-> 0, expl |-> Uniform(FALSE), sample |-> Sample,
                     graphs |-> [r \in {-1, 0, 1, 2} |-> [id \in 1..3 |-> Graph(id, r)]], w |-> [id \in 1..3 |-> WeightOf(id)], ages |-> FALSE]
           /\ arr = <<>> /\ alive = {} /\ nxt = 1 /\ failed = FALSE /\ q = {} /\ burnt = <<>>
           /\ [][FALSE]_vars

\* ---- the property: every array in every reachable state - the operands of earlier merges included, which a
\*      merge must leave as they were
PerTreeListsAligned == \A k \in Arrs : Aligned(arr[k], D)
SummaryOfBagOnly == \A k \in Arrs : SummaryDependsOnBagOnly(arr[k], D)
OperandsUnchanged == [][\A op \in MergeOps, k \in Arrs, j \in Arrs : Merge(op, k, j) => arr'[j] = arr[j]]_vars
NoMergeFailure == ~failed                       \* all arrays of a run are compatible (uniform rooting, same settings)
PerTreeQueriesEnabled == \A k \in alive : QueriesEnabled(arr[k])
RootingKept == \A k \in alive : RootingConsistent(arr[k], D)
\* nothing is lost or duplicated: the arrays in use hold exactly the trees added so far
NothingLost == BagOfSeq(Flatten([k \in Arrs |-> IF k \in alive THEN arr[k].trees ELSE <<>>]) \o burnt) = BagOfSeq(SubSeq(Sample, 1, nxt - 1))
SettingsKept == \A k \in Arrs : SettingsAre(arr[k], SetOf(cfg))
=============================================================================
