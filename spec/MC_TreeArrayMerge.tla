-------------------------- MODULE MC_TreeArrayMerge --------------------------
(* Bounded model for C06 (sequential part): a sample of trees is distributed *)
(* over NArr sub-arrays (any partition, some left empty), each tree appended  *)
(* or inserted at any index, and the arrays are merged pairwise in any       *)
(* arrival order with update / extend / += / +, merges and additions freely  *)
(* interleaved.  Both rooting states, trees without rooting information,     *)
(* explicitly and implicitly configured arrays.                              *)
EXTENDS TreeArrayMerge
CONSTANTS NArr,        \* number of sub-arrays
          Sample,      \* sequence of catalogue ids, added in this order
          Shipped,     \* TRUE: the shipped compatibility rules and the shipped extend()
          MergeOps,    \* subset of {"update", "extend", "iadd", "add"}
          Configs,     \* set of [r, expl] (see ConfigsUniform / ConfigsAll below)
          Positions    \* TRUE: insert at every index; FALSE: append only
VARIABLES arr, alive, nxt, cfg, failed,
          q            \* arrays whose summaries (consensus, supports, length summaries, scores) have been asked for:
                       \* from then on they are asked for again after every call on that array (query / add / query)
vars == <<arr, alive, nxt, cfg, failed, q>>

\* catalogue: two topologies on four taxa, three length patterns / weights.
\* unrooted (and rooting-less) trees have a trifurcating seed, rooted ones a bifurcating seed.
ParU == <<0, 1, 1, 1, 4, 4>>          \* (a, b, (c, d))
ParR == <<0, 1, 2, 2, 1, 5, 5>>       \* ((a, b), (c, d))
TaxaOf(id) == IF id = 2 THEN <<1, 3, 2, 4>> ELSE <<1, 2, 3, 4>>
\* the leaf edge of taxon 1 has three distinct lengths (1, 3, 2 in sample order): its median is the middle VALUE,
\* which is not the value that arrives second
LensU(id) == CASE id = 1 -> <<-1, 4, 4, 4, 4, 4>> [] id = 2 -> <<-1, 12, 8, 8, 4, 4>> [] OTHER -> <<-1, 8, 4, 12, 4, 4>>
LensR(id) == CASE id = 1 -> <<-1, 4, 4, 4, 4, 4, 4>> [] id = 2 -> <<-1, 8, 12, 4, 8, 4, 4>> [] OTHER -> <<-1, 12, 8, 4, 12, 4, 4>>
\* weights 1 (none given), 2, 1 (given): in the sample <<1, 2, 3>> the two topologies tie at exactly half of the weight,
\* so that a consensus has to break a tie between incompatible splits
WeightOf(id) == IF id = 2 THEN 4 ELSE IF id = 3 THEN 2 ELSE -1
Graph(id, r) == IF r = 1 THEN MkTree(ParR, TaxaOf(id), LensR(id), 1) ELSE MkTree(ParU, TaxaOf(id), LensU(id), r)
Cat(r) == [id \in 1..3 |-> Descr(Graph(id, r), WeightOf(id))]
DefaultSet == [iel |-> FALSE, ina |-> TRUE, utw |-> TRUE]

SampleQuick == <<1, 2, 3>>
SampleThorough == <<1, 2, 3, 1>>
N == Len(Sample)
Arrs == 1..NArr
\* constant-level definitions: TLC evaluates each catalogue once
CatU == Cat(0)
CatR == Cat(1)
CatN == Cat(-1)
D == CASE cfg.r = 0 -> CatU [] cfg.r = 1 -> CatR [] OTHER -> CatN
\* configurations: rooting of the sample (0 unrooted, 1 rooted, -1 no rooting information) and which arrays are
\* created with an explicit is_rooted_trees
Uniform(b) == [k \in Arrs |-> b]
ConfigsUniform == {[r |-> 0, expl |-> Uniform(FALSE)], [r |-> 0, expl |-> Uniform(TRUE)],
                   [r |-> 1, expl |-> Uniform(FALSE)], [r |-> 1, expl |-> Uniform(TRUE)],
                   [r |-> -1, expl |-> Uniform(FALSE)]}
ConfigsAll == {[r |-> r, expl |-> e] : r \in {0, 1}, e \in [Arrs -> BOOLEAN]} \cup {[r |-> -1, expl |-> Uniform(FALSE)]}
\* the uniform configurations plus "one array explicit, the others implicit" and the reverse
ConfigsSome == ConfigsUniform \cup {[r |-> r, expl |-> [k \in Arrs |-> (k = 1) = b]] : r \in {0, 1}, b \in BOOLEAN}
ConfigsImplicitUnrooted == {[r |-> 0, expl |-> Uniform(FALSE)]}
Init == /\ cfg \in Configs
        /\ arr = [k \in Arrs |-> NewArray(IF cfg.expl[k] THEN cfg.r ELSE -1, DefaultSet)]
        /\ alive = Arrs /\ nxt = 1 /\ failed = FALSE /\ q = {}

\* Arrays in identical states are interchangeable (renaming them gives an isomorphic behaviour): only the
\* lowest-numbered one of each class is used as target, and as source the lowest one different from the target.
SameAs(k) == {j \in alive : arr[j] = arr[k] /\ (j \in q) = (k \in q)}
CanonT(k) == k = Min(SameAs(k))
CanonS(k, j) == j = Min(SameAs(j) \ {k})
AddTree(k, i) ==
    /\ k \in alive /\ CanonT(k) /\ nxt <= N /\ i <= Len(arr[k].trees) /\ (Positions \/ i = Len(arr[k].trees))
    /\ LET r == OpAddTree(arr[k], Sample[nxt], i, D) IN
         /\ arr' = [arr EXCEPT ![k] = r.st]
         /\ failed' = (failed \/ r.raised # "")
    /\ nxt' = nxt + 1 /\ UNCHANGED <<alive, cfg, q>>
Merge(op, k, j) ==
    /\ k \in alive /\ j \in alive /\ k # j /\ CanonT(k) /\ CanonS(k, j)
    /\ LET r == OpMerge(op, arr[k], arr[j], Shipped) IN
         /\ arr' = [arr EXCEPT ![k] = r.st]
         /\ failed' = (failed \/ r.raised # "")
    /\ alive' = alive \ {j} /\ UNCHANGED <<nxt, cfg>>
    /\ q' = IF op = "add" THEN q \ {k, j} ELSE q \ {j}         \* a + b is a new object: nothing cached yet
\* the first time the summaries of a non-empty array are asked for; the state of the array does not change
Query(k) == /\ k \in alive /\ CanonT(k) /\ ~IsEmpty(arr[k]) /\ q = {}          \* one queried array at a time bounds the model
            /\ q' = q \cup {k} /\ UNCHANGED <<arr, alive, nxt, cfg, failed>>
Next == \/ \E k \in Arrs, i \in 0..N : AddTree(k, i)
        \/ \E op \in MergeOps, k \in Arrs, j \in Arrs : Merge(op, k, j)
        \/ \E k \in Arrs : Query(k)
Spec == Init /\ [][Next]_vars
\* one-state specification whose dump hands the catalogue to the harness, which builds exactly these trees
CatSpec == /\ cfg = [r |-> 0, expl |-> Uniform(FALSE), sample |-> Sample,
                     graphs |-> [r \in {-1, 0, 1} |-> [id \in 1..3 |-> Graph(id, r)]], w |-> [id \in 1..3 |-> WeightOf(id)]]
           /\ arr = <<>> /\ alive = {} /\ nxt = 1 /\ failed = FALSE /\ q = {}
           /\ [][FALSE]_vars

\* ---- the property: every array in every reachable state - the operands of earlier merges included, which a
\*      merge must leave as they were
PerTreeListsAligned == \A k \in Arrs : Aligned(arr[k], D)
SummaryOfBagOnly == \A k \in Arrs : SummaryDependsOnBagOnly(arr[k], D)
OperandsUnchanged == [][\A op \in MergeOps, k \in Arrs, j \in Arrs : Merge(op, k, j) => arr'[j] = arr[j]]_vars
NoMergeFailure == ~failed                       \* all arrays of a run are compatible (uniform rooting, same settings)
PerTreeQueriesEnabled == \A k \in alive : QueriesEnabled(arr[k])
RootingKept == \A k \in alive : RootingConsistent(arr[k], D)
\* nothing is lost or duplicated: the arrays in use hold exactly the trees added so far
NothingLost == BagOfSeq(Flatten([k \in Arrs |-> IF k \in alive THEN arr[k].trees ELSE <<>>])) = BagOfSeq(SubSeq(Sample, 1, nxt - 1))
=============================================================================
