--------------------------- MODULE MC_Containers ---------------------------
(* Bounded model of C11: every history of container operations up to MaxOps *)
(* over a small universe: three namespaces with overlapping / disjoint /    *)
(* case-variant label sets (N1 {a,b} caseless, N2 {a,A,c} case sensitive,   *)
(* N3 {B,Z} caseless), trees bound to each of them (a taxon on an internal  *)
(* node, a taxon on two nodes), two tree lists, two matrices (one with rows *)
(* that collide in a caseless namespace), a tree array and one data set     *)
(* (detached; DSAttach reaches the attached mode).  Groups selects families. *)
EXTENDS Containers
CONSTANTS MaxOps, Groups, Big, Wide, Focus
VARIABLES u, last, nops
vars == <<u, last, nops>>

U0(att) ==
    [labels |-> <<"a", "b", "a", "A", "c", "B", "Z", "B", "a">>,     \* 8, 9: curated taxa in no namespace (memo 2)
     ns     |-> <<[mem |-> <<1, 2>>, cs |-> FALSE], [mem |-> <<3, 4, 5>>, cs |-> TRUE], [mem |-> <<6, 7>>, cs |-> FALSE]>>,
     trees  |-> <<[ns |-> 1, refs |-> <<1, 2>>], [ns |-> 2, refs |-> <<3, 4, 5>>], [ns |-> 2, refs |-> <<4, 5, 4>>],
                  [ns |-> 3, refs |-> <<6, 7>>], [ns |-> 2, refs |-> <<5, 3>>], [ns |-> 2, refs |-> <<3, 5>>],
                  [ns |-> 3, refs |-> <<7, 6>>]>>,
     lists  |-> <<[ns |-> 1, trees |-> <<1>>], [ns |-> 2, trees |-> <<2, 3>>]>>,
     mats   |-> <<[ns |-> 2, rows |-> <<3, 4>>], [ns |-> 3, rows |-> <<6>>]>>,
     arrs   |-> <<[ns |-> 1, sd |-> 1, n |-> 0]>>,
     ds     |-> [att |-> att, lists |-> <<>>, mats |-> <<>>],
     memos  |-> << <<>>, << <<6, 8>>, <<1, 9>> >> >>]
\* the larger universe of the simulated (random) histories
U1(att) ==
    [labels |-> <<"a", "b", "AB", "a", "A", "c", "Ab", "B", "Z", "aB", "X y", "C", "B", "a">>,
     ns     |-> <<[mem |-> <<1, 2, 3>>, cs |-> FALSE], [mem |-> <<4, 5, 6, 7>>, cs |-> TRUE],
                  [mem |-> <<8, 9, 10>>, cs |-> FALSE], [mem |-> <<11, 12>>, cs |-> TRUE]>>,
     trees  |-> <<[ns |-> 1, refs |-> <<1, 2, 3>>], [ns |-> 2, refs |-> <<4, 5, 6, 7>>], [ns |-> 2, refs |-> <<5, 6, 5>>],
                  [ns |-> 3, refs |-> <<8, 9, 10>>], [ns |-> 2, refs |-> <<6, 4, 7>>], [ns |-> 4, refs |-> <<11, 12>>],
                  [ns |-> 1, refs |-> <<3, 1>>], [ns |-> 3, refs |-> <<10, 8>>]>>,
     lists  |-> <<[ns |-> 1, trees |-> <<1>>], [ns |-> 2, trees |-> <<2, 3>>], [ns |-> 3, trees |-> <<4>>]>>,
     mats   |-> <<[ns |-> 2, rows |-> <<4, 5, 7>>], [ns |-> 3, rows |-> <<8, 10>>], [ns |-> 4, rows |-> <<12>>]>>,
     arrs   |-> <<[ns |-> 1, sd |-> 1, n |-> 0], [ns |-> 2, sd |-> 2, n |-> 0]>>,
     ds     |-> [att |-> att, lists |-> <<>>, mats |-> <<>>],
     memos  |-> << <<>>, << <<8, 13>>, <<1, 14>>, <<6, 14>> >> >>]
NoOp == [a |-> "", x |-> <<>>, raised |-> ""]
Init == /\ u \in (IF Big THEN {U1(0), U1(3)} ELSE {U0(0)}) /\ last = NoOp /\ nops = 0

\* Focus selects a narrow family of operations around one kind of history-dependent hidden state, so that its
\* histories can be enumerated (and replayed on real objects) deeper:
\*  "L": import a tree from a foreign namespace into list 1 ; change the namespace of list 1 ; import another tree
\*       from the same foreign namespace (two free trees of N2 and one of N3 are in the universe)
\*  "M": caller-owned taxon_mapping_memo dictionaries handed to several migrations; trees made from seed nodes
\*  "D": read into / add to the data set ; attach / unify ; read again; matrix 2 migrated and cloned in between
Has(x, f) == f \in DOMAIN x
FocusOK(a, x) ==
    CASE Focus = "" -> TRUE
      [] Focus = "L" ->
            /\ a \in {"TLAppend", "TLInsert", "TLSetItem", "TLExtendTrees", "TLSetSliceTrees", "TLMigrate", "TLReconstruct", "TLRemoveAt", "TreeClone"}
            /\ (Has(x, "l") => x.l = 1) /\ (Has(x, "t") => x.t \in {4, 5, 6}) /\ (Has(x, "i") => x.i = 0)
            /\ (Has(x, "strat") => x.strat = "migrate") /\ (Has(x, "ts") => x.ts \in {<<6>>, <<5, 5>>})
            /\ (Has(x, "lo") => x.lo = 0 /\ x.hi = 1) /\ (Has(x, "how") => x.how = "pop")
            /\ (a = "TLReconstruct" => x.unify) /\ (a = "TreeClone" => x.t = 5 /\ x.nsarg = 0)
      [] Focus = "M" ->     \* explicit memos shared between calls into different containers; hand-made seed nodes
            /\ a \in {"TLAppendMemo", "TLMigrateMemo", "TreeMigrateMemo", "CMMigrateMemo", "TLNewTreeSeed", "TreeFromSeed", "TLAppend"}
            /\ (Has(x, "t") => x.t \in {4, 7, 8}) /\ (Has(x, "how") => x.how \in {"append", "pop"}) /\ (Has(x, "i") => x.i = 0)
            /\ (Has(x, "strat") => x.strat = "migrate") /\ (Has(x, "m") => x.m = 2)
            /\ (a = "TLMigrateMemo" => x.l = 1 /\ x.n = 3) /\ (a \in {"TreeMigrateMemo", "CMMigrateMemo"} => x.n = 1)
            /\ (Has(x, "refs") => x.refs = <<6, 7>> /\ x.labs = <<"a", "Q">> /\ (Has(x, "nsarg") => x.nsarg = 1) /\ (Has(x, "l") => x.l = 1))
      [] Focus = "D" ->
            /\ a \in {"DSRead", "DSReadBlocks", "DSAddList", "DSNewList", "DSAttach", "DSDetach", "DSUnify", "CMMigrate", "CMClone", "CMGetTaxon", "TLAppend", "TLMigrate"}
            /\ (Has(x, "m") => x.m = 2) /\ (Has(x, "l") => x.l = 1) /\ (Has(x, "t") => x.t = (IF a = "CMGetTaxon" THEN 2 ELSE 5))
            /\ (Has(x, "strat") => x.strat = "migrate") /\ (Has(x, "nsarg") => x.nsarg \in {0, 1}) /\ (Has(x, "n") => x.n \in {1, 3})
            /\ (a \in {"TLMigrate", "CMMigrate"} => x.unify)
            /\ (Has(x, "src") => x.src.rows # <<>>)
Act(a, x) == /\ nops < MaxOps /\ nops' = nops + 1
             /\ FocusOK(a, x)
             /\ Guard(u, a, x)
             /\ LET r == Apply(u, a, x) IN u' = r.u /\ last' = [a |-> a, x |-> x, raised |-> r.raised]

\* ---- argument domains (constant sets, so that the dumped graph carries the arguments).
\* Wide = FALSE: the narrow sets of the deep runs;  Wide = TRUE: every object of the universe.
W(wide, narrow) == IF Big \/ Wide THEN wide ELSE narrow
LS == IF Big THEN 1..5 ELSE 1..3
TS == IF Big THEN 1..10 ELSE 1..8
NS == IF Big THEN 1..4 ELSE 1..3
NS0 == {0} \cup NS
MS == IF Big THEN 1..4 ELSE 1..3
AS == IF Big THEN 1..2 ELSE {1}
XS == IF Big THEN 1..14 ELSE 1..9
Strats == {"migrate", "add"}
TSeqs == IF Big THEN {<<5, 6>>, <<4, 8>>, <<7, 7>>, <<1, 9>>} ELSE W({<<4, 5>>, <<5, 5>>, <<1, 3>>, <<6>>}, {<<4, 5>>})
Slices == W({<<0, 0>>, <<0, 1>>, <<1, 2>>, <<0, 2>>}, {<<0, 1>>, <<1, 2>>})
TreeSrcs == {<<<<"A", "b", "C">>, <<"a", "c">>>>, <<<<"Z", "AB">>>>}
Docs == {[taxa |-> <<"A", "b", "C">>, rows |-> <<"A", "b">>, trees |-> <<<<"A", "b", "C">>, <<"C", "A">>>>],
         [taxa |-> <<"a", "A", "Z">>, rows |-> <<"a", "A">>, trees |-> <<<<"Z", "a", "A">>>>]}
         \cup W({[taxa |-> <<"B", "c">>, rows |-> <<>>, trees |-> <<<<"c", "B">>>>]}, {})
BlockDocs == {<<[taxa |-> <<"A", "b", "C">>, trees |-> <<<<"A", "b", "C">>>>], [taxa |-> <<"A", "C", "Z">>, trees |-> <<<<"Z", "A", "C">>>>]>>}
             \cup W({<<[taxa |-> <<"a", "Z">>, trees |-> <<<<"Z", "a">>>>], [taxa |-> <<"z", "B">>, trees |-> <<<<"B", "z">>, <<"z">>>>]>>}, {})
SeedRefs == IF Big THEN {<<8, 9>>, <<1>>, <<>>} ELSE W({<<6, 7>>, <<1>>}, {<<6>>})
SeedLabs == W({<<>>, <<"a", "Q">>}, {<<"a">>})
KeySets == W({<<"a", "B">>, <<"A", "a", "c">>}, {<<"A", "a", "c">>})
LS2 == W(LS, 1..2)              \* lists named as first operand
FreeT == W(TS, {4, 5})          \* trees offered to a list
CloneT == W(TS, {2, 4})
ArrT == W(TS, {1, 4, 8})
RowX == W(XS, {1, 5})
Idx == W({0, 1}, {0})
Rm == W({0, 1} \X {"pop", "del", "remove"}, {<<0, "pop">>, <<0, "remove">>, <<1, "del">>})
NsA == W(NS0, {0, 1})           \* optional namespace arguments
NsB == W(NS0, {0, 3})
NsT == W(NS, {1, 3})            \* migration targets
Uni == W(BOOLEAN, {TRUE})

G(g) == g \in Groups
TLAppend(l, t, s) == G("list") /\ Act("TLAppend", [l |-> l, t |-> t, strat |-> s])
TLInsert(l, i, t, s) == G("list") /\ Act("TLInsert", [l |-> l, i |-> i, t |-> t, strat |-> s])
TLExtendList(l, l2) == G("list") /\ Act("TLExtendList", [l |-> l, l2 |-> l2])
TLExtendTrees(l, ts) == G("list") /\ Act("TLExtendTrees", [l |-> l, ts |-> ts])
TLAddList(l, l2) == G("list") /\ Act("TLAddList", [l |-> l, l2 |-> l2])
TLAddTrees(l, ts) == G("list") /\ Act("TLAddTrees", [l |-> l, ts |-> ts])
TLSetItem(l, i, t) == G("list") /\ Act("TLSetItem", [l |-> l, i |-> i, t |-> t])
TLSetSliceList(l, sl, l2) == G("list") /\ Act("TLSetSliceList", [l |-> l, lo |-> sl[1], hi |-> sl[2], l2 |-> l2])
TLSetSliceTrees(l, sl, ts) == G("list") /\ Act("TLSetSliceTrees", [l |-> l, lo |-> sl[1], hi |-> sl[2], ts |-> ts])
TLGetSlice(l, sl) == G("list") /\ Act("TLGetSlice", [l |-> l, lo |-> sl[1], hi |-> sl[2]])
TLRemoveAt(l, i, how) == G("list") /\ Act("TLRemoveAt", [l |-> l, i |-> i, how |-> how])
TLClear(l) == G("list") /\ Act("TLClear", [l |-> l])
TLNewTree(l, n) == G("list") /\ Act("TLNewTree", [l |-> l, nsarg |-> n])
TLRead(l, srcs) == G("list") /\ Act("TLRead", [l |-> l, srcs |-> srcs])
TLCtorList(l, n) == G("list") /\ Act("TLCtorList", [l |-> l, nsarg |-> n])
TLCtorTrees(ts, n) == G("list") /\ Act("TLCtorTrees", [ts |-> ts, nsarg |-> n])
TLMigrate(l, n, b) == G("listns") /\ Act("TLMigrate", [l |-> l, n |-> n, unify |-> b])
TLReconstruct(l, b) == G("listns") /\ Act("TLReconstruct", [l |-> l, unify |-> b])
TLClearReconstruct(l, b) == G("listns") /\ Act("TLClearReconstruct", [l |-> l, unify |-> b])
TLUpdate(l) == G("listns") /\ Act("TLUpdate", [l |-> l])
TreeMigrate(t, n, b) == G("tree") /\ Act("TreeMigrate", [t |-> t, n |-> n, unify |-> b])
TreeClone(t, n) == G("tree") /\ Act("TreeClone", [t |-> t, nsarg |-> n])
TLAppendMemo(l, t, how, k) == G("memo") /\ Act("TLAppendMemo", [l |-> l, t |-> t, how |-> how, k |-> k])
TLMigrateMemo(l, n, k) == G("memo") /\ Act("TLMigrateMemo", [l |-> l, n |-> n, k |-> k])
TreeMigrateMemo(t, n, k) == G("memo") /\ Act("TreeMigrateMemo", [t |-> t, n |-> n, k |-> k])
CMMigrateMemo(m, n, k) == G("memo") /\ Act("CMMigrateMemo", [m |-> m, n |-> n, k |-> k])
TLNewTreeSeed(l, refs, labs) == G("seed") /\ Act("TLNewTreeSeed", [l |-> l, refs |-> refs, labs |-> labs])
TreeFromSeed(n, refs, labs) == G("seed") /\ Act("TreeFromSeed", [nsarg |-> n, refs |-> refs, labs |-> labs])
TAAdd(a, t) == G("arr") /\ Act("TAAdd", [a |-> a, t |-> t])
TARead(a, srcs) == G("arr") /\ Act("TARead", [a |-> a, srcs |-> srcs])
CMNewSeq(m, t) == G("mat") /\ Act("CMNewSeq", [m |-> m, t |-> t])
CMSetItem(m, t) == G("mat") /\ Act("CMSetItem", [m |-> m, t |-> t])
CMGetTaxon(m, t) == G("mat") /\ Act("CMGetTaxon", [m |-> m, t |-> t])
CMGetLabel(m, lab) == G("mat") /\ Act("CMGetLabel", [m |-> m, lab |-> lab])
CMGetIndex(m, i) == G("mat") /\ Act("CMGetIndex", [m |-> m, i |-> i])
CMMigrate(m, n, b) == G("mat") /\ Act("CMMigrate", [m |-> m, n |-> n, unify |-> b])
CMReconstruct(m, b) == G("mat") /\ Act("CMReconstruct", [m |-> m, unify |-> b])
CMUpdate(m) == G("mat") /\ Act("CMUpdate", [m |-> m])
CMFromDict(keys, n) == G("mat") /\ Act("CMFromDict", [keys |-> keys, nsarg |-> n])
CMClone(m, n) == G("mat") /\ Act("CMClone", [m |-> m, nsarg |-> n])
DSRead(src, n) == G("ds") /\ Act("DSRead", [src |-> src, nsarg |-> n])
DSReadBlocks(bs, n) == G("ds") /\ Act("DSReadBlocks", [blocks |-> bs, nsarg |-> n])
DSAddList(l) == G("ds") /\ Act("DSAddList", [l |-> l])
DSAddMat(m) == G("ds") /\ Act("DSAddMat", [m |-> m])
DSNewList(n) == G("ds") /\ Act("DSNewList", [nsarg |-> n])
DSNewMat(n) == G("ds") /\ Act("DSNewMat", [nsarg |-> n])
DSAttach(n) == G("ds") /\ u.ds.att # n /\ Act("DSAttach", [n |-> n])
DSDetach == G("ds") /\ u.ds.att # 0 /\ Act("DSDetach", [none |-> 0])
DSUnify(n) == G("ds") /\ Act("DSUnify", [nsarg |-> n])

Next == \/ \E l \in LS2, t \in FreeT, s \in Strats : TLAppend(l, t, s)
        \/ \E l \in LS2, i \in Idx, t \in FreeT, s \in W(Strats, {"add"}) : TLInsert(l, i, t, s)
        \/ \E l \in LS2, l2 \in LS : TLExtendList(l, l2)
        \/ \E l \in LS2, ts \in TSeqs : TLExtendTrees(l, ts)
        \/ \E l \in LS2, l2 \in LS2 : TLAddList(l, l2)
        \/ \E l \in LS2, ts \in TSeqs : TLAddTrees(l, ts)
        \/ \E l \in LS2, i \in Idx, t \in FreeT : TLSetItem(l, i, t)
        \/ \E l \in LS2, sl \in Slices, l2 \in W(LS, {2}) : TLSetSliceList(l, sl, l2)
        \/ \E l \in LS2, sl \in Slices, ts \in TSeqs : TLSetSliceTrees(l, sl, ts)
        \/ \E l \in LS2, sl \in W(Slices, {<<0, 1>>}) : TLGetSlice(l, sl)
        \/ \E l \in LS2, r \in Rm : TLRemoveAt(l, r[1], r[2])
        \/ \E l \in W(LS, {2}) : TLClear(l)
        \/ \E l \in LS2, n \in NsB : TLNewTree(l, n)
        \/ \E l \in LS2, srcs \in W(TreeSrcs, {<<<<"A", "b", "C">>, <<"a", "c">>>>}) : TLRead(l, srcs)
        \/ \E l \in LS2, n \in NsB : TLCtorList(l, n)
        \/ \E ts \in TSeqs, n \in NsA : TLCtorTrees(ts, n)
        \/ \E l \in LS, n \in NsT, b \in BOOLEAN : TLMigrate(l, n, b)
        \/ \E l \in LS2, b \in Uni : TLReconstruct(l, b)
        \/ \E l \in LS2, b \in BOOLEAN : TLClearReconstruct(l, b)
        \/ \E l \in LS2 : TLUpdate(l)
        \/ \E t \in FreeT, n \in W(NS, {1}), b \in BOOLEAN : TreeMigrate(t, n, b)
        \/ \E t \in CloneT, n \in NsA : TreeClone(t, n)
        \/ \E l \in LS2, t \in W({4, 7, 8}, {4}), how \in W({"append", "insert"}, {"append"}), k \in W({1, 2}, {2}) : TLAppendMemo(l, t, how, k)
        \/ \E l \in W(LS, {1}), n \in W(NS, {3}), k \in W({1, 2}, {2}) : TLMigrateMemo(l, n, k)
        \/ \E t \in W({4, 7, 8}, {4}), n \in W(NS, {1}), k \in W({1, 2}, {1}) : TreeMigrateMemo(t, n, k)
        \/ \E m \in W(MS, {2}), n \in W(NS, {1}), k \in W({1, 2}, {2}) : CMMigrateMemo(m, n, k)
        \/ \E l \in W(LS, {1}), refs \in SeedRefs, labs \in SeedLabs : TLNewTreeSeed(l, refs, labs)
        \/ \E n \in W(NS0, {1}), refs \in SeedRefs, labs \in SeedLabs : TreeFromSeed(n, refs, labs)
        \/ \E a \in AS, t \in ArrT : TAAdd(a, t)
        \/ \E a \in AS, srcs \in W(TreeSrcs, {<<<<"Z", "AB">>>>}) : TARead(a, srcs)
        \/ \E m \in MS, t \in RowX : CMNewSeq(m, t)
        \/ \E m \in MS, t \in RowX : CMSetItem(m, t)
        \/ \E m \in MS, t \in (IF Big THEN XS ELSE W({1, 2, 3, 5, 6, 8}, {1, 5})) : CMGetTaxon(m, t)
        \/ \E m \in MS, lab \in W({"c", "B", "q1"}, {"c"}) : CMGetLabel(m, lab)
        \/ \E m \in MS, i \in W({0, 2, 5}, {2}) : CMGetIndex(m, i)
        \/ \E m \in MS, n \in NsT, b \in BOOLEAN : CMMigrate(m, n, b)
        \/ \E m \in MS, b \in Uni : CMReconstruct(m, b)
        \/ \E m \in MS : CMUpdate(m)
        \/ \E keys \in KeySets, n \in W(NS0, {0, 2}) : CMFromDict(keys, n)
        \/ \E m \in MS, n \in NsA : CMClone(m, n)
        \/ \E src \in Docs, n \in NsA : DSRead(src, n)
        \/ \E bs \in BlockDocs, n \in NsA : DSReadBlocks(bs, n)
        \/ \E l \in LS : DSAddList(l)
        \/ \E m \in MS : DSAddMat(m)
        \/ \E n \in W(NS0, {0, 2}) : DSNewList(n)
        \/ \E n \in W(NS0, {0, 2}) : DSNewMat(n)
        \/ \E n \in NS : DSAttach(n)
        \/ DSDetach
        \/ \E n \in NsA : DSUnify(n)
Spec == Init /\ [][Next]_vars

\* ---- the property on the model
SaneInv == Sane(u)
ClosureInv == ContViol(u) = {}
RemovedKeepConsistentNs == FreeViol(u) = {}
LabelFunctional == [][LFAll(u, last'.a, last'.x, last'.raised, u') = {}]_vars
ArrayRefusesForeign == [][~ArrayAcceptedForeign(last'.a, last'.x, last'.raised, u')]_vars
=============================================================================
