---------------------------- MODULE Trace_Readers ----------------------------
(***************************************************************************)
(* C20 trace validation.  Every event is one real read of a rendered token *)
(* sequence through a public entry point under the step budget.  Logged:   *)
(*   kind   "ok" | "exc" | "hang"                                          *)
(*   exc    exception class name, mro = names of its classes (MRO)         *)
(*   site   innermost dendropy frame `module.function` (exception), or the *)
(*          frame that holds the loop (hang)                               *)
(*   trees  raw pointer graph (TreeBase graph form) of every returned tree *)
(*   mats   [rows |-> <<row lengths>>] of every returned matrix            *)
(*   toks   the token sequence that was rendered (for pumped inputs: the   *)
(*          base sequence and at / ptok / k); inter = PHYLIP option        *)
(* TLC evaluates the clauses of the property on it; verdicts are total.    *)
(* `class` is the call site (or, for dimension clauses, format and         *)
(* dimension), so that different sites are different findings.             *)
(***************************************************************************)
EXTENDS TreeBase, ReaderInputs, Json, IOUtils
Tr == ndJsonDeserialize(IOEnv.TRACE_FILE)
VARIABLES l, bad
V(c, k) == <<[clause |-> c, class |-> k]>>
None == <<>>

InternalErrors == {"AttributeError", "IndexError", "TypeError", "KeyError", "RecursionError", "AssertionError"}
\* the documented ValueError of the get() layer for a source without (matching) data
GetLayer == {"_tree._parse_and_create_from_stream", "charmatrixmodel._parse_and_create_from_stream"}
Mro(e) == SeqToSet(e.mro)
IsInternal(e) == Mro(e) \cap InternalErrors # {} /\ e.site # ""
InFamily(e) == "DataParseError" \in Mro(e) \/ ("ValueError" \in Mro(e) /\ e.site \in GetLayer)

\* the token sequence as far as declarations are concerned (two repetitions of a pumped token
\* interrupt a declaration exactly as k of them do)
EffToks(e) == IF e.k > 0 THEN Pump(e.toks, e.at, e.ptok, 2) ELSE e.toks
DeclNtax(e, k)  == IF e.fam = "nexus" THEN DeclaredFor(EffToks(e), k, Len(e.mats), "NTAX")
                   ELSE IF e.fam = "phylip" THEN PhylipDeclared(EffToks(e))[1] ELSE -1
DeclNchar(e, k) == IF e.fam = "nexus" THEN DeclaredFor(EffToks(e), k, Len(e.mats), "NCHAR")
                   ELSE IF e.fam = "phylip" THEN PhylipDeclared(EffToks(e))[2] ELSE -1
Layout(e) == e.fam \o (IF (e.fam = "nexus" /\ "INTERLEAVE" \in SeqToSet(e.toks)) \/ (e.fam = "phylip" /\ e.inter)
                       THEN "/interleaved" ELSE "")
RowsBad(e, k) == DeclNtax(e, k) >= 0 /\ Len(e.mats[k].rows) # DeclNtax(e, k)
ColsBad(e, k) == DeclNchar(e, k) >= 0 /\ \E i \in 1..Len(e.mats[k].rows) : e.mats[k].rows[i] # DeclNchar(e, k)

JudgeOk(e) ==
    LET badTrees == {i \in 1..Len(e.trees) : WFClause(e.trees[i]) # "ok"}
        wf == IF badTrees = {} THEN None
              ELSE V("C20.ResultWellFormed", WFClause(e.trees[Min(badTrees)]) \o "@" \o e.entry \o "/" \o e.fam)
        rows == IF \E i \in 1..Len(e.mats) : RowsBad(e, i)
                THEN V("C20.DimsConsistent", Layout(e) \o ":rows") ELSE None
        cols == IF \E i \in 1..Len(e.mats) : ColsBad(e, i)
                THEN V("C20.DimsConsistent", Layout(e) \o ":cols") ELSE None
    IN wf \o rows \o cols

Judge(e) ==
    CASE e.kind = "hang" -> V("C20.Terminates", "Hang@" \o e.site)
      [] e.kind = "exc" -> IF IsInternal(e) THEN V("C20.NoInternalError", e.exc \o "@" \o e.site)
                           ELSE IF ~InFamily(e) THEN V("C20.ErrorIsDataParseFamily", e.exc \o "@" \o e.site)
                           ELSE None
      [] e.kind = "ok" -> JudgeOk(e)

Init == l = 1 /\ bad = <<>>
Next == /\ l <= Len(Tr)
        /\ LET v == Judge(Tr[l]) IN
             bad' = bad \o [k \in 1..Len(v) |-> [i |-> l, clause |-> v[k].clause, class |-> v[k].class]]
        /\ l' = l + 1
Spec == Init /\ [][Next]_<<l, bad>>
Done == l = Len(Tr) + 1 => JsonSerialize(IOEnv.OUT_FILE, [n |-> Len(Tr), bad |-> bad])
Accepted == TLCGet("stats").diameter - 1 = Len(Tr)
=============================================================================
