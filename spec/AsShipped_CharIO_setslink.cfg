SPECIFICATION Spec
CONSTANTS
  StickyHyphen = FALSE
  ShippedSetsLink = TRUE
  ShippedCharIds = FALSE
  ShippedLinkBlocks = FALSE
  ShippedTitleCase = FALSE
  Dims <- DimsNone
  LabelSets = {"plain"}
  MaxNs = 1
  MaxComps = 2
  TitlePool <- TitlesSmall
INVARIANT NamespaceOfEachComponent
CHECK_DEADLOCK FALSE
