------------------------------ MODULE Restrict ------------------------------
(***************************************************************************)
(* C08 - pruning, retaining and extracting yield exactly the induced       *)
(* subtree.                                                                *)
(*                                                                         *)
(* Restrict(g, S, suppress) is defined on the graph form of TreeBase as a  *)
(* *sparse* graph: it keeps the node ids of g, `live` is the set of nodes  *)
(* that exist in the result, kids/par/len are meaningful on live nodes     *)
(* (<<>> / 0 / -1 elsewhere).  Child order is the order of g.  Nothing in  *)
(* this module says how the library computes the result: the definition is *)
(* "keep the nodes that have a surviving leaf below them, then contract    *)
(* every maximal chain of one-child nodes into its lowest node".           *)
(*                                                                         *)
(* A second, operational description (the pruning loop as single steps:    *)
(* remove one dead leaf / suppress one unifurcation, in any order) is      *)
(* given by Step*; MC_Restrict lets TLC check that every terminal state of *)
(* every interleaving equals Restrict (confluence).  A third one (ExtNest: *)
(* bottom-up filtered clone with on-the-fly merging) must give the same    *)
(* nested value.                                                           *)
(***************************************************************************)
EXTENDS TreeBase

\* lengths: -1 = None.  None is the identity of the addition used when a
\* unifurcation is merged into its child (None + x = x, None + None = None)
AddLen(a, b) == IF a < 0 THEN b ELSE IF b < 0 THEN a ELSE a + b

\* ------------------------------------------------------------ survivor sets
\* by taxa: a node survives iff one of its leaves carries a taxon of S (taxon-less leaves never do)
SurvTx(g, S) == {x \in Nodes(g) : LeafTx(g, x) \cap S # {}}
AllTx(g) == {g.tx[x] : x \in Leaves(g)} \ {0}

\* by a predicate on current leaves, applied until no leaf fails it (filter_leaf_nodes, recursive):
\* P = the nodes on which the predicate holds.  An internal node all of whose children
\* are gone is a leaf then and is itself subject to the predicate.
RECURSIVE KeepF(_, _, _)
KeepF(g, x, P) == IF IsLeaf(g, x) THEN x \in P
                  ELSE (x \in P) \/ \E c \in KidSet(g, x) : KeepF(g, c, P)
SurvLeafFilter(g, P) == {x \in Nodes(g) : KeepF(g, x, P)}

\* by an inclusion predicate for the filtered clone (extract_tree): lf / inf say whether the
\* predicate is consulted for leaves / internal nodes; an excluded internal node takes its
\* whole subtree with it; an internal node with no surviving child is dropped
RECURSIVE UpE(_, _, _, _, _)
UpE(g, x, P, lf, inf) == IF IsLeaf(g, x) THEN (~lf \/ x \in P)
                         ELSE (~inf \/ x \in P) /\ \E c \in KidSet(g, x) : UpE(g, c, P, lf, inf)
RECURSIVE AncWithin(_, _, _)
AncWithin(g, x, top) == IF x = top THEN {x} ELSE {x} \cup AncWithin(g, g.par[x], top)   \* x below top
SurvExtract(g, top, P, lf, inf) == {x \in Desc(g, top) : \A a \in AncWithin(g, x, top) : UpE(g, a, P, lf, inf)}

\* removal of the subtree below (and including) x
SurvWithout(g, x) == Nodes(g) \ Desc(g, x)

\* ------------------------------------------------------------ the induced subtree
\* K: survivor set, top \in K, every node of K other than top has its parent in K
Induced(g, top, K, sup) ==
    LET kk == [x \in 1..g.n |-> IF x \in K THEN SelectSeq(g.kids[x], LAMBDA c : c \in K) ELSE <<>>]
        Unary(x) == sup /\ x \in K /\ Len(kk[x]) = 1
        RECURSIVE Rep(_)          \* the node standing in x's place once chains are contracted
        Rep(x) == IF Unary(x) THEN Rep(kk[x][1]) ELSE x
        RECURSIVE Acc(_)          \* own length plus the lengths of the contracted chain directly above
        Acc(x) == IF x # top /\ Unary(g.par[x]) THEN AddLen(Acc(g.par[x]), g.len[x]) ELSE g.len[x]
        RECURSIVE Up(_)           \* nearest uncontracted proper ancestor, 0 if none
        Up(x) == IF x = top THEN 0 ELSE IF Unary(g.par[x]) THEN Up(g.par[x]) ELSE g.par[x]
        live == {x \in K : ~Unary(x)}
    IN [n |-> g.n, live |-> live, seed |-> Rep(top),
        kids |-> [x \in 1..g.n |-> IF x \in live THEN [i \in 1..Len(kk[x]) |-> Rep(kk[x][i])] ELSE <<>>],
        par |-> [x \in 1..g.n |-> IF x \in live THEN Up(x) ELSE 0],
        len |-> [x \in 1..g.n |-> IF x \in live THEN Acc(x) ELSE -1],
        tx |-> g.tx, lab |-> g.lab, rooted |-> g.rooted]

Restrict(g, S, sup) == Induced(g, g.seed, SurvTx(g, S), sup)

Sparse(g) == [n |-> g.n, live |-> Nodes(g), seed |-> g.seed, kids |-> g.kids, par |-> g.par, len |-> g.len,
              tx |-> g.tx, lab |-> g.lab, rooted |-> g.rooted]
Core(r) == [live |-> r.live, seed |-> r.seed, kids |-> r.kids, par |-> r.par, len |-> r.len]

\* ------------------------------------------------------------ observations on sparse graphs
LiveLeaves(r) == {x \in r.live : r.kids[x] = <<>>}
LiveClades(r) == {LeafTx(r, x) : x \in r.live}
LeafOfTx(r, t) == CHOOSE x \in LiveLeaves(r) : r.tx[x] = t
\* distance from above the seed edge down to x (the seed's own length counts)
RECURSIVE TopDist(_, _)
TopDist(r, x) == L0(r, x) + (IF r.par[x] = 0 THEN 0 ELSE TopDist(r, r.par[x]))
\* the same with None kept apart from 0 (what the single surviving leaf must carry)
RECURSIVE TopAcc(_, _)
TopAcc(r, x) == IF r.par[x] = 0 THEN r.len[x] ELSE AddLen(TopAcc(r, r.par[x]), r.len[x])
SparseWF(r) ==
    /\ r.seed \in r.live /\ r.par[r.seed] = 0
    /\ \A x \in r.live : /\ SeqToSet(r.kids[x]) \subseteq r.live
                         /\ Len(r.kids[x]) = Cardinality(SeqToSet(r.kids[x]))
                         /\ \A c \in SeqToSet(r.kids[x]) : r.par[c] = x
                         /\ (x # r.seed => r.par[x] \in r.live /\ x \in SeqToSet(r.kids[r.par[x]]))
    /\ SeqToSet(Pre(r, r.seed)) = r.live

\* ordered nested value with the node id (identity of the surviving / source node)
RECURSIVE NestId(_, _)
NestId(r, x) == [id |-> x, kids |-> [i \in 1..Len(r.kids[x]) |-> NestId(r, r.kids[x][i])]]

\* ------------------------------------------------------------ the pruning loop, one step at a time
\* state: Core record.  dead(x): x is a leaf now and may not stay
CanRemove(g, c, x, S) == x \in c.live /\ c.kids[x] = <<>> /\ g.tx[x] \notin S /\ x # c.seed
DropFrom(q, x) == SelectSeq(q, LAMBDA y : y # x)
StepRemove(c, x) ==
    [c EXCEPT !.live = @ \ {x}, !.kids[c.par[x]] = DropFrom(@, x), !.par[x] = 0, !.len[x] = -1]
CanSuppress(c, x) == x \in c.live /\ Len(c.kids[x]) = 1
StepSuppress(c, x) ==
    LET ch == c.kids[x][1]  p == c.par[x] IN
    IF p = 0
      THEN [c EXCEPT !.live = @ \ {x}, !.seed = ch, !.kids[x] = <<>>, !.len[x] = -1,
                     !.par[ch] = 0, !.len[ch] = AddLen(c.len[x], @)]
      ELSE [c EXCEPT !.live = @ \ {x}, !.kids[x] = <<>>, !.len[x] = -1, !.par[x] = 0,
                     !.kids[p] = [i \in 1..Len(@) |-> IF @[i] = x THEN ch ELSE @[i]],
                     !.par[ch] = p, !.len[ch] = AddLen(c.len[x], @)]

\* ------------------------------------------------------------ bottom-up filtered clone (third description)
\* <<>> = nothing survives below x, <<v>> = nested value v
RECURSIVE ExtNest(_, _, _, _)
ExtNest(g, x, S, sup) ==
    IF IsLeaf(g, x) THEN (IF g.tx[x] \in S THEN <<[lab |-> g.lab[x], tx |-> g.tx[x], len |-> g.len[x], kids |-> <<>>]>> ELSE <<>>)
    ELSE LET ch == Flatten([i \in 1..Len(g.kids[x]) |-> ExtNest(g, g.kids[x][i], S, sup)]) IN
         IF ch = <<>> THEN <<>>
         ELSE IF Len(ch) = 1 /\ sup THEN <<[ch[1] EXCEPT !.len = AddLen(g.len[x], @)]>>
         ELSE <<[lab |-> g.lab[x], tx |-> g.tx[x], len |-> g.len[x], kids |-> ch]>>

\* ------------------------------------------------------------ the property, on the definition
\* (checked by TLC over the whole bounded domain in MC_Restrict; S non-empty subset of the taxa of g)
DefSound(g, S, sup) ==
    LET r == Restrict(g, S, sup)
        order == SelectSeq(LeafSeq(g, g.seed), LAMBDA x : g.tx[x] \in S)
    IN
    /\ SparseWF(r)
    \* clades are exactly the non-empty restrictions of the original clades
    /\ LiveClades(r) = {c \cap S : c \in Clades(g)} \ {{}}
    \* surviving leaves: exactly those of S, in their original left-to-right order
    /\ LeafSeq(r, r.seed) = order
    /\ \A x \in LiveLeaves(r) : g.tx[x] \in S
    \* path lengths between survivors and their distance from the top are unchanged
    /\ \A a, b \in SeqToSet(order) : PathLen(r, a, b) = PathLen(g, a, b)
    /\ \A a \in SeqToSet(order) : TopDist(r, a) = TopDist(g, a) /\ TopAcc(r, a) = TopAcc(g, a)
    \* suppression: no unifurcation is left / none is touched when declined
    /\ (sup => \A x \in r.live : Len(r.kids[x]) # 1)
    /\ (~sup => /\ r.live = SurvTx(g, S) /\ r.seed = g.seed
                /\ \A x \in r.live : r.len[x] = g.len[x] /\ r.par[x] = g.par[x])
    \* every surviving node keeps its relative position: r's parent relation is g's ancestor relation on live nodes
    /\ \A x \in r.live \ {r.seed} : r.par[x] \in SeqToSet(AncSeq(g, x))
                                    /\ \A a \in SeqToSet(AncSeq(g, x)) : (a \in r.live /\ a # r.par[x]) => a \in SeqToSet(AncSeq(g, r.par[x]))
    \* a single survivor is that leaf with the accumulated path length
    /\ (sup /\ Cardinality(S) = 1 =>
          LET lf == order[1] IN r.live = {lf} /\ r.seed = lf /\ r.kids[lf] = <<>> /\ r.len[lf] = TopAcc(g, lf))
    \* nothing to do: the tree is returned as it is
    /\ ((S = AllTx(g) /\ \A x \in Leaves(g) : g.tx[x] # 0) /\ (~sup \/ \A x \in Nodes(g) : Len(g.kids[x]) # 1)
          => Core(r) = Core(Sparse(g)))
    \* the bottom-up clone gives the same ordered tree
    /\ ExtNest(g, g.seed, S, sup) = <<Nest(r, r.seed)>>

\* ------------------------------------------------------------ the API variants as functions of (g, S, options)
\* shipped = TRUE models the behaviour of the code as found (known findings):
\*  - the four extract_tree_with(out)_taxa(_labels) wrappers drop their suppress_unifurcations argument
\*  - the in-place operations call update_bipartitions() with its default suppress_unifurcations=True
InPlaceApis == {"prune_taxa", "prune_taxa_with_labels", "retain_taxa", "retain_taxa_with_labels",
                "filter_leaf_nodes", "prune_leaves_without_taxa", "prune_subtree"}
WrapperApis == {"extract_tree_with_taxa", "extract_tree_with_taxa_labels",
                "extract_tree_without_taxa", "extract_tree_without_taxa_labels"}
ExtractApis == WrapperApis \cup {"extract_tree", "extract_tree:all_leaves", "Node.extract_subtree"}
TaxaApis == (InPlaceApis \ {"prune_subtree", "prune_leaves_without_taxa"}) \cup WrapperApis \cup {"extract_tree"}
ApiModel(api, g, S, sup, ub, shipped) ==
    Restrict(g, S, IF shipped /\ api \in WrapperApis THEN TRUE
                   ELSE IF shipped /\ api \in InPlaceApis /\ ub THEN TRUE
                   ELSE sup)
VariantsAgreeModel(g, S, sup, shipped) ==
    \A api \in TaxaApis : \A ub \in BOOLEAN : (ub => api \in InPlaceApis) =>
        Core(ApiModel(api, g, S, sup, ub, shipped)) = Core(Restrict(g, S, sup))
=============================================================================
