SPECIFICATION Spec
CONSTANT MaxNodes = 5
CONSTANT MaxLeaves = 3
CONSTANT MaxList = 2
CONSTANT MaxSingles = 3
CONSTANT SymLeaves = 2
CONSTANT Design = "reference"
CONSTANT Domains = {"singles", "lists", "labels", "symbols", "structure"}
INVARIANT DomainWithinProperty
INVARIANT RoundTripHolds
CHECK_DEADLOCK FALSE
