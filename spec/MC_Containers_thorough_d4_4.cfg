SPECIFICATION Spec
CONSTANTS
  MaxOps = 4
  Groups = {"memo", "seed", "tree"}
  Big = FALSE
  Focus = ""
  Wide = FALSE
  ShipDsAdd = FALSE
  ShipMatPartial = FALSE
  ShipCloneDrop = FALSE
INVARIANT SaneInv
INVARIANT ClosureInv
INVARIANT RemovedKeepConsistentNs
PROPERTY LabelFunctional
PROPERTY ArrayRefusesForeign
CHECK_DEADLOCK FALSE
