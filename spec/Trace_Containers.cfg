SPECIFICATION Spec
CONSTANTS
  ShipDsAdd = FALSE
  ShipMatPartial = FALSE
  ShipCloneDrop = FALSE
INVARIANT Done
POSTCONDITION Accepted
CHECK_DEADLOCK FALSE
