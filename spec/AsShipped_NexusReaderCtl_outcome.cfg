SPECIFICATION Spec
CONSTANTS
  Inputs <- ShippedInputs
  GenEdits <- NoGenEdits
  Shipped = {"taxlabels_eof", "tree_eof", "empty", "ntax_none", "blockterm"}
  TsrValues = {TRUE}
  GenSteps = 0
  Quick = TRUE
  PumpK = 3
  MaxSpan = 4
INVARIANT OutcomeDocumented
CHECK_DEADLOCK FALSE
