SPECIFICATION Spec
CONSTANTS
  AsShipped = {}
  MaxN = 7
  MaxLeaves = 4
  StartUnif = FALSE
  MaxDepth = 2
  Fam = {"ReseedAt", "RerootAtNode", "RerootAtEdge", "RerootAtMidpoint", "ToOutgroupPosition", "Deroot", "CollapseBasalBifurcation", "SuppressUnifurcations", "CollapseEdge", "CollapseClade", "CollapseUnweightedEdges", "ResolvePolytomies", "PruneSubtree", "PruneTaxa", "RetainTaxa", "Ladderize", "Reorder", "NewChild", "InsertNewChild", "InsertChild", "RemoveChild", "EncodeBipartitions", "RemoveNonChild", "AddChildSelf", "AddChildParent"}
  Rootings = {0, 1}
  LenPats = {"none", "unit", "mixed"}
  ShapeMode = "ordered"
  OptsFirst <- OptsAll
  OptsLater <- OptsOA
  EdgePairs <- EdgePairsSmall
  Thresholds = {0, 16}
  MaxK = 12
VIEW view
INVARIANT C03_WellFormed
PROPERTY C03_Outcome
PROPERTY C03_ErrorLeavesTree
PROPERTY C03_LeafMultiset
PROPERTY C03_EncodingFresh
CHECK_DEADLOCK FALSE
