SPECIFICATION Spec
CONSTANTS
  Inputs <- MCInputs
  GenEdits <- NoGenEdits
  Shipped = {}
  TsrValues = {FALSE}
  GenSteps = 0
  Quick = TRUE
  PumpK = 3
  MaxSpan = 4
INVARIANTS OutcomeDocumented DimsConsistent TokDepthBounded TreeDepthIsNesting
PROPERTY Termination
CHECK_DEADLOCK FALSE
