SPECIFICATION Spec
CONSTANT MaxLen = 3
CONSTANT MaxPad = 17
CONSTANT Blk = 0
INVARIANT OffsetIndependentTree
INVARIANT OffsetIndependentTaxLabels
CHECK_DEADLOCK FALSE
