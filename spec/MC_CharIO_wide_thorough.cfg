SPECIFICATION Spec
CONSTANTS
  StickyHyphen = FALSE
  ShippedSetsLink = FALSE
  ShippedCharIds = FALSE
  ShippedLinkBlocks = FALSE
  ShippedTitleCase = FALSE
  Dims <- DimsWideThorough
  LabelSets = {"plain", "long", "space", "punct", "xml"}
  MaxNs = 3
  MaxComps = 3
  TitlePool <- TitlesWide
INVARIANT SourceOK
INVARIANT RoundTrip
INVARIANT Pair
INVARIANT NamespaceOfEachComponent
CHECK_DEADLOCK FALSE
