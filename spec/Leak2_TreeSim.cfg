SPECIFICATION Spec
CONSTANTS
  Sims = {"bd", "fast"}
  MaxN = 3
  MaxDt = 2
  MaxDec = 5
  MaxG = 2
  MaxSp = 2
  RootDt = 1
  StopGT = FALSE
  AsShipped = FALSE
  Leak = TRUE
INVARIANT Determinism
CHECK_DEADLOCK FALSE
