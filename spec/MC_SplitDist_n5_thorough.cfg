SPECIFICATION Spec
CONSTANTS
  N = 5
  MaxTrees = 2
  NW = 1
  NT = 3
  Observe = TRUE
  ObserveFrom = 2
  TrackDist = TRUE
  TrackOperand = FALSE
  AdoptLists = FALSE
  BookkeepFirst = FALSE
  CacheChecksCount = TRUE
INVARIANT CacheFresh
INVARIANT GraphAgrees
INVARIANT FreqExact
INVARIANT MergeExact
INVARIANT ObservedOK
INVARIANT SummariesSane
CHECK_DEADLOCK FALSE
