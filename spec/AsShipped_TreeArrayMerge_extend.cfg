SPECIFICATION Spec
CONSTANTS
  NArr = 3
  Sample <- SampleQuick
  Shipped = TRUE
  MergeOps = {"extend", "iadd", "add"}
  Configs <- ConfigsUniform
  Positions = FALSE
INVARIANT PerTreeQueriesEnabled
CHECK_DEADLOCK FALSE
