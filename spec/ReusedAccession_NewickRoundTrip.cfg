SPECIFICATION Spec
CONSTANT MaxNodes = 5
CONSTANT MaxLeaves = 3
CONSTANT MaxList = 2
CONSTANT MaxSingles = 3
CONSTANT AccReuse = TRUE
CONSTANT SymLeaves = 2
CONSTANT Design = "reference"
CONSTANT Domains = {"history"}
INVARIANT RoundTripHolds
CHECK_DEADLOCK FALSE
