SPECIFICATION Spec
CONSTANTS
  Quick = FALSE
  MaxLen = 4
  PumpK = 4
  RecLimit = 100000
  GenSteps = 2
INVARIANTS OutcomeDocumented DepthIsNesting NestNonNegative NoTreeLost
PROPERTY Termination
CHECK_DEADLOCK FALSE
