SPECIFICATION SpecDef
CONSTANTS
  MaxN = 9
  MaxL = 5
  LenPats = {1, 2, 4}
  Shipped = FALSE
INVARIANT Sound
INVARIANT VariantsAgree
CHECK_DEADLOCK FALSE
