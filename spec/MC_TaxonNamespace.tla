------------------------- MODULE MC_TaxonNamespace -------------------------
(* Bounded model of the taxon namespace: every history of public operations *)
(* up to MaxOps over at most MaxTaxa taxon objects and the label alphabet.  *)
EXTENDS TaxonNamespace
CONSTANTS Labels, MaxTaxa, MaxOps, AsShipped
VARIABLES s, cp, nops
vars == <<s, cp, nops>>

Empty(cs) == [members |-> <<>>, idx |-> <<>>, bm |-> <<>>, next |-> 0, labels |-> <<>>, cs |-> cs, mut |-> TRUE]
Init == /\ s \in {Empty(b) : b \in BOOLEAN} /\ cp = Empty(FALSE) /\ nops = 0

Step == nops < MaxOps /\ nops' = nops + 1
Take(r) == s' = r.st /\ UNCHANGED cp
Known == 1..Len(s.labels)

CreateTaxon(l) == Step /\ Len(s.labels) < MaxTaxa /\ s' = [s EXCEPT !.labels = Append(@, l)] /\ UNCHANGED cp
AddTaxon(t) == Step /\ t \in Known /\ Take(OpAddTaxon(s, t))
AddTaxa2(t, u) == Step /\ t \in Known /\ u \in Known /\ t # u /\ Take(OpAddTaxa(s, <<t, u>>))
NewTaxon(l) == Step /\ Len(s.labels) < MaxTaxa /\ Take(OpNewTaxon(s, l))
RequireTaxon(l, c) == Step /\ (Len(s.labels) < MaxTaxa \/ MatchTaxa(s, l, EffCs(s, c)) # <<>>) /\ Take(OpRequireTaxon(s, l, c))
RemoveTaxon(t) == Step /\ t \in Known /\ Take(OpRemoveTaxon(s, t))
RemoveLabel(l, c, f, d) == Step /\ Take(OpRemoveLabel(s, l, c, f, d))
ClearAll == Step /\ s.members # <<>> /\ Take(OpClear(s))
ReverseOrder == Step /\ Len(s.members) > 1 /\ Take(OpReverse(s))
Reorder(p) == Step /\ Len(s.members) > 1 /\ Len(p) = Len(s.members) /\ p # [i \in 1..Len(s.members) |-> i] /\ Take(OpReorder(s, p))
Relabel(t, l) == Step /\ t \in Known /\ s.labels[t] # l /\ Take(OpRelabel(s, t, l))
SetCase(b) == Step /\ s.cs # b /\ Take(OpSetCase(s, b))
SetMutable(b) == Step /\ s.mut # b /\ Take(OpSetMutable(s, b))
\* taxon_bitmask(t) populates the cache
QueryBitmask(t) == Step /\ t \in Known /\ IsMember(s, t) /\ s.bm[IndexOf(s.members, t)] = {}
                   /\ s' = [s EXCEPT !.bm[IndexOf(s.members, t)] = {IdxOf(s, t)}] /\ UNCHANGED cp
\* TaxonNamespace(ns), copy.copy(ns): same taxon objects; deepcopy: new objects, same positions
CopyNs == Step /\ cp' = s /\ UNCHANGED s

Perms(n) == {p \in [1..n -> 1..n] : \A i, j \in 1..n : i # j => p[i] # p[j]}
AllPerms == UNION {Perms(n) : n \in 2..MaxTaxa}
Next == \/ \E l \in Labels : CreateTaxon(l)
        \/ \E l \in Labels : NewTaxon(l)
        \/ \E t \in 1..MaxTaxa : AddTaxon(t)
        \/ \E t \in 1..MaxTaxa, u \in 1..MaxTaxa : AddTaxa2(t, u)
        \/ \E t \in 1..MaxTaxa : RemoveTaxon(t)
        \/ \E t \in 1..MaxTaxa : QueryBitmask(t)
        \/ \E l \in Labels, c \in {-1, 0, 1} : RequireTaxon(l, c)
        \/ \E l \in Labels, c \in {-1, 1}, f \in BOOLEAN, d \in BOOLEAN : RemoveLabel(l, c, f, d)
        \/ ClearAll
        \/ ReverseOrder
        \/ \E p \in AllPerms : Reorder(p)
        \/ \E t \in 1..MaxTaxa, l \in Labels : Relabel(t, l)
        \/ \E b \in BOOLEAN : SetCase(b)
        \/ \E b \in BOOLEAN : SetMutable(b)
        \/ CopyNs
Spec == Init /\ [][Next]_vars

Mem == SeqToSet(s.members)
WellFormed == WFClause(s) = "ok"
Stable == [][StableClause(s, s') = "ok"]_vars
RoundTrip == \A S \in SUBSET Mem : SeqToSet(MaskTaxaList(s, Mask(s, S))) = S /\ Len(MaskTaxaList(s, Mask(s, S))) = Cardinality(S)
RenderExact == \A S \in SUBSET Mem : RenderSide1(s, Mask(s, S), AsShipped) = S
LookupExact == \A l \in Labels, c \in BOOLEAN :
                 LET m == MatchTaxa(s, l, c) IN
                 /\ SeqToSet(m) = {t \in Mem : Matches(s, t, l, c)}
                 /\ \A i, j \in 1..Len(m) : i < j => IndexOf(s.members, m[i]) < IndexOf(s.members, m[j])
RequireExact == [][\A l \in Labels, c \in {-1, 0, 1} : s' = OpRequireTaxon(s, l, c).st /\ OpRequireTaxon(s, l, c).raised = "" =>
                     LET r == OpRequireTaxon(s, l, c) IN
                     /\ Matches(r.st, r.res[1], l, EffCs(s, c))
                     /\ (MatchTaxa(s, l, EffCs(s, c)) # <<>> => r.st = s /\ r.res[1] = MatchTaxa(s, l, EffCs(s, c))[1])
                     /\ (MatchTaxa(s, l, EffCs(s, c)) = <<>> => Len(r.st.members) = Len(s.members) + 1)]_vars
ImmutableNeverGrows == [][(~s.mut /\ ~s'.mut) => SeqToSet(s'.members) \subseteq Mem]_vars
CopyKeepsBits == \A t \in SeqToSet(cp.members) : IdxOf(cp, t) \in 0..(cp.next - 1)
=============================================================================
