SPECIFICATION Spec
CONSTANTS
  TreeGetKeepsSourceName = TRUE
  NexmlListRoutesReuseTaxa = TRUE
INVARIANT Done
POSTCONDITION Accepted
CHECK_DEADLOCK FALSE
