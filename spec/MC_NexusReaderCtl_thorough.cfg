SPECIFICATION Spec
CONSTANTS
  Inputs <- MCInputs
  GenEdits <- NoGenEdits
  Shipped = {}
  TsrValues = {TRUE}
  GenSteps = 0
  Quick = FALSE
  PumpK = 3
  MaxSpan = 8
INVARIANTS OutcomeDocumented DimsConsistent TokDepthBounded TreeDepthIsNesting Emit
PROPERTY Termination
CHECK_DEADLOCK FALSE
