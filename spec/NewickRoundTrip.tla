--------------------------- MODULE NewickRoundTrip ---------------------------
(***************************************************************************)
(* C02 - tree statements: NewickWriter._write_tree as a character          *)
(* sequence, NewickReader._parse_tree_statement /                          *)
(* _parse_tree_node_description as a pushdown machine over the tokenizer's *)
(* output, NexusTaxonSymbolMapper (TRANSLATE token -> label -> taxon       *)
(* number -> new taxon), the label-carrying NEXUS statements (TAXLABELS,   *)
(* TRANSLATE, TREE), and NeXML as id maps plus attribute protection.       *)
(*                                                                         *)
(* A *design* record selects, per mechanism, the reference rule or the     *)
(* rule as shipped (DESIGN 7: as-shipped switches):                        *)
(*   protect    "intended" | "shipped"   protect set of the tree statement *)
(*   quoteAware TRUE | FALSE   do the readers tell a quoted token from     *)
(*                             punctuation?  (shipped: FALSE)              *)
(*   leadAware  TRUE | FALSE   the same question at one more site: the loop  *)
(*                             of _parse_tree_statement that skips ';' in    *)
(*                             front of a statement (a single-node tree whose*)
(*                             only label is ';'); shipped: FALSE            *)
(*   attr       "xml" | "json"  NeXML attribute protection (shipped: json) *)
(*   missingLen "root" | "all"  which NeXML edges read a missing length as *)
(*                             0 (shipped: all)                            *)
(*   emptyOk    TRUE | FALSE   an empty Newick source is an empty list     *)
(*                             (shipped: FALSE, raises)                    *)
(*   dbl        TRUE | FALSE   the writer doubles quotes (mutant switch)   *)
(*   kwStop     FALSE | TRUE   TAXLABELS also ends at an unquoted END /    *)
(*                             ENDBLOCK (mutant switch: a reader that       *)
(*                             tolerates a missing ';')                     *)
(*                                                                         *)
(* Keywords are the token class "K_...": one ordinary character that forms *)
(* a whole word (K_END, K_TREE, ...; K_end is END in another letter case). *)
(* The writers emit them as the structure of a NEXUS file; a *label* may   *)
(* consist of the same word, and must then never terminate a statement.    *)
(*                                                                         *)
(* o.acc[i] is the accession number of the i-th taxon of the namespace     *)
(* (TaxonNamespace.accession_index + 1): it differs from i after taxa were *)
(* removed, added later, or the namespace was reversed; TRANSLATE tokens   *)
(* are accession numbers.                                                  *)
(*                                                                         *)
(* Trees are in the graph form of TreeBase with lab[x] a label (Seq of     *)
(* characters, <<>> = none), len[x] a numeric literal ("n0", "n1", ...;    *)
(* "" = none), tx[x] an index into the namespace ns (Seq of labels).       *)
(***************************************************************************)
EXTENDS NexusToken, TreeBase

NwReference == [protect |-> "intended", quoteAware |-> TRUE, leadAware |-> TRUE, attr |-> "xml", missingLen |-> "root", emptyOk |-> TRUE, dbl |-> TRUE, kwStop |-> FALSE]
NwShipped == [protect |-> "shipped", quoteAware |-> FALSE, leadAware |-> FALSE, attr |-> "json", missingLen |-> "all", emptyOk |-> FALSE, dbl |-> TRUE, kwStop |-> FALSE]

NwDigits == <<"1", "2", "3", "4", "5", "6", "7", "8", "9">>
NwNum(k) == IF k \in 1..9 THEN <<NwDigits[k]>> ELSE <<"1", "1">>         \* str(k); the models stay below 10
NwNumLits == {"n0", "n1", "n2", "n3"}
NwFoldChar(c) == IF c = "A" THEN "a" ELSE IF c = "K_end" THEN "K_END" ELSE c
NwFold(s) == [i \in 1..Len(s) |-> NwFoldChar(s[i])]                        \* case folding
RECURSIVE NwJoin(_, _)
NwJoin(qq, sep) == IF qq = <<>> THEN <<>> ELSE IF Len(qq) = 1 THEN qq[1] ELSE qq[1] \o sep \o NwJoin(Tail(qq), sep)
NwProtect(d) == IF d.protect = "shipped" THEN TkShippedTreeProtect ELSE TkIntendedProtect
NwEsc(label, o, protect, d) == IF label = <<>> THEN <<>> ELSE TkEscapeD(label, o.ps, ~o.uu, protect, d.dbl)

\* ------------------------------------------------------------ writer (NewickWriter)
\* o: [uu, ps, pu, translate, suprooting, rrooting, weights, inttaxa]
NwTaxTok(ns, o, tx) == IF o.translate THEN NwNum(o.acc[tx]) ELSE ns[tx]
NwTag(g, ns, o, x) ==
    IF g.kids[x] = <<>> THEN (IF g.tx[x] # 0 THEN NwTaxTok(ns, o, g.tx[x]) ELSE <<>>)   \* leaf node labels are suppressed
    ELSE LET a == IF g.tx[x] # 0 THEN <<NwTaxTok(ns, o, g.tx[x])>> ELSE <<>>
             b == IF g.lab[x] # <<>> THEN <<g.lab[x]>> ELSE <<>>
         IN NwJoin(a \o b, <<"sp">>)
NwBody(g, ns, o, d, x) == NwEsc(NwTag(g, ns, o, x), o, NwProtect(d), d) \o (IF g.len[x] # "" THEN <<"co", g.len[x]>> ELSE <<>>)
RECURSIVE NwWriteNode(_, _, _, _, _)
NwWriteNode(g, ns, o, d, x) ==
    IF g.kids[x] = <<>> THEN NwBody(g, ns, o, d, x)
    ELSE <<"lp">> \o NwJoin([i \in 1..Len(g.kids[x]) |-> NwWriteNode(g, ns, o, d, g.kids[x][i])], <<"cm">>) \o <<"rp">>
         \o NwBody(g, ns, o, d, x)
\* rr = mutant switch: the rooting token is inverted
NwRootingTok(g, o) == IF g.rooted = -1 \/ o.suprooting THEN <<>>
                      ELSE IF g.rooted = 1 THEN <<"lb", "amp", "R", "rb", "sp">> ELSE <<"lb", "amp", "U", "rb", "sp">>
NwWeightTok(t, o) == IF o.weights /\ t.w # "" THEN <<"lb", "amp", "W", "sp", t.w, "rb", "sp">> ELSE <<>>
NwWriteTree(t, ns, o, d) == NwRootingTok(t.g, o) \o NwWeightTok(t, o) \o NwWriteNode(t.g, ns, o, d, t.g.seed) \o <<"sc">>
NwWriteNewick(inst, d) == Flatten([k \in 1..Len(inst.trees) |-> NwWriteTree(inst.trees[k], inst.ns, inst.o, d) \o <<"nl">>])

\* ------------------------------------------------------------ reader state over the token stream
NwNone == [k |-> "none", s |-> <<>>, q |-> FALSE]
NwBlank == [lab |-> <<>>, tx |-> 0, len |-> "", kids |-> <<>>]
NwCur(P) == IF P.p \in 1..Len(P.items) THEN P.items[P.p] ELSE NwNone
\* is the current token the punctuation character c?
NwIs(P, c, d) == LET t == NwCur(P) IN t.k = "tok" /\ t.s = <<c>> /\ (d.quoteAware => ~t.q)
NwIsWord(P, w) == LET t == NwCur(P) IN t.k = "tok" /\ t.s = <<w>>
RECURSIVE NwNextTok(_, _)
NwNextTok(items, j) == IF j > Len(items) THEN Len(items) + 1 ELSE IF items[j].k = "tok" THEN j ELSE NwNextTok(items, j + 1)
\* next_token / require_next_token: comments passed over are captured (pend)
NwAdvance(P, required) ==
    LET j == NwNextTok(P.items, P.p + 1)
        passed == IF P.p + 1 <= j - 1 THEN SubSeq(P.items, P.p + 1, j - 1) ELSE <<>>
    IN [P EXCEPT !.p = j, !.pend = @ \o passed, !.eof = (j > Len(P.items)),
                 !.err = IF j > Len(P.items) /\ required /\ @ = "" THEN "UnexpectedEndOfStream" ELSE @]
NwPull(P) == [P EXCEPT !.pend = <<>>]
NwP0(items, ns, tokmap, bynum) ==
    [items |-> items, p |-> 0, pend |-> <<>>, eof |-> FALSE, err |-> "", stack |-> <<>>, nesting |-> 0, complete |-> FALSE,
     seen |-> {}, ns |-> ns, tokmap |-> tokmap, bynum |-> bynum, result |-> NwBlank]

\* ------------------------------------------------------------ NexusTaxonSymbolMapper.lookup_taxon_symbol
\* returns [ns, idx]: TRANSLATE token, then label (both case-insensitive), then taxon number, then a new taxon
NwLookup(P, sym) ==
    LET byTok == {i \in 1..Len(P.tokmap) : NwFold(P.tokmap[i].tok) = NwFold(sym)}
        byLab == {i \in 1..Len(P.ns) : NwFold(P.ns[i]) = NwFold(sym)}
        byNum == IF P.bynum THEN {i \in 1..Len(P.ns) : NwNum(i) = sym} ELSE {}
    IN IF byTok # {} THEN [ns |-> P.ns, idx |-> P.tokmap[Max(byTok)].idx]
       ELSE IF byLab # {} THEN [ns |-> P.ns, idx |-> Max(byLab)]
       ELSE IF byNum # {} THEN [ns |-> P.ns, idx |-> Max(byNum)]
       ELSE [ns |-> Append(P.ns, sym), idx |-> Len(P.ns) + 1]

\* ------------------------------------------------------------ _parse_tree_node_description as a pushdown machine
\* frame: [node, phase in {"open","kids","tail"}, created, count, isint in {-1 (None), 0, 1}, labparsed]
NwFrame(isint) == [node |-> NwBlank, phase |-> "open", created |-> FALSE, count |-> 0, isint |-> isint, labparsed |-> FALSE]
NwTop(P) == P.stack[Len(P.stack)]
NwSetTop(P, f) == [P EXCEPT !.stack[Len(P.stack)] = f]
NwAddBlank(P) == NwSetTop(P, [NwTop(P) EXCEPT !.node.kids = Append(@, NwBlank)])
NwEnterTail(P) ==
    LET f == NwTop(P) IN
    [NwSetTop(P, [f EXCEPT !.phase = "tail", !.labparsed = FALSE,
                           !.isint = IF f.isint = -1 /\ f.node.kids # <<>> THEN 1 ELSE f.isint])
       EXCEPT !.complete = FALSE]
NwPop(P) ==
    LET f == NwTop(P) IN
    IF Len(P.stack) = 1 THEN [P EXCEPT !.stack = <<>>, !.result = f.node]
    ELSE LET up == P.stack[Len(P.stack) - 1]
             up2 == [up EXCEPT !.node.kids = Append(@, f.node), !.created = TRUE, !.count = @ + 1]
         IN [P EXCEPT !.stack = Append(SubSeq(P.stack, 1, Len(P.stack) - 2), up2)]
RECURSIVE NwSkipCommas(_, _)
NwSkipCommas(P, d) == IF P.err = "" /\ NwIs(P, "cm", d) THEN NwSkipCommas(NwAdvance(NwAddBlank(P), TRUE), d) ELSE P

NwStep(P, o, d) ==
    LET f == NwTop(P) IN
    CASE f.phase = "open" ->
            LET P1 == NwPull(P) IN
            IF NwIs(P1, "lp", d) THEN NwSetTop(NwAdvance(P1, TRUE), [f EXCEPT !.phase = "kids", !.created = FALSE, !.count = 0])
            ELSE NwEnterTail(P1)
      [] f.phase = "kids" ->
            IF NwIs(P, "cm", d) THEN
                 LET P1 == IF ~f.created THEN NwAddBlank(P) ELSE P
                     P2 == NwSkipCommas(NwAdvance(P1, TRUE), d)
                     P3 == IF P2.err = "" /\ ~f.created /\ NwIs(P2, "rp", d)
                             THEN NwSetTop(NwAddBlank(P2), [NwTop(NwAddBlank(P2)) EXCEPT !.created = TRUE]) ELSE P2
                 IN NwSetTop(P3, [NwTop(P3) EXCEPT !.count = @ + 1])
            ELSE IF NwIs(P, "rp", d) THEN
                 LET P1 == IF f.count = 0 THEN NwAddBlank(P) ELSE P
                 IN NwEnterTail(NwAdvance([P1 EXCEPT !.nesting = @ - 1], TRUE))
            ELSE IF NwCur(P).k = "none" THEN [P EXCEPT !.err = "UnexpectedEndOfStream"]
            ELSE LET ni == IF NwIs(P, "lp", d) THEN 1 ELSE 0
                 IN [P EXCEPT !.nesting = @ + ni, !.stack = Append(@, NwFrame(ni)), !.pend = <<>>]
      [] f.phase = "tail" ->
            LET P1 == NwPull(P) IN
            IF NwIs(P1, "co", d) THEN
                 LET P2 == NwAdvance(P1, TRUE)
                     t == NwCur(P2)
                 IN IF P2.err # "" THEN P2
                    ELSE IF ~(Len(t.s) = 1 /\ t.s[1] \in NwNumLits) THEN [P2 EXCEPT !.err = "InvalidEdgeLength"]
                    ELSE NwAdvance(NwSetTop(P2, [f EXCEPT !.node.len = t.s[1]]), TRUE)
            ELSE IF NwIs(P1, "rp", d) \/ NwIs(P1, "cm", d) THEN NwPop(P1)
            ELSE IF NwIs(P1, "sc", d) THEN
                 LET P2 == NwAdvance([P1 EXCEPT !.complete = TRUE], FALSE)
                 IN IF P2.nesting # 0 THEN [P2 EXCEPT !.err = "UnbalancedParentheses"] ELSE NwPop(P2)
            ELSE IF NwIs(P1, "lp", d) THEN [P1 EXCEPT !.err = "MalformedStatement"]
            ELSE IF NwCur(P1).k = "none" THEN [P1 EXCEPT !.err = "UnexpectedEndOfStream"]
            ELSE IF f.labparsed THEN [P1 EXCEPT !.err = "MalformedStatement:LabelAfterLabel"]
            ELSE LET label == NwCur(P1).s IN
                 IF f.isint = 1 /\ ~o.inttaxa                       \* suppress_internal_node_taxa; leaf labels are always taxa here
                   THEN NwAdvance(NwSetTop(P1, [f EXCEPT !.node.lab = label, !.labparsed = TRUE]), TRUE)
                 ELSE LET r == NwLookup(P1, label) IN
                      IF r.idx \in P1.seen THEN [P1 EXCEPT !.err = "DuplicateTaxon"]
                      ELSE NwAdvance(NwSetTop([P1 EXCEPT !.ns = r.ns, !.seen = @ \cup {r.idx}],
                                              [f EXCEPT !.node.tx = r.idx, !.labparsed = TRUE]), TRUE)
\* run the machine to completion: at most 4 steps per token; iterated by halving the step budget (evaluation
\* depth log n, see TkRunR); steps after completion are no-ops
NwStepOrStay(P, o, d) == IF P.err # "" \/ P.stack = <<>> THEN P ELSE NwStep(P, o, d)
RECURSIVE NwRunN(_, _, _, _)
NwRunN(P, o, d, n) ==
    IF n <= 0 \/ P.err # "" \/ P.stack = <<>> THEN P
    ELSE IF n = 1 THEN NwStepOrStay(P, o, d)
    ELSE LET h == n \div 2
             P1 == NwRunN(P, o, d, h)
         IN IF P1.err # "" \/ P1.stack = <<>> THEN P1 ELSE NwRunN(P1, o, d, n - h)
NwRun(P, o, d) == LET R == NwRunN(P, o, d, 4 * Len(P.items) + 8)
                  IN IF R.err = "" /\ R.stack # <<>> THEN [R EXCEPT !.err = "ModelStepBudgetExceeded"] ELSE R

\* ------------------------------------------------------------ _parse_tree_statement
NwRootState(tok, rrooting) ==
    IF rrooting = "force-unrooted" THEN 0 ELSE IF rrooting = "force-rooted" THEN 1
    ELSE IF tok = "R" THEN 1 ELSE IF tok = "U" THEN 0
    ELSE IF rrooting = "default-rooted" THEN 1 ELSE IF rrooting = "default-unrooted" THEN 0 ELSE -1
RECURSIVE NwLastRootTok(_)
NwLastRootTok(tc) == IF tc = <<>> THEN ""
                     ELSE LET c == tc[Len(tc)].s IN
                          IF c = <<"amp", "R">> THEN "R" ELSE IF c = <<"amp", "U">> THEN "U" ELSE NwLastRootTok(SubSeq(tc, 1, Len(tc) - 1))
RECURSIVE NwSkipSemis(_, _, _)
\* while (current_token == ";" or current_token is None) and not eof: require_next_token()
NwSkipSemis(P, tc, d) ==
    IF P.err = "" /\ ((NwCur(P).k = "tok" /\ NwCur(P).s = <<"sc">> /\ (d.leadAware => ~NwCur(P).q)) \/ NwCur(P).k = "none") /\ ~P.eof
      THEN LET P1 == NwAdvance(P, ~(d.emptyOk)) IN NwSkipSemis(NwPull(P1), P1.pend, d)
      ELSE [P |-> P, tc |-> tc]
RECURSIVE NwSkipTrailingSemis(_, _)
NwSkipTrailingSemis(P, d) == IF P.err = "" /\ NwIs(P, "sc", d) /\ ~P.eof THEN NwSkipTrailingSemis(NwAdvance(NwPull(P), FALSE), d) ELSE P
\* returns [P, tree]: tree = [none |-> TRUE] at the end of the source
NwParseTreeStatement(Pin, o, d) ==
    LET s == NwSkipSemis(NwPull(Pin), Pin.pend, d)
        P1 == s.P
    IN IF P1.err # "" THEN [P |-> P1, none |-> TRUE, rooted |-> -1, root |-> NwBlank]
       ELSE IF NwCur(P1).k = "none" THEN [P |-> P1, none |-> TRUE, rooted |-> -1, root |-> NwBlank]
       ELSE LET P2 == [P1 EXCEPT !.nesting = IF NwIs(P1, "lp", d) THEN 1 ELSE 0, !.complete = FALSE, !.seen = {},
                                 !.stack = <<NwFrame(-1)>>]
                P3 == NwRun(P2, o, d)
                P4 == IF P3.err = "" /\ ~P3.complete THEN [P3 EXCEPT !.err = "IncompleteTreeStatement"] ELSE P3
            IN [P |-> NwSkipTrailingSemis(P4, d), none |-> FALSE,
                rooted |-> NwRootState(NwLastRootTok(s.tc), o.rrooting), root |-> P4.result]
RECURSIVE NwParseTrees(_, _, _, _)
NwParseTrees(P, o, d, acc) ==
    LET r == NwParseTreeStatement(P, o, d) IN
    IF r.P.err # "" \/ r.none THEN [P |-> r.P, trees |-> acc]
    ELSE NwParseTrees(r.P, o, d, Append(acc, [rooted |-> r.rooted, root |-> r.root]))

\* nested form with taxa as labels (comparable across namespaces)
RECURSIVE NwResolve(_, _)
NwResolve(nd, ns) == [lab |-> nd.lab, tx |-> IF nd.tx = 0 THEN <<>> ELSE ns[nd.tx], len |-> nd.len,
                      kids |-> [i \in 1..Len(nd.kids) |-> NwResolve(nd.kids[i], ns)]]
RECURSIVE NwNest(_, _, _)
NwNest(g, ns, x) == [lab |-> g.lab[x], tx |-> IF g.tx[x] = 0 THEN <<>> ELSE ns[g.tx[x]], len |-> g.len[x],
                     kids |-> [i \in 1..Len(g.kids[x]) |-> NwNest(g, ns, g.kids[x][i])]]
NwResult(P, trees) == [err |-> P.err, ns |-> P.ns,
                       trees |-> IF P.err # "" THEN <<>> ELSE [k \in 1..Len(trees) |-> [rooted |-> trees[k].rooted, root |-> NwResolve(trees[k].root, P.ns)]]]

NwReadNewick(chars, o, d) ==
    LET tk == TkTokenize(chars, o.pu) IN
    IF tk.err # "" THEN [err |-> tk.err, ns |-> <<>>, trees |-> <<>>]
    ELSE LET r == NwParseTrees(NwP0(tk.out, <<>>, <<>>, FALSE), o, d, <<>>) IN NwResult(r.P, r.trees)

\* ------------------------------------------------------------ NEXUS: the statements that carry labels
\* (the block/command loops of the NEXUS reader are the subject of C20, not modelled here)
NwWriteNexus(inst, d) ==
    LET o == inst.o  ns == inst.ns
        lab(i) == NwEsc(ns[i], o, TkDefaultProtect, d)
        taxl == <<"K_TAXLABELS", "nl">> \o Flatten([i \in 1..Len(ns) |-> lab(i) \o <<"nl">>]) \o <<"sp", "sc", "nl", "K_END", "sc", "nl">>
        trans == IF o.translate
                   THEN <<"K_TRANSLATE", "nl">> \o NwJoin([i \in 1..Len(ns) |-> NwNum(o.acc[i]) \o <<"sp">> \o lab(i)], <<"cm", "nl">>) \o <<"nl", "sc", "nl">>
                   ELSE <<>>
        stmts == Flatten([k \in 1..Len(inst.trees) |->
                    <<"K_TREE", "sp">> \o NwNum(k) \o <<"sp", "eq", "sp">> \o NwWriteTree(inst.trees[k], ns, o, d) \o <<"nl">>])
    IN taxl \o <<"K_TREES", "sc", "nl">> \o trans \o stmts \o <<"K_END", "sc", "nl">>

RECURSIVE NwTaxLabels(_, _)
\* _parse_taxlabels_statement: labels until ';'
NwTaxLabels(P, d) ==
    IF P.err # "" \/ NwIs(P, "sc", d) THEN P
    ELSE IF d.kwStop /\ NwCur(P).k = "tok" /\ ~NwCur(P).q /\ NwFold(NwCur(P).s) \in {<<"K_END">>, <<"K_ENDBLOCK">>}
      THEN NwAdvance(P, FALSE)                         \* (the mutant) the block is taken to end here: skip to its ';'
    ELSE IF NwCur(P).k = "none" THEN [P EXCEPT !.err = "HangOrEOF:TAXLABELS"]
    ELSE LET lab == NwCur(P).s
             known == \E i \in 1..Len(P.ns) : NwFold(P.ns[i]) = NwFold(lab)
         IN NwTaxLabels(NwAdvance([P EXCEPT !.ns = IF known THEN @ ELSE Append(@, lab)], FALSE), d)
RECURSIVE NwTranslate(_, _)
\* _parse_translate_statement; the namespace is locked: an unknown label is an UndefinedTaxonError
NwTranslate(P, d) ==
    LET P1 == NwAdvance(P, FALSE)                \* translation token
        tok == NwCur(P1)
        P2 == NwAdvance(P1, FALSE)               \* label (positional)
        lab == NwCur(P2)
        hit == {i \in 1..Len(P2.ns) : NwFold(P2.ns[i]) = NwFold(lab.s)}
        P3 == NwAdvance([P2 EXCEPT !.tokmap = Append(@, [tok |-> tok.s, idx |-> IF hit = {} THEN 0 ELSE Max(hit)])], FALSE)
    IN IF tok.k = "none" \/ lab.k = "none" THEN [P2 EXCEPT !.err = "HangOrEOF:TRANSLATE"]
       ELSE IF tok.s = <<"sc">> /\ ~tok.q THEN [P1 EXCEPT !.err = "NexusError:TranslateToken"]
       ELSE IF hit = {} THEN [P2 EXCEPT !.err = "UndefinedTaxonError"]
       ELSE IF NwCur(P3).k = "none" \/ NwIs(P3, "sc", d) THEN P3
       ELSE IF ~NwIs(P3, "cm", d) THEN [P3 EXCEPT !.err = "NexusError:TranslateComma"]
       ELSE NwTranslate(P3, d)
RECURSIVE NwTreeStmts(_, _, _, _)
NwTreeStmts(P, o, d, acc) ==
    IF P.err # "" THEN [P |-> P, trees |-> acc]
    ELSE IF NwIsWord(P, "K_TREE") THEN
         LET P1 == NwAdvance(P, FALSE)           \* tree name
             P2 == NwAdvance(P1, FALSE)          \* '='
             P3 == NwAdvance([P2 EXCEPT !.pend = <<>>], FALSE)
             r == NwParseTreeStatement(P3, o, d)
         IN IF ~(NwCur(P2).k = "tok" /\ NwCur(P2).s = <<"eq">>) THEN [P |-> [P2 EXCEPT !.err = "NexusError:ExpectingEquals"], trees |-> acc]
            ELSE IF r.P.err # "" THEN [P |-> r.P, trees |-> acc]
            ELSE IF r.none THEN [P |-> [r.P EXCEPT !.err = "NoTreeInStatement"], trees |-> acc]
            ELSE NwTreeStmts(r.P, o, d, Append(acc, [rooted |-> r.rooted, root |-> r.root]))
    ELSE IF NwIsWord(P, "K_END") THEN [P |-> P, trees |-> acc]
    ELSE IF NwCur(P).k = "none" THEN [P |-> [P EXCEPT !.err = "HangOrEOF:TREES"], trees |-> acc]
    ELSE NwTreeStmts(NwAdvance(P, FALSE), o, d, acc)      \* unknown command words are skipped
NwReadNexus(chars, o, d) ==
    LET tk == TkTokenize(chars, o.pu) IN
    IF tk.err # "" THEN [err |-> tk.err, ns |-> <<>>, trees |-> <<>>]
    ELSE LET P0 == NwAdvance(NwP0(tk.out, <<>>, <<>>, TRUE), FALSE)                  \* K_TAXLABELS
             P1 == NwTaxLabels(NwAdvance(P0, FALSE), d)
             P2 == NwAdvance(NwAdvance(NwAdvance(P1, FALSE), FALSE), FALSE)           \* END ; of the taxa block, then K_TREES
             P3 == NwAdvance(NwAdvance(P2, FALSE), FALSE)                              \* ; and the first command of the block
             P4 == IF P3.err = "" /\ NwIsWord(P3, "K_TRANSLATE") THEN NwAdvance(NwTranslate(P3, d), FALSE) ELSE P3
             r == NwTreeStmts([P4 EXCEPT !.pend = <<>>], o, d, <<>>)
         IN IF P1.err # "" THEN [err |-> P1.err, ns |-> <<>>, trees |-> <<>>]
            ELSE IF ~NwIsWord(P2, "K_TREES") THEN [err |-> "TaxLabelsTruncated", ns |-> <<>>, trees |-> <<>>]
            ELSE NwResult(r.P, r.trees)

\* ------------------------------------------------------------ NeXML: attribute protection and id maps
\* entity / character references are single abstract symbols "E_..."
NxEscape(label, d) ==
    LET one(c) ==
          IF d.attr = "json"                                       \* json.dumps(str(x)) as shipped
            THEN CASE c = "dq" -> <<"bs", "dq">>
                   [] c = "bs" -> <<"bs", "bs">>
                   [] c = "tab" -> <<"bs", "a">>
                   [] c = "nl" -> <<"bs", "a">>
                   [] c = "na" -> <<"bs", "a", "1", "1", "1", "1">>
                   [] OTHER -> <<c>>
            ELSE CASE c = "dq" -> <<"E_dq">>
                   [] c = "amp" -> <<"E_amp">>
                   [] c = "lt" -> <<"E_lt">>
                   [] c = "gt" -> <<"E_gt">>
                   [] c = "tab" -> <<"E_tab">>
                   [] c = "nl" -> <<"E_nl">>
                   [] c = "na" -> <<"E_na">>
                   [] OTHER -> <<c>>
    IN <<"dq">> \o Flatten([i \in 1..Len(label) |-> one(label[i])]) \o <<"dq">>
RECURSIVE NxScan(_, _, _)
\* an XML parser reading the attribute value after the opening quote
NxScan(chars, i, acc) ==
    IF i > Len(chars) THEN [err |-> "NotWellFormed", s |-> acc]
    ELSE LET c == chars[i] IN
         IF c = "dq" THEN (IF i = Len(chars) THEN [err |-> "", s |-> acc] ELSE [err |-> "NotWellFormed", s |-> acc])
         ELSE IF c \in {"lt", "amp"} THEN [err |-> "NotWellFormed", s |-> acc]
         ELSE NxScan(chars, i + 1, Append(acc, CASE c \in {"tab", "nl"} -> "sp"              \* attribute value normalisation
                                                 [] c = "E_dq" -> "dq" [] c = "E_amp" -> "amp" [] c = "E_lt" -> "lt"
                                                 [] c = "E_gt" -> "gt" [] c = "E_tab" -> "tab" [] c = "E_nl" -> "nl"
                                                 [] c = "E_na" -> "na" [] OTHER -> c))
NxParseAttr(chars) == IF chars = <<>> \/ chars[1] # "dq" THEN [err |-> "NotWellFormed", s |-> <<>>] ELSE NxScan(chars, 2, <<>>)
NxAttrRT(label, d) == NxParseAttr(NxEscape(label, d)) = [err |-> "", s |-> label]

\* the writer: ids in writing order (otus, otu*, trees, tree, node*, edge*); here per tree, node ids = preorder positions
NxWriteTree(t, ns, d) ==
    LET g == t.g
        pre == Pre(g, g.seed)
    IN [nodes |-> [i \in 1..Len(pre) |->
                     [id |-> pre[i], lab |-> IF g.lab[pre[i]] = <<>> THEN <<>> ELSE NxEscape(g.lab[pre[i]], d),
                      otu |-> g.tx[pre[i]], root |-> (g.rooted = 1 /\ pre[i] = g.seed)]],
        edges |-> [i \in 1..Len(pre) |-> [src |-> g.par[pre[i]], tgt |-> pre[i], len |-> g.len[pre[i]]]]]       \* src 0 = rootedge
NxWrite(inst, d) == [otus |-> [i \in 1..Len(inst.ns) |-> [id |-> i, lab |-> NxEscape(inst.ns[i], d)]],
                     trees |-> [k \in 1..Len(inst.trees) |-> NxWriteTree(inst.trees[k], inst.ns, d)]]
\* the reader: _NexmlTreeParser.build_tree
NxReadTree(x, d) ==
    LET ids == {x.nodes[i].id : i \in 1..Len(x.nodes)}
        nodeOf(id) == x.nodes[CHOOSE i \in 1..Len(x.nodes) : x.nodes[i].id = id]
        roots == {id \in ids : nodeOf(id).root}
        inner == SelectSeq(x.edges, LAMBDA e : e.src # 0)
        kidsOf(id) == LET es == SelectSeq(inner, LAMBDA e : e.src = id) IN [i \in 1..Len(es) |-> es[i].tgt]
        unparented == {id \in ids : \A i \in 1..Len(inner) : inner[i].tgt # id}
        seed == IF roots # {} THEN CHOOSE r \in roots : TRUE ELSE CHOOSE u \in unparented : TRUE
        edgeOf(id) == LET es == SelectSeq(x.edges, LAMBDA e : e.tgt = id) IN IF es = <<>> THEN [src |-> 0, tgt |-> id, len |-> "absent"] ELSE es[1]
        lenOf(id) == LET e == edgeOf(id) IN
                     IF e.len = "absent" THEN ""
                     ELSE IF e.len = "" THEN (IF d.missingLen = "all" \/ id = seed THEN "n0" ELSE "")
                     ELSE e.len
        labErr == \E i \in 1..Len(x.nodes) : x.nodes[i].lab # <<>> /\ NxParseAttr(x.nodes[i].lab).err # ""
        RECURSIVE build(_)
        build(id) == [lab |-> IF nodeOf(id).lab = <<>> THEN <<>> ELSE NxParseAttr(nodeOf(id).lab).s,
                      tx |-> nodeOf(id).otu, len |-> lenOf(id),
                      kids |-> [i \in 1..Len(kidsOf(id)) |-> build(kidsOf(id)[i])]]
    IN IF labErr THEN [err |-> "NotWellFormed", rooted |-> 0, root |-> NwBlank]
       ELSE IF Cardinality(roots) > 1 THEN [err |-> "MultipleRoots", rooted |-> 0, root |-> NwBlank]
       ELSE IF Cardinality(unparented) # 1 \/ (roots # {} /\ roots # unparented) THEN [err |-> "RootMismatch", rooted |-> 0, root |-> NwBlank]
       ELSE [err |-> "", rooted |-> IF roots # {} THEN 1 ELSE 0, root |-> build(seed)]
NxRead(doc, d) ==
    LET labs == [i \in 1..Len(doc.otus) |-> NxParseAttr(doc.otus[i].lab)]
        ts == [k \in 1..Len(doc.trees) |-> NxReadTree(doc.trees[k], d)]
        bad == (\E i \in 1..Len(labs) : labs[i].err # "") \/ (\E k \in 1..Len(ts) : ts[k].err # "")
        ns == [i \in 1..Len(labs) |-> labs[i].s]
    IN IF bad THEN [err |-> "NotWellFormedOrStructural", ns |-> <<>>, trees |-> <<>>]
       ELSE [err |-> "", ns |-> ns, trees |-> [k \in 1..Len(ts) |-> [rooted |-> ts[k].rooted, root |-> NwResolve(ts[k].root, ns)]]]

\* ------------------------------------------------------------ the round trip and what the property demands of it
\* inst: [schema, ns, trees : Seq([g, w]), o]
NwRoundTrip(inst, d) ==
    CASE inst.schema = "newick" -> NwReadNewick(NwWriteNewick(inst, d), inst.o, d)
      [] inst.schema = "nexus" -> NwReadNexus(NwWriteNexus(inst, d), inst.o, d)
      [] inst.schema = "nexml" -> NxRead(NxWrite(inst, d), d)
NwUsedLabels(inst) == UNION {{inst.ns[t.g.tx[x]] : x \in {y \in 1..t.g.n : t.g.tx[y] # 0}} : t \in SeqToSet(inst.trees)}
\* expected re-read trees: the source itself, with the normalisations NeXML forces
NwExpTree(t, ns, schema) ==
    LET r == NwNest(t.g, ns, t.g.seed) IN
    IF schema = "nexml" THEN [rooted |-> IF t.g.rooted = 1 THEN 1 ELSE 0, root |-> [r EXCEPT !.len = IF @ = "" THEN "n0" ELSE @]]
    ELSE [rooted |-> t.g.rooted, root |-> r]
NwRoundTripOK(inst, d) ==
    LET r == NwRoundTrip(inst, d) IN
    /\ r.err = ""
    /\ r.trees = [k \in 1..Len(inst.trees) |-> NwExpTree(inst.trees[k], inst.ns, inst.schema)]
    /\ IF inst.schema = "newick" THEN SeqToSet(r.ns) = NwUsedLabels(inst) /\ Len(r.ns) = Cardinality(NwUsedLabels(inst))
       ELSE r.ns = inst.ns

\* ------------------------------------------------------------ side conditions and consistent options
NwLabelsOk(labels) == /\ \A l \in labels : TkSideOk(l)
                      /\ \A l1, l2 \in labels : NwFold(l1) = NwFold(l2) => l1 = l2
NwOptsOk(inst) ==
    LET o == inst.o  rs == {t.g.rooted : t \in SeqToSet(inst.trees)} IN
    /\ TkConsistent(o.uu, o.ps, o.pu)
    /\ (o.translate => inst.schema = "nexus")
    /\ IF o.suprooting THEN Cardinality(rs) <= 1 /\ o.rrooting = (IF rs = {1} THEN "force-rooted" ELSE IF rs = {0} THEN "force-unrooted" ELSE "")
       ELSE o.rrooting = ""
\* a tree the text formats can carry: leaves have taxa and no labels of their own; an internal node has a label or
\* (with the reader option suppress_internal_node_taxa=False) a taxon, not both; taxa occur once per tree
NwTreeOk(t, o, schema) ==
    LET g == t.g IN
    /\ \A x \in 1..g.n : g.kids[x] = <<>> => g.tx[x] # 0
    /\ \A x, y \in 1..g.n : x # y /\ g.tx[x] # 0 => g.tx[x] # g.tx[y]
    /\ schema # "nexml" => \A x \in 1..g.n : g.kids[x] # <<>> =>
                               IF o.inttaxa THEN g.lab[x] = <<>> ELSE g.tx[x] = 0
=============================================================================
