----------------------------- MODULE Containers -----------------------------
(***************************************************************************)
(* C11 - collections keep every member inside their own taxon namespace.   *)
(*                                                                         *)
(* The abstract state is one small *universe* U of objects, every object   *)
(* named by a small integer (its identity; the harness maps id() to these):*)
(*   labels : Seq(STRING)                  label of taxon object 1..K      *)
(*   ns     : Seq([mem : Seq(taxon), cs : BOOLEAN])     TaxonNamespaces    *)
(*   trees  : Seq([ns : nsid, refs : Seq(taxon)])       Trees; refs = the  *)
(*            taxon of every taxon-bearing node, in preorder (a bag with   *)
(*            positions, so that a migration can be followed node by node) *)
(*   lists  : Seq([ns : nsid, trees : Seq(treeid)])     TreeLists          *)
(*   mats   : Seq([ns : nsid, rows : Seq(taxon)])       CharacterMatrices  *)
(*            (keys of _taxon_sequence_map in dict order)                  *)
(*   arrs   : Seq([ns : nsid, sd : nsid, n : Nat])      TreeArrays (sd =   *)
(*            namespace of the split distribution, n = trees accessioned)  *)
(*   ds     : [att : nsid or 0, lists : Seq(listid), mats : Seq(matid)]    *)
(*   memos  : Seq(Seq(<<taxon, taxon>>))   caller-owned taxon_mapping_memo  *)
(*            dictionaries (insertion order), handed to several calls      *)
(* nsid 0 = None.  New objects get the next free identity.                 *)
(*                                                                         *)
(* Every container operation is a pure operator  U, args -> [u, raised];   *)
(* Guard(U, a, x) is its documented precondition, Apply(U, a, x) the       *)
(* reference design.  The property clauses (Viol, LFClause over Moves) are *)
(* stated on arbitrary pre/post universes, so the bounded model            *)
(* (MC_Containers) and the trace judge (Trace_Containers) share them.      *)
(*                                                                         *)
(* Ship* = TRUE selects the rule the code shipped with (AsShipped_*.cfg).  *)
(***************************************************************************)
EXTENDS TaxonNamespace      \* LowerOf, SeqToSet, SelectIdx, RemoveAt, IndexOf, Distinct, BagOf
CONSTANTS ShipDsAdd,        \* DataSet.add_tree_list/add_char_matrix accept a foreign namespace in attached mode
          ShipMatPartial,   \* CharacterMatrix migration that hits a label collision leaves the matrix half migrated
          ShipCloneDrop     \* CharacterMatrix(m, taxon_namespace=n) silently merges rows whose labels collide in n

\* ------------------------------------------------------------ basic access
LabEq(cs, a, b) == IF cs THEN a = b ELSE LowerOf(a) = LowerOf(b)
HasNs(U, n) == n \in 1..Len(U.ns)
NsMem(U, n) == IF HasNs(U, n) THEN SeqToSet(U.ns[n].mem) ELSE {}
HasTree(U, t) == t \in 1..Len(U.trees)
HasList(U, l) == l \in 1..Len(U.lists)
HasMat(U, m) == m \in 1..Len(U.mats)
HasArr(U, a) == a \in 1..Len(U.arrs)
HasTax(U, t) == t \in 1..Len(U.labels)
Concat(qq) == LET F[i \in 0..Len(qq)] == IF i = 0 THEN <<>> ELSE F[i-1] \o qq[i] IN F[Len(qq)]
RefsOf(U, ts) == Concat([i \in 1..Len(ts) |-> IF HasTree(U, ts[i]) THEN U.trees[ts[i]].refs ELSE <<>>])
LabsOf(U, q) == [i \in 1..Len(q) |-> IF HasTax(U, q[i]) THEN U.labels[q[i]] ELSE "?"]
ListsOf(U, t) == {l \in 1..Len(U.lists) : t \in SeqToSet(U.lists[l].trees)}
IsFree(U, t) == ListsOf(U, t) = {}
PySlice(q, lo, hi) == SubSeq(q, lo + 1, hi)
InsAt(q, i, x) == LET k == IF i > Len(q) THEN Len(q) ELSE i IN SubSeq(q, 1, k) \o <<x>> \o SubSeq(q, k + 1, Len(q))

\* every identity mentioned anywhere exists (the operators below are total on sane universes)
Sane(U) ==
    /\ \A n \in 1..Len(U.ns) : Distinct(U.ns[n].mem) /\ \A i \in 1..Len(U.ns[n].mem) : HasTax(U, U.ns[n].mem[i])
    /\ \A t \in 1..Len(U.trees) : HasNs(U, U.trees[t].ns) /\ \A i \in 1..Len(U.trees[t].refs) : HasTax(U, U.trees[t].refs[i])
    /\ \A l \in 1..Len(U.lists) : HasNs(U, U.lists[l].ns) /\ \A i \in 1..Len(U.lists[l].trees) : HasTree(U, U.lists[l].trees[i])
    /\ \A m \in 1..Len(U.mats) : HasNs(U, U.mats[m].ns) /\ Distinct(U.mats[m].rows) /\ \A i \in 1..Len(U.mats[m].rows) : HasTax(U, U.mats[m].rows[i])
    /\ \A a \in 1..Len(U.arrs) : HasNs(U, U.arrs[a].ns) /\ HasNs(U, U.arrs[a].sd)
    /\ (U.ds.att = 0 \/ HasNs(U, U.ds.att))
    /\ \A i \in 1..Len(U.ds.lists) : HasList(U, U.ds.lists[i])
    /\ \A i \in 1..Len(U.ds.mats) : HasMat(U, U.ds.mats[i])
    /\ \A k \in 1..Len(U.memos) : \A i \in 1..Len(U.memos[k]) : HasTax(U, U.memos[k][i][1]) /\ HasTax(U, U.memos[k][i][2])

\* ------------------------------------------------------------ the property
\* Closure and RemovedKeepConsistentNs as a set of violation descriptors <<kind, container, member>>
ContViol(U) ==
    UNION {{<<"list-member-namespace-differs", l, U.lists[l].trees[i]>> :
              i \in {j \in 1..Len(U.lists[l].trees) :
                        ~HasTree(U, U.lists[l].trees[j]) \/ U.trees[U.lists[l].trees[j]].ns # U.lists[l].ns}} : l \in 1..Len(U.lists)}
    \cup UNION {{<<"list-member-taxon-not-in-namespace", l, U.lists[l].trees[i]>> :
              i \in {j \in 1..Len(U.lists[l].trees) :
                        HasTree(U, U.lists[l].trees[j]) /\ ~(SeqToSet(U.trees[U.lists[l].trees[j]].refs) \subseteq NsMem(U, U.lists[l].ns))}} : l \in 1..Len(U.lists)}
    \cup UNION {{<<"matrix-row-taxon-not-in-namespace", m, U.mats[m].rows[i]>> :
              i \in {j \in 1..Len(U.mats[m].rows) : U.mats[m].rows[j] \notin NsMem(U, U.mats[m].ns)}} : m \in 1..Len(U.mats)}
    \cup {<<"array-split-distribution-namespace-differs", a, 0>> : a \in {b \in 1..Len(U.arrs) : U.arrs[b].sd # U.arrs[b].ns}}
    \cup {<<"dataset-tree-list-foreign-namespace", U.ds.lists[i], 0>> :
        i \in {j \in 1..Len(U.ds.lists) : U.ds.att # 0 /\ (~HasList(U, U.ds.lists[j]) \/ U.lists[U.ds.lists[j]].ns # U.ds.att)}}
    \cup {<<"dataset-char-matrix-foreign-namespace", U.ds.mats[i], 0>> :
        i \in {j \in 1..Len(U.ds.mats) : U.ds.att # 0 /\ (~HasMat(U, U.ds.mats[j]) \/ U.mats[U.ds.mats[j]].ns # U.ds.att)}}
FreeViol(U) ==
    LET member == UNION {SeqToSet(U.lists[l].trees) : l \in 1..Len(U.lists)} IN
    {<<"free-tree-taxon-not-in-own-namespace", t, 0>> :
        t \in {s \in 1..Len(U.trees) : s \notin member /\ ~(SeqToSet(U.trees[s].refs) \subseteq NsMem(U, U.trees[s].ns))}}
Viol(U) == ContViol(U) \cup FreeViol(U)
ViolKinds == <<"list-member-namespace-differs", "list-member-taxon-not-in-namespace", "matrix-row-taxon-not-in-namespace",
               "array-split-distribution-namespace-differs", "dataset-tree-list-foreign-namespace",
               "dataset-char-matrix-foreign-namespace", "free-tree-taxon-not-in-own-namespace">>
ClauseOfKind(k) == IF k = "free-tree-taxon-not-in-own-namespace" THEN "C11.RemovedKeepConsistentNs" ELSE "C11.Closure"

\* LabelFunctional.  A *move* says which references an operation carried into namespace Y and how:
\*   mode "bylabel"    : unified by label under Y's case rule (migrate, clone, read)
\*        "byidentity" : unify_taxa_by_label=False - distinct taxa stay distinct, members of Y stay
\*        "same"       : not touched (already in Y, or taxon_import_strategy="add")
\*   olab/oid : label / identity (0 = none, read from a source) of every item before,
\*   new      : taxon of the same item after;  pos = TRUE: item i before is item i after (tree nodes),
\*              FALSE: the items are an unordered collection keyed by taxon (matrix rows)
Mv(Y, mode, olab, oid, new, pos) == [Y |-> Y, mode |-> mode, olab |-> olab, oid |-> oid, new |-> new, pos |-> pos]
Canon(cs, l) == IF cs THEN l ELSE LowerOf(l)
FirstMatch(U, n, l) == IF ~HasNs(U, n) THEN 0 ELSE
    LET mem == U.ns[n].mem
        p == SelectIdx(mem, LAMBDA i : LabEq(U.ns[n].cs, U.labels[mem[i]], l))
    IN IF p = <<>> THEN 0 ELSE mem[p[1]]
\* "" = holds, otherwise what went wrong
LFClause(P, Q, mv) ==
    LET n == Len(mv.new)
        cs == IF HasNs(Q, mv.Y) THEN Q.ns[mv.Y].cs ELSE TRUE
        nlab == LabsOf(Q, mv.new)
    IN IF n # Len(mv.olab) THEN "items-dropped-or-added"
       ELSE IF mv.mode = "same" THEN (IF mv.new # mv.oid THEN "untouched-references-changed" ELSE "")
       ELSE IF mv.mode = "byidentity" THEN
            (IF mv.pos /\ \E i, j \in 1..n : (mv.new[i] = mv.new[j]) # (mv.oid[i] = mv.oid[j]) THEN "distinct-taxa-merged-or-split"
             ELSE IF BagOf(nlab) # BagOf(mv.olab) \/ (mv.pos /\ nlab # mv.olab) THEN "label-changed" ELSE "")
       ELSE \* bylabel
            IF mv.pos /\ \E i, j \in 1..n : mv.new[i] = mv.new[j] /\ ~LabEq(cs, mv.olab[i], mv.olab[j]) THEN "different-labels-merged"
            ELSE IF mv.pos /\ \E i, j \in 1..n : mv.new[i] # mv.new[j] /\ LabEq(cs, mv.olab[i], mv.olab[j]) THEN "equal-labels-duplicated"
            ELSE IF mv.pos /\ \E i \in 1..n : ~LabEq(cs, nlab[i], mv.olab[i]) THEN "label-changed"
            ELSE IF ~mv.pos /\ BagOf([i \in 1..n |-> Canon(cs, nlab[i])]) # BagOf([i \in 1..n |-> Canon(cs, mv.olab[i])]) THEN "label-changed"
            ELSE IF \E i \in 1..n : mv.new[i] \notin NsMem(P, mv.Y) /\ FirstMatch(P, mv.Y, nlab[i]) # 0 THEN "duplicate-of-existing-member"
            ELSE ""

\* ------------------------------------------------------------ namespaces
COk(U) == [u |-> U, raised |-> ""]
CErr(U, k) == [u |-> U, raised |-> k]
NewTax(U, n, l) == LET k == Len(U.labels) + 1 IN
    [u |-> [U EXCEPT !.labels = Append(@, l), !.ns[n].mem = Append(@, k)], t |-> k]
Require(U, n, l) == LET m == FirstMatch(U, n, l) IN IF m # 0 THEN [u |-> U, t |-> m] ELSE NewTax(U, n, l)
AddTax(U, n, t) == IF t \in NsMem(U, n) THEN U ELSE [U EXCEPT !.ns[n].mem = Append(@, t)]
RECURSIVE AddAll(_, _, _)
AddAll(U, n, ts) == IF ts = <<>> THEN U ELSE AddAll(AddTax(U, n, Head(ts)), n, Tail(ts))
NewNs(U) == [U EXCEPT !.ns = Append(@, [mem |-> <<>>, cs |-> FALSE])]
NsArg(U, x, dflt) == IF x # 0 THEN x ELSE dflt
RECURSIVE ReqAll(_, _, _, _)
ReqAll(U, n, ls, acc) == IF ls = <<>> THEN [u |-> U, refs |-> acc]
                         ELSE LET r == Require(U, n, Head(ls)) IN ReqAll(r.u, n, Tail(ls), Append(acc, r.t))

\* reconstruct_taxon_namespace over a sequence of references (Tree: nodes in preorder)
\* a taxon_mapping_memo is a sequence of pairs <<old taxon, its counterpart>> (a dict in insertion order)
MHas(mm, o) == \E i \in 1..Len(mm) : mm[i][1] = o
MGet(mm, o) == mm[CHOOSE i \in 1..Len(mm) : mm[i][1] = o][2]
RECURSIVE Recon(_, _, _, _, _, _)
Recon(U, n, refs, unify, memo, acc) ==
    IF refs = <<>> THEN [u |-> U, refs |-> acc, memo |-> memo]
    ELSE LET o == Head(refs) IN
         IF ~unify /\ o \in NsMem(U, n) THEN Recon(U, n, Tail(refs), unify, memo, Append(acc, o))
         ELSE IF MHas(memo, o) THEN Recon(AddTax(U, n, MGet(memo, o)), n, Tail(refs), unify, memo, Append(acc, MGet(memo, o)))
         ELSE LET r == IF unify THEN Require(U, n, U.labels[o]) ELSE NewTax(U, n, U.labels[o])
              IN Recon(r.u, n, Tail(refs), unify, Append(memo, <<o, r.t>>), Append(acc, r.t))

\* ------------------------------------------------------------ trees
TreeRecon(U, t, unify, memo) == LET r == Recon(U, U.trees[t].ns, U.trees[t].refs, unify, memo, <<>>)
                                IN [u |-> [r.u EXCEPT !.trees[t].refs = r.refs], memo |-> r.memo]
TreeMig(U, t, n, unify, memo) == TreeRecon([U EXCEPT !.trees[t].ns = n], t, unify, memo)
TreeUpd(U, t) == AddAll(U, U.trees[t].ns, U.trees[t].refs)
\* TreeList._import_tree_to_taxon_namespace
Import(U, n, t, strat) == IF U.trees[t].ns = n THEN U
                          ELSE IF strat = "migrate" THEN TreeMig(U, t, n, TRUE, <<>>).u
                          ELSE TreeUpd([U EXCEPT !.trees[t].ns = n], t)
RECURSIVE ImportAll(_, _, _, _)
ImportAll(U, n, ts, strat) == IF ts = <<>> THEN U ELSE ImportAll(Import(U, n, Head(ts), strat), n, Tail(ts), strat)

\* X(src, taxon_namespace=n): every taxon of the source namespace is required in n (memo), then a deep copy
RECURSIVE CloneMemo(_, _, _, _)
CloneMemo(U, n, src, memo) == IF src = <<>> THEN [u |-> U, memo |-> memo]
    ELSE LET r == Require(U, n, U.labels[Head(src)]) IN CloneMemo(r.u, n, Tail(src), (Head(src) :> r.t) @@ memo)
BaseMemo(U, src, n) == IF n = src THEN [u |-> U, memo |-> [x \in NsMem(U, src) |-> x]]
                       ELSE CloneMemo(U, n, U.ns[src].mem, <<>>)
\* references outside the source namespace are deep-copied: a new taxon object in no namespace
RECURSIVE CloneRefs(_, _, _, _)
CloneRefs(U, refs, memo, acc) ==
    IF refs = <<>> THEN [u |-> U, refs |-> acc, memo |-> memo]
    ELSE LET o == Head(refs) IN
         IF o \in DOMAIN memo THEN CloneRefs(U, Tail(refs), memo, Append(acc, memo[o]))
         ELSE LET k == Len(U.labels) + 1
              IN CloneRefs([U EXCEPT !.labels = Append(@, U.labels[o])], Tail(refs), (o :> k) @@ memo, Append(acc, k))
TreeCloneWith(U, t0, n, memo) == LET c == CloneRefs(U, U.trees[t0].refs, memo, <<>>)
    IN [u |-> [c.u EXCEPT !.trees = Append(@, [ns |-> n, refs |-> c.refs])], memo |-> c.memo]
CloneTree(U, t0, n) == LET b == BaseMemo(U, U.trees[t0].ns, n) IN TreeCloneWith(b.u, t0, n, b.memo).u
\* one Tree(t0, taxon_namespace=n) per element (extend / += / slice assignment with a TreeList operand)
RECURSIVE CloneEach(_, _, _, _)
CloneEach(U, n, ts, acc) == IF ts = <<>> THEN [u |-> U, ids |-> acc]
    ELSE LET U1 == CloneTree(U, Head(ts), n) IN CloneEach(U1, n, Tail(ts), Append(acc, Len(U1.trees)))
\* deep copy of a whole list: one memo, a tree that occurs twice is copied once
RECURSIVE CloneShared(_, _, _, _, _, _)
CloneShared(U, n, ts, memo, tm, acc) ==
    IF ts = <<>> THEN [u |-> U, ids |-> acc]
    ELSE IF Head(ts) \in DOMAIN tm THEN CloneShared(U, n, Tail(ts), memo, tm, Append(acc, tm[Head(ts)]))
    ELSE LET c == TreeCloneWith(U, Head(ts), n, memo)  k == Len(c.u.trees)
         IN CloneShared(c.u, n, Tail(ts), c.memo, (Head(ts) :> k) @@ tm, Append(acc, k))

\* ------------------------------------------------------------ TreeList
NewList(U, n) == [U EXCEPT !.lists = Append(@, [ns |-> n, trees |-> <<>>])]
OpTLAppend(U, l, t, strat) == COk([Import(U, U.lists[l].ns, t, strat) EXCEPT !.lists[l].trees = Append(@, t)])
OpTLInsert(U, l, i, t, strat) == COk([Import(U, U.lists[l].ns, t, strat) EXCEPT !.lists[l].trees = InsAt(@, i, t)])
OpTLExtendList(U, l, l2) == LET c == CloneEach(U, U.lists[l].ns, U.lists[l2].trees, <<>>)
                          IN COk([c.u EXCEPT !.lists[l].trees = @ \o c.ids])
OpTLExtendTrees(U, l, ts) == COk([ImportAll(U, U.lists[l].ns, ts, "migrate") EXCEPT !.lists[l].trees = @ \o ts])
OpTLAddList(U, l, l2) == LET U1 == NewList(U, U.lists[l].ns)  k == Len(U1.lists)
                       IN OpTLExtendList(OpTLExtendList(U1, k, l).u, k, l2)
OpTLAddTrees(U, l, ts) == LET U1 == NewList(U, U.lists[l].ns)  k == Len(U1.lists)
                        IN OpTLExtendTrees(OpTLExtendList(U1, k, l).u, k, ts)
OpTLSetItem(U, l, i, t) == COk([Import(U, U.lists[l].ns, t, "migrate") EXCEPT !.lists[l].trees[i + 1] = t])
Splice(q, lo, hi, v) == SubSeq(q, 1, lo) \o v \o SubSeq(q, hi + 1, Len(q))
OpTLSetSliceList(U, l, lo, hi, l2) == LET c == CloneEach(U, U.lists[l].ns, U.lists[l2].trees, <<>>)
                                    IN COk([c.u EXCEPT !.lists[l].trees = Splice(@, lo, hi, c.ids)])
OpTLSetSliceTrees(U, l, lo, hi, ts) == COk([ImportAll(U, U.lists[l].ns, ts, "migrate") EXCEPT !.lists[l].trees = Splice(@, lo, hi, ts)])
OpTLGetSlice(U, l, lo, hi) == LET U1 == NewList(U, U.lists[l].ns)
                            IN OpTLExtendTrees(U1, Len(U1.lists), PySlice(U.lists[l].trees, lo, hi))
\* pop(i) / del [i] remove position i; remove(tree) the first occurrence of that tree
OpTLRemoveAt(U, l, i, how) == LET q == U.lists[l].trees
                                k == IF how = "remove" THEN IndexOf(q, q[i + 1]) ELSE i + 1
                            IN COk([U EXCEPT !.lists[l].trees = RemoveAt(@, {k})])
OpTLClear(U, l) == COk([U EXCEPT !.lists[l].trees = <<>>])
OpTLNewTree(U, l, nsarg) == IF nsarg # 0 /\ nsarg # U.lists[l].ns THEN CErr(U, "TypeError")
    ELSE COk([U EXCEPT !.trees = Append(@, [ns |-> U.lists[l].ns, refs |-> <<>>]), !.lists[l].trees = Append(@, Len(U.trees) + 1)])
\* reading: every tree of the source is a sequence of labels
RECURSIVE ReadTrees(_, _, _, _)
ReadTrees(U, n, srcs, acc) == IF srcs = <<>> THEN [u |-> U, ids |-> acc]
    ELSE LET r == ReqAll(U, n, Head(srcs), <<>>)
             U1 == [r.u EXCEPT !.trees = Append(@, [ns |-> n, refs |-> r.refs])]
         IN ReadTrees(U1, n, Tail(srcs), Append(acc, Len(U1.trees)))
OpTLRead(U, l, srcs) == LET r == ReadTrees(U, U.lists[l].ns, srcs, <<>>) IN COk([r.u EXCEPT !.lists[l].trees = @ \o r.ids])
\* TreeList(l0) / TreeList(l0, taxon_namespace=n)
OpTLCtorList(U, l0, nsarg) == LET n == NsArg(U, nsarg, U.lists[l0].ns)
                                b == BaseMemo(U, U.lists[l0].ns, n)
                                c == CloneShared(b.u, n, U.lists[l0].trees, b.memo, <<>>, <<>>)
                            IN COk([c.u EXCEPT !.lists = Append(@, [ns |-> n, trees |-> c.ids])])
\* TreeList([t, ...]) / TreeList([t, ...], taxon_namespace=n)
OpTLCtorTrees(U, ts, nsarg) == LET U0 == IF nsarg = 0 THEN NewNs(U) ELSE U
                                 U1 == NewList(U0, NsArg(U, nsarg, Len(U0.ns)))
                             IN OpTLExtendTrees(U1, Len(U1.lists), ts)
RECURSIVE ReconTrees(_, _, _, _, _)
ReconTrees(U, n, ts, unify, memo) == IF ts = <<>> THEN [u |-> U, memo |-> memo]
    ELSE LET r == TreeMig(U, Head(ts), n, unify, memo) IN ReconTrees(r.u, n, Tail(ts), unify, r.memo)
TLMigrateM(U, l, n, unify, memo) == ReconTrees([U EXCEPT !.lists[l].ns = n], n, U.lists[l].trees, unify, memo)
OpTLMigrate(U, l, n, unify) == COk(TLMigrateM(U, l, n, unify, <<>>).u)
OpTLReconstruct(U, l, unify) == COk(ReconTrees(U, U.lists[l].ns, U.lists[l].trees, unify, <<>>).u)
\* ns.clear() followed by reconstruct_taxon_namespace(): the documented way to rebuild a namespace that has
\* accumulated unused taxa.  Between the two calls the closure is broken on purpose, so the pair is ONE action;
\* it is only called on a namespace that no other container, free tree or data set uses (SoleUser).
ClearNs(U, n) == [U EXCEPT !.ns[n].mem = <<>>]
SoleUser(U, l) == LET n == U.lists[l].ns IN
    /\ \A k \in 1..Len(U.lists) : k # l => U.lists[k].ns # n
    /\ \A m \in 1..Len(U.mats) : U.mats[m].ns # n
    /\ \A b \in 1..Len(U.arrs) : U.arrs[b].ns # n /\ U.arrs[b].sd # n
    /\ \A t \in 1..Len(U.trees) : t \notin SeqToSet(U.lists[l].trees) => U.trees[t].ns # n
    /\ U.ds.att # n
OpTLClearReconstruct(U, l, unify) == OpTLReconstruct(ClearNs(U, U.lists[l].ns), l, unify)
RECURSIVE UpdTrees(_, _, _)
UpdTrees(U, n, ts) == IF ts = <<>> THEN U ELSE UpdTrees(TreeUpd([U EXCEPT !.trees[Head(ts)].ns = n], Head(ts)), n, Tail(ts))
OpTLUpdate(U, l) == COk(UpdTrees(U, U.lists[l].ns, U.lists[l].trees))
OpTreeMigrate(U, t, n, unify) == COk(TreeMig(U, t, n, unify, <<>>).u)
OpTreeClone(U, t, nsarg) == COk(CloneTree(U, t, NsArg(U, nsarg, U.trees[t].ns)))

\* the same with a caller-owned taxon_mapping_memo (memo k of the universe): its entries take precedence over labels,
\* their counterparts are added to the namespace, and what the call maps is recorded in it for the next call
HasMemo(U, k) == k \in 1..Len(U.memos)
OpTLAppendMemo(U, l, t, how, k) ==
    LET n == U.lists[l].ns
        r == IF U.trees[t].ns = n THEN [u |-> U, memo |-> U.memos[k]] ELSE TreeMig(U, t, n, TRUE, U.memos[k])
    IN COk([r.u EXCEPT !.memos[k] = r.memo, !.lists[l].trees = IF how = "insert" THEN InsAt(@, 0, t) ELSE Append(@, t)])
OpTLMigrateMemo(U, l, n, k) == LET r == TLMigrateM(U, l, n, TRUE, U.memos[k]) IN COk([r.u EXCEPT !.memos[k] = r.memo])
OpTreeMigrateMemo(U, t, n, k) == LET r == TreeMig(U, t, n, TRUE, U.memos[k]) IN COk([r.u EXCEPT !.memos[k] = r.memo])
\* trees built around a hand-made node structure: nodes carry existing taxa (refs, of any namespace) and brand-new
\* Taxon objects (labs); Tree(seed_node=..) / new_tree(seed_node=..) add them all to the tree's namespace
RECURSIVE FreshTaxa(_, _, _)
FreshTaxa(U, labs, acc) == IF labs = <<>> THEN [u |-> U, refs |-> acc]
    ELSE FreshTaxa([U EXCEPT !.labels = Append(@, Head(labs))], Tail(labs), Append(acc, Len(U.labels) + 1))
SeedTree(U, n, refs, labs) == LET f == FreshTaxa(U, labs, <<>>)
                                  U1 == [f.u EXCEPT !.trees = Append(@, [ns |-> n, refs |-> refs \o f.refs])]
                              IN AddAll(U1, n, refs \o f.refs)
OpTLNewTreeSeed(U, l, refs, labs) == COk([SeedTree(U, U.lists[l].ns, refs, labs) EXCEPT !.lists[l].trees = Append(@, Len(U.trees) + 1)])
OpTreeFromSeed(U, nsarg, refs, labs) == LET U0 == IF nsarg = 0 THEN NewNs(U) ELSE U
                                        IN COk(SeedTree(U0, NsArg(U, nsarg, Len(U0.ns)), refs, labs))

\* ------------------------------------------------------------ TreeArray
OpTAAdd(U, a, t) == IF U.trees[t].ns # U.arrs[a].ns THEN CErr(U, "TaxonNamespaceIdentityError")
                  ELSE COk([U EXCEPT !.arrs[a].n = @ + 1])
OpTARead(U, a, srcs) == COk([ReqAll(U, U.arrs[a].ns, Concat(srcs), <<>>).u EXCEPT !.arrs[a].n = @ + Len(srcs)])

\* ------------------------------------------------------------ CharacterMatrix
OpCMNewSeq(U, m, t) == IF t \in SeqToSet(U.mats[m].rows) \/ t \notin NsMem(U, U.mats[m].ns) THEN CErr(U, "ValueError")
                     ELSE COk([U EXCEPT !.mats[m].rows = Append(@, t)])
OpCMSetItem(U, m, t) == IF t \notin NsMem(U, U.mats[m].ns) THEN CErr(U, "ValueError")
                      ELSE COk(IF t \in SeqToSet(U.mats[m].rows) THEN U ELSE [U EXCEPT !.mats[m].rows = Append(@, t)])
\* item access cm[key]: key is a Taxon object (passed through as it is), a label (first member matching under the
\* namespace's rule, else KeyError) or an index into the namespace (else IndexError); a member without a sequence
\* gets one (new_sequence), a taxon outside the namespace is refused (ValueError)
GetRow(U, m, t) == IF t \in SeqToSet(U.mats[m].rows) THEN COk(U) ELSE OpCMNewSeq(U, m, t)
OpCMGetTaxon(U, m, t) == GetRow(U, m, t)
OpCMGetLabel(U, m, lab) == LET t == FirstMatch(U, U.mats[m].ns, lab) IN IF t = 0 THEN CErr(U, "KeyError") ELSE GetRow(U, m, t)
OpCMGetIndex(U, m, i) == LET mem == U.ns[U.mats[m].ns].mem IN IF i >= Len(mem) THEN CErr(U, "IndexError") ELSE GetRow(U, m, mem[i + 1])
\* reconstruct_taxon_namespace row by row.  Two sequences cannot share a taxon: documented
\* TaxonNamespaceReconstructionError.  ship = the shipped loop (moves row by row, also trips over a
\* row that maps to itself); the reference design detects the collision before changing the matrix.
RECURSIVE MatRecon(_, _, _, _, _, _)
MatRecon(U, m, todo, unify, memo, ship) ==
    IF todo = <<>> THEN [u |-> U, memo |-> memo, raised |-> ""]
    ELSE LET o == Head(todo)  n == U.mats[m].ns IN
         IF ~unify /\ o \in NsMem(U, n) THEN MatRecon(U, m, Tail(todo), unify, memo, ship)
         ELSE LET hit == MHas(memo, o)
                  r == IF hit THEN [u |-> AddTax(U, n, MGet(memo, o)), t |-> MGet(memo, o)]
                       ELSE IF unify THEN Require(U, n, U.labels[o]) ELSE NewTax(U, n, U.labels[o])
                  memo2 == IF hit THEN memo ELSE Append(memo, <<o, r.t>>)
              IN IF r.t = o /\ ~ship THEN MatRecon(r.u, m, Tail(todo), unify, memo2, ship)
                 ELSE IF r.t \in SeqToSet(r.u.mats[m].rows)
                      THEN [u |-> r.u, memo |-> memo2, raised |-> "TaxonNamespaceReconstructionError"]
                 ELSE MatRecon([r.u EXCEPT !.mats[m].rows = RemoveAt(@, {IndexOf(@, o)}) \o <<r.t>>], m, Tail(todo), unify, memo2, ship)
CMReconM(U, m, n, unify, memo) ==    \* n = namespace assigned first (migrate) or the current one (reconstruct)
    LET r == MatRecon([U EXCEPT !.mats[m].ns = n], m, U.mats[m].rows, unify, memo, ShipMatPartial)
    IN IF r.raised = "" \/ ShipMatPartial THEN r ELSE [r EXCEPT !.u.mats[m] = U.mats[m]]
OpCMMigrate(U, m, n, unify) == LET r == CMReconM(U, m, n, unify, <<>>) IN [u |-> r.u, raised |-> r.raised]
OpCMMigrateMemo(U, m, n, k) == LET r == CMReconM(U, m, n, TRUE, U.memos[k])
                               IN [u |-> [r.u EXCEPT !.memos[k] = r.memo], raised |-> r.raised]
OpCMReconstruct(U, m, unify) == OpCMMigrate(U, m, U.mats[m].ns, unify)
\* the matrix analogue of TLClearReconstruct: cm.taxon_namespace.clear() ; cm.reconstruct_taxon_namespace()
SoleUserM(U, m) == LET n == U.mats[m].ns IN
    /\ \A k \in 1..Len(U.mats) : k # m => U.mats[k].ns # n
    /\ \A l \in 1..Len(U.lists) : U.lists[l].ns # n
    /\ \A b \in 1..Len(U.arrs) : U.arrs[b].ns # n /\ U.arrs[b].sd # n
    /\ \A t \in 1..Len(U.trees) : U.trees[t].ns # n
    /\ U.ds.att # n
OpCMClearReconstruct(U, m, unify) == OpCMMigrate(ClearNs(U, U.mats[m].ns), m, U.mats[m].ns, unify)
OpCMUpdate(U, m) == COk(AddAll(U, U.mats[m].ns, U.mats[m].rows))
\* X.from_dict({label: seq, ...}, taxon_namespace=n, case_sensitive_taxon_labels=n.is_case_sensitive)
OpCMFromDict(U, keys, nsarg) == LET U0 == IF nsarg = 0 THEN NewNs(U) ELSE U
                                  n == NsArg(U, nsarg, Len(U0.ns))
                                  r == ReqAll(U0, n, keys, <<>>)
                              IN COk([r.u EXCEPT !.mats = Append(@, [ns |-> n, rows |-> r.refs])])
RECURSIVE Dedup(_, _)
Dedup(q, acc) == IF q = <<>> THEN acc ELSE Dedup(Tail(q), IF Head(q) \in SeqToSet(acc) THEN acc ELSE Append(acc, Head(q)))
\* X(m, taxon_namespace=n)
OpCMClone(U, m, nsarg) == LET n == NsArg(U, nsarg, U.mats[m].ns)
                            b == BaseMemo(U, U.mats[m].ns, n)
                            c == CloneRefs(b.u, U.mats[m].rows, b.memo, <<>>)
                        IN IF Distinct(c.refs) THEN COk([c.u EXCEPT !.mats = Append(@, [ns |-> n, rows |-> c.refs])])
                           ELSE IF ShipCloneDrop THEN COk([c.u EXCEPT !.mats = Append(@, [ns |-> n, rows |-> Dedup(c.refs, <<>>)])])
                           ELSE CErr(b.u, "TaxonNamespaceReconstructionError")

\* ------------------------------------------------------------ DataSet
\* a source document: [taxa : Seq(label), rows : Seq(label), trees : Seq(Seq(label))]
OpDSRead(U, src, nsarg) ==
    IF U.ds.att # 0 /\ nsarg # 0 /\ nsarg # U.ds.att THEN CErr(U, "ValueError")
    ELSE LET fresh == U.ds.att = 0 /\ nsarg = 0
             U0 == IF fresh THEN NewNs(U) ELSE U
             n == IF U.ds.att # 0 THEN U.ds.att ELSE NsArg(U, nsarg, Len(U0.ns))
             U1 == ReqAll(U0, n, src.taxa, <<>>).u
             rm == ReqAll(U1, n, src.rows, <<>>)
             U2 == IF src.rows = <<>> THEN U1
                   ELSE [rm.u EXCEPT !.mats = Append(@, [ns |-> n, rows |-> rm.refs]), !.ds.mats = Append(@, Len(U1.mats) + 1)]
             rt == ReadTrees(U2, n, src.trees, <<>>)
             U3 == IF src.trees = <<>> THEN U2
                   ELSE [rt.u EXCEPT !.lists = Append(@, [ns |-> n, trees |-> rt.ids]), !.ds.lists = Append(@, Len(U2.lists) + 1)]
         IN COk(U3)
\* a source with several taxa blocks (NeXML <otus> + <trees>): blocks = Seq([taxa, trees]); every block is read into
\* the attached / given namespace, or into a namespace of its own
RECURSIVE ReadBlocks(_, _, _)
ReadBlocks(U, bs, nfix) ==
    IF bs = <<>> THEN U
    ELSE LET U0 == IF nfix = 0 THEN NewNs(U) ELSE U
             n == IF nfix = 0 THEN Len(U0.ns) ELSE nfix
             U1 == ReqAll(U0, n, Head(bs).taxa, <<>>).u
             rt == ReadTrees(U1, n, Head(bs).trees, <<>>)
             U2 == [rt.u EXCEPT !.lists = Append(@, [ns |-> n, trees |-> rt.ids]), !.ds.lists = Append(@, Len(U1.lists) + 1)]
         IN ReadBlocks(U2, Tail(bs), nfix)
OpDSReadBlocks(U, blocks, nsarg) ==
    IF U.ds.att # 0 /\ nsarg # 0 /\ nsarg # U.ds.att THEN CErr(U, "ValueError")
    ELSE COk(ReadBlocks(U, blocks, IF U.ds.att # 0 THEN U.ds.att ELSE nsarg))
OpDSAddList(U, l) == IF U.ds.att # 0 /\ U.lists[l].ns # U.ds.att /\ ~ShipDsAdd THEN CErr(U, "TypeError")
                   ELSE COk(IF l \in SeqToSet(U.ds.lists) THEN U ELSE [U EXCEPT !.ds.lists = Append(@, l)])
OpDSAddMat(U, m) == IF U.ds.att # 0 /\ U.mats[m].ns # U.ds.att /\ ~ShipDsAdd THEN CErr(U, "TypeError")
                  ELSE COk(IF m \in SeqToSet(U.ds.mats) THEN U ELSE [U EXCEPT !.ds.mats = Append(@, m)])
OpDSNewList(U, nsarg) == IF U.ds.att # 0 /\ nsarg # 0 /\ nsarg # U.ds.att THEN CErr(U, "TypeError")
    ELSE LET U0 == IF U.ds.att = 0 /\ nsarg = 0 THEN NewNs(U) ELSE U
             n == IF U.ds.att # 0 THEN U.ds.att ELSE NsArg(U, nsarg, Len(U0.ns))
         IN COk([NewList(U0, n) EXCEPT !.ds.lists = Append(@, Len(U.lists) + 1)])
OpDSNewMat(U, nsarg) == IF U.ds.att # 0 /\ nsarg # 0 /\ nsarg # U.ds.att THEN CErr(U, "TypeError")
    ELSE LET U0 == IF U.ds.att = 0 /\ nsarg = 0 THEN NewNs(U) ELSE U
             n == IF U.ds.att # 0 THEN U.ds.att ELSE NsArg(U, nsarg, Len(U0.ns))
         IN COk([U0 EXCEPT !.mats = Append(@, [ns |-> n, rows |-> <<>>]), !.ds.mats = Append(@, Len(U.mats) + 1)])
OpDSAttach(U, n) == COk([U EXCEPT !.ds.att = n])
OpDSDetach(U) == COk([U EXCEPT !.ds.att = 0])
RECURSIVE UnifyLists(_, _, _, _)
UnifyLists(U, n, ls, memo) == IF ls = <<>> THEN [u |-> U, memo |-> memo]
    ELSE LET r == TLMigrateM(U, Head(ls), n, TRUE, memo) IN UnifyLists(r.u, n, Tail(ls), r.memo)
RECURSIVE UnifyMats(_, _, _, _)
UnifyMats(U, n, ms, memo) == IF ms = <<>> THEN [u |-> U, memo |-> memo, raised |-> ""]
    ELSE LET r == CMReconM(U, Head(ms), n, TRUE, memo)
         IN IF r.raised # "" THEN r ELSE UnifyMats(r.u, n, Tail(ms), r.memo)
OpDSUnify(U, nsarg) == LET U0 == IF nsarg = 0 THEN NewNs(U) ELSE U
                         n == NsArg(U, nsarg, Len(U0.ns))
                         a == UnifyLists(U0, n, U.ds.lists, <<>>)
                         b == UnifyMats(a.u, n, U.ds.mats, a.memo)
                     IN IF b.raised # "" THEN CErr(b.u, b.raised) ELSE COk([b.u EXCEPT !.ds.att = n])

\* ------------------------------------------------------------ preconditions
\* A tree object has one taxon_namespace attribute: it can satisfy one list's closure only.  The operations are
\* therefore called on operands that are not shared with a container bound to another namespace.
Exclusive(U, l) == \A i \in 1..Len(U.lists[l].trees) : ListsOf(U, U.lists[l].trees[i]) = {l}
TreeFitsList(U, t, l) == \A k \in ListsOf(U, t) : U.lists[k].ns = U.lists[l].ns
InDs(U, l) == l \in SeqToSet(U.ds.lists)
MatInDs(U, m) == m \in SeqToSet(U.ds.mats)
TreesOk(U, ts, l) == \A i \in 1..Len(ts) : HasTree(U, ts[i]) /\ TreeFitsList(U, ts[i], l)
MayMoveList(U, l, n) == Exclusive(U, l) /\ (InDs(U, l) /\ U.ds.att # 0 => n = U.ds.att)
Collides(U, rows, cs) == \E i, j \in 1..Len(rows) : i # j /\ LabEq(cs, U.labels[rows[i]], U.labels[rows[j]])
KeysCollide(keys, cs) == \E i, j \in 1..Len(keys) : i # j /\ LabEq(cs, keys[i], keys[j])
NsArgOk(U, x) == x = 0 \/ HasNs(U, x)
CsOfArg(U, x) == IF x = 0 THEN FALSE ELSE U.ns[x].cs
SrcOk(src, cs) == /\ ~KeysCollide(src.taxa, cs)
                  /\ SeqToSet(src.rows) \subseteq SeqToSet(src.taxa) /\ ~KeysCollide(src.rows, cs)
                  /\ \A i \in 1..Len(src.trees) : SeqToSet(src.trees[i]) \subseteq SeqToSet(src.taxa) /\ ~KeysCollide(src.trees[i], cs)
TreeSrcOk(srcs, cs) == \A i \in 1..Len(srcs) : ~KeysCollide(srcs[i], cs)

Guard(U, a, x) ==     \* on a sane universe (Sane is checked separately: invariant / judge)
    CASE a = "TLAppend"        -> HasList(U, x.l) /\ HasTree(U, x.t) /\ TreeFitsList(U, x.t, x.l)
      [] a = "TLInsert"        -> HasList(U, x.l) /\ HasTree(U, x.t) /\ TreeFitsList(U, x.t, x.l)
      [] a = "TLExtendList"    -> HasList(U, x.l) /\ HasList(U, x.l2) /\ x.l # x.l2
      [] a = "TLExtendTrees"   -> HasList(U, x.l) /\ TreesOk(U, x.ts, x.l)
      [] a = "TLAddList"       -> HasList(U, x.l) /\ HasList(U, x.l2)
      [] a = "TLAddTrees"      -> HasList(U, x.l) /\ TreesOk(U, x.ts, x.l)
      [] a = "TLSetItem"       -> HasList(U, x.l) /\ HasTree(U, x.t) /\ TreeFitsList(U, x.t, x.l) /\ x.i < Len(U.lists[x.l].trees)
      [] a = "TLSetSliceList"  -> HasList(U, x.l) /\ HasList(U, x.l2) /\ x.lo <= x.hi /\ x.hi <= Len(U.lists[x.l].trees)
      [] a = "TLSetSliceTrees" -> HasList(U, x.l) /\ TreesOk(U, x.ts, x.l) /\ x.lo <= x.hi /\ x.hi <= Len(U.lists[x.l].trees)
      [] a = "TLGetSlice"      -> HasList(U, x.l) /\ x.lo <= x.hi /\ x.hi <= Len(U.lists[x.l].trees)
      [] a = "TLRemoveAt"      -> HasList(U, x.l) /\ x.i < Len(U.lists[x.l].trees)
      [] a = "TLClear"         -> HasList(U, x.l)
      [] a = "TLNewTree"       -> HasList(U, x.l) /\ NsArgOk(U, x.nsarg)
      [] a = "TLRead"          -> HasList(U, x.l) /\ TreeSrcOk(x.srcs, U.ns[U.lists[x.l].ns].cs)
      [] a = "TLCtorList"      -> HasList(U, x.l) /\ NsArgOk(U, x.nsarg)
      [] a = "TLCtorTrees"     -> NsArgOk(U, x.nsarg) /\ \A i \in 1..Len(x.ts) : HasTree(U, x.ts[i]) /\
                                       \A k \in ListsOf(U, x.ts[i]) : x.nsarg # 0 /\ U.lists[k].ns = x.nsarg
      [] a = "TLMigrate"       -> HasList(U, x.l) /\ HasNs(U, x.n) /\ MayMoveList(U, x.l, x.n)
      [] a = "TLReconstruct"   -> HasList(U, x.l)
      [] a = "TLClearReconstruct" -> HasList(U, x.l) /\ SoleUser(U, x.l)
      [] a = "TLUpdate"        -> HasList(U, x.l)
      [] a = "TreeMigrate"     -> HasTree(U, x.t) /\ HasNs(U, x.n) /\ IsFree(U, x.t)
      [] a = "TreeClone"       -> HasTree(U, x.t) /\ NsArgOk(U, x.nsarg)
      [] a = "TLAppendMemo"    -> HasList(U, x.l) /\ HasTree(U, x.t) /\ TreeFitsList(U, x.t, x.l) /\ HasMemo(U, x.k)
      \* (a tree that occurs twice in the list would be mapped twice, the second time through the entries the first
      \*  pass left in the caller's memo: not a history the property speaks about)
      [] a = "TLMigrateMemo"   -> HasList(U, x.l) /\ HasNs(U, x.n) /\ MayMoveList(U, x.l, x.n) /\ HasMemo(U, x.k)
                                  /\ Distinct(U.lists[x.l].trees)
      [] a = "TreeMigrateMemo" -> HasTree(U, x.t) /\ HasNs(U, x.n) /\ IsFree(U, x.t) /\ HasMemo(U, x.k)
      [] a = "CMMigrateMemo"   -> HasMat(U, x.m) /\ HasNs(U, x.n) /\ (MatInDs(U, x.m) /\ U.ds.att # 0 => x.n = U.ds.att) /\ HasMemo(U, x.k)
      [] a = "TLNewTreeSeed"   -> HasList(U, x.l) /\ \A i \in 1..Len(x.refs) : HasTax(U, x.refs[i])
      [] a = "TreeFromSeed"    -> NsArgOk(U, x.nsarg) /\ \A i \in 1..Len(x.refs) : HasTax(U, x.refs[i])
      [] a = "TAAdd"           -> HasArr(U, x.a) /\ HasTree(U, x.t)
      [] a = "TARead"          -> HasArr(U, x.a) /\ TreeSrcOk(x.srcs, U.ns[U.arrs[x.a].ns].cs)
      [] a = "CMNewSeq"        -> HasMat(U, x.m) /\ HasTax(U, x.t)
      [] a = "CMSetItem"       -> HasMat(U, x.m) /\ HasTax(U, x.t)
      [] a = "CMGetTaxon"      -> HasMat(U, x.m) /\ HasTax(U, x.t)
      [] a = "CMGetLabel"      -> HasMat(U, x.m)
      [] a = "CMGetIndex"      -> HasMat(U, x.m) /\ x.i >= 0
      [] a = "CMMigrate"       -> HasMat(U, x.m) /\ HasNs(U, x.n) /\ (MatInDs(U, x.m) /\ U.ds.att # 0 => x.n = U.ds.att)
      [] a = "CMReconstruct"   -> HasMat(U, x.m)
      [] a = "CMClearReconstruct" -> HasMat(U, x.m) /\ SoleUserM(U, x.m)
      [] a = "CMUpdate"        -> HasMat(U, x.m)
      [] a = "CMFromDict"      -> NsArgOk(U, x.nsarg) /\ ~KeysCollide(x.keys, CsOfArg(U, x.nsarg))
      [] a = "CMClone"         -> HasMat(U, x.m) /\ NsArgOk(U, x.nsarg)
      [] a = "DSRead"          -> NsArgOk(U, x.nsarg) /\
                                  SrcOk(x.src, IF U.ds.att # 0 THEN U.ns[U.ds.att].cs ELSE CsOfArg(U, x.nsarg))
      [] a = "DSReadBlocks"    -> NsArgOk(U, x.nsarg) /\ \A i \in 1..Len(x.blocks) :
                                      /\ x.blocks[i].trees # <<>>
                                      /\ SrcOk([taxa |-> x.blocks[i].taxa, rows |-> <<>>, trees |-> x.blocks[i].trees],
                                               IF U.ds.att # 0 THEN U.ns[U.ds.att].cs ELSE CsOfArg(U, x.nsarg))
      [] a = "DSAddList"       -> HasList(U, x.l)
      [] a = "DSAddMat"        -> HasMat(U, x.m)
      [] a = "DSNewList"       -> NsArgOk(U, x.nsarg)
      [] a = "DSNewMat"        -> NsArgOk(U, x.nsarg)
      \* attach_taxon_namespace only binds later reads: it is called when the components already use n
      [] a = "DSAttach"        -> HasNs(U, x.n) /\ (\A i \in 1..Len(U.ds.lists) : U.lists[U.ds.lists[i]].ns = x.n)
                                               /\ (\A i \in 1..Len(U.ds.mats) : U.mats[U.ds.mats[i]].ns = x.n)
      [] a = "DSDetach"        -> TRUE
      \* a label collision inside a matrix makes unification impossible (documented error): not unified
      [] a = "DSUnify"         -> NsArgOk(U, x.nsarg) /\ (x.nsarg # 0 \/ U.ds.lists # <<>> \/ U.ds.mats # <<>>)
                                  /\ (\A i \in 1..Len(U.ds.lists) : Exclusive(U, U.ds.lists[i]))
                                  /\ (\A i \in 1..Len(U.ds.mats) : ~Collides(U, U.mats[U.ds.mats[i]].rows, CsOfArg(U, x.nsarg)))
      [] OTHER -> FALSE

Apply(U, a, x) ==
    CASE a = "TLAppend"        -> OpTLAppend(U, x.l, x.t, x.strat)
      [] a = "TLInsert"        -> OpTLInsert(U, x.l, x.i, x.t, x.strat)
      [] a = "TLExtendList"    -> OpTLExtendList(U, x.l, x.l2)
      [] a = "TLExtendTrees"   -> OpTLExtendTrees(U, x.l, x.ts)
      [] a = "TLAddList"       -> OpTLAddList(U, x.l, x.l2)
      [] a = "TLAddTrees"      -> OpTLAddTrees(U, x.l, x.ts)
      [] a = "TLSetItem"       -> OpTLSetItem(U, x.l, x.i, x.t)
      [] a = "TLSetSliceList"  -> OpTLSetSliceList(U, x.l, x.lo, x.hi, x.l2)
      [] a = "TLSetSliceTrees" -> OpTLSetSliceTrees(U, x.l, x.lo, x.hi, x.ts)
      [] a = "TLGetSlice"      -> OpTLGetSlice(U, x.l, x.lo, x.hi)
      [] a = "TLRemoveAt"      -> OpTLRemoveAt(U, x.l, x.i, x.how)
      [] a = "TLClear"         -> OpTLClear(U, x.l)
      [] a = "TLNewTree"       -> OpTLNewTree(U, x.l, x.nsarg)
      [] a = "TLRead"          -> OpTLRead(U, x.l, x.srcs)
      [] a = "TLCtorList"      -> OpTLCtorList(U, x.l, x.nsarg)
      [] a = "TLCtorTrees"     -> OpTLCtorTrees(U, x.ts, x.nsarg)
      [] a = "TLMigrate"       -> OpTLMigrate(U, x.l, x.n, x.unify)
      [] a = "TLReconstruct"   -> OpTLReconstruct(U, x.l, x.unify)
      [] a = "TLClearReconstruct" -> OpTLClearReconstruct(U, x.l, x.unify)
      [] a = "TLUpdate"        -> OpTLUpdate(U, x.l)
      [] a = "TreeMigrate"     -> OpTreeMigrate(U, x.t, x.n, x.unify)
      [] a = "TreeClone"       -> OpTreeClone(U, x.t, x.nsarg)
      [] a = "TLAppendMemo"    -> OpTLAppendMemo(U, x.l, x.t, x.how, x.k)
      [] a = "TLMigrateMemo"   -> OpTLMigrateMemo(U, x.l, x.n, x.k)
      [] a = "TreeMigrateMemo" -> OpTreeMigrateMemo(U, x.t, x.n, x.k)
      [] a = "CMMigrateMemo"   -> OpCMMigrateMemo(U, x.m, x.n, x.k)
      [] a = "TLNewTreeSeed"   -> OpTLNewTreeSeed(U, x.l, x.refs, x.labs)
      [] a = "TreeFromSeed"    -> OpTreeFromSeed(U, x.nsarg, x.refs, x.labs)
      [] a = "TAAdd"           -> OpTAAdd(U, x.a, x.t)
      [] a = "TARead"          -> OpTARead(U, x.a, x.srcs)
      [] a = "CMNewSeq"        -> OpCMNewSeq(U, x.m, x.t)
      [] a = "CMSetItem"       -> OpCMSetItem(U, x.m, x.t)
      [] a = "CMGetTaxon"      -> OpCMGetTaxon(U, x.m, x.t)
      [] a = "CMGetLabel"      -> OpCMGetLabel(U, x.m, x.lab)
      [] a = "CMGetIndex"      -> OpCMGetIndex(U, x.m, x.i)
      [] a = "CMMigrate"       -> OpCMMigrate(U, x.m, x.n, x.unify)
      [] a = "CMReconstruct"   -> OpCMReconstruct(U, x.m, x.unify)
      [] a = "CMClearReconstruct" -> OpCMClearReconstruct(U, x.m, x.unify)
      [] a = "CMUpdate"        -> OpCMUpdate(U, x.m)
      [] a = "CMFromDict"      -> OpCMFromDict(U, x.keys, x.nsarg)
      [] a = "CMClone"         -> OpCMClone(U, x.m, x.nsarg)
      [] a = "DSRead"          -> OpDSRead(U, x.src, x.nsarg)
      [] a = "DSReadBlocks"    -> OpDSReadBlocks(U, x.blocks, x.nsarg)
      [] a = "DSAddList"       -> OpDSAddList(U, x.l)
      [] a = "DSAddMat"        -> OpDSAddMat(U, x.m)
      [] a = "DSNewList"       -> OpDSNewList(U, x.nsarg)
      [] a = "DSNewMat"        -> OpDSNewMat(U, x.nsarg)
      [] a = "DSAttach"        -> OpDSAttach(U, x.n)
      [] a = "DSDetach"        -> OpDSDetach(U)
      [] a = "DSUnify"         -> OpDSUnify(U, x.nsarg)

\* ------------------------------------------------------------ which references an operation moved
\* (from the pre universe P, the arguments and the post universe Q only; total on any Q)
TreesAt(Q, l, from, cnt) == IF HasList(Q, l) THEN SubSeq(Q.lists[l].trees, from, from + cnt - 1) ELSE <<>>
Foreign(P, ts, Y) == SelectSeq(ts, LAMBDA t : P.trees[t].ns # Y)
Native(P, ts, Y) == SelectSeq(ts, LAMBDA t : P.trees[t].ns = Y)
MvTrees(P, Q, Y, mode, ots, nts) == Mv(Y, mode, LabsOf(P, RefsOf(P, ots)), RefsOf(P, ots), RefsOf(Q, nts), TRUE)
\* in-place import of the trees ts into Y (default strategy): the foreign ones by label, the others untouched
MvImport(P, Q, Y, ts, strat) == <<MvTrees(P, Q, Y, IF strat = "migrate" THEN "bylabel" ELSE "same", Foreign(P, ts, Y), Foreign(P, ts, Y)),
                                   MvTrees(P, Q, Y, "same", Native(P, ts, Y), Native(P, ts, Y))>>
MvClones(P, Q, Y, srcns, ots, nts) == <<MvTrees(P, Q, Y, IF srcns = Y THEN "same" ELSE "bylabel", ots, nts)>>
MvSrc(P, Q, Y, srcs, nts) == <<Mv(Y, "bylabel", Concat(srcs), [i \in 1..Len(Concat(srcs)) |-> 0], RefsOf(Q, nts), TRUE)>>
MvRows(P, Q, Y, mode, orows, nrows) == <<Mv(Y, mode, LabsOf(P, orows), orows, nrows, FALSE)>>
\* with an explicit memo: the references the memo already knew must land on its counterparts (whatever their labels:
\* documented precedence), the others are unified by label
PickSeq(q, I) == LET ix == SelectIdx(q, LAMBDA i : i \in I) IN [j \in 1..Len(ix) |-> q[ix[j]]]
MvMemo(P, Q, Y, mm, ots, nts) ==
    LET old == RefsOf(P, ots)  new == RefsOf(Q, nts) IN
    IF Len(old) # Len(new) THEN <<Mv(Y, "bylabel", LabsOf(P, old), old, new, TRUE)>>
    ELSE LET hit == {i \in 1..Len(old) : MHas(mm, old[i])}
             rest == (1..Len(old)) \ hit
             oh == PickSeq(old, hit)
         IN <<Mv(Y, "same", LabsOf(P, oh), [j \in 1..Len(oh) |-> MGet(mm, oh[j])], PickSeq(new, hit), TRUE),
              Mv(Y, "bylabel", LabsOf(P, PickSeq(old, rest)), PickSeq(old, rest), PickSeq(new, rest), TRUE)>>
NewListId(P) == Len(P.lists) + 1
NsOfList(Q, l) == IF HasList(Q, l) THEN Q.lists[l].ns ELSE 0
RowsOf(Q, m) == IF HasMat(Q, m) THEN Q.mats[m].rows ELSE <<>>
Moves(P, a, x, Q) ==
    CASE a = "TLAppend" \/ a = "TLInsert" -> MvImport(P, Q, P.lists[x.l].ns, <<x.t>>, x.strat)
      [] a = "TLSetItem"       -> MvImport(P, Q, P.lists[x.l].ns, <<x.t>>, "migrate")
      [] a = "TLExtendTrees"   -> MvImport(P, Q, P.lists[x.l].ns, x.ts, "migrate")
      [] a = "TLSetSliceTrees" -> MvImport(P, Q, P.lists[x.l].ns, x.ts, "migrate")
      [] a = "TLAddTrees"      -> MvImport(P, Q, P.lists[x.l].ns, x.ts, "migrate")
                                  \o MvClones(P, Q, P.lists[x.l].ns, P.lists[x.l].ns, P.lists[x.l].trees,
                                              TreesAt(Q, NewListId(P), 1, Len(P.lists[x.l].trees)))
      [] a = "TLCtorTrees"     -> MvImport(P, Q, NsOfList(Q, NewListId(P)), x.ts, "migrate")
      [] a = "TLExtendList"    -> MvClones(P, Q, P.lists[x.l].ns, P.lists[x.l2].ns, P.lists[x.l2].trees,
                                           TreesAt(Q, x.l, Len(P.lists[x.l].trees) + 1, Len(P.lists[x.l2].trees)))
      [] a = "TLSetSliceList"  -> MvClones(P, Q, P.lists[x.l].ns, P.lists[x.l2].ns, P.lists[x.l2].trees,
                                           TreesAt(Q, x.l, x.lo + 1, Len(P.lists[x.l2].trees)))
      [] a = "TLAddList"       -> MvClones(P, Q, P.lists[x.l].ns, P.lists[x.l].ns, P.lists[x.l].trees,
                                           TreesAt(Q, NewListId(P), 1, Len(P.lists[x.l].trees)))
                                  \o MvClones(P, Q, P.lists[x.l].ns, P.lists[x.l2].ns, P.lists[x.l2].trees,
                                              TreesAt(Q, NewListId(P), Len(P.lists[x.l].trees) + 1, Len(P.lists[x.l2].trees)))
      [] a = "TLCtorList"      -> MvClones(P, Q, NsArg(P, x.nsarg, P.lists[x.l].ns), P.lists[x.l].ns, P.lists[x.l].trees,
                                           TreesAt(Q, NewListId(P), 1, Len(P.lists[x.l].trees)))
      [] a = "TLRead"          -> MvSrc(P, Q, P.lists[x.l].ns, x.srcs, TreesAt(Q, x.l, Len(P.lists[x.l].trees) + 1, Len(x.srcs)))
      [] a = "TLMigrate"       -> <<MvTrees(P, Q, x.n, IF x.unify THEN "bylabel" ELSE "byidentity", P.lists[x.l].trees, P.lists[x.l].trees)>>
      [] a = "TLReconstruct"   -> <<MvTrees(P, Q, P.lists[x.l].ns, IF x.unify THEN "bylabel" ELSE "byidentity", P.lists[x.l].trees, P.lists[x.l].trees)>>
      [] a = "TLClearReconstruct" -> <<MvTrees(ClearNs(P, P.lists[x.l].ns), Q, P.lists[x.l].ns, IF x.unify THEN "bylabel" ELSE "byidentity", P.lists[x.l].trees, P.lists[x.l].trees)>>
      [] a = "TLUpdate"        -> <<MvTrees(P, Q, P.lists[x.l].ns, "same", P.lists[x.l].trees, P.lists[x.l].trees)>>
      [] a = "TLGetSlice"      -> <<MvTrees(P, Q, P.lists[x.l].ns, "same", P.lists[x.l].trees, P.lists[x.l].trees)>>
      [] a = "TLRemoveAt"      -> <<MvTrees(P, Q, P.lists[x.l].ns, "same", P.lists[x.l].trees, P.lists[x.l].trees)>>
      [] a = "TreeMigrate"     -> <<MvTrees(P, Q, x.n, IF x.unify THEN "bylabel" ELSE "byidentity", <<x.t>>, <<x.t>>)>>
      [] a = "TreeClone"       -> MvClones(P, Q, NsArg(P, x.nsarg, P.trees[x.t].ns), P.trees[x.t].ns, <<x.t>>, <<Len(P.trees) + 1>>)
      [] a = "TLAppendMemo"    -> IF P.trees[x.t].ns = P.lists[x.l].ns THEN <<MvTrees(P, Q, P.lists[x.l].ns, "same", <<x.t>>, <<x.t>>)>>
                                  ELSE MvMemo(P, Q, P.lists[x.l].ns, P.memos[x.k], <<x.t>>, <<x.t>>)
      [] a = "TLMigrateMemo"   -> MvMemo(P, Q, x.n, P.memos[x.k], P.lists[x.l].trees, P.lists[x.l].trees)
      [] a = "TreeMigrateMemo" -> MvMemo(P, Q, x.n, P.memos[x.k], <<x.t>>, <<x.t>>)
      [] a = "CMMigrate"       -> MvRows(P, Q, x.n, IF x.unify THEN "bylabel" ELSE "byidentity", P.mats[x.m].rows, RowsOf(Q, x.m))
      [] a = "CMReconstruct"   -> MvRows(P, Q, P.mats[x.m].ns, IF x.unify THEN "bylabel" ELSE "byidentity", P.mats[x.m].rows, RowsOf(Q, x.m))
      [] a = "CMClearReconstruct" -> MvRows(P, Q, P.mats[x.m].ns, IF x.unify THEN "bylabel" ELSE "byidentity", P.mats[x.m].rows, RowsOf(Q, x.m))
      [] a = "CMUpdate"        -> MvRows(P, Q, P.mats[x.m].ns, "same", P.mats[x.m].rows, RowsOf(Q, x.m))
      [] a = "CMClone"         -> MvRows(P, Q, NsArg(P, x.nsarg, P.mats[x.m].ns),
                                         IF NsArg(P, x.nsarg, P.mats[x.m].ns) = P.mats[x.m].ns THEN "same" ELSE "bylabel",
                                         P.mats[x.m].rows, RowsOf(Q, Len(P.mats) + 1))
      [] a = "CMFromDict"      -> <<Mv(IF HasMat(Q, Len(P.mats) + 1) THEN Q.mats[Len(P.mats) + 1].ns ELSE 0, "bylabel",
                                       x.keys, [i \in 1..Len(x.keys) |-> 0], RowsOf(Q, Len(P.mats) + 1), FALSE)>>
      [] a = "DSRead"          -> LET Y == IF P.ds.att # 0 THEN P.ds.att ELSE NsArg(P, x.nsarg, Len(P.ns) + 1) IN
                                  (IF x.src.trees = <<>> THEN <<>> ELSE MvSrc(P, Q, Y, x.src.trees, TreesAt(Q, NewListId(P), 1, Len(x.src.trees))))
                                  \o (IF x.src.rows = <<>> THEN <<>>
                                      ELSE <<Mv(Y, "bylabel", x.src.rows, [i \in 1..Len(x.src.rows) |-> 0], RowsOf(Q, Len(P.mats) + 1), FALSE)>>)
      [] a = "DSReadBlocks"    -> LET fix == IF P.ds.att # 0 THEN P.ds.att ELSE x.nsarg IN
                                  Concat([b \in 1..Len(x.blocks) |->
                                      MvSrc(P, Q, IF fix # 0 THEN fix ELSE Len(P.ns) + b, x.blocks[b].trees,
                                            TreesAt(Q, Len(P.lists) + b, 1, Len(x.blocks[b].trees)))])
      [] a = "DSUnify"         -> LET Y == NsArg(P, x.nsarg, Len(P.ns) + 1)
                                      ts == Concat([i \in 1..Len(P.ds.lists) |-> P.lists[P.ds.lists[i]].trees])
                                  IN <<MvTrees(P, Q, Y, "bylabel", ts, ts)>>
                                     \o Concat([i \in 1..Len(P.ds.mats) |-> MvRows(P, Q, Y, "bylabel", P.mats[P.ds.mats[i]].rows, RowsOf(Q, P.ds.mats[i]))])
      [] OTHER -> <<>>
\* all failing LabelFunctional sub-clauses of one step (a set of strings; {} = holds).  An operation that raised
\* carried nothing anywhere (what it left behind is judged by Viol).
\* across everything one operation unified into Y: two distinct taxa with equal labels are in use only
\* if both were members of Y before (duplicates that existed already are not of this operation's making)
JointDup(P, Q, ms) ==
    \E i, j \in 1..Len(ms) :
        /\ ms[i].mode = "bylabel" /\ ms[j].mode = "bylabel" /\ ms[i].Y = ms[j].Y /\ HasNs(Q, ms[i].Y)
        /\ \E t1 \in SeqToSet(ms[i].new), t2 \in SeqToSet(ms[j].new) :
              /\ t1 # t2 /\ HasTax(Q, t1) /\ HasTax(Q, t2)
              /\ LabEq(Q.ns[ms[i].Y].cs, Q.labels[t1], Q.labels[t2])
              /\ ~(t1 \in NsMem(P, ms[i].Y) /\ t2 \in NsMem(P, ms[i].Y))
\* for the composite clear+reconstruct the namespace the references are carried into is the CLEARED one: what was a
\* member before clear() is not an "existing member" that label unification would have to reuse
LFPre(P, a, x) == IF a = "TLClearReconstruct" /\ HasList(P, x.l) THEN ClearNs(P, P.lists[x.l].ns)
                  ELSE IF a = "CMClearReconstruct" /\ HasMat(P, x.m) THEN ClearNs(P, P.mats[x.m].ns) ELSE P
LFAll(P0, a, x, raised, Q) ==
    IF raised # "" THEN {}
    ELSE LET P == LFPre(P0, a, x)
             ms == Moves(P0, a, x, Q) IN
         ({LFClause(P, Q, ms[i]) : i \in 1..Len(ms)} \ {""})
         \cup (IF JointDup(P, Q, ms) THEN {"equal-labels-duplicated-across-members"} ELSE {})
\* TreeArray keeps no tree objects: its closure is decided when a tree is accessioned
ArrayAcceptedForeign(a, x, raised, Q) ==
    a = "TAAdd" /\ raised = "" /\ HasArr(Q, x.a) /\ HasTree(Q, x.t) /\ Q.trees[x.t].ns # Q.arrs[x.a].ns
=============================================================================
