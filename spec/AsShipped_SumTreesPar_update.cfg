SPECIFICATION Spec
CONSTANTS
  MaxFiles = 2
  MaxWorkers = 3
  FileSizes = {1}
  ShippedUpdate = TRUE
  Protocol = "nowait"
  AsyncFeeder = FALSE
  Rootings <- RootingsUnrooted
INVARIANT NoMergeFailure
CHECK_DEADLOCK FALSE
