SPECIFICATION Spec
CONSTANTS
  Inputs <- StringSimInputs
  GenEdits <- StringGenEdits
  Shipped = {}
  GenSteps = 6
  Quick = FALSE
  PumpK = 3
  MaxSpan = 8
INVARIANTS OutcomeDocumented DimsConsistent TokDepthBounded TreeDepthIsNesting
PROPERTY Termination
CHECK_DEADLOCK FALSE
