----------------------------- MODULE Trace_Fitch -----------------------------
(***************************************************************************)
(* C16 trace validation.  Every logged real call of parsimony_score /      *)
(* fitch_down_pass is judged by TLC against the definitions of Fitch.tla   *)
(* evaluated on the logged (projected) tree and matrix: the expected score *)
(* is MinCost (brute force), never a value computed by the driver.         *)
(*                                                                         *)
(* Events (flat JSON, see harness/props/C16.py):                           *)
(*  Table  one input of the TLC-enumerated domain (or a random instance):  *)
(*         g, m, calls = <<[api, gm, w, bylist, score, bychar, raised]>>,  *)
(*         every call made on a fresh tree                                 *)
(*  Score  one call inside a history on ONE tree object: g (graph form),   *)
(*         nid (persistent node identities), pre / post (node.state_sets   *)
(*         per node before / after), m, gm, w, bylist, api, score, bychar, *)
(*         raised, and fresh = the same call on a freshly built copy       *)
(*  Move   Reroot / RerootNode / Rotate / Prune / UpPass between calls: g, nid, pre (before),   *)
(*         g2, nid2, post (after); no property clause, only the chain      *)
(*  Pass   fitch_down_pass / fitch_up_pass called directly with ONE shared *)
(*         taxon_state_sets_map on several trees: kind, g, m, gm, mp_pre,  *)
(*         mp_post (+ w, bylist, score, bychar, raised for a down pass)    *)
(* A matrix is logged as symbols: [type, fund, gap, missing, amb, rows];   *)
(* for type "dna" the IUPAC table below (the documented meaning of the     *)
(* codes) is used, for "standard" the alphabet the driver defined.         *)
(*                                                                         *)
(* Clauses (the property statement):                                       *)
(*  C16.Minimal           score = sum_j w_j * MinCost(column j)            *)
(*  C16.PerCharacter      score_by_character_list[j] = w_j * MinCost(col j)*)
(*  C16.PerCharacterSum   the list adds up to the returned total           *)
(*  C16.Pure              same value as the same call on a fresh copy      *)
(*  C16.RootInvariant     fresh copies of two rootings / child orders of   *)
(*                        the same unrooted tree score the same            *)
(* A rooting is a bifurcating seed node or a trifurcating one (the unrooted *)
(* form of a fully bifurcating tree); the matrix may have rows for taxa    *)
(* that are not on the tree (the minimum is over the tree's leaves).       *)
(* class = call site and input shape (api, gap treatment, state of the     *)
(* cache the call found on the leaves).  Verdicts whose clause starts with *)
(* "drift." are counted by the driver and never fail a check.              *)
(***************************************************************************)
EXTENDS Fitch, Json, IOUtils
Tr == ndJsonDeserialize(IOEnv.TRACE_FILE)
VARIABLES l, bad
V(c, k) == <<[clause |-> c, class |-> k]>>
None == <<>>

\* ------------------------------------------------------------------ alphabets
DnaAlpha == [fund |-> <<"A", "C", "G", "T">>, gap |-> "-", missing |-> "?",
             amb |-> <<[sym |-> "N", mem |-> <<"A", "C", "G", "T">>], [sym |-> "X", mem |-> <<"A", "C", "G", "T">>],
                       [sym |-> "R", mem |-> <<"A", "G">>], [sym |-> "Y", mem |-> <<"C", "T">>],
                       [sym |-> "M", mem |-> <<"A", "C">>], [sym |-> "W", mem |-> <<"A", "T">>],
                       [sym |-> "S", mem |-> <<"C", "G">>], [sym |-> "K", mem |-> <<"G", "T">>],
                       [sym |-> "V", mem |-> <<"A", "C", "G">>], [sym |-> "H", mem |-> <<"A", "C", "T">>],
                       [sym |-> "D", mem |-> <<"A", "G", "T">>], [sym |-> "B", mem |-> <<"C", "G", "T">>]>>]
\* a polymorphic cell "(01)" is a state set exactly like an ambiguity code "{01}" (DendroPy's taxon_state_sets_map
\* gives both as the set of their fundamental states); for DNA the driver may define such extra multistate codes
AlphaOf(m) == IF m.type = "dna" THEN [DnaAlpha EXCEPT !.amb = @ \o [i \in 1..Len(m.amb) |-> [sym |-> m.amb[i].sym, mem |-> m.amb[i].mem]]]
              ELSE [fund |-> m.fund, gap |-> m.gap, missing |-> m.missing, amb |-> m.amb]
FundIx(al, s) == (CHOOSE i \in 1..Len(al.fund) : al.fund[i] = s) - 1
IsFund(al, s) == \E i \in 1..Len(al.fund) : al.fund[i] = s
\* symbol -> cell (set of state indices; gap = K); {} = unknown symbol
SymCell(al, s) ==
    LET Kk == Len(al.fund) IN
    IF s = al.gap THEN {Kk}
    ELSE IF s = al.missing THEN 0..Kk
    ELSE IF IsFund(al, s) THEN {FundIx(al, s)}
    ELSE IF \E i \in 1..Len(al.amb) : al.amb[i].sym = s
      THEN LET a == al.amb[CHOOSE i \in 1..Len(al.amb) : al.amb[i].sym = s]
           IN {FundIx(al, a.mem[i]) : i \in {i \in 1..Len(a.mem) : IsFund(al, a.mem[i])}}
    ELSE {}
AbsMatrix(m) == LET al == AlphaOf(m) IN
    TLCEval([k |-> Len(al.fund), rows |-> [t \in 1..Len(m.rows) |-> TLCEval([j \in 1..Len(m.rows[t]) |-> SymCell(al, m.rows[t][j])])]])
CacheOf(c) == TLCEval([x \in 1..Len(c) |-> TLCEval([j \in 1..Len(c[x]) |-> SeqToSet(c[x][j])])])

\* ------------------------------------------------------------------ expected values
\* brute force over the whole alphabet on small trees; on larger ones over the states that occur
\* in the column (lemma ThmUsedStates of MC_Fitch)
RECURSIVE Pow(_, _)
Pow(b, e) == IF e = 0 THEN 1 ELSE IF b = 0 THEN 0 ELSE LET q == Pow(b, e - 1) IN IF q > 200000 THEN q ELSE b * q
JudgeStates(g, col, S) == IF g.n <= 9 THEN S ELSE UsedStates(g, col)
Tractable(g, m, gm) == \A j \in 1..NChar(m) :
    Pow(Cardinality(JudgeStates(g, Col(m, j, gm), Universe(m, gm))), Cardinality(Internals(g))) <= 70000
MinJudge(g, m, gm) == TLCEval([j \in 1..NChar(m) |-> MinCost(g, Col(m, j, gm), JudgeStates(g, Col(m, j, gm), Universe(m, gm)))])
InputClass(g, m, w) ==
    IF TreeClass(g) # "ok" THEN TreeClass(g)
    ELSE IF ~MatrixFits(g, m) \/ NChar(m) = 0 THEN "matrix_does_not_fit"
    ELSE IF w # <<>> /\ Len(w) # NChar(m) THEN "weights_length"
    ELSE "ok"
GapName(gm) == IF gm THEN "gaps_missing" ELSE "gaps_as_state"

\* verdicts for one returned (score, bychar) against the expected per-character values
Against(exp, c, cls) ==
    IF c.raised # "" THEN V("C16.Minimal", cls \o ":raised:" \o c.raised)
    ELSE (IF c.score # SumSeq(exp) THEN V("C16.Minimal", cls) ELSE None)
      \o (IF c.bylist /\ c.bychar # exp THEN V("C16.PerCharacter", cls) ELSE None)
      \o (IF c.bylist /\ SumSeq(c.bychar) # c.score THEN V("C16.PerCharacterSum", cls) ELSE None)

\* ------------------------------------------------------------------ Table
RootSuffix(g) == IF Len(g.kids[g.seed]) = 3 THEN ":basal_trifurcation" ELSE ""
JudgeTable(e) ==
    LET g == e.g  m == AbsMatrix(e.m) IN
    IF InputClass(g, m, <<>>) # "ok" THEN V("drift.Precondition", InputClass(g, m, <<>>))
    ELSE IF ~(Tractable(g, m, TRUE) /\ Tractable(g, m, FALSE)) THEN V("drift.TooLargeToJudge", "table")
    ELSE LET mcT == MinJudge(g, m, TRUE)  mcF == MinJudge(g, m, FALSE) IN
         Flatten([i \in 1..Len(e.calls) |->
            LET c == e.calls[i] IN
            IF c.w # <<>> /\ Len(c.w) # NChar(m) THEN V("drift.Precondition", "weights_length")
            ELSE Against(Weighted(IF c.gm THEN mcT ELSE mcF, c.w), c, "fresh:" \o c.api \o ":" \o GapName(c.gm) \o RootSuffix(g))])

\* ------------------------------------------------------------------ Score (inside a history)
LeafCacheClass(g, cache, m, gm) ==
    IF \A x \in Leaves(g) : cache[x] = <<>> THEN "fresh"
    ELSE IF StaleLeaves(g, cache, m, gm) = {} THEN "rescored_same_data"
    ELSE "stale_leaf_cache"
SameResult(c, r) == c.score = r.score /\ (c.bylist => c.bychar = r.bychar)
JudgeScore(e) ==
    LET g == e.g  m == AbsMatrix(e.m)  ic == InputClass(g, m, e.w) IN
    IF ic # "ok" THEN V("drift.Precondition", ic)
    ELSE IF ~Tractable(g, m, e.gm) THEN V("drift.TooLargeToJudge", "score")
    ELSE LET cache == IF e.attr = "" THEN NoCache(g) ELSE CacheOf(e.pre)
             lc == LeafCacheClass(g, cache, m, e.gm)
             shipped == ScoreOp(g, cache, m, e.w, e.gm, TRUE)
             cls == IF lc # "stale_leaf_cache" THEN lc \o ":" \o e.api \o ":" \o GapName(e.gm) \o RootSuffix(g)
                    ELSE IF e.raised # "" THEN lc
                    ELSE IF SameResult(e, shipped) THEN lc \o ":score_of_cached_sets"
                    ELSE lc \o ":other:" \o e.api
             exp == Weighted(MinJudge(g, m, e.gm), e.w)
             f == e.fresh
         IN Against(exp, e, cls)
            \o (IF f.raised # e.raised \/ (e.raised = "" /\ ~(f.score = e.score /\ (e.bylist => f.bychar = e.bychar)))
                  THEN V("C16.Pure", cls \o (IF e.raised # "" THEN ":raised:" \o e.raised ELSE "")) ELSE None)
            \o Against(exp, [f EXCEPT !.bylist = e.bylist], "freshcopy:" \o e.api \o ":" \o GapName(e.gm) \o RootSuffix(g))
            \o (IF e.attr # "" /\ e.raised = "" /\ CacheOf(e.post) # CacheAfter(g, cache, m, e.gm, FALSE)
                  THEN V("drift.CacheAfter", lc) ELSE None)

\* ------------------------------------------------------------------ Pass: the pass functions used directly
\* one taxon_state_sets_map object handed to fitch_down_pass / fitch_up_pass on several trees in sequence;
\* mp_pre / mp_post = the contents of that map before / after the call (taxon code -> state sets)
MapSeq(mp) == TLCEval([t \in 1..Len(mp) |-> TLCEval([j \in 1..Len(mp[t]) |-> SeqToSet(mp[t][j])])])
JudgePass(i) ==
    LET e == Tr[i]  g == e.g  m == AbsMatrix(e.m) IN
    (IF e.mp_post # e.mp_pre THEN V("C16.Pure", "map_changed_by:" \o e.kind) ELSE None)
    \o (IF i > 1 /\ Tr[i - 1].tid = e.tid /\ Tr[i - 1].action = "Pass" /\ Tr[i - 1].gm = e.gm /\ Tr[i - 1].mp_post # e.mp_pre
          THEN V("drift.Chain", "map changed between logged calls") ELSE None)
    \o (IF e.kind # "down_pass" THEN None
        ELSE IF InputClass(g, m, e.w) # "ok" THEN V("drift.Precondition", InputClass(g, m, e.w))
        ELSE IF ~Tractable(g, m, e.gm) THEN V("drift.TooLargeToJudge", "pass")
        ELSE LET intact == MapSeq(e.mp_pre) = MapOf(m, e.gm)
                 cls == "shared_map:" \o (IF intact THEN "intact" ELSE "altered") \o ":" \o GapName(e.gm) \o RootSuffix(g)
             IN Against(Weighted(MinJudge(g, m, e.gm), e.w), e, cls))   \* the minimum for the ORIGINAL data

\* two fresh-copy scores of the same data on two rootings / child orders of one unrooted tree
RootInv(i) ==
    LET e == Tr[i]
        ks == {k \in (IF i > 12 THEN i - 12 ELSE 1)..(i - 1) :
                 /\ Tr[k].tid = e.tid /\ Tr[k].action = "Score"
                 /\ Tr[k].m = e.m /\ Tr[k].w = e.w /\ Tr[k].gm = e.gm /\ Tr[k].bylist = e.bylist
                 /\ TreeClass(Tr[k].g) = "ok" /\ SameUnrootedTree(Tr[k].g, e.g)}
    IN IF e.action # "Score" \/ TreeClass(e.g) # "ok" \/ ks = {} THEN None
       ELSE LET k == Max(ks)  a == Tr[k].fresh  b == e.fresh IN
            IF a.raised = b.raised /\ a.score = b.score /\ a.bychar = b.bychar THEN None
            ELSE V("C16.RootInvariant", IF Canon(Tr[k].g, Tr[k].g.seed) = Canon(e.g, e.g.seed) THEN "child_order" ELSE "root_position")

\* ------------------------------------------------------------------ chain: what a call finds is what the previous left
ById(nid, c) == {<<nid[x], c[x]>> : x \in 1..Len(nid)}
PostOf(e) == IF e.action = "Move" THEN ById(e.nid2, e.post) ELSE ById(e.nid, e.post)
Chain(i) ==
    LET e == Tr[i] IN
    IF i = 1 \/ e.action = "Table" THEN None
    ELSE LET q == Tr[i - 1] IN
         IF q.tid # e.tid \/ q.action \in {"Table", "Pass"} \/ q.attr # e.attr THEN None
         ELSE LET before == ById(e.nid, e.pre)  after == PostOf(q)
                  common == {a[1] : a \in before} \cap {a[1] : a \in after}
              IN IF {a \in before : a[1] \in common} = {a \in after : a[1] \in common} THEN None
                 ELSE V("drift.Chain", "node state changed between logged calls")

Judge(i) ==
    LET e == Tr[i] IN
    CASE e.action = "Table" -> JudgeTable(e)
      [] e.action = "Score" -> Chain(i) \o JudgeScore(e) \o RootInv(i)
      [] e.action = "Pass" -> JudgePass(i)
      [] e.action = "Move" -> Chain(i)
           \o (IF e.kind # "Prune" /\ TreeClass(e.g) = "ok" /\ TreeClass(e.g2) = "ok" /\ ~SameUnrootedTree(e.g, e.g2)
                 THEN V("drift.MoveChangedTree", e.kind) ELSE None)

Init == l = 1 /\ bad = <<>>
Next == /\ l <= Len(Tr)
        /\ LET v == Judge(l) IN
             bad' = bad \o [k \in 1..Len(v) |-> [i |-> l, clause |-> v[k].clause, class |-> v[k].class]]
        /\ l' = l + 1
Spec == Init /\ [][Next]_<<l, bad>>
Done == l = Len(Tr) + 1 => JsonSerialize(IOEnv.OUT_FILE, [n |-> Len(Tr), bad |-> bad])
Accepted == TLCGet("stats").diameter - 1 = Len(Tr)
=============================================================================
