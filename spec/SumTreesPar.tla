---------------------------- MODULE SumTreesPar ----------------------------
(***************************************************************************)
(* C06, concurrent part: the SumTrees parallel collation                   *)
(* (dendropy/application/sumtrees.py, TreeProcessor.parallel_analyze_trees *)
(* and TreeAnalysisWorker.run) as a PlusCal algorithm.                     *)
(*                                                                         *)
(* Main puts the F file names on the work queue, starts W workers one by   *)
(* one and then collects W results, merging each into the master array     *)
(* with TreeArray.update.  A worker polls the work queue until it finds it *)
(* empty, reads every file it obtained into its local array and finally    *)
(* sends that array.  The Feeder process is the feeder thread of           *)
(* multiprocessing.Queue: an object that was put() becomes visible to      *)
(* get / get_nowait only after a separate flush step (AsyncFeeder).        *)
(*                                                                         *)
(* Arrays are abstracted to the sequence of tree ids they hold plus the    *)
(* rooting flag; MC_TreeArrayMerge establishes that the summary of an      *)
(* array is a function of its bag of trees.  The compatibility rule and    *)
(* the rooting of a merge are the operators of TreeArrayMerge.             *)
(*                                                                         *)
(* Protocol = "nowait"    the shipped work distribution (get_nowait until  *)
(*                        Empty)                                           *)
(*          = "sentinel"  the repaired one: Main also puts one sentinel    *)
(*                        per worker, workers use a blocking get and stop  *)
(*                        at a sentinel                                    *)
(* ShippedUpdate          the shipped update() rule (an empty operand with *)
(*                        undefined rooting is rejected by a non-empty     *)
(*                        master)                                          *)
(* Translate with `pcal -nocfg SumTreesPar.tla`.                           *)
(***************************************************************************)
EXTENDS TreeArrayMerge
CONSTANTS MaxFiles, MaxWorkers, FileSizes, Rootings, ShippedUpdate, Protocol, AsyncFeeder
Workers == 1..MaxWorkers
\* a run configuration: F files, the number of trees each contributes (after burn-in), W workers,
\* the rooting r of all trees (0 / 1: rooting token in the file; -1: none) and whether SumTrees was
\* told the rooting (--rooted / --unrooted) or left to take it from the trees
Configs == {c \in [F : 1..MaxFiles, W : 1..MaxWorkers, r : Rootings, explicit : BOOLEAN, size : [1..MaxFiles -> FileSizes \cup {0}]] :
               /\ \A f \in 1..MaxFiles : IF f > c.F THEN c.size[f] = 0 ELSE c.size[f] \in FileSizes
               /\ (c.r = -1 => ~c.explicit)}
\* tree ids: file f holds trees <<f, 1>> .. <<f, size[f]>>
TreesOf(c, f) == [i \in 1..c.size[f] |-> <<f, i>>]
AllTrees(c) == Flatten([f \in 1..c.F |-> TreesOf(c, f)])
\* light arrays: only what the compatibility rule looks at (IsEmpty reads `splits`)
Arr(trees, rooting) == [trees |-> trees, splits |-> trees, rooting |-> rooting, set |-> 0]
NewArr(c) == Arr(<<>>, IF c.explicit THEN c.r ELSE -1)
ReadInto(a, c, f) == IF c.size[f] = 0 THEN a ELSE Arr(a.trees \o TreesOf(c, f), c.r)     \* validate_rooting on the first tree
Rule == IF ShippedUpdate THEN "update_shipped" ELSE "intended"
UpdateOk(a, b) == Compatible(a, b, Rule)
Updated(a, b) == Arr(a.trees \o b.trees, MergedRooting(a, b))
Sentinel == 0

(* --algorithm SumTreesPar
variables
  cfg \in Configs,
  buffer = <<>>,        \* put() on the work queue, not yet flushed by the feeder thread
  pipe = <<>>,          \* work queue as get / get_nowait see it
  results = <<>>,       \* results queue in arrival order: [w, arr]
  master = NewArr(cfg),
  failed = FALSE,       \* the collation raised
  nput = 0, nsent = 0, started = 0, result_count = 0,
  taken = {},           \* files obtained by some worker
  collected = {};       \* workers whose result was merged

define
  Active == 1..cfg.W
end define;

\* every label is exactly one operation of the real code on a queue / one Process.start(), so that a
\* behaviour is a schedule the baton scheduler of the harness can replay step by step
fair process Main = 0
begin
  Put:    nput := nput + 1;                                   \* work_queue.put(f)
          if AsyncFeeder then buffer := Append(buffer, nput) else pipe := Append(pipe, nput) end if;
          if nput < cfg.F then goto Put elsif Protocol = "sentinel" then goto PutEnd else goto Launch end if;
  PutEnd: nsent := nsent + 1;                                 \* repaired protocol: one sentinel per worker
          if AsyncFeeder then buffer := Append(buffer, Sentinel) else pipe := Append(pipe, Sentinel) end if;
          if nsent < cfg.W then goto PutEnd end if;
  Launch: started := started + 1;                             \* tree_analysis_worker.start()
          if started < cfg.W then goto Launch end if;
  Coll:   await results # <<>>;                               \* results_queue.get(); master_tree_array.update(result)
          if UpdateOk(master, Head(results).arr) then
            master := Updated(master, Head(results).arr);
            collected := collected \cup {Head(results).w};
            result_count := result_count + 1;
          else
            failed := TRUE;
          end if;
          results := Tail(results);
          if result_count < cfg.W /\ ~failed then goto Coll end if;
end process;

fair process Feeder = 100
begin
  Flush: while TRUE do                                        \* the feeder thread of the work queue
           await buffer # <<>>;
           pipe := Append(pipe, Head(buffer));
           buffer := Tail(buffer);
         end while;
end process;

fair process Worker \in Workers
variables local = NewArr(cfg), task = Sentinel;
begin
  Get:  await self <= started;                                \* work_queue.get_nowait() / get(), then the file is read
        if Protocol = "nowait" then
          if pipe = <<>> then
            goto Send;
          else
            task := Head(pipe); pipe := Tail(pipe); taken := taken \cup {task};
            local := ReadInto(local, cfg, task);
            goto Get;
          end if;
        else
          await pipe # <<>>;
          task := Head(pipe); pipe := Tail(pipe);
          if task = Sentinel then
            goto Send;
          else
            taken := taken \cup {task};
            local := ReadInto(local, cfg, task);
            goto Get;
          end if;
        end if;
  Send: results := Append(results, [w |-> self, arr |-> local]);   \* results_queue.put(self.tree_array)
end process;
end algorithm; *)
\* BEGIN TRANSLATION (chksum(pcal) = "fdcb9e37" /\ chksum(tla) = "182bc947")
VARIABLES pc, cfg, buffer, pipe, results, master, failed, nput, nsent, 
          started, result_count, taken, collected

(* define statement *)
Active == 1..cfg.W

VARIABLES local, task

vars == << pc, cfg, buffer, pipe, results, master, failed, nput, nsent, 
           started, result_count, taken, collected, local, task >>

ProcSet == {0} \cup {100} \cup (Workers)

Init == (* Global variables *)
        /\ cfg \in Configs
        /\ buffer = <<>>
        /\ pipe = <<>>
        /\ results = <<>>
        /\ master = NewArr(cfg)
        /\ failed = FALSE
        /\ nput = 0
        /\ nsent = 0
        /\ started = 0
        /\ result_count = 0
        /\ taken = {}
        /\ collected = {}
        (* Process Worker *)
        /\ local = [self \in Workers |-> NewArr(cfg)]
        /\ task = [self \in Workers |-> Sentinel]
        /\ pc = [self \in ProcSet |-> CASE self = 0 -> "Put"
                                        [] self = 100 -> "Flush"
                                        [] self \in Workers -> "Get"]

Put == /\ pc[0] = "Put"
       /\ nput' = nput + 1
       /\ IF AsyncFeeder
             THEN /\ buffer' = Append(buffer, nput')
                  /\ pipe' = pipe
             ELSE /\ pipe' = Append(pipe, nput')
                  /\ UNCHANGED buffer
       /\ IF nput' < cfg.F
             THEN /\ pc' = [pc EXCEPT ![0] = "Put"]
             ELSE /\ IF Protocol = "sentinel"
                        THEN /\ pc' = [pc EXCEPT ![0] = "PutEnd"]
                        ELSE /\ pc' = [pc EXCEPT ![0] = "Launch"]
       /\ UNCHANGED << cfg, results, master, failed, nsent, started, 
                       result_count, taken, collected, local, task >>

PutEnd == /\ pc[0] = "PutEnd"
          /\ nsent' = nsent + 1
          /\ IF AsyncFeeder
                THEN /\ buffer' = Append(buffer, Sentinel)
                     /\ pipe' = pipe
                ELSE /\ pipe' = Append(pipe, Sentinel)
                     /\ UNCHANGED buffer
          /\ IF nsent' < cfg.W
                THEN /\ pc' = [pc EXCEPT ![0] = "PutEnd"]
                ELSE /\ pc' = [pc EXCEPT ![0] = "Launch"]
          /\ UNCHANGED << cfg, results, master, failed, nput, started, 
                          result_count, taken, collected, local, task >>

Launch == /\ pc[0] = "Launch"
          /\ started' = started + 1
          /\ IF started' < cfg.W
                THEN /\ pc' = [pc EXCEPT ![0] = "Launch"]
                ELSE /\ pc' = [pc EXCEPT ![0] = "Coll"]
          /\ UNCHANGED << cfg, buffer, pipe, results, master, failed, nput, 
                          nsent, result_count, taken, collected, local, task >>

Coll == /\ pc[0] = "Coll"
        /\ results # <<>>
        /\ IF UpdateOk(master, Head(results).arr)
              THEN /\ master' = Updated(master, Head(results).arr)
                   /\ collected' = (collected \cup {Head(results).w})
                   /\ result_count' = result_count + 1
                   /\ UNCHANGED failed
              ELSE /\ failed' = TRUE
                   /\ UNCHANGED << master, result_count, collected >>
        /\ results' = Tail(results)
        /\ IF result_count' < cfg.W /\ ~failed'
              THEN /\ pc' = [pc EXCEPT ![0] = "Coll"]
              ELSE /\ pc' = [pc EXCEPT ![0] = "Done"]
        /\ UNCHANGED << cfg, buffer, pipe, nput, nsent, started, taken, local, 
                        task >>

Main == Put \/ PutEnd \/ Launch \/ Coll

Flush == /\ pc[100] = "Flush"
         /\ buffer # <<>>
         /\ pipe' = Append(pipe, Head(buffer))
         /\ buffer' = Tail(buffer)
         /\ pc' = [pc EXCEPT ![100] = "Flush"]
         /\ UNCHANGED << cfg, results, master, failed, nput, nsent, started, 
                         result_count, taken, collected, local, task >>

Feeder == Flush

Get(self) == /\ pc[self] = "Get"
             /\ self <= started
             /\ IF Protocol = "nowait"
                   THEN /\ IF pipe = <<>>
                              THEN /\ pc' = [pc EXCEPT ![self] = "Send"]
                                   /\ UNCHANGED << pipe, taken, local, task >>
                              ELSE /\ task' = [task EXCEPT ![self] = Head(pipe)]
                                   /\ pipe' = Tail(pipe)
                                   /\ taken' = (taken \cup {task'[self]})
                                   /\ local' = [local EXCEPT ![self] = ReadInto(local[self], cfg, task'[self])]
                                   /\ pc' = [pc EXCEPT ![self] = "Get"]
                   ELSE /\ pipe # <<>>
                        /\ task' = [task EXCEPT ![self] = Head(pipe)]
                        /\ pipe' = Tail(pipe)
                        /\ IF task'[self] = Sentinel
                              THEN /\ pc' = [pc EXCEPT ![self] = "Send"]
                                   /\ UNCHANGED << taken, local >>
                              ELSE /\ taken' = (taken \cup {task'[self]})
                                   /\ local' = [local EXCEPT ![self] = ReadInto(local[self], cfg, task'[self])]
                                   /\ pc' = [pc EXCEPT ![self] = "Get"]
             /\ UNCHANGED << cfg, buffer, results, master, failed, nput, nsent, 
                             started, result_count, collected >>

Send(self) == /\ pc[self] = "Send"
              /\ results' = Append(results, [w |-> self, arr |-> local[self]])
              /\ pc' = [pc EXCEPT ![self] = "Done"]
              /\ UNCHANGED << cfg, buffer, pipe, master, failed, nput, nsent, 
                              started, result_count, taken, collected, local, 
                              task >>

Worker(self) == Get(self) \/ Send(self)

Next == Main \/ Feeder
           \/ (\E self \in Workers: Worker(self))

Spec == /\ Init /\ [][Next]_vars
        /\ WF_vars(Main)
        /\ WF_vars(Feeder)
        /\ \A self \in Workers : WF_vars(Worker(self))

\* END TRANSLATION 

\* ------------------------------------------------------------------ properties
MainDone == pc[0] = "Done"
WorkersDone == \A w \in Active : pc[w] = "Done"
\* the collation never raises
NoMergeFailure == ~failed
\* at the end the master holds exactly the trees a serial run reads: same bag, hence same summary
SameSummary == (MainDone /\ ~failed) => BagOfSeq(master.trees) = BagOfSeq(AllTrees(cfg))
\* no file is left unread once all workers have exited
EveryFileRead == WorkersDone => taken = 1..cfg.F
\* exactly one result of every worker is merged
EveryResultOnce == (MainDone /\ ~failed) => collected = Active /\ result_count = cfg.W
\* a non-empty master has the rooting of the trees
RootingKept == (master.trees # <<>>) => master.rooting = cfg.r
Termination == <>MainDone
=============================================================================
