--------------------------- MODULE Trace_SplitDist ---------------------------
(* C05 trace validation.  Every logged call on real SplitDistribution /      *)
(* TreeArray / TreeList objects is judged with the operators of SplitDist:   *)
(* mutators must be steps of the module's operations from the state reached  *)
(* so far, per holder object (Count: count_splits_on_tree / add_tree =        *)
(* CountAbs; Update: update() = UpdateOp; Rebuild: a distribution built in    *)
(* one call from the trees another holder counted = the fold of CountAbs),   *)
(* observations (Freqs, Consensus, Summarize, Collapse, Cred) must leave the *)
(* state alone (chain continuity) and satisfy the clauses of the property on *)
(* the logged state.  Verdicts are total; after every event the spec state   *)
(* is resynchronised with the logged one.  A class without a call site names *)
(* an input shape / configuration computed here (used by known findings).    *)
(*                                                                           *)
(* Event fields (all events): action, h (holder 1..5), uw, el, ag (weights / *)
(* lengths / ages in use), dl (length recorded for None), ns (taxon codes of *)
(* the namespace), r (rooting of the inputs), route, raised, d (projected    *)
(* state of the holder after the call: n, sw, roots, sp, cnt, len, age).     *)
(* Count: g, w.  Update / Rebuild: o (other holder), ws (raw tree weights).  *)
(* Merge: h = o + o2 (TreeArray.__add__).  Observations of an object that    *)
(* was not called since its last event must find its state unchanged.        *)
(* Freqs: fsp, fv (the table), qsp, qv (lookups).  Consensus: thr, g, a.     *)
(* Summarize: g, a.  Collapse: thr, g0, g1.  Cred: kind, ranks, g, a.        *)
(* a = annotations per node id: sup, lab, l*/a* summaries, elen, nage + the  *)
(* options pct, dec, aslab, sel.  Numbers are [num, den]; den 0 = no value.  *)
EXTENDS SplitDist, Json, IOUtils
Tr == ndJsonDeserialize(IOEnv.TRACE_FILE)
VARIABLES l, st, bad
tvars == <<l, st, bad>>
V(c, k) == <<[clause |-> c, class |-> k]>>
None == <<>>
Q(r) == <<r[1], r[2]>>

\* ------------------------------------------------------------ logged state -> D
FromJson(j) ==
    LET S == [i \in 1..Len(j.sp) |-> SeqToSet(j.sp[i])]
        ix(s) == CHOOSE i \in 1..Len(S) : S[i] = s
        dom == SeqToSet(S)
    IN [n |-> j.n, sumW |-> RNorm(Q(j.sw)), roots |-> SeqToSet(j.roots),
        cnt |-> [s \in dom |-> RNorm(Q(j.cnt[ix(s)]))],
        len |-> [s \in dom |-> j.len[ix(s)]],
        age |-> [s \in dom |-> j.age[ix(s)]]]
TableOf(sp, vals) ==
    LET S == [i \in 1..Len(sp) |-> SeqToSet(sp[i])]
        ix(s) == CHOOSE i \in 1..Len(S) : S[i] = s
    IN [s \in SeqToSet(S) |-> Q(vals[ix(s)])]
\* a holder object: its distribution and what each counted tree contributed (lengths with -1 for None), with the weight used
EmptyHolder == [D |-> EmptyDist, trees |-> <<>>]
TopsOf(hd) == [i \in 1..Len(hd.trees) |-> hd.trees[i].t.S]
WithDl(t, dl) == [r |-> t.r, S |-> t.S, len |-> [s \in t.S |-> IF t.len[s] < 0 THEN dl ELSE t.len[s]], age |-> t.age]
RECURSIVE FoldTrees(_, _, _, _, _)
FoldTrees(D, q, dl, el, ag) == IF q = <<>> THEN D
                               ELSE FoldTrees(CountAbs(D, WithDl(Head(q).t, dl), Head(q).w, el, ag), Tail(q), dl, el, ag)
RootTag(e) == IF e.r = 1 THEN "rooted" ELSE "unrooted"
Site(e) == e.route \o ":" \o RootTag(e)

\* ------------------------------------------------------------ mutators
\* tag: discriminator of the input shape / configuration computed by the caller
DiffVerdicts(df, e, tag) ==
    (IF df \cap {"n", "sumW", "splits", "cnt"} # {} THEN
        V("C05.FreqExact", IF tag # "" THEN tag ELSE "state-after-" \o e.route
                           \o (IF "sumW" \in df /\ ~("cnt" \in df) /\ ~("splits" \in df) THEN ":normaliser" ELSE "")) ELSE None)
    \o (IF "roots" \in df THEN V("C05.RootingOfInputs", "rootings-recorded-by-" \o e.route) ELSE None)
    \o (IF "len" \in df THEN V("C05.LengthSummaries", IF tag # "" THEN tag ELSE "lengths-collected-by-" \o Site(e)) ELSE None)
    \o (IF "age" \in df THEN V("C05.AgeSummaries", IF tag # "" THEN tag ELSE "ages-collected-by-" \o Site(e)) ELSE None)
\* an unrooted tree whose seed has two children none of which branches: the unifurcation hides the basal bifurcation
MaskedBasal(g) == /\ RootingOf(g) = 0 /\ Len(g.kids[g.seed]) = 2
                  /\ \A c \in KidSet(g, g.seed) : Len(g.kids[c]) <= 1
                  /\ \E c \in KidSet(g, g.seed) : Len(g.kids[c]) = 1

\* calls the library documents as errors: a tree that is not ultrametric while node ages are collected, a tree over
\* another namespace (its taxa are projected with codes >= 1000), a tree of the other rooting for a TreeArray
Ultrametric(g) == \A x, y \in Leaves(g) : RootDist(g, x) = RootDist(g, y)
RefusalOf(e) == IF \E x \in Nodes(e.g) : e.g.tx[x] >= 1000 THEN "foreign-namespace"
                ELSE IF e.route = "ta.add_tree" /\ RootingOf(e.g) # e.r THEN "other-rooting"
                ELSE IF e.ag /\ ~Ultrametric(e.g) THEN "not-ultrametric"
                ELSE ""
\* a refused call must leave the distribution exactly as it was (what was counted so far is still reported exactly)
JudgeRefused(e, cur, why) ==
    IF e.raised = "" THEN V("C05.FreqExact", "no-error-for-" \o why \o ":" \o e.route)
    ELSE LET df == DistDiff(cur.D, FromJson(e.d)) IN
         DiffVerdicts(df \ {"n"}, e, IF df \ {"n"} = {} THEN "" ELSE "state-changed-by-refused-call:" \o why)
         \* total_trees_counted alone does not enter any reported frequency: counted, never failing
         \o (IF df = {"n"} THEN V("drift:tree-count-after-refused-call", why) ELSE None)
JudgeCount(e, cur) ==
    IF WFClause(e.g) # "ok" THEN V("C05.InputWellFormed", WFClause(e.g))
    ELSE IF RefusalOf(e) # "" THEN JudgeRefused(e, cur, RefusalOf(e))
    ELSE IF e.raised # "" THEN V("C05.FreqExact", "raised:" \o e.raised \o ":" \o e.route)
    ELSE LET t == WithDl(AbsTree(e.g, -1, e.ag), e.dl)
             obs == FromJson(e.d)
             df == DistDiff(CountAbs(cur.D, t, EffW(Q(e.w), e.uw), e.el, e.ag), obs)
         IN DiffVerdicts(df, e,
               IF df = {} THEN ""
               ELSE IF ~e.uw /\ DistDiff(CountAbs(cur.D, t, EffW(Q(e.w), TRUE), e.el, e.ag), obs) = {} THEN "use_tree_weights-off-but-tree-weight-used"
               ELSE IF MaskedBasal(e.g) THEN "unrooted-seed-bifurcation-hidden-by-unifurcation"
               ELSE "")
JudgeUpdate(e, cur, oth) ==
    IF e.raised # "" THEN V("C05.FreqExact", "raised:" \o e.raised \o ":" \o e.route)
    ELSE DiffVerdicts(DistDiff(UpdateOp(cur.D, oth.D), FromJson(e.d)), e, "")

\* a distribution built in one call from the trees another holder counted (TreeList.split_distribution, as_tree_array)
JudgeRebuild(e, src) ==
    IF e.raised # "" THEN V("C05.FreqExact", "raised:" \o e.raised \o ":" \o e.route)
    ELSE LET obs == FromJson(e.d)
             df == DistDiff(FoldTrees(EmptyDist, src.trees, e.dl, e.el, e.ag), obs)
             asW == [i \in 1..Len(src.trees) |-> [t |-> src.trees[i].t, w |-> EffW(Q(e.ws[i]), TRUE)]]
         IN DiffVerdicts(df, e,
               IF df = {} THEN ""
               ELSE IF ~e.uw /\ Len(e.ws) = Len(src.trees) /\ DistDiff(FoldTrees(EmptyDist, asW, e.dl, e.el, e.ag), obs) = {}
                    THEN "use_tree_weights-off-but-tree-weight-used"
               ELSE "")

\* ------------------------------------------------------------ frequencies
\* stale: the previous call on this trace added trees (a frequency table may have been cached before)
JudgeFreqs(e, D, stale) ==
    LET T == TableOf(e.fsp, e.fv)
        QT == TableOf(e.qsp, e.qv)
    IN (IF DOMAIN T # DOMAIN D.cnt THEN
            V("C05.FreqExact", IF \E s \in DOMAIN T : s \notin DOMAIN D.cnt THEN "frequency-for-split-in-no-tree" ELSE "split-without-frequency")
        ELSE IF \E s \in DOMAIN T : ~REq(T[s], FreqOf(D, s)) THEN
            V("C05.FreqExact", "table:" \o e.route \o (IF e.uw THEN "" ELSE ":weights-off") \o (IF stale THEN ":after-adding-trees" ELSE ""))
        ELSE None)
       \o (IF \E s \in DOMAIN QT : ~REq(QT[s], FreqOf(D, s)) THEN
              V("C05.FreqExact", IF \E s \in DOMAIN QT : s \notin DOMAIN D.cnt /\ ~REq(QT[s], RZero) THEN "lookup-of-split-in-no-tree"
                                 ELSE "lookup:" \o e.route \o (IF stale THEN ":after-adding-trees" ELSE ""))
           ELSE None)

\* ------------------------------------------------------------ annotations on a tree (support, labels, summaries)
Pow10(k) == IF k = 0 THEN 1 ELSE IF k = 1 THEN 10 ELSE IF k = 2 THEN 100 ELSE IF k = 3 THEN 1000 ELSE 10000
Scale(f, a) == IF a.pct THEN RMul(f, <<100, 1>>) ELSE f
\* the label renders the support with a.dec decimals: |label - support| <= half a unit of the last place
LabelOK(lab, sup, dec) ==
    /\ lab[2] = 1
    /\ 2 * AbsI(lab[1] * sup[2] - sup[1] * Pow10(dec)) <= sup[2]
SummaryBad(q, mean, med, var, lo, hi) ==
    IF ~REq(Q(mean), MeanOf(q)) THEN "mean"
    ELSE IF ~REq(Q(med), MedianOf(q)) THEN "median"
    ELSE IF ~REq(Q(lo), MinOf(q)) \/ ~REq(Q(hi), MaxOf(q)) THEN "range"
    ELSE IF Len(q) >= 2 /\ ~REq(Q(var), VarOf(q)) THEN "sd"
    ELSE ""
JudgeAnnot(e, g, a, D) ==
    LET r == e.r
        X == Nodes(g)
        spl == [x \in X |-> NodeSplit(g, x, r)]
        sup == [x \in X |-> Scale(FreqOf(D, spl[x]), a)]
        hasLen(x) == e.el /\ spl[x] \in DOMAIN D.len /\ Numeric(D.len[spl[x]])
        hasAge(x) == e.ag /\ spl[x] \in DOMAIN D.age /\ Numeric(D.age[spl[x]])
        lbad == [x \in X |-> IF hasLen(x) THEN SummaryBad(D.len[spl[x]], a.lmean[x], a.lmed[x], a.lvar[x], a.lmin[x], a.lmax[x]) ELSE ""]
        abad == [x \in X |-> IF hasAge(x) THEN SummaryBad(D.age[spl[x]], a.amean[x], a.amed[x], a.avar[x], a.amin[x], a.amax[x]) ELSE ""]
        tag == Site(e) \o (IF a.pct THEN ":percent" ELSE "")
        \* discriminator: on a rooted tree every node judged wrong is a clade holding the lowest taxon
        \* and carries the values of the complementary taxon set (the split read as if the tree were unrooted)
        first == Min(TreeTx(g))
        supBad == {x \in X : ~REq(Q(a.sup[x]), sup[x])}
        asUnrooted(B) == r = 1 /\ B # {} /\ \A x \in B : first \in spl[x] /\ spl[x] # TreeTx(g)
        FirstTaxonClass == "rooted-clade-with-first-taxon-read-as-unrooted-split"
        lB == {x \in X : lbad[x] # ""}
        aB == {x \in X : abad[x] # ""}
    IN (IF supBad # {} THEN
            V("C05.SupportOnTarget",
              IF \E x \in X : ~RHas(a.sup[x]) THEN "no-support-value:" \o tag
              ELSE IF asUnrooted(supBad) THEN FirstTaxonClass
              ELSE "value:" \o tag) ELSE None)
       \o (IF a.aslab /\ \E x \in X : ~LabelOK(a.lab[x], sup[x], a.dec) THEN V("C05.SupportOnTarget", "label:" \o tag) ELSE None)
       \o (IF lB # {} THEN
              V("C05.LengthSummaries", IF asUnrooted(lB) THEN FirstTaxonClass
                                       ELSE (LET x == CHOOSE x \in lB : TRUE IN lbad[x]) \o ":" \o Site(e)) ELSE None)
       \o (IF aB # {} THEN
              V("C05.AgeSummaries", IF asUnrooted(aB) THEN FirstTaxonClass
                                    ELSE (LET x == CHOOSE x \in aB : TRUE IN abad[x]) \o ":" \o Site(e)) ELSE None)
       \o (CASE a.sel = "mean-length" ->
                  (IF \E x \in X : hasLen(x) /\ ~REq(Q(a.elen[x]), MeanOf(D.len[spl[x]])) THEN V("C05.LengthSummaries", "set-edge-length-mean:" \o Site(e)) ELSE None)
             [] a.sel = "median-length" ->
                  (IF \E x \in X : hasLen(x) /\ ~REq(Q(a.elen[x]), MedianOf(D.len[spl[x]])) THEN V("C05.LengthSummaries", "set-edge-length-median:" \o Site(e)) ELSE None)
             [] a.sel = "support" ->
                  (IF \E x \in X : ~REq(Q(a.elen[x]), sup[x]) THEN V("C05.SupportOnTarget", "set-edge-length-support:" \o tag) ELSE None)
             [] a.sel = "mean-age" ->
                  (IF \E x \in X : hasAge(x) /\ ~REq(Q(a.nage[x]), MeanOf(D.age[spl[x]])) THEN V("C05.AgeSummaries", "set-node-age-mean:" \o Site(e)) ELSE None)
             [] a.sel = "median-age" ->
                  (IF \E x \in X : hasAge(x) /\ ~REq(Q(a.nage[x]), MedianOf(D.age[spl[x]])) THEN V("C05.AgeSummaries", "set-node-age-median:" \o Site(e)) ELSE None)
             [] OTHER -> None)

\* ------------------------------------------------------------ consensus
JudgeConsensus(e, D) ==
    LET g == e.g
        all == SeqToSet(e.ns)
        F == ExactFreqs(D)
        thr == e.thr
    IN IF e.raised # "" THEN V("C05.SpansNamespace", "raised:" \o e.raised \o ":" \o Site(e))
       ELSE IF WFClause(g) # "ok" THEN V("C05.SpansNamespace", "ill-formed-result:" \o WFClause(g))
       ELSE IF SpansClass(g, all) # "ok" THEN V("C05.SpansNamespace", SpansClass(g, all) \o ":" \o Site(e))
       ELSE (IF RootingOf(g) # e.r \/ g.rooted = -1 THEN V("C05.RootingOfInputs", Site(e)) ELSE None)
            \o (IF AboveHalf(thr)
                  THEN (IF MajorityRuleClass(F, thr, all, e.r, g) # "ok"
                          THEN V("C05.MajorityRule",
                                 IF thr[3] = 1 /\ Cands(F, thr, all, e.r) \subseteq ResultSplits(g, all, e.r)
                                    /\ \A s \in ResultSplits(g, all, e.r) \ Cands(F, thr, all, e.r) : REq(FreqIn(F, s), <<1, 2>>)
                                 THEN "GREATER_THAN_HALF-admits-frequency-exactly-half"
                                 ELSE MajorityRuleClass(F, thr, all, e.r, g) \o ":" \o Site(e)) ELSE None)
                  ELSE (IF GreedyMaximalClass(F, thr, all, e.r, g) # "ok"
                          THEN V("C05.GreedyMaximal", GreedyMaximalClass(F, thr, all, e.r, g) \o ":" \o Site(e)) ELSE None))
            \o (IF e.a.has THEN JudgeAnnot(e, g, e.a, D) ELSE None)

JudgeSummarize(e, D) ==
    IF e.raised # "" THEN V("C05.SupportOnTarget", "raised:" \o e.raised \o ":" \o Site(e))
    ELSE IF WFClause(e.g) # "ok" THEN V("C05.InputWellFormed", WFClause(e.g))
    ELSE JudgeAnnot(e, e.g, e.a, D)

\* ------------------------------------------------------------ collapse
JudgeCollapse(e, D) ==
    IF WFClause(e.g0) # "ok" THEN V("C05.InputWellFormed", WFClause(e.g0))
    ELSE IF e.raised # "" THEN V("C05.CollapseExact", "raised:" \o e.raised \o ":" \o Site(e))
    ELSE IF WFClause(e.g1) # "ok" THEN V("C05.CollapseExact", "ill-formed-result:" \o WFClause(e.g1))
    ELSE LET F == ExactFreqs(D)
             c == CollapseClass(e.g0, e.g1, F, e.thr, e.r, ~BasalBifurcation(e.g0, e.r))
             \* the same judgement with "reaches 1/2" instead of "exceeds 1/2"
             c2 == CollapseClass(e.g0, e.g1, F, <<e.thr[1], e.thr[2], 0>>, e.r, ~BasalBifurcation(e.g0, e.r))
         IN IF c # "ok" THEN V("C05.CollapseExact", IF e.thr[3] = 1 /\ c2 = "ok" THEN "GREATER_THAN_HALF-admits-frequency-exactly-half"
                                                    ELSE c \o ":" \o Site(e)) ELSE None

\* ------------------------------------------------------------ credibility
\* drift (never failing): the reported scores order the trees differently from the exact sums of frequencies
ScoreOrderDrift(e, cur) ==
    LET F == ExactFreqs(cur.D)
        all == SeqToSet(e.ns)
        tops == TopsOf(cur)
        sc == [i \in 1..Len(tops) |-> SumScore(F, tops[i], all, e.r)]
    IN IF e.kind = "sum" /\ Len(e.ranks) = Len(tops)
          /\ \E i, j \in 1..Len(e.ranks) : RLt(sc[i], sc[j]) /\ ~(e.ranks[i] < e.ranks[j])
       THEN V("drift:score-order", e.kind \o ":" \o RootTag(e)) ELSE None
JudgeCred(e, cur) ==
    IF e.raised # "" THEN V("C05.MaxCredibility", "raised:" \o e.raised \o ":" \o Site(e))
    ELSE IF WFClause(e.g) # "ok" THEN V("C05.MaxCredibility", "ill-formed-result:" \o WFClause(e.g))
    ELSE IF Len(e.ranks) # Len(cur.trees) THEN V("C05.MaxCredibility", "one-score-per-tree:" \o Site(e))
    ELSE (IF ~MaxCredOK(e.ranks, TopsOf(cur), SplitsAs(e.g, e.r)) THEN V("C05.MaxCredibility", e.kind \o ":" \o Site(e)) ELSE None)
         \o (IF e.a.has THEN JudgeAnnot(e, e.g, e.a, cur.D) ELSE None)
         \o ScoreOrderDrift(e, cur)

\* ------------------------------------------------------------ the judge
Mutators == {"Count", "Update", "Rebuild", "Merge"}
Judge(e, s, pa) ==
    LET cur == s[e.h]
        obs == FromJson(e.d)
    IN CASE e.action = "Count" -> JudgeCount(e, cur)
         [] e.action = "Update" -> JudgeUpdate(e, cur, s[e.o])
         [] e.action = "Rebuild" -> JudgeRebuild(e, s[e.o])
         [] e.action = "Merge" -> JudgeUpdate(e, s[e.o], s[e.o2])
         [] OTHER ->
              \* the object was not touched since its last logged call: its state must still be what its own trees
              \* contributed (values leaking in from another object after update() / + are caught here)
              (LET df == DistDiff(cur.D, obs) IN
               IF df = {} THEN None
               ELSE IF df \subseteq {"len", "age"} THEN
                      (IF "len" \in df THEN V("C05.LengthSummaries", "collected-values-changed-by-calls-on-another-object") ELSE None)
                      \o (IF "age" \in df THEN V("C05.AgeSummaries", "collected-values-changed-by-calls-on-another-object") ELSE None)
               ELSE V("C05.Chain", "state changed outside a counting call: " \o e.action))
              \o (CASE e.action = "Freqs" -> JudgeFreqs(e, obs, pa \in Mutators)
                    [] e.action = "Consensus" -> JudgeConsensus(e, obs)
                    [] e.action = "Summarize" -> JudgeSummarize(e, obs)
                    [] e.action = "Collapse" -> JudgeCollapse(e, obs)
                    [] e.action = "Cred" -> JudgeCred(e, [D |-> obs, trees |-> cur.trees]))
\* the state the trace has reached: resynchronised with what was logged
After(e, s) ==
    LET obs == FromJson(e.d) IN
    CASE e.action = "Count" /\ e.raised = "" /\ WFClause(e.g) = "ok" /\ RefusalOf(e) = "" ->
             [s EXCEPT ![e.h] = [D |-> obs, trees |-> Append(@.trees, [t |-> AbsTree(e.g, -1, e.ag), w |-> EffW(Q(e.w), e.uw)])]]
      [] e.action = "Update" /\ e.raised = "" -> [s EXCEPT ![e.h] = [D |-> obs, trees |-> @.trees \o s[e.o].trees]]
      [] e.action = "Rebuild" /\ e.raised = "" -> [s EXCEPT ![e.h] = [D |-> obs, trees |-> s[e.o].trees]]
      [] e.action = "Merge" /\ e.raised = "" -> [s EXCEPT ![e.h] = [D |-> obs, trees |-> s[e.o].trees \o s[e.o2].trees]]
      [] OTHER -> [s EXCEPT ![e.h].D = obs]

Fresh == <<EmptyHolder, EmptyHolder, EmptyHolder, EmptyHolder, EmptyHolder>>
Init == l = 1 /\ bad = <<>> /\ st = Fresh
Next == /\ l <= Len(Tr)
        /\ LET e == Tr[l]
               s == IF e.step = 1 THEN Fresh ELSE st
               v == Judge(e, s, IF e.step = 1 THEN "" ELSE Tr[l - 1].action) IN
           /\ bad' = bad \o [k \in 1..Len(v) |-> [i |-> l, clause |-> v[k].clause, class |-> v[k].class]]
           /\ st' = After(e, s)
        /\ l' = l + 1
Spec == Init /\ [][Next]_tvars
Done == l = Len(Tr) + 1 => JsonSerialize(IOEnv.OUT_FILE, [n |-> Len(Tr), bad |-> bad])
Accepted == TLCGet("stats").diameter - 1 = Len(Tr)
=============================================================================
