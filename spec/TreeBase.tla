------------------------------ MODULE TreeBase ------------------------------
(***************************************************************************)
(* Common tree abstractions (DESIGN 3.1).                                  *)
(*                                                                         *)
(* Graph form - what the harness projects from the raw pointers of a real  *)
(* dendropy Tree (harness/vlib/proj.py), node ids 1..n in discovery order: *)
(*   n      number of node objects seen                                    *)
(*   seed   id of tree.seed_node                                           *)
(*   kids   Seq(Seq(id))   raw _child_nodes lists                          *)
(*   par    Seq(id|0)      raw _parent_node pointers (0 = None)            *)
(*   eh     Seq(id|0)      node.edge.head_node (0 = None/unknown)          *)
(*   eid    Seq(Nat)       identity of node.edge (shared edge objects show)*)
(*   tx     Seq(Nat)       taxon code of the node (0 = no taxon);          *)
(*                         code = accession bit index + 1 in the namespace *)
(*   len    Seq(Int)       edge length * LScale, -1 = None                 *)
(*   lab    Seq(STRING)    node label ("" = None)                          *)
(*   rooted -1 | 0 | 1     is_rooted None / False / True                   *)
(* Ill-formed object graphs (duplicated children, shared nodes, dangling   *)
(* parents, head mismatches, cycles) are representable; WFClause names the *)
(* first violated well-formedness condition.  All other operators assume   *)
(* WFClause(g) = "ok".                                                     *)
(***************************************************************************)
EXTENDS Naturals, Integers, Sequences, FiniteSets, TLC

SeqToSet(q) == {q[i] : i \in 1..Len(q)}
Nodes(g) == 1..g.n
KidSet(g, x) == SeqToSet(g.kids[x])
IsLeaf(g, x) == g.kids[x] = <<>>
Leaves(g) == {x \in Nodes(g) : IsLeaf(g, x)}
Internals(g) == Nodes(g) \ Leaves(g)
Min(S) == CHOOSE k \in S : \A j \in S : k <= j
Max(S) == CHOOSE k \in S : \A j \in S : k >= j
RECURSIVE SumSeq(_)
SumSeq(q) == IF q = <<>> THEN 0 ELSE Head(q) + SumSeq(Tail(q))
RECURSIVE SumFn(_, _)
SumFn(S, f) == IF S = {} THEN 0 ELSE LET x == CHOOSE x \in S : TRUE IN f[x] + SumFn(S \ {x}, f)   \* f a function on S
RECURSIVE Flatten(_)
Flatten(qq) == IF qq = <<>> THEN <<>> ELSE Head(qq) \o Flatten(Tail(qq))
BagOfSeq(q) == [x \in SeqToSet(q) |-> Cardinality({i \in 1..Len(q) : q[i] = x})]
IsPermOf(q, S) == Len(q) = Cardinality(S) /\ SeqToSet(q) = S

\* nodes reachable from the seed through child lists (terminates on cyclic graphs)
RECURSIVE ReachFrom(_, _, _)
ReachFrom(g, frontier, seen) ==
    IF frontier = {} THEN seen
    ELSE LET nxt == (UNION {KidSet(g, x) \cap Nodes(g) : x \in frontier}) \ seen
         IN ReachFrom(g, nxt, seen \cup nxt)
Reachable(g) == ReachFrom(g, {g.seed}, {g.seed})

\* ---------------------------------------------------------- well-formedness (C03)
WFClause(g) ==
    IF g.n < 1 \/ g.seed \notin Nodes(g) THEN "NoSeed"
    ELSE IF \E x \in Nodes(g) : \E i \in 1..Len(g.kids[x]) : g.kids[x][i] \notin Nodes(g) THEN "ChildNotANode"
    ELSE IF g.par[g.seed] # 0 THEN "SeedHasParent"
    ELSE IF \E x \in Nodes(g) : Len(g.kids[x]) # Cardinality(KidSet(g, x)) THEN "DuplicateChild"
    ELSE IF \E x \in Nodes(g) : \E c \in KidSet(g, x) : g.par[c] # x THEN "ChildParentMismatch"
    ELSE IF \E x \in Nodes(g) \ {g.seed} : Cardinality({p \in Nodes(g) : x \in KidSet(g, p)}) # 1 THEN "NotExactlyOnceAmongParentsChildren"
    ELSE IF \E x \in Nodes(g) : g.eh[x] # x THEN "EdgeHeadMismatch"
    ELSE IF \E x, y \in Nodes(g) : x # y /\ g.eid[x] = g.eid[y] THEN "SharedEdge"
    ELSE IF Reachable(g) # Nodes(g) THEN "UnreachableOrCyclic"
    ELSE "ok"
WellFormed(g) == WFClause(g) = "ok"

\* ---------------------------------------------------------- orders (C15)
RECURSIVE Pre(_, _)
Pre(g, x) == <<x>> \o Flatten([i \in 1..Len(g.kids[x]) |-> Pre(g, g.kids[x][i])])
RECURSIVE Post(_, _)
Post(g, x) == Flatten([i \in 1..Len(g.kids[x]) |-> Post(g, g.kids[x][i])]) \o <<x>>
RECURSIVE LeafSeq(_, _)
LeafSeq(g, x) == IF IsLeaf(g, x) THEN <<x>> ELSE Flatten([i \in 1..Len(g.kids[x]) |-> LeafSeq(g, g.kids[x][i])])
RECURSIVE LevelFrom(_, _)
LevelFrom(g, q) == IF q = <<>> THEN <<>> ELSE q \o LevelFrom(g, Flatten([i \in 1..Len(q) |-> g.kids[q[i]]]))
Level(g, x) == LevelFrom(g, <<x>>)
\* in-order on binary subtrees: left, node, right
RECURSIVE InOrder(_, _)
InOrder(g, x) == IF IsLeaf(g, x) THEN <<x>>
                 ELSE InOrder(g, g.kids[x][1]) \o <<x>> \o InOrder(g, g.kids[x][2])
RECURSIVE IsBinaryBelow(_, _)
IsBinaryBelow(g, x) == IsLeaf(g, x) \/ (Len(g.kids[x]) = 2 /\ \A c \in KidSet(g, x) : IsBinaryBelow(g, c))
RECURSIVE AncSeq(_, _)
AncSeq(g, x) == IF g.par[x] = 0 THEN <<>> ELSE <<g.par[x]>> \o AncSeq(g, g.par[x])   \* proper ancestors, nearest first
Desc(g, x) == SeqToSet(Pre(g, x))
RECURSIVE DepthOf(_, _)
DepthOf(g, x) == IF g.par[x] = 0 THEN 0 ELSE 1 + DepthOf(g, g.par[x])
SubSeqWhere(q, P(_)) == SelectSeq(q, P)

\* ---------------------------------------------------------- taxa, clades, splits (C01)
RECURSIVE LeafTx(_, _)
LeafTx(g, x) == IF IsLeaf(g, x) THEN (IF g.tx[x] = 0 THEN {} ELSE {g.tx[x]})
                ELSE UNION {LeafTx(g, c) : c \in KidSet(g, x)}
TreeTx(g) == LeafTx(g, g.seed)
LeafTaxaBag(g) == BagOfSeq([i \in 1..Len(LeafSeq(g, g.seed)) |-> g.tx[LeafSeq(g, g.seed)[i]]])
Norm(m, fill) == IF fill = {} THEN m ELSE IF Min(fill) \in m THEN fill \ m ELSE m
IsRooted(g) == g.rooted = 1
SplitOf(g, x) == IF IsRooted(g) THEN LeafTx(g, x) ELSE Norm(LeafTx(g, x), TreeTx(g))
Clades(g) == {LeafTx(g, x) : x \in Nodes(g)}
SplitSet(g) == {SplitOf(g, x) : x \in Nodes(g)}
\* splits of the underlying unrooted tree, whatever the rooting flag says
UnrootedSplits(g) == {Norm(LeafTx(g, x), TreeTx(g)) : x \in Nodes(g)}
NontrivialClades(g) == {c \in Clades(g) : Cardinality(c) > 1 /\ c # TreeTx(g)}

\* canonical value of the rooted topology below x, independent of child order
\* and unifurcations, defined without reference to splits
RECURSIVE Canon(_, _)
Canon(g, x) == IF IsLeaf(g, x) THEN [t |-> g.tx[x], k |-> {}]
               ELSE IF Len(g.kids[x]) = 1 THEN Canon(g, g.kids[x][1])
               ELSE [t |-> 0, k |-> {Canon(g, c) : c \in KidSet(g, x)}]
\* the same tree hung from the node above leaf r (the unrooted topology seen from r):
\* UpParts(x, from) = the subtrees hanging at x other than the one containing `from`; nodes of degree 2
\* (and a seed whose only child is `from`) are transparent
RECURSIVE UpParts(_, _, _)
UpParts(g, x, from) ==
    LET down == {Canon(g, c) : c \in KidSet(g, x) \ {from}}
        up == IF g.par[x] = 0 THEN {}
              ELSE LET q == UpParts(g, g.par[x], x)
                   IN IF q = {} THEN {} ELSE IF Cardinality(q) = 1 THEN q ELSE {[t |-> 0, k |-> q]}
    IN down \cup up
UpCanon(g, x, from) ==
    LET parts == UpParts(g, x, from)
    IN IF Cardinality(parts) = 1 THEN CHOOSE p \in parts : TRUE ELSE [t |-> 0, k |-> parts]
CanonUnrooted(g) ==
    IF TreeTx(g) = {} THEN Canon(g, g.seed)
    ELSE LET r == CHOOSE x \in Leaves(g) : g.tx[x] = Min(TreeTx(g))
         IN IF g.par[r] = 0 \/ UpParts(g, g.par[r], r) = {} THEN Canon(g, r) ELSE UpCanon(g, g.par[r], r)
Topology(g) == IF IsRooted(g) THEN Canon(g, g.seed) ELSE CanonUnrooted(g)

\* ---------------------------------------------------------- lengths and paths (C07, C14)
L0(g, x) == IF g.len[x] < 0 THEN 0 ELSE g.len[x]          \* None counts as 0
RECURSIVE RootDist(_, _)
RootDist(g, x) == IF g.par[x] = 0 THEN 0 ELSE L0(g, x) + RootDist(g, g.par[x])
TotalLength(g) == SumSeq([x \in 1..g.n |-> L0(g, x)])
AncOrSelf(g, x) == <<x>> \o AncSeq(g, x)
MRCA2(g, a, b) == LET A == AncOrSelf(g, a)  B == SeqToSet(AncOrSelf(g, b))
                  IN A[Min({i \in 1..Len(A) : A[i] \in B})]
PathLen(g, a, b) == LET m == MRCA2(g, a, b) IN RootDist(g, a) + RootDist(g, b) - 2 * RootDist(g, m)
PathEdges(g, a, b) == LET m == MRCA2(g, a, b) IN DepthOf(g, a) + DepthOf(g, b) - 2 * DepthOf(g, m)
\* leaf-to-leaf path length matrix keyed by taxon code (leaves with taxa)
TaxLeaf(g, t) == CHOOSE x \in Leaves(g) : g.tx[x] = t
PathMatrix(g) == [p \in TreeTx(g) \X TreeTx(g) |-> PathLen(g, TaxLeaf(g, p[1]), TaxLeaf(g, p[2]))]
\* deepest node whose leaves include all of S (S non-empty subset of TreeTx)
MRCAOfSet(g, S) == LET c == {x \in Nodes(g) : S \subseteq LeafTx(g, x)}
                   IN CHOOSE x \in c : \A y \in c : DepthOf(g, y) <= DepthOf(g, x)

\* ---------------------------------------------------------- ordered nested form (C02, C08, C12, C13)
RECURSIVE Nest(_, _)
Nest(g, x) == [lab |-> g.lab[x], tx |-> g.tx[x], len |-> g.len[x],
               kids |-> [i \in 1..Len(g.kids[x]) |-> Nest(g, g.kids[x][i])]]
NestTree(g) == [rooted |-> g.rooted, root |-> Nest(g, g.seed)]

\* ---------------------------------------------------------- enumeration of small trees (model side)
\* ordered trees with n nodes as preorder parent arrays: par[i] is i-1 or an ancestor of i-1
RECURSIVE AncOfIn(_, _)
AncOfIn(p, i) == IF i = 1 THEN {1} ELSE {i} \cup AncOfIn(p, p[i])
ParentArrays(n) == IF n = 1 THEN {<<0>>}
                   ELSE {p \in [1..n -> 0..(n - 1)] :
                           /\ p[1] = 0
                           /\ \A i \in 2..n : p[i] \in AncOfIn(p, i - 1)}
KidsOfParents(p) == [x \in 1..Len(p) |->
                        LET c == {i \in 1..Len(p) : p[i] = x}
                            RECURSIVE Asc(_)
                            Asc(S) == IF S = {} THEN <<>> ELSE <<Min(S)>> \o Asc(S \ {Min(S)})
                        IN Asc(c)]
\* graph form of a parent array with taxa on the leaves (left to right from `taxa`), lengths `lens`
MkTree(p, taxa, lens, rooted) ==
    LET n == Len(p)
        kids == KidsOfParents(p)
        lv == SelectSeq([i \in 1..n |-> i], LAMBDA x : kids[x] = <<>>)
        posOf(x) == CHOOSE i \in 1..Len(lv) : lv[i] = x
    IN [n |-> n, seed |-> 1, kids |-> kids, par |-> p, eh |-> [x \in 1..n |-> x], eid |-> [x \in 1..n |-> x],
        tx |-> [x \in 1..n |-> IF kids[x] = <<>> THEN taxa[posOf(x)] ELSE 0],
        len |-> lens, lab |-> [x \in 1..n |-> ""], rooted |-> rooted]
NumLeavesOfParents(p) == Cardinality({x \in 1..Len(p) : \A i \in 1..Len(p) : p[i] # x})
=============================================================================
