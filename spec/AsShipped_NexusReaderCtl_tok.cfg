SPECIFICATION Spec
CONSTANTS
  Inputs <- ShippedInputs
  GenEdits <- NoGenEdits
  Shipped = {"tokrec"}
  TsrValues = {TRUE}
  GenSteps = 0
  Quick = TRUE
  PumpK = 3
  MaxSpan = 4
INVARIANT TokDepthBounded
CHECK_DEADLOCK FALSE
