--------------------------- MODULE Trace_Restrict ---------------------------
(* C08 trace validation.  One event = one input (tree g, a way of naming the *)
(* survivors, suppress setting) together with the outcome of every API       *)
(* variant the harness ran on a fresh copy of that input.  TLC computes the  *)
(* induced subtree Induced(g, top, K, sup) from the module Restrict and      *)
(* judges every outcome against it.  Verdicts are total.                     *)
(*                                                                           *)
(* event : action, g, top, S, P, lf, inf, x, sup, outs                       *)
(* out   : api, ub, raised, h (projected result), extract (BOOLEAN),         *)
(*         src (per node of h: id in g of the node it is / was cloned from), *)
(*         after (projection of the source after an extraction),             *)
(*         hasrm (BOOLEAN), removed (ids in g of the nodes reported removed)  *)
EXTENDS Restrict, Json, IOUtils
Tr == ndJsonDeserialize(IOEnv.TRACE_FILE)
VARIABLES l, bad
V(c, k) == <<[clause |-> c, class |-> k]>>
None == <<>>

SurvOf(e) ==
    CASE e.action = "ByTaxa"       -> SurvTx(e.g, SeqToSet(e.S))
      [] e.action = "Taxonless"    -> SurvTx(e.g, AllTx(e.g))
      [] e.action = "ByLeafFilter" -> SurvLeafFilter(e.g, SeqToSet(e.P))
      [] e.action = "ByNodeFilter" -> SurvExtract(e.g, e.top, SeqToSet(e.P), e.lf, e.inf)
      [] e.action = "BySubtree"    -> SurvWithout(e.g, e.x)

\* taxa sit on leaves only and no taxon occurs twice (domain of the property)
TaxaOnLeavesOnce(g) == /\ \A x \in Internals(g) : g.tx[x] = 0
                       /\ \A x, y \in Leaves(g) : (x # y /\ g.tx[x] # 0) => g.tx[x] # g.tx[y]

RECURSIVE StripLen(_)
StripLen(v) == [lab |-> v.lab, tx |-> v.tx, kids |-> [i \in 1..Len(v.kids) |-> StripLen(v.kids[i])]]
RECURSIVE StripLab(_)
StripLab(v) == [len |-> v.len, tx |-> v.tx, kids |-> [i \in 1..Len(v.kids) |-> StripLab(v.kids[i])]]
RECURSIVE NestSrc(_, _, _)
NestSrc(h, src, y) == [id |-> src[y], kids |-> [i \in 1..Len(h.kids[y]) |-> NestSrc(h, src, h.kids[y][i])]]
RECURSIVE DistBelow(_, _, _)
DistBelow(g, top, x) == L0(g, x) + (IF x = top THEN 0 ELSE DistBelow(g, top, g.par[x]))
RECURSIVE AccBelow(_, _, _)
AccBelow(g, top, x) == IF x = top THEN g.len[x] ELSE AddLen(AccBelow(g, top, g.par[x]), g.len[x])

Name(o) == o.api \o (IF o.ub THEN "+ub" ELSE "")
Usable(o) == o.raised = "" /\ WFClause(o.h) = "ok"

\* Most variants return literally the same projected tree, so the clauses that depend on the
\* result alone are evaluated once per distinct result of an event: the *Kind operators return
\* "" (clause holds) or the suffix of the verdict class.

\* ---- C08.IsRestriction: the result is the induced subtree, ordered, with labels, taxa, lengths and rooting flag
\* update_bipartitions=True on a tree that is not rooted: encode_bipartitions() is documented to collapse
\* the basal bifurcation of an unrooted tree ((A,(B,C)) becomes (A,B,C)).  Such a result is compared
\* modulo exactly that: BasalOk(hn, rn) says hn is rn with one child c of a two-child seed dissolved
\* into the seed (c has >= 2 children).  Left free: the order of the seed's children afterwards, which
\* of two eligible children is dissolved, the flag becoming "unrooted", and the sibling's length where
\* one of the two merged lengths is None (both numbers: their sum).  Everything below the seed's
\* children - in particular unifurcations whose suppression was declined - must be as in rn.
BasalOk(hn, rn) ==
    /\ Len(rn.kids) = 2 /\ hn.lab = rn.lab /\ hn.tx = rn.tx /\ hn.len = rn.len
    /\ \E i \in 1..2 :
         LET c == rn.kids[i]  sb == rn.kids[3 - i]
             lens == IF sb.len >= 0 /\ c.len >= 0 THEN {sb.len + c.len} ELSE {sb.len, AddLen(sb.len, c.len)}
         IN /\ Len(c.kids) >= 2 /\ Len(hn.kids) = Len(c.kids) + 1
            /\ \E v \in lens : SeqToSet(hn.kids) = SeqToSet(c.kids) \cup {[sb EXCEPT !.len = v]}
SameMod(free, hn, rn) == hn = rn \/ (free /\ BasalOk(hn, rn))
FlagOk(free, a, b) == a = b \/ (free /\ a = 0)

IsKind(e, h, hn, R, Rs, free) ==
    LET sfx == IF e.sup THEN ":suppress" ELSE ":nosuppress"  rn == Nest(R, R.seed) IN
    IF SameMod(free, hn, rn) THEN (IF FlagOk(free, h.rooted, e.g.rooted) THEN "" ELSE ":rooting_flag")
    ELSE IF ~e.sup /\ SameMod(free, hn, Nest(Rs, Rs.seed)) THEN ":suppression_not_declined"
    ELSE IF StripLen(hn) = StripLen(rn) THEN sfx \o ":lengths"
    ELSE IF StripLab(hn) = StripLab(rn) THEN sfx \o ":labels"
    ELSE sfx \o ":topology"

\* ---- C08.LengthsConserved: stated on the real result alone (not on the definition);
\* gs = the source side, computed once per event
GSide(g, top) == LET LT == LeafTx(g, top)
                     lf == [t \in LT |-> TaxLeaf(g, t)] IN
                 [LT |-> LT, top |-> [t \in LT |-> DistBelow(g, top, lf[t])],
                  pair |-> [p \in {q \in LT \X LT : q[1] < q[2]} |-> PathLen(g, lf[p[1]], lf[p[2]])]]
LenKind(h, gs, collapsed, lenfree) ==
    IF ~TaxaOnLeavesOnce(h) \/ lenfree THEN ""
    ELSE LET common == AllTx(h) \cap gs.LT
             lf == [t \in common |-> TaxLeaf(h, t)]
         IN IF \E a, b \in common : a < b /\ PathLen(h, lf[a], lf[b]) # gs.pair[<<a, b>>] THEN ":between_leaves"
            ELSE IF ~collapsed /\ \E a \in common : DistBelow(h, h.seed, lf[a]) # gs.top[a] THEN ":from_top"
            ELSE ""

\* ---- C08.SingleLeaf: one survivor, suppression on: the result is that leaf with the accumulated length
SingleKind(e, h, K) ==
    LET g == e.g  lv == {x \in K : KidSet(g, x) \cap K = {}} IN
    IF ~e.sup \/ Cardinality(lv) # 1 THEN ""
    ELSE LET lf == CHOOSE x \in lv : TRUE IN
         IF /\ h.n = 1 /\ h.kids[h.seed] = <<>> /\ h.tx[h.seed] = g.tx[lf] /\ h.lab[h.seed] = g.lab[lf]
            /\ h.len[h.seed] = AccBelow(g, e.top, lf)
         THEN "" ELSE ":single"

ResultKinds(e, h, K, R, Rs, gs, free) ==
    LET hn == Nest(h, h.seed)  rn == Nest(R, R.seed)
        collapsed == free /\ hn # rn
        lenfree == collapsed /\ \E i \in 1..Len(rn.kids) : rn.kids[i].len < 0
    IN [nest |-> hn, is |-> IsKind(e, h, hn, R, Rs, free), len |-> LenKind(h, gs, collapsed, lenfree),
        single |-> SingleKind(e, h, K)]

\* ---- C08.SourceUntouched: extraction leaves the source as it was; every new node points at its source node
JSource(e, o, R, isk) ==
    IF ~o.extract \/ o.raised # "" THEN None
    ELSE (IF o.after = e.g THEN None ELSE V("C08.SourceUntouched", Name(o) \o ":source_modified"))
      \o (IF WFClause(o.h) # "ok" THEN None
          ELSE LET g == e.g  h == o.h  src == o.src
                   sane == /\ \A y \in Nodes(h) : /\ src[y] \in Desc(g, e.top)
                                                  /\ g.tx[src[y]] = h.tx[y] /\ g.lab[src[y]] = h.lab[y]
                           /\ \A y, z \in Nodes(h) : y # z => src[y] # src[z]
                           /\ \A y \in Nodes(h) \ {h.seed} : src[h.par[y]] \in SeqToSet(AncSeq(g, src[y]))
                   exact == isk \in {"", ":rooting_flag"} => NestSrc(h, src, h.seed) = NestId(R, R.seed)
               IN IF sane /\ exact THEN None ELSE V("C08.SourceUntouched", Name(o) \o ":extraction_source"))

\* ---- C08.RemovedNodesExact: the returned list names each node without a survivor below it exactly once
JRemoved(e, o, K) ==
    IF ~o.hasrm \/ o.raised # "" THEN None
    ELSE IF Len(o.removed) = Cardinality(SeqToSet(o.removed)) /\ SeqToSet(o.removed) = Desc(e.g, e.top) \ K THEN None
    ELSE V("C08.RemovedNodesExact", Name(o))

Free(e, o) == o.ub /\ e.g.rooted # 1
JOut(e, o, k, rk, ref, rkinds, fk, fkinds, K, R, Rs, gs) ==
    IF o.raised # ""
      THEN V("C08.IsRestriction", Name(o) \o ":raised:" \o o.raised \o
                                  (IF e.sup /\ R.seed # e.top /\ e.top # e.g.seed THEN ":start_node_suppressed" ELSE ""))
    ELSE IF WFClause(o.h) # "ok" THEN V("C08.IsRestriction", Name(o) \o ":illformed:" \o WFClause(o.h))
                                      \o JSource(e, o, R, "x") \o JRemoved(e, o, K)
    ELSE LET free == Free(e, o)
             kinds == IF ~free /\ rk # 0 /\ o.h = ref.h THEN rkinds
                      ELSE IF free /\ fk # 0 /\ o.h = e.outs[fk].h THEN fkinds
                      ELSE ResultKinds(e, o.h, K, R, Rs, gs, free) IN
         (IF kinds.is = "" THEN None ELSE V("C08.IsRestriction", Name(o) \o kinds.is))
      \o (IF kinds.len = "" THEN None ELSE V("C08.LengthsConserved", Name(o) \o kinds.len))
      \* C08.VariantsAgree: every variant run on the same input gives the same tree as the first usable one
      \o (IF rk = 0 \/ k = rk \/ (SameMod(free, kinds.nest, rkinds.nest) /\ FlagOk(free, o.h.rooted, ref.h.rooted)) THEN None
          ELSE IF kinds.is = ":suppression_not_declined" /\ rkinds.is = ""
            THEN V("C08.VariantsAgree", Name(o) \o ":suppression_not_declined")
          ELSE V("C08.VariantsAgree", Name(o) \o ":differs_from:" \o Name(ref)))
      \o JSource(e, o, R, kinds.is) \o JRemoved(e, o, K)
      \o (IF kinds.single = "" THEN None ELSE V("C08.SingleLeaf", Name(o)))

Judge(e) ==
    IF WFClause(e.g) # "ok" THEN V("C08.InputInDomain", WFClause(e.g))
    ELSE IF ~TaxaOnLeavesOnce(e.g) THEN V("C08.InputInDomain", "taxa")
    ELSE LET K == SurvOf(e) IN
         IF e.top \notin K THEN V("C08.InputInDomain", "no_survivor")
         ELSE LET R == Induced(e.g, e.top, K, e.sup)
                  Rs == Induced(e.g, e.top, K, TRUE)
                  gs == GSide(e.g, e.top)
                  us == {k \in 1..Len(e.outs) : Usable(e.outs[k])}
                  rk == IF us = {} THEN 0 ELSE Min(us)          \* reference variant: the first usable outcome
                  ref == e.outs[IF rk = 0 THEN 1 ELSE rk]
                  rkinds == ResultKinds(e, ref.h, K, R, Rs, gs, Free(e, ref))
                  fs == {k \in us : Free(e, e.outs[k])}
                  fk == IF fs = {} THEN 0 ELSE Min(fs)           \* first usable outcome compared modulo the basal collapse
                  fkinds == ResultKinds(e, e.outs[IF fk = 0 THEN 1 ELSE fk].h, K, R, Rs, gs, TRUE)
              IN Flatten([k \in 1..Len(e.outs) |-> JOut(e, e.outs[k], k, rk, ref, rkinds, fk, fkinds, K, R, Rs, gs)])

Init == l = 1 /\ bad = <<>>
Next == /\ l <= Len(Tr)
        /\ LET v == Judge(Tr[l]) IN
             bad' = bad \o [k \in 1..Len(v) |-> [i |-> l, clause |-> v[k].clause, class |-> v[k].class]]
        /\ l' = l + 1
Spec == Init /\ [][Next]_<<l, bad>>
Done == l = Len(Tr) + 1 => JsonSerialize(IOEnv.OUT_FILE, [n |-> Len(Tr), bad |-> bad])
Accepted == TLCGet("stats").diameter - 1 = Len(Tr)
=============================================================================
