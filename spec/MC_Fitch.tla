------------------------------ MODULE MC_Fitch ------------------------------
(***************************************************************************)
(* Bounded models for C16 (TLC).                                           *)
(*                                                                         *)
(* SpecT - definition table.  One state per input (p, mat): every ordered  *)
(*   bifurcating shape with 2..MaxLeaves leaves (taxa 1..L left to right;  *)
(*   all matrices are enumerated, so every labelling is covered) x every   *)
(*   1-character matrix over Cells1 and 2-character matrix over Cells2.    *)
(*   Invariants = the classical theorem and the clauses of the property,   *)
(*   checked rather than assumed; quantified over gap treatment, weights,  *)
(*   every re-rooting and every rotation inside the invariants.            *)
(* SpecS - purity state machine.  State = (g, cache, res): the tree, what  *)
(*   earlier calls left on its nodes, the result of the last Score.        *)
(*   Actions Score(rows, w, gm), Reroot(x), RotateAt(x), all histories up  *)
(*   to MaxOps.  PureScore: every Score returns the minimum for the        *)
(*   CURRENT tree and the matrix passed in, whatever the history.          *)
(*   Shipped = TRUE models the code as shipped (cached leaf sets reused):  *)
(*   TLC must find the two-call counterexample (AsShipped_Fitch.cfg).      *)
(***************************************************************************)
EXTENDS Fitch
CONSTANTS K,            \* fundamental states 0..K-1, gap = K
          MaxLeaves, MaxLeaves2, LargerFirstFrom, Cells1, Cells2, Weights, FullLeaves, RootMinLeaves,
          SMLeaves, SMLeaves2, SMCells1, SMCells2, SMWeights, MaxOps, Shipped,
          PLeaves, PCells, TipsNarrowed
VARIABLES p, nc, mat, g, cache, res, nops
vars == <<p, nc, mat, g, cache, res, nops>>

\* cell alphabets (3 states + gap): states, ambiguity sets, gap, missing
AllCells == {{0}, {1}, {2}, {0, 1}, {0, 2}, {1, 2}, {0, 1, 2}, {3}, {0, 1, 2, 3}}
CellsSG == {{0}, {1}, {3}}                 \* two states and the gap
CellsSAG == {{0}, {1}, {0, 1}, {3}}        \* + an ambiguity code
CellsS2 == {{0}, {1}}
CellsS3G == {{0}, {1}, {2}, {3}}
CellsSAGM == {{0}, {1}, {1, 2}, {3}, {0, 1, 2, 3}}

\* ------------------------------------------------------------------ SpecT
\* the matrix is built row by row (one TLC step per taxon) so that the bulk of the domain is generated
\* and checked by all workers; the invariants speak about complete inputs only
TL == Cardinality(Leaves(g))
\* (shapes with LargerFirstFrom or more leaves: one representative per child order - their other child orders
\*  are reached through the rotations checked in ThmTable)
InitT == /\ \E L \in 2..MaxLeaves : \E pp \in (IF L >= LargerFirstFrom THEN BifParentsLargerFirst(L) ELSE BifParents(L)) :
                p = pp /\ g = BifTree(pp, [i \in 1..L |-> i])
         /\ nc \in {1, 2} /\ (nc = 2 => NumLeavesOfParents(p) <= MaxLeaves2) /\ mat = <<>>
         /\ cache = 0 /\ res = 0 /\ nops = 0
AddRow == /\ Len(mat) < TL
          /\ \E row \in [1..nc -> IF nc = 1 THEN Cells1 ELSE Cells2] : mat' = Append(mat, row)
          /\ UNCHANGED <<p, nc, g, cache, res, nops>>
SpecT == InitT /\ [][AddRow]_vars

Complete == Len(mat) = TL
T0 == g
M0 == [k |-> K, rows |-> mat]
WeightVecs(n) == {<<>>} \cup [1..n -> Weights]

DomainOk == Complete => TreeClass(T0) = "ok" /\ MatrixFits(T0, M0)
\* the classical theorem: the down pass counts exactly the minimum number of changes
ThmFitchIsMin == Complete => LET t == T0  m == M0 IN
    \A gm \in BOOLEAN : FitchByChar(t, m, gm) = MinByChar(t, m, gm)
\* lemma: choosing the leaf states jointly with the internal states gives the same minimum
ThmLeafChoice == Complete /\ TL <= FullLeaves => LET t == T0  m == M0 IN
    \A gm \in BOOLEAN : \A j \in 1..nc :
        MinCostFull(t, Col(m, j, gm), Universe(m, gm)) = MinCost(t, Col(m, j, gm), Universe(m, gm))
\* lemma: states occurring in no leaf set are never needed (used to judge larger random instances)
ThmUsedStates == Complete => LET t == T0  m == M0 IN
    \A gm \in BOOLEAN : MinByCharUsed(t, m, gm) = MinByChar(t, m, gm)
\* a scoring call on a fresh tree: weighted total, per-character list, the list sums to the total
ThmScoreOp == Complete => LET t == T0  m == M0 IN
    \A gm \in BOOLEAN :
      LET mc == MinByChar(t, m, gm)
          c == PassCounts(t, LeafSetsUsed(t, NoCache(t), m, gm, Shipped), nc) IN
      \A w \in WeightVecs(nc) :
        LET r == Scored(c, nc, w) IN
        /\ r.bychar = Weighted(mc, w)
        /\ r.score = SumSeq(Weighted(mc, w))
        /\ SumSeq(r.bychar) = r.score
        /\ ~r.over
\* independent of root position and child order
\* (the moves themselves: checked once per shape)
ThmMovesSound == mat = <<>> => LET t == T0 IN
    /\ \A x \in Nodes(t) : CanRerootAbove(t, x) =>
          LET h == RerootAbove(t, x) IN
          TreeClass(h) = "ok" /\ SameUnrootedTree(t, h) /\ Canon(t, t.seed) # Canon(h, h.seed)
    /\ \A x \in Nodes(t) : CanRotate(t, x) =>
          LET h == Rotate(t, x) IN
          TreeClass(h) = "ok" /\ Canon(t, t.seed) = Canon(h, h.seed) /\ h # t
MovedTrees(t) == {RerootAbove(t, x) : x \in {y \in Nodes(t) : CanRerootAbove(t, y)}}
                 \cup {Rotate(t, x) : x \in {y \in Nodes(t) : CanRotate(t, y)}}
ThmRootInvariant == Complete => LET t == T0  m == M0  hs == MovedTrees(t)  deep == TL <= RootMinLeaves IN
    \A gm \in BOOLEAN : \A j \in 1..nc :
    LET col == Col(m, j, gm)  S == Universe(m, gm)  f == FitchScore(t, col)
        mc == IF deep THEN MinCost(t, col, S) ELSE 0 IN
    \A h \in hs : FitchScore(h, col) = f /\ (deep => MinCost(h, col, S) = mc)

\* the conjunction of the five statements above with the brute-force minima shared between them (each
\* MinCost is evaluated once per input instead of once per statement).  This is what the registered
\* configurations check; MC_Fitch_diag.cfg checks the statements one by one (to name the failing one).
ExtraRowCells == {{0}, {K}, 0..K}
ThmTable == Complete => LET t == T0  m == M0  deep == TL <= RootMinLeaves
                            bs == BasalForms(p, [i \in 1..TL |-> i])       \* the same tree held with a trifurcating seed
                            hs == MovedTrees(t) \cup bs IN
    /\ \A b \in bs : TreeClass(b) = "ok" /\ IsBasalTrifurcation(b) /\ SameUnrootedTree(t, b)
    /\ \A gm \in BOOLEAN :
      LET mc == MinByChar(t, m, gm)
          fc == FitchByChar(t, m, gm)
          S == Universe(m, gm)
          c == PassCounts(t, LeafSetsUsed(t, NoCache(t), m, gm, Shipped), nc) IN
      /\ fc = mc                                                                      \* ThmFitchIsMin
      /\ MinByCharUsed(t, m, gm) = mc                                                 \* ThmUsedStates
      /\ (TL <= FullLeaves => \A j \in 1..nc : MinCostFull(t, Col(m, j, gm), S) = mc[j])   \* ThmLeafChoice
      /\ \A w \in WeightVecs(nc) :                                                    \* ThmScoreOp
           LET r == Scored(c, nc, w) IN
           r.bychar = Weighted(mc, w) /\ r.score = SumSeq(Weighted(mc, w)) /\ SumSeq(r.bychar) = r.score /\ ~r.over
      /\ \A j \in 1..nc : \A h \in hs :                                               \* ThmRootInvariant (all rootings)
           FitchScore(h, Col(m, j, gm)) = fc[j] /\ (deep => MinCost(h, Col(m, j, gm), S) = mc[j])
      \* rows of taxa that are not on the tree do not count: the minimum is over the tree's leaves
      /\ \A x \in ExtraRowCells :
           LET mx == [k |-> K, rows |-> Append(mat, [j \in 1..nc |-> x])] IN
           /\ PassCounts(t, LeafSetsUsed(t, NoCache(t), mx, gm, Shipped), nc) = c
           /\ (deep => MinByChar(t, mx, gm) = mc)

\* ------------------------------------------------------------------ SpecS
SMMatrices == UNION {[1..L -> [1..1 -> SMCells1]] : L \in 2..SMLeaves} \cup UNION {[1..L -> [1..2 -> SMCells2]] : L \in 2..SMLeaves2}
SMWeightVecs == {<<>>} \cup UNION {[1..k -> SMWeights] : k \in 1..2}
NodeIds == 1..(2 * SMLeaves - 1)

InitS == /\ \E L \in 2..SMLeaves : \E pp \in BifParents(L) : g = BifTree(pp, [i \in 1..L |-> i])
         /\ cache = [x \in 1..g.n |-> <<>>]
         /\ res = <<>> /\ nops = 0 /\ p = 0 /\ nc = 0 /\ mat = 0
Score(rows, w, gm) ==
    /\ nops < MaxOps
    /\ Len(rows) >= Cardinality(Leaves(g))                 \* rows of taxa that are not on the tree are allowed
    /\ Len(w) \in {0, Len(rows[1])}
    /\ LET m == [k |-> K, rows |-> rows]
           r == ScoreOp(g, cache, m, w, gm, Shipped) IN
       /\ cache' = CacheAfter(g, cache, m, gm, Shipped)
       /\ res' = [rows |-> rows, w |-> w, gm |-> gm, score |-> r.score, bychar |-> r.bychar, over |-> r.over]
    /\ nops' = nops + 1
    /\ UNCHANGED <<g, p, nc, mat>>
Reroot(x) ==
    /\ nops < MaxOps
    /\ CanRerootAbove(g, x)
    /\ g' = RerootAbove(g, x)
    /\ cache' = [cache EXCEPT ![g.seed] = <<>>]      \* the new root is a new node
    /\ res' = <<>> /\ nops' = nops + 1
    /\ UNCHANGED <<p, nc, mat>>
RotateAt(x) ==
    /\ nops < MaxOps
    /\ CanRotate(g, x)
    /\ g' = Rotate(g, x)
    /\ res' = <<>> /\ nops' = nops + 1
    /\ UNCHANGED <<cache, p, nc, mat>>
NextS == \/ \E rows \in SMMatrices, w \in SMWeightVecs, gm \in BOOLEAN : Score(rows, w, gm)
         \/ \E x \in NodeIds : Reroot(x)
         \/ \E x \in NodeIds : RotateAt(x)
SpecS == InitS /\ [][NextS]_vars

\* ------------------------------------------------------------------ SpecP: the pass functions used directly
\* One taxon_state_sets_map object (variable mat = [orig, gm, sets]) built once from a matrix and handed to
\* fitch_down_pass / fitch_up_pass on several trees in sequence.  DownPassOn(k, w) scores the k-th representative
\* topology on the taxa of the map (a fresh tree object unless it is the current one), UpPass finalises the
\* current tree.  PurePass: every down pass returns the minimum for (its tree, the ORIGINAL data);
\* MapUnchanged: no pass changes the contents of the map.  TipsNarrowed = TRUE models an up pass that narrows
\* ambiguous tip sets in place (AsNarrowed_Fitch.cfg: TLC must find the violation).
PTrees(L) == IF L = 2 THEN <<BifTree(<<0, 1, 1>>, <<1, 2>>)>>
             ELSE IF L = 3 THEN [i \in 1..3 |-> BifTree(<<0, 1, 2, 2, 1>>, <<<<1, 2, 3>>, <<1, 3, 2>>, <<2, 3, 1>>>>[i])]
             ELSE [i \in 1..3 |-> BifTree(<<0, 1, 2, 2, 1, 5, 5>>, <<<<1, 2, 3, 4>>, <<1, 3, 2, 4>>, <<1, 4, 2, 3>>>>[i])]
InitP == /\ \E L \in 2..PLeaves : \E nch \in (IF L = 2 THEN 1..2 ELSE 1..1) : \E rows \in [1..L -> [1..nch -> PCells]] : \E gm \in BOOLEAN :
              /\ mat = [orig |-> rows, gm |-> gm, sets |-> MapOf([k |-> K, rows |-> rows], gm)]
              /\ g = PTrees(L)[1]
         /\ cache = [x \in 1..g.n |-> <<>>]
         /\ res = <<>> /\ nops = 0 /\ p = 0 /\ nc = 0
DownPassOn(k, w) ==
    /\ nops < MaxOps
    /\ k <= Len(PTrees(Len(mat.orig)))
    /\ Len(w) \in {0, Len(mat.orig[1])}
    /\ LET t == PTrees(Len(mat.orig))[k]
           nch == Len(mat.orig[1])
           ls == LeafSetsFromMap(t, mat.sets)
           r == Scored(PassCounts(t, ls, nch), nch, w) IN
       /\ g' = t
       /\ cache' = PassCache(t, ls)
       /\ res' = [rows |-> mat.orig, w |-> w, gm |-> mat.gm, score |-> r.score, bychar |-> r.bychar, over |-> r.over]
    /\ nops' = nops + 1
    /\ UNCHANGED <<p, nc, mat>>
UpPass ==
    /\ nops < MaxOps
    /\ res # <<>>                                   \* after a down pass on the current tree
    /\ mat' = IF TipsNarrowed THEN [mat EXCEPT !.sets = NarrowedMap(g, mat.sets, cache)] ELSE mat
    /\ res' = <<>> /\ nops' = nops + 1
    /\ UNCHANGED <<g, cache, p, nc>>                \* (the final sets written on internal nodes are never read)
NextP == \/ \E k \in 1..3, w \in SMWeightVecs : DownPassOn(k, w)
         \/ UpPass
SpecP == InitP /\ [][NextP]_vars
PurePass == res # <<>> =>
    LET m == [k |-> K, rows |-> mat.orig] IN
    /\ ~res.over
    /\ res.score = ExpectedTotal(g, m, res.w, mat.gm)
    /\ res.bychar = ExpectedByChar(g, m, res.w, mat.gm)
MapUnchanged == [][mat' = mat]_vars

TreeOk == TreeClass(g) = "ok"
\* every Score returns the minimum for the current tree and the matrix passed in, for every history
PureScore == res # <<>> =>
    LET m == [k |-> K, rows |-> res.rows] IN
    /\ ~res.over
    /\ res.score = ExpectedTotal(g, m, res.w, res.gm)
    /\ res.bychar = ExpectedByChar(g, m, res.w, res.gm)
    /\ SumSeq(res.bychar) = res.score
MovesKeepTree == [][SameUnrootedTree(g, g')]_vars
=============================================================================
