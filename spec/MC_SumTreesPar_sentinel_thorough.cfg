SPECIFICATION Spec
CONSTANTS
  MaxFiles = 3
  MaxWorkers = 4
  FileSizes = {0, 1}
  ShippedUpdate = FALSE
  Protocol = "sentinel"
  AsyncFeeder = TRUE
  Rootings <- RootingsAll
INVARIANT NoMergeFailure
INVARIANT SameSummary
INVARIANT EveryFileRead
INVARIANT EveryResultOnce
INVARIANT RootingKept
PROPERTY Termination
CHECK_DEADLOCK FALSE
