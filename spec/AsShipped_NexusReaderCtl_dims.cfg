SPECIFICATION Spec
CONSTANTS
  Inputs <- ShippedInputs
  GenEdits <- NoGenEdits
  Shipped = {"dims"}
  TsrValues = {TRUE}
  GenSteps = 0
  Quick = TRUE
  PumpK = 3
  MaxSpan = 4
INVARIANT DimsConsistent
CHECK_DEADLOCK FALSE
