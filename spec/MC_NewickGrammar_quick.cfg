SPECIFICATION Spec
CONSTANTS
  Quick = TRUE
  MaxLen = 3
  PumpK = 4
  RecLimit = 100000
  GenSteps = 0
INVARIANTS OutcomeDocumented DepthIsNesting NestNonNegative NoTreeLost
PROPERTY Termination
CHECK_DEADLOCK FALSE
