SPECIFICATION Spec
CONSTANTS
  StickyHyphen = TRUE
  ShippedSetsLink = FALSE
  ShippedCharIds = FALSE
  ShippedLinkBlocks = FALSE
  ShippedTitleCase = FALSE
  Dims <- DimsNone
  LabelSets = {"plain"}
  MaxNs = 1
  MaxComps = 2
  TitlePool <- TitlesSmall
INVARIANT NamespaceOfEachComponent
CHECK_DEADLOCK FALSE
