SPECIFICATION Spec
CONSTANTS
  Quick = TRUE
  Shipped = {"phylip_cols"}
INVARIANTS OutcomeDocumented DimsConsistent

CHECK_DEADLOCK FALSE
