SPECIFICATION Spec
CONSTANTS
  StickyHyphen = FALSE
  ShippedSetsLink = FALSE
  ShippedCharIds = FALSE
  ShippedLinkBlocks = FALSE
  ShippedTitleCase = FALSE
INVARIANT Done
POSTCONDITION Accepted
CHECK_DEADLOCK FALSE
