SPECIFICATION Spec
CONSTANTS
  ShippedCharIds = FALSE
  ShippedLinkBlocks = FALSE
  ShippedTitleCase = FALSE
INVARIANT Done
POSTCONDITION Accepted
CHECK_DEADLOCK FALSE
