------------------------------ MODULE NexusToken ------------------------------
(***************************************************************************)
(* C02 - the token layer of the Newick / NEXUS writers and readers.        *)
(*                                                                         *)
(* Characters are abstracted to classes, written as short strings:         *)
(*   "a" letter  "A" upper-case letter (only where letter case matters)    *)
(*   "1".."9" digits   "sp" space   "tab"   "nl" newline   "us" underscore *)
(*   "sq" '   "dq" "   "lp" (  "rp" )  "lb" [  "rb" ]  "lc" {  "rc" }      *)
(*   "cm" ,   "sc" ;   "co" :   "eq" =   "bs" \   "sl" /   "st" *          *)
(*   "mi" + or -   "dot" .   "bt" `   "lt" <   "gt" >   "amp" &            *)
(*   "na" non-ASCII letter   "ot" any other printable ASCII character      *)
(* Any other string is an ordinary character too (the tree-statement       *)
(* writer uses "R", "U", "W", numeric literals "n0".. and keywords "K_..").*)
(*                                                                         *)
(*   TkEscape   = nexusprocessing.escape_nexus_token (the writer's quoting *)
(*                decision) with the protect set as a parameter            *)
(*   TkStep/TkTokenize = tokenizer.Tokenizer.__next__ as a character-level *)
(*                state machine (between / unquoted / quoted / quote seen  *)
(*                inside quotes / comment with nesting), configured as     *)
(*                nexusprocessing.NexusTokenizer                           *)
(***************************************************************************)
EXTENDS Naturals, Integers, Sequences, FiniteSets, TLC

\* ------------------------------------------------------------ tokenizer configuration (NexusTokenizer)
TkUncaptured == {"sp", "tab", "nl"}
TkCaptured == {"lc", "rc", "lp", "rp", "cm", "sc", "co", "eq", "bs", "dq"}
TkQuote == "sq"
TkComBegin == "lb"
TkComEnd == "rb"
TkWhite == {"sp", "tab"}          \* whitespace a label may contain (side condition: not leading/trailing)

\* the 28 classes a label is made of at the token level
TkLabelAlphabet == {"a", "1", "sp", "tab", "us", "sq", "dq", "lp", "rp", "lb", "rb", "lc", "rc", "cm", "sc", "co",
                    "eq", "bs", "sl", "st", "mi", "dot", "bt", "lt", "gt", "amp", "na", "ot"}

\* ------------------------------------------------------------ protect sets of the writers
\* NewickWriter._render_node_tag as shipped:  [()[\]{},;:'"\0\t\n]
TkShippedTreeProtect == {"lp", "rp", "lb", "rb", "lc", "rc", "cm", "sc", "co", "sq", "dq", "tab", "nl"}
\* default of escape_nexus_token (TAXLABELS, TRANSLATE):  [()[\]{}\\\/,;:=*'"`+\-<>\0\t\n]
TkDefaultProtect == {"lp", "rp", "lb", "rb", "lc", "rc", "bs", "sl", "cm", "sc", "co", "eq", "st", "sq", "dq", "bt",
                     "mi", "lt", "gt", "tab", "nl"}
\* what the tokenizer forces: every captured delimiter, the quote and comment characters, non-space whitespace
TkIntendedProtect == TkCaptured \cup {TkQuote, TkComBegin, TkComEnd, "tab", "nl"}

\* ------------------------------------------------------------ escape_nexus_token
TkHasAny(s, S) == \E i \in 1..Len(s) : s[i] \in S
RECURSIVE TkDoubleQuotes(_)
TkDoubleQuotes(s) == IF s = <<>> THEN <<>>
                     ELSE (IF Head(s) = TkQuote THEN <<TkQuote, TkQuote>> ELSE <<Head(s)>>) \o TkDoubleQuotes(Tail(s))
\* label: Seq(char); ps = preserve_spaces; qu = quote_underscores (= ~unquoted_underscores); dbl = quotes are doubled
TkEscapeD(label, ps, qu, protect, dbl) ==
    IF ~ps /\ ~TkHasAny(label, {"us"}) /\ ~TkHasAny(label, protect)
      THEN [i \in 1..Len(label) |-> IF label[i] \in {"sp", "tab"} THEN "us" ELSE label[i]]
    ELSE IF TkHasAny(label, protect) \/ TkHasAny(label, {"sp"}) \/ (qu /\ TkHasAny(label, {"us"}))
      THEN <<TkQuote>> \o (IF dbl THEN TkDoubleQuotes(label) ELSE label) \o <<TkQuote>>
    ELSE label
TkEscape(label, ps, qu, protect) == TkEscapeD(label, ps, qu, protect, TRUE)

\* ------------------------------------------------------------ the tokenizer
\* output items in stream order:  [k |-> "tok", s |-> chars, q |-> quoted?]  and  [k |-> "com", s |-> chars, q |-> FALSE]
TkInit == [mode |-> "between", cur |-> <<>>, depth |-> 0, com |-> <<>>, out |-> <<>>, err |-> ""]
TkEmit(st, q) == [st EXCEPT !.out = Append(@, [k |-> "tok", s |-> st.cur, q |-> q]), !.cur = <<>>, !.mode = "between"]
TkEndUnq(st) == IF st.cur = <<>> THEN [st EXCEPT !.mode = "between"] ELSE TkEmit(st, FALSE)   \* empty unquoted tokens are skipped
TkDispatch(st, c) ==                                 \* first significant character of a token
    IF c \in TkUncaptured THEN st
    ELSE IF c \in TkCaptured THEN [st EXCEPT !.out = Append(@, [k |-> "tok", s |-> <<c>>, q |-> FALSE])]
    ELSE IF c = TkQuote THEN [st EXCEPT !.mode = "quo", !.cur = <<>>]
    ELSE [st EXCEPT !.mode = "unq", !.cur = <<>>]     \* the character itself is consumed by the unquoted loop
\* pu = preserve_unquoted_underscores; uq = mutant switch: underscores are converted inside quotes too
TkUnq(st, c, pu) ==                                  \* one iteration of the unquoted loop
    IF c \in TkUncaptured THEN TkEndUnq(st)
    ELSE IF c \in TkCaptured THEN TkDispatch(TkEndUnq(st), c)
    ELSE IF c = TkComBegin THEN [st EXCEPT !.mode = "com", !.depth = 1, !.com = <<>>]
    ELSE [st EXCEPT !.cur = Append(@, IF c = "us" /\ ~pu THEN "sp" ELSE c)]
TkFirst(st, c, pu) == LET d == TkDispatch(st, c) IN IF d.mode = "unq" THEN TkUnq(d, c, pu) ELSE d
TkStepU(st, c, pu, uq) ==
    CASE st.mode = "between" -> TkFirst(st, c, pu)
      [] st.mode = "unq" -> TkUnq(st, c, pu)
      [] st.mode = "quo" ->
            IF c = TkQuote THEN [st EXCEPT !.mode = "quoq"]
            ELSE [st EXCEPT !.cur = Append(@, IF uq /\ c = "us" /\ ~pu THEN "sp" ELSE c)]
      [] st.mode = "quoq" ->
            IF c = TkQuote THEN [st EXCEPT !.mode = "quo", !.cur = Append(@, TkQuote)]
            ELSE TkFirst(TkEmit(st, TRUE), c, pu)
      [] st.mode = "com" ->
            IF c = TkComEnd THEN
                 (IF st.depth - 1 <= 0
                    THEN [st EXCEPT !.mode = "unq", !.depth = 0, !.com = <<>>,
                                    !.out = Append(@, [k |-> "com", s |-> st.com, q |-> FALSE])]
                    ELSE [st EXCEPT !.depth = @ - 1])
            ELSE IF c = TkComBegin THEN [st EXCEPT !.depth = @ + 1]
            ELSE [st EXCEPT !.com = Append(@, c)]
TkStep(st, c, pu) == TkStepU(st, c, pu, FALSE)
TkFinish(st) ==
    CASE st.mode = "between" -> st
      [] st.mode = "unq" -> TkEndUnq(st)
      [] st.mode = "quo" -> [st EXCEPT !.err = "UnterminatedQuote"]
      [] st.mode = "quoq" -> TkEmit(st, TRUE)
      [] st.mode = "com" -> TkEndUnq([st EXCEPT !.out = Append(@, [k |-> "com", s |-> st.com, q |-> FALSE])])
\* the fold over the characters, by halving the index range (evaluation depth log n instead of n: TLC evaluates
\* recursive definitions on the Java stack, and a document has hundreds of characters)
RECURSIVE TkRunR(_, _, _, _, _, _)
TkRunR(st, chars, lo, hi, pu, uq) ==
    IF lo > hi THEN st
    ELSE IF lo = hi THEN TkStepU(st, chars[lo], pu, uq)
    ELSE LET mid == (lo + hi) \div 2
             s1 == TkRunR(st, chars, lo, mid, pu, uq)
         IN IF s1.mode = "" THEN s1 ELSE TkRunR(s1, chars, mid + 1, hi, pu, uq)       \* the test forces s1 first
TkRun(st, chars, i, pu, uq) == TkFinish(TkRunR(st, chars, i, Len(chars), pu, uq))
TkTokenize(chars, pu) == TkRun(TkInit, chars, 1, pu, FALSE)
TkTokens(r) == SelectSeq(r.out, LAMBDA x : x.k = "tok")

\* ------------------------------------------------------------ the input as a stream with explicit positions
\* The tokenizer consumes a character *stream*; a reader may fetch it in blocks.  blk = 0: look-ahead is
\* unbounded (the reference: one character per read, or blocks that are refilled before looking ahead).
\* blk = B > 0 models a block-buffered reader whose look-ahead for the doubled quote '' cannot see past
\* the end of the current block: a quote character that is the last character of a block closes the
\* token.  The character chars[i] sits at stream offset i - 1.
TkStepAt(st, chars, i, pu, blk) ==
    IF blk > 0 /\ st.mode = "quo" /\ chars[i] = TkQuote /\ i % blk = 0
      THEN TkEmit(st, TRUE)
      ELSE TkStepU(st, chars[i], pu, FALSE)
RECURSIVE TkRunRB(_, _, _, _, _, _)
TkRunRB(st, chars, lo, hi, pu, blk) ==
    IF lo > hi THEN st
    ELSE IF lo = hi THEN TkStepAt(st, chars, lo, pu, blk)
    ELSE LET mid == (lo + hi) \div 2
             s1 == TkRunRB(st, chars, lo, mid, pu, blk)
         IN IF s1.mode = "" THEN s1 ELSE TkRunRB(s1, chars, mid + 1, hi, pu, blk)
TkTokenizeB(chars, pu, blk) == TkFinish(TkRunRB(TkInit, chars, 1, Len(chars), pu, blk))
\* n characters that carry no token: whitespace, line breaks or one comment
TkPad(kind, n) ==
    CASE kind = "ws" -> [i \in 1..n |-> "sp"]
      [] kind = "nl" -> [i \in 1..n |-> "nl"]
      [] kind = "com" -> IF n < 2 THEN [i \in 1..n |-> "sp"]
                         ELSE <<TkComBegin>> \o [i \in 1..(n - 2) |-> "a"] \o <<TkComEnd>>
\* a statement in which the escaped label meets every kind of neighbour: punctuation, a comment, whitespace
TkStmt(esc) == <<"lp">> \o esc \o <<"cm">> \o esc \o <<"co", "a", "rp">> \o esc \o <<"lb", "a", "rb", "sp">> \o esc \o <<"sc">>
TkSig(r) == [err |-> r.err, toks |-> [i \in 1..Len(TkTokens(r)) |-> [s |-> TkTokens(r)[i].s, q |-> TkTokens(r)[i].q]]]
\* token identity does not depend on the stream offset at which the statement starts
TkOffsetIndependent(label, uu, ps, pu, protect, kind, n, blk) ==
    LET body == TkStmt(TkEscape(label, ps, ~uu, protect)) IN
    /\ TkSig(TkTokenizeB(TkPad(kind, n) \o body, pu, blk)) = TkSig(TkTokenizeB(body, pu, 0))
    /\ LET t == TkSig(TkTokenizeB(TkPad(kind, n) \o body, pu, blk)).toks IN
         /\ Len(t) = 10
         /\ t[2].s = label /\ t[4].s = label /\ t[8].s = label /\ t[9].s = label

\* ------------------------------------------------------------ the token-level property
\* side conditions of the property on one label
TkSideOk(label) == Len(label) >= 1 /\ label[1] \notin TkWhite /\ label[Len(label)] \notin TkWhite
                   /\ ~TkHasAny(label, {"nl"})
\* consistent writer/reader option pairs: uu = unquoted_underscores, ps = preserve_spaces (writer),
\* pu = preserve_underscores (reader).  Spaces written as underscores need a reader that converts them
\* back; unquoted ("soft") underscores need a reader that keeps them.
TkConsistent(uu, ps, pu) == (~ps => ~pu) /\ (uu => pu)
\* the label comes back as exactly one token (in the context "(label:"), and a label that would
\* otherwise be mistaken for punctuation arrives flagged as quoted
TkStructural == {"lp", "rp", "cm", "sc", "co"}
TkLabelRT(label, uu, ps, pu, protect) ==
    LET r == TkTokenize(<<"lp">> \o TkEscape(label, ps, ~uu, protect) \o <<"co">>, pu)
        t == TkTokens(r)
    IN /\ r.err = ""
       /\ Len(r.out) = 3
       /\ Len(t) = 3
       /\ t[1] = [k |-> "tok", s |-> <<"lp">>, q |-> FALSE]
       /\ t[2].s = label
       /\ (label \in {<<c>> : c \in TkStructural} => t[2].q)
       /\ t[3] = [k |-> "tok", s |-> <<"co">>, q |-> FALSE]

\* all sequences over S of length 1..n
TkSeqsUpTo(S, n) == UNION {[1..k -> S] : k \in 1..n}
=============================================================================
