SPECIFICATION Spec
CONSTANTS
  DepthTable <- DocumentedDepthTable
  MRoutes = {"deepcopy", "clone2", "clone1", "tns_copy", "ctor", "copy", "clone0", "ctor_newns", "extract", "extract_ref"}
  MOps = {"SetLabel", "SetLength", "SetNodeLabel", "RelabelTaxon", "AddTaxon", "AddAnnotation", "ChangeAnnotation", "ChangeBoundAttr", "Encode", "Structural", "SetCell", "AddComment"}
  MClasses = {"Tree", "TreeList", "Matrix", "Namespace"}
  MConfigs = {"default", "ns_locked"}
  XrefShapes = FALSE
  MaxSteps = 1
  MaxCopies = 2
  Bug = "locked_ns_shared"
INVARIANT SharingExactlyAsDocumented
CHECK_DEADLOCK FALSE
