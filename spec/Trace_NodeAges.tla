--------------------------- MODULE Trace_NodeAges ---------------------------
(* C17 trace validation: every logged call of the real library (ages with    *)
(* every option combination, depths, lineage counts, ages -> edge lengths,   *)
(* statistics with every normalisation) is compared with the definitions of  *)
(* NodeAges evaluated by TLC on the projected tree.  Floats arrive as        *)
(* scaled integers (lengths, ages: multiples of 1/LScale, -1 None, -2 not    *)
(* representable) or as rationals <<num, den, representation-ok>>            *)
(* (harness/vlib/proj.rat); TLC compares rationals in lowest terms exactly.  *)
EXTENDS NodeAges, Json, IOUtils
Tr == ndJsonDeserialize(IOEnv.TRACE_FILE)
VARIABLES l, bad
V(c, k) == <<[clause |-> c, class |-> k]>>
None == <<>>
RatIs(v, r) == v[3] /\ <<v[1], v[2]>> = r
Among(g, ids, vals) == NaSortAsc([i \in 1..Len(ids) |-> vals[ids[i]]])
InternalSeq(g) == SelectSeq(NodeSeq(g), LAMBDA x : ~IsLeaf(g, x))
LeafIdSeq(g) == SelectSeq(NodeSeq(g), LAMBDA x : IsLeaf(g, x))
SpreadOf(S) == Max(S) - Min(S)
\* events carry hist = "" (freshly built tree) or the history that preceded the query: every cache populated
\* (bipartition encoding, ages, root distances, depths), then an edit without update.  The expected value is
\* always the definition on the tree as projected AFTER the edit; the class tells the two situations apart.
Stale(e) == IF e.hist = "" THEN "" ELSE "@stale_caches"

\* ------------------------------------------------------------------ calc_node_ages / node_ages / internal_node_ages
JudgeAgeRun(g, td, exact, r, sfx) ==
    LET forced == r.fmax \/ r.fmin
        checked == ~forced /\ ~r.dis
        um == \A x \in Internals(g) : SpreadOf(td[x]) * r.prec[2] <= r.prec[1] * LScale
        mode == IF r.fmax THEN "max" ELSE IF r.fmin THEN "min" ELSE IF r.dis THEN "disabled" ELSE "checked"
        cls == r.api \o "/" \o mode \o sfx
        shape == IF exact THEN "/exact" ELSE "/inexact"
    IN IF checked /\ ~um
         THEN (IF r.raised = "UltrametricityError" THEN None
               ELSE V("C17.RejectNonUltrametric",
                      IF r.raised # "" THEN cls \o ":" \o r.raised
                      ELSE IF ShippedAccepts(g, r.prec) THEN "within_prec_of_first_child_only" ELSE cls))
       ELSE IF r.raised # ""
         THEN V(IF checked THEN "C17.AcceptUltrametric" ELSE "C17.CheckDisabledOrForced", cls \o ":" \o r.raised)
       ELSE (IF r.fmax THEN (IF \A x \in Nodes(g) : r.ages[x] = Max(td[x]) THEN None ELSE V("C17.ForcedMaxAge", cls))
             ELSE IF r.fmin THEN (IF \A x \in Nodes(g) : r.ages[x] = Min(td[x]) THEN None ELSE V("C17.ForcedMinAge", cls))
             ELSE (IF \A x \in Nodes(g) : r.ages[x] \in td[x] THEN None ELSE V("C17.AgeIsTipDistance", cls \o shape)))
            \o (IF NaSortAsc(r.ret) = Among(g, IF r.intonly THEN InternalSeq(g) ELSE NodeSeq(g), r.ages)
                THEN None ELSE V("C17.AgeList", cls \o (IF r.intonly THEN "/internal" ELSE "/all")))

JudgeAges(e) ==
    LET g == e.g
        td == [x \in Nodes(g) |-> TipDist(g, x)]
        exact == \A x \in Nodes(g) : Cardinality(td[x]) = 1
    IN Flatten([i \in 1..Len(e.runs) |-> JudgeAgeRun(g, td, exact, e.runs[i], Stale(e))])

\* ------------------------------------------------------------------ depths, root distances, resolved ages
JudgeDepths(e) ==
    LET g == e.g
        dp == [x \in 1..g.n |-> Depth(g, x)]
        deep == Max(LeafDepths(g))
        D(ok, k) == IF ok THEN None ELSE V("C17.DepthIsRootDistance", k \o Stale(e))
    IN IF e.raised # "" THEN V("C17.DepthIsRootDistance", "raised:" \o e.raised)
       ELSE D(e.rnd = dp, "resolve_node_depths") \o D(e.rnd_attr = dp, "resolve_node_depths/attr")
            \o D(e.crd_attr = dp, "calc_node_root_distances/attr")
            \o D(NaSortAsc(e.crd_leaf) = Among(g, LeafIdSeq(g), dp), "calc_node_root_distances/leaves")
            \o D(NaSortAsc(e.crd_all) = Among(g, NodeSeq(g), dp), "calc_node_root_distances/all")
            \o D(e.maxd = deep, "max_distance_from_root")
            \o D(e.minmax = <<Min(LeafDepths(g)), deep>>, "minmax_leaf_distance_from_root")
            \o (IF e.rna = [x \in 1..g.n |-> ResolvedAge(g, x)] /\ e.rna_attr = e.rna THEN None
                ELSE V("C17.ResolvedAge", (IF Ultrametric(g, RZero) THEN "ultrametric" ELSE "non_ultrametric") \o Stale(e)))

\* ------------------------------------------------------------------ num_lineages_at
QClass(g, d2) ==
    IF d2 = 0 THEN "at_root"
    ELSE IF d2 > 2 * Max({Depth(g, x) : x \in Nodes(g)}) THEN "beyond_deepest_node"
    ELSE IF \E x \in Nodes(g) : 2 * Depth(g, x) = d2 THEN "at_node_depth" ELSE "between_node_depths"
JudgeLineages(e) ==
    LET g == e.g
        badq == {i \in 1..Len(e.q) : e.q[i][2] # Lineages(g, e.q[i][1])}
        classes == {QClass(g, e.q[i][1]) : i \in badq}
        one(c) == IF c \in classes THEN V("C17.LineagesAreCrossingEdges", c \o Stale(e)) ELSE None
    IN IF e.raised # "" THEN V("C17.LineagesAreCrossingEdges", "raised:" \o e.raised)
       ELSE one("at_root") \o one("at_node_depth") \o one("between_node_depths") \o one("beyond_deepest_node")

\* ------------------------------------------------------------------ set_edge_lengths_from_node_ages
JudgeLenRun(g, r) ==
    LET opt == [hasmin |-> r.hasmin, min |-> r.min, err |-> r.err]
        cls == r.mode \o (IF r.hasmin THEN "/min" ELSE "/nomin") \o (IF r.err THEN "/err" ELSE "")
        want == EdgeLengthsFromAges(g, r.ages, opt)
    IN IF EdgeLengthsError(g, r.ages, opt)
         THEN (IF r.raised = "ValueError" THEN None ELSE V("C17.EdgeLengthsFromAges", cls \o "/negative:" \o r.raised))
       ELSE IF r.raised # "" THEN V("C17.EdgeLengthsFromAges", cls \o ":" \o r.raised)
       ELSE (IF r.newlen = want THEN None ELSE V("C17.EdgeLengthsFromAges", cls))
            \* ages of an accepted tree give the original lengths back (exactly on an exactly ultrametric tree,
            \* within the spread of the tip distances otherwise) unless a positive minimum length was asked for
            \o (IF r.mode # "checked" \/ (r.hasmin /\ r.min > 0) THEN None
                ELSE IF \A x \in NonRoot(g) : NaAbs(r.newlen[x] - g.len[x]) <= Spread(g, g.par[x]) THEN None
                ELSE V("C17.AgesRestoreLengths", cls \o (IF Ultrametric(g, RZero) THEN "/exact" ELSE "/inexact")))
JudgeEdgeLens(e) == Flatten([i \in 1..Len(e.runs) |-> JudgeLenRun(e.g, e.runs[i])])

\* ------------------------------------------------------------------ statistics
\* st = [name, v = <<num, den, ok>>, raised].  Yule / PDA values and gamma arrive with the closed-form
\* transcendental factor already removed by the harness (DESIGN 5): TLC judges the rational part.
StatClause(name) ==
    CASE name = "length" -> "C17.Length"
      [] name = "nbar" -> "C17.NBar"
      [] name = "b1" -> "C17.B1"
      [] name = "treeness" -> "C17.Treeness"
      [] name = "gamma" -> "C17.Gamma"
      [] name \in {"sackin_default", "sackin_true", "sackin_none", "sackin_false", "sackin_yule", "sackin_pda"} -> "C17.Sackin"
      [] OTHER -> "C17.Colless"
\* <<defined?, expected rational>>
StatWant(g, name) ==
    CASE name = "length" -> <<TRUE, RInt(Length(g))>>
      [] name = "nbar" -> <<TRUE, NBar(g)>>
      [] name \in {"sackin_default", "sackin_true"} -> <<TRUE, NBar(g)>>
      [] name \in {"sackin_none", "sackin_false", "sackin_yule", "sackin_pda"} -> <<TRUE, RInt(Sackin(g))>>
      [] name \in {"colless_default", "colless_max", "colless_true"} ->
            IF IsBinary(g) /\ NLeaves(g) >= 3 THEN <<TRUE, CollessMax(g)>> ELSE <<FALSE, RZero>>
      [] name \in {"colless_none", "colless_false", "colless_yule", "colless_pda"} ->
            IF IsBinary(g) THEN <<TRUE, RInt(Colless(g))>> ELSE <<FALSE, RZero>>
      [] name = "b1" -> <<TRUE, B1(g)>>
      [] name = "treeness" -> IF SubtendedLen(g) > 0 THEN <<TRUE, Treeness(g)>> ELSE <<FALSE, RZero>>
      [] name = "gamma" -> IF GammaDefined(g) THEN <<TRUE, GammaParts(g).ratio>> ELSE <<FALSE, RZero>>
JudgeStat(g, api, st, sfx) ==
    LET w == StatWant(g, st.name) IN
    IF ~w[1] THEN None                                     \* outside the documented precondition: free
    ELSE IF sfx # "" THEN (IF st.raised = "" /\ RatIs(st.v, w[2]) THEN None ELSE V(StatClause(st.name), api \o "/" \o st.name \o sfx))
    ELSE IF st.raised # "" THEN V(StatClause(st.name), api \o "/" \o st.name \o ":" \o st.raised)
    ELSE IF RatIs(st.v, w[2]) THEN None
    ELSE V(StatClause(st.name), api \o "/" \o st.name \o (IF st.v[3] THEN "" ELSE "/not_representable"))
JudgeStats(e) ==
    IF e.nl # NLeaves(e.g) THEN V("C17.InputWellFormed", "harness_leaf_count")
    ELSE Flatten([i \in 1..Len(e.stats) |-> JudgeStat(e.g, e.api, e.stats[i], Stale(e))])

\* pybus_harvey_gamma(tree, prec): documented to raise when the paths differ by more than prec (an absolute number)
JudgeGammaPrec(e) ==
    LET g == e.g IN
    IF e.nl # NLeaves(g) THEN V("C17.InputWellFormed", "harness_leaf_count")
    ELSE IF ~(IsBinary(g) /\ NLeaves(g) >= 3 /\ Max(LeafDepths(g)) > 0) THEN None     \* outside the precondition: free
    ELSE IF ~Ultrametric(g, e.prec)
      THEN (IF e.raised = "UltrametricityError" THEN None
            ELSE V("C17.Gamma", IF e.raised # "" THEN "prec/not_rejected:" \o e.raised
                                ELSE IF ShippedAccepts(g, e.prec) THEN "prec/within_prec_of_first_child_only"
                                ELSE "prec/not_rejected"))
    \* within the precision: the tree must not be REJECTED AS NON-ULTRAMETRIC.  Another exception is a clause
    \* only where the statistic is defined (exactly ultrametric, GammaDefined): on a merely within-precision tree
    \* the first-child ages can make every waiting time zero and the published formula divides by their sum.
    ELSE IF e.raised = "UltrametricityError" THEN V("C17.Gamma", "prec/rejected_within_precision:" \o e.raised)
    ELSE IF e.raised # "" THEN (IF Ultrametric(g, RZero) /\ GammaDefined(g) THEN V("C17.Gamma", "prec/raised:" \o e.raised) ELSE None)
    ELSE IF Ultrametric(g, RZero) /\ ~RatIs(e.v, GammaParts(g).ratio) THEN V("C17.Gamma", "prec/value")
    ELSE None

\* the same calls on a tree whose child lists were permuted: equal results (where defined for the original)
JudgePerm(e) ==
    IF WFClause(e.g2) # "ok" \/ Unordered(e.g, e.g.seed) # Unordered(e.g2, e.g2.seed)
      THEN V("C17.InputWellFormed", "harness_not_a_child_permutation")
    ELSE Flatten([i \in 1..Len(e.a) |->
            IF ~StatWant(e.g, e.a[i].name)[1] THEN None
            ELSE IF e.a[i].name = e.b[i].name /\ e.a[i].raised = e.b[i].raised /\ e.a[i].v = e.b[i].v THEN None
            ELSE V("C17.ChildOrderInvariant", e.a[i].name)])

Judge(e) ==
    IF WFClause(e.g) # "ok" THEN V("C17.InputWellFormed", WFClause(e.g))
    ELSE IF \E x \in NonRoot(e.g) : e.g.len[x] < 0 THEN V("C17.InputWellFormed", "harness_length_not_representable")
    ELSE CASE e.action = "Ages" -> JudgeAges(e)
           [] e.action = "Depths" -> JudgeDepths(e)
           [] e.action = "Lineages" -> JudgeLineages(e)
           [] e.action = "EdgeLens" -> JudgeEdgeLens(e)
           [] e.action = "Stats" -> JudgeStats(e)
           [] e.action = "GammaPrec" -> JudgeGammaPrec(e)
           [] e.action = "StatsPerm" -> JudgePerm(e)

Init == l = 1 /\ bad = <<>>
Next == /\ l <= Len(Tr)
        /\ LET v == Judge(Tr[l]) IN
             bad' = bad \o [k \in 1..Len(v) |-> [i |-> l, clause |-> v[k].clause, class |-> v[k].class]]
        /\ l' = l + 1
Spec == Init /\ [][Next]_<<l, bad>>
Done == l = Len(Tr) + 1 => JsonSerialize(IOEnv.OUT_FILE, [n |-> Len(Tr), bad |-> bad])
Accepted == TLCGet("stats").diameter - 1 = Len(Tr)
=============================================================================
