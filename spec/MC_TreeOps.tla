---------------------------- MODULE MC_TreeOps ----------------------------
(***************************************************************************)
(* Bounded model for C03 / C07: every history of public tree operations up *)
(* to MaxDepth from every small start tree.  Node arguments are node keys  *)
(* (stable identities), so that the dumped behaviours can be replayed on   *)
(* real trees whatever child order the library produced.                   *)
(* `op` records the call of the last step (excluded from the VIEW, so it   *)
(* does not multiply states); the property clauses are action properties   *)
(* over (g, op', g').                                                      *)
(***************************************************************************)
EXTENDS TreeOps
CONSTANTS MaxN,        \* start trees: at most MaxN nodes ...
          MaxLeaves,   \* ... and MaxLeaves leaves
          StartUnif,   \* start trees may contain out-degree-one nodes
          MaxDepth,    \* history length
          Fam,         \* enabled actions (names)
          Rootings,    \* subset of {0, 1}
          LenPats,     \* names of edge-length patterns
          ShapeMode,   \* "ordered": every ordered shape; "unordered": one child order per shape
          OptsFirst, OptsLater,   \* option triples <<update_bipartitions, suppress_unifurcations,
                                  \* collapse_unrooted_basal_bifurcation>> explored at the first / at later steps
          EdgePairs,   \* requested <<length1, length2>> for reroot_at_edge
          Thresholds,  \* collapse_unweighted_edges thresholds (scaled)
          MaxK         \* bound on node keys
VARIABLES g, enc, depth, op
vars == <<g, enc, depth, op>>
view == <<g, enc, depth>>

\* ------------------------------------------------------------ start trees
NoUnif(p) == \A x \in 1..Len(p) : Cardinality({i \in 1..Len(p) : p[i] = x}) # 1
\* preorder parent arrays, built incrementally (TreeBase!ParentArrays filters n^n functions)
RECURSIVE PArr(_)
PArr(n) == IF n = 1 THEN {<<0>>} ELSE UNION {{Append(p, a) : a \in AncOfIn(p, n - 1)} : p \in PArr(n - 1)}
SubSize(p, x) == Cardinality({i \in 1..Len(p) : x \in AncOfIn(p, i)})
SizeSorted(p) == \A x, y \in 2..Len(p) : (p[x] = p[y] /\ x < y) => SubSize(p, x) >= SubSize(p, y)
Shapes == UNION {{p \in PArr(n) : /\ NumLeavesOfParents(p) <= MaxLeaves
                                   /\ (StartUnif \/ NoUnif(p))
                                   /\ (ShapeMode = "ordered" \/ SizeSorted(p))} : n \in 1..MaxN}
Cyc(q, i) == q[(i % Len(q)) + 1]
LenChoices(pat, n) ==
    CASE pat = "none"   -> {[i \in 1..n |-> -1]}
      [] pat = "unit"   -> {[i \in 1..n |-> IF i = 1 THEN -1 ELSE 16]}
      [] pat = "zero"   -> {[i \in 1..n |-> IF i = 1 THEN -1 ELSE 0]}
      [] pat = "mixed"  -> {[i \in 1..n |-> IF i = 1 THEN -1 ELSE Cyc(<<0, 16, 32>>, i)]}
      [] pat = "mixed2" -> {[i \in 1..n |-> IF i = 1 THEN -1 ELSE Cyc(<<32, 16, 16, 0, 48>>, i)]}
      [] pat = "rootlen" -> {[i \in 1..n |-> IF i = 1 THEN 16 ELSE Cyc(<<16, 32>>, i)]}
      [] pat = "rootmixed" -> {[i \in 1..n |-> IF i = 1 THEN 16 ELSE Cyc(<<-1, 16, 32>>, i)]}    \* seed edge length, some branches without
      [] pat = "all12"  -> {q \in [1..n -> {-1, 16, 32}] : q[1] = -1 /\ \A i \in 2..n : q[i] # -1}
      [] pat = "all012" -> {q \in [1..n -> {-1, 0, 16, 32}] : q[1] = -1 /\ \A i \in 2..n : q[i] # -1}
StartTrees == {WithKeys(MkTree(p, [i \in 1..Len(p) |-> i], q, r)) :
                 p \in Shapes, r \in Rootings, q \in UNION {LenChoices(pat, MaxN) : pat \in LenPats}}
\* (a length sequence longer than the tree is cut to its size)
Cut(t) == [t EXCEPT !.len = SubSeq(@, 1, t.n)]
AllTaxa == 1..MaxLeaves

Init == /\ g \in {Cut(t) : t \in StartTrees}
        /\ enc = "none" /\ depth = 0 /\ op = Call0("Init")

\* ------------------------------------------------------------ steps
N(k) == NodeOfKey(g, k)
EncAfter(g2, ub) == IF ub THEN "cur"
                    ELSE IF enc = "cur" /\ (UShape(g2, g2.seed) # UShape(g, g.seed) \/ g2.rooted # g.rooted) THEN "stale" ELSE enc
Do(name, o, r, ub) ==
    /\ name \in Fam
    /\ depth < MaxDepth
    /\ depth' = depth + 1
    /\ g' = Rekey(Compact(r.g), MaxKey(g))
    /\ enc' = EncAfter(g', ub)
    /\ op' = [o EXCEPT !.raised = r.raised]
OptSet == IF depth = 0 THEN OptsFirst ELSE OptsLater
O3(ub, su, cb) == <<ub, su, cb>> \in OptSet
O2(ub, su) == \E cb \in BOOLEAN : <<ub, su, cb>> \in OptSet
O1(ub) == \E su, cb \in BOOLEAN : <<ub, su, cb>> \in OptSet
OSC(su, cb) == \E ub \in BOOLEAN : <<ub, su, cb>> \in OptSet
IsInternalKey(k) == HasKey(g, k) /\ ~IsLeaf(g, N(k))
NonSeedKey(k) == HasKey(g, k) /\ g.par[N(k)] # 0

ReseedAt(k, ub, su, cb) == O3(ub, su, cb) /\ IsInternalKey(k) /\
    Do("ReseedAt", [Call0("ReseedAt") EXCEPT !.x = k, !.ub = ub, !.su = su, !.cb = cb], OpReseedAt(g, N(k), ub, su, cb), ub)
RerootAtNode(k, ub, su, cb) == O3(ub, su, cb) /\ IsInternalKey(k) /\
    Do("RerootAtNode", [Call0("RerootAtNode") EXCEPT !.x = k, !.ub = ub, !.su = su, !.cb = cb], OpRerootAtNode(g, N(k), su), ub)
RerootAtEdge(k, lp, ub, su) == O2(ub, su) /\ NonSeedKey(k) /\
    Do("RerootAtEdge", [Call0("RerootAtEdge") EXCEPT !.x = k, !.l1 = lp[1], !.l2 = lp[2], !.ub = ub, !.su = su],
       OpRerootAtEdge(g, N(k), lp[1], lp[2], su), ub)
RerootAtMidpoint(ub, su, cb) == O3(ub, su, cb) /\ MidpointOk(g) /\ MidpointExact(g) /\
    Do("RerootAtMidpoint", [Call0("RerootAtMidpoint") EXCEPT !.ub = ub, !.su = su, !.cb = cb], OpRerootAtMidpoint(g, su), ub)
ToOutgroupPosition(k, ub, su) == O2(ub, su) /\ NonSeedKey(k) /\
    Do("ToOutgroupPosition", [Call0("ToOutgroupPosition") EXCEPT !.x = k, !.ub = ub, !.su = su], OpToOutgroupPosition(g, N(k), ub, su), ub)
Deroot == "Deroot" \in Fam /\ Do("Deroot", Call0("Deroot"), OpCollapseBasalBifurcation(g, TRUE), FALSE)
CollapseBasalBifurcation(f) == "CollapseBasalBifurcation" \in Fam /\
    Do("CollapseBasalBifurcation", [Call0("CollapseBasalBifurcation") EXCEPT !.f = f], OpCollapseBasalBifurcation(g, f), FALSE)
SuppressUnifurcations(ub) == O1(ub) /\
    Do("SuppressUnifurcations", [Call0("SuppressUnifurcations") EXCEPT !.ub = ub], OpSuppressUnifurcations(g), ub /\ enc = "cur")
CollapseEdge(k, f) == NonSeedKey(k) /\
    Do("CollapseEdge", [Call0("CollapseEdge") EXCEPT !.x = k, !.f = f], OpCollapseEdge(g, N(k), f), FALSE)
CollapseClade(k) == IsInternalKey(k) /\
    Do("CollapseClade", [Call0("CollapseClade") EXCEPT !.x = k], OpCollapseClade(g, N(k)), FALSE)
CollapseUnweightedEdges(thr, ub) == O1(ub) /\
    Do("CollapseUnweightedEdges", [Call0("CollapseUnweightedEdges") EXCEPT !.l1 = thr, !.ub = ub], OpCollapseUnweightedEdges(g, thr, ub), ub)
ResolvePolytomies(ub) == O1(ub) /\
    Do("ResolvePolytomies", [Call0("ResolvePolytomies") EXCEPT !.ub = ub], OpResolvePolytomies(g, ub), ub)
PruneSubtree(k, ub, su) == O2(ub, su) /\ HasKey(g, k) /\
    Do("PruneSubtree", [Call0("PruneSubtree") EXCEPT !.x = k, !.ub = ub, !.su = su], OpPruneSubtree(g, N(k), ub, su), ub /\ g.par[N(k)] # 0)
PruneTaxa(S, ub, su) == O2(ub, su) /\ S # {} /\ S \subseteq TreeTx(g) /\ HasKept(g, g.seed, S) /\
    Do("PruneTaxa", [Call0("PruneTaxa") EXCEPT !.S = S, !.ub = ub, !.su = su], OpPruneTaxa(g, S, ub, su), ub)
RetainTaxa(S, ub, su) == O2(ub, su) /\ S # {} /\ S \subseteq TreeTx(g) /\ S # TreeTx(g) /\
    Do("RetainTaxa", [Call0("RetainTaxa") EXCEPT !.S = S, !.ub = ub, !.su = su], OpRetainTaxa(g, S, AllTaxa, ub, su), ub)
Ladderize(f) == "Ladderize" \in Fam /\ Do("Ladderize", [Call0("Ladderize") EXCEPT !.f = f], OpLadderize(g, f), FALSE)
Reorder(f) == "Reorder" \in Fam /\ Do("Reorder", [Call0("Reorder") EXCEPT !.f = f], OpReorder(g, f), FALSE)
NewChild(k) == IsInternalKey(k) /\ g.n < MaxN + 2 /\
    Do("NewChild", [Call0("NewChild") EXCEPT !.x = k, !.l1 = 16], OpNewChild(g, N(k), 16), FALSE)
InsertNewChild(k, i) == IsInternalKey(k) /\ g.n < MaxN + 2 /\ i <= Len(g.kids[N(k)]) /\
    Do("InsertNewChild", [Call0("InsertNewChild") EXCEPT !.x = k, !.i = i, !.l1 = -1], OpInsertNewChild(g, N(k), i + 1, -1), FALSE)
\* move a child to position i (0-based, as insert_child counts)
InsertChild(k, i) == NonSeedKey(k) /\ i < Len(g.kids[g.par[N(k)]]) /\
    Do("InsertChild", [Call0("InsertChild") EXCEPT !.x = k, !.y = g.key[g.par[N(k)]], !.i = i], OpInsertChild(g, g.par[N(k)], i + 1, N(k)), FALSE)
RemoveChild(k, su) == NonSeedKey(k) /\
    Do("RemoveChild", [Call0("RemoveChild") EXCEPT !.x = k, !.y = g.key[g.par[N(k)]], !.su = su], OpRemoveChild(g, g.par[N(k)], N(k), su), FALSE)
EncodeBipartitions(su, cb) == OSC(su, cb) /\
    Do("EncodeBipartitions", [Call0("EncodeBipartitions") EXCEPT !.su = su, !.cb = cb, !.ub = TRUE], OpEncodeBipartitions(g, su, cb), TRUE)

\* error-path family: calls the library refuses with a documented error; the tree must stay as it was.
\* (explored as the first call of a history; later positions are covered by the random histories)
ErrOk == depth = 0
RemoveNonChild(k, j, su) == ErrOk /\ HasKey(g, k) /\ HasKey(g, j) /\ k # j /\ g.par[N(k)] # N(j) /\
    Do("RemoveNonChild", [Call0("RemoveNonChild") EXCEPT !.x = k, !.y = j, !.su = su], R(g, "ValueError"), FALSE)
AddChildSelf(k) == ErrOk /\ HasKey(g, k) /\
    Do("AddChildSelf", [Call0("AddChildSelf") EXCEPT !.x = k], R(g, "AssertionError"), FALSE)
AddChildParent(k) == ErrOk /\ NonSeedKey(k) /\
    Do("AddChildParent", [Call0("AddChildParent") EXCEPT !.x = k, !.y = g.key[g.par[N(k)]]], R(g, "AssertionError"), FALSE)
Keys == 1..MaxK
\* cfg files cannot write tuples: EdgePairs <- one of these
EdgePairsSmall == {<<-1, -1>>, <<16, 32>>}
EdgePairsFull == {<<-1, -1>>, <<16, 32>>, <<0, 16>>, <<8, 8>>, <<32, -1>>}
OptsAll == BOOLEAN \X BOOLEAN \X BOOLEAN
OptsOA == {<<FALSE, FALSE, FALSE>>, <<FALSE, TRUE, TRUE>>, <<TRUE, FALSE, TRUE>>, <<TRUE, TRUE, FALSE>>}   \* every pair of option values
OptsDefault == {<<FALSE, TRUE, TRUE>>}
Next == \/ \E k \in Keys, ub \in BOOLEAN, su \in BOOLEAN, cb \in BOOLEAN : ReseedAt(k, ub, su, cb)
        \/ \E k \in Keys, ub \in BOOLEAN, su \in BOOLEAN, cb \in BOOLEAN : RerootAtNode(k, ub, su, cb)
        \/ \E k \in Keys, lp \in EdgePairs, ub \in BOOLEAN, su \in BOOLEAN : RerootAtEdge(k, lp, ub, su)
        \/ \E ub \in BOOLEAN, su \in BOOLEAN, cb \in BOOLEAN : RerootAtMidpoint(ub, su, cb)
        \/ \E k \in Keys, ub \in BOOLEAN, su \in BOOLEAN : ToOutgroupPosition(k, ub, su)
        \/ Deroot
        \/ \E f \in BOOLEAN : CollapseBasalBifurcation(f)
        \/ \E ub \in BOOLEAN : SuppressUnifurcations(ub)
        \/ \E k \in Keys, f \in BOOLEAN : CollapseEdge(k, f)
        \/ \E k \in Keys : CollapseClade(k)
        \/ \E thr \in Thresholds, ub \in BOOLEAN : CollapseUnweightedEdges(thr, ub)
        \/ \E ub \in BOOLEAN : ResolvePolytomies(ub)
        \/ \E k \in Keys, ub \in BOOLEAN, su \in BOOLEAN : PruneSubtree(k, ub, su)
        \/ \E S \in SUBSET AllTaxa, ub \in BOOLEAN, su \in BOOLEAN : PruneTaxa(S, ub, su)
        \/ \E S \in SUBSET AllTaxa, ub \in BOOLEAN, su \in BOOLEAN : RetainTaxa(S, ub, su)
        \/ \E f \in BOOLEAN : Ladderize(f)
        \/ \E f \in BOOLEAN : Reorder(f)
        \/ \E k \in Keys : NewChild(k)
        \/ \E k \in Keys, i \in 0..1 : InsertNewChild(k, i)
        \/ \E k \in Keys, i \in 0..2 : InsertChild(k, i)
        \/ \E k \in Keys, su \in BOOLEAN : RemoveChild(k, su)
        \/ \E su \in BOOLEAN, cb \in BOOLEAN : EncodeBipartitions(su, cb)
        \/ \E k \in Keys, j \in Keys, su \in BOOLEAN : RemoveNonChild(k, j, su)
        \/ \E k \in Keys : AddChildSelf(k)
        \/ \E k \in Keys : AddChildParent(k)
Spec == Init /\ [][Next]_vars

\* ------------------------------------------------------------ the properties
\* the call of this step with node keys resolved in the pre-state
CallOf(o) == [o EXCEPT !.x = IF @ = 0 THEN 0 ELSE N(@), !.y = IF @ = 0 THEN 0 ELSE N(@)]
KeysDistinct == \A x, y \in Nodes(g) : x # y => g.key[x] # g.key[y]
C03_WellFormed == WellFormed(g) /\ KeysDistinct /\ InDomain(g) /\ g.rooted \in {0, 1}
C03_Outcome == [][C03Outcome(CallOf(op'), g)]_vars
C03_ErrorLeavesTree == [][op'.raised # "" /\ {"F02"} \cap AsShipped = {} => UTree(g') = UTree(g)]_vars
C03_LeafMultiset == [][C03LeafMultiset(CallOf(op'), g, g', AllTaxa)]_vars
C03_EncodingFresh == [][op'.ub /\ enc = "cur" /\ op'.raised = "" => enc' = "cur"]_vars
IsReorient(o) == o.a \in Reorientations /\ o.raised = ""
C07_LeafSet == [][IsReorient(op') => ClSameLeafSet(C07Ref(CallOf(op'), g), g')]_vars
C07_Splits == [][IsReorient(op') => ClSameSplits(C07Ref(CallOf(op'), g), g')]_vars
C07_TotalLength == [][IsReorient(op') => ClSameTotalLength(C07Ref(CallOf(op'), g), g')]_vars
C07_Paths == [][IsReorient(op') => ClSamePaths(C07Ref(CallOf(op'), g), g')]_vars
C07_Post == [][IsReorient(op') => C07Post(CallOf(op'), g, g')]_vars
C07_RootingFlag == [][IsReorient(op') => ClRootingFlag(op'.a, g, g')]_vars
\* reorderings keep the tree itself (modulo child order)
C07_ReorderKeepsTree == [][op'.a \in {"Ladderize", "Reorder"} => UTree(g') = UTree(g)]_vars
=============================================================================
