SPECIFICATION Spec
CONSTANT MaxLen = 2
CONSTANT UseShipped = TRUE
INVARIANT TreeLabelOneToken
CHECK_DEADLOCK FALSE
