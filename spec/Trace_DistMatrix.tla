--------------------------- MODULE Trace_DistMatrix ---------------------------
(* C14 trace validation.  Every logged call of the real library is compared  *)
(* with the definitions of DistMatrix evaluated by TLC on the tree that the   *)
(* harness projected from raw pointers.  Verdicts are total: Judge(e) returns *)
(* every failing clause of every event.                                       *)
(*                                                                            *)
(* Event fields (harness/props/C14.py):                                       *)
(*   g      tree (graph form) in the state at which the call returned         *)
(*   tx     leaf taxon codes in row order of the tables                       *)
(*   lengths / distances are integers in units of 1/4 (-2: not representable, *)
(*   -9: the call raised); node results are node ids of g (0: None, -1: a     *)
(*   node that is not in the tree, -9: raised)                                *)
(*   every length of a case may carry a power-of-two scale (2^-40 .. 2^20);    *)
(*   the harness divides it out exactly, so the integers here do not depend   *)
(*   on it.  hist: the matrix object was compiled from another tree before.   *)
(*   Tm / Mrca events carry their queries compactly (see JudgeTm, JudgeMrca)  *)
(*   result trees of NJ / UPGMA: u (graph form) + rl = <<num, den>> per node  *)
(*   (exact rational of the float, DESIGN 3.2) + rx (all floats were within   *)
(*   1e-12 of a rational with a small denominator)                            *)
EXTENDS DistMatrix, Json, IOUtils
Tr == ndJsonDeserialize(IOEnv.TRACE_FILE)
VARIABLES l, bad
V(c, k) == <<[clause |-> c, class |-> k]>>
None == <<>>
Chk(ok, c, k) == IF ok THEN None ELSE V(c, k)

\* ------------------------------------------------------------------ rationals -> common integer unit
RECURSIVE CGcd(_, _)
CGcd(a, b) == IF b = 0 THEN a ELSE CGcd(b, a % b)
DenLimit == 100000
\* least common multiple of the denominators (and of 4), 0 if it exceeds DenLimit
RECURSIVE CLcmFrom(_, _, _)
CLcmFrom(q, i, acc) ==
    IF i > Len(q) THEN acc
    ELSE LET d == q[i][2] IN
         IF d <= 0 THEN 0
         ELSE LET m == acc \div CGcd(acc, d) IN
              IF m > DenLimit \div d THEN 0 ELSE CLcmFrom(q, i + 1, m * d)
CommonDen(rl) == CLcmFrom(rl, 1, 4)
ScaledW(rl, L) == TLCEval([x \in 1..Len(rl) |-> rl[x][1] * (L \div rl[x][2])])

\* matrix objects with a history: compiled from another tree first, then re-compiled from the tree of the event
Hs(e) == IF "hist" \in DOMAIN e /\ e.hist # "fresh" THEN "/recompiled_after_" \o e.hist ELSE ""
Idx(T) == 1..Len(T)
TabOk(obs, T, exp) == \A i, j \in Idx(T) : obs[i][j] = exp[<<T[i], T[j]>>]
BagOfTab(D, P) == [v \in {D[pr] : pr \in P} |-> Cardinality({pr \in P : D[pr] = v})]

\* ------------------------------------------------------------------ phylogenetic_distance_matrix()
JudgeSub(s, D, ST, api) ==
    LET S == SeqToSet(s.S) IN
    IF s.raised # "" THEN V("C14.MeanPairwise", api \o ":raised:" \o s.raised)
    ELSE Chk(s.mpd[3] /\ RatEqualsMean(s.mpd[1], s.mpd[2], SumOverPairs(D, S), NumPairs(S), 4), "C14.MeanPairwise", api \o ":weighted")
      \o Chk(s.mpdu[3] /\ RatEqualsMean(s.mpdu[1], s.mpdu[2], SumOverPairs(ST, S), NumPairs(S), 1), "C14.MeanPairwise", api \o ":edges")
      \o Chk(s.mntd[3] /\ RatEqualsMean(s.mntd[1], s.mntd[2], SumNearest(D, S), Cardinality(S), 4), "C14.MeanNearestTaxon", api \o ":weighted")
      \o Chk(s.mntdu[3] /\ RatEqualsMean(s.mntdu[1], s.mntdu[2], SumNearest(ST, S), Cardinality(S), 1), "C14.MeanNearestTaxon", api \o ":edges")

JudgePdm(e) ==
    LET g == e.g  T == e.tx  h == Hs(e)
        D == DistTab(g, W0(g))  ST == StepTab(g)  MT == MrcaTab(g)
        P == UPairs(TreeTx(g))
    IN
    IF ~TaxaOnLeavesOnly(g) \/ SeqToSet(T) # TreeTx(g) \/ Len(T) # Cardinality(TreeTx(g)) THEN V("C14.HarnessInput", "pdm")
    ELSE Chk(e.raised = "", "C14.PatristicDistance", "pdm" \o h \o ":raised:" \o e.raised)
      \o Chk(TabOk(e.pd, T, D), "C14.PatristicDistance", "pdm" \o h)
      \o Chk(TabOk(e.call, T, D), "C14.PatristicDistance", "pdm.__call__" \o h)
      \o Chk(TabOk(e.pc, T, ST), "C14.PathEdgeCount", "pdm" \o h)
      \o Chk(Len(T) < 2 \/ TabOk(e.mr, T, MT), "C14.PairMRCA", "pdm" \o h)        \* a single leaf: no pair of leaf taxa
      \o Chk(\A i, j \in Idx(T) : e.pd[i][j] = e.pd[j][i] /\ e.pc[i][j] = e.pc[j][i] /\ e.mr[i][j] = e.mr[j][i], "C14.Symmetric", "pdm" \o h)
      \o Chk(\A i \in Idx(T) : e.pd[i][i] = 0 /\ e.pc[i][i] = 0, "C14.ZeroSelfDistance", "pdm" \o h)
      \o Chk(SeqToSet(e.mapped) \subseteq TreeTx(g) /\ (Cardinality(TreeTx(g)) >= 2 => SeqToSet(e.mapped) = TreeTx(g))
               /\ Len(e.mapped) = Cardinality(SeqToSet(e.mapped)), "C14.PatristicDistance", "pdm" \o h \o ":taxa_covered")
      \o Chk(BagOfSeq(e.dists) = BagOfTab(D, P), "C14.PatristicDistance", "pdm.distances" \o h)
      \o Chk(BagOfSeq(e.distsu) = BagOfTab(ST, P), "C14.PathEdgeCount", "pdm.distances" \o h)
      \o Flatten([i \in 1..Len(e.subs) |-> JudgeSub(e.subs[i], D, ST, (IF e.subs[i].all THEN "all" ELSE "filter_fn") \o h)])

\* ------------------------------------------------------------------ node_distance_matrix()
JudgeNdm(e) ==
    LET g == e.g  h == Hs(e)
        D == NodeDistTab(g, W0(g))  ST == NodeStepTab(g)  MT == NodeMrcaTab(g)
        N == Nodes(g)
    IN
    Chk(e.raised = "", "C14.PatristicDistance", "ndm" \o h \o ":raised:" \o e.raised)
      \o Chk(\A a, b \in N : e.pd[a][b] = D[<<a, b>>], "C14.PatristicDistance", "ndm" \o h)
      \o Chk(\A a, b \in N : e.pc[a][b] = ST[<<a, b>>], "C14.PathEdgeCount", "ndm" \o h)
      \o Chk(\A a, b \in N : e.mr[a][b] = MT[<<a, b>>], "C14.PairMRCA", "ndm" \o h)

\* ------------------------------------------------------------------ matrix read back from CSV
JudgeCsv(e) ==
    LET g == e.g  T == e.tx  D == DistTab(g, W0(g)) IN
    IF ~TaxaOnLeavesOnly(g) \/ ~(SeqToSet(T) \subseteq TreeTx(g)) THEN V("C14.HarnessInput", "csv")
    ELSE Chk(e.raised = "", "C14.PatristicDistance", "csv" \o Hs(e) \o ":raised:" \o e.raised)
      \o Chk(TabOk(e.pd, T, D), "C14.PatristicDistance", "csv" \o Hs(e))

\* ------------------------------------------------------------------ treemeasure.patristic_distance
\* q[i] = <<taxon code a, taxon code b, value>>; errs = <<<<index into q, exception name>>, ...>>
RaisedAt(e, i) == IF \E j \in 1..Len(e.errs) : e.errs[j][1] = i
                  THEN ":raised:" \o e.errs[CHOOSE j \in 1..Len(e.errs) : e.errs[j][1] = i][2] ELSE ""
JudgeTm(e) ==
    LET g == e.g  D == DistTab(g, W0(g))
        badq == {i \in 1..Len(e.q) : ~(<<e.q[i][1], e.q[i][2]>> \in DOMAIN D /\ e.q[i][3] = D[<<e.q[i][1], e.q[i][2]>>])}
    IN
    IF ~TaxaOnLeavesOnly(g) THEN V("C14.HarnessInput", "treemeasure")
    ELSE IF badq = {} THEN None
    ELSE V("C14.PatristicDistance", "treemeasure/" \o e.enc \o RaisedAt(e, Min(badq)))

\* edge lengths that are not multiples of 1/4: the matrix read back from CSV is the matrix written, float for float
\* (a, b: tables of repr strings of the floats before writing / after reading)
JudgeCsvFloat(e) ==
    Chk(e.raised = "", "C14.PatristicDistance", "csv_float:raised:" \o e.raised)
      \o Chk(e.a = e.b, "C14.PatristicDistance", IF e.norm THEN "csv_float:normalized" ELSE "csv_float")

\* ------------------------------------------------------------------ Tree.mrca
\* S = the taxon sets asked about; q[i] = <<argument form (index into ModeNames), index into S, returned node id>>
ModeNames == <<"taxa", "taxon_labels", "leafset_bitmask">>
JudgeMrca(e) ==
    LET g == e.g  ltx == LeafTxTab(g)  dep == DepthTab(g)
        expd == TLCEval([k \in 1..Len(e.S) |-> MRCAExpectedT(g, ltx, dep, SeqToSet(e.S[k]))])
        badq == {i \in 1..Len(e.q) : e.q[i][3] # expd[e.q[i][2]]}
    IN
    IF ~TaxaOnLeavesOnly(g) THEN V("C14.HarnessInput", "mrca")
    ELSE IF badq = {} THEN None
    ELSE LET i == Min(badq) IN
         V("C14.MRCA", ModeNames[e.q[i][1]] \o "/" \o e.enc \o RaisedAt(e, i)
                       \o (IF SeqToSet(e.S[e.q[i][2]]) \subseteq TreeTx(g) THEN "" ELSE ":absent_taxon"))

\* ------------------------------------------------------------------ nj_tree / upgma_tree
ResultOk(t, u) == NJLeavesOk(t, u) /\ Len(u.kids) = u.n
HasPolytomy(t) == \E x \in Nodes(t) : Len(t.kids[x]) + (IF t.par[x] = 0 THEN 0 ELSE 1) > 3
\* src = "tree" / "csv": patristic distances (weights W0); "tree_steps": edge-count distances (every edge weighs 1 = 4 quarters)
SrcW(e) == IF e.src = "tree_steps" THEN TLCEval([x \in 1..e.g.n |-> 4]) ELSE W0(e.g)
JudgeNj(e) ==
    LET t == e.g  u == e.u  wt == SrcW(e)
        cls == e.src \o Hs(e) \o (IF HasPolytomy(t) THEN "/polytomy" ELSE "")
    IN
    IF ~NJAdmissibleW(t, wt) THEN None                  \* outside the precondition of the clause: not judged
    ELSE IF e.raised # "" THEN V("C14.NJTopology", cls \o ":raised:" \o e.raised)
    ELSE IF ~ResultOk(t, u) THEN V("C14.NJTopology", cls \o ":leaves")
    ELSE IF ~e.rx THEN V("C14.NJLengths", cls \o ":not_a_small_rational")
    ELSE LET L == CommonDen(e.rl) IN
         IF L = 0 THEN V("C14.NJLengths", cls \o ":denominators")
         ELSE LET wu == ScaledW(e.rl, L)  k == L \div 4 IN
              Chk(NJTopologyOk(t, wt, u, wu), "C14.NJTopology", cls)
                \o Chk(NJPathLengthsOk(t, wt, u, wu, k) /\ NJEdgeLengthsOk(t, wt, u, wu, k), "C14.NJLengths", cls)

JudgeUpgma(e) ==
    LET t == e.g  u == e.u  wt == SrcW(e)
        ultra == UPGMAAdmissibleW(t, wt)
        cls == e.src \o Hs(e) \o (IF ultra THEN "/ultrametric" ELSE "/additive")
    IN
    IF ~TaxaOnLeavesOnly(t) \/ Cardinality(Leaves(t)) < 2 THEN None
    ELSE IF ~ultra /\ Cardinality(Leaves(t)) > 8 THEN None       \* denominators of mean heights would exceed DenLimit
    ELSE IF e.raised # "" THEN V("C14.UPGMATree", cls \o ":raised:" \o e.raised)
    ELSE IF ~ResultOk(t, u) THEN V("C14.UPGMATree", cls \o ":leaves")
    ELSE IF ~e.rx THEN V("C14.UPGMATree", cls \o ":not_a_small_rational")
    ELSE LET L == CommonDen(e.rl) IN
         IF L = 0 THEN V("C14.UPGMATree", cls \o ":denominators")
         ELSE LET wu == ScaledW(e.rl, L)  k == L \div 4 IN
              (IF ultra THEN Chk(UPGMATreeOk(t, wt, u, wu, k) /\ NJPathLengthsOk(t, wt, u, wu, k), "C14.UPGMATree", cls) ELSE None)
                \o Chk(UPGMAMeanOk(t, wt, u, wu, k), "C14.UPGMAMean", cls)

Judge(e) ==
    IF WFClause(e.g) # "ok" THEN V("C14.InputWellFormed", WFClause(e.g))
    ELSE CASE e.action = "Pdm" -> JudgePdm(e)
           [] e.action = "Ndm" -> JudgeNdm(e)
           [] e.action = "Tm" -> JudgeTm(e)
           [] e.action = "Csv" -> JudgeCsv(e)
           [] e.action = "CsvFloat" -> JudgeCsvFloat(e)
           [] e.action = "Mrca" -> JudgeMrca(e)
           [] e.action = "Nj" -> JudgeNj(e)
           [] e.action = "Upgma" -> JudgeUpgma(e)

Init == l = 1 /\ bad = <<>>
Next == /\ l <= Len(Tr)
        /\ LET v == Judge(Tr[l]) IN
             bad' = bad \o [k \in 1..Len(v) |-> [i |-> l, clause |-> v[k].clause, class |-> v[k].class]]
        /\ l' = l + 1
Spec == Init /\ [][Next]_<<l, bad>>
Done == l = Len(Tr) + 1 => JsonSerialize(IOEnv.OUT_FILE, [n |-> Len(Tr), bad |-> bad])
Accepted == TLCGet("stats").diameter - 1 = Len(Tr)
=============================================================================
