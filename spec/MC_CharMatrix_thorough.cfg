SPECIFICATION Spec
CONSTANTS
  MaxOps = 3
  Configs = {1, 2, 3}
  ConcatLists <- ConcatListsFull
  IndexSets <- IndexSetsFull
  Sizes <- SizesFull
  Labels = {"", "L", "l", "K", "L_002", "locus001"}
  Targets = {1, 2, 3, 4}
  TaxonSeqs <- TaxonSeqsFull
INVARIANT TypeOK
INVARIANT ConcatRowsExact
INVARIANT ConcatSubsetsExact
INVARIANT ExportExact
INVARIANT FillExact
INVARIANT RowsExact
INVARIANT ForeignNamespaceRefused
PROPERTY ArgumentsUnchanged
CHECK_DEADLOCK FALSE
