SPECIFICATION Spec
CONSTANTS
  Quick = FALSE
  Shipped = {}
INVARIANTS OutcomeDocumented DimsConsistent Emit
PROPERTY Termination
CHECK_DEADLOCK FALSE
