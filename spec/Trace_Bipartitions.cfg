SPECIFICATION Spec
CONSTANT NormOnBit0 = FALSE
INVARIANT Done
POSTCONDITION Accepted
CHECK_DEADLOCK FALSE
