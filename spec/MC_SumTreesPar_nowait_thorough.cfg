SPECIFICATION Spec
CONSTANTS
  MaxFiles = 3
  MaxWorkers = 4
  FileSizes = {0, 1, 2}
  ShippedUpdate = FALSE
  Protocol = "nowait"
  AsyncFeeder = FALSE
  Rootings <- RootingsUnrooted
INVARIANT NoMergeFailure
INVARIANT SameSummary
INVARIANT EveryFileRead
INVARIANT EveryResultOnce
INVARIANT RootingKept
PROPERTY Termination
CHECK_DEADLOCK FALSE
