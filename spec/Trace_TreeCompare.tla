-------------------------- MODULE Trace_TreeCompare --------------------------
(* C04 trace validation.  Every logged call of the real library is compared *)
(* with the definitions of TreeCompare evaluated by TLC on the projected     *)
(* CURRENT structure of the trees (raw pointers), never on anything the      *)
(* library cached.  Verdicts are total.                                      *)
(*                                                                           *)
(* Events                                                                    *)
(*   Pair      g1, g2, calls        every public function, both orders       *)
(*             (lengths and results in units of 2^sexp / 4: the harness       *)
(*             divides the power of two out exactly)                         *)
(*   BigPair   g1, g2, calls        lengths hi * 2^32 + len / 4              *)
(*   Triple    g1, g2, g3, calls    the three pairs (field pr = 12, 23, 13)  *)
(*   NsRefusal g1, g2, calls        equal trees over two namespace objects,  *)
(*             every function x flag value x none / one / both encoded       *)
(*   Edit / Encode / Dist           one step of a history on two trees:      *)
(*             pre-state g1, g2, c1, c2 (cached encodings as logged from     *)
(*             tree.bipartition_encoding), post-state h1, h2, d1, d2         *)
(* A call record is [api, kind, ord, raised, n] (+ sp for kind missing, pr   *)
(* in triples, flag in histories):                                           *)
(*   kind rf      n = <<value>>                                              *)
(*        fpn     n = <<false positives, false negatives>>                   *)
(*        missing sp = the returned bipartitions (lists of taxon codes)      *)
(*        wrf     n = <<num, den, exact>>   the returned float as a rational *)
(*        euc     n = <<num, den, exact>>   the SQUARE of the returned float *)
(*   ord 1 = f(t1, t2), ord 2 = f(t2, t1)                                    *)
(*****************************************************************************)
EXTENDS TreeCompare, Json, IOUtils
Tr == ndJsonDeserialize(IOEnv.TRACE_FILE)
VARIABLES l, st, bad
tvars == <<l, st, bad>>

V(c, k) == <<[clause |-> c, class |-> k]>>
None == <<>>
SetOfSets(q) == {SeqToSet(q[i]) : i \in 1..Len(q)}
RECURSIVE CatAll(_)
CatAll(q) == IF q = <<>> THEN <<>> ELSE Head(q) \o CatAll(Tail(q))

\* ------------------------------------------------------------ numbers
\* a logged rational <<num, den, exact>> as an integer in units of 1/scale; -1 when it is not one
IntOf(n, scale) == IF Len(n) = 3 /\ n[3] = 1 /\ n[2] >= 1 /\ n[2] <= 4096 /\ n[1] >= 0 /\ n[1] <= 1000000
                      /\ (n[1] * scale) % n[2] = 0
                   THEN (n[1] * scale) \div n[2] ELSE -1

ClauseOf(kind) == CASE kind = "rf" -> "C04.SymmetricDifference"
                    [] kind = "fpn" -> "C04.FalsePositivesAndNegatives"
                    [] kind = "missing" -> "C04.MissingBipartitions"
                    [] kind = "wrf" -> "C04.WeightedRobinsonFoulds"
                    [] kind = "euc" -> "C04.EuclideanDistance"

\* ------------------------------------------------------------ one call against the definitions
\* everything TLC needs about an ordered pair (a, b), computed once per event
Ref(a, b, ea, eb) == [d |-> Dists(ea, eb), same |-> ea = eb, def |-> Defined(a, b),
                      amb |-> BasalLengthAmbiguous(a) \/ BasalLengthAmbiguous(b),
                      late |-> LateBasal(a) \/ LateBasal(b)]
LateClass == "unrooted_basal_bifurcation_hidden_by_unifurcation"
\* r: Ref of the trees in call order; clause: the clause to blame for a wrong value
JudgeValue(c, r, clause, tag) ==
    LET d == r.d
        cls == IF c.kind \in WeightedKinds /\ r.late THEN LateClass
               ELSE c.api \o tag \o (IF r.same THEN ":redrawing" ELSE "") IN
    IF c.kind \in WeightedKinds /\ c.raised = "ValueError"
      THEN (IF r.def THEN V("C04.DefinedWhenLengthsPresent", c.api \o tag) ELSE None)
    ELSE IF c.raised # "" THEN V(clause, c.api \o tag \o ":raised:" \o c.raised)
    ELSE CASE c.kind = "rf" -> (IF c.n = <<d.rf>> THEN None ELSE V(clause, cls))
           [] c.kind = "fpn" -> (IF c.n = <<d.fp, d.fn>> THEN None ELSE V(clause, cls))
           \* (each missing bipartition once; on a first encoding with a hidden basal bifurcation - open finding -
           \*  the list can name the basal split twice, which the statement does not exclude)
           [] c.kind = "missing" -> (IF SetOfSets(c.sp) = d.miss /\ (r.late \/ Len(c.sp) = Cardinality(d.miss)) THEN None ELSE V(clause, cls))
           [] c.kind = "wrf" -> (IF r.amb \/ IntOf(c.n, LScale) = d.wrf THEN None ELSE V(clause, cls))
           [] c.kind = "euc" -> (IF r.amb \/ IntOf(c.n, LScale * LScale) = d.euc THEN None ELSE V(clause, cls))

InputClause(g) == IF WFClause(g) # "ok" THEN WFClause(g)
                  ELSE IF \E x \in Leaves(g) : g.tx[x] = 0 THEN "LeafWithoutTaxon"
                  ELSE IF Cardinality(Leaves(g)) # Cardinality(TreeTx(g)) THEN "DuplicateTaxon"
                  ELSE IF Cardinality(Leaves(g)) < 3 THEN "FewerThanThreeLeaves"
                  ELSE IF \E x \in Nodes(g) : g.len[x] < -1 THEN "InexactLength"
                  ELSE "ok"
InputsOk(gs) == IF \E i \in 1..Len(gs) : InputClause(gs[i]) # "ok"
                  THEN V("C04.InputWellFormed", InputClause(gs[CHOOSE i \in 1..Len(gs) : InputClause(gs[i]) # "ok"]))
                ELSE IF \E i \in 1..Len(gs) : TreeTx(gs[i]) # TreeTx(gs[1]) THEN V("C04.InputWellFormed", "DifferentLeafSets")
                ELSE None

InputsEach(gs) == IF \E i \in 1..Len(gs) : InputClause(gs[i]) # "ok"
                    THEN V("C04.InputWellFormed", InputClause(gs[CHOOSE i \in 1..Len(gs) : InputClause(gs[i]) # "ok"]))
                  ELSE None

\* ------------------------------------------------------------ Pair
Ok(c) == c.raised = ""
\* the harness logs the two orders of one function next to each other: calls[2k-1] = f(t1, t2), calls[2k] = f(t2, t1)
SymClauses(calls, g1, g2, late) ==
    LET one(c, d) ==
          LET cls == IF c.kind \in WeightedKinds /\ late THEN LateClass ELSE c.api IN
          IF c.api # d.api \/ c.ord # 1 \/ d.ord # 2 THEN V("C04.Chain", "calls not logged in mirrored pairs")
          ELSE
          \* whether it is defined
          (IF c.kind \in WeightedKinds /\ c.raised \in {"", "ValueError"} /\ d.raised \in {"", "ValueError"} /\ Ok(c) # Ok(d)
             THEN V("C04.DefinednessSymmetric",
                    IF HasAllLengths(g1) /\ HasAllLengths(g2) THEN "all_lengths_present"
                    ELSE "none_length_tolerated_in_one_order")
             ELSE None)
          \* the value
          \o (IF ~Ok(c) \/ ~Ok(d) THEN None
              ELSE IF c.kind = "rf" /\ c.n # d.n THEN V("C04.Symmetric", cls)
              ELSE IF c.kind = "fpn" /\ (Len(c.n) # 2 \/ Len(d.n) # 2 \/ c.n[1] # d.n[2] \/ c.n[2] # d.n[1]) THEN V("C04.Symmetric", cls)
              ELSE IF c.kind \in WeightedKinds /\ IntOf(c.n, 16) # IntOf(d.n, 16) THEN V("C04.Symmetric", cls)
              ELSE None)
    IN IF Len(calls) % 2 # 0 THEN V("C04.Chain", "calls not logged in mirrored pairs")
       ELSE CatAll([k \in 1..(Len(calls) \div 2) |-> one(calls[2 * k - 1], calls[2 * k])])

JudgePair(e) ==
    LET g1 == e.g1  g2 == e.g2  pre == InputsOk(<<g1, g2>>) IN
    IF pre # None THEN pre
    ELSE LET e1 == Enc(g1)  e2 == Enc(g2)
             r12 == Ref(g1, g2, e1, e2)  r21 == Ref(g2, g1, e2, e1)
             jc(c) == JudgeValue(c, IF c.ord = 1 THEN r12 ELSE r21, ClauseOf(c.kind), "")
         IN CatAll([i \in 1..Len(e.calls) |-> jc(e.calls[i])]) \o SymClauses(e.calls, g1, g2, r12.late)

\* ------------------------------------------------------------ BigPair: large lengths, small differences
\* graphs carry hi (multiples of the base 2^32) next to len (the rest in quarter units); a weighted result is
\* n = <<num, den, exact, hi, negative>> (value = hi * base +- num/den), z = "the returned float is 0";
\* for the Euclidean distance num/den is the square of the value and is given when hi = 0
SmallPart(n, scale) == LET v == IntOf(<<n[1], n[2], n[3]>>, scale) IN IF n[5] = 1 THEN -v ELSE v
JudgeBigPair(e) ==
    LET g1 == e.g1  g2 == e.g2  pre == InputsOk(<<g1, g2>>) IN
    IF pre # None THEN pre
    ELSE LET l1 == Enc(g1)  l2 == Enc(g2)  h1 == Enc(HiGraph(g1))  h2 == Enc(HiGraph(g2))
             same == h1 = h2 /\ l1 = l2               \* the same weighted tree (no edge of length 0 here)
             big == WRFBig(h1, l1, h2, l2)             \* symmetric in the two trees
             samehi == SameHi(h1, h2)
             e2 == Euclid2e(l1, l2)
             jc(c) ==
               IF c.raised # "" THEN V(ClauseOf(c.kind), c.api \o ":large_lengths:raised:" \o c.raised)
               ELSE (IF c.z # same THEN V("C04.ZeroIffSameTree", c.api \o ":large_lengths") ELSE None)
                 \o (IF Len(c.n) # 5 THEN V(ClauseOf(c.kind), c.api \o ":large_lengths")
                     ELSE IF c.kind = "wrf"
                       THEN (IF IntOf(<<c.n[1], c.n[2], c.n[3]>>, LScale) >= 0 /\ <<c.n[4], SmallPart(c.n, LScale)>> = big
                               THEN None ELSE V(ClauseOf(c.kind), c.api \o ":large_lengths"))
                     \* the exact Euclidean value is decidable when the large parts cancel split by split
                     ELSE IF samehi
                       THEN (IF c.n[4] = 0 /\ IntOf(<<c.n[1], c.n[2], c.n[3]>>, LScale * LScale) = e2
                               THEN None ELSE V(ClauseOf(c.kind), c.api \o ":large_lengths"))
                     ELSE None)
             sym(c, d) == IF c.api # d.api \/ c.ord # 1 \/ d.ord # 2 THEN V("C04.Chain", "calls not logged in mirrored pairs")
                          ELSE IF c.raised = "" /\ d.raised = "" /\ (c.n # d.n \/ c.z # d.z) THEN V("C04.Symmetric", c.api \o ":large_lengths")
                          ELSE None
         IN CatAll([i \in 1..Len(e.calls) |-> jc(e.calls[i])])
            \o CatAll([k \in 1..(Len(e.calls) \div 2) |-> sym(e.calls[2 * k - 1], e.calls[2 * k])])

\* ------------------------------------------------------------ Triple: definitions + triangle inequality on the observed values
Obs(calls, api, pr) == LET m == {c \in SeqToSet(calls) : c.api = api /\ c.pr = pr} IN
                       IF m = {} THEN -1 ELSE LET c == CHOOSE c \in m : TRUE IN
                       IF ~Ok(c) THEN -1
                       ELSE IF c.kind = "rf" THEN c.n[1]
                       ELSE IF c.kind = "wrf" THEN IntOf(c.n, LScale)
                       ELSE IF c.kind = "euc" THEN IntOf(c.n, LScale * LScale) ELSE -1
TriLeq(kind, A, B, C) == IF kind = "euc" THEN (IF A > 20000 \/ B > 20000 \/ C > 20000 THEN TRUE ELSE SqrtTriangle(A, B, C))
                         ELSE C <= A + B
TriangleClauses(calls) ==
    LET apis == {c.api : c \in {c \in SeqToSet(calls) : c.kind \in {"rf", "wrf", "euc"}}}
        kindOf(api) == (CHOOSE c \in SeqToSet(calls) : c.api = api).kind
        badApis == {api \in apis :
                      LET A == Obs(calls, api, 12)  B == Obs(calls, api, 23)  C == Obs(calls, api, 13) IN
                      /\ A >= 0 /\ B >= 0 /\ C >= 0
                      /\ ~(TriLeq(kindOf(api), A, B, C) /\ TriLeq(kindOf(api), A, C, B) /\ TriLeq(kindOf(api), B, C, A))}
        RECURSIVE Each(_)
        Each(Q) == IF Q = {} THEN None ELSE LET a == CHOOSE a \in Q : TRUE IN V("C04.TriangleInequality", a) \o Each(Q \ {a})
    IN Each(badApis)

JudgeTriple(e) ==
    LET gs == <<e.g1, e.g2, e.g3>>  pre == InputsOk(gs) IN
    IF pre # None THEN pre
    ELSE LET es == <<Enc(e.g1), Enc(e.g2), Enc(e.g3)>>
             rs == [k \in {12, 23, 13} |-> LET i == IF k = 23 THEN 2 ELSE 1  j == IF k = 12 THEN 2 ELSE 3
                                          IN Ref(gs[i], gs[j], es[i], es[j])]
             refs == <<rs[12], rs[23], rs[13]>>
             jc(c) == JudgeValue(c, refs[IF c.pr = 12 THEN 1 ELSE IF c.pr = 23 THEN 2 ELSE 3], ClauseOf(c.kind), "")
         IN CatAll([i \in 1..Len(e.calls) |-> jc(e.calls[i])]) \o TriangleClauses(e.calls)

\* ------------------------------------------------------------ different namespace objects
\* calls carry flag (0 = default arguments, 1 = is_bipartitions_updated=False, 2 = True) and
\* enc (how many of the two trees carried an encoding when the call was made)
NsClass(api, flag, enc) == api \o (CASE flag = 0 -> "" [] flag = 1 -> ":updated=False" [] OTHER -> ":updated=True")
                               \o (CASE enc = 0 -> ":none_encoded" [] enc = 1 -> ":one_encoded" [] OTHER -> ":both_encoded")
JudgeNs(e) ==
    CatAll([i \in 1..Len(e.calls) |->
              LET c == e.calls[i] IN
              IF c.raised = "TaxonNamespaceIdentityError" THEN None
              ELSE V("C04.DifferentNamespacesRefused",
                     NsClass(c.api, c.flag, c.enc) \o (IF c.raised = "" THEN ":returned" ELSE ":raised:" \o c.raised))])

\* ------------------------------------------------------------ histories
HistActions == {"Edit", "Encode", "Dist"}
CacheSet(c) == SetOfSets(c.s)
StaleCache(g, c) == c.has /\ CacheSet(c) # S(g)
\* clean = <<b1, b2>>: tree i was (re-)encoded by the previous logged steps and not edited since (tracked by TLC
\* along the trace); only then is a caller's is_bipartitions_updated=True true for the edge lengths as well
JudgeDist(e, clean) ==
    LET g1 == e.g1  g2 == e.g2  c == e.call  pre == InputsOk(<<g1, g2>>) IN
    \* a history on trees over two namespace objects: every call is refused, whatever is encoded
    IF ~e.samens
      THEN (IF c.raised = "TaxonNamespaceIdentityError" THEN None
            ELSE V("C04.DifferentNamespacesRefused",
                   NsClass(c.api, IF c.flag THEN 2 ELSE 0, (IF e.c1.has THEN 1 ELSE 0) + (IF e.c2.has THEN 1 ELSE 0))
                   \o (IF c.raised = "" THEN ":returned" ELSE ":raised:" \o c.raised)))
    ELSE IF pre # None THEN pre
    ELSE LET stale == StaleCache(g1, e.c1) \/ StaleCache(g2, e.c2)
             e1 == Enc(g1)  e2 == Enc(g2)
             r == IF c.ord = 1 THEN Ref(g1, g2, e1, e2) ELSE Ref(g2, g1, e2, e1)
             vouched == (clean[1] \/ ~e.c1.has) /\ (clean[2] \/ ~e.c2.has) /\ Plain(g1) /\ Plain(g2)
         IN IF ~c.flag
              \* default arguments: the current structure, never what was cached before a modification
              \* (a wrong weighted value on a tree with a hidden basal bifurcation is the open finding of that class,
              \*  whatever was cached: it is blamed on the definitional clause)
              THEN LET blameEdit == stale /\ ~(r.late /\ c.kind \in WeightedKinds) IN
                   JudgeValue(c, r, IF blameEdit THEN "C04.CurrentStructure" ELSE ClauseOf(c.kind), IF stale THEN ":after_edit" ELSE ":hist")
            \* is_bipartitions_updated=True is judged where the caller's claim is true
            ELSE IF ~stale /\ (c.kind \in SetKinds \/ vouched)
              THEN JudgeValue(c, r, ClauseOf(c.kind), ":updated_flag")
            ELSE None
CleanAfter(e, clean) ==
    CASE e.action = "Edit" -> [k \in {1, 2} |-> IF k = e.i THEN FALSE ELSE clean[k]]
      [] e.action = "Encode" -> [k \in {1, 2} |-> IF k = e.i THEN e.raised = "" ELSE clean[k]]
      [] e.action = "Dist" -> IF e.call.raised # "" THEN <<FALSE, FALSE>>
                              ELSE IF ~e.call.flag THEN <<TRUE, TRUE>>
                              ELSE <<clean[1] \/ ~e.c1.has, clean[2] \/ ~e.c2.has>>

StateOf(e) == [g1 |-> e.h1, g2 |-> e.h2, c1 |-> e.d1, c2 |-> e.d2, clean |-> <<FALSE, FALSE>>]
PriorClean(e) == IF e.step = 1 THEN <<FALSE, FALSE>> ELSE st.clean
PreOf(e) == [g1 |-> e.g1, g2 |-> e.g2, c1 |-> e.c1, c2 |-> e.c2]
Chain(e) == IF e.action \in HistActions /\ e.step > 1 /\ [k \in {"g1", "g2", "c1", "c2"} |-> st[k]] # PreOf(e)
              THEN V("C04.Chain", "state changed between logged calls") ELSE None

Judge(e) == CASE e.action = "Pair" -> JudgePair(e)
              [] e.action = "BigPair" -> JudgeBigPair(e)
              [] e.action = "Triple" -> JudgeTriple(e)
              [] e.action = "NsRefusal" -> JudgeNs(e)
              [] e.action = "Dist" -> JudgeDist(e, PriorClean(e))
              \* (between the two halves of an edit of both trees the leaf sets / rooting states differ)
              [] e.action \in {"Edit", "Encode"} -> InputsEach(<<e.h1, e.h2>>)

Init == l = 1 /\ bad = <<>> /\ st = [g1 |-> 0, g2 |-> 0, c1 |-> 0, c2 |-> 0, clean |-> <<FALSE, FALSE>>]
Next == /\ l <= Len(Tr)
        /\ LET e == Tr[l]
               v == Chain(e) \o Judge(e) IN
           /\ bad' = bad \o [k \in 1..Len(v) |-> [i |-> l, clause |-> v[k].clause, class |-> v[k].class]]
           /\ st' = IF e.action \in HistActions THEN [StateOf(e) EXCEPT !.clean = CleanAfter(e, PriorClean(e))] ELSE st
        /\ l' = l + 1
Spec == Init /\ [][Next]_tvars
Done == l = Len(Tr) + 1 => JsonSerialize(IOEnv.OUT_FILE, [n |-> Len(Tr), bad |-> bad])
Accepted == TLCGet("stats").diameter - 1 = Len(Tr)
=============================================================================
