SPECIFICATION Spec
CONSTANTS
  TreeGetKeepsSourceName = TRUE
  NexmlListRoutesReuseTaxa = TRUE
  MaxBlocks = 2
  MaxStmts = 2
  PoolSize = 5
  CharsAt = {0, 1, 2}
INVARIANTS RoutesAgree FrontEnds Names Taxa Matrices
CHECK_DEADLOCK FALSE
