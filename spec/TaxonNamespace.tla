--------------------------- MODULE TaxonNamespace ---------------------------
(***************************************************************************)
(* C10 - a taxon namespace keeps a stable one-to-one taxon/bit map and     *)
(* exact label lookups.                                                    *)
(*                                                                         *)
(* The namespace state is a record (the same shape the harness logs):      *)
(*   members : Seq(TaxonId)   membership order (_taxa)                     *)
(*   idx     : Seq(Nat)       accession index of members[i]                *)
(*   bm      : Seq(SUBSET Nat) what taxon_bitmask(members[i]) answers, as   *)
(*                            a set of bit indices ({} = not cached, model)*)
(*   next    : Nat            accession counter                            *)
(*   labels  : Seq(STRING)    label of every taxon object 1..K ever seen   *)
(*   cs, mut : BOOLEAN        is_case_sensitive, is_mutable                *)
(* Every public operation is a pure operator  Op(s, args)  returning       *)
(* [st |-> new state, raised |-> "" or error kind, res |-> result].  The   *)
(* model (MC_TaxonNamespace) takes them as actions; the trace spec         *)
(* (Trace_TaxonNamespace) evaluates the same operators on logged states.   *)
(* Bitmasks are sets of bit indices (TLC integers are 32 bit).             *)
(***************************************************************************)
EXTENDS Naturals, Integers, Sequences, FiniteSets, TLC

\* ---------------------------------------------------------------- helpers
SeqToSet(q) == {q[i] : i \in 1..Len(q)}
IndexOf(q, x) == CHOOSE i \in 1..Len(q) : q[i] = x
IsMember(s, t) == t \in SeqToSet(s.members)
IdxOf(s, t) == s.idx[IndexOf(s.members, t)]
SelectIdx(q, P(_)) == LET F[i \in 0..Len(q)] ==
                            IF i = 0 THEN <<>> ELSE IF P(i) THEN Append(F[i-1], i) ELSE F[i-1]
                      IN F[Len(q)]
RemoveAt(q, D) == LET keep == SelectIdx(q, LAMBDA i : i \notin D)
                  IN [j \in 1..Len(keep) |-> q[keep[j]]]
BagOf(q) == [x \in SeqToSet(q) |-> Cardinality({i \in 1..Len(q) : q[i] = x})]

\* The label alphabet of the model and of the drivers: case variants and
\* duplicates.  LowerOf is Python's str.lower() on this alphabet.
LowerOf(l) == CASE l = "A" -> "a" [] l = "B" -> "b" [] l = "C" -> "c" [] l = "AB" -> "ab"
                [] l = "Ab" -> "ab" [] l = "aB" -> "ab" [] l = "Z" -> "z" [] l = "X y" -> "x y"
                [] OTHER -> l

\* csarg: -1 = not given (use the namespace's setting), 0 = False, 1 = True
EffCs(s, csarg) == IF csarg = 1 THEN TRUE ELSE IF csarg = 0 THEN FALSE ELSE s.cs
Matches(s, t, l, cs) == IF cs THEN s.labels[t] = l ELSE LowerOf(s.labels[t]) = LowerOf(l)
\* positions (in membership order) of the members whose label matches
MatchPos(s, l, cs) == SelectIdx(s.members, LAMBDA i : Matches(s, s.members[i], l, cs))
MatchTaxa(s, l, cs) == LET p == MatchPos(s, l, cs) IN [j \in 1..Len(p) |-> s.members[p[j]]]

Ok(st, res) == [st |-> st, raised |-> "", res |-> res]
Err(st, kind) == [st |-> st, raised |-> kind, res |-> <<>>]

\* ---------------------------------------------------------------- mutators
Accession(s, t) == [s EXCEPT !.members = Append(@, t), !.idx = Append(@, s.next),
                             !.bm = Append(@, {}), !.next = @ + 1]

\* add_taxon(t): t is an existing taxon object (id <= Len(labels))
OpAddTaxon(s, t) ==
    IF IsMember(s, t) THEN Ok(s, <<>>)
    ELSE IF ~s.mut THEN Err(s, "ImmutableTaxonNamespaceError")
    ELSE Ok(Accession(s, t), <<>>)

\* add_taxa(ts): add_taxon for each in turn; the first refusal ends the call (members are skipped silently)
RECURSIVE AddTaxaF(_, _)
AddTaxaF(s, ts) == IF ts = <<>> THEN Ok(s, <<>>)
                   ELSE LET r == OpAddTaxon(s, Head(ts)) IN IF r.raised # "" THEN r ELSE AddTaxaF(r.st, Tail(ts))
OpAddTaxa(s, ts) == AddTaxaF(s, ts)

\* new_taxon(label): creates taxon object K+1
OpNewTaxon(s, l) ==
    IF ~s.mut THEN Err(s, "ImmutableTaxonNamespaceError")
    ELSE LET t == Len(s.labels) + 1
             s1 == [s EXCEPT !.labels = Append(@, l)]
         IN Ok(Accession(s1, t), <<t>>)

RECURSIVE NewTaxaF(_, _, _)
NewTaxaF(s, ls, acc) == IF ls = <<>> THEN Ok(s, acc)
                        ELSE LET r == OpNewTaxon(s, Head(ls)) IN NewTaxaF(r.st, Tail(ls), acc \o r.res)
OpNewTaxa(s, ls) == IF ~s.mut THEN Err(s, "ImmutableTaxonNamespaceError") ELSE NewTaxaF(s, ls, <<>>)

\* require_taxon(label, is_case_sensitive): first match or exactly one new member
OpRequireTaxon(s, l, csarg) ==
    LET m == MatchTaxa(s, l, EffCs(s, csarg)) IN
    IF m # <<>> THEN Ok(s, <<m[1]>>)
    ELSE IF ~s.mut THEN Err(s, "ImmutableTaxonNamespaceError")
    ELSE OpNewTaxon(s, l)

RemovePositions(s, D) == [s EXCEPT !.members = RemoveAt(s.members, D), !.idx = RemoveAt(s.idx, D),
                                   !.bm = RemoveAt(s.bm, D)]
OpRemoveTaxon(s, t) ==
    IF ~IsMember(s, t) THEN Err(s, "ValueError")
    ELSE Ok(RemovePositions(s, {IndexOf(s.members, t)}), <<>>)

\* remove_taxon_label / discard_taxon_label(label, is_case_sensitive, first_match_only)
OpRemoveLabel(s, l, csarg, first, discard) ==
    LET p == MatchPos(s, l, EffCs(s, csarg)) IN
    IF p = <<>> THEN (IF discard THEN Ok(s, <<>>) ELSE Err(s, "LookupError"))
    ELSE Ok(RemovePositions(s, IF first THEN {p[1]} ELSE SeqToSet(p)), <<>>)

OpClear(s) == Ok([s EXCEPT !.members = <<>>, !.idx = <<>>, !.bm = <<>>], <<>>)

OpReverse(s) == LET n == Len(s.members)
                    rv(q) == [i \in 1..n |-> q[n + 1 - i]]
                IN Ok([s EXCEPT !.members = rv(@), !.idx = rv(@), !.bm = rv(@)], <<>>)

\* sort(): some reordering of the members that keeps every taxon's index
\* (which order is "sorted" is not part of C10; the model takes the order as an argument)
IsPerm(p, n) == Len(p) = n /\ SeqToSet(p) = 1..n
OpReorder(s, p) == LET ap(q) == [i \in 1..Len(p) |-> q[p[i]]]
                   IN Ok([s EXCEPT !.members = ap(@), !.idx = ap(@), !.bm = ap(@)], <<>>)

OpRelabel(s, t, l) == Ok([s EXCEPT !.labels[t] = l], <<>>)
OpSetCase(s, b) == Ok([s EXCEPT !.cs = b], <<>>)
OpSetMutable(s, b) == Ok([s EXCEPT !.mut = b], <<>>)

\* ---------------------------------------------------------------- queries
Mask(s, S) == {IdxOf(s, t) : t \in S}                \* taxa_bitmask(taxa=S)
\* bitmask_taxa_list(m): the taxa of the set bits, in ascending bit order
SortedBits(m) == LET RECURSIVE F(_)
                     F(r) == IF r = {} THEN <<>> ELSE LET k == CHOOSE k \in r : \A j \in r : k <= j
                                                      IN <<k>> \o F(r \ {k})
                 IN F(m)
TaxonOfBit(s, k) == s.members[CHOOSE i \in 1..Len(s.members) : s.idx[i] = k]
MaskTaxaList(s, m) == LET b == SortedBits(m) IN [j \in 1..Len(b) |-> TaxonOfBit(s, b[j])]
AllTaxaMask(s) == 0..(s.next - 1)

\* Rendering a bitmask as a NEWICK split: which members are named on side 1.
\* ByPosition = TRUE is the rule the code shipped with (label list position
\* instead of accession index) - see AsShipped_TaxonNamespace.cfg.
RenderSide1(s, m, ByPosition) ==
    IF ByPosition THEN {s.members[i] : i \in {j \in 1..Len(s.members) : (j - 1) \in m}}
    ELSE {t \in SeqToSet(s.members) : IdxOf(s, t) \in m}

\* ---------------------------------------------------------------- invariants
Distinct(q) == \A i, j \in 1..Len(q) : i # j => q[i] # q[j]
WFClause(s) ==
    IF Len(s.idx) # Len(s.members) \/ Len(s.bm) # Len(s.members) THEN "ParallelLists"
    ELSE IF ~Distinct(s.members) THEN "DuplicateMember"
    ELSE IF ~Distinct(s.idx) THEN "BitShared"
    ELSE IF \E i \in 1..Len(s.idx) : s.idx[i] >= s.next THEN "BitNotBelowCounter"
    ELSE IF \E i \in 1..Len(s.bm) : s.bm[i] # {} /\ s.bm[i] # {s.idx[i]} THEN "BitmaskNotSingleBitOfIndex"
    ELSE IF \E i \in 1..Len(s.members) : s.members[i] \notin 1..Len(s.labels) THEN "UnknownTaxon"
    ELSE "ok"

\* C10 "never changes while it remains a member"
StableClause(a, b) ==
    IF \E t \in SeqToSet(a.members) \cap SeqToSet(b.members) : IdxOf(a, t) # IdxOf(b, t) THEN "BitChanged"
    ELSE IF b.next < a.next THEN "CounterDecreased"
    ELSE IF \E t \in SeqToSet(b.members) \ SeqToSet(a.members) : IdxOf(b, t) < a.next THEN "BitReused"
    ELSE "ok"
=============================================================================
