SPECIFICATION Spec
CONSTANTS
  Sims = {"cc"}
  MaxN = 3
  MaxDt = 2
  MaxDec = 9
  MaxG = 2
  MaxSp = 3
  RootDt = 1
  StopGT = FALSE
  AsShipped = FALSE
  HistMaxGenes = 4
  StaleArgs = TRUE
  Leak = FALSE
INVARIANT Determinism
CHECK_DEADLOCK FALSE
