SPECIFICATION SpecDef
CONSTANTS
  MaxN = 9
  MaxL = 5
  LenPats = {3}
  Shipped = FALSE
INVARIANT Sound
INVARIANT VariantsAgree
CHECK_DEADLOCK FALSE
