SPECIFICATION Spec
CONSTANTS
  MaxLeaves = 3
  MaxH = 2
  HU = 4
  Precs = {2}
  MaxUnif = 0
  MaxPert = 2
  PertUnif = 0
  PertMaxH = 2
INVARIANTS DefsSound ShippedComplete ShippedSound
CHECK_DEADLOCK FALSE
