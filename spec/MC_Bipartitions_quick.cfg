SPECIFICATION Spec
CONSTANT NormOnBit0 = FALSE
CONSTANT MaxN = 7
CONSTANT MaxL = 4
CONSTANT LeafSets = {{1}, {2}, {1,2}, {2,3}, {1,2,3}, {2,3,5}, {1,2,3,4}, {2,3,4,5}}
CONSTANT Extras = {{1,6}, {4,6}}
CONSTANT ExtraMaxL = 4
INVARIANT InputsOk
INVARIANT IffAsFunctions
INVARIANT Restriction
INVARIANT Reconstruction
INVARIANT Predicates
CHECK_DEADLOCK FALSE
