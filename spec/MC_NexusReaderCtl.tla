-------------------------- MODULE MC_NexusReaderCtl --------------------------
(***************************************************************************)
(* C20 - bounded model of the NEXUS reader's control skeleton:             *)
(* base documents (every block structure) x every truncation point x every *)
(* single token edit (delete, insert / replace by a representative of any  *)
(* token class, drop a span, insert a keyword) + documents with one token  *)
(* repeated PumpK times at every position.  Simulation configurations      *)
(* start from the base documents (and the empty sequence) and apply        *)
(* GenSteps random edits first (double edits, random token strings).       *)
(***************************************************************************)
EXTENDS NexusReaderCtl
CONSTANTS Quick, PumpK, MaxSpan
A == IF Quick THEN ClassRepsQ("nexus") ELSE ClassReps("nexus")
K == IF Quick THEN KeywordsQ("nexus") ELSE Keywords("nexus")
\* quick tier: the long multi-block document is model-checked on truncations, deletions and LINK insertions only
Edited(d) == IF Quick /\ Len(d) > LongDoc THEN Truncations(d) \cup Deletions(d) \cup Insertions(d, {"LINK"})
             ELSE EditedDoc(d, "nexus", Quick, MaxSpan)
PumpDocs == IF Quick THEN {NxTaxaTrees, NxDataInterleaved, NxTranslate} ELSE DocsOf("nexus")
Pumped(d) == {Pump(d, i, t, PumpK) : i \in 0..Len(d), t \in {"[c]", "(", ","}}
MCInputs == UNION {Edited(d) \cup (IF d \in PumpDocs THEN Pumped(d) ELSE {}) : d \in DocsOf("nexus")}
\* the inputs on which the shipped code is known to misbehave (as-shipped configurations: small and fast)
ShippedInputs == UNION {Truncations(d) \cup Insertions(d, {"LINK", "CHARSET"}) \cup Pumped(d) \cup {Cut(d, 5, 9)}
                        : d \in {NxTaxaTrees, NxDataInterleaved, NxSets}}
SimInputs == DocsOf("nexus") \cup {<<"#NEXUS">>}
MCGenEdits(d) == SingleEdits(d, A, K, MaxSpan) \cup {Append(d, t) : t \in A \cup K}
NoGenEdits(d) == {d}
\* random token strings: block openers extended by GenSteps random tokens
StringSimInputs == {<<>>, <<"#NEXUS">>, <<"#NEXUS", "BEGIN", "TAXA", ";">>, <<"#NEXUS", "BEGIN", "TREES", ";">>,
                    <<"#NEXUS", "BEGIN", "DATA", ";", "DIMENSIONS", "NTAX", "=", "2", "NCHAR", "=", "2", ";">>,
                    <<"#NEXUS", "BEGIN", "SETS", ";">>}
StringGenEdits(d) == {Append(d, t) : t \in A \cup K}
=============================================================================
