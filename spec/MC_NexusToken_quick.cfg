SPECIFICATION Spec
CONSTANT MaxLen = 2
CONSTANT UseShipped = FALSE
INVARIANT TreeLabelOneToken
INVARIANT TaxLabelOneToken
CHECK_DEADLOCK FALSE
