---------------------------- MODULE MC_Traversal ----------------------------
(* all ordered trees with at most MaxN nodes (single node, unifurcating      *)
(* roots, chains, stars, ...): the traversal definitions are sound.         *)
EXTENDS Traversal
CONSTANT MaxN
VARIABLE g
Init == \E n \in 1..MaxN : \E p \in ParentArrays(n) :
           g = MkTree(p, [i \in 1..n |-> i], [i \in 1..n |-> -1], 1)
Next == UNCHANGED g
Spec == Init /\ [][Next]_g
Sound == WellFormed(g) /\ OrdersSound(g)
=============================================================================
