----------------------------- MODULE CharMatrix -----------------------------
(***************************************************************************)
(* C19 - character-matrix row/column operations select exactly what they   *)
(* name, terminate, leave their argument matrices unchanged and refuse     *)
(* matrices over a different namespace.                                    *)
(*                                                                         *)
(* A matrix is a record (the same shape the harness logs, after Norm):     *)
(*   label : STRING            "" stands for label None                    *)
(*   ns    : Nat               identity of its taxon namespace             *)
(*   rows  : [taxa -> Seq(cell)]  partial function: _taxon_sequence_map    *)
(*   subs  : Seq([name, idx])  character_subsets in insertion order,       *)
(*                             idx = set of 0-based column indices         *)
(* Cells are plain values (integers); the drivers give every cell its own  *)
(* value wherever the data type has enough symbols, so that selection,     *)
(* order and provenance are observable.                                    *)
(*                                                                         *)
(* Every public operation is a pure operator returning                     *)
(*   [self |-> receiver afterwards, raised |-> kind, res |-> <<matrix>>]   *)
(* raised: ""          the call is inside its documentation: must succeed  *)
(*         "foreign"   an argument is over another namespace: must refuse  *)
(*         "KeyError"  remove_sequences names a taxon without a sequence   *)
(*         "pre"       outside the documented preconditions (not judged)   *)
(* MC_CharMatrix takes the operators as actions; Trace_CharMatrix          *)
(* evaluates the same operators on logged real states.                     *)
(***************************************************************************)
EXTENDS Naturals, Integers, Sequences, FiniteSets, TLC

\* ---------------------------------------------------------------- helpers
CmSeqToSet(q) == {q[i] : i \in 1..Len(q)}
CmMax(S) == CHOOSE x \in S : \A y \in S : y <= x
RECURSIVE CmSorted(_)
CmSorted(S) == IF S = {} THEN <<>>
               ELSE LET k == CHOOSE k \in S : \A j \in S : k <= j IN <<k>> \o CmSorted(S \ {k})

Taxa(m) == DOMAIN m.rows
RowLens(m) == {Len(m.rows[t]) : t \in Taxa(m)}
MaxLen(m) == IF Taxa(m) = {} THEN 0 ELSE CmMax(RowLens(m))
IsFull(m, nsT) == Taxa(m) = nsT
IsRect(m) == Cardinality(RowLens(m)) <= 1
Width(m) == IF Taxa(m) = {} THEN 0 ELSE CmMax(RowLens(m))
WithRows(a, r) == [a EXCEPT !.rows = r]
IsForeign(a, b) == a.ns # b.ns

Ok(a, res) == [self |-> a, raised |-> "", res |-> res]
Refuse(a, kind) == [self |-> a, raised |-> kind, res |-> <<>>]

\* ------------------------------------------------- row algebra (receiver a)
\* add_sequences: "Adds sequences for Taxon objects that are in other_matrix but not in self"
OpAddSequences(a, b) ==
    IF IsForeign(a, b) THEN Refuse(a, "foreign")
    ELSE Ok(WithRows(a, [t \in Taxa(a) \cup Taxa(b) |-> IF t \in Taxa(a) THEN a.rows[t] ELSE b.rows[t]]), <<>>)
\* replace_sequences: "Replaces sequences for Taxon objects shared between self and other_matrix"
OpReplaceSequences(a, b) ==
    IF IsForeign(a, b) THEN Refuse(a, "foreign")
    ELSE Ok(WithRows(a, [t \in Taxa(a) |-> IF t \in Taxa(b) THEN b.rows[t] ELSE a.rows[t]]), <<>>)
\* update_sequences: replace shared, add those only in other_matrix
OpUpdateSequences(a, b) ==
    IF IsForeign(a, b) THEN Refuse(a, "foreign")
    ELSE Ok(WithRows(a, [t \in Taxa(a) \cup Taxa(b) |-> IF t \in Taxa(b) THEN b.rows[t] ELSE a.rows[t]]), <<>>)
\* extend_sequences(other, is_add_new_sequences): append for shared taxa; others ignored unless the flag is set
OpExtendSequences(a, b, addnew) ==
    IF IsForeign(a, b) THEN Refuse(a, "foreign")
    ELSE Ok(WithRows(a, [t \in (IF addnew THEN Taxa(a) \cup Taxa(b) ELSE Taxa(a)) |->
                           IF t \in Taxa(a) /\ t \in Taxa(b) THEN a.rows[t] \o b.rows[t]
                           ELSE IF t \in Taxa(a) THEN a.rows[t] ELSE b.rows[t]]), <<>>)
\* extend_matrix: append for shared taxa and add those only in other_matrix
OpExtendMatrix(a, b) == OpExtendSequences(a, b, TRUE)

\* The taxa argument of remove / discard / keep is any iterable of Taxon objects: a SEQUENCE ts,
\* possibly naming a taxon more than once.
\* remove_sequences(taxa): KeyError when a taxon has no sequence at its turn (a missing taxon, or the
\* second occurrence of a repeated one).  The reference removes in list order up to that point (what
\* is left after the error is not documented: the trace spec only requires that nothing but named
\* rows disappeared).
RECURSIVE RemoveUpTo(_, _)
RemoveUpTo(T, ts) == IF ts = <<>> \/ Head(ts) \notin T THEN T ELSE RemoveUpTo(T \ {Head(ts)}, Tail(ts))
RemoveSucceeds(a, ts) == CmSeqToSet(ts) \subseteq Taxa(a) /\ Cardinality(CmSeqToSet(ts)) = Len(ts)
OpRemoveSequences(a, ts) ==
    IF RemoveSucceeds(a, ts)
      THEN Ok(WithRows(a, [t \in Taxa(a) \ CmSeqToSet(ts) |-> a.rows[t]]), <<>>)
      ELSE Refuse(WithRows(a, [t \in RemoveUpTo(Taxa(a), ts) |-> a.rows[t]]), "KeyError")
\* discard_sequences(taxa): "if they exist" - absent and repeated taxa are tolerated
OpDiscardSequences(a, ts) == Ok(WithRows(a, [t \in Taxa(a) \ CmSeqToSet(ts) |-> a.rows[t]]), <<>>)
\* keep_sequences(taxa): "Discards all sequences not associated with any of the Taxon instances"
OpKeepSequences(a, ts) == Ok(WithRows(a, [t \in Taxa(a) \cap CmSeqToSet(ts) |-> a.rows[t]]), <<>>)

\* new_sequence(taxon, values): taxon of the namespace without a sequence
OpNewSequence(a, nsT, t, vals) ==
    IF t \in Taxa(a) \/ t \notin nsT THEN Refuse(a, "pre")
    ELSE Ok(WithRows(a, [u \in Taxa(a) \cup {t} |-> IF u = t THEN vals ELSE a.rows[u]]), <<>>)
\* matrix[key] = values  (key: Taxon, index or label of a taxon of the namespace)
OpSetItem(a, nsT, t, vals) ==
    IF t \notin nsT THEN Refuse(a, "pre")
    ELSE Ok(WithRows(a, [u \in Taxa(a) \cup {t} |-> IF u = t THEN vals ELSE a.rows[u]]), <<>>)
\* del matrix[key]  (key: Taxon, index or label)
OpDelItem(a, nsT, t) ==
    IF t \notin Taxa(a) THEN Refuse(a, "pre")
    ELSE Ok(WithRows(a, [u \in Taxa(a) \ {t} |-> a.rows[u]]), <<>>)

\* ---------------------------------------------------------------- padding
PadSeq(n, v) == [i \in 1..n |-> v]
PadRow(q, target, v, append) ==
    IF Len(q) >= target THEN q
    ELSE IF append THEN q \o PadSeq(target - Len(q), v) ELSE PadSeq(target - Len(q), v) \o q
\* size = -1 stands for size=None: the longest sequence
FillTarget(a, size) == IF size < 0 THEN MaxLen(a) ELSE size
OpFill(a, v, size, append) ==
    Ok(WithRows(a, [t \in Taxa(a) |-> PadRow(a.rows[t], FillTarget(a, size), v, append)]), <<>>)
OpFillTaxa(a, nsT) ==
    Ok(WithRows(a, [t \in Taxa(a) \cup nsT |-> IF t \in Taxa(a) THEN a.rows[t] ELSE <<>>]), <<>>)
OpPack(a, nsT, v, size, append) == OpFill(OpFillTaxa(a, nsT).self, v, size, append)

\* ---------------------------------------------------------------- column selection
\* the selected columns (0-based indices in S) of one row, ascending
SelectCols(q, S) == LET ix == CmSorted({j \in S : j >= 0 /\ j < Len(q)})
                    IN [p \in 1..Len(ix) |-> q[ix[p] + 1]]
OpExportIndices(a, S) ==
    Ok(a, <<[label |-> a.label, ns |-> a.ns, rows |-> [t \in Taxa(a) |-> SelectCols(a.rows[t], S)], subs |-> <<>>]>>)
OpExportSubset(a, k) ==
    IF k \notin 1..Len(a.subs) THEN Refuse(a, "pre") ELSE OpExportIndices(a, a.subs[k].idx)

\* ---------------------------------------------------------------- subset names of concatenate
\* str.lower() on the label alphabet of the model and the drivers (generated suffixes have no letters)
LowerOf(l) == CASE l = "L" -> "l" [] l = "K" -> "k" [] l = "L_002" -> "l_002" [] l = "L_003" -> "l_003"
                [] l = "K_002" -> "k_002" [] OTHER -> l
Digits3(i) == IF i < 10 THEN "00" \o ToString(i) ELSE IF i < 100 THEN "0" \o ToString(i) ELSE ToString(i)
\* "locus%03d" % cidx for label None, else the label
BaseName(l, cidx) == IF l = "" THEN "locus" \o Digits3(cidx) ELSE l
\* "%s_%03d" % (base, i)
SuffixName(base, i) == base \o "_" \o Digits3(i)
\* first free candidate: base, base_002, base_003, ... (free: caseless key not yet recorded)
RECURSIVE PickSuffix(_, _, _)
PickSuffix(base, i, keys) == IF SuffixName(LowerOf(base), i) \notin keys THEN i ELSE PickSuffix(base, i + 1, keys)
RECURSIVE NamesFrom(_, _, _, _)
NamesFrom(labels, k, acc, keys) ==
    IF k > Len(labels) THEN acc
    ELSE LET base == BaseName(labels[k], k - 1)
             nm == IF LowerOf(base) \notin keys THEN base ELSE SuffixName(base, PickSuffix(base, 2, keys))
             ky == IF LowerOf(base) \notin keys THEN LowerOf(base) ELSE SuffixName(LowerOf(base), PickSuffix(base, 2, keys))
         IN NamesFrom(labels, k + 1, Append(acc, nm), keys \cup {ky})
RefNames(labels) == NamesFrom(labels, 1, <<>>, {})
\* some candidate base name is already recorded when its turn comes: the naming loop is entered
NameCollision(labels) ==
    \E j, k \in 1..Len(labels) : j < k /\ LowerOf(BaseName(labels[j], j - 1)) = LowerOf(BaseName(labels[k], k - 1))

\* ---------------------------------------------------------------- concatenate
ConcatForeign(ms) == \E k \in 1..Len(ms) : ms[k].ns # ms[1].ns
\* documented precondition: every taxon in every matrix, every matrix rectangular
ConcatPre(ms, nsT) == ms # <<>> /\ nsT # {} /\ \A k \in 1..Len(ms) : IsFull(ms[k], nsT) /\ IsRect(ms[k])
RECURSIVE ConcatRow(_, _, _)
ConcatRow(ms, t, k) == IF k > Len(ms) THEN <<>> ELSE ms[k].rows[t] \o ConcatRow(ms, t, k + 1)
RECURSIVE ColStart(_, _)
ColStart(ms, k) == IF k <= 1 THEN 0 ELSE ColStart(ms, k - 1) + Width(ms[k - 1])
SubsetRange(ms, k) == ColStart(ms, k) .. (ColStart(ms, k) + Width(ms[k]) - 1)
\* nsT: taxa of the namespace of the first matrix
OpConcatenate(ms, nsT) ==
    IF ms = <<>> THEN Refuse(<<>>, "pre")
    ELSE IF ConcatForeign(ms) THEN Refuse(<<>>, "foreign")
    ELSE IF ~ConcatPre(ms, nsT) THEN Refuse(<<>>, "pre")
    ELSE LET names == RefNames([k \in 1..Len(ms) |-> ms[k].label])
         IN Ok(<<>>, <<[label |-> "", ns |-> ms[1].ns,
                        rows |-> [t \in nsT |-> ConcatRow(ms, t, 1)],
                        subs |-> [k \in 1..Len(ms) |-> [name |-> names[k], idx |-> SubsetRange(ms, k)]]]>>)

\* ---------------------------------------------------------------- clauses of the property, stated on (before, after)
\* These are written from the property / the docstrings, not from the operators above;
\* MC_CharMatrix checks that the operators satisfy them on every reachable state.
IsPrefixOf(p, q) == Len(p) <= Len(q) /\ \A i \in 1..Len(p) : q[i] = p[i]
IsSuffixOf(p, q) == Len(p) <= Len(q) /\ \A i \in 1..Len(p) : q[Len(q) - Len(p) + i] = p[i]

\* concatenation: every taxon's row is the rows of the sources one after the other in argument order
ConcatRowsClause(ms, nsT, c) ==
    /\ Taxa(c) = nsT
    /\ \A t \in nsT :
         /\ Len(c.rows[t]) = ColStart(ms, Len(ms) + 1)
         /\ \A k \in 1..Len(ms) : \A j \in 1..Len(ms[k].rows[t]) : c.rows[t][ColStart(ms, k) + j] = ms[k].rows[t][j]
\* one recorded subset per source, covering exactly that source's columns
ConcatSubsetsClause(ms, c) ==
    /\ Len(c.subs) = Len(ms)
    /\ \A k \in 1..Len(ms) : c.subs[k].idx = SubsetRange(ms, k)
\* export: the p-th cell of a result row is the selected column with exactly p-1 smaller selected columns
ExportClause(a, S, r) ==
    /\ Taxa(r) = Taxa(a)
    /\ \A t \in Taxa(a) :
         LET row == a.rows[t]  out == r.rows[t]  sel == {j \in S : j >= 0 /\ j < Len(row)} IN
         /\ Len(out) = Cardinality(sel)
         /\ \A j \in sel : out[Cardinality({i \in sel : i < j}) + 1] = row[j + 1]
\* padding keeps every existing cell where the documentation puts it
FillKeepsClause(a, b, append) ==
    \A t \in Taxa(a) : t \in Taxa(b) /\ (IF append THEN IsPrefixOf(a.rows[t], b.rows[t]) ELSE IsSuffixOf(a.rows[t], b.rows[t]))
\* ... and makes all sequences equally long (size None or not below the longest sequence);
\* with a smaller size the documented effect is: shorter sequences reach size, longer ones stay
FillLengthClause(a, b, size) ==
    LET target == FillTarget(a, size) IN
    \A t \in Taxa(b) : Len(b.rows[t]) = IF t \in Taxa(a) /\ Len(a.rows[t]) > target THEN Len(a.rows[t]) ELSE target
\* row algebra: which taxa have a row afterwards, and where each row comes from
RowsFrom(a2, keepA, fromB, joined, a, b) ==
    /\ Taxa(a2) = keepA \cup fromB \cup joined
    /\ \A t \in keepA : a2.rows[t] = a.rows[t]
    /\ \A t \in fromB : a2.rows[t] = b.rows[t]
    /\ \A t \in joined : a2.rows[t] = a.rows[t] \o b.rows[t]
=============================================================================
