------------------------------- MODULE Fitch -------------------------------
(***************************************************************************)
(* C16 - parsimony scores are minimal change counts and pure functions of  *)
(* (tree, matrix).                                                         *)
(*                                                                         *)
(* Characters.  An alphabet has K fundamental states 0..K-1 and the gap,   *)
(* which DendroPy numbers K (it is the last fundamental state).  A matrix  *)
(* cell is a non-empty set of these indices: {i} a state, a set of states  *)
(* an ambiguity code, {K} the gap, 0..K missing data ("?").  A matrix is   *)
(*    [k |-> K, rows |-> <<row of taxon 1, row of taxon 2, ...>>]          *)
(* rows indexed by taxon code, a row = sequence of cells.                  *)
(*                                                                         *)
(* Definitions (independent of how the code computes the score):           *)
(*   Cost(g, a)              changes along edges under a full assignment   *)
(*   MinCostFull(g, col, S)  brute force over internal states and over the *)
(*                           choice of one state from every leaf's set     *)
(*   MinCost(g, col, S)      brute force over internal states, each leaf   *)
(*                           taking its cheapest admissible state          *)
(*                           (= MinCostFull: lemma checked by TLC)         *)
(*   FitchScore(g, col)      the down-pass recursion (Fitch 1971)          *)
(* and the operation ScoreOp(g, cache, m, w, gm, shipped): one scoring     *)
(* call on a tree whose nodes carry `cache` (what earlier calls left in    *)
(* node.state_sets).  shipped = TRUE reuses cached leaf sets (the code as  *)
(* shipped), FALSE takes leaf sets from the matrix passed in (reference).  *)
(***************************************************************************)
EXTENDS TreeBase

\* ------------------------------------------------------------------ trees
IsBifurcating(g) == \A x \in Nodes(g) : Len(g.kids[x]) \in {0, 2}
LeafTaxaDistinct(g) == /\ \A x \in Leaves(g) : g.tx[x] # 0
                       /\ \A x, y \in Leaves(g) : x # y => g.tx[x] # g.tx[y]
\* an unrooted fully bifurcating tree is held with a trifurcating seed node (what reroot_at_node and an
\* unrooted Newick string give): it is one of the rootings of the tree the property quantifies over
IsBasalTrifurcation(g) == /\ Len(g.kids[g.seed]) = 3
                          /\ \A x \in Nodes(g) \ {g.seed} : Len(g.kids[x]) \in {0, 2}
\* what the property quantifies over: well-formed, fully bifurcating (bifurcating or trifurcating seed), >= 2
\* leaves, one taxon per leaf
TreeClass(g) == IF WFClause(g) # "ok" THEN "illformed:" \o WFClause(g)
                ELSE IF g.n < 3 THEN "fewer_than_two_leaves"
                ELSE IF ~(IsBifurcating(g) \/ IsBasalTrifurcation(g)) THEN "not_bifurcating"
                ELSE IF ~LeafTaxaDistinct(g) THEN "leaf_taxa"
                ELSE "ok"
RootingName(g) == IF Len(g.kids[g.seed]) = 3 THEN "basal_trifurcation" ELSE "bifurcating_root"

\* nested shapes: <<>> a leaf, <<a, b>> an internal node; all bifurcating ordered shapes with L leaves
RECURSIVE Shapes(_)
Shapes(L) == IF L = 1 THEN {<<>>}
             ELSE UNION {{<<a, b>> : a \in Shapes(i), b \in Shapes(L - i)} : i \in 1..(L - 1)}
RECURSIVE ShapeSize(_)
ShapeSize(s) == IF s = <<>> THEN 1 ELSE 1 + ShapeSize(s[1]) + ShapeSize(s[2])
\* one representative per child order (up to ties): the larger subtree first, everywhere
RECURSIVE LargerFirst(_)
LargerFirst(s) == s = <<>> \/ (ShapeSize(s[1]) >= ShapeSize(s[2]) /\ LargerFirst(s[1]) /\ LargerFirst(s[2]))
RECURSIVE ShapePar(_, _, _)
ShapePar(s, p, me) == <<p>> \o (IF s = <<>> THEN <<>>
                                ELSE ShapePar(s[1], me, me + 1) \o ShapePar(s[2], me, me + 1 + ShapeSize(s[1])))
ShapeParents(s) == ShapePar(s, 0, 1)                   \* preorder parent array as in TreeBase
BifParents(L) == {ShapeParents(s) : s \in Shapes(L)}
BifParentsLargerFirst(L) == {ShapeParents(s) : s \in {u \in Shapes(L) : LargerFirst(u)}}
\* graph form with taxa `taxa` on the leaves left to right
BifTree(p, taxa) == MkTree(p, taxa, [i \in 1..Len(p) |-> -1], 1)
\* parent array without the internal non-root node x (its children move up to its parent, in place)
DropNode(p, x) == [i \in 1..(Len(p) - 1) |->
                     LET old == IF i < x THEN i ELSE i + 1
                         pp == IF p[old] = x THEN p[x] ELSE p[old]
                     IN IF pp > x THEN pp - 1 ELSE pp]
\* the basal-trifurcation forms of a bifurcating-root tree: one per internal child of the root
BasalForms(p, taxa) == {BifTree(DropNode(p, x), taxa) : x \in {y \in 2..Len(p) : p[y] = 1 /\ \E z \in 1..Len(p) : p[z] = y}}

\* re-rooting on the edge above x (x not the seed, parent of x not the seed); node ids persist,
\* the id of the old root (which disappears) is re-used for the new root
ReplaceIn(q, a, b) == [i \in 1..Len(q) |-> IF q[i] = a THEN b ELSE q[i]]
CanRerootAbove(g, x) == x \in Nodes(g) /\ x # g.seed /\ g.par[x] # g.seed
RerootAbove(g, x) ==
    LET r == g.seed
        up == AncSeq(g, x)                       \* <<p1, ..., pk, r>>
        k == Len(up) - 1
        P(i) == IF i = 0 THEN x ELSE up[i]
        s == CHOOSE c \in KidSet(g, r) : c # up[k]
        ix(y) == CHOOSE i \in 1..k : up[i] = y
    IN [g EXCEPT
          !.kids = [y \in 1..g.n |->
                      IF y = r THEN <<x, up[1]>>
                      ELSE IF \E i \in 1..k : up[i] = y
                        THEN ReplaceIn(g.kids[y], P(ix(y) - 1), IF ix(y) = k THEN s ELSE up[ix(y) + 1])
                      ELSE g.kids[y]],
          !.par = [y \in 1..g.n |->
                      IF y = r THEN 0
                      ELSE IF y = x \/ y = up[1] THEN r
                      ELSE IF y = s THEN up[k]
                      ELSE IF \E i \in 2..k : up[i] = y THEN up[ix(y) - 1]
                      ELSE g.par[y]]]
CanRotate(g, x) == x \in Nodes(g) /\ Len(g.kids[x]) = 2
Rotate(g, x) == [g EXCEPT !.kids[x] = <<@[2], @[1]>>]
SameUnrootedTree(g, h) == TreeTx(g) = TreeTx(h) /\ CanonUnrooted(g) = CanonUnrooted(h)

\* ------------------------------------------------------------------ characters
GapIx(m) == m.k
NChar(m) == IF Len(m.rows) = 0 THEN 0 ELSE Len(m.rows[1])
\* ambiguity codes are state sets; gaps are missing data when requested (gm), otherwise an extra state
\* ({i \in .. : TRUE}: an enumerated set rather than an interval value, so that dumped states print as {0, 1, 2})
StateSet(cell, K, gm) == IF gm THEN (IF cell \subseteq {K} THEN {i \in 0..(K - 1) : TRUE} ELSE cell \ {K}) ELSE cell
Universe(m, gm) == IF gm THEN 0..(m.k - 1) ELSE 0..m.k
RowSets(m, t, gm) == TLCEval([j \in 1..Len(m.rows[t]) |-> StateSet(m.rows[t][j], m.k, gm)])
\* (TLCEval: TLC otherwise re-evaluates a function expression at every application)
Col(m, j, gm) == TLCEval([t \in 1..Len(m.rows) |-> StateSet(m.rows[t][j], m.k, gm)])      \* taxon code -> state set
UsedStates(g, col) == UNION {col[g.tx[x]] : x \in Leaves(g)}
MatrixFits(g, m) == /\ \A x \in Leaves(g) : g.tx[x] \in 1..Len(m.rows)
                    /\ \A t \in 1..Len(m.rows) : Len(m.rows[t]) = NChar(m)
                    /\ \A t \in 1..Len(m.rows) : \A j \in 1..NChar(m) : m.rows[t][j] # {} /\ m.rows[t][j] \subseteq 0..m.k

\* ------------------------------------------------------------------ the definition: minimum number of changes
\* assignments as sequences over node ids; D[x] = candidate values of node x
RECURSIVE AssignUpTo(_, _)
AssignUpTo(D, k) == IF k = 0 THEN {<<>>} ELSE {Append(a, v) : a \in AssignUpTo(D, k - 1), v \in D[k]}
Cost(g, a) == Cardinality({x \in Nodes(g) \ {g.seed} : a[x] # a[g.par[x]]})
\* every internal node any state of S, every leaf any state of its set
FullAssignments(g, col, S) == AssignUpTo([x \in 1..g.n |-> IF IsLeaf(g, x) THEN col[g.tx[x]] ELSE S], g.n)
MinCostFull(g, col, S) == Min({Cost(g, a) : a \in FullAssignments(g, col, S)})
\* the same minimum with the leaf choice made leaf by leaf (a leaf costs 0 iff its parent's state is in its set)
InnerAssignments(g, S) == AssignUpTo([x \in 1..g.n |-> IF IsLeaf(g, x) THEN {-1} ELSE S], g.n)
InnerCost(g, col, a) == Cardinality({x \in Nodes(g) \ {g.seed} :
                                       IF IsLeaf(g, x) THEN a[g.par[x]] \notin col[g.tx[x]] ELSE a[x] # a[g.par[x]]})
MinCost(g, col, S) == IF g.n = 1 THEN 0 ELSE Min({InnerCost(g, col, a) : a \in InnerAssignments(g, S)})

\* ------------------------------------------------------------------ the Fitch down pass
\* ls: node -> sequence of state sets (one per character); a character beyond the end of a
\* sequence is absent ({}), and absent in a parent if absent in a child (zip semantics)
\* further children of a node are folded in one after the other (the code's "remaining children" loop)
Combine(l, r) == LET i == l.s \cap r.s IN
                 IF l.s = {} \/ r.s = {} THEN [s |-> {}, c |-> l.c + r.c]
                 ELSE IF i # {} THEN [s |-> i, c |-> l.c + r.c]
                 ELSE [s |-> l.s \cup r.s, c |-> l.c + r.c + 1]
RECURSIVE Down(_, _, _, _), FoldKids(_, _, _, _, _, _)
FoldKids(g, ls, j, x, k, acc) == IF k > Len(g.kids[x]) THEN acc
                                 ELSE FoldKids(g, ls, j, x, k + 1, Combine(acc, Down(g, ls, j, g.kids[x][k])))
Down(g, ls, j, x) ==
    IF IsLeaf(g, x) THEN [s |-> IF j <= Len(ls[x]) THEN ls[x][j] ELSE {}, c |-> 0]
    ELSE FoldKids(g, ls, j, x, 2, Down(g, ls, j, g.kids[x][1]))
FitchScore(g, col) == Down(g, [x \in 1..g.n |-> IF IsLeaf(g, x) THEN <<col[g.tx[x]]>> ELSE <<>>], 1, g.seed).c
FitchRootSet(g, col) == Down(g, [x \in 1..g.n |-> IF IsLeaf(g, x) THEN <<col[g.tx[x]]>> ELSE <<>>], 1, g.seed).s

\* ------------------------------------------------------------------ scores of a matrix
W(w, j) == IF w = <<>> THEN 1 ELSE w[j]                                  \* <<>> = no weights given
MinByChar(g, m, gm) == TLCEval([j \in 1..NChar(m) |-> MinCost(g, Col(m, j, gm), Universe(m, gm))])
FitchByChar(g, m, gm) == TLCEval([j \in 1..NChar(m) |-> FitchScore(g, Col(m, j, gm))])
Weighted(c, w) == [j \in 1..Len(c) |-> W(w, j) * c[j]]
ExpectedByChar(g, m, w, gm) == Weighted(MinByChar(g, m, gm), w)
ExpectedTotal(g, m, w, gm) == SumSeq(ExpectedByChar(g, m, w, gm))
\* larger instances: states that occur in no leaf set are never needed (lemma UsedStatesSuffice, checked by TLC)
MinByCharUsed(g, m, gm) == TLCEval([j \in 1..NChar(m) |-> MinCost(g, Col(m, j, gm), UsedStates(g, Col(m, j, gm)))])

\* ------------------------------------------------------------------ one scoring call on a tree carrying a cache
\* cache: node id -> sequence of state sets left on the node by earlier calls (<<>> = attribute absent)
NoCache(g) == [x \in 1..g.n |-> <<>>]
LeafSetsUsed(g, cache, m, gm, shipped) ==
    TLCEval([x \in 1..g.n |-> IF ~IsLeaf(g, x) THEN <<>>
                              ELSE IF shipped /\ cache[x] # <<>> THEN cache[x]
                              ELSE RowSets(m, g.tx[x], gm)])
PassLen(g, ls) == Max({0} \cup {Len(ls[y]) : y \in 1..g.n})
\* number of changes the pass counts per character (characters 1..max(longest leaf list, NChar))
PassCounts(g, ls, nchar) == TLCEval([j \in 1..Max({PassLen(g, ls), nchar}) |-> Down(g, ls, j, g.seed).c])
\* what the pass leaves on the nodes
PassCache(g, ls) == [x \in 1..g.n |->
                       LET n == Cardinality({j \in 1..PassLen(g, ls) : Down(g, ls, j, x).s # {}})
                       IN [j \in 1..n |-> Down(g, ls, j, x).s]]
\* c: PassCounts; a change counted in a character the matrix passed in does not have indexes past the
\* weights / the per-character list (over)
Scored(c, nchar, w) ==
    [score |-> SumSeq([j \in 1..Len(c) |-> (IF j <= nchar THEN W(w, j) ELSE 1) * c[j]]),
     bychar |-> [j \in 1..nchar |-> W(w, j) * c[j]],
     over |-> \E j \in (nchar + 1)..Len(c) : c[j] > 0]
ScoreOp(g, cache, m, w, gm, shipped) ==
    Scored(PassCounts(g, LeafSetsUsed(g, cache, m, gm, shipped), NChar(m)), NChar(m), w)
CacheAfter(g, cache, m, gm, shipped) == PassCache(g, LeafSetsUsed(g, cache, m, gm, shipped))
\* ------------------------------------------------------------------ the pass functions used directly
\* the documented pattern "build the taxon_state_sets_map once, score many trees": sets = taxon code -> sequence
\* of state sets (the map object, shared by all calls)
MapOf(m, gm) == TLCEval([t \in 1..Len(m.rows) |-> RowSets(m, t, gm)])
LeafSetsFromMap(g, sets) == TLCEval([x \in 1..g.n |-> IF IsLeaf(g, x) THEN sets[g.tx[x]] ELSE <<>>])
\* Fitch's final (up) pass on the down-pass sets dn (node -> set, character j): the seed keeps its set
RECURSIVE UpFinal(_, _, _)
UpFinal(g, dn, x) ==
    IF g.par[x] = 0 THEN dn[x]
    ELSE LET pf == UpFinal(g, dn, g.par[x])  cur == dn[x]
             l == dn[g.kids[x][1]]  r == dn[g.kids[x][2]] IN
         IF pf \cap cur = pf THEN pf
         ELSE IF l \cap r = {} THEN pf \cup cur
         ELSE (pf \cap l) \cup (pf \cap r) \cup cur
\* a regression of the kind "finalise the tips too, in place": every ambiguous tip set is narrowed to its states
\* compatible with the parent's final set - written into the shared map
NarrowedMap(g, sets, cache) ==
    TLCEval([t \in 1..Len(sets) |->
        IF \E x \in Leaves(g) : g.tx[x] = t
          THEN LET x == CHOOSE y \in Leaves(g) : g.tx[y] = t IN
               [j \in 1..Len(sets[t]) |->
                  LET dn == [y \in 1..g.n |-> cache[y][j]]
                      c == sets[t][j] \cap UpFinal(g, dn, g.par[x]) IN
                  IF Cardinality(sets[t][j]) > 1 /\ c # {} THEN c ELSE sets[t][j]]
          ELSE sets[t]])
StaleLeaves(g, cache, m, gm) == {x \in Leaves(g) : cache[x] # <<>> /\ cache[x] # RowSets(m, g.tx[x], gm)}
=============================================================================
