----------------------------- MODULE LineReaders -----------------------------
(***************************************************************************)
(* C20 - the line oriented readers as automata over the lines of a token   *)
(* sequence: PHYLIP (description line, label split, sequential and         *)
(* interleaved paging, NTAX / NCHAR checks; phylipreader.py) and FASTA     *)
(* (fastareader.py).  Pure operators: state records and one step per line; *)
(* the variables live in MC_LineReaders.                                   *)
(*                                                                         *)
(* Intended design = the shipped control flow plus a final comparison of   *)
(* every row length with the declared NCHAR (`Shipped` contains            *)
(* "phylip_cols" for what the code does: no such comparison).              *)
(***************************************************************************)
EXTENDS ReaderInputs

\* the lines of the rendered text: split at EOL; the rendering ends a non-empty text with a line break
RECURSIVE LinesOf(_, _)
LinesOf(toks, cur) == IF toks = <<>> THEN <<cur>>
                      ELSE IF Head(toks) = EOL THEN <<cur>> \o LinesOf(Tail(toks), <<>>)
                      ELSE LinesOf(Tail(toks), Append(cur, Head(toks)))
TextLines(toks) == IF toks = <<>> THEN << <<>> >>
                   ELSE IF toks[Len(toks)] = EOL THEN LinesOf(toks, <<>>)
                   ELSE LinesOf(toks, <<>>) \o << <<>> >>
DnaLen(t) == IF t \in NumToks \/ t \in FastaHdrs THEN 0 ELSE SeqLen(t)     \* 0 = not a run of DNA state symbols
RECURSIVE RunLen(_)          \* number of states on a line, -1 if some symbol is invalid
RunLen(ts) == IF ts = <<>> THEN 0
              ELSE LET r == RunLen(Tail(ts)) IN IF DnaLen(Head(ts)) = 0 \/ r < 0 THEN -1 ELSE DnaLen(Head(ts)) + r
RECURSIVE ValidLen(_)        \* option ignore_invalid_chars: invalid symbols are skipped
ValidLen(ts) == IF ts = <<>> THEN 0 ELSE DnaLen(Head(ts)) + ValidLen(Tail(ts))
NoRowsL == [l \in {} |-> 0]
Bump(rows, l, k) == IF l \in DOMAIN rows THEN [rows EXCEPT ![l] = @ + k] ELSE (l :> k) @@ rows

\* ------------------------------------------------------------------ PHYLIP
PhErr(s) == [s EXCEPT !.outcome = "ParseError"]
PhStart(lines, inter, ign, cont) ==
    LET s0 == [ign |-> ign, cont |-> cont, ntax |-> 0, nchar |-> 0, rows |-> NoRowsL, order |-> <<>>, cur |-> "", paged |-> FALSE, prow |-> -1,
               inter |-> inter, outcome |-> "none"]
        d == lines[1]
    IN IF Len(lines) <= 2 THEN PhErr(s0)                                   \* "Expecting at least 2 lines"
       ELSE IF Len(d) # 2 \/ ~IsNum(d[1]) \/ ~IsNum(d[2]) THEN PhErr(s0)   \* invalid description line
       ELSE IF NumVal(d[1]) = 0 \/ NumVal(d[2]) = 0 THEN PhErr(s0)         \* "No data in source"
       ELSE [s0 EXCEPT !.ntax = NumVal(d[1]), !.nchar = NumVal(d[2])]
\* _parse_taxon_from_line: the first token is the label
PhTaxon(s, line) ==
    LET l == line[1] IN
    IF l \in DOMAIN s.rows /\ s.rows[l] >= s.nchar THEN PhErr(s)
    ELSE IF l \notin DOMAIN s.rows /\ Cardinality(DOMAIN s.rows) >= s.ntax THEN PhErr(s)    \* more taxa than declared
    ELSE [s EXCEPT !.rows = Bump(s.rows, l, 0), !.cur = l,
                   !.order = IF l \in DOMAIN s.rows THEN @ ELSE Append(@, l)]
\* data_type = "continuous": every blank separated value is one state
ContLen(ts) == IF \A i \in 1..Len(ts) : ts[i] \in NumToks \cup RealToks THEN Len(ts) ELSE -1
PhAdd(s, ts) == IF s.cont THEN (IF ContLen(ts) < 0 /\ ~s.ign THEN PhErr(s)
                                ELSE [s EXCEPT !.rows = Bump(s.rows, s.cur, IF ContLen(ts) < 0 THEN 0 ELSE ContLen(ts))])
                ELSE IF s.ign THEN [s EXCEPT !.rows = Bump(s.rows, s.cur, ValidLen(ts))]
                ELSE IF RunLen(ts) < 0 THEN PhErr(s) ELSE [s EXCEPT !.rows = Bump(s.rows, s.cur, RunLen(ts))]
PhLineSeq(s, line) ==
    IF line = <<>> THEN s
    ELSE LET s1 == IF s.cur = "" THEN PhTaxon(s, line) ELSE s
             ts == IF s.cur = "" THEN Tail(line) ELSE line
         IN IF s1.outcome # "none" THEN s1
            ELSE LET s2 == PhAdd(s1, ts) IN
                 IF s2.outcome # "none" THEN s2
                 ELSE IF s2.rows[s2.cur] >= s2.nchar THEN [s2 EXCEPT !.cur = ""] ELSE s2
PhLineInter(s, line) ==
    IF line = <<>> THEN s
    ELSE LET p0 == s.prow + 1
             p == IF p0 >= s.ntax THEN 0 ELSE p0
         IN IF s.paged
            THEN PhAdd([s EXCEPT !.prow = p, !.cur = s.order[p + 1]], line)
            ELSE LET s1 == PhTaxon([s EXCEPT !.prow = p], line) IN
                 IF s1.outcome # "none" THEN s1
                 ELSE LET s2 == IF Len(s1.order) = s1.ntax THEN [s1 EXCEPT !.paged = TRUE, !.prow = -1] ELSE s1
                      IN PhAdd(s2, Tail(line))
PhLine(s, line) == IF s.inter THEN PhLineInter(s, line) ELSE PhLineSeq(s, line)
PhFinish(s, shipped) ==
    IF Cardinality(DOMAIN s.rows) # s.ntax THEN PhErr(s)                                   \* shipped check
    ELSE IF "phylip_cols" \notin shipped /\ \E l \in DOMAIN s.rows : s.rows[l] # s.nchar THEN PhErr(s)   \* intended check
    ELSE [s EXCEPT !.outcome = "Ok"]

\* ------------------------------------------------------------------ FASTA
IsHdr(t) == t \in FastaHdrs \cup {">c"}
FaStart == [rows |-> NoRowsL, cur |-> "", outcome |-> "none"]
FaErr(s) == [s EXCEPT !.outcome = "ParseError"]
FaLine(s, line) ==
    IF line = <<>> THEN s
    ELSE IF IsHdr(line[1]) THEN
         IF line[1] \in DOMAIN s.rows THEN FaErr(s)                                        \* repeated name
         ELSE IF s.cur # "" /\ s.rows[s.cur] = 0 THEN FaErr(s)                             \* name without sequence
         ELSE [s EXCEPT !.rows = Bump(s.rows, line[1], 0), !.cur = line[1]]
    ELSE IF s.cur = "" THEN FaErr(s)                                                       \* sequence before the first '>'
    ELSE IF RunLen(line) < 0 THEN FaErr(s)
    ELSE [s EXCEPT !.rows = Bump(s.rows, s.cur, RunLen(line))]
FaFinish(s) == [s EXCEPT !.outcome = "Ok"]
=============================================================================
