-------------------------- MODULE Trace_Bipartitions --------------------------
(* C01 trace validation.  Every logged call of the real library is judged    *)
(* against the definitions of Bipartitions / TreeBase evaluated by TLC on    *)
(* the projected raw-pointer graphs.  Bitmasks arrive as ascending lists of  *)
(* taxon codes (bit index + 1).                                              *)
(*                                                                           *)
(* Encode  one Tree.encode_bipartitions(su, cb, ...) call                    *)
(*         g0 / g1 tree before / after, M namespace members,                 *)
(*         ls, sp, tl  per node of g1: edge.leafset_bitmask, split_bitmask,  *)
(*                     tree_leafset_bitmask                                  *)
(*         stored, retok, enc (node of g1 owning the k-th Bipartition of     *)
(*         tree.bipartition_encoding, 0 = none), encsp / encls (its masks),  *)
(*         mapk / mapn (split_bitmask_edge_map: key, node of the edge; only  *)
(*         when hasmap: the map hashes Bipartitions, which must be frozen)   *)
(* Rebuild Tree.from_bipartition_encoding / from_split_bitmasks              *)
(*         g0 the tree whose encoding is handed in (as it was before it was  *)
(*         encoded), q masks in the order handed in, gr result               *)
(* Namespace  acc / bits: accession code and taxon_bitmask of every member  *)
(*         after the whole history of the case                               *)
(* Pair    two trees on the same taxa / namespace / rooting: ga, gb as built,*)
(*         ssa, ssb the split bitmasks of their encodings                    *)
(* Pred    predicates between the bipartitions of tree A and tree B; gA2 =   *)
(*         tree A when is_compatible_with_bipartition was called without     *)
(*         is_bipartitions_updated (possibly edited since its last encoding) *)
EXTENDS Bipartitions, Json, IOUtils
Tr == ndJsonDeserialize(IOEnv.TRACE_FILE)
VARIABLES l, bad
V(c, k) == <<[clause |-> c, class |-> k]>>
None == <<>>

S(q) == SeqToSet(q)
SS(qq) == {SeqToSet(qq[i]) : i \in 1..Len(qq)}
RootTag(r) == IF r THEN "rooted" ELSE "unrooted"

\* ------------------------------------------------------------------ Encode
\* route = "" : a direct encode_bipartitions / update_bipartitions call; otherwise the public operation
\* that was called with update_bipartitions=True (g0 = g1 = the tree it left behind)
EncClass(e) == (IF e.route # "" THEN e.route \o ":" ELSE "") \o RootTag(IsRooted(e.g0)) \o (IF e.su THEN "+su" ELSE "-su") \o (IF e.cb THEN "+cb" ELSE "-cb")
             \o (IF HasUnifurcation(e.g0) THEN "/unif" ELSE "")
             \o (IF ~IsRooted(e.g0) /\ Len(e.g0.kids[e.g0.seed]) = 2 THEN "/basalbif" ELSE "")
JudgeEncode(e) ==
    LET g0 == e.g0  g1 == e.g1  k == EncClass(e) IN
    IF e.route # "" /\ e.raised # "" THEN None     \* the operation itself failed: nothing was encoded (C03/C07/C08 judge the operations)
    ELSE IF e.route = "" /\ WFClause(g0) # "ok" THEN V("C01.InputInDomain", "encode-input:" \o WFClause(g0))
    ELSE IF e.raised # "" THEN V("C01.Raised", "encode_bipartitions:" \o e.raised)
    ELSE IF WFClause(g1) # "ok" THEN (IF e.route # "" THEN None    \* the operation damaged the tree: C03's, not an encoding
                                      ELSE V("C01.EncodedTreeWellFormed", WFClause(g1)))
    ELSE IF Len(e.ls) # g1.n \/ Len(e.sp) # g1.n \/ Len(e.tl) # g1.n THEN V("C01.InputInDomain", "mask-table")
    ELSE
      LET lt == TLCEval([x \in Nodes(g1) |-> LeafTx(g1, x)])
          all == lt[g1.seed]
          spx == TLCEval([x \in Nodes(g1) |-> IF IsRooted(g1) THEN lt[x] ELSE Norm(lt[x], all)])
          obs == {S(e.sp[x]) : x \in Nodes(g1)}
      IN
      (IF \A x \in Nodes(g1) : S(e.ls[x]) = lt[x] /\ S(e.tl[x]) = all THEN None
       ELSE V("C01.LeafsetExact", k))
      \o
      (IF \A x \in Nodes(g1) : S(e.sp[x]) = spx[x] THEN None ELSE V("C01.SplitNormalised", k))
      \o
      (IF ~e.stored THEN (IF e.enc = <<>> /\ e.retok THEN None ELSE V("C01.EncodingListIsFresh", "suppressed-storage/" \o k))
       ELSE IF /\ e.retok
               /\ IsPermOf(e.enc, Nodes(g1))
               /\ \A i \in 1..Len(e.enc) : e.encsp[i] = e.sp[e.enc[i]] /\ e.encls[i] = e.ls[e.enc[i]]
            THEN None ELSE V("C01.EncodingListIsFresh", "list/" \o k))
      \o
      (IF ~e.hasmap THEN None ELSE
       IF /\ SS(e.mapk) = obs
          /\ \A j \in 1..Len(e.mapn) : e.mapn[j] \in Nodes(g1) /\ e.sp[e.mapn[j]] = e.mapk[j]
       THEN None ELSE V("C01.EncodingListIsFresh", "split_bitmask_edge_map/" \o (IF e.route # "" THEN e.route ELSE k)))
      \o
      \* the tree as handed in and the tree as left behind are the same topology and the
      \* encoding is that of the tree handed in
      (IF /\ obs = SplitSet(g0)
          /\ (AllLeavesDistinctTaxa(g0) => TopologyB(g1) = TopologyB(g0))
          /\ IsRooted(g1) = IsRooted(g0)
       THEN None ELSE V("C01.SplitSetIffTopology", "encode-normalisation/" \o k))

\* ------------------------------------------------------------------ Rebuild
JudgeRebuild(e) ==
    LET g0 == e.g0  gr == e.gr  M == S(e.M)  L == TreeTx(e.g0)
        k == (IF L = M THEN "full/" ELSE "partial/") \o RootTag(e.rt) \o "/" \o e.api IN
    IF WFClause(g0) # "ok" \/ ~AllLeavesDistinctTaxa(g0) \/ ~(L \subseteq M) \/ IsRooted(g0) # e.rt
      THEN V("C01.InputInDomain", "rebuild-input")
    ELSE IF e.raised # "" THEN V("C01.Raised", e.api \o ":" \o e.raised)
    ELSE IF WFClause(gr) # "ok" THEN V("C01.ReconstructionTopology", "illformed:" \o WFClause(gr) \o "/" \o k)
    ELSE IF LeafTaxaBag(gr) # [m \in M |-> 1] THEN V("C01.ReconstructionTopology", "leaves-are-not-the-namespace/" \o k)
    ELSE IF IsRooted(gr) # e.rt THEN V("C01.ReconstructionTopology", "rooting/" \o k)
    \* all taxa of the namespace on the encoded tree: the rebuilt tree is that topology; otherwise the
    \* rebuilt tree restricted to the taxa of the encoded tree is
    ELSE IF (IF L = M THEN TopologyB(gr) ELSE TopologyR(gr, L)) = TopologyB(g0) THEN None
    ELSE V("C01.ReconstructionTopology", k)

\* ------------------------------------------------------------------ Pair
JudgePair(e) ==
    LET ga == e.ga  gb == e.gb IN
    IF \/ WFClause(ga) # "ok" \/ WFClause(gb) # "ok"
       \/ ~AllLeavesDistinctTaxa(ga) \/ ~AllLeavesDistinctTaxa(gb)
       \/ TreeTx(ga) # TreeTx(gb) \/ IsRooted(ga) # IsRooted(gb)
      THEN V("C01.InputInDomain", "pair-input")
    ELSE LET sameTopo == TopologyB(ga) = TopologyB(gb)
             sameSplits == SS(e.ssa) = SS(e.ssb)
         IN IF sameTopo = sameSplits THEN None
            ELSE V("C01.SplitSetIffTopology",
                   (IF sameTopo THEN "same-topology-different-splits/" ELSE "different-topology-equal-splits/")
                   \o RootTag(IsRooted(ga)))

\* ------------------------------------------------------------------ Pred
JudgePred(e) ==
    \* F: the taxa of the tree as recorded on A's bipartitions (what the predicates refer to)
    LET A == e.A  B == e.B  F == S(e.A.F)  r == e.A.rooted
        na == Len(A.sp)  nb == Len(B.sp)
        SA == SS(A.enc)
        spa == TLCEval([x \in 1..na |-> S(A.sp[x])])  spb == TLCEval([y \in 1..nb |-> S(B.sp[y])])
        lsa == TLCEval([x \in 1..na |-> S(A.ls[x])])  lsb == TLCEval([y \in 1..nb |-> S(B.ls[y])])
        tc == TLCEval([y \in 1..nb |-> TreeCompatible(SA, spb[y], F, r)])
        tag == "/" \o RootTag(r) IN
    IF B.rooted # r \/ Len(e.triv) # na \/ Len(e.compat) # na \/ Len(e.nested) # na
       \/ Len(e.tcompat) # nb \/ Len(e.tcompat2) # nb
      THEN V("C01.InputInDomain", "pred-input")
    ELSE IF e.raised # "" THEN V("C01.Raised", "predicates:" \o e.raised)
    ELSE
      (IF \A x \in 1..na : e.triv[x] = Trivial(spa[x], F) THEN None ELSE V("C01.Predicates", "is_trivial" \o tag))
      \o
      (IF \A x \in 1..na : \A y \in 1..nb : e.compat[x][y] = Compatible(spa[x], spb[y], F, r)
       THEN None ELSE V("C01.Predicates", "is_compatible_with" \o tag))
      \o
      (IF \A x \in 1..na : \A y \in 1..nb : e.nested[x][y] = LeafsetNested(lsa[x], lsb[y])
       THEN None ELSE V("C01.Predicates", "is_leafset_nested_within" \o tag))
      \o
      (IF \A y \in 1..nb : e.tcompat[y] = tc[y]
       THEN None ELSE V("C01.Predicates", "Tree.is_compatible_with_bipartition" \o tag))
      \o
      \* without the caller's promise that the encoding is current, the answer is about the tree as it is
      \* now (gA2; it may have been edited since the last encoding)
      (IF WFClause(e.gA2) # "ok" THEN V("C01.InputInDomain", "pred-tree")
       ELSE LET S2 == SplitSet(e.gA2) IN
            IF \A y \in 1..nb : e.tcompat2[y] = TreeCompatible(S2, spb[y], F, r)
            THEN None ELSE V("C01.Predicates", "Tree.is_compatible_with_bipartition(re-encoding)" \o tag))

\* ------------------------------------------------------------------ Namespace
\* what the namespace answers for each member at the end of the case: acc = accession index + 1 (the
\* taxon codes of every logged tree), bits = taxon_bitmask.  A leafset bitmask can only be "exactly the
\* set of taxa below the edge" if every member answers one bit of its own, the accession bit.
JudgeNamespace(e) ==
    LET n == Len(e.acc) IN
    IF \E i \in 1..n : Len(e.bits[i]) # 1 THEN V("C01.LeafsetExact", "namespace_bit_is_not_a_single_bit")
    ELSE IF \E i, j \in 1..n : i # j /\ e.bits[i] = e.bits[j] THEN V("C01.LeafsetExact", "namespace_bits_not_injective")
    ELSE IF \E i \in 1..n : e.bits[i][1] # e.acc[i] THEN V("C01.LeafsetExact", "namespace_bit_is_not_the_accession_bit")
    ELSE None

Judge(e) ==
    CASE e.action = "Namespace" -> JudgeNamespace(e)
      [] e.action = "Encode" -> JudgeEncode(e)
      [] e.action = "Rebuild" -> JudgeRebuild(e)
      [] e.action = "Pair" -> JudgePair(e)
      [] e.action = "Pred" -> JudgePred(e)

Init == l = 1 /\ bad = <<>>
Next == /\ l <= Len(Tr)
        /\ LET v == Judge(Tr[l]) IN
             bad' = bad \o [k \in 1..Len(v) |-> [i |-> l, clause |-> v[k].clause, class |-> v[k].class]]
        /\ l' = l + 1
Spec == Init /\ [][Next]_<<l, bad>>
Done == l = Len(Tr) + 1 => JsonSerialize(IOEnv.OUT_FILE, [n |-> Len(Tr), bad |-> bad])
Accepted == TLCGet("stats").diameter - 1 = Len(Tr)
=============================================================================
