--------------------------- MODULE MC_TreeCompare ---------------------------
(* C04, definitional part: all pairs / triples of small trees over ONE leaf  *)
(* set.  Every initial state is one input (pair or triple); TLC checks the   *)
(* metric axioms of the definitions of TreeCompare on each of them and dumps *)
(* the domain, which the harness replays on real trees.                      *)
(*                                                                           *)
(* One ordered representative per labelled unordered tree is used where the  *)
(* pair matters (children sorted by their smallest leaf); ALL ordered        *)
(* labelled trees are used in the "redraw" family, where t2 ranges over the  *)
(* re-drawings of t1 (one child swap, or - unrooted - one seed move).         *)
(*   top     K leaves, no unifurcations, all lengths present                 *)
(*   unary   KU leaves, at most MaxNU nodes, unifurcations allowed           *)
(*   miss    KM leaves, every assignment of MissVals (-1 = no length)        *)
(*   redraw  K leaves, all ordered labelled trees x their re-drawings        *)
(*   triple  K leaves, all triples                                           *)
(*****************************************************************************)
EXTENDS TreeCompare
CONSTANTS Families, K, KU, MaxNU, KM, MissVals, AsShipped, Full, MissFull, TripleRootings
VARIABLES fam, t1, t2, t3, stage
vars == <<fam, t1, t2, t3, stage>>

RECURSIVE PA(_)
PA(n) == IF n = 1 THEN {<<0>>}
         ELSE UNION {{Append(p, a) : a \in AncOfIn(p, n - 1)} : p \in PA(n - 1)}
NoUnary(p) == \A x \in 1..Len(p) : Cardinality({i \in 1..Len(p) : p[i] = x}) # 1
Shapes(k, maxn, unary) == {p \in UNION {PA(n) : n \in (k + 1)..maxn} :
                              NumLeavesOfParents(p) = k /\ (unary \/ NoUnary(p))}
Perms(k) == {f \in [1..k -> 1..k] : \A i, j \in 1..k : i # j => f[i] # f[j]}
\* lengths by node index from a cycle of values; the seed has no length
Cyc(c, n) == [x \in 1..n |-> IF x = 1 THEN -1 ELSE c[((x - 2) % Len(c)) + 1]]
MinLeafSorted(g) == \A x \in Nodes(g) : \A i \in 1..(Len(g.kids[x]) - 1) :
                        Min(LeafTx(g, g.kids[x][i])) < Min(LeafTx(g, g.kids[x][i + 1]))
Labelled(k, maxn, unary, c, r) == {MkTree(p, f, Cyc(c, Len(p)), r) : p \in Shapes(k, maxn, unary), f \in Perms(k)}
Reps(k, maxn, unary, c, r) == {g \in Labelled(k, maxn, unary, c, r) : MinLeafSorted(g)}

CycA == <<4, 8, 0>>      \* 1, 2, 0
CycB == <<8, 4>>         \* 2, 1
CycC == <<4, 12, 8, 0>>  \* 1, 3, 2, 0
Rootings == {0, 1}
WithRooting(D, r) == {[g EXCEPT !.rooted = r] : g \in D}
MissValsQuick == {-1, 4}
MissValsThorough == {-1, 0, 8}

\* zero-arity constant definitions: TLC evaluates each of these sets once
TopA == Reps(K, 2 * K - 1, FALSE, CycA, 1)
TopB == Reps(K, 2 * K - 1, FALSE, CycB, 1)
TopC == Reps(K, 2 * K - 1, FALSE, CycC, 1)
UnA == Reps(KU, MaxNU, TRUE, CycA, 1)
UnB == Reps(KU, MaxNU, TRUE, CycB, 1)
MissDom == {g \in UNION {{MkTree(p, f, [x \in 1..Len(p) |-> IF x = 1 THEN -1 ELSE l[x]], 1) :
                               f \in Perms(KM), l \in [2..Len(p) -> MissVals]} : p \in Shapes(KM, 2 * KM - 1, FALSE)} :
               MinLeafSorted(g)}
AllA == Labelled(K, 2 * K - 1, FALSE, CycA, 1)

\* stage 1: the first tree (initial states); stage 2: the second; stage 3: the third (triples only).
\* (successors are computed by all TLC workers, initial states by one)
\* Full = FALSE (quick tier): re-drawings of the representatives only;
\* MissFull = FALSE: in the "miss" family the second tree ranges over the star and ((1,2),3)
First(f) == CASE f = "top" -> TopA [] f = "unary" -> UnA [] f = "miss" -> MissDom
              [] f = "redraw" -> (IF Full THEN AllA ELSE TopA) [] f = "triple" -> TopA
MissSecond == IF MissFull THEN MissDom ELSE {g \in MissDom : g.n = KM + 1 \/ (g.tx[3] = 1 /\ g.tx[4] = 2)}
Init == /\ fam \in Families
        /\ \E r \in (IF fam = "triple" THEN TripleRootings ELSE Rootings) : t1 \in WithRooting(First(fam), r)
        /\ t2 = t1 /\ t3 = t1 /\ stage = 1
Second == CASE fam = "top" -> WithRooting(TopB, t1.rooted)
            [] fam = "unary" -> WithRooting(UnB, t1.rooted)
            [] fam = "miss" -> WithRooting(MissSecond, t1.rooted)
            [] fam = "redraw" -> RedrawsOf(t1)
            [] fam = "triple" -> WithRooting(TopB, t1.rooted)
Next == \/ /\ stage = 1 /\ stage' = 2 /\ t2' \in Second /\ t3' = t1 /\ UNCHANGED <<fam, t1>>
        \/ /\ stage = 2 /\ fam = "triple" /\ stage' = 3 /\ t3' \in WithRooting(TopC, t1.rooted) /\ UNCHANGED <<fam, t1, t2>>
Spec == Init /\ [][Next]_vars

Def(a, b) == IF AsShipped THEN DefinedShipped(a, b) ELSE Defined(a, b)

\* each invariant looks at the tree(s) chosen in the current stage
Newest == IF stage = 1 THEN t1 ELSE IF stage = 2 THEN t2 ELSE t3
WF == WellFormed(Newest) /\ S(Newest) = SplitSet(Newest) /\ TreeTx(Newest) = TreeTx(t1)
PairAxioms == stage = 2 => PairOk(t1, t2)
DefinedSymmetric == stage = 2 => Def(t1, t2) = Def(t2, t1)
\* magnitude: the definitions are homogeneous, and the pair arithmetic used for large lengths agrees with the
\* plain definition for a concrete base (every non-seed edge one Base longer)
WithHi(g) == [hi |-> [x \in 1..g.n |-> IF x = g.seed THEN 0 ELSE 1]] @@ g
MagnitudeOk == (fam = "top" /\ stage = 2) =>
    LET a == WithHi(t1)  b == WithHi(t2)
        big == WRFBig(Enc(HiGraph(a)), Enc(a), Enc(HiGraph(b)), Enc(b)) IN
    /\ WRF(Scaled(t1, 8), Scaled(t2, 8)) = 8 * WRF(t1, t2)
    /\ Euclid2(Scaled(t1, 8), Scaled(t2, 8)) = 64 * Euclid2(t1, t2)
    /\ big[1] * 4096 + big[2] = WRF(Concrete(a, 4096), Concrete(b, 4096))
    /\ (big = <<0, 0>>) = (Enc(Concrete(a, 4096)) = Enc(Concrete(b, 4096)))
    /\ (SameHi(Enc(HiGraph(a)), Enc(HiGraph(b))) => Euclid2(Concrete(a, 4096), Concrete(b, 4096)) = Euclid2(t1, t2))
\* the first call on fresh trees already returns the definition (as shipped it does not: hidden basal bifurcation)
FirstEnc(g) == IF AsShipped THEN EncShipped(g) ELSE Enc(g)
FirstCallExact == (fam = "unary" /\ stage = 2) => WRFe(FirstEnc(t1), FirstEnc(t2)) = WRF(t1, t2)
RedrawInv == fam = "redraw" /\ stage = 2 => RedrawOk(t1, t2)
TripleInv == fam = "triple" /\ stage = 3 => TripleOk(t1, t2, t3)
=============================================================================
