--------------------------- MODULE Trace_Traversal ---------------------------
(* C15 trace validation: each logged iterator call of the real library is   *)
(* compared with the definition evaluated by TLC on the projected tree.     *)
EXTENDS Traversal, Json, IOUtils
Tr == ndJsonDeserialize(IOEnv.TRACE_FILE)
VARIABLES l, bad
V(c, k) == <<[clause |-> c, class |-> k]>>
None == <<>>

JudgeIter(e) ==
    LET g == e.g  P == SeqToSet(e.P) IN
    IF e.kind = "inorder" /\ ~IsBinaryBelow(g, e.start)
      THEN (IF e.raised = "TypeError" THEN None ELSE V("C15.InOrderNeedsBinary", e.api))
    ELSE IF e.raised # "" THEN V("C15.Raised", e.kind \o ":" \o e.raised)
    ELSE IF e.out = ExpectedSeq(g, e.kind, e.start, P, e.opt) THEN None
    ELSE V("C15.Order", e.kind \o "/" \o e.api)

JudgeApply(e) ==
    IF e.raised # "" THEN V("C15.Raised", "apply:" \o e.raised)
    ELSE IF e.out = SelectSeq(ApplySeq(e.g, e.start), LAMBDA r : r.k \in SeqToSet(e.given)) THEN None
    ELSE V("C15.ApplyBrackets", e.api \o (IF Len(e.given) = 3 THEN "" ELSE "/omitted-callbacks"))

JudgeAge(e) ==
    IF e.raised # "" THEN V("C15.Raised", "ageorder:" \o e.raised)
    ELSE IF AgeOrderOk(e.g, e.start, e.out, e.ages, e.incl, e.desc, SeqToSet(e.P)) THEN None
    ELSE V("C15.AgeOrder", e.api)

Judge(e) ==
    IF WFClause(e.g) # "ok" THEN V("C15.InputWellFormed", WFClause(e.g))
    ELSE CASE e.action = "Iter" -> JudgeIter(e)
           [] e.action = "Apply" -> JudgeApply(e)
           [] e.action = "AgeOrder" -> JudgeAge(e)
           [] e.action = "Len" -> (IF e.val = Cardinality(Leaves(e.g)) THEN None ELSE V("C15.LenIsLeafCount", "len"))

Init == l = 1 /\ bad = <<>>
Next == /\ l <= Len(Tr)
        /\ LET v == Judge(Tr[l]) IN
             bad' = bad \o [k \in 1..Len(v) |-> [i |-> l, clause |-> v[k].clause, class |-> v[k].class]]
        /\ l' = l + 1
Spec == Init /\ [][Next]_<<l, bad>>
Done == l = Len(Tr) + 1 => JsonSerialize(IOEnv.OUT_FILE, [n |-> Len(Tr), bad |-> bad])
Accepted == TLCGet("stats").diameter - 1 = Len(Tr)
=============================================================================
