SPECIFICATION SpecLoop
CONSTANTS
  MaxN = 9
  MaxL = 5
  LenPats = {1, 2, 3, 4}
  Shipped = FALSE
INVARIANT Confluent
INVARIANT LoopWF
INVARIANT StepKeepsDist
PROPERTY Shrinks
CHECK_DEADLOCK FALSE
