SPECIFICATION Spec
CONSTANTS
  AsShipped = {"F02"}
  MaxN = 7
  MaxLeaves = 4
  StartUnif = FALSE
  MaxDepth = 1
  Fam = {"CollapseUnweightedEdges"}
  Rootings = {0, 1}
  LenPats = {"none"}
  ShapeMode = "unordered"
  OptsFirst <- OptsAll
  OptsLater <- OptsOA
  EdgePairs <- EdgePairsSmall
  Thresholds = {0, 16}
  MaxK = 12
VIEW view
PROPERTY C03_Outcome
CHECK_DEADLOCK FALSE
