SPECIFICATION Spec
CONSTANT MaxN = 6
INVARIANT Sound
CHECK_DEADLOCK FALSE
