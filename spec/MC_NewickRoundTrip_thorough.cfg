SPECIFICATION Spec
CONSTANT MaxNodes = 7
CONSTANT MaxLeaves = 4
CONSTANT MaxList = 3
CONSTANT MaxSingles = 3
CONSTANT AccReuse = FALSE
CONSTANT SymLeaves = 3
CONSTANT Design = "reference"
CONSTANT Domains = {"keywords", "history", "singles", "lists", "labels", "symbols", "structure"}
INVARIANT DomainWithinProperty
INVARIANT RoundTripHolds
CHECK_DEADLOCK FALSE
