SPECIFICATION Spec
CONSTANTS
  N = 3
  MaxTrees = 2
  NW = 2
  NT = 1
  Observe = FALSE
  ObserveFrom = 1
  TrackDist = TRUE
  TrackOperand = FALSE
  AdoptLists = FALSE
  BookkeepFirst = TRUE
  CacheChecksCount = TRUE
INVARIANT FreqExact
CHECK_DEADLOCK FALSE
