SPECIFICATION SpecLoop
CONSTANTS
  MaxN = 7
  MaxL = 4
  LenPats = {1, 3}
  Shipped = FALSE
INVARIANT Confluent
INVARIANT LoopWF
INVARIANT StepKeepsDist
PROPERTY Shrinks
CHECK_DEADLOCK FALSE
