---------------------------- MODULE NewickGrammar ----------------------------
(***************************************************************************)
(* C20 - the tree-statement reader (NewickReader._parse_tree_statement /   *)
(* _parse_tree_node_description) as a pushdown machine over tokens.        *)
(*                                                                         *)
(* The code is a recursive-descent parser: one Python frame per node that  *)
(* is being described.  The machine state makes that stack explicit        *)
(* (`stk`, one frame per active call, so Len(stk) is the recursion depth)  *)
(* together with the reader's parenthesis counter `nest`.  One call of     *)
(* NwStep looks at the current token and either moves inside a frame,      *)
(* pushes a frame (recursive call), pops one (return) or finishes with     *)
(* "ok" / "err"; field `adv` says whether the token was consumed.  Every   *)
(* advance inside a statement is require_next_token(): the end of the      *)
(* stream inside a statement is the parse error UnexpectedEndOfStream.     *)
(* Pure operators only: the variables live in MC_NewickGrammar and in      *)
(* NexusReaderCtl (TREE statements).                                       *)
(***************************************************************************)
EXTENDS ReaderInputs

IsLenTok(t) == t \in NumToks \cup RealToks
NwFrame(ph) == [ph |-> ph, lp |-> FALSE, internal |-> FALSE]
NwIdle == [stk |-> <<>>, nest |-> 0, st |-> "idle", seen |-> {}, adv |-> 0, maxd |-> 0, afterlen |-> FALSE]
\* _parse_tree_statement: the current token opens the statement
NwBegin(t) == [stk |-> <<NwFrame("open")>>, nest |-> IF t = "(" THEN 1 ELSE 0, st |-> "run", seen |-> {}, adv |-> 0, maxd |-> 1,
               afterlen |-> FALSE]
NwDepth(s) == Len(s.stk)
NwTop(s) == s.stk[Len(s.stk)]
NwSetTop(s, f) == [s EXCEPT !.stk[Len(s.stk)] = f]
NwErr(s) == [s EXCEPT !.st = "err", !.adv = 0]
NwMax(a, b) == IF a >= b THEN a ELSE b

\* tsr = the reader option terminating_semicolon_required.  With tsr = FALSE the end of the stream
\* right after an edge length ends the statement (then the parentheses must be balanced, as at a
\* ';'); after a label, or anywhere else, it is the error it always is.  Whatever the option, the
\* end of the stream ends the machine: nothing is ever re-read.
NwStep0(s, t, tsr) ==
    LET f == NwTop(s)
        d == Len(s.stk)
    IN
    IF t = EOF /\ ~tsr /\ f.ph = "tail" /\ s.afterlen
      THEN (IF s.nest # 0 \/ d # 1 THEN NwErr(s) ELSE [s EXCEPT !.st = "ok", !.adv = 0])
    ELSE IF t = EOF \/ t = "'" THEN NwErr(s)        \* UnexpectedEndOfStreamError / UnterminatedQuoteError
    ELSE CASE f.ph = "open" ->                      \* entry of _parse_tree_node_description
              IF t = "(" THEN [NwSetTop(s, [f EXCEPT !.ph = "kids", !.internal = TRUE]) EXCEPT !.adv = 1]
              ELSE [NwSetTop(s, [f EXCEPT !.ph = "tail"]) EXCEPT !.adv = 0]
         [] f.ph = "kids" ->                        \* `for count in it.count()` : children of this node
              IF t = "," THEN [s EXCEPT !.adv = 1]                                   \* (blank nodes)
              ELSE IF t = ")" THEN [NwSetTop(s, [f EXCEPT !.ph = "tail"]) EXCEPT !.adv = 1, !.nest = @ - 1]
              ELSE [s EXCEPT !.stk = Append(@, NwFrame("open")),                    \* recursive call
                             !.nest = IF t = "(" THEN @ + 1 ELSE @,
                             !.adv = 0,
                             !.maxd = NwMax(@, d + 1)]
         [] f.ph = "tail" ->                        \* `while True` : label, length, end of node
              CASE t = ":" -> [NwSetTop(s, [f EXCEPT !.ph = "len"]) EXCEPT !.adv = 1]
                [] t \in {")", ","} -> IF d = 1 THEN NwErr(s)                        \* returns to _parse_tree_statement: incomplete
                                       ELSE [s EXCEPT !.stk = SubSeq(@, 1, d - 1), !.adv = 0]
                [] t = ";" -> IF s.nest # 0 \/ d # 1 THEN NwErr(s)                   \* unbalanced parentheses
                              ELSE [s EXCEPT !.st = "ok", !.adv = 1]
                [] t = "(" -> NwErr(s)
                [] OTHER -> IF f.lp THEN NwErr(s)                                    \* second label
                            ELSE IF ~f.internal /\ t \in s.seen THEN NwErr(s)        \* duplicate taxon
                            ELSE [NwSetTop(s, [f EXCEPT !.lp = TRUE]) EXCEPT
                                     !.seen = IF f.internal THEN @ ELSE @ \cup {t}, !.adv = 1]
         [] f.ph = "len" ->
              IF IsLenTok(t) THEN [NwSetTop(s, [f EXCEPT !.ph = "tail"]) EXCEPT !.adv = 1] ELSE NwErr(s)

NwStep(s, t, tsr) ==
    LET n == NwStep0(s, t, tsr)
    IN [n EXCEPT !.afterlen = (n.st = "run" /\ NwTop(s).ph = "len" /\ NwTop(n).ph = "tail" /\ Len(n.stk) = Len(s.stk))]

\* number of opening parentheses of an input: bound of the recursion depth
OpenCount(toks) == Cardinality({i \in 1..Len(toks) : toks[i] = "("})
=============================================================================
