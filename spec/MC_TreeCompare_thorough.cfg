SPECIFICATION Spec
CONSTANTS
  Families = {"top", "unary", "miss", "redraw"}
  K = 4
  KU = 4
  MaxNU = 7
  KM = 3
  MissVals <- MissValsThorough
  Full = TRUE
  MissFull = FALSE
  TripleRootings = {0, 1}
  AsShipped = FALSE
INVARIANT WF
INVARIANT PairAxioms
INVARIANT DefinedSymmetric
INVARIANT MagnitudeOk
INVARIANT FirstCallExact
INVARIANT RedrawInv
INVARIANT TripleInv
CHECK_DEADLOCK FALSE
