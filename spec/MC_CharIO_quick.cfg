SPECIFICATION Spec
CONSTANTS
  StickyHyphen = FALSE
  ShippedSetsLink = FALSE
  ShippedCharIds = FALSE
  ShippedLinkBlocks = FALSE
  ShippedTitleCase = FALSE
  Dims <- DimsQuick
  LabelSets = {"plain", "long", "space", "punct", "xml"}
  MaxNs = 3
  MaxComps = 2
  TitlePool <- TitlesSmall
INVARIANT SourceOK
INVARIANT RoundTrip
INVARIANT Pair
INVARIANT NamespaceOfEachComponent
CHECK_DEADLOCK FALSE
