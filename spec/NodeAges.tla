------------------------------ MODULE NodeAges ------------------------------
(***************************************************************************)
(* C17 - node ages, the ultrametricity check and tree statistics.          *)
(*                                                                         *)
(* Everything is defined on the graph form of TreeBase (raw pointers,      *)
(* lengths as integers in units of 1/LScale, -1 = None counted as 0).      *)
(* Real numbers never appear: distances are scaled integers, precisions    *)
(* and statistics are exact rationals <<num, den>> (den > 0, lowest terms).*)
(* The definitions below are the *published / documented* definitions, not *)
(* the way the library computes them (post-order sweep from the first      *)
(* child); the shipped rule is written down separately (Shipped...) only so  *)
(* that the model can compare the two.                                     *)
(***************************************************************************)
EXTENDS TreeBase

LScale == 4                       \* g.len[x] = real length * LScale (harness/vlib/proj.LSCALE)

\* ------------------------------------------------------------ small integer / rational toolkit
NaAbs(x) == IF x < 0 THEN 0 - x ELSE x
RECURSIVE NaGcd(_, _)
NaGcd(a, b) == IF b = 0 THEN a ELSE NaGcd(b, a % b)          \* a, b >= 0
NaLcm(a, b) == (a \div NaGcd(a, b)) * b                       \* a, b > 0
\* rational num/den with den > 0, in lowest terms (what fractions.Fraction prints)
RNorm(n, d) == LET k == NaGcd(NaAbs(n), d) IN <<(IF n < 0 THEN 0 - (NaAbs(n) \div k) ELSE n \div k), d \div k>>
RZero == <<0, 1>>
RInt(n) == <<n, 1>>
RAdd(p, q) == LET l == NaLcm(p[2], q[2]) IN RNorm(p[1] * (l \div p[2]) + q[1] * (l \div q[2]), l)
RNeg(p) == <<0 - p[1], p[2]>>
RSub(p, q) == RAdd(p, RNeg(q))
RLeq(p, q) == p[1] * q[2] <= q[1] * p[2]
RECURSIVE RSumFn(_, _)
RSumFn(S, f) == IF S = {} THEN RZero ELSE LET x == CHOOSE x \in S : TRUE IN RAdd(f[x], RSumFn(S \ {x}, f))
RECURSIVE NaInsertAsc(_, _)
NaInsertAsc(q, v) == IF q = <<>> THEN <<v>>
                     ELSE IF v <= Head(q) THEN <<v>> \o q ELSE <<Head(q)>> \o NaInsertAsc(Tail(q), v)
RECURSIVE NaSortAsc(_)
NaSortAsc(q) == IF q = <<>> THEN <<>> ELSE NaInsertAsc(NaSortAsc(Tail(q)), Head(q))
NaRev(q) == [i \in 1..Len(q) |-> q[Len(q) + 1 - i]]
NodeSeq(g) == [i \in 1..g.n |-> i]

\* ------------------------------------------------------------ depth, tip distances, ultrametricity
NonRoot(g) == {x \in Nodes(g) : g.par[x] # 0}
LeavesBelow(g, x) == {y \in Desc(g, x) : IsLeaf(g, y)}
\* Depth: distance from the root = sum of the edge lengths on the path (the root's own edge excluded)
Depth(g, x) == RootDist(g, x)
\* TipDist: the set of distances from x to its descendant tips
TipDist(g, x) == {Depth(g, l) - Depth(g, x) : l \in LeavesBelow(g, x)}
\* the same set built upward from the tips (independent recursion; MC checks they agree)
RECURSIVE TipDistUp(_, _)
TipDistUp(g, x) == IF IsLeaf(g, x) THEN {0}
                   ELSE UNION {{d + L0(g, c) : d \in TipDistUp(g, c)} : c \in KidSet(g, x)}
Spread(g, x) == Max(TipDist(g, x)) - Min(TipDist(g, x))
LeafDepths(g) == {Depth(g, l) : l \in Leaves(g)}

\* prec = <<num, den>> in real length units.  A tree is ultrametric within prec when, at every
\* internal node, the distances to the tips below it (through whatever children) differ by <= prec.
\* (Equivalently: the root-to-tip path lengths agree within prec.)
Ultrametric(g, prec) == \A x \in Internals(g) : Spread(g, x) * prec[2] <= prec[1] * LScale
PathsAgree(g, prec) == (Max(LeafDepths(g)) - Min(LeafDepths(g))) * prec[2] <= prec[1] * LScale

\* Age: on a tree accepted as ultrametric the age of a node is its distance to its descendant tips;
\* exact when the tree is exactly ultrametric (TipDist is a singleton), otherwise any of the tip
\* distances (they agree within the precision).
AgeOk(g, x, a) == a \in TipDist(g, x)
\* forced ages, as documented: oldest / youngest age given the child set and subtending edge lengths
RECURSIVE ForcedMaxAge(_, _)
ForcedMaxAge(g, x) == IF IsLeaf(g, x) THEN 0 ELSE Max({ForcedMaxAge(g, c) + L0(g, c) : c \in KidSet(g, x)})
RECURSIVE ForcedMinAge(_, _)
ForcedMinAge(g, x) == IF IsLeaf(g, x) THEN 0 ELSE Min({ForcedMinAge(g, c) + L0(g, c) : c \in KidSet(g, x)})
\* resolve_node_ages (documented: root = distance to the most distant tip, others by root distance)
ResolvedAge(g, x) == Max(LeafDepths(g)) - Depth(g, x)

\* the rule as shipped (calc_node_ages): age through the FIRST child, compared with the other children
RECURSIVE ShippedAge(_, _)
ShippedAge(g, x) == IF IsLeaf(g, x) THEN 0 ELSE ShippedAge(g, g.kids[x][1]) + L0(g, g.kids[x][1])
ShippedAccepts(g, prec) ==
    \A x \in Internals(g) : \A i \in 2..Len(g.kids[x]) :
        NaAbs(ShippedAge(g, x) - (ShippedAge(g, g.kids[x][i]) + L0(g, g.kids[x][i]))) * prec[2] <= prec[1] * LScale

\* ------------------------------------------------------------ ages -> edge lengths
\* ages: Seq over node ids (scaled).  opt.hasmin / opt.min: minimum_edge_length (None = no clamp),
\* opt.err: error_on_negative_edge_lengths.  The root's edge is not touched.
RawLenFromAges(g, ages, opt, x) ==
    LET d == ages[g.par[x]] - ages[x] IN IF opt.hasmin /\ d < opt.min THEN opt.min ELSE d
EdgeLengthsFromAges(g, ages, opt) ==
    [x \in 1..g.n |-> IF g.par[x] = 0 THEN g.len[x] ELSE RawLenFromAges(g, ages, opt, x)]
EdgeLengthsError(g, ages, opt) == opt.err /\ \E x \in NonRoot(g) : RawLenFromAges(g, ages, opt, x) < 0
NoClamp == [hasmin |-> FALSE, min |-> 0, err |-> FALSE]
WithLens(g, lens) == [g EXCEPT !.len = lens]

\* ------------------------------------------------------------ lineages
\* d2 = distance from the root in units of 1/(2*LScale) (so that midpoints between node depths are
\* integers).  Convention (documented by the behaviour of num_lineages_at): an edge (p, x) is the
\* half-open interval (Depth(p), Depth(x)] - closed at its head, open at its tail - and a
\* zero-length edge is the single point Depth(x).  Hence 0 lineages at d = 0 unless zero-length
\* edges hang from the root, and the number of tips at the tip depth of an ultrametric tree.
Lineages(g, d2) ==
    Cardinality({x \in NonRoot(g) :
        LET hd == 2 * Depth(g, x)  tl == 2 * Depth(g, g.par[x]) IN hd = d2 \/ (tl < d2 /\ d2 < hd)})
\* lineage-through-time count from the branching events (only meaningful when every edge is positive)
LineagesByBranching(g, d2) ==
    IF d2 <= 0 THEN 0
    ELSE 1 + SumFn({x \in Internals(g) : 2 * Depth(g, x) < d2}, [x \in Nodes(g) |-> Len(g.kids[x]) - 1])
           - Cardinality({l \in Leaves(g) : 2 * Depth(g, l) < d2})

\* ------------------------------------------------------------ tree statistics
NLeaves(g) == Cardinality(Leaves(g))
Length(g) == TotalLength(g)                                   \* all edges, None as 0 (scaled)
NumAnc(g, x) == Len(AncSeq(g, x))
Sackin(g) == SumFn(Leaves(g), [x \in Nodes(g) |-> NumAnc(g, x)])
\* second published form: sum over internal nodes of the number of tips below them
SackinByClades(g) == SumFn(Internals(g), [x \in Nodes(g) |-> Cardinality(LeavesBelow(g, x))])
NBar(g) == RNorm(Sackin(g), NLeaves(g))
IsBinary(g) == \A x \in Internals(g) : Len(g.kids[x]) = 2
Colless(g) == SumFn(Internals(g), [x \in Nodes(g) |->
                 IF IsLeaf(g, x) THEN 0
                 ELSE NaAbs(Cardinality(LeavesBelow(g, g.kids[x][1])) - Cardinality(LeavesBelow(g, g.kids[x][2])))])
CollessMax(g) == LET n == NLeaves(g) IN RNorm(2 * Colless(g), (n - 1) * (n - 2))       \* n >= 3
\* M_i: the maximum number of nodes (edges) between interior node i and the tips below it
HeightOf(g, x) == Max({NumAnc(g, l) - NumAnc(g, x) : l \in LeavesBelow(g, x)})
B1(g) == RSumFn(Internals(g) \ {g.seed}, [x \in Nodes(g) |-> IF IsLeaf(g, x) THEN RZero ELSE <<1, HeightOf(g, x)>>])
InternalLen(g) == SumFn(Internals(g) \cap NonRoot(g), [x \in Nodes(g) |-> L0(g, x)])
SubtendedLen(g) == SumFn(NonRoot(g), [x \in Nodes(g) |-> L0(g, x)])
Treeness(g) == RNorm(InternalLen(g), SubtendedLen(g))         \* SubtendedLen > 0

\* Pybus & Harvey (2000), for a binary, exactly ultrametric tree with n >= 3 tips:
\*   g_k (k = 2..n) waiting time while there are k lineages; T = sum_k k g_k;
\*   gamma = [ 1/(n-2) * sum_{i=2}^{n-1} sum_{k=2}^{i} k g_k  -  T/2 ] / [ T * sqrt(1/(12(n-2))) ]
\* TLC computes T, the numerator and numerator/T exactly; the square root is applied outside.
GammaParts(g) ==
    LET n == NLeaves(g)
        ints == SelectSeq(NodeSeq(g), LAMBDA x : ~IsLeaf(g, x))
        a == NaRev(NaSortAsc([i \in 1..Len(ints) |-> ForcedMaxAge(g, ints[i])])) \o <<0>>    \* a[1] >= ... >= a[n] = 0
        kg == [k \in 2..n |-> k * (a[k - 1] - a[k])]
        inner == [i \in 2..n |-> SumFn(2..i, kg)]
        T == inner[n]
        acc == SumFn(2..(n - 1), inner)
    IN [T |-> T, num |-> RNorm(2 * acc - (n - 2) * T, 2 * (n - 2)),
        ratio |-> IF T > 0 THEN RNorm(2 * acc - (n - 2) * T, 2 * (n - 2) * T) ELSE <<0, 1>>]
GammaDefined(g) == IsBinary(g) /\ NLeaves(g) >= 3 /\ Ultrametric(g, RZero) /\ Max(LeafDepths(g)) > 0

\* every shape / length statistic in one value (for the child-order invariance check)
Stats(g) == [len |-> Length(g), sackin |-> Sackin(g), nbar |-> NBar(g),
             colless |-> IF IsBinary(g) THEN Colless(g) ELSE -1,
             b1 |-> B1(g),
             treeness |-> IF SubtendedLen(g) > 0 THEN Treeness(g) ELSE <<0, 0>>,
             gamma |-> IF GammaDefined(g) THEN GammaParts(g).ratio ELSE <<0, 0>>,
             maxd |-> Max(LeafDepths(g)), mind |-> Min(LeafDepths(g))]

\* ------------------------------------------------------------ child permutations
SwapKids(g, x, i) == [g EXCEPT !.kids[x] = [j \in 1..Len(@) |-> IF j = i THEN @[i + 1] ELSE IF j = i + 1 THEN @[i] ELSE @[j]]]
\* order-free value of a tree with lengths (taxa make equal subtrees distinguishable)
RECURSIVE Unordered(_, _)
Unordered(g, x) == [t |-> g.tx[x], l |-> (IF g.par[x] = 0 THEN 0 ELSE g.len[x]), k |-> {Unordered(g, c) : c \in KidSet(g, x)}]
=============================================================================
