SPECIFICATION Spec
CONSTANTS
  N = 4
  MaxTrees = 2
  NW = 3
  NT = 7
  Observe = TRUE
  ObserveFrom = 1
  TrackDist = TRUE
  TrackOperand = FALSE
  AdoptLists = FALSE
  BookkeepFirst = FALSE
  CacheChecksCount = TRUE
INVARIANT CacheFresh
INVARIANT GraphAgrees
INVARIANT FreqExact
INVARIANT MergeExact
INVARIANT ObservedOK
INVARIANT SummariesSane
CHECK_DEADLOCK FALSE
