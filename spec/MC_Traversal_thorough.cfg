SPECIFICATION Spec
CONSTANT MaxN = 7
INVARIANT Sound
CHECK_DEADLOCK FALSE
