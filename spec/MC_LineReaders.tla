---------------------------- MODULE MC_LineReaders ----------------------------
(* C20 - bounded model of the PHYLIP and FASTA readers: base documents x     *)
(* every truncation x every single token edit; one step per line.           *)
EXTENDS LineReaders
CONSTANTS Quick, Shipped
VARIABLES fam, inp, lines, i, st
vars == <<fam, inp, lines, i, st>>
Edited(d, f) == EditedDoc(d, f, Quick, 4)
Cases == UNION {{<<AllDocs[k].fam, e, AllDocs[k].inter, AllDocs[k].dtype = "continuous">> : e \in Edited(AllDocs[k].toks, AllDocs[k].fam)}
                : k \in DocIdx("phylip") \cup DocIdx("fasta")}
Init == \E c \in Cases : \E ign \in BOOLEAN :          \* reader option ignore_invalid_chars (PHYLIP)
          /\ (c[1] = "fasta" => ~ign)
          /\ fam = c[1] /\ inp = c[2] /\ lines = TextLines(c[2]) /\ i = 1
          /\ st = IF c[1] = "phylip" THEN PhStart(TextLines(c[2]), c[3], ign, c[4]) ELSE FaStart
Step == /\ st.outcome = "none"
        /\ IF fam = "phylip"
           THEN IF i >= Len(lines) THEN st' = PhFinish(st, Shipped) /\ i' = i      \* line 1 is the description line
                ELSE st' = PhLine(st, lines[i + 1]) /\ i' = i + 1
           ELSE IF i > Len(lines) THEN st' = FaFinish(st) /\ i' = i
                ELSE st' = FaLine(st, lines[i]) /\ i' = i + 1
        /\ UNCHANGED <<fam, inp, lines>>
Spec == Init /\ [][Step]_vars /\ WF_vars(Step)
Termination == <>(st.outcome # "none")
OutcomeDocumented == st.outcome \in {"none", "Ok", "ParseError"}
DimsConsistent == (fam = "phylip" /\ st.outcome = "Ok") =>
                     /\ Cardinality(DOMAIN st.rows) = st.ntax
                     /\ \A l \in DOMAIN st.rows : st.rows[l] = st.nchar
Emit == (st.outcome # "none" /\ TLCGet("config").mode = "bfs") =>
           (fam = "phylip" /\ st.ign) \/ PrintT("C20OUT " \o st.outcome \o " 0 " \o (IF st.outcome = "Ok" THEN "1" ELSE "0") \o " " \o ToString(inp))
=============================================================================
