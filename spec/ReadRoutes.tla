------------------------------ MODULE ReadRoutes ------------------------------
(***************************************************************************)
(* C13 - all ways of reading the same source deliver the same data.        *)
(*                                                                         *)
(* Document model.  A document is                                          *)
(*   [taxa   |-> Seq(STRING),            labels of the TAXA block / <otus> *)
(*    blocks |-> Seq(block)]                                               *)
(* a TREES block is                                                        *)
(*   [kind |-> "trees", title |-> STRING ("" = none), translate |-> BOOLEAN*)
(*    lead |-> Seq(comment)   comments before the first TREE keyword       *)
(*    stmts |-> Seq(stmt)]                                                 *)
(* a statement is                                                          *)
(*   [name |-> STRING, rt |-> "" | "R" | "U"   rooting token [&R] / [&U]   *)
(*    sym  |-> "label" | "number"  how the leaves name their taxa where    *)
(*                           the block has no TRANSLATE table              *)
(*    w    |-> <<num, den>>  tree weight token [&W n/d], <<0,0>> = none    *)
(*    cpre |-> Seq(comment)  between the TREE keyword and '='              *)
(*    cpost|-> Seq(comment)  between '=' and the tree (with rt and w)      *)
(*    cin  |-> Seq([at, c])  inside the tree, behind the label of node at  *)
(*    caft |-> Seq(comment)  behind the terminating ';'                    *)
(*    tree |-> [p, lf, il, ln]  preorder parent array, leaf labels left to *)
(*                           right, label per node ("" none), length per   *)
(*                           node (scaled integer, -1 none)]               *)
(* a comment is [m |-> BOOLEAN, k |-> STRING, v |-> STRING]: plain text k, *)
(* or (m) the metadata comment [&k=v].                                     *)
(* a CHARACTERS block is [kind |-> "chars", title |-> STRING, type |->     *)
(*   "dna" | "standard" (the data type of the block),                      *)
(*   rows |-> Seq([lab, seq])] (taxon label and its row of symbols); a     *)
(* SETS block is [kind |-> "sets", link, charsets |-> Seq([name, spec])].  *)
(* Newick = one block, statements without names; NeXML = the id-linked     *)
(* equivalent (no weights, no comments, rooting token = root attribute).   *)
(*                                                                         *)
(* The reading routes are SELECTIONS over the collections a document       *)
(* defines (Seq(Seq(x)), one inner sequence per tree collection).  The     *)
(* selection operators are polymorphic in x: the model applies them to the *)
(* statement views StmtView defines, the trace specification applies them  *)
(* to the projections of the trees the real routes returned.               *)
(***************************************************************************)
EXTENDS TreeBase

CONSTANTS TreeGetKeepsSourceName,     \* FALSE = as shipped: Tree.get replaces the name by the absent label keyword
          NexmlListRoutesReuseTaxa    \* FALSE = as shipped: NeXML list routes create new taxa in a shared namespace

NoOff == 99                           \* "offset not given"
Offs(n) == (-(n + 1))..n              \* every offset up to one step out of range on either side
NoWeight == <<0, 0>>
DefaultWeight == <<1, 1>>

\* ------------------------------------------------------------------ documents
IsTreesBlock(b) == b.kind = "trees"
IsCharsBlock(b) == b.kind = "chars"
TreesBlocks(doc) == SelectSeq(doc.blocks, IsTreesBlock)
CharsBlocks(doc) == SelectSeq(doc.blocks, IsCharsBlock)
NonEmpty(b) == b.stmts # <<>>

\* ------------------------------------------------------------------ what one statement delivers
\* rooting directive x rooting token -> is_rooted (-1 None, 0 False, 1 True)
RootedOf(rooting, rt) ==
    CASE rooting = "force-unrooted" -> 0
      [] rooting = "force-rooted" -> 1
      [] rt = "R" -> 1
      [] rt = "U" -> 0
      [] rooting = "default-rooted" -> 1
      [] rooting = "default-unrooted" -> 0
      [] OTHER -> -1
TextOf(c) == IF c.m THEN "&" \o c.k \o "=" \o c.v ELSE c.k
PlainOf(cs, meta) == LET q == SelectSeq(cs, LAMBDA c : ~(c.m /\ meta)) IN [i \in 1..Len(q) |-> TextOf(q[i])]
AnnOf(cs, meta) == LET q == SelectSeq(cs, LAMBDA c : c.m /\ meta) IN [i \in 1..Len(q) |-> <<q[i].k, q[i].v>>]
WeightText(w) == "&W " \o ToString(w[1]) \o "/" \o ToString(w[2])

\* o = [rooting, weights (store_tree_weights), meta (extract_comment_metadata)]
\* carry = the comments captured behind the previous statement's ';' (same block)
StmtView(s, carry, o) ==
    LET inner == s.cpost               \* seen by the tree statement parser
        outer == carry \o s.cpre       \* pulled by the block front end once '=' has been read
        wcom == IF ~o.weights /\ s.w # NoWeight THEN <<WeightText(s.w)>> ELSE <<>>
    IN [name |-> s.name,
        rooted |-> RootedOf(o.rooting, s.rt),
        weight |-> IF ~o.weights THEN NoWeight ELSE IF s.w = NoWeight THEN DefaultWeight ELSE s.w,
        comments |-> wcom \o PlainOf(inner, o.meta) \o PlainOf(outer, o.meta),
        ann |-> AnnOf(inner, o.meta) \o AnnOf(outer, o.meta),
        nodecom |-> [i \in 1..Len(s.cin) |-> <<s.cin[i].at, PlainOf(<<s.cin[i].c>>, o.meta), AnnOf(<<s.cin[i].c>>, o.meta)>>],
        tree |-> s.tree]

\* The two NEXUS block front ends walk the statements of a TREES block with the
\* tokenizer's buffer of captured comments (cap); both hand every statement to the
\* same tree statement parser.
RECURSIVE WalkStmts(_, _, _, _)
WalkStmts(stmts, i, cap, o) ==
    IF i > Len(stmts) THEN <<>>
    ELSE <<StmtView(stmts[i], cap, o)>> \o WalkStmts(stmts, i + 1, stmts[i].caft, o)

\* nexusreader._parse_trees_block: the list is created at the first TREE statement and
\* receives the comments captured before it; trailing comments stay in the buffer and
\* are handed to the global annotation target by the stream driver.
ReaderBlock(b, o) ==
    IF b.stmts = <<>> THEN <<>>
    ELSE <<[label |-> b.title, comments |-> PlainOf(b.lead, o.meta), trees |-> WalkStmts(b.stmts, 1, <<>>, o)]>>
ReaderLists(doc, o) == Flatten([k \in 1..Len(TreesBlocks(doc)) |-> ReaderBlock(TreesBlocks(doc)[k], o)])
\* nexusyielder._yield_from_trees_block: the leading comments are pulled and dropped
YielderBlock(b, o) == WalkStmts(b.stmts, 1, <<>>, o)
YielderTrees(doc, o) == Flatten([k \in 1..Len(TreesBlocks(doc)) |-> YielderBlock(TreesBlocks(doc)[k], o)])

\* the collections of a document per schema
NexmlView(s) == [name |-> s.name, rooted |-> IF s.rt = "R" THEN 1 ELSE 0, weight |-> NoWeight, comments |-> <<>>,
                 ann |-> AnnOf(s.cpost \o s.cpre, TRUE), nodecom |-> <<>>, tree |-> s.tree]
Collections(doc, fmt, o) ==
    CASE fmt = "nexus" -> LET L == ReaderLists(doc, o) IN [k \in 1..Len(L) |-> L[k].trees]
      [] fmt = "nexml" -> LET B == TreesBlocks(doc) IN [k \in 1..Len(B) |-> [i \in 1..Len(B[k].stmts) |-> NexmlView(B[k].stmts[i])]]
      [] fmt = "newick" -> LET B == TreesBlocks(doc) IN
                           <<[i \in 1..Len(B[1].stmts) |->
                                [StmtView(B[1].stmts[i], IF i = 1 THEN <<>> ELSE B[1].stmts[i - 1].caft, o) EXCEPT !.name = ""]]>>
\* names as the source gives them (what "assigned the one specified in the data source" refers to)
DocNames(doc, fmt) ==
    LET B == IF fmt = "nexus" THEN SelectSeq(TreesBlocks(doc), NonEmpty) ELSE TreesBlocks(doc)
    IN [k \in 1..Len(B) |-> [i \in 1..Len(B[k].stmts) |-> IF fmt = "newick" THEN "" ELSE B[k].stmts[i].name]]

\* ------------------------------------------------------------------ routes as selections
PyIdx(i, n) == IF i < 0 THEN i + n ELSE i          \* 0-based position a Python index names
InRange(i, n) == -n <= i /\ i < n
Ok(q) == [err |-> "", items |-> q]
Err(k) == [err |-> k, items |-> <<>>]
From(q, k) == SubSeq(q, k + 1, Len(q))              \* q[k:] for 0 <= k
Given(x, dflt) == IF x = NoOff THEN dflt ELSE x
MaxLen(colls) == IF colls = <<>> THEN 0 ELSE Max({Len(colls[k]) : k \in 1..Len(colls)})

\* TreeList.get / the appended part of TreeList.read: every collection, or one collection from an offset
SelTreeListGet(colls, c, t) ==
    IF c = NoOff /\ t = NoOff THEN Ok(Flatten(colls))
    ELSE LET cc == Given(c, 0)  n == Len(colls) IN
         IF ~InRange(cc, n) THEN Err("IndexError")
         ELSE LET L == colls[PyIdx(cc, n) + 1] IN
              IF t = NoOff THEN Ok(L)
              ELSE IF t >= Len(L) THEN Err("IndexError")
              ELSE Ok(From(L, IF t < -Len(L) THEN 0 ELSE PyIdx(t, Len(L))))
\* a negative tree offset below -len: "negative offsets work like negative list indexes ... the last
\* 10 trees" does not say whether this is an error; the reference takes the slice, the judge leaves it free
TreeOffsetUnderflow(colls, c, t) ==
    /\ t # NoOff /\ InRange(Given(c, 0), Len(colls))
    /\ t < -Len(colls[PyIdx(Given(c, 0), Len(colls)) + 1])

\* Tree.get(collection_offset, tree_offset)
SelTreeGet(colls, c, t) ==
    LET cc == Given(c, 0)  tt == Given(t, 0)  n == Len(colls) IN
    IF n = 0 THEN Err("NoTrees")
    ELSE IF ~InRange(cc, n) THEN Err("IndexError")
    ELSE LET L == colls[PyIdx(cc, n) + 1] IN
         IF L = <<>> THEN Err("NoTrees")
         ELSE IF ~InRange(tt, Len(L)) THEN Err("IndexError")
         ELSE Ok(<<L[PyIdx(tt, Len(L)) + 1]>>)

\* TreeList.read into an existing list: appends, keeps what was there
SelTreeListRead(pre, colls, c, t) ==
    LET s == SelTreeListGet(colls, c, t) IN IF s.err # "" THEN [err |-> s.err, items |-> pre] ELSE Ok(pre \o s.items)
\* Tree.yield_from_files: lazy concatenation (no offsets: documented)
SelYield(colls) == Ok(Flatten(colls))
\* DataSet.get: one list per collection
SelDataSet(colls) == colls
\* TreeArray.read: the yielder's trees from a file-wide offset on, structures only; mixed rooting is refused
RootingStates(q, rootedOf(_)) == {rootedOf(q[i]) : i \in 1..Len(q)}
SelTreeArray(colls, t, rootedOf(_)) ==
    LET all == Flatten(colls)  q == From(all, Min({Given(t, 0), Len(all)})) IN
    IF Cardinality(RootingStates(q, rootedOf)) <= 1 THEN Ok(q) ELSE Err("MixedRootingError")
\* <Type>CharacterMatrix.get(matrix_offset): the m-th matrix of the data set - matrix_offset counts the
\* character blocks of the source whatever their type - or the documented errors: out of range, or the
\* block at that offset is not of the class's data type
SelMatrix(mats, typeOf(_), cls, m) ==
    IF mats = <<>> THEN Err("NoMatrix")
    ELSE IF ~InRange(Given(m, 0), Len(mats)) THEN Err("IndexError")
    ELSE LET x == mats[PyIdx(Given(m, 0), Len(mats)) + 1] IN
         IF typeOf(x) # cls THEN Err("ValueError") ELSE Ok(<<x>>)
MatrixClasses == {"dna", "standard"}

\* ------------------------------------------------------------------ the definitions agree pairwise (model level)
IsTailOf(a, b) == Len(a) <= Len(b) /\ a = From(b, Len(b) - Len(a))
SelectionsAgree(colls) ==
    LET n == Len(colls)  all == Flatten(colls)  CO == Offs(n) \cup {NoOff}  TO == Offs(MaxLen(colls)) \cup {NoOff} IN
    /\ SelYield(colls).items = all
    /\ SelTreeListGet(colls, NoOff, NoOff) = Ok(all)
    /\ Flatten(SelDataSet(colls)) = all
    /\ Flatten([k \in 1..n |-> SelTreeListGet(colls, k - 1, NoOff).items]) = all
    /\ Flatten([k \in 1..n |-> SelTreeListGet(colls, k - 1 - n, NoOff).items]) = all
    /\ \A c \in CO : \A t \in TO :
         LET one == SelTreeGet(colls, c, t)
             lst == SelTreeListGet(colls, Given(c, 0), Given(t, 0))
             whole == SelTreeListGet(colls, Given(c, 0), NoOff)
         IN \* the single tree is the first tree of the list read from the same offsets
            /\ (one.err = "" => lst.err = "" /\ lst.items # <<>> /\ Head(lst.items) = one.items[1])
            \* out of range is an error for both (below -len is left free for the list routes)
            /\ (one.err = "IndexError" /\ ~TreeOffsetUnderflow(colls, c, t) => lst.err = "IndexError")
            /\ (lst.err = "IndexError" => one.err # "")
            \* a list read from an offset is a suffix of the collection, and what read() appends
            /\ (lst.err = "" => whole.err = "" /\ IsTailOf(lst.items, whole.items))
            /\ \A pre \in {<<>>, all} :
                 LET rd == SelTreeListRead(pre, colls, c, t)  g == SelTreeListGet(colls, c, t) IN
                   IF g.err = "" THEN rd = Ok(pre \o g.items) ELSE rd.err = g.err /\ rd.items = pre
            \* negative offsets name the same collections / trees as their non-negative counterparts
            /\ (c # NoOff /\ c >= 0 /\ c < n => SelTreeGet(colls, c - n, t) = one /\ SelTreeListGet(colls, c - n, t) = SelTreeListGet(colls, c, t))
            /\ (one.err = "" /\ t # NoOff /\ t >= 0 =>
                    LET m == Len(colls[PyIdx(Given(c, 0), n) + 1]) IN
                    SelTreeGet(colls, c, t - m) = one /\ SelTreeListGet(colls, Given(c, 0), t - m) = lst)

\* the two NEXUS block front ends deliver the same trees, and these are the document's collections
FrontEndsAgree(doc, o) ==
    LET L == ReaderLists(doc, o) IN
    /\ Flatten([k \in 1..Len(L) |-> L[k].trees]) = YielderTrees(doc, o)
    /\ Len(L) = Len(SelectSeq(TreesBlocks(doc), NonEmpty))
    /\ \A k \in 1..Len(L) : Len(L[k].trees) = Len(SelectSeq(TreesBlocks(doc), NonEmpty)[k].stmts)

\* the tree array keeps the structures the yielder delivers, or refuses mixed rooting
ArrayAgrees(colls) ==
    LET rootedOf(v) == v.rooted  all == Flatten(colls) IN
    \A t \in 0..(Len(all) + 1) :
       LET a == SelTreeArray(colls, t, rootedOf) IN
       IF a.err = "" THEN IsTailOf(a.items, SelYield(colls).items) /\ Len(a.items) = Max({0, Len(all) - t})
       ELSE \E i, j \in 1..Len(all) : i >= t + 1 /\ j >= t + 1 /\ all[i].rooted # all[j].rooted

\* ------------------------------------------------------------------ tree names
ListRoutes == {"TreeListGet", "TreeGet", "TreeListRead"}
AllRoutes == ListRoutes \cup {"YieldFromFiles", "TreeArrayRead", "DataSetGet"}
\* name delivered by Tree.get without a label keyword ("if not given, will be assigned the one
\* specified in the data source"); "\\None" stands for None
DeliveredTreeGetName(view) == IF TreeGetKeepsSourceName THEN view.name ELSE "\\None"
NamesAgree(colls) ==
    \A c \in Offs(Len(colls)) \cup {NoOff} : \A t \in Offs(MaxLen(colls)) \cup {NoOff} :
       LET one == SelTreeGet(colls, c, t) IN
       one.err = "" => DeliveredTreeGetName(one.items[1]) = Head(SelTreeListGet(colls, Given(c, 0), Given(t, 0)).items).name

\* ------------------------------------------------------------------ taxa when a namespace is shared across calls
\* a namespace is the sequence of its taxon labels; a taxon is named by its position
Lookup(ns, lab) == IF \E i \in 1..Len(ns) : ns[i] = lab THEN Min({i \in 1..Len(ns) : ns[i] = lab}) ELSE 0
RECURSIVE RequireAll(_, _)
RequireAll(ns, labs) ==
    IF labs = <<>> THEN ns
    ELSE RequireAll(IF Lookup(ns, Head(labs)) = 0 THEN Append(ns, Head(labs)) ELSE ns, Tail(labs))
ReusesTaxa(fmt, route) == IF fmt = "nexml" /\ route \in ListRoutes THEN NexmlListRoutesReuseTaxa ELSE TRUE
\* reading doc through a route into namespace ns: the namespace afterwards and the taxon each label denotes
ReadInto(ns, doc, fmt, route) ==
    IF ReusesTaxa(fmt, route)
    THEN LET ns2 == RequireAll(ns, doc.taxa) IN [ns |-> ns2, at |-> [j \in 1..Len(doc.taxa) |-> Lookup(ns2, doc.taxa[j])]]
    ELSE [ns |-> ns \o doc.taxa, at |-> [j \in 1..Len(doc.taxa) |-> Len(ns) + j]]
SameTaxaWhenShared(doc, fmt) ==
    \A r1, r2 \in AllRoutes :
       LET a == ReadInto(<<>>, doc, fmt, r1)  b == ReadInto(a.ns, doc, fmt, r2) IN a.at = b.at

\* several <otus> blocks mapped to one namespace (lists = their label lists): every block is looked up in
\* the namespace as it stands when the block is read, so labels shared between blocks denote one taxon
RECURSIVE ReadBlocksInto(_, _, _, _)
ReadBlocksInto(ns, lists, k, reuse) ==
    IF k > Len(lists) THEN [ns |-> ns, at |-> <<>>]
    ELSE LET ns2 == IF reuse THEN RequireAll(ns, lists[k]) ELSE ns \o lists[k]
             here == [j \in 1..Len(lists[k]) |-> IF reuse THEN Lookup(ns2, lists[k][j]) ELSE Len(ns) + j]
             rest == ReadBlocksInto(ns2, lists, k + 1, reuse)
         IN [ns |-> rest.ns, at |-> <<here>> \o rest.at]
SameTaxaWhenSharedBlocks(lists) ==
    \A r1, r2 \in AllRoutes :
       LET a == ReadBlocksInto(<<>>, lists, 1, ReusesTaxa("nexml", r1))
           b == ReadBlocksInto(a.ns, lists, 1, ReusesTaxa("nexml", r2))
       IN a.at = b.at

\* ------------------------------------------------------------------ matrices, source dispatch
MatricesAgree(doc) ==
    LET M == CharsBlocks(doc)  typeOf(b) == b.type IN
    \A cls \in MatrixClasses : \A m \in Offs(Len(M)) \cup {NoOff} :
       LET s == SelMatrix(M, typeOf, cls, m)  k == Given(m, 0) IN
       IF InRange(k, Len(M)) /\ M[PyIdx(k, Len(M)) + 1].type = cls THEN s = Ok(<<M[PyIdx(k, Len(M)) + 1]>>) ELSE s.err # ""
\* data= / file= / path= all end in _parse_and_create_from_stream / _parse_and_add_from_stream on a
\* stream with the same text: the selection does not depend on the source kind
Sources == {"data", "file", "path"}
=============================================================================
