SPECIFICATION Spec
CONSTANTS
  NArr = 3
  Sample <- SampleQuick
  Shipped = TRUE
  MergeOps = {"update"}
  Configs <- ConfigsImplicitUnrooted
  Positions = FALSE
INVARIANT NoMergeFailure
CHECK_DEADLOCK FALSE
