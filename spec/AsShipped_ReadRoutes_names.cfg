SPECIFICATION Spec
CONSTANTS
  TreeGetKeepsSourceName = FALSE
  NexmlListRoutesReuseTaxa = TRUE
  MaxBlocks = 2
  MaxStmts = 1
  PoolSize = 2
  CharsAt = {0}
INVARIANTS Names
CHECK_DEADLOCK FALSE
