SPECIFICATION Spec
CONSTANTS
  MaxLeaves = 5
  MaxH = 2
  HU = 4
  Precs = {1, 2}
  MaxUnif = 1
  MaxPert = 1
  PertUnif = 0
  PertMaxH = 2
INVARIANTS DefsSound UltrametricByConstruction ThresholdExact ShippedComplete ShippedSound ForcedAgesRealisable LineagesSound StatsSound ChildOrderFree
CHECK_DEADLOCK FALSE
