SPECIFICATION Spec
CONSTANTS
  MaxFiles = 2
  MaxWorkers = 2
  FileSizes = {1}
  ShippedUpdate = FALSE
  Protocol = "nowait"
  AsyncFeeder = TRUE
  Rootings <- RootingsUnrooted
INVARIANT EveryFileRead
CHECK_DEADLOCK FALSE
