---------------------------- MODULE ReaderInputs ----------------------------
(***************************************************************************)
(* C20 - input domain of the readers, shared by the reader models, the     *)
(* input generator (MC_ReaderInputs) and the trace judge (Trace_Readers).  *)
(*                                                                         *)
(* A document is a sequence of tokens.  Every token is its own             *)
(* representative (the harness renders a sequence by writing the tokens    *)
(* separated by one blank; "EOL" is a line break).  The models look at     *)
(* tokens only through the class predicates below.                         *)
(***************************************************************************)
EXTENDS Naturals, Integers, Sequences, FiniteSets, TLC

EOF == "<EOF>"          \* what the token source returns forever after the last token
EOL == "EOL"

Labels    == {"a", "b", "c", "d", "e", "t", "u", "x", "y", "tt", "cs", "baz", "'q w'", "'x y'", "taxon0000a", "taxon0000b"}
NumToks   == {"0", "1", "2", "3", "4", "6"}
RealToks  == {"1.5", "2.5", "4.25"}
SeqToks   == {"ACGT", "AC", "GT", "ACG", "TTT", "TT", "01?", "1-0", "A", "T", "CG", "AG", ".C"}
\* comments: plain, rooting, and metadata comments (FigTree / BEAST / NHX annotations, which the tree
\* readers parse), including malformed metadata
Comments  == {"[c]", "[&R]", "[&lnP=-1.5]", "[&rate=0.5]", "[&rate=2,x=\"q\"]", "[&&NHX:S=1:D=Y]", "[&h=1]", "[&h={1,2}]",
              "[&k=1]", "[&k= ]", "[&k=]", "[&=1]", "[&k]", "[&k={1,2}]", "[&&NHX:a=1:b= ]", "[&W 1/2]"}
FastaHdrs == {">a", ">b"}
NumVal(t) == CASE t = "0" -> 0 [] t = "1" -> 1 [] t = "2" -> 2 [] t = "3" -> 3 [] t = "4" -> 4 [] t = "6" -> 6 [] OTHER -> -1
IsNum(t)  == t \in NumToks
SeqLen(t) == CASE t \in {"ACGT"} -> 4 [] t \in {"ACG", "TTT", "01?", "1-0"} -> 3 [] t \in {"AC", "GT", "TT", "CG", "AG", ".C"} -> 2
               [] t \in {"a", "b", "c", "d", "t", "u", "x", "y", "e", "A", "T"} \cup NumToks -> 1
               [] t \in {"tt", "cs"} -> 2 [] t = "baz" -> 3 [] OTHER -> 0
IsComment(t) == t \in Comments
\* what the tokenizer never hands to the reader: comments always, line breaks unless captured
Skippable(t, capEol) == IsComment(t) \/ (t = EOL /\ ~capEol)

\* ------------------------------------------------------------------ base documents
NxTaxaTrees ==
  <<"#NEXUS", "BEGIN", "TAXA", ";", "DIMENSIONS", "NTAX", "=", "3", ";", "TAXLABELS", "a", "b", "c", ";", "END", ";",
    "BEGIN", "TREES", ";", "TREE", "t", "=", "(", "a", ",", "(", "b", ",", "c", ")", ")", ";", "END", ";">>
NxTaxaChars ==
  <<"#NEXUS", "BEGIN", "TAXA", ";", "DIMENSIONS", "NTAX", "=", "2", ";", "TAXLABELS", "a", "b", ";", "END", ";",
    "BEGIN", "CHARACTERS", ";", "DIMENSIONS", "NCHAR", "=", "4", ";", "FORMAT", "DATATYPE", "=", "DNA", ";",
    "MATRIX", "a", "ACGT", "b", "AC", "GT", ";", "END", ";">>
NxDataInterleaved ==
  <<"#NEXUS", "BEGIN", "DATA", ";", "DIMENSIONS", "NTAX", "=", "2", "NCHAR", "=", "4", ";",
    "FORMAT", "DATATYPE", "=", "DNA", "INTERLEAVE", ";",
    "MATRIX", EOL, "a", "AC", EOL, "b", "AC", EOL, EOL, "a", "GT", EOL, "b", "GT", EOL, ";", "END", ";">>
NxContinuous ==
  <<"#NEXUS", "BEGIN", "TAXA", ";", "DIMENSIONS", "NTAX", "=", "2", ";", "TAXLABELS", "a", "b", ";", "END", ";",
    "BEGIN", "CHARACTERS", ";", "DIMENSIONS", "NCHAR", "=", "2", ";", "FORMAT", "DATATYPE", "=", "CONTINUOUS", ";",
    "MATRIX", "a", "1.5", "2", "b", "3", "4.25", ";", "END", ";">>
NxStandard ==
  <<"#NEXUS", "BEGIN", "DATA", ";", "DIMENSIONS", "NTAX", "=", "2", "NCHAR", "=", "3", ";",
    "FORMAT", "DATATYPE", "=", "STANDARD", "SYMBOLS", "=", "\"", "01", "\"", "MISSING", "=", "?", "GAP", "=", "-", ";",
    "MATRIX", "a", "01?", "b", "1-0", ";", "END", ";">>
NxSets == NxTaxaChars \o <<"BEGIN", "SETS", ";", "CHARSET", "cs", "=", "1", "-", "2", "4", ";", "END", ";">>
NxTranslate ==
  <<"#NEXUS", "BEGIN", "TREES", ";", "TRANSLATE", "1", "a", ",", "2", "b", ",", "3", "c", ";",
    "TREE", "t", "=", "[&R]", "(", "1", ",", "(", "2", ",", "3", ")", ")", ";",
    "TREE", "u", "=", "(", "(", "1", ",", "2", ")", ",", "3", ")", ";", "END", ";">>
NxTwoTaxa ==
  <<"#NEXUS", "BEGIN", "TAXA", ";", "TITLE", "x", ";", "DIMENSIONS", "NTAX", "=", "2", ";", "TAXLABELS", "a", "b", ";", "END", ";",
    "BEGIN", "TAXA", ";", "TITLE", "y", ";", "DIMENSIONS", "NTAX", "=", "2", ";", "TAXLABELS", "c", "d", ";", "END", ";",
    "BEGIN", "TREES", ";", "TITLE", "tt", ";", "LINK", "TAXA", "=", "y", ";", "TREE", "t", "=", "(", "c", ",", "d", ")", ";", "END", ";">>
NxUnknownQuoted ==
  <<"#NEXUS", "BEGIN", "FOO", ";", "BAR", "baz", ";", "END", ";",
    "BEGIN", "TREES", ";", "TREE", "'q w'", "=", "(", "'x y'", ":", "1", ",", "b", ":", "2.5", ")", "e", ":", "0", ";", "END", ";">>

NxContInterleaved ==
  <<"#NEXUS", "BEGIN", "DATA", ";", "DIMENSIONS", "NTAX", "=", "2", "NCHAR", "=", "4", ";",
    "FORMAT", "DATATYPE", "=", "CONTINUOUS", "INTERLEAVE", ";",
    "MATRIX", EOL, "a", "1.5", "2", EOL, "b", "3", "4.25", EOL, EOL, "a", "1", "2", EOL, "b", "3", "4", EOL, ";", "END", ";">>
\* Mesquite style: two titled TAXA blocks sharing a label, both before the blocks that LINK to them
NxLinkedBlocks ==
  <<"#NEXUS", "BEGIN", "TAXA", ";", "TITLE", "x", ";", "DIMENSIONS", "NTAX", "=", "2", ";", "TAXLABELS", "a", "b", ";", "END", ";",
    "BEGIN", "TAXA", ";", "TITLE", "y", ";", "DIMENSIONS", "NTAX", "=", "2", ";", "TAXLABELS", "a", "c", ";", "END", ";",
    "BEGIN", "CHARACTERS", ";", "TITLE", "tt", ";", "LINK", "TAXA", "=", "x", ";", "DIMENSIONS", "NCHAR", "=", "2", ";",
    "FORMAT", "DATATYPE", "=", "DNA", ";", "MATRIX", "a", "AC", "b", "GT", ";", "END", ";",
    "BEGIN", "CHARACTERS", ";", "LINK", "TAXA", "=", "y", ";", "DIMENSIONS", "NCHAR", "=", "2", ";",
    "FORMAT", "DATATYPE", "=", "DNA", ";", "MATRIX", "a", "AC", "c", "GT", ";", "END", ";",
    "BEGIN", "TREES", ";", "LINK", "TAXA", "=", "x", ";", "TREE", "t", "=", "(", "a", ",", "b", ")", ";", "END", ";",
    "BEGIN", "TREES", ";", "LINK", "TAXA", "=", "y", ";", "TREE", "u", "=", "(", "a", ",", "c", ")", ";", "END", ";">>
\* NTAX declared by the TAXA block and again, with the same value, by each of two CHARACTERS blocks
NxNtaxTwice ==
  <<"#NEXUS", "BEGIN", "TAXA", ";", "DIMENSIONS", "NTAX", "=", "2", ";", "TAXLABELS", "a", "b", ";", "END", ";",
    "BEGIN", "CHARACTERS", ";", "DIMENSIONS", "NTAX", "=", "2", "NCHAR", "=", "2", ";", "FORMAT", "DATATYPE", "=", "DNA", ";",
    "MATRIX", "a", "AC", "b", "GT", ";", "END", ";",
    "BEGIN", "CHARACTERS", ";", "DIMENSIONS", "NTAX", "=", "2", "NCHAR", "=", "2", ";", "FORMAT", "DATATYPE", "=", "DNA", ";",
    "MATRIX", "a", "GT", "b", "AC", ";", "END", ";">>
NxMultistate ==
  <<"#NEXUS", "BEGIN", "DATA", ";", "DIMENSIONS", "NTAX", "=", "2", "NCHAR", "=", "4", ";",
    "FORMAT", "DATATYPE", "=", "DNA", "MATCHCHAR", "=", ".", ";",
    "MATRIX", "a", "A", "{", "CG", "}", "GT", "b", ".C", "(", "AG", ")", "T", ";", "END", ";">>
NxAnnotated ==
  <<"#NEXUS", "BEGIN", "TREES", ";", "TREE", "t", "=", "[&R]", "[&lnP=-1.5]",
    "(", "a", "[&h=1]", ":", "1", ",", "b", "[&h={1,2}]", ":", "2", ")", "[&rate=0.5]", ";", "END", ";">>
NwAnnotated ==
  <<"[&lnP=-1.5]", "(", "a", "[&rate=0.5]", ":", "1", ",", "b", "[&rate=2,x=\"q\"]", ":", "2", ")", "e", "[&&NHX:S=1:D=Y]", ";">>

NwOne   == <<"(", "a", ",", "(", "b", ",", "c", ")", ")", ";">>
NwList  == <<"(", "a", ":", "1", ",", "b", ":", "2.5", ")", "e", ":", "0", ";", "(", "(", "a", ",", "b", ")", ",", "c", ")", ";">>
NwMixed == <<"[&R]", "(", "(", "a", ",", "b", ")", "e", ",", "'x y'", ")", ";", "a", ";">>

PhSeq        == <<"2", "4", EOL, "a", "ACGT", EOL, "b", "ACGT", EOL>>
PhSeqCont    == <<"2", "6", EOL, "a", "ACG", EOL, "TTT", EOL, "b", "ACG", EOL, "TTT", EOL>>
PhStrict     == <<"2", "4", EOL, "taxon0000a", "ACGT", EOL, "taxon0000b", "ACGT", EOL>>
PhInterleave == <<"2", "4", EOL, "a", "AC", EOL, "b", "AC", EOL, EOL, "GT", EOL, "GT", EOL>>

PhContSeq   == <<"2", "2", EOL, "a", "1.5", "2", EOL, "b", "3", "4.25", EOL>>
PhContInter == <<"2", "4", EOL, "a", "1.5", "2", EOL, "b", "3", "4.25", EOL, EOL, "1", "2", EOL, "3", "4", EOL>>

FaTwo == <<">a", EOL, "ACGT", EOL, ">b", EOL, "AC", EOL, "GT", EOL>>
FaGap == <<EOL, ">a", EOL, "ACGT", EOL, EOL, ">b", EOL, "TT", EOL>>

\* family -> documents; every document carries the reader options it is valid for
Doc(name, fam, toks, dtype, strict, inter) ==
    [name |-> name, fam |-> fam, toks |-> toks, dtype |-> dtype, strict |-> strict, inter |-> inter]
AllDocs == <<
    Doc("NxTaxaTrees", "nexus", NxTaxaTrees, "dna", FALSE, FALSE),
    Doc("NxTaxaChars", "nexus", NxTaxaChars, "dna", FALSE, FALSE),
    Doc("NxDataInterleaved", "nexus", NxDataInterleaved, "dna", FALSE, FALSE),
    Doc("NxContinuous", "nexus", NxContinuous, "continuous", FALSE, FALSE),
    Doc("NxStandard", "nexus", NxStandard, "standard", FALSE, FALSE),
    Doc("NxSets", "nexus", NxSets, "dna", FALSE, FALSE),
    Doc("NxTranslate", "nexus", NxTranslate, "dna", FALSE, FALSE),
    Doc("NxTwoTaxa", "nexus", NxTwoTaxa, "dna", FALSE, FALSE),
    Doc("NxUnknownQuoted", "nexus", NxUnknownQuoted, "dna", FALSE, FALSE),
    Doc("NxContInterleaved", "nexus", NxContInterleaved, "continuous", FALSE, FALSE),
    Doc("NxLinkedBlocks", "nexus", NxLinkedBlocks, "dna", FALSE, FALSE),
    Doc("NxNtaxTwice", "nexus", NxNtaxTwice, "dna", FALSE, FALSE),
    Doc("NxMultistate", "nexus", NxMultistate, "dna", FALSE, FALSE),
    Doc("NxAnnotated", "nexus", NxAnnotated, "dna", FALSE, FALSE),
    Doc("NwAnnotated", "newick", NwAnnotated, "dna", FALSE, FALSE),
    Doc("NwOne", "newick", NwOne, "dna", FALSE, FALSE),
    Doc("NwList", "newick", NwList, "dna", FALSE, FALSE),
    Doc("NwMixed", "newick", NwMixed, "dna", FALSE, FALSE),
    Doc("PhSeq", "phylip", PhSeq, "dna", FALSE, FALSE),
    Doc("PhSeqCont", "phylip", PhSeqCont, "dna", FALSE, FALSE),
    Doc("PhStrict", "phylip", PhStrict, "dna", TRUE, FALSE),
    Doc("PhInterleave", "phylip", PhInterleave, "dna", FALSE, TRUE),
    Doc("PhContSeq", "phylip", PhContSeq, "continuous", FALSE, FALSE),
    Doc("PhContInter", "phylip", PhContInter, "continuous", FALSE, TRUE),
    Doc("FaTwo", "fasta", FaTwo, "dna", FALSE, FALSE),
    Doc("FaGap", "fasta", FaGap, "dna", FALSE, FALSE) >>
DocIdx(fam) == {i \in 1..Len(AllDocs) : AllDocs[i].fam = fam}
DocsOf(fam) == {AllDocs[i].toks : i \in DocIdx(fam)}

\* ------------------------------------------------------------------ reader options
\* Rows of reader keyword arguments (row 1 = the defaults).  The tree reader rows are a pairwise
\* covering array of terminating_semicolon_required x suppress_leaf_node_taxa x
\* suppress_internal_node_taxa x suppress_edge_lengths, with the rooting directives, store_ignored_blocks,
\* preserve_underscores and case sensitivity rotated over them; the PHYLIP rows cover strict x
\* interleaved (flip of the document's layout) x multispace_delimiter x ignore_invalid_chars x data type.
TreeOpt(tsr, slt, sit, sel, rooting, sib, pu, cs) ==
    [tsr |-> tsr, slt |-> slt, sit |-> sit, sel |-> sel, rooting |-> rooting, sib |-> sib, pu |-> pu, cs |-> cs]
TreeOptionRows == <<
    TreeOpt(TRUE,  FALSE, TRUE,  FALSE, "",                 FALSE, FALSE, FALSE),
    TreeOpt(FALSE, TRUE,  TRUE,  FALSE, "force-rooted",     TRUE,  FALSE, TRUE),
    TreeOpt(FALSE, FALSE, FALSE, TRUE,  "default-rooted",   FALSE, TRUE,  FALSE),
    TreeOpt(TRUE,  TRUE,  FALSE, TRUE,  "force-unrooted",   TRUE,  TRUE,  TRUE),
    TreeOpt(FALSE, TRUE,  FALSE, FALSE, "default-unrooted", FALSE, FALSE, FALSE),
    TreeOpt(TRUE,  TRUE,  TRUE,  TRUE,  "",                 TRUE,  TRUE,  FALSE) >>
LineOpt(strict, flip, multi, ign, dt) == [strict |-> strict, flip |-> flip, multi |-> multi, ign |-> ign, dt |-> dt]
LineOptionRows == <<
    LineOpt(FALSE, FALSE, FALSE, FALSE, "dna"),
    LineOpt(TRUE,  FALSE, FALSE, TRUE,  "protein"),
    LineOpt(FALSE, TRUE,  TRUE,  FALSE, "dna"),
    LineOpt(TRUE,  TRUE,  FALSE, FALSE, "rna"),
    LineOpt(FALSE, FALSE, TRUE,  TRUE,  "continuous"),
    LineOpt(FALSE, TRUE,  FALSE, TRUE,  "standard") >>

\* ------------------------------------------------------------------ edit alphabets
\* one representative per token class ("replace by / insert any class")
ClassReps(fam) ==
    CASE fam = "nexus"  -> {"BEGIN", "END", ";", "=", ",", "(", ")", ":", "a", "3", "ACGT", "[c]", "'q w'", EOL, "\"", "-", "{", "'", "[",
                            "[&k=1]", "[&k= ]", "[&k=]", "[&=1]", "[&k]", "[&k={1,2}]", "[&&NHX:a=1:b= ]", "[&W 1/2]"}
      [] fam = "newick" -> {";", ",", "(", ")", ":", "a", "3", "[c]", "'q w'", "=", "'", "[",
                            "[&k=1]", "[&k= ]", "[&k=]", "[&=1]", "[&k]", "[&k={1,2}]", "[&&NHX:a=1:b= ]", "[&W 1/2]"}
      [] fam = "phylip" -> {EOL, "a", "3", "ACGT", "AC", "x?", "1.5"}
      [] fam = "fasta"  -> {EOL, ">a", ">c", "ACGT", "x?"}
Keywords(fam) ==
    IF fam = "nexus" THEN {"#NEXUS", "BEGIN", "END", "ENDBLOCK", "TAXA", "CHARACTERS", "DATA", "TREES", "SETS", "TITLE", "LINK",
                           "DIMENSIONS", "NTAX", "NCHAR", "FORMAT", "DATATYPE", "INTERLEAVE", "MATRIX", "TAXLABELS",
                           "TRANSLATE", "TREE", "CHARSET"}
    ELSE {}
\* smaller alphabets of the quick tier (chosen so that every token class that drives a branch is present)
ClassRepsQ(fam) ==
    CASE fam = "nexus"  -> {"END", ";", "=", ",", "(", "a", "3", "[c]"}
      [] fam = "newick" -> {";", ",", "(", ")", ":", "a", "[c]", "'"}
      [] fam = "phylip" -> {EOL, "a", "3", "AC", "x?"}
      [] fam = "fasta"  -> {EOL, ">a", "ACGT", "x?"}
KeywordsQ(fam) ==
    IF fam = "nexus" THEN {"BEGIN", "END", "LINK", "TITLE", "DIMENSIONS", "MATRIX", "TAXLABELS", "TREE", "CHARSET", "TRANSLATE"}
    ELSE {}

\* ------------------------------------------------------------------ edits
Cut(d, i, j) == SubSeq(d, 1, i - 1) \o SubSeq(d, j + 1, Len(d))          \* drop d[i..j]
Put(d, i, t) == SubSeq(d, 1, i) \o <<t>> \o SubSeq(d, i + 1, Len(d))      \* insert t after position i
Truncations(d)      == {SubSeq(d, 1, k) : k \in 0..Len(d)}
Deletions(d)        == {Cut(d, i, i) : i \in 1..Len(d)}
Insertions(d, A)    == {Put(d, i, t) : i \in 0..Len(d), t \in A}
Replacements(d, A)  == {[d EXCEPT ![i] = t] : i \in 1..Len(d), t \in A}
SpanDropsB(d, maxlen) == UNION {{Cut(d, i, j) : j \in (i + 1)..(IF i + maxlen - 1 < Len(d) THEN i + maxlen - 1 ELSE Len(d))} : i \in 1..Len(d)}
\* delete, insert / replace by a representative of any class, drop a span, insert a keyword
SingleEdits(d, A, K, maxspan) ==
    Deletions(d) \cup Insertions(d, A \cup K) \cup Replacements(d, A) \cup SpanDropsB(d, maxspan)
\* the edited documents of a family (the same sets in the models and in the input generator)
\* quick tier: documents of more than LongDoc tokens are edited with a reduced alphabet
LongDoc == 80
RepsFor(d, fam, quick) == IF ~quick THEN ClassReps(fam) ELSE IF Len(d) > LongDoc THEN {} ELSE ClassRepsQ(fam)
KwFor(d, fam, quick)   == IF ~quick THEN Keywords(fam) ELSE IF Len(d) > LongDoc THEN {"LINK"} \cap KeywordsQ(fam) ELSE KeywordsQ(fam)
EditedDoc(d, fam, quick, maxspan) ==
    Truncations(d) \cup SingleEdits(d, RepsFor(d, fam, quick), KwFor(d, fam, quick), maxspan)
StringAlphabet == {"(", ")", ",", ":", ";", "a", "b", "1", "[c]"}
Strings(maxlen) == UNION {[1..n -> StringAlphabet] : n \in 0..maxlen}
Repeat(t, k) == [i \in 1..k |-> t]
Pump(d, i, t, k) == SubSeq(d, 1, i) \o Repeat(t, k) \o SubSeq(d, i + 1, Len(d))
\* the tokens whose repetition is what a reader recurses or loops on (large counts in the quick tier)
BigPumpToks(fam) == IF fam \in {"nexus", "newick"} THEN {"[c]", "("} ELSE {EOL, "AC"}
PumpToks(fam) == CASE fam = "nexus" -> {"[c]", "(", ",", "'q w'", EOL}
                   [] fam = "newick" -> {"[c]", "(", ",", "'q w'", EOL}
                   [] fam = "phylip" -> {EOL, "AC"}
                   [] fam = "fasta"  -> {EOL, "AC"}

\* ------------------------------------------------------------------ the token source
\* What Tokenizer.next_token() hands to a reader: comments are dropped, line breaks
\* are dropped unless captured (interleaved matrices), a lone "[" opens a comment
\* that is never closed (the rest of the stream is comment), and after the last
\* token the source returns EOF forever.
RECURSIVE SigFrom(_, _, _)
SigFrom(inp, p, cap) == IF p > Len(inp) \/ inp[p] = "[" THEN Len(inp) + 1
                        ELSE IF Skippable(inp[p], cap) THEN SigFrom(inp, p + 1, cap) ELSE p
TokAt(inp, q) == IF q > Len(inp) THEN EOF ELSE inp[q]
RECURSIVE PosN(_, _, _, _)
PosN(inp, p, cap, k) == LET q == SigFrom(inp, p, cap)
                        IN IF k <= 1 THEN q ELSE PosN(inp, (IF q > Len(inp) THEN q ELSE q + 1), cap, k - 1)
TokN(inp, p, cap, k)   == TokAt(inp, PosN(inp, p, cap, k))                   \* k-th token from raw position p
AfterN(inp, p, cap, k) == LET q == PosN(inp, p, cap, k) IN IF q > Len(inp) THEN q ELSE q + 1
\* consecutive comments in front of the next token: Tokenizer.__next__ as shipped
\* calls itself once per comment-only token
RECURSIVE CommentRun(_, _)
CommentRun(inp, p) == IF p > Len(inp) THEN 0
                      ELSE IF IsComment(inp[p]) THEN 1 + CommentRun(inp, p + 1)
                      ELSE IF inp[p] = EOL THEN CommentRun(inp, p + 1) ELSE 0

\* ------------------------------------------------------------------ declared dimensions of a token sequence
\* (used by the judge: what the *document* declares, independent of any reader)
Sig(toks) == SelectSeq(toks, LAMBDA t : ~IsComment(t) /\ t # EOL)
DeclIdx(s, kw) == {i \in 1..(Len(s) - 2) : s[i] = kw /\ s[i + 1] = "=" /\ IsNum(s[i + 2])}
\* The dimensions a NEXUS document declares for its matrix: the value of `kw = <number>` in the
\* block that holds the MATRIX statement (an NTAX given only by a TAXA block counts taxa, not the
\* rows of a matrix: the library's own test data has matrices with fewer rows than their TAXA
\* block has taxa).  -1 unless there is exactly one MATRIX statement and exactly one declaration.
MaxOf(S) == CHOOSE k \in S : \A j \in S : k >= j
\* positions of the MATRIX statements, in document order
RECURSIVE SortedSeq(_)
SortedSeq(S) == IF S = {} THEN <<>> ELSE LET m == CHOOSE k \in S : \A j \in S : k <= j IN <<m>> \o SortedSeq(S \ {m})
MatrixPositions(toks) == LET s == Sig(toks) IN SortedSeq({i \in 1..Len(s) : s[i] = "MATRIX"})
\* the value kw declares for the MATRIX statement at position m of Sig(toks): -1 unless declared exactly once in its block
DeclaredAt(toks, m, kw) ==
    LET s == Sig(toks)
        B == {i \in 1..m : s[i] = "BEGIN"}
        b == IF B = {} THEN 0 ELSE MaxOf(B)
        I == {i \in DeclIdx(s, kw) : i > b /\ i < m}
    IN IF Cardinality(I) = 1 THEN NumVal(s[(CHOOSE i \in I : TRUE) + 2]) ELSE -1
\* declarations for the k-th returned matrix when n matrices were returned: the document's MATRIX
\* statements in order if there are exactly n of them; a single returned matrix of a document with
\* several statements (CharacterMatrix.get) is the first one; otherwise nothing is declared
DeclaredFor(toks, k, n, kw) ==
    LET P == MatrixPositions(toks)
    IN IF Len(P) = n \/ (n = 1 /\ k = 1 /\ Len(P) >= 1) THEN DeclaredAt(toks, P[k], kw) ELSE -1
Declared(toks, kw) == DeclaredFor(toks, 1, 1, kw)
PhylipDeclared(toks) == IF Len(toks) >= 3 /\ IsNum(toks[1]) /\ IsNum(toks[2]) /\ toks[3] = EOL
                        THEN <<NumVal(toks[1]), NumVal(toks[2])>> ELSE <<-1, -1>>
=============================================================================
