SPECIFICATION Spec
CONSTANTS
  NArr = 3
  Sample <- SampleThorough
  Shipped = FALSE
  MergeOps = {"update", "extend", "iadd", "add"}
  Configs <- ConfigsAll
  Positions = TRUE
INVARIANT PerTreeListsAligned
INVARIANT SummaryOfBagOnly
INVARIANT NoMergeFailure
INVARIANT PerTreeQueriesEnabled
INVARIANT RootingKept
INVARIANT NothingLost
INVARIANT SettingsKept
PROPERTY OperandsUnchanged
CHECK_DEADLOCK FALSE
