SPECIFICATION CatSpec
CONSTANTS
  NArr = 3
  Sample <- SampleQuick
  Shipped = FALSE
  MergeOps = {"update"}
  Configs <- ConfigsUniform
  Positions = TRUE
CHECK_DEADLOCK FALSE
