---------------------------- MODULE MC_TreeSim ----------------------------
(* Bounded model of the simulators as decision processes: every decision   *)
(* sequence for N <= MaxN tips (at most MaxDec decisions for the birth-     *)
(* death processes, which need not terminate: extinction/restart paths      *)
(* included), Kingman trees over <= MaxN taxa, contained coalescents in     *)
(* the species trees SpTrees with <= MaxG genes per species.                *)
(* Two runs a, b are driven by the SAME decisions of the supplied generator *)
(* and by independent values of the global generator (self-composition):    *)
(* Determinism says the outputs agree, NoGlobalRng that the global          *)
(* generator is never consulted.  `hist` is the decision sequence; the      *)
(* harness replays hist of every finished state on the real simulators.     *)
EXTENDS TreeSim
CONSTANTS Sims, MaxN, MaxDt, MaxDec, MaxG, MaxSp, RootDt, StopGT, AsShipped, Leak,
          HistMaxGenes,      \* argument histories are explored for contained coalescents with at most so many genes
          StaleArgs          \* (wrong) the mapping argument memoises the assignment seen by the first call
VARIABLES cs, a, b, hist
vars == <<cs, a, b, hist>>

Sp1 == GraphOf(1, 1, << <<>> >>, <<0>>, <<0>>, <<1>>)
Sp2(h) == GraphOf(3, 1, << <<2, 3>>, <<>>, <<>> >>, <<0, 1, 1>>, <<0, h, h>>, <<0, 1, 2>>)
Sp3 == GraphOf(5, 1, << <<2, 5>>, <<3, 4>>, <<>>, <<>>, <<>> >>, <<0, 1, 2, 2, 1>>, <<0, 1, 1, 1, 2>>, <<0, 0, 1, 2, 3>>)
SpTrees == {Sp1, Sp2(1), Sp2(2)} \cup (IF MaxSp >= 3 THEN {Sp3} ELSE {})
NumSp(t) == Cardinality(Leaves(t))
\* cs = the arguments of the call under study: G the genes per species the mapping was built with, gm the gene ->
\* species assignment it holds NOW, ops what was done with the same argument objects before (an earlier
\* simulator call, a re-assignment in place), memo what a cache inside the mapping would still hold
\* (gm) / a cache of node ages on the species tree would still imply as edge lengths (lmemo)
Case(m, n, st, sp, G) == [sim |-> m, N |-> n, start |-> st, sp |-> sp, G |-> G, gm |-> GMapOf(G), memo |-> <<>>, lmemo |-> <<>>,
                          ops |-> <<>>]
Cases == {Case(m, n, "single", NoG, <<>>) : m \in Sims \cap {"bd", "fast", "upb", "king"}, n \in 1..MaxN}
         \cup {Case(m, n, "cherry", NoG, <<>>) : m \in Sims \cap {"bd", "fast"}, n \in 2..MaxN}
         \cup (IF "cc" \in Sims THEN UNION {{Case("cc", 0, "single", t, G) : G \in [1..NumSp(t) -> 1..MaxG]} : t \in SpTrees} ELSE {})
\* species trees of the history cases: in Sp3h the clade (A,B) is old enough for a join of an A gene with a B gene
\* to be more recent than the divergence of C, so that a stale assignment is visible in the divergence clause
Sp3h == GraphOf(5, 1, << <<2, 5>>, <<3, 4>>, <<>>, <<>>, <<>> >>, <<0, 1, 2, 2, 1>>, <<0, 2, 1, 1, 3>>, <<0, 0, 1, 2, 3>>)
HistTrees == {Sp2(1)} \cup (IF MaxSp >= 3 THEN {Sp3h} ELSE {})
HistCases == IF "cc" \in Sims
             THEN {c \in UNION {{Case("cc", 0, "single", t, G) : G \in [1..NumSp(t) -> 1..MaxG]} : t \in HistTrees} :
                     Len(c.gm) <= HistMaxGenes}
             ELSE {}
ArgsPhase(c) == [Blank(c) EXCEPT !.ph = "args"]

Init == /\ hist = <<>>
        /\ \/ cs \in Cases /\ a = InitOf(cs) /\ b = InitOf(cs)
           \/ cs \in HistCases /\ a = ArgsPhase(cs) /\ b = ArgsPhase(cs)

\* ---- histories on the argument objects before the call under study
Op(o, p) == [op |-> o, p |-> p]
Perms(n) == {p \in [1..n -> 1..n] : \A i, j \in 1..n : i # j => p[i] # p[j]}
SpPerms == UNION {Perms(n) \ {Ident(n)} : n \in 2..MaxSp}
\* an earlier simulator call with the same argument objects
EarlierCall == /\ a.ph = "args" /\ cs.ops = <<>>
               /\ cs' = [cs EXCEPT !.ops = <<Op("call", <<>>)>>, !.memo = IF StaleArgs THEN cs.gm ELSE <<>>]
               /\ UNCHANGED <<a, b, hist>>
\* the mapping is re-applied in place: every gene of species t now belongs to species p[t]
Reassign(p) == /\ a.ph = "args" /\ cs.ops = <<Op("call", <<>>)>> /\ Len(p) = NumSp(cs.sp)
               /\ cs' = [cs EXCEPT !.gm = [i \in 1..Len(cs.gm) |-> p[cs.gm[i]]], !.ops = Append(@, Op("remap", p))]
               /\ UNCHANGED <<a, b, hist>>
\* the species tree argument is annotated (node ages, root distances, bipartitions are computed and cached on it) ...
Annotate == /\ a.ph = "args" /\ cs.ops = <<>>
            /\ cs' = [cs EXCEPT !.ops = <<Op("annotate", <<>>)>>, !.lmemo = IF StaleArgs THEN cs.sp.len ELSE <<>>]
            /\ UNCHANGED <<a, b, hist>>
\* ... and then its edge lengths are changed in place (scale_edges(f) / direct edits)
Rescale(f) == /\ a.ph = "args" /\ cs.ops = <<Op("annotate", <<>>)>>
              /\ cs' = [cs EXCEPT !.sp.len = [x \in 1..cs.sp.n |-> f * cs.sp.len[x]], !.ops = Append(@, Op("rescale", <<f>>))]
              /\ UNCHANGED <<a, b, hist>>
\* the call under study: run a on the argument objects with their history, run b on freshly built equal arguments
Begin == /\ a.ph = "args" /\ cs.ops # <<>>
         /\ a' = InitOf(IF StaleArgs /\ cs.memo # <<>> THEN [cs EXCEPT !.gm = cs.memo]
                        ELSE IF StaleArgs /\ cs.lmemo # <<>> THEN [cs EXCEPT !.sp.len = cs.lmemo] ELSE cs)
         /\ b' = InitOf(cs)
         /\ UNCHANGED <<cs, hist>>

GVals == IF Leak THEN {0, 1} ELSE {0}
\* under Leak the lineage of a birth/death is picked with a draw from the global generator
StepOf(s, d, gv) ==
    IF ~Accepts(s, d) THEN s
    ELSE IF Leak /\ d.k \in {"B", "D"} /\ s.sim \in {"bd", "fast"}
         THEN [Apply(s, [d EXCEPT !.x = ((d.x - 1 + gv) % Len(s.act)) + 1]) EXCEPT !.gd = s.gd + 1]
         ELSE Apply(s, d)
Bounded == a.sim \in {"upb", "king", "cc"} \/ Len(hist) < MaxDec
Decide(d) == /\ Bounded /\ AutoKind(a, StopGT) = "none" /\ Accepts(a, d)
             /\ \E ga, gb \in GVals : a' = StepOf(a, d, ga) /\ b' = StepOf(b, d, gb)
             /\ hist' = Append(hist, d) /\ UNCHANGED cs
Automatic(k) == /\ AutoKind(a, StopGT) = k
                /\ a' = AutoStep(a, StopGT, AsShipped) /\ b' = AutoStep(b, StopGT, AsShipped)
                /\ UNCHANGED <<cs, hist>>

Wait(dt) == a.ph # "args" /\ (a.sim = "cc" /\ AtRootEdge(a) => dt <= RootDt) /\ Decide(Dc("W", dt, 0, <<>>))
Birth(l) == Decide(Dc("B", l, 0, <<>>))
Death(l) == Decide(Dc("D", l, 0, <<>>))
Coalesce(i, j) == Decide(Dc("C", i, j, <<>>))
AssignTaxa(p) == Decide(Dc("T", 0, 0, p))
Stop == Automatic("Stop")
PruneExtinct == Automatic("PruneExtinct")
RestartAfterExtinction == Automatic("RestartAfterExtinction")
LeaveEdge == Automatic("LeaveEdge")
Finish == Automatic("Finish")

LMax == IF "cc" \in Sims /\ MaxSp * MaxG > MaxN + 1 THEN MaxSp * MaxG ELSE MaxN + 1
AllPerms == UNION {Perms(n) : n \in 1..(MaxN + 1)}
Pairs == {ij \in (1..LMax) \X (1..LMax) : ij[1] < ij[2]}
Next == \/ \E dt \in 1..MaxDt : Wait(dt)
        \/ \E l \in 1..LMax : Birth(l)
        \/ \E l \in 1..LMax : Death(l)
        \/ \E ij \in Pairs : Coalesce(ij[1], ij[2])
        \/ \E p \in AllPerms : AssignTaxa(p)
        \/ Stop \/ PruneExtinct \/ RestartAfterExtinction \/ LeaveEdge \/ Finish
        \/ EarlierCall \/ (\E p \in SpPerms : Reassign(p)) \/ Annotate \/ (\E f \in {2} : Rescale(f)) \/ Begin
Spec == Init /\ [][Next]_vars

\* ------------------------------------------------------------------ properties
Fails == IF a.ph = "done" THEN SeqToSet(FinalFails(a, cs.gm, cs.sp)) ELSE {}     \* judged against the CURRENT arguments
WellFormedFinal == "C18.WellFormed" \notin Fails
ExactlyNExtantLeaves == "C18.ExactlyNExtantLeaves" \notin Fails
DistinctTaxa == "C18.DistinctTaxa" \notin Fails
Bifurcating == "C18.Bifurcating" \notin Fails
ExtantTipsEquidistant == "C18.ExtantTipsEquidistant" \notin Fails
KingmanOk == Fails \cap {"C18.KingmanOneLeafPerTaxon", "C18.KingmanBifurcating", "C18.KingmanUltrametric"} = {}
CoalescenceRespectsDivergence == Fails \cap {"C18.GeneLeavesMapped", "C18.CoalescenceRespectsDivergence"} = {}
\* the output is a function of (CURRENT state of the arguments, decisions of the supplied generator): run b
\* starts from freshly built equal arguments
Determinism == a.ph = b.ph /\ a.out = b.out
NoGlobalRng == a.gd = 0 /\ b.gd = 0
\* the fold used by the trace judge is the same function as the stepwise model
FoldAgrees == (~StopGT /\ ~AsShipped /\ ~Leak /\ ~StaleArgs /\ a.ph # "args") => Auto(a, FALSE, FALSE) = RunSim(cs, hist)
\* extinct lineages never survive pruning; restarts really start afresh
PrunedHasNoDead == (a.ph \in {"pruned", "done"} /\ a.sim \in {"bd", "fast"}) => Cardinality(Leaves(a.out)) = Len(a.act)
=============================================================================
