SPECIFICATION Spec
CONSTANTS
  AsShipped = {}
  MaxN = 7
  MaxLeaves = 4
  StartUnif = FALSE
  MaxDepth = 1
  Fam = {"ReseedAt", "RerootAtNode", "RerootAtEdge", "RerootAtMidpoint", "ToOutgroupPosition", "Ladderize", "Reorder"}
  Rootings = {0, 1}
  LenPats = {"rootmixed", "none", "unit", "zero", "mixed", "rootlen"}
  ShapeMode = "ordered"
  OptsFirst <- OptsAll
  OptsLater <- OptsOA
  EdgePairs <- EdgePairsFull
  Thresholds = {0, 16}
  MaxK = 12
VIEW view
INVARIANT C03_WellFormed
PROPERTY C07_LeafSet
PROPERTY C07_Splits
PROPERTY C07_TotalLength
PROPERTY C07_Paths
PROPERTY C07_Post
PROPERTY C07_RootingFlag
PROPERTY C07_ReorderKeepsTree
CHECK_DEADLOCK FALSE
