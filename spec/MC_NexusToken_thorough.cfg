SPECIFICATION Spec
CONSTANT MaxLen = 3
CONSTANT UseShipped = FALSE
INVARIANT TreeLabelOneToken
INVARIANT TaxLabelOneToken
CHECK_DEADLOCK FALSE
