SPECIFICATION Spec
CONSTANTS
  NArr = 3
  Sample <- SampleQuick
  Shipped = FALSE
  MergeOps = {"update", "extend", "iadd", "add"}
  Configs <- ConfigsSome
  Positions = TRUE
CHECK_DEADLOCK FALSE
