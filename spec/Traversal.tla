------------------------------ MODULE Traversal ------------------------------
(* C15 - every traversal visits each node or edge exactly once in its       *)
(* defining order.  Definitions of the expected output of every iterator,   *)
(* computed on the graph form (which the harness projects without using any *)
(* iterator).  A filter is abstracted to P = the set of nodes for which the *)
(* filter function returns a truthy value.                                  *)
EXTENDS TreeBase

Filt(q, P) == SelectSeq(q, LAMBDA x : x \in P)
InternalOnly(g, q, exclSeed) == SelectSeq(q, LAMBDA y : ~IsLeaf(g, y) /\ (~exclSeed \/ g.par[y] # 0))

NodeKinds == {"preorder", "postorder", "levelorder", "inorder", "leaf", "preorder_internal",
              "postorder_internal", "ancestor", "child"}

\* opt: exclude_seed_node / exclude_seed_edge for the internal variants, inclusive for ancestor
ExpectedSeq(g, kind, x, P, opt) ==
    CASE kind = "preorder"           -> Filt(Pre(g, x), P)
      [] kind = "postorder"          -> Filt(Post(g, x), P)
      [] kind = "levelorder"         -> Filt(Level(g, x), P)
      [] kind = "inorder"            -> Filt(InOrder(g, x), P)
      [] kind = "leaf"               -> Filt(LeafSeq(g, x), P)
      [] kind = "preorder_internal"  -> Filt(InternalOnly(g, Pre(g, x), opt), P)
      [] kind = "postorder_internal" -> Filt(InternalOnly(g, Post(g, x), opt), P)
      [] kind = "levelorder_internal" -> Filt(InternalOnly(g, Level(g, x), opt), P)
      [] kind = "ancestor"           -> Filt((IF opt THEN <<x>> ELSE <<>>) \o AncSeq(g, x), P)
      [] kind = "child"              -> Filt(g.kids[x], P)

\* the callback walk: before(n) ... after(n) around the children, leaf(n) on leaves
RECURSIVE ApplySeq(_, _)
ApplySeq(g, x) == IF IsLeaf(g, x) THEN <<[k |-> "leaf", n |-> x]>>
                  ELSE <<[k |-> "before", n |-> x]>>
                       \o Flatten([i \in 1..Len(g.kids[x]) |-> ApplySeq(g, g.kids[x][i])])
                       \o <<[k |-> "after", n |-> x]>>

\* age order: any permutation of the candidates with monotone age (ties free)
AgeOrderOk(g, x, out, ages, inclLeaves, desc, P) ==
    LET cand == {y \in Desc(g, x) : (inclLeaves \/ ~IsLeaf(g, y)) /\ y \in P} IN
    /\ IsPermOf(out, cand)
    /\ \A i \in 1..(Len(out) - 1) : IF desc THEN ages[out[i]] >= ages[out[i + 1]] ELSE ages[out[i]] <= ages[out[i + 1]]

\* ------------------------------------------------------------ meta-properties (model)
PosIn(q, y) == CHOOSE i \in 1..Len(q) : q[i] = y
WellBracketed(q) ==
    LET RECURSIVE Chk(_, _)
        Chk(i, stack) == IF i > Len(q) THEN stack = <<>>
                         ELSE IF q[i].k = "before" THEN Chk(i + 1, <<q[i].n>> \o stack)
                         ELSE IF q[i].k = "after" THEN stack # <<>> /\ Head(stack) = q[i].n /\ Chk(i + 1, Tail(stack))
                         ELSE Chk(i + 1, stack)
    IN Chk(1, <<>>)
OrdersSound(g) ==
    \A x \in Nodes(g) :
       LET pre == Pre(g, x)  post == Post(g, x)  lvl == Level(g, x)  D == Desc(g, x) IN
       /\ IsPermOf(pre, D) /\ IsPermOf(post, D) /\ IsPermOf(lvl, D)
       /\ pre[1] = x /\ post[Len(post)] = x /\ lvl[1] = x
       /\ \A y \in D \ {x} : /\ PosIn(pre, g.par[y]) < PosIn(pre, y)
                             /\ PosIn(post, g.par[y]) > PosIn(post, y)
                             /\ PosIn(lvl, g.par[y]) < PosIn(lvl, y)
       /\ \A i \in 1..(Len(lvl) - 1) : DepthOf(g, lvl[i]) <= DepthOf(g, lvl[i + 1])
       \* siblings left to right in all three
       /\ \A p \in D : \A i, j \in 1..Len(g.kids[p]) : i < j =>
              /\ PosIn(pre, g.kids[p][i]) < PosIn(pre, g.kids[p][j])
              /\ PosIn(post, g.kids[p][i]) < PosIn(post, g.kids[p][j])
              /\ PosIn(lvl, g.kids[p][i]) < PosIn(lvl, g.kids[p][j])
       /\ LeafSeq(g, x) = SelectSeq(pre, LAMBDA y : IsLeaf(g, y))
       /\ LeafSeq(g, x) = SelectSeq(post, LAMBDA y : IsLeaf(g, y))
       /\ (IsBinaryBelow(g, x) => IsPermOf(InOrder(g, x), D))
       /\ WellBracketed(ApplySeq(g, x))
       /\ SelectSeq(ApplySeq(g, x), LAMBDA r : r.k = "before") = [i \in 1..Len(InternalOnly(g, pre, FALSE)) |-> [k |-> "before", n |-> InternalOnly(g, pre, FALSE)[i]]]
       /\ [i \in 1..Len(SelectSeq(ApplySeq(g, x), LAMBDA r : r.k = "after")) |-> SelectSeq(ApplySeq(g, x), LAMBDA r : r.k = "after")[i].n] = InternalOnly(g, post, FALSE)
=============================================================================
