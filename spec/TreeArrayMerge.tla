--------------------------- MODULE TreeArrayMerge ---------------------------
(***************************************************************************)
(* C06, sequential part: a TreeArray as four parallel per-tree lists plus  *)
(* a split distribution, and the operations that grow it: add_tree /       *)
(* append / insert, update, extend / +=, +.  Pure operators only: the      *)
(* bounded model (MC_TreeArrayMerge), the concurrent model (SumTreesPar)   *)
(* and the trace judges (Trace_TreeArrayMerge, Trace_SumTreesPar) share    *)
(* them.                                                                   *)
(*                                                                         *)
(* Tree descriptor d (computed by TLC from the graph form of TreeBase):    *)
(*   splits   set of splits (sets of taxon codes; unrooted: normalised)    *)
(*   len      [splits -> Int]   edge length * LScale, None counts as 0     *)
(*   age      [splits -> Int]   age of the head node (distance to its tips)*)
(*   leafset  set of taxon codes                                           *)
(*   w        tree weight * WScale (WUnit for an unweighted tree)          *)
(*   rooted   -1 | 0 | 1  (is_rooted None / False / True)                  *)
(* Array a:                                                                *)
(*   trees    Seq(id)  ghost: which sample tree sits at which index        *)
(*   rooting  -1 | 0 | 1   _is_rooted_trees (None = undefined)             *)
(*   set      [iel, ina, utw]  ignore_edge_lengths, ignore_node_ages,      *)
(*                             use_tree_weights                            *)
(*   splits, lens, leafsets, weights   the four per-tree lists             *)
(*   dist     [n, sumW, counts (bag of splits, multiplicity = weight),     *)
(*             lens, ages ([split -> bag of values]), roots]               *)
(***************************************************************************)
EXTENDS TreeBase, Bags

WUnit == 2                                   \* weights are scaled by 2 (1/2, 1, 2 -> 1, 2, 4)
WOf(w) == IF w < 0 THEN WUnit ELSE w        \* tree.weight None counts as 1.0

\* ------------------------------------------------------------ descriptors
NodeOfSplit(g, s) == CHOOSE x \in Nodes(g) : SplitOf(g, x) = s
DistinctSplits(g) == \A x, y \in Nodes(g) : x # y => SplitOf(g, x) # SplitOf(g, y)
\* age of a node: distance to a tip below it plus the age of that tip (tip[c]: age * LScale of taxon code c; dated tips
\* come from SumTrees --tip-ages / taxon_label_age_map, otherwise all 0); the same for every tip of an ultrametric tree
NoTipAges == [c \in 1..64 |-> 0]
AgeOf(g, x, tip) == Max({RootDist(g, y) + (IF g.tx[y] > 0 THEN tip[g.tx[y]] ELSE 0) : y \in Leaves(g) \cap Desc(g, x)}) - RootDist(g, x)
\* TLCEval: TLC would otherwise re-evaluate the (lazy) function bodies at every use
Descr(g, w, tip) == LET sp == TLCEval([x \in Nodes(g) |-> SplitOf(g, x)])
                   S == {sp[x] : x \in Nodes(g)}
                   nd == [s \in S |-> CHOOSE x \in Nodes(g) : sp[x] = s]
               IN TLCEval([splits |-> S,
                           len |-> [s \in S |-> L0(g, nd[s])],
                           age |-> [s \in S |-> AgeOf(g, nd[s], tip)],
                           leafset |-> TreeTx(g), w |-> WOf(w), rooted |-> g.rooted])

\* ------------------------------------------------------------ split distribution
NoBags == [s \in {} |-> EmptyBag]
EmptyDist == [n |-> 0, sumW |-> 0, counts |-> EmptyBag, lens |-> NoBags, ages |-> NoBags, roots |-> {}]
PW(f, h) == [s \in (DOMAIN f) \cup (DOMAIN h) |->
               (IF s \in DOMAIN f THEN f[s] ELSE EmptyBag) (+) (IF s \in DOMAIN h THEN h[s] ELSE EmptyBag)]
DistPlus(A, B) == [n |-> A.n + B.n, sumW |-> A.sumW + B.sumW, counts |-> A.counts (+) B.counts,
                   lens |-> PW(A.lens, B.lens), ages |-> PW(A.ages, B.ages), roots |-> A.roots \cup B.roots]
TW(d, set) == IF set.utw THEN d.w ELSE WUnit
TreeDist(d, set) ==
    [n |-> 1, sumW |-> TW(d, set), counts |-> [s \in d.splits |-> TW(d, set)],
     lens |-> IF set.iel THEN NoBags ELSE [s \in d.splits |-> SetToBag({d.len[s]})],
     ages |-> IF set.ina THEN NoBags ELSE [s \in d.splits |-> SetToBag({d.age[s]})],
     roots |-> {d.rooted = 1}]
\* the summary of a sample is *defined* on its bag of trees: fold in ascending id order
RECURSIVE SortIds(_)
SortIds(q) == IF q = <<>> THEN <<>>
              ELSE LET m == Min(SeqToSet(q))
                       i == CHOOSE i \in 1..Len(q) : q[i] = m
                   IN <<m>> \o SortIds(SubSeq(q, 1, i - 1) \o SubSeq(q, i + 1, Len(q)))
RECURSIVE DistOfSeq(_, _, _)
DistOfSeq(q, D, set) == IF q = <<>> THEN EmptyDist ELSE DistPlus(TreeDist(D[Head(q)], set), DistOfSeq(Tail(q), D, set))
SummaryOfBag(q, D, set) == DistOfSeq(SortIds(q), D, set)

\* order statistics of a bag of integers (what the per-split length / age summaries are computed from)
BagN(b) == SumFn(DOMAIN b, b)
BagSum(b) == SumFn(DOMAIN b, [v \in DOMAIN b |-> v * b[v]])
RECURSIVE SortedOfBag(_)
SortedOfBag(b) == IF DOMAIN b = {} THEN <<>>
                  ELSE LET m == Min(DOMAIN b) IN [i \in 1..b[m] |-> m] \o SortedOfBag([v \in (DOMAIN b) \ {m} |-> b[v]])
MedianTwice(b) == LET sq == SortedOfBag(b)  n == Len(sq)                       \* twice the median: an integer
                  IN IF n % 2 = 1 THEN 2 * sq[(n + 1) \div 2] ELSE sq[n \div 2] + sq[n \div 2 + 1]

\* ------------------------------------------------------------ arrays
\* dset: the settings of the embedded split distribution, which decide what is collected from a tree that is added
NewArray(rooting, set) == [trees |-> <<>>, rooting |-> rooting, set |-> set, dset |-> set, splits |-> <<>>, lens |-> <<>>,
                           leafsets |-> <<>>, weights |-> <<>>, dist |-> EmptyDist]
IsEmpty(a) == Len(a.splits) = 0                       \* len(self) is the length of the split list
InsertAt(q, i, x) == SubSeq(q, 1, i) \o <<x>> \o SubSeq(q, i + 1, Len(q))       \* before 0-based index i
Ok(a) == [st |-> a, raised |-> ""]
Fail(a, why) == [st |-> a, raised |-> why]

\* validate_rooting: an undefined rooting takes the tree's, a defined one must be equal
AddRaises(rooting, d) == IF rooting # -1 /\ rooting # d.rooted THEN "MixedRootingError" ELSE ""
OpAddTree(a, t, i, D) ==
    LET d == D[t] IN
    IF AddRaises(a.rooting, d) # "" THEN Fail(a, AddRaises(a.rooting, d))
    ELSE Ok([a EXCEPT !.trees = InsertAt(@, i, t), !.rooting = d.rooted,
                      !.splits = InsertAt(@, i, d.splits),
                      !.lens = InsertAt(@, i, IF a.set.iel THEN [s \in d.splits |-> -1] ELSE d.len),
                      !.leafsets = InsertAt(@, i, d.leafset),
                      !.weights = InsertAt(@, i, TW(d, a.set)),
                      !.dist = DistPlus(@, TreeDist(d, a.dset))])

\* read_from_files / read: the sources one after the other, the first `offset` trees of EACH source skipped (burn-in)
Kept(src, offset) == SubSeq(src, offset + 1, Len(src))
RECURSIVE AppendAll(_, _, _)
AppendAll(a, ids, D) == IF ids = <<>> THEN Ok(a)
                        ELSE LET r == OpAddTree(a, Head(ids), Len(a.trees), D) IN
                             IF r.raised # "" THEN r ELSE AppendAll(r.st, Tail(ids), D)
OpReadFiles(a, srcs, offset, D) == AppendAll(a, Flatten([h \in 1..Len(srcs) |-> Kept(srcs[h], offset)]), D)

\* Compatibility of a merge  a <- b.  "intended": an EMPTY array is compatible with everything;
\* the shipped rules are kept as switches (DESIGN 7, F05/F06).
RootCompat(a, b, rule) ==
    CASE rule = "intended"       -> IsEmpty(a) \/ IsEmpty(b) \/ a.rooting = b.rooting
      [] rule = "update_shipped" -> IsEmpty(a) \/ a.rooting = b.rooting
      [] rule = "extend_shipped" -> a.rooting = b.rooting
SetCompat(a, b, rule) ==
    CASE rule = "intended"       -> IsEmpty(a) \/ IsEmpty(b) \/ a.set = b.set
      [] rule = "update_shipped" -> IsEmpty(a) \/ a.set = b.set
      [] rule = "extend_shipped" -> a.set = b.set
Compatible(a, b, rule) == RootCompat(a, b, rule) /\ SetCompat(a, b, rule)
MergedRooting(a, b) == IF ~IsEmpty(a) THEN a.rooting ELSE IF b.rooting # -1 THEN b.rooting ELSE a.rooting
Concat(a, b, withLeafsets) ==
    [a EXCEPT !.trees = @ \o b.trees, !.rooting = MergedRooting(a, b),
              !.set = IF IsEmpty(a) /\ ~IsEmpty(b) THEN b.set ELSE @,
              !.dset = IF IsEmpty(a) /\ ~IsEmpty(b) THEN b.dset ELSE @,
              !.splits = @ \o b.splits, !.lens = @ \o b.lens,
              !.leafsets = IF withLeafsets THEN @ \o b.leafsets ELSE @,
              !.weights = @ \o b.weights, !.dist = DistPlus(@, b.dist)]
OpUpdate(a, b, shipped) ==
    IF Compatible(a, b, IF shipped THEN "update_shipped" ELSE "intended") THEN Ok(Concat(a, b, TRUE))
    ELSE Fail(a, "IncompatibleTreeArrayUpdate")
\* extend / +=: the shipped version asserts identical flags and forgets the leafset list
OpExtend(a, b, shipped) ==
    IF Compatible(a, b, IF shipped THEN "extend_shipped" ELSE "intended") THEN Ok(Concat(a, b, ~shipped))
    ELSE Fail(a, "AssertionError")
\* a + b: a new array with a's configuration, += a, += b
OpAdd(a, b, shipped) ==
    LET r1 == OpExtend(NewArray(a.rooting, a.set), a, shipped) IN
    IF r1.raised # "" THEN Fail(a, r1.raised) ELSE
    LET r2 == OpExtend(r1.st, b, shipped) IN IF r2.raised # "" THEN Fail(a, r2.raised) ELSE r2
OpMerge(op, a, b, shipped) ==
    CASE op = "update" -> OpUpdate(a, b, shipped)
      [] op = "extend" -> OpExtend(a, b, shipped)
      [] op = "iadd"   -> OpExtend(a, b, shipped)
      [] op = "add"    -> OpAdd(a, b, shipped)

\* ------------------------------------------------------------ the property, on one array
\* the four per-tree lists are equally long and entry i describes tree a.trees[i]
Aligned(a, D) ==
    LET n == Len(a.trees) IN
    /\ Len(a.splits) = n /\ Len(a.lens) = n /\ Len(a.leafsets) = n /\ Len(a.weights) = n
    /\ \A i \in 1..n : LET d == D[a.trees[i]] IN
          /\ a.splits[i] = d.splits /\ a.leafsets[i] = d.leafset /\ a.weights[i] = TW(d, a.set)
          /\ a.lens[i] = (IF a.set.iel THEN [s \in d.splits |-> -1] ELSE d.len)
\* the summary is a function of the bag of trees, whatever the history
SummaryDependsOnBagOnly(a, D) == a.dist = SummaryOfBag(a.trees, D, a.set)
\* what calculate_log_product_of_split_supports / restore_tree / split_bitmask_set_frequencies assert
QueriesEnabled(a) == Len(a.leafsets) = Len(a.splits) /\ Len(a.lens) = Len(a.splits) /\ Len(a.weights) = Len(a.splits)
\* every array of a sample has the settings of the sample, and so has its embedded distribution - also the result of a merge
SettingsAre(a, set) == a.set = set /\ a.dset = set
RootingConsistent(a, D) == \A i \in 1..Len(a.trees) : D[a.trees[i]].rooted = a.rooting

\* ------------------------------------------------------------ derived summaries (judge side)
\* a majority-rule consensus holds every split found in more than half of the (weighted) sample and none found in
\* less than half; which of the splits found in exactly half it holds is left open here (C05)
MajoritySplits(d) == {s \in DOMAIN d.counts : 2 * d.counts[s] > d.sumW}
HalfSplits(d) == {s \in DOMAIN d.counts : 2 * d.counts[s] >= d.sumW}
CountOf(d, s) == IF s \in DOMAIN d.counts THEN d.counts[s] ELSE 0
\* splits that enter the credibility score: internal, with at least two taxa on both sides
ScoreSplits(td) == {s \in td.splits : Cardinality(s) >= 2 /\ Cardinality(td.leafset \ s) >= 2}
\* the score is only taken where "internal" is unambiguous (no clade whose complement is a single taxon)
ScoreDefined(td) == \A s \in td.splits : (Cardinality(s) >= 2 /\ s # td.leafset) => Cardinality(td.leafset \ s) >= 2
RECURSIVE ProdOver(_, _)
ProdOver(S, f) == IF S = {} THEN 1 ELSE LET x == CHOOSE x \in S : TRUE IN f[x] * ProdOver(S \ {x}, f)
Cap == 1073741824                                  \* TLC integers are 32 bit: powers saturate here
RECURSIVE Pow(_, _)
Pow(b, k) == IF k = 0 THEN 1 ELSE LET q == Pow(b, k - 1) IN IF q > Cap \div b THEN Cap ELSE b * q
RECURSIVE GCD(_, _)
GCD(a, b) == IF b = 0 THEN a ELSE GCD(b, a % b)
Reduce(p) == LET g == GCD(p[1], p[2]) IN IF g = 0 THEN p ELSE <<p[1] \div g, p[2] \div g>>
\* credibility of tree td under distribution d: product over its score splits of count/sumW (zero supports
\* are skipped, as documented).  CredFrac: in lowest terms; CredNum: numerator over the common denominator sumW^M
CredSplits(td, d) == {s \in ScoreSplits(td) : CountOf(d, s) > 0}
CredFrac(td, d) == LET S == CredSplits(td, d)
                   IN Reduce(<<ProdOver(S, [s \in S |-> CountOf(d, s)]), Pow(d.sumW, Cardinality(S))>>)
CredNum(td, d, M) == LET S == CredSplits(td, d)
                     IN ProdOver(S, [s \in S |-> CountOf(d, s)]) * Pow(d.sumW, M - Cardinality(S))
=============================================================================
