------------------------- MODULE Trace_TreeRoundTrip -------------------------
(***************************************************************************)
(* C02 trace validation.  Every real write/read round trip is logged as    *)
(* one event                                                               *)
(*   [action |-> "RoundTrip", schema, o (option pair), raised,             *)
(*    src |-> [ns, trees], out |-> [ns, trees]]                            *)
(* where ns is the namespace as a sequence of labels, a label is the       *)
(* sequence of its character codes, and a tree is the raw-pointer graph    *)
(* form of TreeBase (proj.tree_graph) with lab[x] a label, len[x] the hex  *)
(* rendering of the float value ("" = None) and tx[x] the 1-based position *)
(* of the node's taxon in ns (0 = none, > Len(ns) = foreign taxon).        *)
(* TLC compares source and re-read projections clause by clause; verdicts  *)
(* are total.  The class of a failing clause is computed here from the     *)
(* module's own operators: which as-shipped rule of NewickRoundTrip /      *)
(* NexusToken explains a failure on exactly these labels.                  *)
(*                                                                         *)
(* "Token" events bind the token-layer model to the code: the real         *)
(* escape_nexus_token / _render_node_tag output and the real NexusTokenizer*)
(* tokens are compared with TkEscape / TkTokenize on the class abstraction *)
(* (reported as drift.*, never a property clause).                         *)
(***************************************************************************)
EXTENDS NewickRoundTrip, Json, IOUtils
Tr == ndJsonDeserialize(IOEnv.TRACE_FILE)
VARIABLES l, bad
V(c, k) == <<[clause |-> c, class |-> k]>>
None == <<>>
ZeroHex == "0x0.0p+0"

\* ------------------------------------------------------------ character code -> class of NexusToken
ClassOf(c) ==
    CASE c = 9 -> "tab" [] c = 10 -> "nl" [] c = 32 -> "sp" [] c = 95 -> "us" [] c = 39 -> "sq" [] c = 34 -> "dq"
      [] c = 40 -> "lp" [] c = 41 -> "rp" [] c = 91 -> "lb" [] c = 93 -> "rb" [] c = 123 -> "lc" [] c = 125 -> "rc"
      [] c = 44 -> "cm" [] c = 59 -> "sc" [] c = 58 -> "co" [] c = 61 -> "eq" [] c = 92 -> "bs" [] c = 47 -> "sl"
      [] c = 42 -> "st" [] c = 43 -> "mi" [] c = 45 -> "mi" [] c = 46 -> "dot" [] c = 96 -> "bt" [] c = 60 -> "lt"
      [] c = 62 -> "gt" [] c = 38 -> "amp"
      [] c \in 48..57 -> "1"
      [] c \in 65..90 -> "a" [] c \in 97..122 -> "a"
      [] c > 126 -> "na"
      [] OTHER -> "ot"
Cls(lab) == [i \in 1..Len(lab) |-> ClassOf(lab[i])]

\* ------------------------------------------------------------ projections compared
TxLab(ns, code) == IF code = 0 THEN <<>> ELSE IF code \in 1..Len(ns) THEN ns[code] ELSE <<-1>>
RECURSIVE ShapeOf(_, _)
ShapeOf(g, x) == [i \in 1..Len(g.kids[x]) |-> ShapeOf(g, g.kids[x][i])]
PreOf(g) == Pre(g, g.seed)
TaxSeq(ns, g) == LET p == PreOf(g) IN [i \in 1..Len(p) |-> TxLab(ns, g.tx[p[i]])]
IntLabSeq(g) == LET p == PreOf(g) IN [i \in 1..Len(p) |-> IF IsLeaf(g, p[i]) THEN <<>> ELSE g.lab[p[i]]]
LenSeq(g) == LET p == PreOf(g) IN [i \in 1..Len(p) |-> g.len[p[i]]]
UsedLabels(side) == UNION {{TxLab(side.ns, g.tx[x]) : x \in {y \in 1..g.n : g.tx[y] # 0}} : g \in SeqToSet(side.trees)}
NodeLabels(side, internalOnly) ==
    UNION {{g.lab[x] : x \in {y \in 1..g.n : g.lab[y] # <<>> /\ (internalOnly => ~IsLeaf(g, y))}} : g \in SeqToSet(side.trees)}

\* ------------------------------------------------------------ which known as-shipped rule explains a failure (class)
TreeStmtLabels(e) == NodeLabels(e.src, TRUE) \cup (IF e.o.translate THEN {} ELSE UsedLabels(e.src))
TextLabels(e) == NodeLabels(e.src, TRUE) \cup (IF e.schema = "newick" THEN UsedLabels(e.src) ELSE SeqToSet(e.src.ns))
EqBs(e) == \E lab \in TreeStmtLabels(e) :
              /\ ~TkLabelRT(Cls(lab), e.o.uu, e.o.ps, e.o.pu, TkShippedTreeProtect)
              /\ TkLabelRT(Cls(lab), e.o.uu, e.o.ps, e.o.pu, TkIntendedProtect)
Punct(e) == \E lab \in TextLabels(e) : Cls(lab) \in {<<c>> : c \in TkStructural}
AttrBad(labs) == \E lab \in labs : ~NxAttrRT(Cls(lab), NwShipped) /\ NxAttrRT(Cls(lab), NwReference)
MissingInnerLen(e) == \E g \in SeqToSet(e.src.trees) : \E x \in 1..g.n : x # g.seed /\ g.len[x] = ""
TextClass(e) == IF e.schema = "nexml" THEN "-" ELSE IF Punct(e) THEN "quoted_punctuation_label" ELSE "-"
RereadClass(e) ==
    IF e.schema = "newick" /\ e.src.trees = <<>> THEN "newick_empty_list"
    ELSE IF e.schema # "nexml" /\ EqBs(e) THEN "eq_bs_unquoted"
    ELSE IF e.schema # "nexml" /\ Punct(e) THEN "quoted_punctuation_label"
    ELSE IF e.schema = "nexml" /\ AttrBad(SeqToSet(e.src.ns) \cup NodeLabels(e.src, FALSE)) THEN "nexml_attr_escape"
    ELSE "-:" \o e.raised

\* ------------------------------------------------------------ the clauses of C02
FoldCodes(lab) == [i \in 1..Len(lab) |-> IF lab[i] \in 65..90 THEN lab[i] + 32 ELSE lab[i]]
SideConditions(e) ==
    /\ \A lab \in SeqToSet(e.src.ns) : TkSideOk(Cls(lab))                         \* non-empty, no whitespace at the ends
    /\ \A i, j \in 1..Len(e.src.ns) : i # j => FoldCodes(e.src.ns[i]) # FoldCodes(e.src.ns[j])   \* distinct up to (ASCII) case
    /\ \A lab \in NodeLabels(e.src, FALSE) : TkSideOk(Cls(lab))
    /\ TkConsistent(e.o.uu, e.o.ps, e.o.pu)
\* positions at which two equally long sequences differ
DiffPos(a, b) == {i \in 1..Len(a) : a[i] # b[i]}
\* NeXML: a mismatch is explained by the as-shipped attribute escaping iff every differing label is one that rule breaks
AttrClass(srcSeqs, outSeqs) ==
    IF Len(srcSeqs) = Len(outSeqs) /\ (\A k \in 1..Len(srcSeqs) : Len(srcSeqs[k]) = Len(outSeqs[k]))
          /\ (\A m \in 1..Len(srcSeqs) : \A i \in DiffPos(srcSeqs[m], outSeqs[m]) : AttrBad({srcSeqs[m][i]}))
      THEN "nexml_attr_escape" ELSE "-"
JudgeRoundTrip(e) ==
    LET S == e.src  O == e.out  nx == (e.schema = "nexml")
        n == Len(S.trees)
        sameCount == Len(O.trees) = n
        wf == \A k \in 1..Len(O.trees) : WFClause(O.trees[k]) = "ok"
        topo == sameCount /\ wf /\ \A k \in 1..n : ShapeOf(S.trees[k], S.trees[k].seed) = ShapeOf(O.trees[k], O.trees[k].seed)
        lenBad(k) == LET a == LenSeq(S.trees[k])  b == LenSeq(O.trees[k]) IN
                     {i \in 1..Len(a) : ~(a[i] = b[i] \/ (nx /\ i = 1 /\ a[i] = "" /\ b[i] = ZeroHex))}
        \* explained by "every missing NeXML length is read as 0" iff that is all that differs
        lenClass == IF nx /\ \A k \in 1..n : \A i \in lenBad(k) : LenSeq(S.trees[k])[i] = "" /\ LenSeq(O.trees[k])[i] = ZeroHex
                      THEN "nexml_missing_length" ELSE IF nx THEN "-" ELSE TextClass(e)
        rootOk(k) == LET a == S.trees[k].rooted  b == O.trees[k].rooted IN a = b \/ (nx /\ a = -1 /\ b = 0)
        nsOk == IF e.schema = "newick"
                  THEN SeqToSet(O.ns) = UsedLabels(S) /\ Len(O.ns) = Cardinality(SeqToSet(O.ns))
                  ELSE O.ns = S.ns
        taxS == [k \in 1..n |-> TaxSeq(S.ns, S.trees[k])]   taxO == [k \in 1..n |-> TaxSeq(O.ns, O.trees[k])]
        labS == [k \in 1..n |-> IntLabSeq(S.trees[k])]      labO == [k \in 1..n |-> IntLabSeq(O.trees[k])]
    IN IF e.raised # "" THEN V("C02.Reread", RereadClass(e))
       ELSE (IF topo THEN None
             ELSE V("C02.TopologyAndOrder", IF ~sameCount THEN "tree_count:" \o TextClass(e) ELSE IF ~wf THEN "ill_formed" ELSE TextClass(e)))
         \o (IF ~topo \/ taxS = taxO THEN None
             ELSE V("C02.TaxonOnEveryNode", IF nx THEN AttrClass(taxS, taxO) ELSE TextClass(e)))
         \o (IF ~topo \/ labS = labO THEN None
             ELSE V("C02.InternalLabels", IF nx THEN AttrClass(labS, labO) ELSE TextClass(e)))
         \o (IF ~topo \/ \A k \in 1..n : lenBad(k) = {} THEN None ELSE V("C02.EdgeLengths", lenClass))
         \* NeXML: a node label that ends the start tag early (as-shipped escaping of '"') swallows the root attribute
         \o (IF ~sameCount \/ \A k \in 1..n : rootOk(k) THEN None
             ELSE V("C02.RootingState", IF nx THEN (IF AttrBad(NodeLabels(S, FALSE)) THEN "nexml_attr_escape" ELSE "-") ELSE TextClass(e)))
         \o (IF nsOk THEN None
             ELSE V("C02.NamespaceLabels", IF nx THEN AttrClass(<<S.ns>>, <<O.ns>>) ELSE TextClass(e)))

\* ------------------------------------------------------------ token layer: model vs code (drift only)
ItemsOf(r) == [i \in 1..Len(TkTokens(r)) |-> [s |-> TkTokens(r)[i].s, q |-> TkTokens(r)[i].q]]
JudgeToken(e) ==
    LET lab == Cls(e.label)
        realTok == [i \in 1..Len(e.tokens) |-> [s |-> Cls(e.tokens[i].s), q |-> e.tokens[i].q]]
        model == TkTokenize(Cls(e.text), e.pu)
    IN (IF Cls(e.esc_tree) = TkEscape(lab, e.ps, ~e.uu, TkShippedTreeProtect) THEN None ELSE V("drift.EscapeTreeVsShippedRule", "-"))
    \o (IF Cls(e.esc_tree) = TkEscape(lab, e.ps, ~e.uu, TkIntendedProtect) THEN None ELSE V("drift.EscapeTreeVsIntendedRule", "-"))
    \o (IF Cls(e.esc_default) = TkEscape(lab, e.ps, ~e.uu, TkDefaultProtect) THEN None ELSE V("drift.EscapeDefault", "-"))
    \o (IF (e.tokraised = "" /\ model.err = "" /\ realTok = ItemsOf(model)) \/ (e.tokraised # "" /\ model.err # "") THEN None
        ELSE V("drift.Tokenize", "-"))

Judge(e) ==
    CASE e.action = "RoundTrip" ->
            (IF ~SideConditions(e) THEN V("C02.DriverOutsideSideConditions", "machinery") ELSE JudgeRoundTrip(e))
      [] e.action = "Token" -> JudgeToken(e)

Init == l = 1 /\ bad = <<>>
Next == /\ l <= Len(Tr)
        /\ LET v == Judge(Tr[l]) IN
             bad' = bad \o [k \in 1..Len(v) |-> [i |-> l, clause |-> v[k].clause, class |-> v[k].class]]
        /\ l' = l + 1
Spec == Init /\ [][Next]_<<l, bad>>
Done == l = Len(Tr) + 1 => JsonSerialize(IOEnv.OUT_FILE, [n |-> Len(Tr), bad |-> bad])
Accepted == TLCGet("stats").diameter - 1 = Len(Tr)
=============================================================================
