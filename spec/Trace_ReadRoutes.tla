--------------------------- MODULE Trace_ReadRoutes ---------------------------
(* C13 trace validation.  One event = one source text (rendered from the      *)
(* abstract document e.doc by the harness) read through every route under one *)
(* option set.  The harness logs only projections:                            *)
(*   pool    the distinct projections of the delivered trees (interned)       *)
(*   ref     DataSet.get: one sequence of pool indices per tree collection    *)
(*   calls   [route, c, t, src, lab, raised, items, lens, pre, n]             *)
(*   arrays  TreeArray.read: [t, src, raised, rooted, trees: [splits, w]]     *)
(*   mpool / mref / mcalls   the same for character matrices ([cls, m, src, ..])*)
(*   pairs   two consecutive reads into one fresh namespace [a, b, raised, ia, ib]*)
(* TLC applies the selection operators of ReadRoutes to the collections the   *)
(* data-set route delivered and judges every other route against them, field  *)
(* by field (total verdicts).                                                 *)
EXTENDS ReadRoutes, Json, IOUtils
Tr == ndJsonDeserialize(IOEnv.TRACE_FILE)
VARIABLES l, bad
V(c, k) == <<[clause |-> c, class |-> k]>>
None == <<>>
RECURSIVE S2Q(_)
S2Q(S) == IF S = {} THEN <<>> ELSE LET x == CHOOSE y \in S : TRUE IN <<x>> \o S2Q(S \ {x})
Dedup(q) == S2Q(SeqToSet(q))
RatEq(a, b) == a[1] * b[2] = b[1] * a[2] /\ (a[2] = 0) = (b[2] = 0)

\* ------------------------------------------------------------------ two delivered trees, field by field
TreeAspect(a, b) ==
    IF a.g.n # b.g.n \/ a.g.kids # b.g.kids \/ a.g.seed # b.g.seed \/ a.g.par # b.g.par THEN "topology"
    ELSE IF a.g.lab # b.g.lab \/ a.txl # b.txl \/ a.elab # b.elab THEN "labels"
    ELSE IF a.g.len # b.g.len THEN "lengths"
    ELSE IF a.g.rooted # b.g.rooted THEN "rooting"
    ELSE "ok"
NameOf(v) == IF v.hasname THEN v.name ELSE "\\None"
\* cls = schema/route; nolabel = the call passed no label keyword
CompareViews(a, b, shared, cls, fam, route, nolabel) ==
    (IF TreeAspect(a, b) # "ok" THEN V("C13.SameTrees", cls \o ":" \o TreeAspect(a, b)) ELSE None)
    \o (IF ~RatEq(a.w, b.w) THEN V("C13.SameWeights", cls) ELSE None)
    \o (IF a.com # b.com \/ a.ncom # b.ncom THEN V("C13.SameComments", cls) ELSE None)
    \o (IF a.ann # b.ann \/ a.nann # b.nann THEN V("C13.SameAnnotations", cls) ELSE None)
    \o (IF shared /\ a.g.tx # b.g.tx
          THEN V("C13.SameTaxaWhenShared",
                 IF a.txl = b.txl /\ a.g.n = b.g.n /\ \A i \in 1..b.g.n : (a.g.tx[i] = 0) = (b.g.tx[i] = 0)
                 THEN fam \o ":same-labels-other-taxon-objects" ELSE cls \o ":other")
          ELSE None)
    \o (IF NameOf(a) # NameOf(b)
          THEN V("C13.TreeNames", IF nolabel /\ a.hasname /\ ~b.hasname THEN route \o ":source-name-replaced-by-None" ELSE cls \o ":other")
          ELSE None)

\* expected and observed sequences of pool indices
CompareSeqs(e, shared, exp, obs, cls, fam, route, nolabel) ==
    IF Len(exp) # Len(obs) THEN V("C13.SameTrees", cls \o ":count")
    ELSE Flatten([k \in 1..Len(exp) |->
            IF exp[k] = obs[k] THEN None ELSE CompareViews(e.pool[exp[k]], e.pool[obs[k]], shared, cls, fam, route, nolabel)])
       \o \* without a shared namespace: the taxon objects of the two results correspond one to one
          (IF shared \/ \E k \in 1..Len(exp) : e.pool[exp[k]].g.n # e.pool[obs[k]].g.n THEN None
           ELSE LET pairs == UNION {{<<e.pool[exp[k]].g.tx[i], e.pool[obs[k]].g.tx[i]>> : i \in 1..e.pool[exp[k]].g.n} : k \in 1..Len(exp)}
                IN IF \A p, q \in pairs : (p[1] = q[1]) = (p[2] = q[2]) THEN None
                   ELSE V("C13.SameTaxaWhenShared",
                          IF \A k \in 1..Len(exp) : e.pool[exp[k]].txl = e.pool[obs[k]].txl
                          THEN fam \o ":same-labels-other-taxon-objects" ELSE cls \o ":taxon-identity-pattern"))

\* TreeList.get / Tree.get / TreeList.read / CharacterMatrix.get hand the reader a namespace *factory*;
\* DataSet.get(taxon_namespace=), the yielders and TreeArray *attach* the namespace
Family(e, route) == IF route \in ListRoutes \cup {"CharMatrixGet"} THEN e.fmt \o "/namespace-factory-routes" ELSE e.fmt \o "/" \o route

\* ------------------------------------------------------------------ one call against the data-set route
JudgeCall(e, k) ==
    LET call == e.calls[k]
        colls == e.ref.colls
        cls == e.fmt \o "/" \o call.route
        fam == Family(e, call.route)
        nolabel == call.lab = ""
        same(exp) == CompareSeqs(e, e.shared, exp, call.items, cls, fam, call.route, nolabel)
        expectErr(kind) == IF call.raised = kind THEN None ELSE V("C13.SameTrees", cls \o ":expected-" \o kind \o ":got-" \o (IF call.raised = "" THEN "result" ELSE call.raised))
        noErr == V("C13.SameTrees", cls \o ":raised-" \o call.raised)
        \* string = stream = path: against the data= call of the same route and offsets (which taxon objects
        \* a call attaches is judged by the route judgement, not here)
        dispatch ==
            IF call.src = "data" THEN None
            ELSE LET D == {j \in 1..Len(e.calls) : e.calls[j].src = "data" /\ e.calls[j].route = call.route /\ e.calls[j].c = call.c /\ e.calls[j].t = call.t}
                 IN IF D = {} THEN V("C13.SourceDispatch", cls \o ":no-data-call")
                    ELSE LET d == e.calls[CHOOSE j \in D : TRUE]
                             r == IF d.raised # call.raised THEN V("C13.SameTrees", cls \o ":outcome")
                                  ELSE CompareSeqs(e, FALSE, d.items, call.items, cls, fam, call.route, nolabel)
                         IN IF r = None /\ d.lens = call.lens /\ d.n = call.n THEN None ELSE V("C13.SourceDispatch", cls \o ":" \o call.src)
    IN
    dispatch \o
    (    CASE call.route = "TreeListGet" ->
                LET x == SelTreeListGet(colls, call.c, call.t) IN
                IF TreeOffsetUnderflow(colls, call.c, call.t) THEN (IF call.raised = "IndexError" THEN None ELSE IF call.raised # "" THEN noErr ELSE same(x.items))
                ELSE IF x.err # "" THEN expectErr(x.err)
                ELSE IF call.raised # "" THEN noErr ELSE same(x.items)
           [] call.route = "TreeGet" ->
                LET x == SelTreeGet(colls, call.c, call.t) IN
                IF x.err = "NoTrees" THEN (IF call.raised # "" \/ call.items = <<>> THEN None ELSE V("C13.SameTrees", cls \o ":tree-from-empty-source"))
                ELSE IF x.err # "" THEN expectErr(x.err)
                ELSE IF call.raised # "" THEN noErr ELSE same(x.items)
           [] call.route = "TreeListRead" ->
                LET x == SelTreeListGet(colls, call.c, call.t) IN
                IF TreeOffsetUnderflow(colls, call.c, call.t) /\ call.raised = "IndexError" THEN None
                ELSE IF ~TreeOffsetUnderflow(colls, call.c, call.t) /\ x.err # "" THEN expectErr(x.err)
                ELSE IF call.raised # "" THEN noErr
                ELSE same(call.pre \o x.items)
                     \o (IF call.n = Len(x.items) THEN None ELSE V("C13.SameTrees", cls \o ":returned-count"))
           [] call.route = "YieldFromFiles" ->
                IF call.raised # "" THEN noErr ELSE same(SelYield(colls).items)
           [] call.route = "YieldFromTwoFiles" ->      \* files=[f, f]: lazy concatenation over the files
                IF call.raised # "" THEN noErr ELSE same(SelYield(colls).items \o SelYield(colls).items)
           [] call.route \in {"DataSetRead", "DataSetGet"} ->
                IF call.raised # "" THEN noErr
                ELSE same(Flatten(colls)) \o (IF call.lens = [j \in 1..Len(colls) |-> Len(colls[j])] THEN None ELSE V("C13.SameTrees", cls \o ":collections"))
           [] OTHER -> V("C13.SameTrees", cls \o ":unknown-route"))

\* ------------------------------------------------------------------ two consecutive reads into one namespace
\* e.pairs[k] = [a, b, raised, ia, ib]: the same text read by route a and then by route b into one fresh
\* namespace (all trees each time): same trees, attached to the same taxon objects
JudgePair(e, k) ==
    LET p == e.pairs[k]  cls == e.fmt \o "/" \o p.a \o "-then-" \o p.b IN
    IF p.raised # "" THEN V("C13.SameTrees", cls \o ":raised-" \o p.raised)
    ELSE CompareSeqs(e, TRUE, p.ia, p.ib, cls, e.fmt \o "/two-reads", p.b, FALSE)

\* ------------------------------------------------------------------ tree arrays: structures only
JudgeArray(e, k) ==
    LET a == e.arrays[k]
        cls == e.fmt \o "/TreeArrayRead"
        rootedOf(i) == e.pool[i].g.rooted
        all == Flatten(e.ref.colls)
        q == From(all, Min({Given(a.t, 0), Len(all)}))
        states == RootingStates(q, rootedOf)
        wOf(v) == IF v.w[2] = 0 THEN <<1, 1>> ELSE v.w
    IN
    IF a.src # "data" THEN
        LET D == {j \in 1..Len(e.arrays) : e.arrays[j].src = "data" /\ e.arrays[j].t = a.t} IN
        IF D # {} /\ (LET d == e.arrays[CHOOSE j \in D : TRUE] IN d.raised = a.raised /\ d.trees = a.trees /\ d.rooted = a.rooted)
        THEN None ELSE V("C13.SourceDispatch", cls \o ":" \o a.src)
    ELSE IF {0, 1} \subseteq states THEN
        \* documented refusal of mixed rooting
        (IF a.raised = "MixedRootingError" THEN None ELSE V("C13.SameTrees", cls \o ":mixed-rooting-accepted"))
    ELSE IF Cardinality(states) > 1 THEN None      \* undefined rooting mixed with a defined one: left free
    ELSE IF a.raised # "" THEN V("C13.SameTrees", cls \o ":raised-" \o a.raised)
    ELSE IF Len(a.trees) # Len(q) THEN V("C13.SameTrees", cls \o ":count")
    ELSE Flatten([i \in 1..Len(q) |->
            LET v == e.pool[q[i]]  t == a.trees[i] IN
            (IF WFClause(v.g) # "ok" THEN V("C13.SameTrees", cls \o ":ill-formed-reference")
             ELSE IF {SeqToSet(t.splits[j]) : j \in 1..Len(t.splits)} = SplitSet(v.g) THEN None
             ELSE V("C13.SameTrees", cls \o ":structure"))
            \o (IF RatEq(t.w, wOf(v)) THEN None ELSE V("C13.SameWeights", cls))])
         \o (IF q = <<>> \/ a.rooted = rootedOf(q[1]) THEN None ELSE V("C13.SameTrees", cls \o ":rooting"))

\* ------------------------------------------------------------------ matrices
SameCells(a, b) == Len(a.rows) = Len(b.rows) /\ \A i \in 1..Len(a.rows) : a.rows[i].seq = b.rows[i].seq /\ a.rows[i].txl = b.rows[i].txl
JudgeMatrix(e, k) ==
    LET mc == e.mcalls[k]
        cls == e.fmt \o "/CharMatrixGet"
        typeOf(i) == e.mpool[i].type
        x == SelMatrix(e.mref, typeOf, mc.cls, mc.m)
        \* string = stream = path (which taxon objects are attached is judged against the data set, not here)
        dispatch ==
            IF mc.src = "data" THEN None
            ELSE LET D == {j \in 1..Len(e.mcalls) : e.mcalls[j].src = "data" /\ e.mcalls[j].m = mc.m /\ e.mcalls[j].cls = mc.cls} IN
                 IF D # {} /\ (LET d == e.mcalls[CHOOSE j \in D : TRUE] IN
                                 d.raised = mc.raised /\ (d.item = mc.item \/ (d.item > 0 /\ mc.item > 0 /\
                                     LET a == e.mpool[d.item]  b == e.mpool[mc.item] IN SameCells(a, b) /\ NameOf(a) = NameOf(b) /\ a.type = b.type /\ a.sets = b.sets)))
                 THEN None ELSE V("C13.SourceDispatch", cls \o ":" \o mc.src)
    IN
    dispatch \o
    (IF x.err = "NoMatrix" THEN (IF mc.raised # "" THEN None ELSE V("C13.MatrixAloneEqualsMatrixInDataSet", cls \o ":matrix-from-nowhere"))
     ELSE IF x.err # "" THEN (IF mc.raised = x.err THEN None
                              ELSE V("C13.MatrixAloneEqualsMatrixInDataSet", cls \o ":expected-" \o x.err \o ":got-" \o (IF mc.raised = "" THEN "result" ELSE mc.raised)))
     ELSE IF mc.raised # "" THEN V("C13.MatrixAloneEqualsMatrixInDataSet", cls \o ":raised-" \o mc.raised)
     ELSE LET a == e.mpool[x.items[1]]  b == e.mpool[mc.item] IN
          IF x.items[1] = mc.item THEN None
          ELSE IF Len(a.rows) # Len(b.rows) THEN V("C13.MatrixAloneEqualsMatrixInDataSet", cls \o ":rows")
          ELSE IF ~SameCells(a, b) THEN V("C13.MatrixAloneEqualsMatrixInDataSet", cls \o ":cells")
          ELSE IF a.sets # b.sets THEN V("C13.MatrixAloneEqualsMatrixInDataSet", cls \o ":character-sets")
          ELSE IF NameOf(a) # NameOf(b) \/ a.type # b.type THEN V("C13.MatrixAloneEqualsMatrixInDataSet", cls \o ":label")
          ELSE IF e.shared /\ \E i \in 1..Len(a.rows) : a.rows[i].tx # b.rows[i].tx
               THEN V("C13.SameTaxaWhenShared", Family(e, "CharMatrixGet") \o ":same-labels-other-taxon-objects")
          ELSE None)

\* ------------------------------------------------------------------ the data-set route against the source's names
JudgeRef(e) ==
    LET cls == e.fmt \o "/DataSetGet"
        want == DocNames(e.doc, e.fmt)
        colls == e.ref.colls
    IN
    IF e.ref.raised # "" THEN V("C13.SameTrees", cls \o ":raised-" \o e.ref.raised \o (IF e.ref.alt = "" THEN ":while-TreeListGet-delivers" ELSE ":TreeListGet-raised-" \o e.ref.alt))
    ELSE IF [k \in 1..Len(colls) |-> Len(colls[k])] # [k \in 1..Len(want) |-> Len(want[k])] THEN V("C13.SameTrees", cls \o ":collections-vs-source")
    ELSE IF \A k \in 1..Len(colls) : \A i \in 1..Len(colls[k]) :
               NameOf(e.pool[colls[k][i]]) = (IF e.fmt = "newick" THEN "\\None" ELSE want[k][i])
         THEN None ELSE V("C13.TreeNames", cls \o ":vs-source")

\* (sets instead of Flatten over the calls: no deep recursion on events with hundreds of calls)
Judge(e) ==
    IF e.ref.raised # "" THEN JudgeRef(e)
    ELSE S2Q(SeqToSet(JudgeRef(e))
             \cup UNION {SeqToSet(JudgeCall(e, k)) : k \in 1..Len(e.calls)}
             \cup UNION {SeqToSet(JudgeArray(e, k)) : k \in 1..Len(e.arrays)}
             \cup UNION {SeqToSet(JudgeMatrix(e, k)) : k \in 1..Len(e.mcalls)}
             \cup UNION {SeqToSet(JudgePair(e, k)) : k \in 1..Len(e.pairs)})

Init == l = 1 /\ bad = <<>>
Next == /\ l <= Len(Tr)
        /\ LET v == Judge(Tr[l]) IN
             bad' = bad \o [k \in 1..Len(v) |-> [i |-> l, clause |-> v[k].clause, class |-> v[k].class]]
        /\ l' = l + 1
Spec == Init /\ [][Next]_<<l, bad>>
Done == l = Len(Tr) + 1 => JsonSerialize(IOEnv.OUT_FILE, [n |-> Len(Tr), bad |-> bad])
Accepted == TLCGet("stats").diameter - 1 = Len(Tr)
=============================================================================
