SPECIFICATION SpecDef
CONSTANTS
  MaxN = 7
  MaxL = 4
  LenPats = {3}
  Shipped = FALSE
INVARIANT Sound
INVARIANT VariantsAgree
CHECK_DEADLOCK FALSE
