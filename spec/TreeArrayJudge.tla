-------------------------- MODULE TreeArrayJudge --------------------------
(* C06: judging operators shared by Trace_TreeArrayMerge and Trace_SumTreesPar: *)
(* conversion of the logged projections of real TreeArrays (harness/vlib/      *)
(* x_c06.py, proj_array / queries) to values, and the clauses of the property  *)
(* evaluated on them with the operators of TreeArrayMerge.  No variables.      *)
EXTENDS TreeArrayMerge
V(c, k) == <<[clause |-> c, class |-> k]>>
None == <<>>

\* ---------------------------------------------------------------- logged projections -> values
SetOfCodes(q) == SeqToSet(q)
SplitsOf(qq) == {SeqToSet(qq[j]) : j \in 1..Len(qq)}                 \* one tree's tuple of split bitmasks
LenMapOf(qq, ll) == [s \in SplitsOf(qq) |-> ll[CHOOSE j \in 1..Len(qq) : SeqToSet(qq[j]) = s]]
PairsToBag(pp) == [s \in {SeqToSet(pp[j][1]) : j \in 1..Len(pp)} |->
                      (pp[CHOOSE j \in 1..Len(pp) : SeqToSet(pp[j][1]) = s])[2]]
PairsToBags(pp) == [s \in {SeqToSet(pp[j][1]) : j \in 1..Len(pp)} |->
                      BagOfSeq((pp[CHOOSE j \in 1..Len(pp) : SeqToSet(pp[j][1]) = s])[2])]
DistinctKeys(pp) == Cardinality({SeqToSet(pp[j][1]) : j \in 1..Len(pp)}) = Len(pp)
PEmpty(P) == P.n[1] = 0
Shape(P) == (IF PEmpty(P) THEN "empty" ELSE "nonempty") \o (IF P.rooting = -1 THEN "-undef" ELSE "-def")
\* the intended compatibility rule evaluated on the projected real operands
PCompat(P, Q) == (PEmpty(P) \/ PEmpty(Q) \/ P.rooting = Q.rooting) /\ (PEmpty(P) \/ PEmpty(Q) \/ P.set = Q.set)
ListNames == <<"split-list", "edge-length-list", "leafset-list", "weight-list">>

\* ---------------------------------------------------------------- judging a post-state
\* Q: projected array after the call, P: before, grow: number of entries each of the four lists must have gained,
\* T: ghost ids the array must now hold (in order), D: descriptors, set: settings, r: rooting of the sample
ExpectedEntry(c, td, set) ==
    CASE c = 1 -> td.splits
      [] c = 2 -> (IF set.iel THEN [s \in td.splits |-> -1] ELSE td.len)
      [] c = 3 -> td.leafset
      [] c = 4 -> TW(td, set)
LoggedEntry(c, Q, i) ==
    CASE c = 1 -> SplitsOf(Q.splits[i])
      [] c = 2 -> LenMapOf(Q.splits[i], Q.lens[i])
      [] c = 3 -> SeqToSet(Q.leafsets[i])
      [] c = 4 -> Q.weights[i]
JudgeList(c, P, Q, grow, T, D, set) ==
    IF Q.n[c] # Len(T)
      THEN (IF Q.n[c] - P.n[c] # grow[c] THEN V("C06.PerTreeListsAligned", ListNames[c] \o "-not-grown-by-the-merged-trees") ELSE None)
    ELSE IF c = 2 /\ (Q.n[1] # Len(T) \/ \E i \in 1..Len(T) : Len(Q.lens[i]) # Len(Q.splits[i]) \/ Cardinality(SplitsOf(Q.splits[i])) # Len(Q.splits[i]))
      THEN (IF Q.n[1] # Len(T) THEN None ELSE V("C06.PerTreeListsAligned", "edge-length-list-entry-not-parallel-to-its-splits"))
    ELSE IF \E i \in 1..Len(T) : LoggedEntry(c, Q, i) # ExpectedEntry(c, D[T[i]], set)
      THEN V("C06.PerTreeListsAligned", ListNames[c] \o "-entry-does-not-describe-its-tree") ELSE None
JudgeDist(Q, T, D, set) ==
    LET x == TLCEval(SummaryOfBag(T, D, set))  d == Q.dist IN
    (IF d.n # x.n THEN V("C06.SummaryDependsOnBagOnly", "total_trees_counted") ELSE None)
    \o (IF d.sumW # x.sumW THEN V("C06.SummaryDependsOnBagOnly", "sum_of_tree_weights") ELSE None)
    \o (IF ~DistinctKeys(d.counts) \/ PairsToBag(d.counts) # x.counts THEN V("C06.SummaryDependsOnBagOnly", "split_counts") ELSE None)
    \o (IF ~DistinctKeys(d.lens) \/ PairsToBags(d.lens) # x.lens THEN V("C06.SummaryDependsOnBagOnly", "split_edge_lengths") ELSE None)
    \o (IF ~DistinctKeys(d.ages) \/ PairsToBags(d.ages) # x.ages THEN V("C06.SummaryDependsOnBagOnly", "split_node_ages") ELSE None)
    \o (IF SeqToSet(d.roots) # x.roots THEN V("C06.SummaryDependsOnBagOnly", "tree_rooting_types_counted") ELSE None)
JudgePost(P, Q, grow, T, D, set, r) ==
    Flatten([c \in 1..4 |-> JudgeList(c, P, Q, grow, T, D, set)])
    \o JudgeDist(Q, T, D, set)
    \o (IF Len(T) > 0 /\ Q.rooting # r THEN V("C06.RootingKept", Shape(P) \o "->" \o Shape(Q)) ELSE None)
    \* the settings of the sample, also on an (empty) result and in the embedded distribution, which decides what is
    \* collected from trees added later
    \o (IF Q.set # set THEN V("C06.SettingsKept", "settings-of-the-collection") ELSE None)
    \o (IF Q.dset.iel # set.iel \/ Q.dset.ina # set.ina THEN V("C06.SettingsKept", "settings-of-the-embedded-distribution") ELSE None)

\* per-split summaries the summariser wrote on a tree (length_mean / length_median / length_range on the edges, age_* on
\* the nodes) against the bag of values of that split: logged per node as <<present, mean, median, lo, hi>>, values * LScale
SumVerdict(g, sums, bags, x) ==            \* "ok", or the first statistic of node x that is off
    LET s == SplitOf(g, x) IN
    IF s \notin DOMAIN bags THEN "ok"
    ELSE LET b == bags[s]  n == BagN(b)  sq == SortedOfBag(b)  v == sums[x] IN
         IF n = 0 THEN "ok"
         ELSE IF ~v[1] THEN "missing"
         ELSE IF ~(v[2][3] /\ v[2][2] > 0) \/ v[2][1] * n # BagSum(b) * v[2][2] THEN "mean"
         ELSE IF ~(v[3][3] /\ v[3][2] > 0) \/ v[3][1] * 2 # MedianTwice(b) * v[3][2] THEN "median"
         ELSE IF v[4] # sq[1] \/ v[5] # sq[n] THEN "range" ELSE "ok"
SummaryClass(g, sums, bags, what) ==
    LET cls == {SumVerdict(g, sums, bags, x) : x \in Nodes(g)} \ {"ok"} IN
    IF cls = {} THEN <<>>
    ELSE V("C06.SameLengthAndAgeSummaries",
           what \o "_" \o (IF "missing" \in cls THEN "missing" ELSE IF "mean" \in cls THEN "mean" ELSE IF "median" \in cls THEN "median" ELSE "range"))

\* queries on a non-empty array: consensus, supports, credibility scores, maximum credibility tree
RatOk(v) == v[3] /\ v[2] > 0
\* T: ids of the trees the array holds, entry by entry; P: its projection; e: record with cons, scores, mcct, topo;
\* ref: consensus of the reference array filled one tree at a time (compared when the array holds the whole sample)
JudgeQueries(T, D, set, r, P, e, ref) ==
    IF Len(T) = 0 THEN None ELSE        \* nothing to summarise
    LET d == TLCEval(SummaryOfBag(T, D, set))
        short == IF P.n[3] < P.n[1] THEN ":leafset-list-shorter-than-split-list" ELSE ""
        Work(name, q) == IF q.raised # "" THEN V("C06.PerTreeQueriesWork", name \o ":" \o q.raised \o short) ELSE None
        c == e.cons  sc == e.scores  m == e.mcct
        M == Max({Cardinality(ScoreSplits(D[T[i]])) : i \in 1..Len(T)})
        \* "internal split" unambiguous for every tree, and the products fit TLC's integers
        \* (the harness turns exp(score) into a fraction with a denominator of at most 4,000,000: vlib/x_c06.rat_exp)
        defined == (\A i \in 1..Len(T) : ScoreDefined(D[T[i]])) /\ Pow(d.sumW, M) <= 4000000
        creds == TLCEval([i \in 1..Len(T) |-> CredFrac(D[T[i]], d)])
        nums == TLCEval([i \in 1..Len(T) |-> CredNum(D[T[i]], d, M)])
        best == {i \in 1..Len(T) : \A i2 \in 1..Len(T) : nums[i] >= nums[i2]}
        full == BagOfSeq(T) = BagOfSeq([i \in 1..Len(D) |-> i])
        lo == e.conslow
    IN Work("consensus_tree", c) \o Work("consensus_tree(min_freq=0.25)", lo) \o Work("calculate_log_product_of_split_supports", sc)
       \o Work("maximum_product_of_split_support_tree", m) \o Work("split_bitmask_set_frequencies", e.topo)
       \o (IF c.raised # "" THEN None
           ELSE (IF WFClause(c.g) # "ok" THEN V("C06.SameConsensus", "ill-formed:" \o WFClause(c.g))
                 ELSE (IF ~(MajoritySplits(d) \ {{}, TreeTx(c.g)} \subseteq SplitSet(c.g)) \/ ~(SplitSet(c.g) \ {{}, TreeTx(c.g)} \subseteq HalfSplits(d))
                            \/ TreeTx(c.g) # UNION {D[T[i]].leafset : i \in 1..Len(T)}
                         THEN V("C06.SameConsensus", "splits-are-not-the-majority-splits-of-the-bag") ELSE None)
                   \* the whole sample in this array: same consensus as the reference array filled one tree at a time
                   \o (IF full /\ ref.raised = "" /\ SplitSet(c.g) # SplitSet(ref.g)
                         THEN V("C06.SameConsensus", "differs-from-the-array-filled-one-tree-at-a-time") ELSE None)
                   \o (IF c.g.rooted # (IF r = 1 THEN 1 ELSE 0) THEN V("C06.SameConsensus", "rooting-of-consensus") ELSE None)
                   \o (IF \E x \in Nodes(c.g) : ~RatOk(c.sup[x]) \/ c.sup[x][1] * d.sumW # CountOf(d, SplitOf(c.g, x)) * c.sup[x][2]
                         THEN V("C06.SameSupports", "support-on-consensus") ELSE None)
                   \o SummaryClass(c.g, c.esum, d.lens, "length") \o SummaryClass(c.g, c.asum, d.ages, "age")))
       \* threshold 1/4: every majority split, nothing below a quarter; which of the incompatible candidates are kept
       \* (ties!) must not depend on the route: same as the reference array when the whole sample is here
       \o (IF lo.raised # "" THEN None
           ELSE IF WFClause(lo.g) # "ok" THEN V("C06.SameConsensus", "min_freq=0.25:ill-formed:" \o WFClause(lo.g))
           ELSE (IF ~(MajoritySplits(d) \ {{}, TreeTx(lo.g)} \subseteq SplitSet(lo.g))
                     \/ \E s \in SplitSet(lo.g) \ {{}, TreeTx(lo.g)} : 4 * CountOf(d, s) < d.sumW
                   THEN V("C06.SameConsensus", "min_freq=0.25:splits-outside-the-frequency-bounds") ELSE None)
             \o (IF full /\ ref.lowraised = "" /\ SplitSet(lo.g) # SplitSet(ref.lowg)
                   THEN V("C06.SameConsensus", "min_freq=0.25:differs-from-the-array-filled-one-tree-at-a-time") ELSE None))
       \o (IF sc.raised # "" \/ ~defined THEN None
           ELSE IF Len(sc.vals) # Len(T) THEN V("C06.SameCredibility", "number-of-scores")
           ELSE (IF \E i \in 1..Len(T) : ~RatOk(sc.vals[i]) \/ <<sc.vals[i][1], sc.vals[i][2]>> # creds[i]
                   THEN V("C06.SameCredibility", "score") ELSE None)
             \o (IF (sc.maxidx + 1) \notin best THEN V("C06.SameCredibility", "index-of-maximum") ELSE None))
       \o (IF m.raised # "" \/ ~defined THEN None
           ELSE IF WFClause(m.g) # "ok" THEN V("C06.SameCredibility", "mcct-ill-formed:" \o WFClause(m.g))
           ELSE (IF ~RatOk(m.score) \/ \A i \in best : <<m.score[1], m.score[2]>> # creds[i]
                   THEN V("C06.SameCredibility", "mcct-score") ELSE None)
             \o (IF Cardinality({D[T[i]].splits : i \in best}) = 1 /\ \A i \in best : SplitSet(m.g) # D[T[i]].splits
                   THEN V("C06.SameCredibility", "mcct-topology-with-unique-maximiser") ELSE None))
       \o (IF e.topo.raised # "" THEN None
           ELSE LET want == [ss \in {D[T[i]].splits : i \in 1..Len(T)} |->
                                SumSeq([i \in 1..Len(T) |-> IF D[T[i]].splits = ss THEN TW(D[T[i]], set) ELSE 0])]
                    got == e.topo.freqs
                    key(j) == {SeqToSet(got[j][1][h]) : h \in 1..Len(got[j][1])}
                IN IF Len(got) # Cardinality(DOMAIN want) \/ {key(j) : j \in 1..Len(got)} # DOMAIN want
                      \/ \E j \in 1..Len(got) : ~RatOk(got[j][2]) \/ got[j][2][1] * d.sumW # want[key(j)] * got[j][2][2]
                     THEN V("C06.SameTopologyFrequencies", "split_bitmask_set_frequencies") ELSE None)

=============================================================================
