SPECIFICATION Spec
CONSTANTS
  ShippedCharIds = TRUE
  ShippedLinkBlocks = TRUE
  ShippedTitleCase = FALSE
  Dims <- DimsNone
  LabelSets = {"plain"}
  MaxNs = 3
  MaxComps = 2
  TitlePool <- TitlesSmall
INVARIANT NamespaceOfEachComponent
CHECK_DEADLOCK FALSE
