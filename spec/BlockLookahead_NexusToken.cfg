SPECIFICATION Spec
CONSTANT MaxLen = 2
CONSTANT MaxPad = 9
CONSTANT Blk = 4
INVARIANT OffsetIndependentTree
CHECK_DEADLOCK FALSE
