------------------------------ MODULE TreeOps ------------------------------
(***************************************************************************)
(* C03 / C07 - the public structure-changing operations of Tree, Node and  *)
(* Edge as pure operators on the graph form of TreeBase, and the clauses   *)
(* of the two properties as predicates over (pre-state, call, post-state). *)
(*                                                                         *)
(* Graph form = TreeBase's record plus one field                           *)
(*   key   Seq(Nat)   identity of the node object across calls (0 = node   *)
(*                    created by the call just made, not yet named)        *)
(* Operators named Op* are the REFERENCE semantics (what the bounded model *)
(* MC_TreeOps explores and what drift is measured against); operators      *)
(* named Cl* are the PROPERTY CLAUSES (used as invariants / action         *)
(* properties of the model and by Trace_TreeOps on every logged real call).*)
(* Lengths are integers (unit 1/LScale), -1 = None.  Working graphs inside *)
(* an operation may contain detached garbage nodes; Compact removes them   *)
(* and renumbers the reachable nodes in preorder (= the projection order). *)
(*                                                                         *)
(* AsShipped: set of defect names modelled as shipped (DESIGN 7/8):        *)
(*   "F02" collapse_unweighted_edges: `a or b and c` precedence            *)
(*   "F03" reroot_at_midpoint: midpoint on an existing node                *)
(***************************************************************************)
EXTENDS TreeBase
CONSTANT AsShipped

\* ------------------------------------------------------------ sequences
SqHas(q, x) == \E i \in 1..Len(q) : q[i] = x
SqIndex(q, x) == CHOOSE i \in 1..Len(q) : q[i] = x                      \* guarded by SqHas
SqWithout(q, x) == SelectSeq(q, LAMBDA y : y # x)
SqInsert(q, i, x) == LET j == IF i > Len(q) + 1 THEN Len(q) + 1 ELSE IF i < 1 THEN 1 ELSE i
                     IN SubSeq(q, 1, j - 1) \o <<x>> \o SubSeq(q, j, Len(q))
SqReplace(q, x, r) == Flatten([i \in 1..Len(q) |-> IF q[i] = x THEN r ELSE <<q[i]>>])
\* stable selection sort of q by the integer table k (ascending, or descending as list.sort(reverse=True))
RECURSIVE SqSortBy(_, _, _)
SqSortBy(q, k, asc) ==
    IF q = <<>> THEN <<>>
    ELSE LET ks == {k[q[i]] : i \in 1..Len(q)}
             m == IF asc THEN Min(ks) ELSE Max(ks)
             i == Min({j \in 1..Len(q) : k[q[j]] = m})
         IN <<q[i]>> \o SqSortBy(SubSeq(q, 1, i - 1) \o SubSeq(q, i + 1, Len(q)), k, asc)
AddLen(a, b) == IF a < 0 THEN b ELSE IF b < 0 THEN a ELSE a + b           \* None is "no length"
\* what `x.length += y.length` inside try/except does in the library (TypeError swallowed)
AddLenLib(a, b) == IF a < 0 \/ b < 0 THEN a ELSE a + b

\* ------------------------------------------------------------ graph primitives
HasKey(g, k) == \E x \in Nodes(g) : g.key[x] = k
NodeOfKey(g, k) == CHOOSE x \in Nodes(g) : g.key[x] = k                  \* guarded by HasKey
MaxKey(g) == Max({g.key[x] : x \in Nodes(g)} \cup {0})
WithKeys(g0) == [n |-> g0.n, seed |-> g0.seed, kids |-> g0.kids, par |-> g0.par, eh |-> g0.eh, eid |-> g0.eid,
                 tx |-> g0.tx, len |-> g0.len, lab |-> g0.lab, rooted |-> g0.rooted, key |-> [x \in 1..g0.n |-> x]]
NotRooted(g) == g.rooted # 1                                             \* `not tree._is_rooted`

GDetach(g, c) == LET p == g.par[c] IN
                 IF p = 0 THEN g ELSE [g EXCEPT !.kids[p] = SqWithout(@, c), !.par[c] = 0]
GAppend(g, p, c) == [g EXCEPT !.kids[p] = IF SqHas(@, c) THEN @ ELSE Append(@, c), !.par[c] = p]
\* Node.insert_child(index = i - 1, c)
GInsert(g, p, i, c) == [g EXCEPT !.kids[p] = SqInsert(SqWithout(@, c), i, c), !.par[c] = p]
GNew(g, ln) == LET m == g.n + 1 IN
               [g EXCEPT !.n = m, !.kids = Append(@, <<>>), !.par = Append(@, 0), !.eh = Append(@, m),
                         !.eid = Append(@, Max({g.eid[x] : x \in Nodes(g)}) + 1), !.tx = Append(@, 0),
                         !.len = Append(@, ln), !.lab = Append(@, ""), !.key = Append(@, 0)]
\* reachable part renumbered in preorder
Compact(g) ==
    LET ord == Pre(g, g.seed)
        m == Len(ord)
        nid == [x \in Nodes(g) |-> IF SqHas(ord, x) THEN SqIndex(ord, x) ELSE 0]
    IN [n |-> m, seed |-> 1,
        kids |-> [i \in 1..m |-> [j \in 1..Len(g.kids[ord[i]]) |-> nid[g.kids[ord[i]][j]]]],
        par |-> [i \in 1..m |-> IF g.par[ord[i]] = 0 THEN 0 ELSE nid[g.par[ord[i]]]],
        eh |-> [i \in 1..m |-> i], eid |-> [i \in 1..m |-> i],
        tx |-> [i \in 1..m |-> g.tx[ord[i]]], len |-> [i \in 1..m |-> g.len[ord[i]]],
        lab |-> [i \in 1..m |-> g.lab[ord[i]]], key |-> [i \in 1..m |-> g.key[ord[i]]], rooted |-> g.rooted]
\* naming convention for the nodes a call created (shared with the harness): next keys in the
\* order (smallest key of an old leaf below, larger clade first)
LeavesBelow(g, x) == SeqToSet(LeafSeq(g, x))
NewSortKey(g, x) == LET ks == {g.key[y] : y \in LeavesBelow(g, x)} \ {0}
                    IN (IF ks = {} THEN 0 ELSE Min(ks)) * 1000 + (999 - Cardinality(LeavesBelow(g, x)))
RECURSIVE RekeyFrom(_, _, _)
RekeyFrom(g, S, k) == IF S = {} THEN g
                      ELSE LET x == CHOOSE y \in S : \A z \in S : NewSortKey(g, y) <= NewSortKey(g, z)
                           IN RekeyFrom([g EXCEPT !.key[x] = k], S \ {x}, k + 1)
\* (floor = largest key of the pre-state: a new node never takes the key of a node the call removed)
Rekey(g, floor) == RekeyFrom(g, {x \in Nodes(g) : g.key[x] = 0}, (IF MaxKey(g) > floor THEN MaxKey(g) ELSE floor) + 1)

R(g, raised) == [g |-> g, raised |-> raised]

\* ------------------------------------------------------------ building blocks of the library
\* Edge.collapse on the edge of d (d not the seed, d internal): its children take its place
CollapseInto(g, d, adjust) ==
    LET p == g.par[d]  ch == g.kids[d] IN
    [g EXCEPT !.kids = [x \in 1..g.n |-> IF x = p THEN SqReplace(g.kids[p], d, ch) ELSE IF x = d THEN <<>> ELSE g.kids[x]],
              !.par = [x \in 1..g.n |-> IF SqHas(ch, x) THEN p ELSE IF x = d THEN 0 ELSE g.par[x]],
              !.len = [x \in 1..g.n |-> IF SqHas(ch, x) /\ adjust THEN AddLen(g.len[x], g.len[d]) ELSE g.len[x]]]

\* Tree.suppress_unifurcations: every out-degree-one node is removed, its length passes to the child
\* (protect: nodes the caller still needs - reference design choice for to_outgroup_position)
Unifs(g, protect) == {x \in Reachable(g) : Len(g.kids[x]) = 1 /\ x \notin protect}
DropUnif(g, x) ==
    LET c == g.kids[x][1]
        g1 == [g EXCEPT !.len[c] = AddLen(g.len[c], g.len[x])]
    IN IF g.par[x] = 0 THEN [g1 EXCEPT !.seed = c, !.par[c] = 0, !.kids[x] = <<>>]
       ELSE [g1 EXCEPT !.kids = [y \in 1..g.n |-> IF y = g.par[x] THEN SqReplace(g.kids[y], x, <<c>>) ELSE IF y = x THEN <<>> ELSE g.kids[y]],
                       !.par = [y \in 1..g.n |-> IF y = c THEN g.par[x] ELSE IF y = x THEN 0 ELSE g.par[y]]]
RECURSIVE Suppress(_, _)
Suppress(g, protect) == LET U == Unifs(g, protect) IN IF U = {} THEN g ELSE Suppress(DropUnif(g, Min(U)), protect)

\* Tree.collapse_basal_bifurcation: which child of a two-child seed is merged into the seed (0 = none)
BasalDel(g, protect) ==
    LET k == g.kids[g.seed] IN
    IF Len(k) # 2 THEN 0
    ELSE IF Len(g.kids[k[2]]) >= 2 /\ k[2] \notin protect THEN k[2]
    ELSE IF Len(g.kids[k[1]]) >= 2 /\ k[1] \notin protect THEN k[1]
    ELSE 0
CollapseBasal(g, setUnrooted, protect) ==
    LET d == BasalDel(g, protect) IN
    IF d = 0 THEN g
    ELSE LET k == g.kids[g.seed]
             keep == IF k[1] = d THEN k[2] ELSE k[1]
             g1 == [g EXCEPT !.len[keep] = AddLen(g.len[keep], g.len[d])]
             g2 == CollapseInto(g1, d, FALSE)
         IN [g2 EXCEPT !.rooted = IF setUnrooted THEN 0 ELSE @]

\* the structural part of encode_bipartitions(suppress_unifurcations, collapse_unrooted_basal_bifurcation),
\* also what reseed_at does itself when update_bipartitions is off
Settle(g, su, cb, protect) ==
    LET g1 == IF cb /\ NotRooted(g) /\ Len(g.kids[g.seed]) = 2 THEN CollapseBasal(g, TRUE, protect) ELSE g
    IN IF su THEN Suppress(g1, protect) ELSE g1

\* encode_bipartitions itself first suppresses unifurcations at or just below the seed of an unrooted tree when they
\* would hide the basal bifurcation (repo fix 5d6fc01f)
HiddenBasal(g) == Len(g.kids[g.seed]) = 1 \/ \E c \in KidSet(g, g.seed) : Len(g.kids[c]) = 1
SettleEnc(g, su, cb, protect) ==
    Settle(IF cb /\ NotRooted(g) /\ su /\ HiddenBasal(g) THEN Suppress(g, protect) ELSE g, su, cb, protect)

\* Edge.invert on the edge of c, a child of the seed: c becomes the seed, the old seed its last child
InvertTop(g, c) ==
    LET s == g.seed IN
    [g EXCEPT !.kids = [x \in 1..g.n |-> IF x = s THEN SqWithout(g.kids[s], c) ELSE IF x = c THEN Append(g.kids[c], s) ELSE g.kids[x]],
              !.par = [x \in 1..g.n |-> IF x = s THEN c ELSE IF x = c THEN 0 ELSE g.par[x]],
              !.len = [x \in 1..g.n |-> IF x = s THEN g.len[c] ELSE IF x = c THEN g.len[s] ELSE g.len[x]],
              !.seed = c]
TopAnc(g, x) == LET a == AncOrSelf(g, x) IN a[Len(a) - 1]               \* x # seed: the seed's child above x
RECURSIVE SeedTo(_, _)
SeedTo(g, x) == IF g.seed = x THEN g ELSE SeedTo(InvertTop(g, TopAnc(g, x)), x)
\* reseed_at on a leaf with suppress_unifurcations: the single child of the new seed is dissolved (its length is dropped)
HoistOnly(g, x) ==
    LET c == g.kids[x][1]  ch == g.kids[c] IN
    [g EXCEPT !.kids = [y \in 1..g.n |-> IF y = x THEN ch ELSE IF y = c THEN <<>> ELSE g.kids[y]],
              !.par = [y \in 1..g.n |-> IF SqHas(ch, y) THEN x ELSE IF y = c THEN 0 ELSE g.par[y]]]

\* ------------------------------------------------------------ reference operations (node arguments are ids of g)
ReseedCore(g, x, ub, su, cb, protect) ==
    LET wasLeaf == IsLeaf(g, x)
        g1 == SeedTo(g, x)
        g2 == IF wasLeaf /\ su /\ x # g.seed /\ Len(g1.kids[x]) = 1 THEN HoistOnly(g1, x) ELSE g1
    IN IF ub THEN SettleEnc(g2, su, cb, protect) ELSE Settle(g2, su, cb, protect)
\* Would this re-seeding drop a length?  collapse_basal_bifurcation adds the deleted edge's length to the kept
\* edge inside try/except: when the kept edge has no length (None) and the deleted one has, that length is lost
\* (counted as drift, see MetricJudged in Trace_TreeOps).  Everything else a re-seeding does - the inversions
\* along the path, the suppression of unifurcations - merges None-aware and must conserve lengths.
BasalLossy(g) == LET d == BasalDel(g, {})  k == g.kids[g.seed]  keep == IF k[1] = d THEN k[2] ELSE k[1]
                 IN d # 0 /\ g.len[keep] < 0 /\ g.len[d] >= 0
ReseedLossy(g, x, ub, su, cb) ==
    LET g1 == SeedTo(g, x)
        g2 == IF ub /\ cb /\ NotRooted(g1) /\ su /\ HiddenBasal(g1) THEN Suppress(g1, {}) ELSE g1
    IN cb /\ NotRooted(g2) /\ Len(g2.kids[g2.seed]) = 2 /\ BasalLossy(g2)
OpReseedAt(g, x, ub, su, cb) == R(ReseedCore(g, x, ub, su, cb, {}), "")
RerootCore(g, x, su) == [ReseedCore(g, x, FALSE, su, FALSE, {}) EXCEPT !.rooted = 1]
OpRerootAtNode(g, x, su) == R(RerootCore(g, x, su), "")
OpRerootAtEdge(g, h, l1, l2, su) ==
    LET t == g.par[h]
        g1 == GNew(g, l1)
        s == g1.n
        g2 == GAppend(g1, t, s)
        g3 == GAppend(GDetach(g2, h), s, h)
        g4 == [g3 EXCEPT !.len[h] = l2]
    IN R(RerootCore(g4, s, su), "")

\* midpoint rooting
TaxLeaves(g) == {x \in Leaves(g) : g.tx[x] # 0}
\* tables, evaluated once per graph (TLC does not memoise operator applications)
RootDistTab(g) == TLCEval([x \in Nodes(g) |-> RootDist(g, x)])
AncTab(g) == TLCEval([x \in Nodes(g) |-> AncOrSelf(g, x)])
TabPath(rd, an, a, b) == LET A == an[a]  B == SeqToSet(an[b])
                             m == A[Min({i \in 1..Len(A) : A[i] \in B})]
                         IN rd[a] + rd[b] - 2 * rd[m]
\* leaf-to-leaf path lengths keyed by <<taxon, taxon>> (first < second); needs one leaf per taxon
PathTab(g) ==
    LET rd == RootDistTab(g)  an == AncTab(g)  T == TreeTx(g)
        lf == TLCEval([t \in T |-> TaxLeaf(g, t)])
    IN TLCEval([p \in {q \in T \X T : q[1] < q[2]} |-> TabPath(rd, an, lf[p[1]], lf[p[2]])])
\* D = largest leaf-to-leaf distance, pairs = the leaf pairs (node ids) realising it
MidInfo(g) ==
    LET pt == PathTab(g)
        D == IF DOMAIN pt = {} THEN 0 ELSE Max({pt[p] : p \in DOMAIN pt})
    IN [D |-> D, pairs |-> {<<TaxLeaf(g, p[1]), TaxLeaf(g, p[2])>> : p \in {q \in DOMAIN pt : pt[q] = D}}]
MaxLeafDist(g) == MidInfo(g).D
MidpointOk(g) == /\ Cardinality(Leaves(g)) >= 2 /\ TaxLeaves(g) = Leaves(g)
                 /\ \A a, b \in Leaves(g) : a # b => g.tx[a] # g.tx[b]
                 /\ \A x \in Nodes(g) \ {g.seed} : g.len[x] >= 0
                 /\ \A x \in Internals(g) : g.tx[x] = 0
\* walk up from the deeper end: the midpoint is `d` above `node` inside its edge, or on a node
RECURSIVE MidWalk(_, _, _)
MidWalk(g, cur, rem) ==
    IF g.par[cur] = 0 THEN [on |-> TRUE, node |-> cur, child |-> cur, d |-> 0]
    ELSE IF L0(g, cur) > rem THEN [on |-> FALSE, node |-> cur, child |-> cur, d |-> rem]
    ELSE IF L0(g, cur) = rem THEN [on |-> TRUE, node |-> g.par[cur], child |-> cur, d |-> 0]
    ELSE MidWalk(g, g.par[cur], rem - L0(g, cur))
\* location of the midpoint for the pair p (half = D / 2 must be integral: guard MidpointExact)
MidpointExact(g) == MaxLeafDist(g) % 2 = 0
MidLoc(g, p, D) == LET n1 == IF RootDist(g, p[1]) < RootDist(g, p[2]) THEN p[2] ELSE p[1]
                   IN MidWalk(g, n1, D \div 2)
MidpointOnNode(g) == LET mi == MidInfo(g) IN \E p \in mi.pairs : MidLoc(g, p, mi.D).on
OpRerootAtMidpoint(g, su) ==
    LET mi == MidInfo(g)
        p == CHOOSE q \in mi.pairs : TRUE
        loc == MidLoc(g, p, mi.D)
    IN IF loc.on
         THEN (IF "F03" \in AsShipped
                 THEN R([ReseedCore(g, loc.child, FALSE, su, TRUE, {}) EXCEPT !.rooted = 1], "")
                 ELSE R(RerootCore(g, loc.node, su), ""))
         ELSE LET c == loc.node
                  t == g.par[c]
                  g1 == GNew(g, g.len[c] - loc.d)
                  s == g1.n
                  g2 == GAppend(GDetach(g1, c), s, c)
                  g3 == GAppend([g2 EXCEPT !.len[c] = loc.d], t, s)
              IN R(RerootCore(g3, s, su), "")

\* to_outgroup_position: reseed at the parent (which, with the outgroup, survives the clean-up), outgroup first
OpToOutgroupPosition(g, og, ub, su) ==
    LET p == g.par[og]
        g1 == ReseedCore(g, p, ub, su, TRUE, {og, p})
    IN R(GInsert(GDetach(g1, og), p, 1, og), "")

OpCollapseBasalBifurcation(g, setUnrooted) == R(CollapseBasal(g, setUnrooted, {}), "")
OpSuppressUnifurcations(g) == R(Suppress(g, {}), "")
\* Edge.collapse(adjust_collapsed_head_children_edge_lengths)
OpCollapseEdge(g, x, adjust) ==
    IF g.par[x] = 0 THEN R(g, "")
    ELSE IF IsLeaf(g, x) THEN R(g, "ValueError")
    ELSE R(CollapseInto(g, x, adjust), "")
OpCollapseClade(g, x) ==
    IF IsLeaf(g, x) THEN R(g, "")
    ELSE LET lv == LeafSeq(g, x) IN
         R([g EXCEPT !.kids[x] = lv, !.par = [y \in 1..g.n |-> IF SqHas(lv, y) THEN x ELSE g.par[y]]], "")
\* collapse_unweighted_edges(threshold): internal non-seed edges with no length or length <= thr
Unweighted(g, thr) == {x \in Reachable(g) : g.par[x] # 0 /\ ~IsLeaf(g, x) /\ (g.len[x] < 0 \/ g.len[x] <= thr)}
RECURSIVE CollapseSet(_, _)
CollapseSet(g, Q) == IF Q = {} THEN g ELSE CollapseSet(CollapseInto(g, Min(Q), FALSE), Q \ {Min(Q)})
OpCollapseUnweightedEdges(g, thr, ub) ==
    LET po == Post(g, g.seed)
        bad == {i \in 1..Len(po) : IsLeaf(g, po[i]) /\ g.len[po[i]] < 0 /\ g.par[po[i]] # 0}
    IN IF "F02" \in AsShipped /\ bad # {}
         THEN R(CollapseSet(g, Unweighted(g, thr) \cap {po[i] : i \in 1..(Min(bad) - 1)}), "ValueError")
         ELSE LET g1 == CollapseSet(g, Unweighted(g, thr)) IN R(IF ub THEN SettleEnc(g1, TRUE, TRUE, {}) ELSE g1, "")
\* resolve_polytomies(limit=2, rng=None): repeatedly join the first two children under a new zero-length node
RECURSIVE ResolveNode(_, _)
ResolveNode(g, x) ==
    IF Len(g.kids[x]) <= 2 THEN g
    ELSE LET c1 == g.kids[x][1]  c2 == g.kids[x][2]
             g1 == GNew(g, 0)
             nn == g1.n
         IN ResolveNode([g1 EXCEPT !.kids = [y \in 1..g1.n |-> IF y = x THEN Append(SubSeq(g1.kids[x], 3, Len(g1.kids[x])), nn)
                                                               ELSE IF y = nn THEN <<c1, c2>> ELSE g1.kids[y]],
                                   !.par = [y \in 1..g1.n |-> IF y = c1 \/ y = c2 THEN nn ELSE IF y = nn THEN x ELSE g1.par[y]]], x)
RECURSIVE ResolveSet(_, _)
ResolveSet(g, Q) == IF Q = {} THEN g ELSE ResolveSet(ResolveNode(g, Min(Q)), Q \ {Min(Q)})
OpResolvePolytomies(g, ub) ==
    LET g1 == ResolveSet(g, {x \in Reachable(g) : Len(g.kids[x]) > 2}) IN R(IF ub THEN SettleEnc(g1, TRUE, TRUE, {}) ELSE g1, "")
OpPruneSubtree(g, x, ub, su) ==
    IF g.par[x] = 0 THEN R(g, "TypeError")
    ELSE LET g1 == GDetach(g, x)
             g2 == IF su THEN Suppress(g1, {}) ELSE g1
         IN R(IF ub THEN SettleEnc(g2, su, TRUE, {}) ELSE g2, "")   \* update_bipartitions(suppress_unifurcations=su), repo fix ff5a81b6
\* prune_taxa(S) followed by the recursive removal of leaves without taxa
RECURSIVE HasKept(_, _, _)
HasKept(g, x, S) == IF IsLeaf(g, x) THEN g.tx[x] # 0 /\ g.tx[x] \notin S ELSE \E c \in KidSet(g, x) : HasKept(g, c, S)
OpPruneTaxa(g, S, ub, su) ==
    LET g1 == [g EXCEPT !.kids = [x \in 1..g.n |-> SelectSeq(g.kids[x], LAMBDA c : HasKept(g, c, S))]]
        g2 == IF su THEN Suppress(g1, {}) ELSE g1
    IN R(IF ub THEN SettleEnc(g2, su, TRUE, {}) ELSE g2, "")   \* update_bipartitions(suppress_unifurcations=su), repo fix ff5a81b6
\* retain_taxa(S): prune every taxon of the namespace not in S (allTaxa = the namespace's codes)
OpRetainTaxa(g, S, allTaxa, ub, su) == OpPruneTaxa(g, allTaxa \ S, ub, su)
\* ladderize: children sorted (stable) by number of descendants; reorder: by taxon label (code order here)
DescCount(g) == [x \in 1..g.n |-> Cardinality(Desc(g, x)) - 1]
OpLadderize(g, asc) == R([g EXCEPT !.kids = [x \in 1..g.n |-> SqSortBy(g.kids[x], DescCount(g), asc)]], "")
OpReorder(g, asc) == R([g EXCEPT !.kids = [x \in 1..g.n |-> SqSortBy(g.kids[x], g.tx, asc)]], "")
OpNewChild(g, p, ln) == LET g1 == GNew(g, ln) IN R(GAppend(g1, p, g1.n), "")
OpInsertNewChild(g, p, i, ln) == LET g1 == GNew(g, ln) IN R(GInsert(g1, p, i, g1.n), "")
OpInsertChild(g, p, i, c) == R(GInsert(g, p, i, c), "")                  \* c already a child of p: moved
\* Node.remove_child(c, suppress_unifurcations) called on c's parent
OpRemoveChild(g, p, c, su) ==
    IF g.par[c] # p \/ ~SqHas(g.kids[p], c) THEN R(g, "ValueError")
    ELSE LET g1 == GDetach(g, c)  k == g1.kids[p] IN
         IF ~su THEN R(g1, "")
         ELSE IF g.par[p] # 0 THEN R(IF Len(k) = 1 THEN DropUnif(g1, p) ELSE g1, "")
         ELSE LET d == IF Len(k) # 2 THEN 0 ELSE IF ~IsLeaf(g1, k[1]) THEN k[1] ELSE IF ~IsLeaf(g1, k[2]) THEN k[2] ELSE 0 IN
              IF d = 0 THEN R(g1, "")
              ELSE LET other == IF k[1] = d THEN k[2] ELSE k[1] IN
                   R(CollapseInto([g1 EXCEPT !.len[other] = AddLen(g1.len[other], g1.len[d])], d, FALSE), "")
OpEncodeBipartitions(g, su, cb) == R(SettleEnc(g, su, cb, {}), "")

\* ------------------------------------------------------------ comparison modulo child order and names of new nodes
RECURSIVE UForm(_, _)
UForm(g, x) == [k |-> g.key[x], t |-> g.tx[x], l |-> g.len[x], c |-> {UForm(g, y) : y \in KidSet(g, x)}]
UTree(g) == [r |-> g.rooted, t |-> UForm(g, g.seed)]
\* the same ignoring lengths
RECURSIVE UShape(_, _)
UShape(g, x) == [k |-> g.key[x], t |-> g.tx[x], c |-> {UShape(g, y) : y \in KidSet(g, x)}]

\* ------------------------------------------------------------ C03 clauses
\* the multiset of leaf taxa (leaves without a taxon carry none)
LeafTaxa(g) == LET q == SelectSeq([i \in 1..Len(LeafSeq(g, g.seed)) |-> g.tx[LeafSeq(g, g.seed)[i]]], LAMBDA t : t # 0)
               IN BagOfSeq(q)
BagGet(b, t) == IF t \in DOMAIN b THEN b[t] ELSE 0
BagLe(a, b) == \A t \in DOMAIN a : a[t] <= BagGet(b, t)
\* bag a without every taxon in S
BagMinusSet(a, S) == [t \in (DOMAIN a) \ S |-> a[t]]
BagMinus(a, b) == LET D == {t \in DOMAIN a : a[t] > BagGet(b, t)} IN [t \in D |-> a[t] - BagGet(b, t)]
SubtreeLeafTaxa(g, x) == LET q == SelectSeq([i \in 1..Len(LeafSeq(g, x)) |-> g.tx[LeafSeq(g, x)[i]]], LAMBDA t : t # 0)
                         IN BagOfSeq(q)
\* what the call was asked to remove: a set of taxa (all their leaves) or the leaves of one subtree
ClLeafMultiset(pre, post, removedTaxa, removedSubtreeBag, completed) ==
    LET want == BagMinus(BagMinusSet(LeafTaxa(pre), removedTaxa), removedSubtreeBag) IN
    IF completed THEN LeafTaxa(post) = want
    ELSE BagLe(want, LeafTaxa(post)) /\ BagLe(LeafTaxa(post), LeafTaxa(pre))
\* domain of the properties: taxa sit on leaves only (a tree damaged by an earlier, reported defect is outside)
InDomain(g) == \A x \in Internals(g) : g.tx[x] = 0

\* fresh encoding: every edge carries the leaf set below it and the (normalised if unrooted) split,
\* and the tree's list holds every edge's bipartition exactly once.  enc = [bl, bs, list, has]
EncFresh(g, enc) ==
    /\ enc.has
    /\ \A x \in Nodes(g) : enc.bl[x] = LeafTx(g, x) /\ enc.bs[x] = SplitOf(g, x)
    /\ Len(enc.list) = g.n /\ SeqToSet(enc.list) = Nodes(g)

\* every traversal visits exactly the reachable nodes (once)
ClTraversals(g, it) ==
    /\ IsPermOf(it.pre, Reachable(g)) /\ IsPermOf(it.post, Reachable(g)) /\ IsPermOf(it.level, Reachable(g))
    /\ IsPermOf(it.leaf, Reachable(g) \cap Leaves(g))

\* ------------------------------------------------------------ C07 clauses
LeafTaxSet(g) == TreeTx(g)
ClSameLeafSet(pre, post) == LeafTaxa(pre) = LeafTaxa(post)
USplits(g) == LET T == TreeTx(g) IN {Norm(LeafTx(g, x), T) : x \in Nodes(g)}
ClSameSplits(pre, post) == USplits(pre) = USplits(post)
ClSameTotalLength(pre, post) == TotalLength(pre) = TotalLength(post)
PathsDefined(g) == \A a, b \in TaxLeaves(g) : a # b => g.tx[a] # g.tx[b]
ClSamePaths(pre, post) == PathsDefined(pre) /\ PathsDefined(post) /\ TreeTx(pre) = TreeTx(post) => PathTab(pre) = PathTab(post)
\* the root lies half-way along a longest leaf-to-leaf path
ClMidpointEquidistant(post) ==
    LET mi == MidInfo(post)  rd == RootDistTab(post) IN
    \E p \in mi.pairs : 2 * rd[p[1]] = mi.D /\ 2 * rd[p[2]] = mi.D
\* reroot_at_edge(h's edge, l1, l2): the new root is l2 from the old head and l1 from the old tail, measured on every leaf
ClEdgeRootDistances(pre, post, h, l1, l2) ==
    LET t == pre.par[h]
        a1 == IF l1 < 0 THEN 0 ELSE l1
        a2 == IF l2 < 0 THEN 0 ELSE l2
        rd == RootDistTab(pre)  an == AncTab(pre)  below == Desc(pre, h)  rdp == RootDistTab(post)
    IN /\ (post.key[post.seed] = 0 \/ ~HasKey(pre, post.key[post.seed]))
       /\ \A a \in Leaves(pre) :
            /\ HasKey(post, pre.key[a])
            /\ rdp[NodeOfKey(post, pre.key[a])] = IF a \in below THEN a2 + rd[a] - rd[h] ELSE a1 + TabPath(rd, an, t, a)
\* the tree reroot_at_edge is compared with for invariance: the split edge carries the requested lengths
WithEdgeLength(pre, h, l1, l2) == [pre EXCEPT !.len[h] = IF l1 < 0 /\ l2 < 0 THEN -1 ELSE AddLen(l1, l2)]
ClOutgroupFirst(pre, post, og) == LET k == post.kids[post.seed] IN k # <<>> /\ post.key[k[1]] = pre.key[og]
Soft == {"ReseedAt", "ToOutgroupPosition", "Ladderize", "Reorder", "RandomlyReorient", "RandomlyRotate"}
Hard == {"RerootAtNode", "RerootAtEdge", "RerootAtMidpoint"}
Reorientations == Soft \cup Hard
ClRootingFlag(a, pre, post) == IF a \in Hard THEN post.rooted = 1 ELSE post.rooted = pre.rooted
\* ------------------------------------------------------------ clauses over a call record
\* c = [a, x, y, i, S, ub, su, cb, l1, l2, f, raised]: action name, node ids of the PRE-state graph (0 = none),
\* index, taxon set, options, requested lengths, boolean flag (ascending / adjust / set_as_unrooted), exception name
Call0(a) == [a |-> a, x |-> 0, y |-> 0, i |-> 0, S |-> {}, ub |-> FALSE, su |-> FALSE, cb |-> FALSE,
             l1 |-> -1, l2 |-> -1, f |-> FALSE, raised |-> ""]
CallRemovedTaxa(c, allTaxa) == CASE c.a \in {"PruneTaxa", "FilterLeafNodes"} -> c.S [] c.a = "RetainTaxa" -> allTaxa \ c.S [] OTHER -> {}
CallRemovedBag(c, pre) == IF c.a \in {"PruneSubtree", "RemoveChild"} /\ c.raised = "" THEN SubtreeLeafTaxa(pre, c.x) ELSE <<>>
C03LeafMultiset(c, pre, post, allTaxa) ==
    ClLeafMultiset(pre, post, CallRemovedTaxa(c, allTaxa), CallRemovedBag(c, pre), c.raised = "")
\* errors the operations announce themselves (explicit raise with a message naming the misuse)
DocumentedErrors(c, pre) ==
    CASE c.a = "PruneSubtree" /\ pre.par[c.x] = 0 -> {"TypeError"}
      [] c.a = "CollapseEdge" /\ pre.par[c.x] # 0 /\ IsLeaf(pre, c.x) -> {"ValueError"}
      [] c.a = "RemoveChild" /\ (pre.par[c.x] # c.y \/ ~SqHas(pre.kids[c.y], c.x)) -> {"ValueError"}
      \* refused calls (error-path family): the misuse is named by an explicit raise / assert in the library
      [] c.a = "RemoveNonChild" -> {"ValueError"}                       \* y.remove_child(x), x not a child of y
      [] c.a \in {"AddChildSelf", "AddChildParent"} -> {"AssertionError"} \* x.add_child(x), x.add_child(parent of x)
      [] c.a = "PruneSubtreeForeign" -> {"TypeError"}                   \* prune_subtree(node without parent)
      [] c.a \in {"PruneSubtreeNone", "RemoveChildNone", "RemoveChildForeign"} -> {"ValueError"}
      [] OTHER -> {}
C03Outcome(c, pre) == c.raised = "" \/ c.raised \in DocumentedErrors(c, pre)
\* reorientations are compared with the pre-state (reroot_at_edge: with the requested lengths on the split edge)
C07Ref(c, pre) == IF c.a = "RerootAtEdge" THEN WithEdgeLength(pre, c.x, c.l1, c.l2) ELSE pre
C07Post(c, pre, post) ==
    CASE c.a = "RerootAtMidpoint" -> ClMidpointEquidistant(post)
      [] c.a = "RerootAtEdge" -> ClEdgeRootDistances(pre, post, c.x, c.l1, c.l2)
      [] c.a = "ToOutgroupPosition" -> ClOutgroupFirst(pre, post, c.x)
      [] OTHER -> TRUE
\* the reference result of a call (node ids of g)
RefCall(c, g, allTaxa) ==
    CASE c.a = "ReseedAt" -> OpReseedAt(g, c.x, c.ub, c.su, c.cb)
      [] c.a = "RerootAtNode" -> OpRerootAtNode(g, c.x, c.su)
      [] c.a = "RerootAtEdge" -> OpRerootAtEdge(g, c.x, c.l1, c.l2, c.su)
      [] c.a = "RerootAtMidpoint" -> OpRerootAtMidpoint(g, c.su)
      [] c.a = "ToOutgroupPosition" -> OpToOutgroupPosition(g, c.x, c.ub, c.su)
      [] c.a = "Deroot" -> OpCollapseBasalBifurcation(g, TRUE)
      [] c.a = "CollapseBasalBifurcation" -> OpCollapseBasalBifurcation(g, c.f)
      [] c.a = "SuppressUnifurcations" -> OpSuppressUnifurcations(g)
      [] c.a = "CollapseEdge" -> OpCollapseEdge(g, c.x, c.f)
      [] c.a = "CollapseClade" -> OpCollapseClade(g, c.x)
      [] c.a = "CollapseUnweightedEdges" -> OpCollapseUnweightedEdges(g, c.l1, c.ub)
      [] c.a = "ResolvePolytomies" -> OpResolvePolytomies(g, c.ub)
      [] c.a = "PruneSubtree" -> OpPruneSubtree(g, c.x, c.ub, c.su)
      [] c.a = "PruneTaxa" -> OpPruneTaxa(g, c.S, c.ub, c.su)
      [] c.a = "RetainTaxa" -> OpRetainTaxa(g, c.S, allTaxa, c.ub, c.su)
      [] c.a = "Ladderize" -> OpLadderize(g, c.f)
      [] c.a = "Reorder" -> OpReorder(g, c.f)
      [] c.a = "NewChild" -> OpNewChild(g, c.x, c.l1)
      [] c.a = "InsertNewChild" -> OpInsertNewChild(g, c.x, c.i + 1, c.l1)
      [] c.a = "InsertChild" -> OpInsertChild(g, c.y, c.i + 1, c.x)
      [] c.a = "RemoveChild" -> OpRemoveChild(g, c.y, c.x, c.su)
      [] c.a = "EncodeBipartitions" -> OpEncodeBipartitions(g, c.su, c.cb)
      [] c.a = "RemoveNonChild" -> R(g, "ValueError")
      [] c.a \in {"AddChildSelf", "AddChildParent"} -> R(g, "AssertionError")
      [] c.a = "PruneSubtreeForeign" -> R(g, "TypeError")
      [] c.a \in {"PruneSubtreeNone", "RemoveChildNone", "RemoveChildForeign"} -> R(g, "ValueError")
      [] c.a = "ReseedAtForeign" -> R(g, "")        \* reseed_at(node without parent that is not the seed): returns, nothing done
      [] c.a = "ReAddChild" -> R(g, "")            \* add_child of a node that already is a child: documented no-op
HasReference == {"ReseedAt", "RerootAtNode", "RerootAtEdge", "RerootAtMidpoint", "ToOutgroupPosition", "Deroot",
                 "CollapseBasalBifurcation", "SuppressUnifurcations", "CollapseEdge", "CollapseClade", "CollapseUnweightedEdges",
                 "ResolvePolytomies", "PruneSubtree", "PruneTaxa", "RetainTaxa", "Ladderize", "Reorder", "NewChild",
                 "InsertNewChild", "InsertChild", "RemoveChild", "EncodeBipartitions", "ReAddChild",
                 "RemoveNonChild", "AddChildSelf", "AddChildParent", "PruneSubtreeForeign", "PruneSubtreeNone", "RemoveChildNone",
                 "RemoveChildForeign", "ReseedAtForeign"}
ErrorPathActions == {"RemoveNonChild", "AddChildSelf", "AddChildParent", "PruneSubtreeForeign", "PruneSubtreeNone", "RemoveChildNone",
                     "RemoveChildForeign"}
=============================================================================
