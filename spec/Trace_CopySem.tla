---------------------------- MODULE Trace_CopySem ----------------------------
(* C12 trace validation.  Every real execution is a chain of events          *)
(*   Init   - an object (tree, tree list, matrix, namespace) was built       *)
(*   Copy   - one copy route was applied to the current source (or, `from`   *)
(*            = "cpy", to the current copy: a copy of a copy)                *)
(*   Mutate - one mutation was applied through the source or the copy        *)
(* each carrying the projected heap after the call (CopySem.tla header) and  *)
(* the value views of source and copy.  TLC evaluates the clauses of the     *)
(* property with CopySem's own operators and the documented depth table; the *)
(* previous event's heap and views are the pre-state (kept in `st`), so the  *)
(* chain is continuous by construction.  Verdicts are total.                 *)
EXTENDS CopySem, Json, IOUtils
Tr == ndJsonDeserialize(IOEnv.TRACE_FILE)
VARIABLES l, st, bad
tvars == <<l, st, bad>>

V(c, k) == <<[clause |-> c, class |-> k]>>
None == <<>>
If(b, v) == IF b THEN v ELSE None

\* the top-level annotation set of the viewed object is targeted at an object other than its owner
ForeignTarget(v) == Len(v.bnd) >= 1 /\ v.bnd[1].t = 2

JudgeCopy(e) ==
    LET dd == DepthOf(e.cls, e.route)
        rc == e.route \o "/" \o e.cls
        prev == IF e.from = "cpy" THEN st.vc ELSE st.vs
    IN
    IF dd = "Undefined" THEN V("C12.EqualAfterCopy", rc \o "/route-not-in-depth-table")
    ELSE IF e.raised # "" THEN
        \* input shape: the object being copied is itself a copy whose annotation set is targeted at another object
        V("C12.EqualAfterCopy", (IF ForeignTarget(prev) THEN "copy-of-object-with-foreign-annotation-target" ELSE rc) \o "/raised:" \o e.raised)
    ELSE LET eq == ViewEqClause(dd, e.vs, e.vc)
             sh == SharingExactClause(AsJudged(e.g, dd), dd, e.src, e.cpy)
             bd == BoundClause(dd, e.vs, e.vc)
             hid == dd \in {"TNS", "NewNS"} /\ ~ForeignTarget(e.vs) /\ ForeignTarget(e.vc)
             \* input shape: the source of this copy already carries such a foreign annotation target
             srcbad == ForeignTarget(e.vs)
             inherited == "copy-of-object-with-foreign-annotation-target/"
         IN If(eq # "ok", V("C12.EqualAfterCopy", IF hid /\ eq = "full:size" /\ Len(e.vc.full.c) = Len(e.vs.full.c) + 1
                                                   THEN "copy-constructor/hidden-twin-object-in-copy"
                                                   ELSE IF srcbad THEN inherited \o eq ELSE rc \o "/" \o eq))
            \o If(OwnPart(prev) # OwnPart(e.vs) \/ SharedPart(prev) # SharedPart(e.vs), V("C12.EqualAfterCopy", rc \o "/source-changed-by-copying"))
            \* what the documentation of the shallow copies leaves open is counted as drift, never failed
            \o If(dd = "Shallow" /\ e.vs.ann[1].c # e.vc.ann[1].c, V("DRIFT.shallow-copy-without-comments", e.cls))
            \o If(dd = "Shallow" /\ e.vs.enc # e.vc.enc, V("DRIFT.shallow-copy-without-auxiliary-structures", e.cls))
            \o If(sh # "ok", V("C12.SharingExactlyAsDocumented", rc \o "/" \o sh))
            \o If(bd # "ok", V("C12.BoundAnnotationsFollowCopy", IF hid /\ bd = "binding" THEN "copy-constructor/annotation-target-is-not-the-copy"
                                                                    ELSE IF srcbad THEN inherited \o bd ELSE rc \o "/" \o bd))

JudgeMutate(e) ==
    IF ~st.ok THEN None
    ELSE
    LET dd == st.d
        rc == st.route \o "/" \o st.cls
        opre == IF e.side = "src" THEN st.vc ELSE st.vs
        opost == IF e.side = "src" THEN e.vc ELSE e.vs
        vis == VisibleClause(AsJudged(st.g, dd), AsJudged(e.g, dd), dd, st.src, st.cpy, e.side)
        vi == ViewIndepClause(dd, TouchesShared(AsJudged(st.g, dd), AsJudged(e.g, dd), dd, st.src, st.cpy), opre, opost)
        shu == SharingUpperClause(AsJudged(e.g, dd), dd, st.src, st.cpy)
    IN
    IF e.raised # "" THEN
        (IF e.side = "cpy" THEN V("C12.EqualAfterCopy", rc \o "/mutation-raised-on-copy:" \o e.op \o ":" \o e.raised)
         ELSE V("DRIFT.mutation-raised-on-source", e.op \o ":" \o e.raised))
    ELSE If(vis # "ok", V("C12.MutationNotVisibleThroughOther", rc \o "/" \o vis))
         \o If(vi # "ok", V("C12.MutationNotVisibleThroughOther", rc \o "/" \o vi))
         \o If(shu # "ok", V("C12.SharingExactlyAsDocumented", rc \o "/after-mutation:" \o shu))
         \o If(~BoundReadsOwner(e.vs) \/ ~BoundReadsOwner(e.vc), V("C12.BoundAnnotationsFollowCopy", rc \o "/value-after-mutation"))

Judge(e) ==
    CASE e.action = "Init" -> If(~BoundReadsOwner(e.vs), V("C12.InputBoundAnnotations", "input"))
      [] e.action = "Copy" -> JudgeCopy(e)
      [] e.action = "Mutate" -> JudgeMutate(e)

NextSt(e) ==
    CASE e.action = "Init" -> [g |-> e.g, vs |-> e.vs, vc |-> e.vs, src |-> e.src, cpy |-> e.src, d |-> "", cls |-> e.cls, route |-> "", ok |-> FALSE]
      [] e.action = "Copy" -> [g |-> e.g, vs |-> e.vs, vc |-> e.vc, src |-> e.src, cpy |-> e.cpy, d |-> DepthOf(e.cls, e.route),
                               cls |-> e.cls, route |-> e.route, ok |-> (e.raised = "" /\ DepthOf(e.cls, e.route) # "Undefined")]
      [] e.action = "Mutate" -> [st EXCEPT !.g = e.g, !.vs = e.vs, !.vc = e.vc]

Init == l = 1 /\ bad = <<>> /\ st = [ok |-> FALSE]
Next == /\ l <= Len(Tr)
        /\ LET e == Tr[l]
               v == Judge(e) IN
           /\ bad' = bad \o [k \in 1..Len(v) |-> [i |-> l, clause |-> v[k].clause, class |-> v[k].class]]
           /\ st' = NextSt(e)
        /\ l' = l + 1
Spec == Init /\ [][Next]_tvars
Done == l = Len(Tr) + 1 => JsonSerialize(IOEnv.OUT_FILE, [n |-> Len(Tr), bad |-> bad])
Accepted == TLCGet("stats").diameter - 1 = Len(Tr)
=============================================================================
