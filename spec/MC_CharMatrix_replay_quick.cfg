SPECIFICATION Spec
CONSTANTS
  MaxOps = 2
  Configs = {1, 2, 3}
  ConcatLists <- ConcatListsSmall
  IndexSets <- IndexSetsSmall
  Sizes <- SizesSmall
  Labels = {"", "l"}
  Targets = {1, 2, 4}
  TaxonSeqs <- TaxonSeqsSmall
INVARIANT TypeOK
CHECK_DEADLOCK FALSE
