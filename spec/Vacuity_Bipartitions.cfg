SPECIFICATION Spec
CONSTANT NormOnBit0 = TRUE
CONSTANT MaxN = 5
CONSTANT MaxL = 3
CONSTANT LeafSets = {{2,3,4}}
CONSTANT Extras = {}
CONSTANT ExtraMaxL = 0
INVARIANT IffAsFunctions
CHECK_DEADLOCK FALSE
