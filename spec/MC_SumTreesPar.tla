---------------------------- MODULE MC_SumTreesPar ----------------------------
(* Bounded instances of SumTreesPar (the translated PlusCal algorithm): all   *)
(* schedules of Main, the feeder thread and the workers for every run         *)
(* configuration up to MaxFiles files and MaxWorkers workers.                 *)
EXTENDS SumTreesPar
\* only the file-to-tree contents matter for the schedules replayed on the real code; the configuration
\* is constant along a behaviour and identifies the run
ConfigOf == cfg
RootingsAll == {-1, 0, 1}
RootingsUnrooted == {0}
=============================================================================
