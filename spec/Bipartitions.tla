---------------------------- MODULE Bipartitions ----------------------------
(***************************************************************************)
(* C01 - bipartition encoding is exact, canonical and sufficient to        *)
(* rebuild the topology.                                                   *)
(*                                                                         *)
(* Bitmasks are sets of taxon codes (code = accession bit index + 1).      *)
(* A namespace is abstracted to M, the set of codes of its members (holes  *)
(* = codes of 1..Max(M) not in M); the order of its list does not appear.  *)
(*                                                                         *)
(* Everything about the tree itself comes from TreeBase: LeafTx (taxa on   *)
(* the leaves below a node), Norm / SplitOf / SplitSet (the normalised     *)
(* identity), and Canon / CanonUnrooted, the identity of the rooted resp.  *)
(* unrooted topology, which are defined WITHOUT reference to splits.       *)
(* This module adds                                                        *)
(*   - the two directions of "split set <=> topology" as functions         *)
(*     (TopoFromSplits, SplitsFromTopo), so that the iff is a per-tree     *)
(*     statement TLC can check on every tree of the domain;                *)
(*   - the greedy reconstruction FromSplits (a graph-form tree);           *)
(*   - topology restricted to a taxon subset (for trees that do not carry  *)
(*     every taxon of the namespace);                                      *)
(*   - the predicates on bipartitions, set-theoretically and in the        *)
(*     bitwise formulation.                                                *)
(***************************************************************************)
EXTENDS TreeBase

\* NormOnBit0 = TRUE selects the (wrong) rule "normalise on literal bit 0"; it exists
\* only for the vacuity configuration (Vacuity_Bipartitions.cfg): TLC must then find a
\* violation of the split-set <=> topology invariants on a leaf set without code 1.
CONSTANT NormOnBit0

Card(S) == Cardinality(S)
StrictSub(a, b) == a \subseteq b /\ a # b

\* ------------------------------------------------------------------ splits
NormB(m, fill) == IF NormOnBit0 THEN (IF 1 \in m THEN fill \ m ELSE m) ELSE Norm(m, fill)
SplitOfB(g, x) == IF NormOnBit0 THEN (IF IsRooted(g) THEN LeafTx(g, x) ELSE NormB(LeafTx(g, x), TreeTx(g)))
                  ELSE SplitOf(g, x)
SplitSetB(g) == {SplitOfB(g, x) : x \in Nodes(g)}

\* Topology identity, split-independent: TreeBase!Canon (rooted) / TreeBase!CanonUnrooted (unrooted),
\* wrapped in TopologyB below.  The only difference: a tree with at most one taxon is given the value
\* Degenerate (unrooted: nothing is seen from the only leaf, where TreeBase returns the leaf itself), so
\* that the unrooted split set {{}} is a function of the value like everywhere else.
Degenerate(L, rooted) == [t |-> IF L = {} \/ ~rooted THEN 0 ELSE Min(L), k |-> {}]   \* at most one taxon

AllLeavesDistinctTaxa(g) == /\ \A x \in Leaves(g) : g.tx[x] # 0
                            /\ \A x, y \in Leaves(g) : x # y => g.tx[x] # g.tx[y]
HasUnifurcation(g) == \E x \in Nodes(g) : Len(g.kids[x]) = 1
HasPolytomy(g) == \E x \in Nodes(g) : Len(g.kids[x]) > (IF x = g.seed /\ ~IsRooted(g) THEN 3 ELSE 2)

\* ------------------------------------------------------------------ topology <-> split set, as functions
\* canonical value (same shape as TreeBase!Canon) of clade c in a laminar family C that
\* contains all singletons below c
RECURSIVE CanonOfClade(_, _)
CanonOfClade(C, c) ==
    IF Card(c) = 1 THEN [t |-> CHOOSE m \in c : TRUE, k |-> {}]
    ELSE LET sub == {d \in C : d # {} /\ StrictSub(d, c)}
             top == {d \in sub : ~\E e \in sub : StrictSub(d, e)}
         IN [t |-> 0, k |-> {CanonOfClade(C, d) : d \in top}]

\* the topology as a function of the split set S of a tree with leaf taxa L
TopoFromSplits(S, L, rooted) ==
    IF Card(L) <= 1 THEN Degenerate(L, rooted)
    ELSE IF rooted THEN CanonOfClade(S, L)
    ELSE CanonOfClade(S, L \ {Min(L)})          \* the tree seen from the leaf with the lowest taxon

RECURSIVE TaxaOfCanon(_)
TaxaOfCanon(c) == IF c.k = {} THEN (IF c.t = 0 THEN {} ELSE {c.t}) ELSE UNION {TaxaOfCanon(d) : d \in c.k}
RECURSIVE CladesOfCanon(_)
CladesOfCanon(c) == {TaxaOfCanon(c)} \cup UNION {CladesOfCanon(d) : d \in c.k}

\* the split set as a function of the topology
SplitsFromTopo(c, rooted) == IF rooted THEN CladesOfCanon(c) ELSE CladesOfCanon(c) \cup {{}}

\* ------------------------------------------------------------------ topology restricted to a taxon set
\* (same values as Canon / CanonUnrooted when L = TreeTx(g): model invariant RestrictionIsConservative;
\* sides without any taxon of L are skipped)
Touches(g, x, L) == LeafTx(g, x) \cap L # {}
RECURSIVE CanonR(_, _, _)
CanonR(g, x, L) ==
    IF IsLeaf(g, x) THEN [t |-> g.tx[x], k |-> {}]
    ELSE LET ks == {c \in KidSet(g, x) : Touches(g, c, L)}
         IN IF Card(ks) = 1 THEN CanonR(g, CHOOSE c \in ks : TRUE, L)
            ELSE [t |-> 0, k |-> {CanonR(g, c, L) : c \in ks}]
RECURSIVE UpCanonR(_, _, _, _)
UpCanonR(g, x, from, L) ==
    LET down == {CanonR(g, c, L) : c \in {d \in KidSet(g, x) \ {from} : Touches(g, d, L)}}
        \* anything of L outside the subtree of x ?
        up == IF g.par[x] = 0 \/ (L \ LeafTx(g, x)) = {} THEN {} ELSE {UpCanonR(g, g.par[x], x, L)}
        parts == down \cup up
    IN IF Card(parts) = 1 THEN CHOOSE p \in parts : TRUE ELSE [t |-> 0, k |-> parts]
TopologyR(g, L) ==
    IF Card(L) <= 1 THEN Degenerate(L, IsRooted(g))
    ELSE IF IsRooted(g) THEN CanonR(g, g.seed, L)
    ELSE LET r == CHOOSE x \in Leaves(g) : g.tx[x] = Min(L)
         IN UpCanonR(g, g.par[r], r, L)

TopologyB(g) == IF Card(TreeTx(g)) <= 1 THEN Degenerate(TreeTx(g), IsRooted(g)) ELSE Topology(g)

\* ------------------------------------------------------------------ reconstruction (greedy insertion into a star)
RECURSIVE SetToSeq(_)
SetToSeq(S) == IF S = {} THEN <<>> ELSE LET x == CHOOSE x \in S : TRUE IN <<x>> \o SetToSeq(S \ {x})
RECURSIVE AscSeq(_)
AscSeq(S) == IF S = {} THEN <<>> ELSE <<Min(S)>> \o AscSeq(S \ {Min(S)})

CompatClade(a, b) == a \cap b = {} \/ a \subseteq b \/ b \subseteq a
\* a mask as handed in -> the clade to insert (rooted: as is; unrooted: the side without the lowest member)
Prep(s, M, rooted) == LET m == s \cap M IN IF rooted \/ M = {} THEN m ELSE IF Min(M) \in m THEN M \ m ELSE m
Wanted(m, M) == m # M /\ Card(m) >= 2
RECURSIVE Greedy(_, _, _, _)
Greedy(q, i, M, acc) ==
    IF i > Len(q) THEN acc
    ELSE Greedy(q, i + 1, M, IF Wanted(q[i], M) /\ (\A c \in acc : CompatClade(c, q[i])) THEN acc \cup {q[i]} ELSE acc)
FromSplitsClades(q, M, rooted) == Greedy([i \in 1..Len(q) |-> Prep(q[i], M, rooted)], 1, M, {})

\* graph form of the tree with root M, the clades C (laminar, each with >= 2 taxa, # M) and one leaf per member
TreeOfClades(C, M, rooted) ==
    LET cs == SetToSeq(C)
        ms == AscSeq(M)
        nc == Len(cs)
        n == 1 + nc + Len(ms)
        setOf(i) == IF i = 1 THEN M ELSE IF i <= 1 + nc THEN cs[i - 1] ELSE {ms[i - 1 - nc]}
        parOf(i) == IF i = 1 THEN 0
                    ELSE LET sup == {j \in 2..(1 + nc) : j # i /\ setOf(i) \subseteq setOf(j)}
                         IN IF sup = {} THEN 1
                            ELSE CHOOSE j \in sup : \A j2 \in sup : Card(setOf(j)) <= Card(setOf(j2))
        p == [i \in 1..n |-> parOf(i)]
    IN [n |-> n, seed |-> 1, kids |-> KidsOfParents(p), par |-> p,
        eh |-> [x \in 1..n |-> x], eid |-> [x \in 1..n |-> x],
        tx |-> [x \in 1..n |-> IF x > 1 + nc THEN ms[x - 1 - nc] ELSE 0],
        len |-> [x \in 1..n |-> -1], lab |-> [x \in 1..n |-> ""], rooted |-> IF rooted THEN 1 ELSE 0]
FromSplits(q, M, rooted) == TreeOfClades(FromSplitsClades(q, M, rooted), M, rooted)

PermsOfSet(S) == {f \in [1..Card(S) -> S] : \A i, j \in 1..Card(S) : i # j => f[i] # f[j]}
\* FromSplits drops every mask that is not Wanted before it does anything else, so the orderings of a
\* whole encoding induce exactly the orderings of its wanted masks
WantedSplits(g, M) == {s \in SplitSetB(g) : Wanted(Prep(s, M, IsRooted(g)), M)}

\* ------------------------------------------------------------------ predicates on bipartitions
\* set-theoretic definitions; F = taxa of the tree the bipartition belongs to
Trivial(m, F) == Card(m \cap F) <= 1 \/ Card(F \ m) <= 1
\* a rooted bipartition is a clade: two clades fit in one tree iff disjoint or nested;
\* an unrooted one is a split A | F\A: two splits fit iff one of the four intersections is empty
Compatible(a, b, F, rooted) ==
    LET A == a \cap F  B == b \cap F IN
    IF rooted THEN CompatClade(A, B)
    ELSE A \cap B = {} \/ A \subseteq B \/ B \subseteq A \/ A \cup B = F
LeafsetNested(la, lb) == la \subseteq lb
TreeCompatible(S, b, F, rooted) == \A s \in S : Compatible(s, b, F, rooted)

\* the bitwise formulations used by the library (&, |, ^, ~ as set operations within F)
SymDiff(a, b) == (a \ b) \cup (b \ a)
TrivialBitwise(m, F) ==
    LET ms == m \cap F  cm == F \ m IN m = {} \/ m = F \/ Card(ms) <= 1 \/ Card(cm) <= 1
CompatibleBitwise(a, b, F) ==
    LET m1 == IF F # {} THEN a \cap F ELSE a
        m2 == IF F # {} THEN b \cap F ELSE b
        c2 == SymDiff(m1, m2)
        c1 == SymDiff(F, m1)
    IN m1 \cap m2 = {} \/ m1 \cap c2 = {} \/ c1 \cap m2 = {} \/ c1 \cap c2 = {}
NestedBitwise(la, lb, F) == ((lb \cap F) \cap la) = la

\* ------------------------------------------------------------------ per-tree theorems (checked by MC_Bipartitions)
\* (1) the split set is a function of the topology and (2) the topology is a function of the split
\* set: together, for ANY two trees with the same leaf taxa and rooting,
\*      SplitSet(t1) = SplitSet(t2)  <=>  Topology(t1) = Topology(t2)
TopologyDeterminesSplits(g) == SplitsFromTopo(TopologyB(g), IsRooted(g)) = SplitSetB(g)
SplitsDetermineTopology(g) == TopoFromSplits(SplitSetB(g), TreeTx(g), IsRooted(g)) = TopologyB(g)
RestrictionIsConservative(g) == TopologyR(g, TreeTx(g)) = TopologyB(g)

\* (3) reconstruction from the encoding in any order, over a namespace M that contains the tree's taxa
ReconstructionAnyOrder(g, M) ==
    LET top == TopologyB(g)  L == TreeTx(g)  W == WantedSplits(g, M) IN
    \A q \in PermsOfSet(W) :
       LET r == FromSplits(q, M, IsRooted(g)) IN
       /\ WellFormed(r)
       /\ LeafTaxaBag(r) = [m \in M |-> 1]
       /\ TopologyR(r, L) = top
       /\ (M = L => TopologyB(r) = top)
\* trivial masks never matter
ReconstructionIgnoresOrderOfAll(g, M) ==
    LET all == SetToSeq(SplitSetB(g))
        rev == [i \in 1..Len(all) |-> all[Len(all) + 1 - i]]
    IN /\ TopologyR(FromSplits(all, M, IsRooted(g)), TreeTx(g)) = TopologyB(g)
       /\ TopologyR(FromSplits(rev, M, IsRooted(g)), TreeTx(g)) = TopologyB(g)

\* (4) predicates: on the splits of one tree
StarSplits(L, rooted) == IF rooted THEN {{m} : m \in L} \cup {L}
                         ELSE {NormB({m}, L) : m \in L} \cup {{}}
PredicatesOnOneTree(g) ==
    LET F == TreeTx(g)  r == IsRooted(g)
        lt == TLCEval([x \in Nodes(g) |-> LeafTx(g, x)])          \* TLCEval: evaluate once, not per use
        sp == TLCEval([x \in Nodes(g) |-> SplitOfB(g, x)])
        SS == {sp[x] : x \in Nodes(g)}
    IN
    /\ \A x, y \in Nodes(g) : Compatible(sp[x], sp[y], F, r)
    /\ \A x \in Nodes(g) : TreeCompatible(SS, sp[x], F, r)
    /\ \A x \in Leaves(g) \cup {g.seed} : Trivial(sp[x], F)
    \* an unrooted split is trivial iff every tree on these taxa has it (= the star has it)
    /\ (~r => \A x \in Nodes(g) : Trivial(sp[x], F) <=> sp[x] \in StarSplits(F, FALSE))
    /\ \A x \in Nodes(g) : Trivial(sp[x], F) = TrivialBitwise(sp[x], F)
    /\ \A x, y \in Nodes(g) : LeafsetNested(lt[x], lt[y]) <=> (y \in SeqToSet(AncOrSelf(g, x)) \/ lt[x] = lt[y] \/ lt[x] = {})

\* (5) on two trees with the same taxa and rooting
PairIff(g1, g2) == (SplitSetB(g1) = SplitSetB(g2)) <=> (TopologyB(g1) = TopologyB(g2))
PairPredicates(g1, g2) ==
    LET F == TreeTx(g1)  r == IsRooted(g1)
        lt1 == TLCEval([x \in Nodes(g1) |-> LeafTx(g1, x)])  lt2 == TLCEval([x \in Nodes(g2) |-> LeafTx(g2, x)])
        sp1 == TLCEval([x \in Nodes(g1) |-> SplitOfB(g1, x)])  sp2 == TLCEval([x \in Nodes(g2) |-> SplitOfB(g2, x)])
        SS1 == {sp1[x] : x \in Nodes(g1)}  SS2 == {sp2[x] : x \in Nodes(g2)}
    IN
    /\ \A x \in Nodes(g1), y \in Nodes(g2) :
         /\ Compatible(sp1[x], sp2[y], F, r) = CompatibleBitwise(sp1[x], sp2[y], F)
         /\ LeafsetNested(lt1[x], lt2[y]) = NestedBitwise(lt1[x], lt2[y], F)
    \* all splits mutually compatible <=> greedy insertion of both encodings keeps every split
    /\ LET q == SetToSeq(SS1) \o SetToSeq(SS2)
           want == {Prep(s, F, r) : s \in {z \in SS1 \cup SS2 : Wanted(Prep(z, F, r), F)}}
       IN (\A s2 \in SS2 : TreeCompatible(SS1, s2, F, r)) <=> (FromSplitsClades(q, F, r) = want)
=============================================================================
