SPECIFICATION Spec
CONSTANTS
  N = 4
  MaxTrees = 3
  NW = 1
  NT = 5
  Observe = FALSE
  ObserveFrom = 1
  TrackDist = FALSE
  TrackOperand = FALSE
  AdoptLists = FALSE
  BookkeepFirst = FALSE
  CacheChecksCount = TRUE
INVARIANT GraphAgrees
CHECK_DEADLOCK FALSE
