SPECIFICATION Spec
CONSTANTS
  N = 4
  MaxTrees = 3
  NW = 1
  NT = 5
  Observe = FALSE
  ObserveFrom = 1
  CacheChecksCount = TRUE
INVARIANT CacheFresh
INVARIANT GraphAgrees
INVARIANT FreqExact
INVARIANT MergeExact
INVARIANT ObservedOK
INVARIANT SummariesSane
CHECK_DEADLOCK FALSE
