SPECIFICATION Spec
CONSTANTS
  MaxLeaves = 5
  FullN = 5
  MidN = 6
  MidUnif = 0
  RedN = 8
  RedUnif = 0
  RandN = 9
  RandUnif = 1
  RandK = 100
INVARIANT Sound
CHECK_DEADLOCK FALSE
