SPECIFICATION Spec
CONSTANTS
  MaxLeaves = 4
  FullN = 5
  MidN = 5
  MidUnif = 0
  RedN = 7
  RedUnif = 0
  RandN = 7
  RandUnif = 1
  RandK = 40
INVARIANT Sound
CHECK_DEADLOCK FALSE
