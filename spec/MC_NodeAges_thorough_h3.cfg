SPECIFICATION Spec
CONSTANTS
  MaxLeaves = 6
  MaxH = 3
  HU = 4
  Precs = {1, 2, 4}
  MaxUnif = 0
  MaxPert = 0
  PertUnif = 0
  PertMaxH = 3
INVARIANTS DefsSound UltrametricByConstruction ThresholdExact ShippedComplete ShippedSound ForcedAgesRealisable LineagesSound StatsSound ChildOrderFree
CHECK_DEADLOCK FALSE
