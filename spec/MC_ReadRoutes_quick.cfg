SPECIFICATION Spec
CONSTANTS
  TreeGetKeepsSourceName = TRUE
  NexmlListRoutesReuseTaxa = TRUE
  MaxBlocks = 2
  MaxStmts = 2
  PoolSize = 3
  CharsAt = {1}
INVARIANTS RoutesAgree FrontEnds Names Taxa Matrices
CHECK_DEADLOCK FALSE
