SPECIFICATION Spec
CONSTANTS
  Quick = FALSE
  MaxLen = 5
  PumpK = 6
  RecLimit = 100000
  GenSteps = 0
INVARIANTS OutcomeDocumented DepthIsNesting NestNonNegative NoTreeLost
PROPERTY Termination
CHECK_DEADLOCK FALSE
