----------------------------- MODULE MC_Restrict -----------------------------
(* Bounded model for C08.                                                   *)
(* Domain: every ordered tree with at most MaxN nodes and at most MaxL      *)
(* leaves (polytomies, unifurcations, unifurcating seeds, chains) x every   *)
(* non-empty subset S of its taxa x both settings of suppress x the edge    *)
(* length patterns LenPats (None / 0 / distinct positive values).           *)
(*                                                                          *)
(* SpecDef : initial states only.  TLC checks DefSound (the property stated *)
(*           on the definition Restrict) and dumps the domain, which the    *)
(*           harness replays into every real API variant.                   *)
(* SpecLoop: from every initial state the pruning loop runs one step at a   *)
(*           time in every order (remove a dead leaf | suppress a           *)
(*           unifurcation); every terminal state must equal Restrict        *)
(*           (confluence) and every step removes exactly one node           *)
(*           (termination).                                                 *)
EXTENDS Restrict
CONSTANTS MaxN, MaxL, LenPats, Shipped
VARIABLES g, S, sup, cur
vars == <<g, S, sup, cur>>
LScale == 4

\* preorder parent arrays built incrementally: the parent of node n is n-1 or an ancestor of n-1
RECURSIVE PArr(_)
PArr(n) == IF n = 1 THEN {<<0>>}
           ELSE UNION {{Append(p, a) : a \in AncOfIn(p, n - 1)} : p \in PArr(n - 1)}

\* edge length patterns (scaled by LScale; -1 = None); the seed edge has a length in 1, 3
LenPat(k, n) ==
    CASE k = 1 -> [x \in 1..n |-> LScale * x]                                        \* all distinct, positive
      [] k = 2 -> [x \in 1..n |-> -1]                                                \* no lengths at all
      [] k = 3 -> [x \in 1..n |-> IF x % 3 = 0 THEN -1 ELSE IF x % 3 = 1 THEN 0 ELSE LScale * x]   \* seed 0
      [] k = 4 -> [x \in 1..n |-> IF x % 2 = 1 THEN -1 ELSE LScale * (x \div 2)]     \* seed None, every other None

\* Two-level enumeration (so that TLC's workers share the work): an initial state is a bare
\* tree shape (S = {}), the step Pick chooses the subset, the suppress setting and the length
\* pattern.  Everything below is stated about the states with S # {}.
Init == \E n \in 1..MaxN : \E p \in PArr(n) :
          LET nl == NumLeavesOfParents(p) IN
          /\ nl <= MaxL
          /\ g = MkTree(p, [i \in 1..nl |-> i], LenPat(2, n), 1)
          /\ S = {} /\ sup = FALSE
          /\ cur = Core(Sparse(g))
Picked == S # {}
Pick == /\ ~Picked
        /\ \E k \in LenPats : \E b \in BOOLEAN : \E T \in (SUBSET AllTx(g)) \ {{}} :
             /\ g' = [g EXCEPT !.len = LenPat(k, g.n)]
             /\ S' = T /\ sup' = b
             /\ cur' = Core(Sparse(g'))

Remove(x) == /\ Picked /\ CanRemove(g, cur, x, S)
             /\ cur' = StepRemove(cur, x)
             /\ UNCHANGED <<g, S, sup>>
Suppress(x) == /\ Picked /\ sup /\ CanSuppress(cur, x)
               /\ cur' = StepSuppress(cur, x)
               /\ UNCHANGED <<g, S, sup>>
NextLoop == Pick \/ \E x \in 1..MaxN : Remove(x) \/ Suppress(x)
SpecLoop == Init /\ [][NextLoop]_vars
SpecDef == Init /\ [][Pick]_vars

Terminal == \A x \in 1..g.n : ~CanRemove(g, cur, x, S) /\ ~(sup /\ CanSuppress(cur, x))

\* ---- SpecDef
Sound == Picked => WellFormed(g) /\ DefSound(g, S, sup)
VariantsAgree == Picked => VariantsAgreeModel(g, S, sup, Shipped)
\* ---- SpecLoop
Confluent == Picked /\ Terminal => cur = Core(Restrict(g, S, sup))
LoopWF == Picked => SparseWF(cur) /\ (\A t \in S : \E x \in cur.live : cur.kids[x] = <<>> /\ g.tx[x] = t)
\* every survivor's distance from the top is invariant under every single step
StepKeepsDist == Picked => \A x \in cur.live : (cur.kids[x] = <<>> /\ g.tx[x] \in S) =>
                    TopAcc([par |-> cur.par, len |-> cur.len], x) = TopAcc(g, x)
Shrinks == [][Picked => Cardinality(cur'.live) = Cardinality(cur.live) - 1]_vars
=============================================================================
