"""C06 helpers: projection of a real TreeArray, tree construction from the
model's catalogue, a reader-free Newick serialiser for the temporary tree
files, and the deterministic baton scheduler that replaces the
multiprocessing queues / Process.start of SumTrees by thread based,
pickle-round-tripping shims (DESIGN 1.3).  No oracle here: everything is
either object construction or a projection of observed values.
"""
import math
import pickle
import queue
import threading

from . import proj

WSCALE = 2
EMPTY_G = {"n": 0, "seed": 0, "kids": [], "par": [], "eh": [], "eid": [], "tx": [], "len": [], "lab": [], "rooted": -1}


# ----------------------------------------------------------------------------- construction
def nested_of_graph(g):
    """graph form (as TLC prints it: 1-based ids) -> nested form of vlib/build.py"""
    def mk(x):
        kids = [mk(c) for c in g["kids"][x - 1]]
        tx = g["tx"][x - 1]
        ln = g["len"][x - 1]
        return [None, (tx - 1) if tx > 0 else None, (None if ln < 0 else ln / float(proj.LSCALE)), kids]
    return mk(g["seed"])


def rooted_arg(r):
    return {-1: None, 0: False, 1: True}[r]


def weight_arg(w):
    return None if w < 0 else w / float(WSCALE)


def newick_of_nested(nested, r, w, labels):
    """Newick statement for a nested tree: rooting token from r (-1: none), weight comment from w (scaled, -1: none)"""
    def rec(nd):
        lab, tx, ln, kids = nd
        s = "(" + ",".join(rec(k) for k in kids) + ")" if kids else labels[tx]
        if ln is not None:
            s += ":%s" % (int(ln) if float(ln).is_integer() else repr(float(ln)))
        return s
    pre = {-1: "", 0: "[&U] ", 1: "[&R] "}[r]
    if w >= 0:
        pre += "[&W %d/%d] " % (w, WSCALE)
    return pre + rec(nested) + ";"


# ----------------------------------------------------------------------------- projection
def _sc(v, scale):
    return proj.scaled_len(v, scale)


class LabelCodes(object):
    """taxon codes for namespaces that SumTrees builds itself from the files: the number in the label "T<k>"
    (the harness names the taxa of the temporary files T1, T2, ...); purely syntactic"""

    def __init__(self, ns):
        self.bit = {}
        for t in ns:
            self.bit[int(ns.accession_index(t))] = self.code(t)

    @staticmethod
    def code(t):
        if t is None:
            return 0
        lab = t.label
        return int(lab[1:]) if isinstance(lab, str) and lab[:1] == "T" and lab[1:].isdigit() else 999

    def of_mask(self, m):
        return sorted(self.bit.get(b, 900 + b) for b in proj.bits(m))


def proj_array(ta, codes=None):
    """raw attributes of a TreeArray -> abstract JSON state (spec/TreeArrayJudge.tla)"""
    _codes = codes.of_mask if codes is not None else proj.codes_of_mask
    sd = ta._split_distribution
    r = ta._is_rooted_trees
    counts = [[_codes(s), _sc(c, WSCALE)] for s, c in sd.split_counts.items()]
    lens = [[_codes(s), sorted(_sc(v, proj.LSCALE) for v in vs)] for s, vs in sd.split_edge_lengths.items() if vs]
    ages = [[_codes(s), sorted(_sc(v, proj.LSCALE) for v in vs)] for s, vs in sd.split_node_ages.items() if vs]
    return {
        "rooting": -1 if r is None else (1 if r else 0),
        "set": {"iel": bool(ta.ignore_edge_lengths), "ina": bool(ta.ignore_node_ages), "utw": bool(ta.use_tree_weights)},
        "dset": {"iel": bool(sd.ignore_edge_lengths), "ina": bool(sd.ignore_node_ages)},      # the embedded distribution's own settings
        "n": [len(ta._tree_split_bitmasks), len(ta._tree_edge_lengths), len(ta._tree_leafset_bitmasks), len(ta._tree_weights)],
        "splits": [[_codes(s) for s in tup] for tup in ta._tree_split_bitmasks],
        "lens": [[_sc(v, proj.LSCALE) for v in tup] for tup in ta._tree_edge_lengths],
        "leafsets": [_codes(m) for m in ta._tree_leafset_bitmasks],
        "weights": [_sc(w, WSCALE) for w in ta._tree_weights],
        "dist": {"n": int(sd.total_trees_counted), "sumW": _sc(sd.sum_of_tree_weights, WSCALE),
                 "counts": sorted(counts), "lens": sorted(lens), "ages": sorted(ages),
                 "roots": sorted(bool(x) for x in sd.tree_rooting_types_counted)},
    }


def rat_exp(x, max_den=4 * 10 ** 6):
    """log-score -> the product it is the logarithm of, as [num, den, exact?] (DESIGN 5: logarithms are outside TLC)"""
    try:
        return proj.rat(math.exp(x), max_den)
    except Exception:
        return [0, 0, False]


def _name(ex):
    return type(ex).__name__


def _summary(obj, prefix):
    """[present, mean, median, lo, hi] of the length_* / age_* attributes (values in units of 1/LSCALE)"""
    mean = getattr(obj, prefix + "_mean", None)
    med = getattr(obj, prefix + "_median", None)
    rng = getattr(obj, prefix + "_range", None)
    if mean is None or med is None or not isinstance(rng, (list, tuple)) or len(rng) != 2:
        return [False, [0, 0, False], [0, 0, False], -1, -1]
    try:
        return [True, proj.rat(float(mean) * proj.LSCALE), proj.rat(float(med) * proj.LSCALE),
                _sc(rng[0], proj.LSCALE), _sc(rng[1], proj.LSCALE)]
    except Exception:
        return [False, [0, 0, False], [0, 0, False], -1, -1]


def queries(ta, codes=None):
    """the per-tree and summary queries of the property, each with its own outcome"""
    _codes = codes.of_mask if codes is not None else proj.codes_of_mask
    out = {}
    try:
        c = ta.consensus_tree()
        ids = {}
        g = proj.tree_graph(c, node_ids=ids, codes=codes)
        order = ids.pop("__order__")
        sup = []
        for nd in order:
            v = nd.annotations.get_value("support", None)
            sup.append(proj.rat(float(v)) if v is not None else [0, 0, False])
        # what the summariser wrote from the per-split multisets: length_* on the edges, age_* on the nodes
        out["cons"] = {"raised": "", "g": g, "sup": sup,
                       "esum": [_summary(nd.edge, "length") for nd in order],
                       "asum": [_summary(nd, "age") for nd in order]}
    except Exception as ex:
        out["cons"] = {"raised": _name(ex), "g": EMPTY_G, "sup": [], "esum": [], "asum": []}
    try:
        # a threshold below 1/2: the greedy consensus has to choose among incompatible splits (ties included)
        out["conslow"] = {"raised": "", "g": proj.tree_graph(ta.consensus_tree(min_freq=0.25, summarize_splits=False), codes=codes)}
    except Exception as ex:
        out["conslow"] = {"raised": _name(ex), "g": EMPTY_G}
    try:
        scores, mx = ta.calculate_log_product_of_split_supports()
        out["scores"] = {"raised": "", "vals": [rat_exp(s) for s in scores], "maxidx": -1 if mx is None else int(mx)}
    except Exception as ex:
        out["scores"] = {"raised": _name(ex), "vals": [], "maxidx": -1}
    try:
        m = ta.maximum_product_of_split_support_tree()
        out["mcct"] = {"raised": "", "g": proj.tree_graph(m, codes=codes), "score": rat_exp(m.log_product_of_split_support)}
    except Exception as ex:
        out["mcct"] = {"raised": _name(ex), "g": EMPTY_G, "score": [0, 0, False]}
    try:
        fr = ta.split_bitmask_set_frequencies()
        out["topo"] = {"raised": "", "freqs": sorted([sorted(_codes(s) for s in k), proj.rat(v)] for k, v in fr.items())}
    except Exception as ex:
        out["topo"] = {"raised": _name(ex), "freqs": []}
    return out


# ----------------------------------------------------------------------------- deterministic scheduler
class _Abort(BaseException):
    """unwinds a participant thread when a run is abandoned (deadlock)"""


class Baton(object):
    """At most one participant thread runs at a time.  A participant calls
    sync(op) before every queue / start operation and blocks until the
    controller grants it the baton; the controller grants one participant and
    waits until that participant blocks again or finishes."""

    def __init__(self):
        self.cv = threading.Condition()
        self.state = {}        # proc -> "run" | "wait" | "done"
        self.pending = {}      # proc -> (op, queue) it is waiting to perform
        self.granted = None
        self.abort = False
        self.log = []          # operations actually performed, in order
        self.tls = threading.local()
        self.threads = {}

    # participant side
    def me(self):
        return getattr(self.tls, "proc", None)

    def sync(self, op, q=None):
        p = self.me()
        if p is None:           # not a participant (controller building things): no scheduling
            return
        with self.cv:
            self.state[p] = "wait"
            self.pending[p] = (op, q)
            self.cv.notify_all()
            while self.granted != p and not self.abort:
                self.cv.wait()
            if self.abort:
                raise _Abort()
            self.granted = None
            self.state[p] = "run"
            self.pending.pop(p, None)

    def spawn(self, proc, target):
        def body():
            self.tls.proc = proc
            try:
                target()
            except _Abort:
                pass
            finally:
                with self.cv:
                    self.state[proc] = "done"
                    self.pending.pop(proc, None)
                    self.cv.notify_all()
        t = threading.Thread(target=body, name="c06-%s" % (proc,))
        t.daemon = True
        with self.cv:
            self.state[proc] = "run"
        self.threads[proc] = t
        t.start()
        # the new participant runs up to its first operation; the starter waits for that
        with self.cv:
            while self.state[proc] == "run":
                self.cv.wait()

    # controller side
    def quiesce(self):
        with self.cv:
            while any(s == "run" for s in self.state.values()):
                self.cv.wait()

    def grant(self, proc):
        with self.cv:
            assert self.state.get(proc) == "wait", (proc, self.state)
            self.granted = proc
            self.state[proc] = "run"
            self.cv.notify_all()
        self.quiesce()

    def abandon(self):
        with self.cv:
            self.abort = True
            self.cv.notify_all()
        for t in self.threads.values():
            t.join(10)


class ShimQueue(object):
    """multiprocessing.Queue stand-in: objects are pickled on put and unpickled
    on get (as the real queue does); with `asynchronous`, a put only reaches
    the pipe - where get / get_nowait look - after a separate flush step (the
    feeder thread of the real queue)."""

    def __init__(self, baton, role, asynchronous, files=()):
        self.b = baton
        self.role = role
        self.files = dict((f, i + 1) for i, f in enumerate(files))
        self.asynchronous = asynchronous
        self.buffer = []
        self.pipe = []
        self.nput = 0

    def put(self, obj, block=True, timeout=None):
        self.b.sync("put", self)
        num = -3
        if isinstance(obj, str):        # a tree source: numbered in the order of the puts (the same path may be listed twice)
            self.nput += 1
            num = self.nput
        data = (pickle.dumps(obj, pickle.HIGHEST_PROTOCOL), num)
        (self.buffer if self.asynchronous else self.pipe).append(data)
        self._log("put", obj, num)

    def flush(self):
        """controller only: one step of the feeder thread"""
        self.pipe.append(self.buffer.pop(0))
        self.b.log.append({"p": 100, "op": "flush", "q": self.role, "v": 0, "n": -1, "r": -2})

    def get_nowait(self):
        return self.get(block=False)

    def get(self, block=True, timeout=None):
        op = "get" if block else "get_nowait"
        self.b.sync(op, self)
        if not self.pipe:
            if block:
                raise AssertionError("scheduler granted a blocking get on an empty pipe")
            self.b.log.append({"p": self.b.me(), "op": op, "q": self.role, "v": -1, "n": -1, "r": -2})
            raise queue.Empty
        data, num = self.pipe.pop(0)
        obj = pickle.loads(data)
        self._log(op, obj, num)
        return obj

    def _log(self, op, obj, num=-3):
        """what travelled through the queue: file number / sentinel on the work queue; worker number, number of
        trees and rooting of the array on the results queue"""
        v, n, r = -3, -1, -2
        if obj is None:
            v = 0
        elif isinstance(obj, str):
            v = num
        elif isinstance(obj, BaseException):
            v = -2
        elif hasattr(obj, "_tree_split_bitmasks"):
            name = str(getattr(obj, "worker_name", ""))
            v = int(name.rsplit("-", 1)[-1]) if name.rsplit("-", 1)[-1].isdigit() else -3
            n = len(obj._tree_split_bitmasks)
            r = -1 if obj._is_rooted_trees is None else (1 if obj._is_rooted_trees else 0)
        self.b.log.append({"p": self.b.me(), "op": op, "q": self.role, "v": v, "n": n, "r": r})

    def empty(self):
        return not self.pipe

    def qsize(self):
        return len(self.pipe)

    def close(self):
        pass

    def join_thread(self):
        pass

    def cancel_join_thread(self):
        pass


class ShimMP(object):
    """stands in for the name `multiprocessing` inside dendropy.application.sumtrees"""

    def __init__(self, baton, asynchronous, real, files=()):
        self._b = baton
        self._async = asynchronous
        self._real = real
        self._files = files
        self.queues = []

    def Queue(self, *a, **k):
        role = "work" if not self.queues else ("results" if len(self.queues) == 1 else "q%d" % len(self.queues))
        # only the work queue is polled with get_nowait; the results queue is read with a blocking get
        q = ShimQueue(self._b, role, self._async and role == "work", self._files)
        self.queues.append(q)
        return q

    def Lock(self, *a, **k):
        return threading.Lock()

    def cpu_count(self):
        return self._real.cpu_count()

    def __getattr__(self, name):
        return getattr(self._real, name)


class ParallelRun(object):
    """One execution of the real TreeProcessor.parallel_analyze_trees under a given schedule.

    schedule: list of process names ("main", "feeder", "w1", ...) - who moves next.  An entry whose process
    cannot move (not started, finished, blocked on an empty queue) is skipped; when the list is exhausted
    the run is completed with a fixed policy (feeder, then workers in order, then main)."""

    def __init__(self, sumtrees, asynchronous=True):
        self.st = sumtrees
        self.asynchronous = asynchronous

    def run(self, tp, files, schema, tree_offset, schedule, policy="fifo"):
        st = self.st
        b = Baton()
        mp = ShimMP(b, self.asynchronous, st.multiprocessing, files)
        worker_cls = st.TreeAnalysisWorker
        saved = (st.multiprocessing, worker_cls.__dict__.get("start"), worker_cls.__dict__.get("terminate"))
        out = {}

        def w_start(w):
            idx = int(str(w.name).rsplit("-", 1)[-1])
            b.sync("start", None)
            b.log.append({"p": 0, "op": "start", "q": "", "v": idx, "n": -1, "r": -2})

            def body():
                try:
                    w.run()
                except _Abort:
                    raise
                except BaseException as ex:       # a real child process would die with a traceback
                    out.setdefault("worker_crashes", []).append("w%d:%s" % (idx, type(ex).__name__))
            b.spawn(idx, body)

        def w_terminate(w):
            w.kill_received = True

        def main_body():
            try:
                out["result"] = tp.parallel_analyze_trees(tree_sources=files, schema=schema, tree_offset=tree_offset)
                out["raised"] = ""
            except _Abort:
                raise
            except BaseException as ex:
                out["raised"] = type(ex).__name__
                out["message"] = str(ex)[:200]

        st.multiprocessing = mp
        worker_cls.start = w_start
        worker_cls.terminate = w_terminate
        skipped = 0
        try:
            b.spawn(0, main_body)
            sched = list(schedule)
            pos = 0
            outcome = "finished"
            guard = 0
            while b.state.get(0) != "done":
                guard += 1
                if guard > 10000:
                    outcome = "livelock"
                    break
                ready = self._ready(b, mp)
                if not ready:
                    outcome = "deadlock"
                    break
                choice = None
                while pos < len(sched):
                    c = sched[pos]
                    pos += 1
                    if c in ready:
                        choice = c
                        break
                    skipped += 1
                if choice is None:
                    choice = ready[0] if policy == "fifo" else ready[-1]
                if choice == "feeder":
                    mp.queues[0].flush()
                else:
                    b.grant(0 if choice == "main" else int(choice[1:]))
            # workers that are still waiting (main raised) are abandoned, as terminate() does to real processes
            out["outcome"] = outcome
        finally:
            b.abandon()
            st.multiprocessing = saved[0]
            for name, val in (("start", saved[1]), ("terminate", saved[2])):
                if val is None:
                    try:
                        delattr(worker_cls, name)
                    except AttributeError:
                        pass
                else:
                    setattr(worker_cls, name, val)
        out["log"] = b.log
        out["skipped"] = skipped
        out["unused"] = max(0, len(schedule) - pos) if out.get("outcome") == "finished" else 0
        return out

    @staticmethod
    def _ready(b, mp):
        """processes that can move now, in the fixed policy order"""
        ready = []
        wq = mp.queues[0] if mp.queues else None
        if wq is not None and wq.buffer:
            ready.append("feeder")
        procs = sorted(p for p, s in b.state.items() if s == "wait")
        for p in [x for x in procs if x != 0] + [x for x in procs if x == 0]:
            op, q = b.pending[p]
            if op == "get" and not q.pipe:
                continue
            ready.append("main" if p == 0 else "w%d" % p)
        return ready


# ----------------------------------------------------------------------------- TLC state graphs
import re as _re
from collections import deque as _deque
from . import tlaval as _tlaval

_EDGE = _re.compile(r'^(-?\d+) -> (-?\d+) \[label="((?:[^"\\]|\\.)*)"')
_NODE = _re.compile(r'^(-?\d+) \[label="((?:[^"\\]|\\.)*)"(,style = filled)?')
_INTERVAL = _re.compile(r"(?<![\w.])(-?\d+)\.\.(-?\d+)")


def read_dot(path):
    """like tlaval.read_dot, but TLC's interval sets (1..3) in state labels are expanded first and
    parallel duplicate edges are dropped.  Only initial states are parsed."""
    inits, edges, states, seen = [], [], {}, set()
    with open(path) as f:
        for line in f:
            m = _EDGE.match(line)
            if m:
                key = (m.group(1), m.group(2), m.group(3))
                if key in seen:
                    continue
                seen.add(key)
                lbl = m.group(3).replace('\\"', '"').replace("\\\\", "\\")
                name, args = _tlaval.parse_action_label(lbl)
                edges.append((m.group(1), m.group(2), name, args))
                continue
            m = _NODE.match(line)
            if m and m.group(3) and m.group(1) not in states:
                inits.append(m.group(1))
                txt = m.group(2).replace("\\n", "\n").replace('\\"', '"').replace("\\\\", "\\")
                txt = _INTERVAL.sub(lambda mm: "{" + ", ".join(str(i) for i in range(int(mm.group(1)), int(mm.group(2)) + 1)) + "}", txt)
                states[m.group(1)] = _tlaval.parse_state(txt)
    return inits, edges, states


def graph_of(inits, edges):
    adj = {}
    for (u, v, a, args) in edges:
        adj.setdefault(u, []).append((v, a, args))
    pred, root = {}, dict((i, i) for i in inits)
    dq = _deque(inits)
    order = []
    while dq:
        u = dq.popleft()
        order.append(u)
        for (v, a, args) in adj.get(u, ()):
            if v not in root:
                root[v] = root[u]
                pred[v] = (u, a, args)
                dq.append(v)
    return adj, pred, root, order


def count_paths(inits, adj):
    """number of maximal paths from each initial state (the graphs here are acyclic)"""
    memo = {}
    for i in inits:
        stack = [(i, False)]
        while stack:
            u, done = stack.pop()
            if u in memo:
                continue
            succ = adj.get(u, ())
            if done or not succ:
                memo[u] = sum(memo[v] for (v, _, _) in succ) if succ else 1
                continue
            stack.append((u, True))
            for (v, _, _) in succ:
                if v not in memo:
                    stack.append((v, False))
    return dict((i, memo[i]) for i in inits)


def all_paths(i, adj, cap):
    """every maximal path from i as a list of (action, args); at most cap"""
    out = []
    stack = [(i, [])]
    while stack and len(out) < cap:
        u, p = stack.pop()
        succ = adj.get(u, ())
        if not succ:
            out.append((i, p))
            continue
        for (v, a, args) in succ:
            stack.append((v, p + [(a, args)]))
    return out


def edge_cover(inits, adj, pred, root, order, maximal=True):
    """paths from an initial state such that every edge lies on at least one of them: shortest path to the
    source of a not yet covered edge, that edge, then onwards through not yet covered edges (to a terminal
    state when `maximal`).  Returns [(init, [(action, args), ...])]."""
    covered = set()
    paths = []
    for u in order:
        for e in adj.get(u, ()):
            if (u, e[0], e[1], tuple(map(str, e[2]))) in covered:
                continue
            pre = []
            x = u
            while x in pred:
                p, a, args = pred[x]
                pre.append((p, x, a, args))
                x = p
            pre.reverse()
            path = pre + [(u, e[0], e[1], e[2])]
            x = e[0]
            while x in adj:
                nxt = None
                for f in adj[x]:
                    if (x, f[0], f[1], tuple(map(str, f[2]))) not in covered:
                        nxt = f
                        break
                if nxt is None:
                    if not maximal:
                        break
                    nxt = adj[x][0]
                path.append((x, nxt[0], nxt[1], nxt[2]))
                x = nxt[0]
            for (a, b, c, d) in path:
                covered.add((a, b, c, tuple(map(str, d))))
            paths.append((root[u], [(c, d) for (_, _, c, d) in path]))
    return paths


def random_paths(inits, adj, rng, n):
    out = []
    for _ in range(n):
        i = rng.choice(inits)
        u, p = i, []
        while u in adj:
            v, a, args = rng.choice(adj[u])
            p.append((a, args))
            u = v
        out.append((i, p))
    return out
