"""C20 helper: rendering of TLC-generated token sequences to text, the reader
entry points, execution under the step budget, and *projection* of what
happened (outcome class, exception MRO names, call site, raw pointer graphs of
returned trees, row lengths of returned matrices).

No oracle lives here: nothing in this file decides whether an outcome is
acceptable.  That is done by TLC on spec/Trace_Readers.tla.
"""
import io
import sys

from . import proj
from .budget import run_with_budget, StepBudgetExceeded

TREE_NODE_CAP = 300      # trees with more node objects are not logged as graphs (counted as big)


# ---------------------------------------------------------------- rendering
def render(toks):
    """Token sequence -> text.  Tokens are their own representatives; they are
    separated by one blank; the token "EOL" is a line break (no blanks around
    it); a non-empty document ends with a line break."""
    out = []
    bol = True
    for t in toks:
        if t == "EOL":
            out.append("\n")
            bol = True
        else:
            if not bol:
                out.append(" ")
            out.append(t)
            bol = False
    if out and not bol:
        out.append("\n")
    return "".join(out)


def expand_pump(toks, at, tok, k):
    """`tok` repeated k times inserted after position `at` (0 = before the first token)."""
    return list(toks[:at]) + [tok] * k + list(toks[at:])


def split_tokens(text):
    """Purely syntactic inverse of render() for character-level prefixes: the
    blank-separated pieces of the text, line breaks as "EOL"."""
    out = []
    for li, line in enumerate(text.split("\n")):
        if li > 0:
            out.append("EOL")
        out.extend(p for p in line.split(" ") if p)
    return out


def budget_for(text, pump_k=0):
    """Line-event budget: about 30x the largest count measured for any terminating
    read of a document of that length (about 35 events per byte; the measured
    maximum is reported in the evidence), plus a quadratic allowance in the
    pump count."""
    return 40000 + 1000 * len(text) + 10 * pump_k * pump_k


# ---------------------------------------------------------------- entry points
# entry id -> (schema families it applies to)
ENTRIES = {
    "Tree.get": ("newick", "nexus"),
    "TreeList.get": ("newick", "nexus"),
    "DataSet.get": ("newick", "nexus", "phylip", "fasta"),
    "Matrix.get": ("nexus", "phylip", "fasta"),
    "Tree.yield_from_files": ("newick", "nexus"),
}


def _matrix_class(dendropy, name):
    return {"dna": dendropy.DnaCharacterMatrix, "standard": dendropy.StandardCharacterMatrix,
            "continuous": dendropy.ContinuousCharacterMatrix, "protein": dendropy.ProteinCharacterMatrix,
            "rna": dendropy.RnaCharacterMatrix}[name]


def reader_kwargs(fam, opts):
    """Reader keyword arguments of an option row (spec/ReaderInputs.tla: TreeOptionRows /
    LineOptionRows); row 0 is the defaults and passes nothing."""
    row = opts.get("row")
    kw = {}
    if fam == "phylip":
        inter = bool(opts.get("interleaved", False))
        kw = {"strict": bool(opts.get("strict", False)), "interleaved": inter}
        if row and opts.get("rowidx", 0) > 0:
            kw = {"strict": bool(row["strict"]), "interleaved": inter != bool(row["flip"]),
                  "multispace_delimiter": bool(row["multi"]), "ignore_invalid_chars": bool(row["ign"])}
        return kw
    if fam == "fasta" or not row or opts.get("rowidx", 0) == 0:
        return kw
    kw = {"terminating_semicolon_required": bool(row["tsr"]), "suppress_leaf_node_taxa": bool(row["slt"]),
          "suppress_internal_node_taxa": bool(row["sit"]), "suppress_edge_lengths": bool(row["sel"]),
          "preserve_underscores": bool(row["pu"])}
    if row["rooting"]:
        kw["rooting"] = row["rooting"]
    if fam == "nexus":
        kw["store_ignored_blocks"] = bool(row["sib"])
    return kw


def data_type_of(fam, opts):
    row = opts.get("row")
    if fam in ("phylip", "fasta") and row and opts.get("rowidx", 0) > 0:
        dt = row["dt"]
        # FASTA: "standard" needs a caller supplied alphabet; "continuous" is listed by the reader's
        # docstring but fails with AttributeError on every document (default_state_alphabet is None):
        # reported, not driven, so that the call-site class of fastareader._read stays discriminating
        return "dna" if (fam == "fasta" and dt in ("standard", "continuous")) else dt
    return opts.get("data_type", "dna")


SOURCE_KINDS = ["data", "stringio", "namedfile", "fdstream", "path"]
TMP_PREFIX = "c20_src_"


class _Source(object):
    """The text as one of the source kinds the public API accepts: data=<str>, file=<StringIO>,
    file=<named text file>, file=<stream whose .name is a file descriptor number
    (tempfile.TemporaryFile)>, path=<file name>.  Temporary files live under /tmp/c20_src_*."""

    def __init__(self, kind, text):
        import os
        import tempfile
        self.kind, self.text, self.path, self.fh = kind, text, None, None
        if kind in ("namedfile", "path"):
            fd, self.path = tempfile.mkstemp(prefix=TMP_PREFIX, suffix=".txt", dir="/tmp")
            with os.fdopen(fd, "w") as f:
                f.write(text)

    def kwargs(self):
        import tempfile
        if self.kind == "data":
            return {"data": self.text}
        if self.kind == "stringio":
            return {"file": io.StringIO(self.text)}
        if self.kind == "path":
            return {"path": self.path}
        if self.kind == "namedfile":
            self.fh = open(self.path, "r")
        else:
            self.fh = tempfile.TemporaryFile(mode="w+", prefix=TMP_PREFIX, dir="/tmp")
            self.fh.write(self.text)
            self.fh.seek(0)
        return {"file": self.fh}

    def yielder_files(self):
        kw = self.kwargs()
        return [kw["path"]] if "path" in kw else [kw["file"] if "file" in kw else io.StringIO(self.text)]

    def close(self):
        import os
        try:
            if self.fh is not None:
                self.fh.close()
        except Exception:
            pass
        if self.path is not None:
            try:
                os.remove(self.path)
            except OSError:
                pass


def make_call(dendropy, entry, fam, text, opts):
    """-> (zero-argument callable performing the read through the public API, source to close)."""
    schema = fam
    dt = data_type_of(fam, opts)
    kw = reader_kwargs(fam, opts)
    src = _Source(opts.get("src", "data"), text)
    if entry == "Tree.get":
        return (lambda: dendropy.Tree.get(schema=schema, **dict(kw, **src.kwargs()))), src
    if entry == "TreeList.get":
        return (lambda: dendropy.TreeList.get(schema=schema, **dict(kw, **src.kwargs()))), src
    if entry == "DataSet.get":
        if fam in ("phylip", "fasta"):
            return (lambda: dendropy.DataSet.get(schema=schema, data_type=dt, **dict(kw, **src.kwargs()))), src
        return (lambda: dendropy.DataSet.get(schema=schema, **dict(kw, **src.kwargs()))), src
    if entry == "Matrix.get":
        cls = _matrix_class(dendropy, dt)
        return (lambda: cls.get(schema=schema, **dict(kw, **src.kwargs()))), src
    if entry == "Tree.yield_from_files":
        return (lambda: list(dendropy.Tree.yield_from_files(files=src.yielder_files(), schema=schema, **kw))), src
    raise ValueError(entry)


# ---------------------------------------------------------------- sites
def _fname(code):
    fn = code.co_filename.rsplit("/", 1)[-1]
    if fn.endswith(".py"):
        fn = fn[:-3]
    return "%s.%s" % (fn, code.co_name)


def _is_lib(code):
    return "/dendropy/" in code.co_filename


def exception_site(ex):
    """Innermost dendropy frame (module.function) of the traceback.  For a
    RecursionError the innermost frame is wherever the interpreter's limit
    happened to be hit, so the site is the dendropy function that occurs most
    often on the traceback (the recursion cycle)."""
    frames = []
    tb = ex.__traceback__
    while tb is not None:
        co = tb.tb_frame.f_code
        if _is_lib(co):
            frames.append(_fname(co))
        tb = tb.tb_next
    if not frames:
        return ""
    if isinstance(ex, RecursionError):
        cnt = {}
        for f in frames:
            cnt[f] = cnt.get(f, 0) + 1
        best = max(cnt.values())
        for f in frames:            # first (outermost) of the most frequent
            if cnt[f] == best:
                return f
    return frames[-1]


def locate_loop(fn, limit):
    """Re-run a call that exhausted its budget and report the frame that holds
    the loop: the innermost dendropy frame object that is on the stack at
    1/2, 3/4 and the end of the budget (frames of calls made from inside the
    loop body are created afresh on every iteration, so they differ)."""
    marks = [limit // 2, (3 * limit) // 4, limit]
    state = {"n": 0, "k": 0, "stacks": []}

    def snap(frame):
        st = []
        f = frame
        while f is not None:
            if _is_lib(f.f_code):
                st.append(f)
            f = f.f_back
        st.reverse()
        return st

    def local(frame, event, arg):
        if event == "line":
            state["n"] += 1
            if state["n"] >= marks[state["k"]]:
                state["stacks"].append(snap(frame))
                state["k"] += 1
                if state["k"] >= len(marks):
                    raise StepBudgetExceeded("locate")
        return local

    def glob(frame, event, arg):
        if "dendropy" in frame.f_code.co_filename:
            return local
        return None

    old = sys.gettrace()
    sys.settrace(glob)
    try:
        try:
            fn()
        except StepBudgetExceeded:
            pass
        except BaseException:
            return ""
    finally:
        sys.settrace(old)
    stacks = state["stacks"]
    if len(stacks) < len(marks):
        return ""
    site = ""
    for i, f in enumerate(stacks[0]):
        if all(len(s) > i and s[i] is f for s in stacks[1:]):
            site = _fname(f.f_code)
        else:
            break
    return site


# ---------------------------------------------------------------- projection of results
def _count_nodes(tree, cap):
    seed = getattr(tree, "_seed_node", None)
    if seed is None:
        return 0
    n = 0
    st = [seed]
    seen = set()
    while st and n <= cap:
        nd = st.pop()
        if id(nd) in seen:
            continue
        seen.add(id(nd))
        n += 1
        st.extend(list(getattr(nd, "_child_nodes", ()) or ()))
    return n


def _trees_of(entry, val):
    if val is None:
        return []
    if entry == "Tree.get":
        return [val]
    if entry == "TreeList.get":
        return list(getattr(val, "_trees", []) or [])
    if entry == "DataSet.get":
        out = []
        for tl in list(val.tree_lists):
            out.extend(list(getattr(tl, "_trees", []) or []))
        return out
    if entry == "Tree.yield_from_files":
        return list(val)
    return []


def _matrices_of(entry, val):
    if val is None:
        return []
    if entry == "DataSet.get":
        return list(val.char_matrices)
    if entry == "Matrix.get":
        return [val]
    return []


def project_result(entry, val):
    trees, big = [], 0
    for t in _trees_of(entry, val):
        if t is None or not hasattr(t, "_seed_node"):
            trees.append({"n": 0, "seed": 0, "kids": [], "par": [], "eh": [], "eid": [], "tx": [], "len": [],
                          "lab": [], "rooted": -1})
            continue
        if _count_nodes(t, TREE_NODE_CAP) > TREE_NODE_CAP:
            big += 1
            continue
        g = proj.tree_graph(t, labels=False)
        g["len"] = [0 if x >= 0 or x == -2 else -1 for x in g["len"]]   # lengths are not part of C20
        trees.append(g)
    mats = []
    for m in _matrices_of(entry, val):
        mp = getattr(m, "_taxon_sequence_map", {})
        mats.append({"rows": [len(v) for v in mp.values()], "dtype": str(getattr(m, "data_type", "") or "")})
    return trees, big, mats


def run_entry(dendropy, entry, fam, text, opts, pump_k=0):
    """One read under the budget -> the Read event (without the token fields)."""
    limit = budget_for(text, pump_k)
    call, src = make_call(dendropy, entry, fam, text, opts)
    try:
        kind, val, steps = run_with_budget(call, limit)
    finally:
        src.close()
    ev = {"action": "Read", "entry": entry, "fam": fam, "kind": kind, "exc": "", "mro": [], "site": "",
          "src": opts.get("src", "data"), "trees": [], "mats": [], "big": 0, "steps": int(steps), "limit": int(limit)}
    if kind == "ok":
        ev["trees"], ev["big"], ev["mats"] = project_result(entry, val)
    elif kind == "exc":
        ev["exc"] = type(val).__name__
        ev["mro"] = [c.__name__ for c in type(val).__mro__]
        ev["site"] = exception_site(val)
    else:
        call2, src2 = make_call(dendropy, entry, fam, text, opts)
        try:
            ev["site"] = locate_loop(call2, max(20000, limit // 2)) or str(val)
        finally:
            src2.close()
    return ev
