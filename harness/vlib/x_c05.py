"""C05 helpers: builders (clade hierarchies -> nested form, random samples of
related trees) and purely syntactic projections (floats -> rationals, labels ->
scaled integers, order of reported scores, SplitDistribution -> abstract state).

No oracle lives here: nothing in this file computes a frequency, a consensus,
a summary or a score.
"""
import math
from fractions import Fraction

from . import proj

# ------------------------------------------------------------------ projections


def frat(x, max_den=1000):
    """observed number -> [num, den] (den 0 = no finite real value observed)"""
    if x is None or isinstance(x, bool) or isinstance(x, complex):
        return [0, 0]
    try:
        xf = float(x)
    except Exception:
        return [0, 0]
    if math.isnan(xf) or math.isinf(xf):
        return [0, 0]
    f = Fraction(xf).limit_denominator(max_den)
    if abs(f.numerator) >= 2 ** 30 or f.denominator >= 2 ** 30:
        return [0, 0]
    return [f.numerator, f.denominator]


def inexact(x, max_den=1000):
    """does the representation of frat() miss the observed float by more than the DESIGN 3.2 tolerance?"""
    r = frat(x, max_den)
    if r[1] == 0:
        return False
    return abs(float(Fraction(r[0], r[1])) - float(x)) > 1e-12 * max(1.0, abs(float(x)))


def parse_label(lab, dec):
    """'57.14' with dec=2 -> [5714, 1]; anything that is not a plain decimal with `dec` decimals -> [0, 0]"""
    if not isinstance(lab, str):
        return [0, 0]
    s = lab.strip()
    whole, dot, frac = s.partition(".")
    if dec == 0:
        if dot or not whole.isdigit():
            return [0, 0]
        return [int(whole), 1]
    if not dot or not whole.isdigit() or not frac.isdigit() or len(frac) != dec:
        return [0, 0]
    v = int(whole + frac)
    if v >= 2 ** 30:
        return [0, 0]
    return [v, 1]


def dense_ranks(xs):
    """order of the reported floats: 0 for the smallest value, equal values share a rank"""
    vals = sorted(set(xs))
    pos = dict((v, i) for i, v in enumerate(vals))
    return [pos[x] for x in xs]


def proj_dist(sd):
    """SplitDistribution -> abstract state (spec/SplitDist.tla): parallel arrays over the splits"""
    keys = sorted(sd.split_counts.keys())
    lens = getattr(sd, "split_edge_lengths", {})
    ages = getattr(sd, "split_node_ages", {})
    d = {"n": int(sd.total_trees_counted), "sw": frat(sd.sum_of_tree_weights, 1024),
         "roots": sorted(set(1 if x else 0 for x in sd.tree_rooting_types_counted)),
         "sp": [proj.codes_of_mask(k) for k in keys],
         "cnt": [frat(sd.split_counts[k], 1024) for k in keys],
         "len": [[proj.scaled_len(v) for v in (lens.get(k) or [])] if k in lens else [] for k in keys],
         "age": [[proj.scaled_len(v) for v in (ages.get(k) or [])] if k in ages else [] for k in keys]}
    return d


def freq_table(sd):
    f = sd.split_frequencies
    keys = sorted(f.keys())
    return [proj.codes_of_mask(k) for k in keys], [frat(f[k], 1000) for k in keys]


NOA = {"has": False}


def annot_block(order, opts):
    """attributes set by summarize_splits_on_tree on the nodes / edges, per node in id order"""
    dec = opts.get("dec", 4)
    a = {"has": True, "pct": bool(opts.get("pct")), "dec": dec, "aslab": bool(opts.get("aslab")),
         "sel": opts.get("sel") or "none",
         "sup": [], "lab": [], "lmean": [], "lmed": [], "lvar": [], "lmin": [], "lmax": [],
         "amean": [], "amed": [], "avar": [], "amin": [], "amax": [], "elen": [], "nage": []}
    n_inexact = 0

    def rng2(v):
        if isinstance(v, (tuple, list)) and len(v) == 2:
            return frat(v[0], 8), frat(v[1], 8)
        return [0, 0], [0, 0]

    def var_of(sd_):
        if sd_ is None or isinstance(sd_, complex):
            return [0, 0]
        try:
            return frat(float(sd_) * float(sd_), 40000)
        except Exception:
            return [0, 0]

    for nd in order:
        e = nd._edge
        a["sup"].append(frat(getattr(nd, "support", None), 1000))
        a["lab"].append(parse_label(getattr(nd, "_label", None), dec) if a["aslab"] else [0, 0])
        a["lmean"].append(frat(getattr(e, "length_mean", None), 1000))
        a["lmed"].append(frat(getattr(e, "length_median", None), 16))
        a["lvar"].append(var_of(getattr(e, "length_sd", None)))
        lo, hi = rng2(getattr(e, "length_range", None))
        a["lmin"].append(lo)
        a["lmax"].append(hi)
        a["amean"].append(frat(getattr(nd, "age_mean", None), 1000))
        a["amed"].append(frat(getattr(nd, "age_median", None), 16))
        a["avar"].append(var_of(getattr(nd, "age_sd", None)))
        lo, hi = rng2(getattr(nd, "age_range", None))
        a["amin"].append(lo)
        a["amax"].append(hi)
        a["elen"].append(frat(getattr(e, "length", None), 1000))
        a["nage"].append(frat(getattr(nd, "age", None), 1000))
        for v, md in ((getattr(nd, "support", None), 1000), (getattr(e, "length_mean", None), 1000)):
            if isinstance(v, float) and not (math.isnan(v) or math.isinf(v)) and inexact(v, md):
                n_inexact += 1
    return a, n_inexact


# ------------------------------------------------------------------ builders
# a hierarchy is a set of frozensets of leaf positions (0-based indices into the taxon list), non-trivial clades only

def nested_from_clades(clades, nleaves, lens=None, rng=None, p_unif=0.0, label_internal=False):
    """hierarchy -> nested form [label, taxon_index, length, children]; lens: frozenset -> length (missing = None);
    child order shuffled and unifurcations inserted when an rng is given"""
    allc = frozenset(range(nleaves))
    nodes = set(frozenset(c) for c in clades)
    nodes.add(allc)
    for t in range(nleaves):
        nodes.add(frozenset([t]))
    order = sorted(nodes, key=lambda c: (-len(c), min(c)))
    kids = dict((c, []) for c in order)
    for c in order:
        if c == allc:
            continue
        par = None
        for p in order:
            if len(p) > len(c) and c < p and (par is None or len(p) < len(par)):
                par = p
        kids[par].append(c)
    lens = lens or {}
    cnt = [0]

    def mk(c):
        ch = list(kids[c])
        if rng is not None:
            rng.shuffle(ch)
        cnt[0] += 1
        nd = ["i%d" % cnt[0] if (label_internal and len(c) > 1) else None, min(c) if len(c) == 1 else None, lens.get(c), [mk(x) for x in ch]]
        if rng is not None and p_unif > 0 and c != allc and rng.random() < p_unif:
            # split the edge: a unifurcation above the node, the two edges share the length
            ln = nd[2]
            if ln is None:
                nd = [None, None, None, [nd]]
            else:
                q = int(round(ln * 4))
                a = (rng.randint(0, q) / 4.0) if q > 0 else 0.0
                nd[2] = ln - a
                nd = [None, None, a, [nd]]
        return nd
    return mk(allc)


def compatible(a, b):
    return not (a & b) or a <= b or b <= a


def random_hierarchy(rng, n, p_resolve=0.85):
    """random hierarchy on positions 0..n-1 grown by repeatedly grouping children of a node"""
    allc = frozenset(range(n))
    H = set()
    groups = {allc: [frozenset([t]) for t in range(n)]}
    work = [allc]
    while work:
        c = work.pop()
        ch = groups[c]
        while len(ch) > 2 and rng.random() < p_resolve:
            k = rng.randint(2, len(ch) - 1)
            pick = rng.sample(ch, k)
            new = frozenset().union(*pick)
            ch = [x for x in ch if x not in pick] + [new]
            groups[new] = pick
            H.add(new)
            work.append(new)
        groups[c] = ch
    return H


def perturb(rng, H, n, moves):
    """a related hierarchy: drop clades, regroup, move single leaves"""
    H = set(H)
    allc = frozenset(range(n))
    for _ in range(moves):
        r = rng.random()
        if r < 0.3 and H:
            H.discard(rng.choice(sorted(H, key=sorted)))
        elif r < 0.6:
            # move one leaf somewhere else
            t = rng.randrange(n)
            H2 = set()
            for c in H:
                c2 = c - {t}
                if len(c2) >= 2:
                    H2.add(frozenset(c2))
            targets = [c for c in H2] + [allc]
            tgt = rng.choice(sorted(targets, key=sorted))
            H3 = set()
            for c in H2:
                H3.add(frozenset(c | {t}) if tgt <= c else c)
            H = set(c for c in H3 if 2 <= len(c) < n)
        else:
            # group some children of a node
            nodes = sorted(H | {allc}, key=sorted)
            c = rng.choice(nodes)
            sub = [x for x in H if x < c]
            top = [x for x in sub if not any(x < y for y in sub)]
            cov = frozenset().union(*top) if top else frozenset()
            ch = top + [frozenset([t]) for t in c - cov]
            if len(ch) > 2:
                k = rng.randint(2, len(ch) - 1)
                new = frozenset().union(*rng.sample(ch, k))
                if all(compatible(new, x) for x in H) and 2 <= len(new) < n:
                    H.add(new)
    return H


def random_lengths(rng, H, n, mode):
    """mode 'none': no lengths; 'num': every non-root edge a multiple of 1/4; 'ultra': ultrametric (node heights)"""
    allc = frozenset(range(n))
    nodes = set(H) | {allc} | set(frozenset([t]) for t in range(n))
    if mode == "none":
        return {}
    if mode == "num":
        lens = dict((c, rng.choice((0.0, 0.25, 0.5, 1.0, 1.0, 1.5, 2.0, 3.0))) for c in nodes if c != allc)
        if rng.random() < 0.3:
            lens[allc] = rng.choice((0.5, 1.0))
        return lens
    # ultrametric: heights bottom-up
    h = {}
    for c in sorted(nodes, key=len):
        if len(c) == 1:
            h[c] = 0.0
        else:
            sub = [x for x in nodes if x < c]
            h[c] = max(h[x] for x in sub) + rng.choice((0.25, 0.5, 1.0, 1.5))
    lens = {}
    for c in nodes:
        if c == allc:
            continue
        par = min((p for p in nodes if c < p), key=len)
        lens[c] = h[par] - h[c]
    return lens
