"""Deterministic hang detection (DESIGN 1.4): a sys.settrace line counter
restricted to frames whose code lives under dendropy/; exceeding the budget
raises StepBudgetExceeded (a BaseException, so library `except Exception`
clauses cannot swallow it)."""
import sys


class StepBudgetExceeded(BaseException):
    pass


class _Counter(object):
    __slots__ = ("n", "limit", "where")

    def __init__(self, limit):
        self.n = 0
        self.limit = limit
        self.where = None


def run_with_budget(fn, limit=300000, marker="dendropy"):
    """Returns (kind, value, steps): kind in {"ok","exc","hang"}."""
    c = _Counter(limit)

    def local(frame, event, arg):
        if event == "line":
            c.n += 1
            if c.n > c.limit:
                co = frame.f_code
                c.where = "%s.%s" % (co.co_filename.rsplit("/", 1)[-1][:-3], co.co_name)
                raise StepBudgetExceeded(c.where)
        return local

    def glob(frame, event, arg):
        if marker in frame.f_code.co_filename:
            return local
        return None

    old = sys.gettrace()
    sys.settrace(glob)
    try:
        try:
            v = fn()
            return ("ok", v, c.n)
        except StepBudgetExceeded:
            return ("hang", c.where, c.n)
        except RecursionError as ex:
            return ("exc", ex, c.n)
        except Exception as ex:
            return ("exc", ex, c.n)
    finally:
        sys.settrace(old)
